(* C15 theory, part 1: the association-list operations, the index tables against their
   declarative reading of the jar, the work-list against the transitive closure, the bridge
   predicate, and the collecting loop (bridge_iff and its near-miss corollaries). *)
From FB Require Import C15.Model.
From Coq Require Import Relations.Relation_Operators Arith.PeanoNat.

(* ------------------------------------------------------------------ *)
(* boolean equalities *)
Lemma key2_eqb_eq (a b : str * str) : key2_eqb a b = true <-> a = b.
Proof.
  destruct a as [a1 a2], b as [b1 b2]. unfold key2_eqb. cbn [fst snd].
  rewrite andb_true_iff, !str_eqb_eq. split; [intros [-> ->]; reflexivity|intros [= -> ->]; auto].
Qed.

Lemma mref_eqb_eq (a b : mref) : mref_eqb a b = true <-> a = b.
Proof.
  destruct a as [a1 a2], b as [b1 b2]. unfold mref_eqb. cbn [fst snd].
  rewrite andb_true_iff, str_eqb_eq, key2_eqb_eq. split; [intros [-> ->]; reflexivity|intros [= -> ->]; auto].
Qed.

Definition eq_dec_b {A} (eqb : A -> A -> bool) : Prop := forall a b, eqb a b = true <-> a = b.

Lemma str_eqb_dec : eq_dec_b str_eqb. Proof. exact str_eqb_eq. Qed.
Lemma mref_eqb_dec : eq_dec_b mref_eqb. Proof. exact mref_eqb_eq. Qed.
Lemma key_eqb_dec : eq_dec_b key_eqb. Proof. exact key2_eqb_eq. Qed.

Lemma eqb_refl_of {A} (eqb : A -> A -> bool) : eq_dec_b eqb -> forall a, eqb a a = true.
Proof. intros H a. apply H. reflexivity. Qed.

Lemma eqb_false_of {A} (eqb : A -> A -> bool) : eq_dec_b eqb -> forall a b, eqb a b = false <-> a <> b.
Proof.
  intros H a b. split.
  - intros E Hab. apply H in Hab. congruence.
  - intros Hn. destruct (eqb a b) eqn:E; [|reflexivity]. apply H in E. contradiction.
Qed.

(* ------------------------------------------------------------------ *)
(* sets *)
Lemma set_mem_In {A} (eqb : A -> A -> bool) (H : eq_dec_b eqb) x l : set_mem eqb x l = true <-> In x l.
Proof.
  unfold set_mem. rewrite existsb_exists. split.
  - intros (y & Hy & E). apply H in E. subst. exact Hy.
  - intros Hx. exists x. split; [exact Hx|apply (eqb_refl_of eqb H)].
Qed.

Lemma set_add_In {A} (eqb : A -> A -> bool) (H : eq_dec_b eqb) x y l : In y (set_add eqb x l) <-> y = x \/ In y l.
Proof.
  unfold set_add. destruct (set_mem eqb x l) eqn:E.
  - apply (set_mem_In eqb H) in E. split; [auto|intros [->|Hy]; auto].
  - rewrite in_app_iff. cbn [In]. split; [intros [Hy|[<-|[]]]; auto|intros [->|Hy]; auto].
Qed.

Lemma set_add_NoDup {A} (eqb : A -> A -> bool) (H : eq_dec_b eqb) x l : NoDup l -> NoDup (set_add eqb x l).
Proof.
  intros Hn. unfold set_add. destruct (set_mem eqb x l) eqn:E; [exact Hn|].
  assert (Hx : ~ In x l) by (intros Hx; apply (set_mem_In eqb H) in Hx; congruence).
  clear E. induction l as [|a l IH]; cbn [app].
  - constructor; [intros []|constructor].
  - inversion Hn as [|? ? Ha Hl]; subst. constructor.
    + rewrite in_app_iff. cbn [In]. intros [Hin|[->|[]]]; [contradiction|apply Hx; left; reflexivity].
    + apply IH; [exact Hl|intros Hin; apply Hx; right; exact Hin].
Qed.

Lemma set_extend_In {A} (eqb : A -> A -> bool) (H : eq_dec_b eqb) xs y l :
  In y (set_extend eqb xs l) <-> In y xs \/ In y l.
Proof.
  unfold set_extend. revert l. induction xs as [|x xs IH]; intros l; cbn [fold_left In].
  - tauto.
  - rewrite IH, (set_add_In eqb H). split; [intros [Hy|[->|Hy]]; auto|intros [[->|Hy]|Hy]; auto].
Qed.

Lemma set_extend_NoDup {A} (eqb : A -> A -> bool) (H : eq_dec_b eqb) xs l : NoDup l -> NoDup (set_extend eqb xs l).
Proof.
  unfold set_extend. revert l. induction xs as [|x xs IH]; intros l Hn; cbn [fold_left]; [exact Hn|].
  apply IH, (set_add_NoDup eqb H), Hn.
Qed.

(* ------------------------------------------------------------------ *)
(* maps *)
Lemma map_get_put_same {K V} (eqb : K -> K -> bool) (H : eq_dec_b eqb) (k : K) (v : V) l :
  map_get eqb k (map_put eqb k v l) = Some v.
Proof.
  induction l as [|[k' v'] l IH]; cbn [map_put map_get].
  - rewrite (eqb_refl_of eqb H). reflexivity.
  - destruct (eqb k k') eqn:E; cbn [map_get]; rewrite E; [reflexivity|exact IH].
Qed.

Lemma map_get_put_other {K V} (eqb : K -> K -> bool) (H : eq_dec_b eqb) (k k2 : K) (v : V) l :
  k2 <> k -> map_get eqb k2 (map_put eqb k v l) = map_get eqb k2 l.
Proof.
  intros Hn. induction l as [|[k' v'] l IH]; cbn [map_put map_get].
  - assert (E : eqb k2 k = false) by (apply (eqb_false_of eqb H); exact Hn). rewrite E. reflexivity.
  - destruct (eqb k k') eqn:E; cbn [map_get].
    + apply H in E. subst k'. assert (E2 : eqb k2 k = false) by (apply (eqb_false_of eqb H); exact Hn).
      rewrite E2. reflexivity.
    + destruct (eqb k2 k'); [reflexivity|exact IH].
Qed.

Lemma map_get_upd_same {K V} (eqb : K -> K -> bool) (H : eq_dec_b eqb) (k : K) (d : V) f l :
  map_get eqb k (map_upd eqb k d f l) = Some (f (match map_get eqb k l with Some v => v | None => d end)).
Proof.
  induction l as [|[k' v'] l IH]; cbn [map_upd map_get].
  - rewrite (eqb_refl_of eqb H). reflexivity.
  - destruct (eqb k k') eqn:E; cbn [map_get]; rewrite E; [reflexivity|exact IH].
Qed.

Lemma map_get_upd_other {K V} (eqb : K -> K -> bool) (H : eq_dec_b eqb) (k k2 : K) (d : V) f l :
  k2 <> k -> map_get eqb k2 (map_upd eqb k d f l) = map_get eqb k2 l.
Proof.
  intros Hn. induction l as [|[k' v'] l IH]; cbn [map_upd map_get].
  - assert (E : eqb k2 k = false) by (apply (eqb_false_of eqb H); exact Hn). rewrite E. reflexivity.
  - destruct (eqb k k') eqn:E; cbn [map_get].
    + apply H in E. subst k'. assert (E2 : eqb k2 k = false) by (apply (eqb_false_of eqb H); exact Hn).
      rewrite E2. reflexivity.
    + destruct (eqb k2 k'); [reflexivity|exact IH].
Qed.

(* keys of a map built by put: pairwise distinct, so membership of a pair is a lookup *)
Lemma map_put_keys {K V} (eqb : K -> K -> bool) (H : eq_dec_b eqb) (k : K) (v : V) l k2 :
  In k2 (map fst (map_put eqb k v l)) <-> k2 = k \/ In k2 (map fst l).
Proof.
  induction l as [|[k' v'] l IH]; cbn [map_put map In fst].
  - split; [intros [<-|[]]; auto|intros [->|[]]; auto].
  - destruct (eqb k k') eqn:E; cbn [map In fst].
    + apply H in E. subst k'. split; [intros [<-|Hi]; auto|intros [->|[<-|Hi]]; auto].
    + rewrite IH. split; [intros [<-|[->|Hi]]; auto|intros [->|[<-|Hi]]; auto].
Qed.

Lemma map_put_NoDup {K V} (eqb : K -> K -> bool) (H : eq_dec_b eqb) (k : K) (v : V) l :
  NoDup (map fst l) -> NoDup (map fst (map_put eqb k v l)).
Proof.
  induction l as [|[k' v'] l IH]; cbn [map_put map fst]; intros Hn.
  - constructor; [intros []|constructor].
  - inversion Hn as [|? ? Ha Hl]; subst. destruct (eqb k k') eqn:E; cbn [map fst].
    + constructor; assumption.
    + constructor; [|apply IH; exact Hl].
      rewrite (map_put_keys eqb H). intros [->|Hi]; [|contradiction].
      rewrite (eqb_refl_of eqb H) in E. discriminate.
Qed.

Lemma map_get_In {K V} (eqb : K -> K -> bool) (H : eq_dec_b eqb) (k : K) (v : V) l :
  NoDup (map fst l) -> (In (k, v) l <-> map_get eqb k l = Some v).
Proof.
  induction l as [|[k' v'] l IH]; cbn [map fst map_get In]; intros Hn.
  - split; [intros []|discriminate].
  - inversion Hn as [|? ? Ha Hl]; subst. destruct (eqb k k') eqn:E.
    + apply H in E. subst k'. split.
      * intros [[= ->]|Hi]; [reflexivity|]. exfalso. apply Ha. apply (in_map fst) in Hi. exact Hi.
      * intros [= ->]. left. reflexivity.
    + rewrite <- (IH Hl). split; [intros [[= -> ->]|Hi]; [|exact Hi]|auto].
      rewrite (eqb_refl_of eqb H) in E. discriminate.
Qed.

Lemma map_get_Some_In {K V} (eqb : K -> K -> bool) (H : eq_dec_b eqb) (k : K) (v : V) l :
  map_get eqb k l = Some v -> In (k, v) l.
Proof.
  induction l as [|[k' v'] l IH]; cbn [map_get In]; [discriminate|].
  destruct (eqb k k') eqn:E; [|auto]. apply H in E. subst. intros [= ->]. left. reflexivity.
Qed.
Lemma map_put_fresh {K V} (eqb : K -> K -> bool) (H : eq_dec_b eqb) (k : K) (v : V) l :
  ~ In k (map fst l) -> map_put eqb k v l = l ++ [(k, v)].
Proof.
  induction l as [|[k' v'] l IH]; cbn [map_put map fst In app]; intros Hn; [reflexivity|].
  destruct (eqb k k') eqn:E.
  - apply H in E. subst. exfalso. apply Hn. left. reflexivity.
  - f_equal. apply IH. intros Hi. apply Hn. right. exact Hi.
Qed.

Lemma fold_step_Err fuel cls P C refs l : fold_left (step fuel cls P C refs) l Err = Err.
Proof. induction l as [|e l IH]; cbn [fold_left step]; [reflexivity|exact IH]. Qed.

Lemma loop_spec fuel cls P C refs l : forall b2s0 s2b0 b2s s2b,
  NoDup (map fst l) -> (forall k, In k (map fst b2s0) -> ~ In k (map fst l)) ->
  fold_left (step fuel cls P C refs) l (Ok (b2s0, s2b0)) = Ok (b2s, s2b) ->
  forall b s, In (b, s) b2s <-> In (b, s) b2s0 \/ exists a, In (b, a) l /\ decide fuel cls P refs b a = Ok (Some s).
Proof.
  induction l as [|[b1 a1] l IH]; intros b2s0 s2b0 b2s s2b Hnd Hdisj Hf b s.
  - cbn [fold_left] in Hf. injection Hf as -> ->. split; [auto|intros [Hi|(a & [] & _)]; exact Hi].
  - cbn [map fst] in Hnd. inversion Hnd as [|? ? Hb1 Hnd']; subst.
    cbn [fold_left] in Hf. unfold step at 2 in Hf. cbn [fst snd] in Hf.
    destruct (decide fuel cls P refs b1 a1) as [[s1|]|] eqn:Ed.
    + destruct (match map_get mref_eqb s1 s2b0 with Some other => get_higher fuel C b1 other | None => Ok b1 end) as [keep|] eqn:Ek.
      2:{ rewrite fold_step_Err in Hf. discriminate. }
      assert (Hfresh : ~ In b1 (map fst b2s0)).
      { intros Hi. apply (Hdisj _ Hi). left. reflexivity. }
      rewrite (map_put_fresh mref_eqb mref_eqb_dec _ _ _ Hfresh) in Hf.
      assert (HD : forall k, In k (map fst (b2s0 ++ [(b1, s1)])) -> ~ In k (map fst l)).
      { intros k. rewrite map_app, in_app_iff. cbn [map fst In]. intros [Hi|[<-|[]]].
        -- intros Hk. apply (Hdisj _ Hi). right. exact Hk.
        -- exact Hb1. }
      rewrite (IH _ _ _ _ Hnd' HD Hf).
      * rewrite in_app_iff. cbn [In]. split.
        -- intros [[Hi|[[= <- <-]|[]]]|(a & Hi & Hd)].
           ++ left. exact Hi.
           ++ right. exists a1. split; [left; reflexivity|exact Ed].
           ++ right. exists a. split; [right; exact Hi|exact Hd].
        -- intros [Hi|(a & [[= <- <-]|Hi] & Hd)].
           ++ left. left. exact Hi.
           ++ left. right. left. rewrite Ed in Hd. injection Hd as ->. reflexivity.
           ++ right. exists a. split; [exact Hi|exact Hd].
    + assert (HD : forall k, In k (map fst b2s0) -> ~ In k (map fst l)).
      { intros k Hi Hk. apply (Hdisj _ Hi). right. exact Hk. }
      rewrite (IH _ _ _ _ Hnd' HD Hf).
      * split.
        -- intros [Hi|(a & Hi & Hd)]; [left; exact Hi|right; exists a; split; [right; exact Hi|exact Hd]].
        -- intros [Hi|(a & [[= <- <-]|Hi] & Hd)]; [left; exact Hi| |right; exists a; split; assumption].
           rewrite Ed in Hd. discriminate.
    + rewrite fold_step_Err in Hf. discriminate.
Qed.
(* every element of the loop was decided without running out of fuel *)
Lemma loop_ok fuel cls P C refs l : forall st r,
  fold_left (step fuel cls P C refs) l st = Ok r ->
  forall b a, In (b, a) l -> exists o, decide fuel cls P refs b a = Ok o.
Proof.
  induction l as [|[b1 a1] l IH]; intros st r Hf b a Hi; [destruct Hi|].
  cbn [fold_left] in Hf. destruct Hi as [[= -> ->]|Hi]; [|exact (IH _ _ Hf _ _ Hi)].
  destruct st as [[b2s0 s2b0]|]; [|cbn [step] in Hf; rewrite fold_step_Err in Hf; discriminate].
  unfold step at 2 in Hf. cbn [fst snd] in Hf.
  destruct (decide fuel cls P refs b a) as [o|] eqn:Ed; [exists o; reflexivity|].
  rewrite fold_step_Err in Hf. discriminate.
Qed.

Lemma fold_put_NoDup {K V E} (eqb : K -> K -> bool) (H : eq_dec_b eqb) (f : E -> K) (g : E -> V) (l : list E) : forall init,
  NoDup (map fst init) -> NoDup (map fst (fold_left (fun ms e => map_put eqb (f e) (g e) ms) l init)).
Proof.
  induction l as [|e l IH]; intros init Hn; cbn [fold_left]; [exact Hn|].
  apply IH, (map_put_NoDup eqb H), Hn.
Qed.

Lemma ix_methods_NoDup J : NoDup (map fst (ix_methods J)).
Proof. unfold ix_methods. apply (fold_put_NoDup mref_eqb mref_eqb_dec). constructor. Qed.

(* the collecting loop at the level of the index *)
Lemma bridge_index J b2s s2b :
  get_specialized J = Ok (b2s, s2b) ->
  forall b s, In (b, s) b2s <->
    exists a, map_get mref_eqb b (ix_methods J) = Some a /\
              decide (jar_fuel J) (ix_classes J) (ix_parents J) (ix_refs J) b a = Ok (Some s).
Proof.
  unfold get_specialized. intros Hf b s.
  rewrite (loop_spec _ _ _ _ _ _ _ _ _ _ (ix_methods_NoDup J) (fun k (Hk : In k (map fst (@nil (mref * mref)))) => match Hk with end) Hf).
  cbn [In]. split.
  - intros [[]|(a & Hi & Hd)]. exists a. split; [|exact Hd].
    apply (map_get_In mref_eqb mref_eqb_dec); [apply ix_methods_NoDup|exact Hi].
  - intros (a & Hg & Hd). right. exists a. split; [|exact Hd].
    apply (map_get_Some_In mref_eqb mref_eqb_dec). exact Hg.
Qed.

Lemma decided J r : get_specialized J = Ok r ->
  forall b a, map_get mref_eqb b (ix_methods J) = Some a ->
  exists o, decide (jar_fuel J) (ix_classes J) (ix_parents J) (ix_refs J) b a = Ok o.
Proof.
  unfold get_specialized. intros Hf b a Hg.
  apply (loop_ok _ _ _ _ _ _ _ _ Hf). apply (map_get_Some_In mref_eqb mref_eqb_dec). exact Hg.
Qed.


(* ------------------------------------------------------------------ *)
(* declarative reading of the jar *)
Definition in_jar (J : jar) (c : str) : Prop := exists jc, In jc J /\ jc_name jc = c.
(* c names p as its super class (other than java/lang/Object) or as one of its interfaces *)
Definition parent (J : jar) (c p : str) : Prop := exists jc, In jc J /\ jc_name jc = c /\ In p (edges_of jc).
Definition ancestor (J : jar) : str -> str -> Prop := clos_trans_1n str (parent J).

(* the access flags the index holds for a method reference: the last method of the jar with
   that class, name and descriptor (unique in a jar with distinct classes and methods) *)
Definition access_of (J : jar) (b : mref) : option acc :=
  fold_left (fun o e => if mref_eqb b (fst e) then Some (jm_acc (snd e)) else o) (jar_methods J) None.
(* the body of (some method with reference) b invokes the object-class method r *)
Definition invoked_in (l : list (mref * jmeth)) (b r : mref) : Prop :=
  exists m c, In (b, m) l /\ jm_code m = Some c /\ In r (targets c) /\ is_obj_ref r = true.
Definition invoked (J : jar) : mref -> mref -> Prop := invoked_in (jar_methods J).

(* ---- ix_methods ---- *)
Lemma fold_put_get {K V T} (eqb : K -> K -> bool) (H : eq_dec_b eqb) (f : T -> K) (g : T -> V) (k : K) (l : list T) : forall init,
  map_get eqb k (fold_left (fun ms e => map_put eqb (f e) (g e) ms) l init)
  = fold_left (fun o e => if eqb k (f e) then Some (g e) else o) l (map_get eqb k init).
Proof.
  induction l as [|e l IH]; intros init; cbn [fold_left]; [reflexivity|].
  rewrite IH. f_equal. destruct (eqb k (f e)) eqn:E.
  - apply H in E. subst k. apply (map_get_put_same eqb H).
  - apply (map_get_put_other eqb H). intros ->. rewrite (eqb_refl_of eqb H) in E. discriminate.
Qed.

Lemma ix_methods_get J b : map_get mref_eqb b (ix_methods J) = access_of J b.
Proof. unfold ix_methods, access_of. rewrite (fold_put_get mref_eqb mref_eqb_dec). reflexivity. Qed.

(* ---- ix_classes ---- *)
Lemma ix_classes_spec J c : mem_str c (ix_classes J) = true <-> in_jar J c.
Proof.
  unfold mem_str, ix_classes, in_jar. rewrite (set_mem_In str_eqb str_eqb_dec), (set_extend_In str_eqb str_eqb_dec).
  rewrite in_map_iff. cbn [In]. split.
  - intros [(jc & E & Hi)|[]]. exists jc. auto.
  - intros (jc & Hi & E). left. exists jc. auto.
Qed.

(* ---- ix_refs ---- *)
Definition refs_inv (l : list (mref * jmeth)) (rs : list (mref * list mref)) : Prop :=
  forall b, match map_get mref_eqb b rs with
            | Some c => NoDup c /\ (forall r, In r c <-> invoked_in l b r)
            | None => forall r, ~ invoked_in l b r
            end.

Lemma invoked_in_snoc l e b r :
  invoked_in (l ++ [e]) b r <->
  invoked_in l b r \/ (fst e = b /\ exists c, jm_code (snd e) = Some c /\ In r (targets c) /\ is_obj_ref r = true).
Proof.
  unfold invoked_in. split.
  - intros (m & c & Hi & Hc & Hr & Ho). apply in_app_iff in Hi. destruct Hi as [Hi|[Ee|[]]].
    + left. exists m, c. auto.
    + right. subst e. cbn [fst snd]. split; [reflexivity|]. exists c. auto.
  - intros [(m & c & Hi & Hc & Hr & Ho)|(<- & c & Hc & Hr & Ho)].
    + exists m, c. rewrite in_app_iff. auto.
    + exists (snd e), c. rewrite in_app_iff. split; [right; left; destruct e; reflexivity|auto].
Qed.

Lemma refs_step l rs e : refs_inv l rs ->
  refs_inv (l ++ [e]) (match jm_code (snd e) with
                       | Some c => map_upd mref_eqb (fst e) [] (set_extend mref_eqb (filter is_obj_ref (targets c))) rs
                       | None => rs
                       end).
Proof.
  intros Hinv b. specialize (Hinv b). destruct (jm_code (snd e)) as [c|] eqn:Ec.
  - destruct (mref_eqb b (fst e)) eqn:Eb.
    + apply mref_eqb_eq in Eb. subst b. rewrite (map_get_upd_same mref_eqb mref_eqb_dec).
      destruct (map_get mref_eqb (fst e) rs) as [c0|].
      * destruct Hinv as [Hn Hin]. split; [apply (set_extend_NoDup mref_eqb mref_eqb_dec); exact Hn|].
        intros r. rewrite (set_extend_In mref_eqb mref_eqb_dec), filter_In, invoked_in_snoc, Hin.
        split.
        -- intros [[Hr Ho]|Hi]; [right; split; [reflexivity|exists c; auto]|left; exact Hi].
        -- intros [Hi|(_ & c' & Hc' & Hr & Ho)]; [right; exact Hi|]. rewrite Ec in Hc'. injection Hc' as <-. left. auto.
      * split; [apply (set_extend_NoDup mref_eqb mref_eqb_dec); constructor|].
        intros r. rewrite (set_extend_In mref_eqb mref_eqb_dec), filter_In, invoked_in_snoc. cbn [In].
        split.
        -- intros [[Hr Ho]|[]]. right. split; [reflexivity|exists c; auto].
        -- intros [Hi|(_ & c' & Hc' & Hr & Ho)]; [exfalso; exact (Hinv r Hi)|]. rewrite Ec in Hc'. injection Hc' as <-. left. auto.
    + assert (Hne : b <> fst e) by (intros ->; rewrite (eqb_refl_of mref_eqb mref_eqb_dec) in Eb; discriminate).
      rewrite (map_get_upd_other mref_eqb mref_eqb_dec _ _ _ _ _ Hne).
      destruct (map_get mref_eqb b rs) as [c0|].
      * destruct Hinv as [Hn Hin]. split; [exact Hn|]. intros r. rewrite invoked_in_snoc, Hin.
        split; [auto|intros [Hi|(E & _)]; [exact Hi|congruence]].
      * intros r. rewrite invoked_in_snoc. intros [Hi|(E & _)]; [exact (Hinv r Hi)|congruence].
  - destruct (map_get mref_eqb b rs) as [c0|].
    + destruct Hinv as [Hn Hin]. split; [exact Hn|]. intros r. rewrite invoked_in_snoc, Hin.
      split; [auto|intros [Hi|(_ & c & Hc & _)]; [exact Hi|congruence]].
    + intros r. rewrite invoked_in_snoc. intros [Hi|(_ & c & Hc & _)]; [exact (Hinv r Hi)|congruence].
Qed.

Lemma refs_fold rest : forall pre rs, refs_inv pre rs ->
  refs_inv (pre ++ rest)
    (fold_left (fun rs e => match jm_code (snd e) with
                            | Some l => map_upd mref_eqb (fst e) [] (set_extend mref_eqb (filter is_obj_ref (targets l))) rs
                            | None => rs
                            end) rest rs).
Proof.
  induction rest as [|e rest IH]; intros pre rs Hinv; cbn [fold_left].
  - rewrite app_nil_r. exact Hinv.
  - replace (pre ++ e :: rest) with ((pre ++ [e]) ++ rest) by (rewrite <- app_assoc; reflexivity).
    apply IH, refs_step, Hinv.
Qed.

Lemma ix_refs_spec J : refs_inv (jar_methods J) (ix_refs J).
Proof.
  unfold ix_refs. apply (refs_fold (jar_methods J) [] []).
  intros b. cbn [map_get]. intros r (m & c & [] & _).
Qed.

(* "the distinct object-class methods b invokes are exactly {s}" *)
Lemma refs_single J b s :
  map_get mref_eqb b (ix_refs J) = Some [s] <-> (forall r, invoked J b r <-> r = s).
Proof.
  pose proof (ix_refs_spec J b) as H. unfold invoked. split.
  - intros E. rewrite E in H. destruct H as [_ Hin]. intros r. rewrite <- Hin. cbn [In].
    split; [intros [<-|[]]; reflexivity|intros ->; left; reflexivity].
  - intros Hs. destruct (map_get mref_eqb b (ix_refs J)) as [c|].
    + destruct H as [Hn Hin]. f_equal.
      assert (Hall : forall r, In r c <-> r = s) by (intros r; rewrite Hin; apply Hs).
      destruct c as [|x c].
      * exfalso. apply (proj2 (Hall s) eq_refl).
      * assert (x = s) by (apply Hall; left; reflexivity). subst x. destruct c as [|y c]; [reflexivity|].
        assert (y = s) by (apply Hall; right; left; reflexivity). subst y.
        inversion Hn as [|? ? Hx _]. exfalso. apply Hx. left. reflexivity.
    + exfalso. apply (H s). apply Hs. reflexivity.
Qed.


(* ---- the rule over the instruction list ---- *)
(* which instructions count: the four method invocations, whatever their kind and interface flag; nothing else *)
Lemma invoke_target_cases i r : invoke_target i = Some r <->
  i = IVirtual r \/ (exists itf, i = ISpecial r itf) \/ (exists itf, i = IStatic r itf) \/ i = IInterface r.
Proof.
  split.
  - destruct i as [r'|r' itf|r' itf|r'|n d|]; cbn [invoke_target]; intros [= ->]; eauto.
  - intros [-> | [(itf & ->) | [(itf & ->) | -> ]]]; reflexivity.
Qed.

Lemma targets_In l r : In r (targets l) <-> exists i, In i l /\ invoke_target i = Some r.
Proof.
  unfold targets. rewrite in_flat_map. split.
  - intros (i & Hi & Hr). exists i. split; [exact Hi|]. destruct (invoke_target i) as [r'|]; [|destruct Hr].
    destruct Hr as [->|[]]. reflexivity.
  - intros (i & Hi & E). exists i. split; [exact Hi|]. rewrite E. left. reflexivity.
Qed.

(* b invokes r: some instruction of (a body of) b is one of the four invocations and carries r, and r's owner is
   not an array class.  invokedynamic and all other instructions play no part. *)
Lemma invoked_insn J b r : invoked J b r <->
  exists m c i, In (b, m) (jar_methods J) /\ jm_code m = Some c /\ In i c /\ invoke_target i = Some r /\ is_obj_ref r = true.
Proof.
  unfold invoked, invoked_in. split.
  - intros (m & c & Hi & Hc & Hr & Ho). apply targets_In in Hr. destruct Hr as (i & Hic & Ei). exists m, c, i. auto.
  - intros (m & c & i & Hi & Hc & Hic & Ei & Ho). exists m, c. split; [exact Hi|]. split; [exact Hc|]. split; [|exact Ho].
    apply targets_In. exists i. auto.
Qed.

(* "exactly one distinct method": the distinct (owner, name, descriptor) triples among the invocations of the body,
   array owners dropped, first occurrences in order — the set the visitor stores for the method *)
Definition distinct_callees (c : list insn) : list mref := set_extend mref_eqb (filter is_obj_ref (targets c)) [].

Lemma distinct_callees_spec c : NoDup (distinct_callees c) /\
  forall r, In r (distinct_callees c) <-> (exists i, In i c /\ invoke_target i = Some r) /\ is_obj_ref r = true.
Proof.
  unfold distinct_callees. split; [apply (set_extend_NoDup mref_eqb mref_eqb_dec); constructor|].
  intros r. rewrite (set_extend_In mref_eqb mref_eqb_dec), filter_In, targets_In. cbn [In]. tauto.
Qed.

Lemma nodup_singleton {A} (c : list A) s : NoDup c -> (forall r, In r c <-> r = s) -> c = [s].
Proof.
  intros Hn Hall. destruct c as [|x c].
  - exfalso. apply (proj2 (Hall s) eq_refl).
  - assert (x = s) by (apply Hall; left; reflexivity). subst x. destruct c as [|y c]; [reflexivity|].
    assert (y = s) by (apply Hall; right; left; reflexivity). subst y.
    inversion Hn as [|? ? Hx _]. exfalso. apply Hx. left. reflexivity.
Qed.

(* for a method that occurs once in the jar: it invokes exactly the one method s iff the count of distinct callees of
   its body is one, and that callee is s — same callee through several invoke kinds or several times counts once,
   same name and descriptor on another owner counts as another method *)
Lemma one_callee_count J b m c s :
  (forall m', In (b, m') (jar_methods J) -> m' = m) -> In (b, m) (jar_methods J) -> jm_code m = Some c ->
  ((forall r, invoked J b r <-> r = s) <-> distinct_callees c = [s]).
Proof.
  intros Hu Hi Hc. destruct (distinct_callees_spec c) as [Hn Hd].
  assert (Hinv : forall r, invoked J b r <-> In r (distinct_callees c)).
  { intros r. rewrite invoked_insn, Hd. split.
    - intros (m' & c' & i & Hi' & Hc' & Hic & Ei & Ho). apply Hu in Hi'. subst m'. rewrite Hc in Hc'. injection Hc' as <-. eauto.
    - intros [(i & Hic & Ei) Ho]. exists m, c, i. auto. }
  split.
  - intros Hs. apply nodup_singleton; [exact Hn|]. intros r. rewrite <- Hinv. apply Hs.
  - intros E r. rewrite Hinv, E. cbn [In]. split; [intros [<-|[]]; reflexivity|intros ->; left; reflexivity].
Qed.

(* a method without Code, or whose body has no invocation of an object-class method, invokes nothing *)
Lemma no_invocation_no_callee J b :
  (forall m c i r, In (b, m) (jar_methods J) -> jm_code m = Some c -> In i c -> invoke_target i = Some r -> is_obj_ref r = false) ->
  forall r, ~ invoked J b r.
Proof.
  intros H r Hr. apply invoked_insn in Hr. destruct Hr as (m & c & i & Hi & Hc & Hic & Ei & Ho).
  rewrite (H m c i r Hi Hc Hic Ei) in Ho. discriminate.
Qed.


(* ---- hierarchy tables ---- *)
Definition graph_inv (R : str -> str -> Prop) (G : graph) : Prop :=
  forall c, match map_get str_eqb c G with
            | Some ys => forall y, In y ys <-> R c y
            | None => forall y, ~ R c y
            end.

Lemma graph_inv_ext (R R' : str -> str -> Prop) G :
  (forall x y, R x y <-> R' x y) -> graph_inv R G -> graph_inv R' G.
Proof.
  intros He Hi c. specialize (Hi c). destruct (map_get str_eqb c G) as [ys|].
  - intros y. rewrite Hi. apply He.
  - intros y Hy. apply (Hi y), He, Hy.
Qed.

Lemma upd_edge G R a b : graph_inv R G ->
  graph_inv (fun x y => R x y \/ (x = a /\ y = b)) (map_upd str_eqb a [] (set_add str_eqb b) G).
Proof.
  intros Hi c. specialize (Hi c). destruct (str_eqb c a) eqn:E.
  - apply str_eqb_eq in E. subst c. rewrite (map_get_upd_same str_eqb str_eqb_dec).
    destruct (map_get str_eqb a G) as [ys|]; intros y; rewrite (set_add_In str_eqb str_eqb_dec).
    + rewrite Hi. split; [intros [->|Hr]; auto|intros [Hr|[_ ->]]; auto].
    + cbn [In]. split; [intros [->|[]]; auto|intros [Hr|[_ ->]]; [exfalso; exact (Hi y Hr)|auto]].
  - assert (Hne : c <> a) by (intros ->; rewrite str_eqb_refl in E; discriminate).
    rewrite (map_get_upd_other str_eqb str_eqb_dec _ _ _ _ _ Hne).
    destruct (map_get str_eqb c G) as [ys|].
    + intros y. rewrite Hi. split; [auto|intros [Hr|[-> _]]; [exact Hr|contradiction]].
    + intros y [Hr|[-> _]]; [exact (Hi y Hr)|contradiction].
Qed.

Lemma fold_parents name es : forall G R, graph_inv R G ->
  graph_inv (fun x y => R x y \/ (x = name /\ In y es))
            (fold_left (fun P p => map_upd str_eqb name [] (set_add str_eqb p) P) es G).
Proof.
  induction es as [|e es IH]; intros G R Hi; cbn [fold_left].
  - apply (graph_inv_ext R); [|exact Hi]. intros x y. cbn [In]. tauto.
  - refine (graph_inv_ext _ _ _ _ (IH _ _ (upd_edge G R name e Hi))).
    intros x y. cbn [In]. cbv beta. split.
    + intros [[Hr|[-> ->]]|[-> Hin]]; auto.
    + intros [Hr|[-> [->|Hin]]]; auto.
Qed.

Lemma fold_children name es : forall G R, graph_inv R G ->
  graph_inv (fun x y => R x y \/ (In x es /\ y = name))
            (fold_left (fun C p => map_upd str_eqb p [] (set_add str_eqb name) C) es G).
Proof.
  induction es as [|e es IH]; intros G R Hi; cbn [fold_left].
  - apply (graph_inv_ext R); [|exact Hi]. intros x y. cbn [In]. tauto.
  - refine (graph_inv_ext _ _ _ _ (IH _ _ (upd_edge G R e name Hi))).
    intros x y. cbn [In]. cbv beta. split.
    + intros [[Hr|[-> ->]]|[Hin ->]]; auto.
    + intros [Hr|[[->|Hin] ->]]; auto.
Qed.

Lemma parent_snoc pre c x y :
  parent (pre ++ [c]) x y <-> parent pre x y \/ (x = jc_name c /\ In y (edges_of c)).
Proof.
  unfold parent. split.
  - intros (jc & Hi & Hn & He). apply in_app_iff in Hi. destruct Hi as [Hi|[->|[]]].
    + left. exists jc. auto.
    + right. auto.
  - intros [(jc & Hi & Hn & He)|[-> He]].
    + exists jc. rewrite in_app_iff. auto.
    + exists c. rewrite in_app_iff. cbn [In]. auto.
Qed.

Lemma parents_fold rest : forall pre G, graph_inv (parent pre) G ->
  graph_inv (parent (pre ++ rest)) (fold_left store_parents rest G).
Proof.
  induction rest as [|c rest IH]; intros pre G Hi; cbn [fold_left].
  - rewrite app_nil_r. exact Hi.
  - replace (pre ++ c :: rest) with ((pre ++ [c]) ++ rest) by (rewrite <- app_assoc; reflexivity).
    apply IH. unfold store_parents.
    refine (graph_inv_ext _ _ _ _ (fold_parents (jc_name c) (edges_of c) G _ Hi)).
    intros x y. cbv beta. rewrite parent_snoc. tauto.
Qed.

Lemma children_fold rest : forall pre G, graph_inv (fun p c => parent pre c p) G ->
  graph_inv (fun p c => parent (pre ++ rest) c p) (fold_left store_children rest G).
Proof.
  induction rest as [|c rest IH]; intros pre G Hi; cbn [fold_left].
  - rewrite app_nil_r. exact Hi.
  - replace (pre ++ c :: rest) with ((pre ++ [c]) ++ rest) by (rewrite <- app_assoc; reflexivity).
    apply IH. unfold store_children.
    refine (graph_inv_ext _ _ _ _ (fold_children (jc_name c) (edges_of c) G _ Hi)).
    intros x y. cbv beta. rewrite parent_snoc. tauto.
Qed.

Lemma parent_nil x y : ~ parent [] x y.
Proof. intros (jc & [] & _). Qed.

Lemma ix_parents_spec J : graph_inv (parent J) (ix_parents J).
Proof.
  unfold ix_parents. apply (parents_fold J [] []). intros c. cbn [map_get]. intros y. apply parent_nil.
Qed.

Lemma ix_children_spec J : graph_inv (fun p c => parent J c p) (ix_children J).
Proof.
  unfold ix_children. apply (children_fold J [] []). intros c. cbn [map_get]. intros y. apply parent_nil.
Qed.

(* ---- the work-list computes the transitive closure (as a set), on every table, cyclic or not ---- *)
Lemma t1n_unfold (R : str -> str -> Prop) c x :
  clos_trans_1n str R c x <-> R c x \/ exists y, R c y /\ clos_trans_1n str R y x.
Proof.
  split.
  - intros H. destruct H as [y Hr|y z Hr Ht]; [left; exact Hr|right; exists y; auto].
  - intros [Hr|(y & Hr & Ht)]; [apply t1n_step; exact Hr|apply (t1n_trans _ _ _ y); assumption].
Qed.

(* the visited-set work-list.  [fresh ys out]: the entries of ys that are not yet listed, first occurrences, in
   order — what one expansion adds to the output and (reversed) to the stack *)
Fixpoint fresh (ys out : list str) : list str :=
  match ys with
  | [] => []
  | y :: ys' => if mem_str y out then fresh ys' out else y :: fresh ys' (out ++ [y])
  end.

Lemma push_new_eq ys : forall stack out, push_new ys stack out = (rev (fresh ys out) ++ stack, out ++ fresh ys out).
Proof.
  induction ys as [|y ys IH]; intros stack out; cbn [push_new fresh].
  - cbn [rev app]. rewrite app_nil_r. reflexivity.
  - destruct (mem_str y out); [apply IH|]. rewrite IH. cbn [rev]. rewrite <- !app_assoc. reflexivity.
Qed.

Lemma mem_str_In x l : mem_str x l = true <-> In x l.
Proof. apply (set_mem_In str_eqb str_eqb_dec). Qed.

Lemma fresh_In ys : forall out x, In x (fresh ys out) <-> In x ys /\ ~ In x out.
Proof.
  induction ys as [|y ys IH]; intros out x; cbn [fresh In]; [tauto|].
  destruct (mem_str y out) eqn:E.
  - apply mem_str_In in E. rewrite IH. split; [tauto|]. intros [[<-|Hi] Hn]; [contradiction|auto].
  - assert (Hy : ~ In y out) by (intros Hi; apply mem_str_In in Hi; congruence).
    cbn [In]. rewrite IH, in_app_iff. cbn [In]. split.
    + intros [<-|[Hi Hn]]; [auto|]. split; [auto|]. intros Ho. apply Hn. left. exact Ho.
    + intros [[<-|Hi] Hn]; [auto|]. destruct (str_eqb x y) eqn:Exy.
      * apply str_eqb_eq in Exy. left. symmetry. exact Exy.
      * right. split; [exact Hi|]. intros [Ho|[->|[]]]; [contradiction|]. rewrite str_eqb_refl in Exy. discriminate.
Qed.

Lemma NoDup_snoc {A} (l : list A) y : NoDup l -> ~ In y l -> NoDup (l ++ [y]).
Proof.
  intros Hn Hy. induction l as [|a l IH]; cbn [app]; [constructor; [intros []|constructor]|].
  inversion Hn as [|? ? Ha Hl]; subst. constructor.
  - rewrite in_app_iff. cbn [In]. intros [Hi|[->|[]]]; [contradiction|apply Hy; left; reflexivity].
  - apply IH; [exact Hl|intros Hi; apply Hy; right; exact Hi].
Qed.

Lemma fresh_NoDup ys : forall out, NoDup out -> NoDup (out ++ fresh ys out).
Proof.
  induction ys as [|y ys IH]; intros out Hn; cbn [fresh]; [rewrite app_nil_r; exact Hn|].
  destruct (mem_str y out) eqn:E; [apply IH; exact Hn|].
  assert (Hy : ~ In y out) by (intros Hi; apply mem_str_In in Hi; congruence).
  replace (out ++ y :: fresh ys (out ++ [y])) with ((out ++ [y]) ++ fresh ys (out ++ [y])) by (rewrite <- app_assoc; reflexivity).
  apply IH. apply NoDup_snoc; assumption.
Qed.

Lemma walk_cons_some f G c q out ys : map_get str_eqb c G = Some ys ->
  walk (S f) G (c :: q) out = walk f G (rev (fresh ys out) ++ q) (out ++ fresh ys out).
Proof. intros E. cbn [walk]. rewrite E, push_new_eq. reflexivity. Qed.

Lemma walk_cons_none f G c q out : map_get str_eqb c G = None -> walk (S f) G (c :: q) out = walk f G q out.
Proof. intros E. cbn [walk]. rewrite E. reflexivity. Qed.

(* the invariant of a work-list with a visited set: a listed class is still on the stack, or all its
   successors are listed *)
Definition closed_inv (R : str -> str -> Prop) (stack out : list str) : Prop :=
  forall y, In y out -> In y stack \/ forall z, R y z -> In z out.

Lemma walk_inv R G : graph_inv R G -> forall fuel stack out r,
  walk fuel G stack out = Ok r -> closed_inv R stack out ->
  incl out r /\
  (forall c, In c stack -> forall z, R c z -> In z r) /\
  (forall y, In y r -> forall z, R y z -> In z r) /\
  (forall x, In x r -> In x out \/ exists c, In c stack /\ clos_trans_1n str R c x).
Proof.
  intros Hg fuel. induction fuel as [|f IH]; intros stack out r Hw Hinv.
  - destruct stack as [|c q]; cbn [walk] in Hw; [|discriminate]. injection Hw as <-.
    split; [apply incl_refl|]. split; [intros c []|]. split; [|auto].
    intros y Hy z Hr. destruct (Hinv y Hy) as [[]|Hc]. exact (Hc z Hr).
  - destruct stack as [|c q].
    + cbn [walk] in Hw. injection Hw as <-.
      split; [apply incl_refl|]. split; [intros c []|]. split; [|auto].
      intros y Hy z Hr. destruct (Hinv y Hy) as [[]|Hc]. exact (Hc z Hr).
    + pose proof (Hg c) as Hc. destruct (map_get str_eqb c G) as [ys|] eqn:E.
      * rewrite (walk_cons_some _ _ _ _ _ _ E) in Hw.
        assert (Hinv' : closed_inv R (rev (fresh ys out) ++ q) (out ++ fresh ys out)).
        { intros y Hy. apply in_app_iff in Hy. destruct Hy as [Hy|Hy].
          - destruct (Hinv y Hy) as [[<-|Hq]|Hcl].
            + right. intros z Hr. apply Hc in Hr. apply in_app_iff.
              destruct (mem_str z out) eqn:Ez; [left; apply mem_str_In; exact Ez|].
              right. apply fresh_In. split; [exact Hr|]. intros Hi. apply mem_str_In in Hi. congruence.
            + left. apply in_app_iff. right. exact Hq.
            + right. intros z Hr. apply in_app_iff. left. exact (Hcl z Hr).
          - left. apply in_app_iff. left. apply in_rev. rewrite rev_involutive. exact Hy. }
        destruct (IH _ _ _ Hw Hinv') as (H1 & H2 & H3 & H4).
        split; [intros x Hx; apply H1, in_app_iff; left; exact Hx|].
        split; [|split; [exact H3|]].
        -- intros c' [<-|Hq] z Hr.
           ++ apply H1. apply Hc in Hr. apply in_app_iff.
              destruct (mem_str z out) eqn:Ez; [left; apply mem_str_In; exact Ez|].
              right. apply fresh_In. split; [exact Hr|]. intros Hi. apply mem_str_In in Hi. congruence.
           ++ apply (H2 c'); [apply in_app_iff; right; exact Hq|exact Hr].
        -- intros x Hx. destruct (H4 x Hx) as [Ho|(c' & Hc' & Ht)].
           ++ apply in_app_iff in Ho. destruct Ho as [Ho|Ho]; [left; exact Ho|].
              right. exists c. split; [left; reflexivity|]. apply t1n_step, Hc. apply fresh_In in Ho. tauto.
           ++ apply in_app_iff in Hc'. destruct Hc' as [Hc'|Hc'].
              ** right. exists c. split; [left; reflexivity|]. apply (t1n_trans _ _ _ c'); [|exact Ht].
                 apply Hc. apply in_rev in Hc'. apply fresh_In in Hc'. tauto.
              ** right. exists c'. split; [right; exact Hc'|exact Ht].
      * rewrite (walk_cons_none _ _ _ _ _ E) in Hw.
        assert (Hinv' : closed_inv R q out).
        { intros y Hy. destruct (Hinv y Hy) as [[<-|Hq]|Hcl]; [|left; exact Hq|right; exact Hcl].
          right. intros z Hr. exfalso. exact (Hc z Hr). }
        destruct (IH _ _ _ Hw Hinv') as (H1 & H2 & H3 & H4).
        split; [exact H1|]. split; [|split; [exact H3|]].
        -- intros c' [<-|Hq] z Hr; [exfalso; exact (Hc z Hr)|exact (H2 c' Hq z Hr)].
        -- intros x Hx. destruct (H4 x Hx) as [Ho|(c' & Hc' & Ht)]; [left; exact Ho|].
           right. exists c'. split; [right; exact Hc'|exact Ht].
Qed.

Lemma walk_spec R G : graph_inv R G -> forall fuel stack out r,
  walk fuel G stack out = Ok r -> closed_inv R stack out ->
  forall x, In x r <-> In x out \/ exists c, In c stack /\ clos_trans_1n str R c x.
Proof.
  intros Hg fuel stack out r Hw Hinv. destruct (walk_inv R G Hg _ _ _ _ Hw Hinv) as (H1 & H2 & H3 & H4).
  assert (Hcl : forall y x, clos_trans_1n str R y x -> In y r -> In x r).
  { intros y x Ht. induction Ht as [y x Hr|y z x Hr Ht IHt]; intros Hy; [exact (H3 y Hy x Hr)|].
    apply IHt. exact (H3 y Hy z Hr). }
  intros x. split; [apply H4|]. intros [Ho|(c & Hc & Ht)]; [apply H1; exact Ho|].
  destruct Ht as [x Hr|z x Hr Ht]; [exact (H2 c Hc x Hr)|]. apply (Hcl z x Ht). exact (H2 c Hc z Hr).
Qed.

Lemma closed_inv_start R s : closed_inv R [s] [].
Proof. intros y []. Qed.

Lemma ancestors_spec J fuel s l : walk fuel (ix_parents J) [s] [] = Ok l -> forall a, In a l <-> ancestor J s a.
Proof.
  intros Hw a. rewrite (walk_spec _ _ (ix_parents_spec J) _ _ _ _ Hw (closed_inv_start _ s) a). cbn [In]. unfold ancestor. split.
  - intros [[]|(c & [<-|[]] & Ht)]. exact Ht.
  - intros Ht. right. exists s. auto.
Qed.


Lemma aty_eqb_eq a b : aty_eqb a b = true <-> a = b.
Proof.
  destruct a, b; cbn [aty_eqb]; try (split; [reflexivity|reflexivity]); try (split; discriminate).
  rewrite str_eqb_eq. split; [intros ->; reflexivity|intros [= ->]; reflexivity].
Qed.

Lemma ty_eqb_eq a b : ty_eqb a b = true <-> a = b.
Proof.
  destruct a, b; cbn [ty_eqb]; try (split; [reflexivity|reflexivity]); try (split; discriminate).
  - rewrite str_eqb_eq. split; [intros ->; reflexivity|intros [= ->]; reflexivity].
  - rewrite andb_true_iff, N.eqb_eq, aty_eqb_eq. split; [intros [-> ->]; reflexivity|intros [= -> ->]; auto].
Qed.

(* are_types_bridge_compatible, declaratively *)
Definition compatP (J : jar) (tb ts : ty) : Prop :=
  tb = ts \/
  exists b s, tb = TObj b /\ ts = TObj s /\
    (b = s_object \/ ~ in_jar J b \/ exists a, ancestor J s a /\ (a = b \/ ~ in_jar J a)).

Definition ret_compatP (J : jar) (rb rs : option ty) : Prop :=
  match rb, rs with
  | Some tb, Some ts => compatP J tb ts
  | None, None => True
  | _, _ => False
  end.

(* is_potential_bridge, declaratively: inheritable, same arity, position-wise compatible *)
Definition potentialP (J : jar) (b : mref) (a : acc) (s : mref) : Prop :=
  a_private a = false /\ a_final a = false /\ a_static a = false /\
  exists pb rb ps rs,
    parse_method (mr_desc b) = Ok (pb, rb) /\ parse_method (mr_desc s) = Ok (ps, rs) /\
    Forall2 (compatP J) pb ps /\ ret_compatP J rb rs.

Lemma Forall2_len {A B} (R : A -> B -> Prop) l l' : Forall2 R l l' -> length l = length l'.
Proof. induction 1; cbn [length]; congruence. Qed.

Lemma not_in_jar J c : mem_str c (ix_classes J) = false <-> ~ in_jar J c.
Proof.
  rewrite <- ix_classes_spec. destruct (mem_str c (ix_classes J)); split; congruence.
Qed.

Lemma compat_spec J fuel tb ts v :
  compat fuel (ix_classes J) (ix_parents J) tb ts = Ok v -> (v = true <-> compatP J tb ts).
Proof.
  unfold compat. destruct (ty_eqb tb ts) eqn:Et.
  - apply ty_eqb_eq in Et. intros [= <-]. split; [intros _; left; exact Et|reflexivity].
  - assert (Hne : tb <> ts) by (intros E; apply ty_eqb_eq in E; congruence).
    assert (Hother : (forall b s, ~ (tb = TObj b /\ ts = TObj s)) -> Ok false = Ok v -> (v = true <-> compatP J tb ts)).
    { intros Hno [= <-]. split; [discriminate|]. intros [E|(b & s & E1 & E2 & _)]; [contradiction|]. exfalso. exact (Hno b s (conj E1 E2)). }
    destruct tb as [| | | | | | | |b|d x]; try (apply Hother; intros b0 s0 [E1 E2]; discriminate).
    destruct ts as [| | | | | | | |s|d x]; try (apply Hother; intros b0 s0 [E1 E2]; discriminate).
    clear Hother. destruct (str_eqb b s_object) eqn:Eo.
    + apply str_eqb_eq in Eo. intros [= <-]. split; [intros _|reflexivity].
      right. exists b, s. auto.
    + destruct (mem_str b (ix_classes J)) eqn:Em; cbn [negb].
      2:{ intros [= <-]. split; [intros _|reflexivity]. right. exists b, s. split; [reflexivity|]. split; [reflexivity|].
          right. left. apply not_in_jar. exact Em. }
      destruct (walk fuel (ix_parents J) [s] []) as [l|] eqn:Ew; [|discriminate].
      intros [= <-]. rewrite existsb_exists. split.
      * intros (a & Ha & Hc). right. exists b, s. split; [reflexivity|]. split; [reflexivity|]. right. right.
        exists a. split; [apply (ancestors_spec J fuel s l Ew); exact Ha|].
        apply orb_true_iff in Hc. destruct Hc as [Hc|Hc].
        -- left. apply str_eqb_eq in Hc. congruence.
        -- right. apply not_in_jar. destruct (mem_str a (ix_classes J)); [discriminate|reflexivity].
      * intros [E|(b0 & s0 & [= <-] & [= <-] & [E|[Hn|(a & Ha & Hc)]])].
        -- contradiction.
        -- subst b. rewrite str_eqb_refl in Eo. discriminate.
        -- exfalso. apply Hn. apply ix_classes_spec. exact Em.
        -- exists a. split; [apply (ancestors_spec J fuel s l Ew); exact Ha|].
           apply orb_true_iff. destruct Hc as [->|Hn]; [left; apply str_eqb_refl|right].
           apply not_in_jar in Hn. rewrite Hn. reflexivity.
Qed.

Lemma compat_all_spec J fuel pb : forall ps v,
  length pb = length ps ->
  compat_all fuel (ix_classes J) (ix_parents J) pb ps = Ok v -> (v = true <-> Forall2 (compatP J) pb ps).
Proof.
  induction pb as [|b pb IH]; intros [|s ps] v Hl; cbn [length] in Hl; try discriminate; cbn [compat_all].
  - intros [= <-]. split; [constructor|reflexivity].
  - destruct (compat fuel (ix_classes J) (ix_parents J) b s) as [[|]|] eqn:Ec; [| |discriminate].
    + intros Hr. rewrite (IH ps v (eq_add_S _ _ Hl) Hr). split.
      * intros HF. constructor; [|exact HF]. apply (compat_spec _ _ _ _ _ Ec). reflexivity.
      * intros HF. inversion HF; subst. assumption.
    + intros [= <-]. split; [discriminate|]. intros HF. inversion HF as [|? ? ? ? Hc _]; subst.
      apply (compat_spec _ _ _ _ _ Ec) in Hc. discriminate.
Qed.

Lemma potential_spec J fuel b a s v :
  is_potential_bridge fuel (ix_classes J) (ix_parents J) b a s = Ok v -> (v = true <-> potentialP J b a s).
Proof.
  unfold is_potential_bridge, potentialP.
  destruct (a_private a) eqn:E1; cbn [orb].
  { intros [= <-]. split; [discriminate|]. intros (H & _). discriminate. }
  destruct (a_final a) eqn:E2; cbn [orb].
  { intros [= <-]. split; [discriminate|]. intros (_ & H & _). discriminate. }
  destruct (a_static a) eqn:E3.
  { intros [= <-]. split; [discriminate|]. intros (_ & _ & H & _). discriminate. }
  destruct (parse_method (mr_desc b)) as [[pb rb]|] eqn:Pb.
  2:{ intros [= <-]. split; [discriminate|]. intros (_ & _ & _ & pb & rb & ps & rs & H & _). discriminate. }
  destruct (parse_method (mr_desc s)) as [[ps rs]|] eqn:Ps.
  2:{ intros [= <-]. split; [discriminate|]. intros (_ & _ & _ & pb' & rb' & ps & rs & _ & H & _). discriminate. }
  destruct (Nat.eqb (length pb) (length ps)) eqn:El; cbn [negb].
  2:{ intros [= <-]. split; [discriminate|]. intros (_ & _ & _ & pb' & rb' & ps' & rs' & [= <- <-] & [= <- <-] & HF & _).
      apply Forall2_len in HF. apply Nat.eqb_neq in El. contradiction. }
  apply Nat.eqb_eq in El.
  destruct (compat_all fuel (ix_classes J) (ix_parents J) pb ps) as [[|]|] eqn:Ea; [| |discriminate].
  - assert (HF : Forall2 (compatP J) pb ps) by (apply (compat_all_spec _ _ _ _ _ El Ea); reflexivity).
    destruct rb as [tb|], rs as [ts|].
    + intros Hc. rewrite (compat_spec _ _ _ _ _ Hc). split.
      * intros Hp. repeat split. exists pb, (Some tb), ps, (Some ts). auto.
      * intros (_ & _ & _ & pb' & rb' & ps' & rs' & [= <- <-] & [= <- <-] & _ & Hr). exact Hr.
    + intros [= <-]. split; [discriminate|].
      intros (_ & _ & _ & pb' & rb' & ps' & rs' & [= <- <-] & [= <- <-] & _ & Hr). destruct Hr.
    + intros [= <-]. split; [discriminate|].
      intros (_ & _ & _ & pb' & rb' & ps' & rs' & [= <- <-] & [= <- <-] & _ & Hr). destruct Hr.
    + intros [= <-]. split; [intros _|reflexivity]. repeat split. exists pb, None, ps, None. cbn. auto.
  - intros [= <-]. split; [discriminate|].
    intros (_ & _ & _ & pb' & rb' & ps' & rs' & [= <- <-] & [= <- <-] & HF & _).
    apply (compat_all_spec _ _ _ _ _ El Ea) in HF. discriminate.
Qed.

Lemma decide_char J fuel b a o :
  decide fuel (ix_classes J) (ix_parents J) (ix_refs J) b a = Ok o ->
  forall s, o = Some s <->
    a_synthetic a = true /\ map_get mref_eqb b (ix_refs J) = Some [s] /\ (a_bridge a = true \/ potentialP J b a s).
Proof.
  unfold decide. destruct (a_synthetic a) eqn:Es; cbn [negb].
  2:{ intros [= <-] s. split; [discriminate|]. intros (H & _). discriminate. }
  destruct (map_get mref_eqb b (ix_refs J)) as [[|s1 [|s2 c]]|] eqn:Er;
    try (intros [= <-] s; split; [discriminate|]; intros (_ & H & _); discriminate).
  destruct (a_bridge a) eqn:Eb.
  - intros [= <-] s. split; [intros [= <-]; auto|intros (_ & [= <-] & _); reflexivity].
  - destruct (is_potential_bridge fuel (ix_classes J) (ix_parents J) b a s1) as [[|]|] eqn:Ep; [| |discriminate].
    + intros [= <-] s. split.
      * intros [= <-]. split; [reflexivity|]. split; [reflexivity|]. right. apply (potential_spec _ _ _ _ _ _ Ep). reflexivity.
      * intros (_ & [= <-] & _). reflexivity.
    + intros [= <-] s. split; [discriminate|]. intros (_ & [= <-] & [H|H]); [discriminate|].
      apply (potential_spec _ _ _ _ _ _ Ep) in H. discriminate.
Qed.

(* (b, s) is a bridge pair of the jar, declaratively *)
Definition is_bridge_pair (J : jar) (b s : mref) : Prop :=
  exists a, access_of J b = Some a /\
            a_synthetic a = true /\
            (forall r, invoked J b r <-> r = s) /\
            (a_bridge a = true \/ potentialP J b a s).

Theorem bridge_iff J b2s s2b :
  get_specialized J = Ok (b2s, s2b) ->
  forall b s, In (b, s) b2s <-> is_bridge_pair J b s.
Proof.
  intros Hg b s. rewrite (bridge_index J b2s s2b Hg). unfold is_bridge_pair. split.
  - intros (a & Ha & Hd). exists a. rewrite <- ix_methods_get. split; [exact Ha|].
    destruct (proj1 (decide_char J _ _ _ _ Hd s) eq_refl) as (H1 & H2 & H3).
    split; [exact H1|]. split; [apply refs_single; exact H2|exact H3].
  - intros (a & Ha & H1 & H2 & H3). exists a. rewrite ix_methods_get. split; [exact Ha|].
    rewrite <- ix_methods_get in Ha. destruct (decided J _ Hg b a Ha) as [o Ho].
    rewrite Ho. f_equal. apply (decide_char J _ _ _ _ Ho s). split; [exact H1|]. split; [apply refs_single; exact H2|exact H3].
Qed.

(* ---- near misses: none of these methods becomes a bridge ---- *)


Lemma miss_not_a_method J b2s s2b : get_specialized J = Ok (b2s, s2b) ->
  forall b s, access_of J b = None -> ~ In (b, s) b2s.
Proof. intros Hg b s Hn Hi. apply (bridge_iff J _ _ Hg) in Hi. destruct Hi as (a & Ha & _). congruence. Qed.

Lemma miss_not_synthetic J b2s s2b : get_specialized J = Ok (b2s, s2b) ->
  forall b a s, access_of J b = Some a -> a_synthetic a = false -> ~ In (b, s) b2s.
Proof. intros Hg b a s Ha Hs Hi. apply (bridge_iff J _ _ Hg) in Hi. destruct Hi as (a' & Ha' & Hs' & _). congruence. Qed.

Lemma miss_no_callee J b2s s2b : get_specialized J = Ok (b2s, s2b) ->
  forall b s, (forall r, ~ invoked J b r) -> ~ In (b, s) b2s.
Proof. intros Hg b s Hn Hi. apply (bridge_iff J _ _ Hg) in Hi. destruct Hi as (a & _ & _ & Hc & _). apply (Hn s), Hc. reflexivity. Qed.

Lemma miss_several_callees J b2s s2b : get_specialized J = Ok (b2s, s2b) ->
  forall b s r1 r2, invoked J b r1 -> invoked J b r2 -> r1 <> r2 -> ~ In (b, s) b2s.
Proof.
  intros Hg b s r1 r2 H1 H2 Hne Hi. apply (bridge_iff J _ _ Hg) in Hi. destruct Hi as (a & _ & _ & Hc & _).
  apply Hc in H1, H2. congruence.
Qed.

Lemma miss_private_static_final J b2s s2b : get_specialized J = Ok (b2s, s2b) ->
  forall b a s, access_of J b = Some a -> a_bridge a = false ->
  a_private a || a_static a || a_final a = true -> ~ In (b, s) b2s.
Proof.
  intros Hg b a s Ha Hb Hf Hi. apply (bridge_iff J _ _ Hg) in Hi. destruct Hi as (a' & Ha' & _ & _ & [H|H]).
  - congruence.
  - assert (a' = a) by congruence. subst a'. destruct H as (E1 & E2 & E3 & _). rewrite E1, E2, E3 in Hf. discriminate.
Qed.

Lemma miss_arity J b2s s2b : get_specialized J = Ok (b2s, s2b) ->
  forall b a s pb rb ps rs, access_of J b = Some a -> a_bridge a = false ->
  parse_method (mr_desc b) = Ok (pb, rb) -> parse_method (mr_desc s) = Ok (ps, rs) ->
  length pb <> length ps -> ~ In (b, s) b2s.
Proof.
  intros Hg b a s pb rb ps rs Ha Hb Pb Ps Hl Hi. apply (bridge_iff J _ _ Hg) in Hi. destruct Hi as (a' & Ha' & _ & _ & [H|H]).
  - congruence.
  - destruct H as (_ & _ & _ & pb' & rb' & ps' & rs' & E1 & E2 & HF & _).
    rewrite Pb in E1. rewrite Ps in E2. injection E1 as <- <-. injection E2 as <- <-.
    apply Forall2_len in HF. contradiction.
Qed.

Lemma miss_incompatible J b2s s2b : get_specialized J = Ok (b2s, s2b) ->
  forall b a s pb rb ps rs, access_of J b = Some a -> a_bridge a = false ->
  parse_method (mr_desc b) = Ok (pb, rb) -> parse_method (mr_desc s) = Ok (ps, rs) ->
  ~ (Forall2 (compatP J) pb ps /\ ret_compatP J rb rs) -> ~ In (b, s) b2s.
Proof.
  intros Hg b a s pb rb ps rs Ha Hb Pb Ps Hn Hi. apply (bridge_iff J _ _ Hg) in Hi. destruct Hi as (a' & Ha' & _ & _ & [H|H]).
  - congruence.
  - destruct H as (_ & _ & _ & pb' & rb' & ps' & rs' & E1 & E2 & HF & Hr).
    rewrite Pb in E1. rewrite Ps in E2. injection E1 as <- <-. injection E2 as <- <-. apply Hn. auto.
Qed.

Lemma miss_unparsable J b2s s2b : get_specialized J = Ok (b2s, s2b) ->
  forall b a s, access_of J b = Some a -> a_bridge a = false ->
  parse_method (mr_desc b) = Err \/ parse_method (mr_desc s) = Err -> ~ In (b, s) b2s.
Proof.
  intros Hg b a s Ha Hb Hp Hi. apply (bridge_iff J _ _ Hg) in Hi. destruct Hi as (a' & Ha' & _ & _ & [H|H]).
  - congruence.
  - destruct H as (_ & _ & _ & pb' & rb' & ps' & rs' & E1 & E2 & _). destruct Hp; congruence.
Qed.
