(* C15 — fuel_suffices: the work-lists get_ancestors / get_descendants terminate on EVERY class hierarchy,
   cyclic or not, and the number of steps they take is known exactly.

   Part 1 (the code as it is, after "fix: the hierarchy walks of the bridge detection visit every class once").
   The output set is the visited set: a class is listed, pushed and popped once.  [walk_exact]: a run started
   at one class pops exactly 1 + (number of distinct classes it lists) times — not once more, not once less —
   so one more than the number of entries of the table ([walk_fuel]) is enough on every table ([walk_total]),
   Jar::get_specialized_methods as modelled never answers Err ([get_specialized_total]), every larger fuel gives
   the same answer ([fuel_irrelevant]) and the fuel is linear in the jar ([jar_fuel_linear]).

   Part 2 (the loops before the fix, kept as the record of the defect).  Without a visited set a class reached
   along two inheritance paths was pushed twice: a run popped once per PATH of the hierarchy ([walk_nv_exact],
   exponential on stacked diamonds) and never finished once a class on a cycle came onto the stack
   ([walk_nv_diverges]).  Where the old loop did finish it listed the same classes as the new one
   ([visited_set_conservative]): the fix changes no answer that existed. *)
From FB Require Import C15.Model C15.Theory C15.Theory2.
From Coq Require Import Lia PeanoNat Relations.Relation_Operators.
Local Open Scope nat_scope.

(* ================================================================== *)
(* Part 1: the work-list with a visited set *)

(* every class a run can list is an entry of some row *)
Definition vals (G : graph) : list str := flat_map (fun e => snd e) G.

Lemma map_get_vals G c ys : map_get str_eqb c G = Some ys -> incl ys (vals G).
Proof.
  intros E x Hx. apply (map_get_Some_In str_eqb str_eqb_dec) in E. unfold vals. apply in_flat_map.
  exists (c, ys). split; [exact E|exact Hx].
Qed.

(* termination: the listed classes are distinct entries of the table, each pop either shortens the stack or
   lists new ones *)
Lemma walk_total_gen G : forall fuel stack out, NoDup out -> incl out (vals G) ->
  length stack + (length (vals G) - length out) <= fuel -> exists r, walk fuel G stack out = Ok r.
Proof.
  induction fuel as [|f IH]; intros stack out Hn Hi Hf.
  - destruct stack as [|c q]; [exists out; reflexivity|cbn [length] in Hf; lia].
  - destruct stack as [|c q]; [exists out; reflexivity|]. cbn [length] in Hf.
    destruct (map_get str_eqb c G) as [ys|] eqn:E.
    + rewrite (walk_cons_some _ _ _ _ _ _ E).
      pose proof (fresh_NoDup ys out Hn) as Hn'.
      assert (Hi' : incl (out ++ fresh ys out) (vals G)).
      { apply incl_app; [exact Hi|]. intros x Hx. apply fresh_In in Hx. apply (map_get_vals G c ys E). tauto. }
      pose proof (NoDup_incl_length Hn' Hi') as Hl. rewrite app_length in Hl.
      apply IH; [exact Hn'|exact Hi'|]. rewrite !app_length, rev_length. lia.
    + rewrite (walk_cons_none _ _ _ _ _ E). apply IH; [exact Hn|exact Hi|lia].
Qed.

Theorem walk_total G fuel c : walk_fuel G <= fuel -> exists r, walk fuel G [c] [] = Ok r.
Proof.
  intros Hf. apply walk_total_gen; [constructor|intros x []|]. unfold walk_fuel in Hf. fold (vals G) in Hf.
  cbn [length]. lia.
Qed.

(* the output only grows, and stays duplicate-free *)
Lemma walk_prefix G : forall fuel stack out r, walk fuel G stack out = Ok r -> exists t, r = out ++ t.
Proof.
  induction fuel as [|f IH]; intros stack out r Hw; destruct stack as [|c q].
  - rewrite walk_nil in Hw. injection Hw as <-. exists []. rewrite app_nil_r. reflexivity.
  - cbn [walk] in Hw. discriminate.
  - rewrite walk_nil in Hw. injection Hw as <-. exists []. rewrite app_nil_r. reflexivity.
  - destruct (map_get str_eqb c G) as [ys|] eqn:E.
    + rewrite (walk_cons_some _ _ _ _ _ _ E) in Hw. destruct (IH _ _ _ Hw) as [t ->].
      exists (fresh ys out ++ t). rewrite app_assoc. reflexivity.
    + rewrite (walk_cons_none _ _ _ _ _ E) in Hw. exact (IH _ _ _ Hw).
Qed.

Lemma walk_NoDup G : forall fuel stack out r, walk fuel G stack out = Ok r -> NoDup out -> NoDup r.
Proof.
  induction fuel as [|f IH]; intros stack out r Hw Hn; destruct stack as [|c q].
  - rewrite walk_nil in Hw. injection Hw as <-. exact Hn.
  - cbn [walk] in Hw. discriminate.
  - rewrite walk_nil in Hw. injection Hw as <-. exact Hn.
  - destruct (map_get str_eqb c G) as [ys|] eqn:E.
    + rewrite (walk_cons_some _ _ _ _ _ _ E) in Hw. apply (IH _ _ _ Hw). apply fresh_NoDup. exact Hn.
    + rewrite (walk_cons_none _ _ _ _ _ E) in Hw. exact (IH _ _ _ Hw Hn).
Qed.

(* the exact number of pops of a run that ends with r: the classes on the stack and the classes still to be listed *)
Definition steps (stack out r : list str) : nat := length stack + (length r - length out).

Theorem walk_exact G : forall fuel stack out r, walk fuel G stack out = Ok r ->
  forall f', walk f' G stack out = if Nat.leb (steps stack out r) f' then Ok r else Err.
Proof.
  induction fuel as [|f IH]; intros stack out r Hw f'; destruct stack as [|c q].
  - rewrite walk_nil in Hw. injection Hw as <-. rewrite walk_nil. unfold steps. cbn [length]. rewrite Nat.sub_diag. reflexivity.
  - cbn [walk] in Hw. discriminate.
  - rewrite walk_nil in Hw. injection Hw as <-. rewrite walk_nil. unfold steps. cbn [length]. rewrite Nat.sub_diag. reflexivity.
  - destruct (map_get str_eqb c G) as [ys|] eqn:E.
    + rewrite (walk_cons_some _ _ _ _ _ _ E) in Hw. destruct (walk_prefix _ _ _ _ _ Hw) as [t Ht].
      pose proof (IH _ _ _ Hw) as IHw.
      assert (Hs : steps (c :: q) out r = S (steps (rev (fresh ys out) ++ q) (out ++ fresh ys out) r)).
      { unfold steps. subst r. rewrite !app_length, rev_length. cbn [length]. lia. }
      rewrite Hs. destruct f' as [|f'']; [reflexivity|].
      rewrite (walk_cons_some _ _ _ _ _ _ E), IHw. reflexivity.
    + rewrite (walk_cons_none _ _ _ _ _ E) in Hw. pose proof (IH _ _ _ Hw) as IHw.
      assert (Hs : steps (c :: q) out r = S (steps q out r)) by (unfold steps; cbn [length]; lia).
      rewrite Hs. destruct f' as [|f'']; [reflexivity|].
      rewrite (walk_cons_none _ _ _ _ _ E), IHw. reflexivity.
Qed.

(* a run started at one class: one pop per distinct class it lists, plus one for the start *)
Theorem walk_steps G fuel c r : walk fuel G [c] [] = Ok r ->
  NoDup r /\ forall f', walk f' G [c] [] = if Nat.leb (S (length r)) f' then Ok r else Err.
Proof.
  intros Hw. split; [apply (walk_NoDup _ _ _ _ _ Hw); constructor|]. intros f'.
  rewrite (walk_exact G _ _ _ _ Hw f'). unfold steps. cbn [length]. rewrite Nat.sub_0_r. reflexivity.
Qed.

(* ---------- Jar::get_specialized_methods with an explicit fuel ---------- *)
Definition get_specialized_f (fuel : nat) (J : jar) : res (pairs * pairs) :=
  fold_left (step fuel (ix_classes J) (ix_parents J) (ix_children J) (ix_refs J)) (ix_methods J) (Ok ([], [])).

Lemma get_specialized_is_f J : get_specialized J = get_specialized_f (jar_fuel J) J.
Proof. reflexivity. Qed.

Definition walks_ok (fuel : nat) (G : graph) : Prop := forall s, exists l, walk fuel G [s] [] = Ok l.

Lemma walks_ok_fuel G fuel : walk_fuel G <= fuel -> walks_ok fuel G.
Proof. intros Hf s. apply walk_total. exact Hf. Qed.

Lemma compat_ok fuel cls P tb ts : walks_ok fuel P -> exists v, compat fuel cls P tb ts = Ok v.
Proof.
  intros H. unfold compat. destruct (ty_eqb tb ts); [eauto|].
  destruct tb; eauto. destruct ts; eauto.
  destruct (str_eqb n s_object); [eauto|]. destruct (negb (mem_str n cls)); [eauto|].
  destruct (H n0) as [l ->]. eauto.
Qed.

Lemma compat_all_ok fuel cls P pb : walks_ok fuel P -> forall ps, exists v, compat_all fuel cls P pb ps = Ok v.
Proof.
  intros H. induction pb as [|b pb IH]; intros ps; cbn [compat_all]; [eauto|].
  destruct ps as [|s ps]; [eauto|]. destruct (compat_ok fuel cls P b s H) as [v ->].
  destruct v; [apply IH|eauto].
Qed.

Lemma potential_ok fuel cls P b a s : walks_ok fuel P -> exists v, is_potential_bridge fuel cls P b a s = Ok v.
Proof.
  intros H. unfold is_potential_bridge. destruct (a_private a || a_final a || a_static a); [eauto|].
  destruct (parse_method (mr_desc b)) as [[pb rb]|]; [|eauto].
  destruct (parse_method (mr_desc s)) as [[ps rs]|]; [|eauto].
  destruct (negb (Nat.eqb (length pb) (length ps))); [eauto|].
  destruct (compat_all_ok fuel cls P pb H ps) as [v ->]. destruct v; [|eauto].
  destruct rb as [tb|], rs as [ts|]; eauto. apply compat_ok. exact H.
Qed.

Lemma decide_ok fuel cls P refs b a : walks_ok fuel P -> exists o, decide fuel cls P refs b a = Ok o.
Proof.
  intros H. unfold decide. destruct (negb (a_synthetic a)); [eauto|].
  destruct (map_get mref_eqb b refs) as [[|s [|s' l]]|]; eauto.
  destruct (a_bridge a); [eauto|]. destruct (potential_ok fuel cls P b a s H) as [v ->]. destruct v; eauto.
Qed.

Lemma get_higher_ok fuel C b1 b2 : walks_ok fuel C -> exists r, get_higher fuel C b1 b2 = Ok r.
Proof. intros H. unfold get_higher. destruct (H (mr_class b1)) as [l ->]. eauto. Qed.

Lemma step_ok fuel cls P C refs st e : walks_ok fuel P -> walks_ok fuel C ->
  exists st', step fuel cls P C refs (Ok st) e = Ok st'.
Proof.
  intros HP HC. unfold step. destruct st as [b2s s2b].
  destruct (decide_ok fuel cls P refs (fst e) (snd e) HP) as [o ->]. destruct o as [s|]; [|eauto].
  destruct (map_get mref_eqb s s2b) as [other|]; [|eauto].
  destruct (get_higher_ok fuel C (fst e) other HC) as [r ->]. eauto.
Qed.

Lemma loop_never_err fuel cls P C refs l : walks_ok fuel P -> walks_ok fuel C ->
  forall st, exists r, fold_left (step fuel cls P C refs) l (Ok st) = Ok r.
Proof.
  intros HP HC. induction l as [|e l IH]; intros st; cbn [fold_left]; [eauto|].
  destruct (step_ok fuel cls P C refs st e HP HC) as [st' ->]. apply IH.
Qed.


Theorem get_specialized_total_f J fuel : jar_fuel J <= fuel -> exists r, get_specialized_f fuel J = Ok r.
Proof.
  unfold jar_fuel. intros Hf. apply loop_never_err; apply walks_ok_fuel; lia.
Qed.

(* no hypothesis on the hierarchy is left: the model answers on every jar *)
Theorem get_specialized_total J : exists b2s s2b, get_specialized J = Ok (b2s, s2b).
Proof.
  rewrite get_specialized_is_f. destruct (get_specialized_total_f J (jar_fuel J) (Nat.le_refl _)) as [[b2s s2b] H].
  exists b2s, s2b. exact H.
Qed.

(* the first theorem of the property without any hypothesis: on every jar the model answers, and the collected pairs are
   exactly the bridge pairs *)
Theorem bridge_iff_total J : exists b2s s2b, get_specialized J = Ok (b2s, s2b) /\
  forall b s, In (b, s) b2s <-> is_bridge_pair J b s.
Proof.
  destruct (get_specialized_total J) as (b2s & s2b & H). exists b2s, s2b. split; [exact H|].
  intros b s. apply (bridge_iff J b2s s2b H).
Qed.

Theorem fuel_suffices J : get_specialized J <> Err.
Proof. destruct (get_specialized_total J) as (b2s & s2b & ->). discriminate. Qed.

(* ---------- more fuel never changes the answer of the whole computation ---------- *)
Lemma compat_mono f k cls P tb ts v : compat f cls P tb ts = Ok v -> compat (f + k) cls P tb ts = Ok v.
Proof.
  unfold compat. destruct (ty_eqb tb ts); [auto|].
  destruct tb; auto. destruct ts; auto.
  destruct (str_eqb n s_object); [auto|]. destruct (negb (mem_str n cls)); [auto|].
  destruct (walk f P [n0] []) as [l|] eqn:E; [|discriminate]. rewrite (walk_mono P f _ _ _ k E). auto.
Qed.

Lemma compat_all_mono f k cls P pb : forall ps v, compat_all f cls P pb ps = Ok v -> compat_all (f + k) cls P pb ps = Ok v.
Proof.
  induction pb as [|b pb IH]; intros ps v; cbn [compat_all]; [auto|]. destruct ps as [|s ps]; [auto|].
  destruct (compat f cls P b s) as [w|] eqn:E; [|discriminate]. rewrite (compat_mono f k _ _ _ _ _ E).
  destruct w; [apply IH|auto].
Qed.

Lemma potential_mono f k cls P b a s v :
  is_potential_bridge f cls P b a s = Ok v -> is_potential_bridge (f + k) cls P b a s = Ok v.
Proof.
  unfold is_potential_bridge. destruct (a_private a || a_final a || a_static a); [auto|].
  destruct (parse_method (mr_desc b)) as [[pb rb]|]; [|auto].
  destruct (parse_method (mr_desc s)) as [[ps rs]|]; [|auto].
  destruct (negb (Nat.eqb (length pb) (length ps))); [auto|].
  destruct (compat_all f cls P pb ps) as [w|] eqn:E; [|discriminate]. rewrite (compat_all_mono f k _ _ _ _ _ E).
  destruct w; [|auto]. destruct rb as [tb|], rs as [ts|]; auto. apply compat_mono.
Qed.

Lemma decide_mono f k cls P refs b a o : decide f cls P refs b a = Ok o -> decide (f + k) cls P refs b a = Ok o.
Proof.
  unfold decide. destruct (negb (a_synthetic a)); [auto|].
  destruct (map_get mref_eqb b refs) as [[|s [|s' l]]|]; auto.
  destruct (a_bridge a); [auto|].
  destruct (is_potential_bridge f cls P b a s) as [w|] eqn:E; [|discriminate]. rewrite (potential_mono f k _ _ _ _ _ _ E). auto.
Qed.

Lemma get_higher_mono f k C b1 b2 r : get_higher f C b1 b2 = Ok r -> get_higher (f + k) C b1 b2 = Ok r.
Proof.
  unfold get_higher. destruct (walk f C [mr_class b1] []) as [l|] eqn:E; [|discriminate].
  rewrite (walk_mono C f _ _ _ k E). auto.
Qed.

Lemma step_mono f k cls P C refs st e r : step f cls P C refs st e = Ok r -> step (f + k) cls P C refs st e = Ok r.
Proof.
  unfold step. destruct st as [[b2s s2b]|]; [|discriminate].
  destruct (decide f cls P refs (fst e) (snd e)) as [o|] eqn:E; [|discriminate]. rewrite (decide_mono f k _ _ _ _ _ _ E).
  destruct o as [s|]; [|auto]. destruct (map_get mref_eqb s s2b) as [other|]; [|auto].
  destruct (get_higher f C (fst e) other) as [keep|] eqn:Eh; [|discriminate]. rewrite (get_higher_mono f k _ _ _ _ Eh). auto.
Qed.

Theorem get_specialized_mono f k J r : get_specialized_f f J = Ok r -> get_specialized_f (f + k) J = Ok r.
Proof.
  unfold get_specialized_f. generalize (Ok ([], []) : res (pairs * pairs)). generalize (ix_methods J).
  induction l as [|e l IH]; intros st; cbn [fold_left]; [auto|]. intros H.
  destruct (step f (ix_classes J) (ix_parents J) (ix_children J) (ix_refs J) st e) as [st'|] eqn:E.
  - rewrite (step_mono f k _ _ _ _ _ _ _ E). apply IH. exact H.
  - rewrite fold_step_Err in H. discriminate.
Qed.


(* with enough fuel there is one answer, the answer of the Rust loops *)
Theorem fuel_irrelevant J f1 f2 : jar_fuel J <= f1 -> jar_fuel J <= f2 ->
  exists r, get_specialized_f f1 J = Ok r /\ get_specialized_f f2 J = Ok r.
Proof.
  intros H1 H2. destruct (get_specialized_total_f J (jar_fuel J) (Nat.le_refl _)) as [r Hr]. exists r.
  replace f1 with (jar_fuel J + (f1 - jar_fuel J)) by lia.
  replace f2 with (jar_fuel J + (f2 - jar_fuel J)) by lia.
  split; apply get_specialized_mono; exact Hr.
Qed.

(* ---------- the fuel is linear in the jar: one more than the number of super-type edges ---------- *)
Definition jar_edges (J : jar) : nat := list_sum (map (fun c => length (edges_of c)) J).

Lemma set_add_length x (l : list str) : length (set_add str_eqb x l) <= S (length l).
Proof. unfold set_add. destruct (set_mem str_eqb x l); [lia|]. rewrite app_length. cbn [length]. lia. Qed.

Lemma vals_upd k x G : length (vals (map_upd str_eqb k [] (set_add str_eqb x) G)) <= S (length (vals G)).
Proof.
  induction G as [|[k' v'] G IH]; cbn [map_upd].
  - unfold vals. cbn [flat_map snd]. rewrite app_nil_r. apply set_add_length.
  - destruct (str_eqb k k'); unfold vals in *; cbn [flat_map snd]; rewrite !app_length.
    + pose proof (set_add_length x v'). lia.
    + lia.
Qed.

Lemma store_parents_vals c : forall G, length (vals (store_parents G c)) <= length (edges_of c) + length (vals G).
Proof.
  unfold store_parents. induction (edges_of c) as [|p es IH]; intros G; cbn [fold_left length]; [lia|].
  pose proof (IH (map_upd str_eqb (jc_name c) [] (set_add str_eqb p) G)). pose proof (vals_upd (jc_name c) p G). lia.
Qed.

Lemma store_children_vals c : forall G, length (vals (store_children G c)) <= length (edges_of c) + length (vals G).
Proof.
  unfold store_children. induction (edges_of c) as [|p es IH]; intros G; cbn [fold_left length]; [lia|].
  pose proof (IH (map_upd str_eqb p [] (set_add str_eqb (jc_name c)) G)). pose proof (vals_upd p (jc_name c) G). lia.
Qed.

Lemma fold_store_vals (store : graph -> jclass -> graph) :
  (forall c G, length (vals (store G c)) <= length (edges_of c) + length (vals G)) ->
  forall J G, length (vals (fold_left store J G)) <= jar_edges J + length (vals G).
Proof.
  intros Hs. induction J as [|c J IH]; intros G; cbn [fold_left]; [unfold jar_edges; simpl; lia|].
  pose proof (IH (store G c)). pose proof (Hs c G). unfold jar_edges in *. cbn [map]. simpl list_sum. lia.
Qed.

Theorem jar_fuel_linear J : jar_fuel J <= S (jar_edges J).
Proof.
  unfold jar_fuel, walk_fuel. fold (vals (ix_parents J)). fold (vals (ix_children J)).
  pose proof (fold_store_vals store_parents (fun c G => store_parents_vals c G) J []) as HP.
  pose proof (fold_store_vals store_children (fun c G => store_children_vals c G) J []) as HC.
  unfold ix_parents, ix_children. cbn [vals flat_map length] in HP, HC. lia.
Qed.

(* ================================================================== *)
(* Part 2: the loops before the fix — `for y in G[x] { queue.push(y); out.push(y) }`, no visited set *)
Fixpoint walk_nv (fuel : nat) (G : graph) (stack : list str) (out : list str) : res (list str) :=
  match stack with
  | [] => Ok out
  | c :: q =>
      match fuel with
      | O => Err
      | S f =>
          match map_get str_eqb c G with
          | Some ys => walk_nv f G (rev ys ++ q) (out ++ ys)
          | None => walk_nv f G q out
          end
      end
  end.

(* the number of paths of the table that start at c (the empty path included), cut off below depth d *)
Fixpoint cost (d : nat) (G : graph) (c : str) {struct d} : nat :=
  match map_get str_eqb c G with
  | None => 1%nat
  | Some ys => match d with
               | O => 1%nat
               | S d' => S (list_sum (map (cost d' G) ys))
               end
  end.

(* ---------- depth and cost of a class in a hierarchy table ---------- *)
(* every chain of edges starting at c has at most d edges (a class without an entry has none) *)
Fixpoint depth_ok (d : nat) (G : graph) (c : str) {struct d} : bool :=
  match map_get str_eqb c G with
  | None => true
  | Some ys => match d with
               | O => false
               | S d' => forallb (depth_ok d' G) ys
               end
  end.

Definition total (d : nat) (G : graph) (stack : list str) : nat := list_sum (map (cost d G) stack).

Lemma depth_ok_eq d G c :
  depth_ok d G c = match map_get str_eqb c G with
                   | None => true
                   | Some ys => match d with O => false | S d' => forallb (depth_ok d' G) ys end
                   end.
Proof. destruct d; reflexivity. Qed.

Lemma cost_eq d G c :
  cost d G c = match map_get str_eqb c G with
               | None => 1
               | Some ys => match d with O => 1 | S d' => S (list_sum (map (cost d' G) ys)) end
               end.
Proof. destruct d; reflexivity. Qed.

Lemma cost_pos d G c : 1 <= cost d G c.
Proof. rewrite cost_eq. destruct (map_get str_eqb c G); [destruct d|]; lia. Qed.

(* a larger depth bound changes neither the verdict nor the count *)
Lemma depth_le G : forall d D c, d <= D -> depth_ok d G c = true ->
  depth_ok D G c = true /\ cost D G c = cost d G c.
Proof.
  induction d as [|d IH]; intros D c Hle H; rewrite depth_ok_eq in H.
  - rewrite (depth_ok_eq D), (cost_eq D), (cost_eq 0). destruct (map_get str_eqb c G) as [ys|]; [discriminate|auto].
  - rewrite (depth_ok_eq D), (cost_eq D), (cost_eq (S d)). destruct (map_get str_eqb c G) as [ys|]; [|auto].
    destruct D as [|D]; [lia|]. rewrite forallb_forall in H. split.
    + apply forallb_forall. intros y Hy. apply (IH D y); [lia|auto].
    + f_equal. f_equal. apply map_ext_in. intros y Hy. apply (IH D y); [lia|auto].
Qed.

Lemma list_sum_rev l : list_sum (rev l) = list_sum l.
Proof.
  induction l as [|x l IH]; [reflexivity|]. cbn [rev]. rewrite list_sum_app, IH. simpl. lia.
Qed.

(* ---------- the work-list takes exactly [total] steps ---------- *)
Lemma total_nil d G : total d G [] = 0.
Proof. reflexivity. Qed.
Lemma total_cons d G c q : total d G (c :: q) = cost d G c + total d G q.
Proof. reflexivity. Qed.
Lemma total_app d G l1 l2 : total d G (l1 ++ l2) = total d G l1 + total d G l2.
Proof. unfold total. rewrite map_app, list_sum_app. reflexivity. Qed.
Lemma total_rev d G l : total d G (rev l) = total d G l.
Proof. unfold total. rewrite map_rev, list_sum_rev. reflexivity. Qed.

Theorem walk_nv_exact G d : forall fuel stack out,
  (forall c, In c stack -> depth_ok d G c = true) ->
  ((exists r, walk_nv fuel G stack out = Ok r) <-> total d G stack <= fuel).
Proof.
  induction fuel as [|f IH]; intros stack out Hd.
  - destruct stack as [|c q]; cbn [walk_nv].
    + rewrite total_nil. split; [lia|eauto].
    + rewrite total_cons. pose proof (cost_pos d G c). split; [intros (r & Hr); discriminate|lia].
  - destruct stack as [|c q]; cbn [walk_nv].
    + rewrite total_nil. split; [lia|eauto].
    + assert (Hq : forall c', In c' q -> depth_ok d G c' = true) by (intros c' Hc'; apply Hd; right; exact Hc').
      pose proof (Hd c (or_introl eq_refl)) as Hc. rewrite depth_ok_eq in Hc.
      rewrite total_cons, (cost_eq d G c).
      destruct (map_get str_eqb c G) as [ys|] eqn:E.
      * destruct d as [|d']; [discriminate|]. rewrite forallb_forall in Hc.
        assert (Hys : forall y, In y ys -> depth_ok (S d') G y = true /\ cost (S d') G y = cost d' G y).
        { intros y Hy. apply (depth_le G d' (S d') y); [lia|auto]. }
        rewrite (IH (rev ys ++ q) (out ++ ys)).
        2:{ intros c' Hc'. apply in_app_iff in Hc'. destruct Hc' as [Hc'|Hc']; [|auto].
            apply in_rev in Hc'. apply Hys. exact Hc'. }
        rewrite total_app, total_rev. unfold total at 1.
        rewrite (map_ext_in (cost (S d') G) (cost d' G) ys) by (intros y Hy; apply Hys; exact Hy).
        lia.
      * rewrite (IH q out Hq). lia.
Qed.


(* where it finished, the old loop listed the transitive closure too (with repetitions) *)
Lemma walk_nv_spec R G : graph_inv R G -> forall fuel stack out r,
  walk_nv fuel G stack out = Ok r ->
  forall x, In x r <-> In x out \/ exists c, In c stack /\ clos_trans_1n str R c x.
Proof.
  intros Hg fuel. induction fuel as [|f IH]; intros stack out r Hw x.
  - destruct stack as [|c q]; cbn [walk_nv] in Hw; [|discriminate]. injection Hw as ->.
    split; [auto|intros [Hi|(c & [] & _)]; exact Hi].
  - destruct stack as [|c q]; cbn [walk_nv] in Hw.
    + injection Hw as ->. split; [auto|intros [Hi|(c & [] & _)]; exact Hi].
    + pose proof (Hg c) as Hc. destruct (map_get str_eqb c G) as [ys|].
      * rewrite (IH _ _ _ Hw x). rewrite in_app_iff. split.
        -- intros [[Hi|Hi]|(c' & Hc' & Ht)].
           ++ left. exact Hi.
           ++ right. exists c. split; [left; reflexivity|]. apply t1n_step, Hc, Hi.
           ++ apply in_app_iff in Hc'. destruct Hc' as [Hc'|Hc'].
              ** right. exists c. split; [left; reflexivity|]. apply (t1n_trans _ _ _ c'); [|exact Ht].
                 apply Hc. apply in_rev. exact Hc'.
              ** right. exists c'. split; [right; exact Hc'|exact Ht].
        -- intros [Hi|(c' & [<-|Hc'] & Ht)].
           ++ left. left. exact Hi.
           ++ apply t1n_unfold in Ht. destruct Ht as [Hr|(y & Hr & Ht)].
              ** left. right. apply Hc. exact Hr.
              ** right. exists y. split; [|exact Ht]. apply in_app_iff. left. apply in_rev. rewrite rev_involutive. apply Hc. exact Hr.
           ++ right. exists c'. split; [|exact Ht]. apply in_app_iff. right. exact Hc'.
      * rewrite (IH _ _ _ Hw x). split.
        -- intros [Hi|(c' & Hc' & Ht)]; [left; exact Hi|right; exists c'; split; [right; exact Hc'|exact Ht]].
        -- intros [Hi|(c' & [<-|Hc'] & Ht)]; [left; exact Hi| |right; exists c'; split; assumption].
           exfalso. apply t1n_unfold in Ht. destruct Ht as [Hr|(y & Hr & _)]; exact (Hc _ Hr).
Qed.


(* the fix changes no answer that existed: both loops list the same classes *)
Theorem visited_set_conservative R G : graph_inv R G -> forall f1 f2 c r1 r2,
  walk_nv f1 G [c] [] = Ok r1 -> walk f2 G [c] [] = Ok r2 -> forall x, In x r1 <-> In x r2.
Proof.
  intros Hg f1 f2 c r1 r2 H1 H2 x.
  rewrite (walk_nv_spec R G Hg _ _ _ _ H1 x), (walk_spec R G Hg _ _ _ _ H2 (closed_inv_start R c) x). reflexivity.
Qed.

(* a class on a cycle on the stack: the old loop has no answer, whatever the fuel *)
Lemma t1n_snoc (R : str -> str -> Prop) x y z : clos_trans_1n str R x y -> R y z -> clos_trans_1n str R x z.
Proof.
  intros H. induction H as [x y Hr|x w y Hr Ht IH]; intros Hz.
  - apply (t1n_trans _ _ _ y); [exact Hr|apply t1n_step; exact Hz].
  - apply (t1n_trans _ _ _ w); [exact Hr|apply IH; exact Hz].
Qed.

Lemma cycle_next (R : str -> str -> Prop) x : clos_trans_1n str R x x -> exists y, R x y /\ clos_trans_1n str R y y.
Proof.
  intros H. apply t1n_unfold in H. destruct H as [Hr|(y & Hr & Ht)].
  - exists x. split; [exact Hr|apply t1n_step; exact Hr].
  - exists y. split; [exact Hr|apply (t1n_snoc R y x y Ht Hr)].
Qed.

Theorem walk_nv_diverges R G : graph_inv R G -> forall fuel stack out,
  (exists x, In x stack /\ clos_trans_1n str R x x) -> walk_nv fuel G stack out = Err.
Proof.
  intros Hg. induction fuel as [|f IH]; intros stack out (x & Hx & Hc); destruct stack as [|c q]; try (destruct Hx; fail).
  - reflexivity.
  - cbn [walk_nv]. pose proof (Hg c) as Hgc. destruct Hx as [<-|Hx].
    + destruct (cycle_next R c Hc) as (y & Hr & Hy). destruct (map_get str_eqb c G) as [ys|].
      * apply IH. exists y. split; [|exact Hy]. apply in_app_iff. left. apply in_rev. rewrite rev_involutive. apply Hgc. exact Hr.
      * exfalso. exact (Hgc y Hr).
    + destruct (map_get str_eqb c G) as [ys|]; apply IH; exists x; (split; [|exact Hc]); [apply in_app_iff; right; exact Hx|exact Hx].
Qed.

(* ================================================================== *)
(* non-vacuity and the before / after of the fix *)
(* a diamond: D extends B implements C; B extends A; C extends A.  Five paths start at D although only three
   classes are above it.  D has a synthetic method without the bridge flag whose only callee takes a D where it takes
   an A: deciding that it is a bridge runs the ancestor work-list from D. *)
Definition n_A : str := [65]%N.  Definition n_B : str := [66]%N.  Definition n_C : str := [67]%N.  Definition n_D : str := [68]%N.
Definition d_A : str := [40;76;65;59;41;86]%N.   (* (LA;)V *)
Definition d_D : str := [40;76;68;59;41;86]%N.   (* (LD;)V *)
Definition n_m : str := [109]%N.
Definition dia_jar : jar :=
  [mkJC n_D (Some n_B) [n_C]
     [mkJM n_m d_D acc_plain (Some []);
      mkJM n_m d_A (mkAcc false false false false true) (Some [IOther; IVirtual (n_D, (n_m, d_D)); IOther])];
   mkJC n_B (Some n_A) [] []; mkJC n_C (Some n_A) [] []; mkJC n_A (Some s_object) [] []].

(* k diamonds on top of each other: t_i extends l_i implements r_i; l_i, r_i extend t_(i+1): 3k+1 classes, 4k edges,
   2^(k+2) - 3 paths from t_0 *)
Definition nm (c : N) (i : nat) : str := [c; (48 + N.of_nat i)%N].
Definition d_of (n : str) : str := [40; 76]%N ++ n ++ [59; 41; 86]%N.
Definition tower (k : nat) : jar :=
  flat_map (fun i =>
    [mkJC (nm 116%N i) (Some (nm 108%N i)) [nm 114%N i]
       (match i with
        | O => [mkJM n_m (d_of (nm 116%N 0)) acc_plain (Some []);
                mkJM n_m (d_of (nm 116%N k)) (mkAcc false false false false true) (Some [IOther; IVirtual (nm 116%N 0, (n_m, d_of (nm 116%N 0))); IOther])]
        | _ => []
        end);
     mkJC (nm 108%N i) (Some (nm 116%N (S i))) [] [];
     mkJC (nm 114%N i) (Some (nm 116%N (S i))) [] []]) (seq 0 k)
  ++ [mkJC (nm 116%N k) (Some s_object) [] []].

(* cyclic inheritance: A extends B, B extends A (and a class E whose unflagged synthetic m(LD;)V forwards to m(LA;)V) *)
Definition cyc_jar : jar :=
  [mkJC n_A (Some n_B) [] []; mkJC n_B (Some n_A) [] []; mkJC n_D (Some s_object) [] [];
   mkJC [69]%N (Some s_object) []
     [mkJM n_m d_A acc_plain (Some []);
      mkJM n_m d_D (mkAcc false false false false true) (Some [IOther; IVirtual ([69]%N, (n_m, d_A)); IOther]);
      mkJM [103]%N (d_of n_B) (mkAcc false false false false true) (Some [IOther; IVirtual ([69]%N, (n_m, d_A)); IOther])]].

Definition fuel_examples : Prop :=
  (* the diamond: the old loop walked 5 paths and listed A twice; now 4 pops, every class once *)
  walk_nv 5 (ix_parents dia_jar) [n_D] [] = Ok [n_B; n_C; n_A; n_A]
  /\ walk_nv 4 (ix_parents dia_jar) [n_D] [] = Err
  /\ walk 4 (ix_parents dia_jar) [n_D] [] = Ok [n_B; n_C; n_A]
  /\ walk 3 (ix_parents dia_jar) [n_D] [] = Err
  /\ jar_fuel dia_jar = 5
  /\ get_specialized dia_jar = Ok ([((n_D, (n_m, d_A)), (n_D, (n_m, d_D)))], [((n_D, (n_m, d_D)), (n_D, (n_m, d_A)))])
  (* stacked diamonds: 2045 pops of the old loop for 28 classes (1444 = (4k+2)^2 are not enough), 28 pops now *)
  /\ cost 18 (ix_parents (tower 9)) (nm 116%N 0) = 2045
  /\ walk_nv 1444 (ix_parents (tower 9)) [nm 116%N 0] [] = Err
  /\ (exists r, walk 28 (ix_parents (tower 9)) [nm 116%N 0] [] = Ok r /\ length r = 27)
  /\ walk 27 (ix_parents (tower 9)) [nm 116%N 0] [] = Err
  /\ jar_fuel (tower 9) = 37
  /\ get_specialized (tower 9)
     = Ok ([((nm 116%N 0, (n_m, d_of (nm 116%N 9))), (nm 116%N 0, (n_m, d_of (nm 116%N 0))))],
           [((nm 116%N 0, (n_m, d_of (nm 116%N 0))), (nm 116%N 0, (n_m, d_of (nm 116%N 9))))])
  (* a tower the old loop could not walk (2^42 paths) *)
  /\ (exists r, get_specialized (tower 40) = Ok r /\ length (fst r) = 1)
  (* cyclic inheritance: the old loop has no answer, the new one lists the cycle once: A is its own ancestor;
     B is an ancestor of A (the synthetic g(LB;)V is a bridge of m(LA;)V), D is not *)
  /\ (forall fuel, walk_nv fuel (ix_parents cyc_jar) [n_A] [] = Err)
  /\ walk 3 (ix_parents cyc_jar) [n_A] [] = Ok [n_B; n_A]
  /\ walk 2 (ix_parents cyc_jar) [n_A] [] = Err
  /\ get_specialized cyc_jar = Ok ([(([69]%N, ([103]%N, d_of n_B)), ([69]%N, (n_m, d_A)))], [(([69]%N, (n_m, d_A)), ([69]%N, ([103]%N, d_of n_B)))]).

Lemma fuel_examples_hold : fuel_examples.
Proof.
  unfold fuel_examples.
  assert (Hcyc : forall fuel, walk_nv fuel (ix_parents cyc_jar) [n_A] [] = Err).
  { intros fuel. apply (walk_nv_diverges (parent cyc_jar) _ (ix_parents_spec cyc_jar)).
    exists n_A. split; [left; reflexivity|].
    apply (t1n_trans _ _ _ n_B); [|apply t1n_step].
    - exists (mkJC n_A (Some n_B) [] []). split; [left; reflexivity|]. split; [reflexivity|]. left. reflexivity.
    - exists (mkJC n_B (Some n_A) [] []). split; [right; left; reflexivity|]. split; [reflexivity|]. left. reflexivity. }
  repeat match goal with |- _ /\ _ => split end; try exact Hcyc; try (vm_compute; reflexivity).
  - eexists. split; vm_compute; reflexivity.
  - eexists. split; vm_compute; reflexivity.
Qed.
