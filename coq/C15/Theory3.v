(* C15 — fuel_suffices: on an acyclic class hierarchy the work-lists get_ancestors / get_descendants
   terminate, and the fuel they need is known exactly.

   The Rust loops have no visited set: a class reached along two inheritance paths is pushed (and
   popped, and expanded) twice.  The number of pops of a run started at c is therefore the number
   of PATHS of the hierarchy graph that start at c (the empty path included), not the number of
   classes reachable from c — [cost].  [walk_exact]: a run does not exhaust its fuel IFF the fuel is
   at least the sum of the costs of the classes on the stack.  The hierarchy is acyclic when every
   chain of edges has bounded length ([depth_ok], decidable; implied by a rank that decreases along
   every edge, [ranked]).  The model (Model.jar_fuel) gives the work-lists exactly that many steps: the
   largest cost of a class in the two tables, counted to a depth of the number of rows of the table —
   which is the true path count by pigeonhole ([depth_rows], [jar_fuel_exact]).  [fuel_suffices]:
   Jar::get_specialized_methods as modelled does not answer Err on any acyclic hierarchy; [fuel_sharp]: one
   unit less and some work-list fails; every larger fuel gives the same answer ([fuel_irrelevant]). *)
From FB Require Import C15.Model C15.Theory C15.Theory2.
From Coq Require Import Lia PeanoNat.
Local Open Scope nat_scope.

(* ---------- depth and cost of a class in a hierarchy table ---------- *)
(* every chain of edges starting at c has at most d edges (a class without an entry has none) *)
Fixpoint depth_ok (d : nat) (G : graph) (c : str) {struct d} : bool :=
  match map_get str_eqb c G with
  | None => true
  | Some ys => match d with
               | O => false
               | S d' => forallb (depth_ok d' G) ys
               end
  end.

(* [cost d G c] (Model.v): the number of paths that start at c, cut off below depth d; exact when [depth_ok d G c] *)
Definition total (d : nat) (G : graph) (stack : list str) : nat := list_sum (map (cost d G) stack).

Lemma depth_ok_eq d G c :
  depth_ok d G c = match map_get str_eqb c G with
                   | None => true
                   | Some ys => match d with O => false | S d' => forallb (depth_ok d' G) ys end
                   end.
Proof. destruct d; reflexivity. Qed.

Lemma cost_eq d G c :
  cost d G c = match map_get str_eqb c G with
               | None => 1
               | Some ys => match d with O => 1 | S d' => S (list_sum (map (cost d' G) ys)) end
               end.
Proof. destruct d; reflexivity. Qed.

Lemma cost_pos d G c : 1 <= cost d G c.
Proof. rewrite cost_eq. destruct (map_get str_eqb c G); [destruct d|]; lia. Qed.

(* a larger depth bound changes neither the verdict nor the count *)
Lemma depth_le G : forall d D c, d <= D -> depth_ok d G c = true ->
  depth_ok D G c = true /\ cost D G c = cost d G c.
Proof.
  induction d as [|d IH]; intros D c Hle H; rewrite depth_ok_eq in H.
  - rewrite (depth_ok_eq D), (cost_eq D), (cost_eq 0). destruct (map_get str_eqb c G) as [ys|]; [discriminate|auto].
  - rewrite (depth_ok_eq D), (cost_eq D), (cost_eq (S d)). destruct (map_get str_eqb c G) as [ys|]; [|auto].
    destruct D as [|D]; [lia|]. rewrite forallb_forall in H. split.
    + apply forallb_forall. intros y Hy. apply (IH D y); [lia|auto].
    + f_equal. f_equal. apply map_ext_in. intros y Hy. apply (IH D y); [lia|auto].
Qed.

Lemma list_sum_rev l : list_sum (rev l) = list_sum l.
Proof.
  induction l as [|x l IH]; [reflexivity|]. cbn [rev]. rewrite list_sum_app, IH. simpl. lia.
Qed.

(* ---------- the work-list takes exactly [total] steps ---------- *)
Lemma total_nil d G : total d G [] = 0.
Proof. reflexivity. Qed.
Lemma total_cons d G c q : total d G (c :: q) = cost d G c + total d G q.
Proof. reflexivity. Qed.
Lemma total_app d G l1 l2 : total d G (l1 ++ l2) = total d G l1 + total d G l2.
Proof. unfold total. rewrite map_app, list_sum_app. reflexivity. Qed.
Lemma total_rev d G l : total d G (rev l) = total d G l.
Proof. unfold total. rewrite map_rev, list_sum_rev. reflexivity. Qed.

Theorem walk_exact G d : forall fuel stack out,
  (forall c, In c stack -> depth_ok d G c = true) ->
  ((exists r, walk fuel G stack out = Ok r) <-> total d G stack <= fuel).
Proof.
  induction fuel as [|f IH]; intros stack out Hd.
  - destruct stack as [|c q]; cbn [walk].
    + rewrite total_nil. split; [lia|eauto].
    + rewrite total_cons. pose proof (cost_pos d G c). split; [intros (r & Hr); discriminate|lia].
  - destruct stack as [|c q]; cbn [walk].
    + rewrite total_nil. split; [lia|eauto].
    + assert (Hq : forall c', In c' q -> depth_ok d G c' = true) by (intros c' Hc'; apply Hd; right; exact Hc').
      pose proof (Hd c (or_introl eq_refl)) as Hc. rewrite depth_ok_eq in Hc.
      rewrite total_cons, (cost_eq d G c).
      destruct (map_get str_eqb c G) as [ys|] eqn:E.
      * destruct d as [|d']; [discriminate|]. rewrite forallb_forall in Hc.
        assert (Hys : forall y, In y ys -> depth_ok (S d') G y = true /\ cost (S d') G y = cost d' G y).
        { intros y Hy. apply (depth_le G d' (S d') y); [lia|auto]. }
        rewrite (IH (rev ys ++ q) (out ++ ys)).
        2:{ intros c' Hc'. apply in_app_iff in Hc'. destruct Hc' as [Hc'|Hc']; [|auto].
            apply in_rev in Hc'. apply Hys. exact Hc'. }
        rewrite total_app, total_rev. unfold total at 1.
        rewrite (map_ext_in (cost (S d') G) (cost d' G) ys) by (intros y Hy; apply Hys; exact Hy).
        lia.
      * rewrite (IH q out Hq). lia.
Qed.

(* ---------- a whole table ---------- *)
Definition hier_depth_ok (d : nat) (G : graph) : bool := forallb (fun e => depth_ok d G (fst e)) G.

Lemma hier_depth_all d G : hier_depth_ok d G = true -> forall c, depth_ok d G c = true.
Proof.
  intros H c. destruct (map_get str_eqb c G) as [ys|] eqn:E.
  - apply (map_get_Some_In str_eqb str_eqb_dec) in E. unfold hier_depth_ok in H. rewrite forallb_forall in H.
    apply (H (c, ys) E).
  - rewrite depth_ok_eq, E. reflexivity.
Qed.

Lemma fold_max_ge {A} (f : A -> nat) l x : In x l -> f x <= fold_right (fun e m => Nat.max (f e) m) 1 l.
Proof.
  induction l as [|y l IH]; intros Hx; [destruct Hx|]. cbn [fold_right].
  destruct Hx as [->|Hx]; [lia|]. specialize (IH Hx). lia.
Qed.

Lemma fold_max_one {A} (f : A -> nat) l : 1 <= fold_right (fun e m => Nat.max (f e) m) 1 l.
Proof. induction l as [|y l IH]; cbn [fold_right]; lia. Qed.

Lemma cost_le_bound d G c : cost d G c <= graph_bound d G.
Proof.
  destruct (map_get str_eqb c G) as [ys|] eqn:E.
  - apply (map_get_Some_In str_eqb str_eqb_dec) in E.
    apply (fold_max_ge (fun e => cost d G (fst e)) G (c, ys) E).
  - rewrite cost_eq, E. apply fold_max_one.
Qed.

Definition walks_ok (fuel : nat) (G : graph) : Prop := forall s, exists l, walk fuel G [s] [] = Ok l.

Lemma walks_ok_bound d G fuel : hier_depth_ok d G = true -> graph_bound d G <= fuel -> walks_ok fuel G.
Proof.
  intros Hd Hb s. apply (walk_exact G d fuel [s] []).
  - intros c _. apply hier_depth_all. exact Hd.
  - rewrite total_cons, total_nil. pose proof (cost_le_bound d G s). lia.
Qed.

(* ---------- the depth bound of the model's fuel: the number of rows of the table ---------- *)
(* a chain: every element has a row, and each next element is listed in the row of the previous one *)
Fixpoint chain (G : graph) (l : list str) : Prop :=
  match l with
  | [] => True
  | c :: l' => exists ys, map_get str_eqb c G = Some ys /\ match l' with [] => True | y :: _ => In y ys end /\ chain G l'
  end.

Lemma forallb_false {A} (f : A -> bool) l : forallb f l = false -> exists x, In x l /\ f x = false.
Proof.
  induction l as [|x l IH]; cbn [forallb]; [discriminate|]. destruct (f x) eqn:E; cbn [andb].
  - intros H. destruct (IH H) as (y & Hy & Ey). exists y. split; [right; exact Hy|exact Ey].
  - intros _. exists x. split; [left; reflexivity|exact E].
Qed.

(* a class that is not depth_ok k starts a chain of k+1 rows *)
Lemma long_chain G : forall k c, depth_ok k G c = false -> exists l, length l = k /\ chain G (c :: l).
Proof.
  induction k as [|k IH]; intros c H; rewrite depth_ok_eq in H; destruct (map_get str_eqb c G) as [ys|] eqn:E; try discriminate.
  - exists []. split; [reflexivity|]. cbn [chain]. exists ys. auto.
  - apply forallb_false in H. destruct H as (y & Hy & Ey). destruct (IH y Ey) as (l & Hl & Hc).
    exists (y :: l). split; [cbn [length]; lia|]. change (chain G (c :: y :: l)) with
      (exists ys0, map_get str_eqb c G = Some ys0 /\ In y ys0 /\ chain G (y :: l)).
    exists ys. auto.
Qed.

(* the least depth at which c is depth_ok (below d) *)
Fixpoint least (G : graph) (d : nat) (c : str) : nat :=
  match d with
  | O => O
  | S d' => if depth_ok d' G c then least G d' c else S d'
  end.

Lemma least_ok G : forall d c, depth_ok d G c = true -> depth_ok (least G d c) G c = true.
Proof.
  induction d as [|d IH]; intros c H; cbn [least]; [exact H|].
  destruct (depth_ok d G c) eqn:E; [apply IH; exact E|exact H].
Qed.

Lemma least_le G : forall d c m, depth_ok m G c = true -> least G d c <= m.
Proof.
  induction d as [|d IH]; intros c m H; cbn [least]; [lia|].
  destruct (depth_ok d G c) eqn:E; [apply IH; exact H|].
  destruct (Nat.le_gt_cases m d) as [Hle|Hgt]; [|lia].
  destruct (depth_le G m d c Hle H) as [H' _]. congruence.
Qed.

Lemma least_edge G d c ys y : depth_ok d G c = true -> map_get str_eqb c G = Some ys -> In y ys ->
  least G d y < least G d c.
Proof.
  intros H E Hy. pose proof (least_ok G d c H) as Hm. rewrite depth_ok_eq, E in Hm.
  destruct (least G d c) as [|m] eqn:El; [discriminate|]. rewrite forallb_forall in Hm.
  pose proof (least_le G d y m (Hm y Hy)). lia.
Qed.

Lemma chain_decreasing G d : (forall c, depth_ok d G c = true) ->
  forall l c, chain G (c :: l) -> forall x, In x l -> least G d x < least G d c.
Proof.
  intros Hd. induction l as [|y l IH]; intros c Hc x Hx; [destruct Hx|].
  change (exists ys0, map_get str_eqb c G = Some ys0 /\ In y ys0 /\ chain G (y :: l)) in Hc.
  destruct Hc as (ys & E & Hy & Hc'). pose proof (least_edge G d c ys y (Hd c) E Hy) as H1.
  destruct Hx as [<-|Hx]; [exact H1|]. pose proof (IH y Hc' x Hx). lia.
Qed.

Lemma chain_NoDup G d : (forall c, depth_ok d G c = true) -> forall l, chain G l -> NoDup l.
Proof.
  intros Hd. induction l as [|c l IH]; intros Hc; [constructor|]. constructor.
  - intros Hi. pose proof (chain_decreasing G d Hd l c Hc c Hi). lia.
  - apply IH. destruct Hc as (ys & _ & _ & Hc'). exact Hc'.
Qed.

Lemma chain_rows G : forall l, chain G l -> incl l (map fst G).
Proof.
  induction l as [|c l IH]; intros Hc x Hx; [destruct Hx|]. destruct Hc as (ys & E & _ & Hc').
  destruct Hx as [<-|Hx]; [|exact (IH Hc' x Hx)].
  apply (map_get_Some_In str_eqb str_eqb_dec) in E. apply (in_map fst) in E. exact E.
Qed.

(* pigeonhole: on a table all of whose chains are bounded, no chain is longer than the number of rows *)
Theorem depth_rows G d : (forall c, depth_ok d G c = true) -> forall c, depth_ok (length G) G c = true.
Proof.
  intros Hd c. destruct (depth_ok (length G) G c) eqn:E; [reflexivity|exfalso].
  destruct (long_chain G _ _ E) as (l & Hl & Hc).
  pose proof (NoDup_incl_length (chain_NoDup G d Hd _ Hc) (chain_rows G _ Hc)) as Hlen.
  rewrite map_length in Hlen. cbn [length] in Hlen. lia.
Qed.

Lemma graph_bound_ext d D G : (forall c, cost d G c = cost D G c) -> graph_bound d G = graph_bound D G.
Proof.
  intros H. unfold graph_bound. generalize G at 2 4. induction G0 as [|e G0 IH]; cbn [fold_right]; [reflexivity|].
  rewrite IH, H. reflexivity.
Qed.

(* the model's fuel for a table is the largest number of paths from a class, whatever bound d shows acyclicity *)
Theorem walk_fuel_exact G d : hier_depth_ok d G = true ->
  hier_depth_ok (length G) G = true /\ walk_fuel G = graph_bound d G.
Proof.
  intros H. pose proof (hier_depth_all d G H) as Hd. pose proof (depth_rows G d Hd) as HL. split.
  - unfold hier_depth_ok. apply forallb_forall. intros e _. apply HL.
  - unfold walk_fuel. apply graph_bound_ext. intros c.
    destruct (Nat.le_gt_cases d (length G)) as [Hle|Hgt].
    + apply (depth_le G d (length G) c Hle (Hd c)).
    + symmetry. apply (depth_le G (length G) d c); [lia|apply HL].
Qed.

(* ---------- Jar::get_specialized_methods with an explicit fuel ---------- *)
Definition get_specialized_f (fuel : nat) (J : jar) : res (pairs * pairs) :=
  fold_left (step fuel (ix_classes J) (ix_parents J) (ix_children J) (ix_refs J)) (ix_methods J) (Ok ([], [])).

Lemma get_specialized_is_f J : get_specialized J = get_specialized_f (jar_fuel J) J.
Proof. reflexivity. Qed.

Lemma compat_ok fuel cls P tb ts : walks_ok fuel P -> exists v, compat fuel cls P tb ts = Ok v.
Proof.
  intros H. unfold compat. destruct (ty_eqb tb ts); [eauto|].
  destruct tb; eauto. destruct ts; eauto.
  destruct (str_eqb n s_object); [eauto|]. destruct (negb (mem_str n cls)); [eauto|].
  destruct (H n0) as [l ->]. eauto.
Qed.

Lemma compat_all_ok fuel cls P pb : walks_ok fuel P -> forall ps, exists v, compat_all fuel cls P pb ps = Ok v.
Proof.
  intros H. induction pb as [|b pb IH]; intros ps; cbn [compat_all]; [eauto|].
  destruct ps as [|s ps]; [eauto|]. destruct (compat_ok fuel cls P b s H) as [v ->].
  destruct v; [apply IH|eauto].
Qed.

Lemma potential_ok fuel cls P b a s : walks_ok fuel P -> exists v, is_potential_bridge fuel cls P b a s = Ok v.
Proof.
  intros H. unfold is_potential_bridge. destruct (a_private a || a_final a || a_static a); [eauto|].
  destruct (parse_method (mr_desc b)) as [[pb rb]|]; [|eauto].
  destruct (parse_method (mr_desc s)) as [[ps rs]|]; [|eauto].
  destruct (negb (Nat.eqb (length pb) (length ps))); [eauto|].
  destruct (compat_all_ok fuel cls P pb H ps) as [v ->]. destruct v; [|eauto].
  destruct rb as [tb|], rs as [ts|]; eauto. apply compat_ok. exact H.
Qed.

Lemma decide_ok fuel cls P refs b a : walks_ok fuel P -> exists o, decide fuel cls P refs b a = Ok o.
Proof.
  intros H. unfold decide. destruct (negb (a_synthetic a)); [eauto|].
  destruct (map_get mref_eqb b refs) as [[|s [|s' l]]|]; eauto.
  destruct (a_bridge a); [eauto|]. destruct (potential_ok fuel cls P b a s H) as [v ->]. destruct v; eauto.
Qed.

Lemma get_higher_ok fuel C b1 b2 : walks_ok fuel C -> exists r, get_higher fuel C b1 b2 = Ok r.
Proof. intros H. unfold get_higher. destruct (H (mr_class b1)) as [l ->]. eauto. Qed.

Lemma step_ok fuel cls P C refs st e : walks_ok fuel P -> walks_ok fuel C ->
  exists st', step fuel cls P C refs (Ok st) e = Ok st'.
Proof.
  intros HP HC. unfold step. destruct st as [b2s s2b].
  destruct (decide_ok fuel cls P refs (fst e) (snd e) HP) as [o ->]. destruct o as [s|]; [|eauto].
  destruct (map_get mref_eqb s s2b) as [other|]; [|eauto].
  destruct (get_higher_ok fuel C (fst e) other HC) as [r ->]. eauto.
Qed.

Lemma loop_never_err fuel cls P C refs l : walks_ok fuel P -> walks_ok fuel C ->
  forall st, exists r, fold_left (step fuel cls P C refs) l (Ok st) = Ok r.
Proof.
  intros HP HC. induction l as [|e l IH]; intros st; cbn [fold_left]; [eauto|].
  destruct (step_ok fuel cls P C refs st e HP HC) as [st' ->]. apply IH.
Qed.

Definition hier_ok (d : nat) (J : jar) : bool :=
  hier_depth_ok d (ix_parents J) && hier_depth_ok d (ix_children J).
Definition fuel_bound (d : nat) (J : jar) : nat :=
  Nat.max (graph_bound d (ix_parents J)) (graph_bound d (ix_children J)).

Theorem fuel_suffices_f J d fuel : hier_ok d J = true -> fuel_bound d J <= fuel ->
  exists r, get_specialized_f fuel J = Ok r.
Proof.
  unfold hier_ok, fuel_bound. rewrite andb_true_iff. intros [HP HC] Hb.
  apply loop_never_err; apply (walks_ok_bound d); auto; lia.
Qed.

(* the model's fuel is exactly the bound, whatever depth d shows the hierarchy acyclic *)
Theorem jar_fuel_exact J d : hier_ok d J = true -> jar_fuel J = fuel_bound d J.
Proof.
  unfold hier_ok, jar_fuel, fuel_bound. rewrite andb_true_iff. intros [HP HC].
  destruct (walk_fuel_exact _ d HP) as [_ ->]. destruct (walk_fuel_exact _ d HC) as [_ ->]. reflexivity.
Qed.

Theorem fuel_suffices J d : hier_ok d J = true -> get_specialized J <> Err.
Proof.
  intros H. rewrite get_specialized_is_f.
  destruct (fuel_suffices_f J d (jar_fuel J) H) as [r ->]; [rewrite (jar_fuel_exact J d H); apply Nat.le_refl|discriminate].
Qed.

(* and it is not generous: with less fuel than the model's, some work-list of the jar started at one of its classes fails *)
Theorem fuel_sharp J d f : hier_ok d J = true -> f < jar_fuel J ->
  exists c, walk f (ix_parents J) [c] [] = Err \/ walk f (ix_children J) [c] [] = Err.
Proof.
  intros H Hf. rewrite (jar_fuel_exact J d H) in Hf. unfold hier_ok in H. apply andb_true_iff in H. destruct H as [HP HC].
  unfold fuel_bound in Hf.
  assert (Hex : forall G, hier_depth_ok d G = true -> f < graph_bound d G -> exists c, walk f G [c] [] = Err).
  { intros G HG Hlt. assert (Hc : exists c, f < cost d G c).
    { unfold graph_bound in Hlt. revert Hlt. generalize G at 2. induction G0 as [|e G0 IH]; cbn [fold_right]; intros Hlt.
      - exists []. pose proof (cost_pos d G []). lia.
      - destruct (Nat.max_spec (cost d G (fst e)) (fold_right (fun e0 m => Nat.max (cost d G (fst e0)) m) 1 G0)) as [[_ Hm]|[_ Hm]]; rewrite Hm in Hlt.
        + apply IH. exact Hlt.
        + exists (fst e). exact Hlt. }
    destruct Hc as (c & Hc). exists c. destruct (walk f G [c] []) as [r|] eqn:E; [|reflexivity]. exfalso.
    assert (Hw : exists r, walk f G [c] [] = Ok r) by (exists r; exact E).
    apply (walk_exact G d f [c] []) in Hw; [|intros c' _; apply hier_depth_all; exact HG].
    rewrite total_cons, total_nil in Hw. lia. }
  destruct (Nat.max_spec (graph_bound d (ix_parents J)) (graph_bound d (ix_children J))) as [[_ Hm]|[_ Hm]]; rewrite Hm in Hf.
  - destruct (Hex _ HC Hf) as (c & Hc). exists c. right. exact Hc.
  - destruct (Hex _ HP Hf) as (c & Hc). exists c. left. exact Hc.
Qed.

(* ---------- more fuel never changes the answer of the whole computation ---------- *)
Lemma compat_mono f k cls P tb ts v : compat f cls P tb ts = Ok v -> compat (f + k) cls P tb ts = Ok v.
Proof.
  unfold compat. destruct (ty_eqb tb ts); [auto|].
  destruct tb; auto. destruct ts; auto.
  destruct (str_eqb n s_object); [auto|]. destruct (negb (mem_str n cls)); [auto|].
  destruct (walk f P [n0] []) as [l|] eqn:E; [|discriminate]. rewrite (walk_mono P f _ _ _ k E). auto.
Qed.

Lemma compat_all_mono f k cls P pb : forall ps v, compat_all f cls P pb ps = Ok v -> compat_all (f + k) cls P pb ps = Ok v.
Proof.
  induction pb as [|b pb IH]; intros ps v; cbn [compat_all]; [auto|]. destruct ps as [|s ps]; [auto|].
  destruct (compat f cls P b s) as [w|] eqn:E; [|discriminate]. rewrite (compat_mono f k _ _ _ _ _ E).
  destruct w; [apply IH|auto].
Qed.

Lemma potential_mono f k cls P b a s v :
  is_potential_bridge f cls P b a s = Ok v -> is_potential_bridge (f + k) cls P b a s = Ok v.
Proof.
  unfold is_potential_bridge. destruct (a_private a || a_final a || a_static a); [auto|].
  destruct (parse_method (mr_desc b)) as [[pb rb]|]; [|auto].
  destruct (parse_method (mr_desc s)) as [[ps rs]|]; [|auto].
  destruct (negb (Nat.eqb (length pb) (length ps))); [auto|].
  destruct (compat_all f cls P pb ps) as [w|] eqn:E; [|discriminate]. rewrite (compat_all_mono f k _ _ _ _ _ E).
  destruct w; [|auto]. destruct rb as [tb|], rs as [ts|]; auto. apply compat_mono.
Qed.

Lemma decide_mono f k cls P refs b a o : decide f cls P refs b a = Ok o -> decide (f + k) cls P refs b a = Ok o.
Proof.
  unfold decide. destruct (negb (a_synthetic a)); [auto|].
  destruct (map_get mref_eqb b refs) as [[|s [|s' l]]|]; auto.
  destruct (a_bridge a); [auto|].
  destruct (is_potential_bridge f cls P b a s) as [w|] eqn:E; [|discriminate]. rewrite (potential_mono f k _ _ _ _ _ _ E). auto.
Qed.

Lemma get_higher_mono f k C b1 b2 r : get_higher f C b1 b2 = Ok r -> get_higher (f + k) C b1 b2 = Ok r.
Proof.
  unfold get_higher. destruct (walk f C [mr_class b1] []) as [l|] eqn:E; [|discriminate].
  rewrite (walk_mono C f _ _ _ k E). auto.
Qed.

Lemma step_mono f k cls P C refs st e r : step f cls P C refs st e = Ok r -> step (f + k) cls P C refs st e = Ok r.
Proof.
  unfold step. destruct st as [[b2s s2b]|]; [|discriminate].
  destruct (decide f cls P refs (fst e) (snd e)) as [o|] eqn:E; [|discriminate]. rewrite (decide_mono f k _ _ _ _ _ _ E).
  destruct o as [s|]; [|auto]. destruct (map_get mref_eqb s s2b) as [other|]; [|auto].
  destruct (get_higher f C (fst e) other) as [keep|] eqn:Eh; [|discriminate]. rewrite (get_higher_mono f k _ _ _ _ Eh). auto.
Qed.

Theorem get_specialized_mono f k J r : get_specialized_f f J = Ok r -> get_specialized_f (f + k) J = Ok r.
Proof.
  unfold get_specialized_f. generalize (Ok ([], []) : res (pairs * pairs)). generalize (ix_methods J).
  induction l as [|e l IH]; intros st; cbn [fold_left]; [auto|]. intros H.
  destruct (step f (ix_classes J) (ix_parents J) (ix_children J) (ix_refs J) st e) as [st'|] eqn:E.
  - rewrite (step_mono f k _ _ _ _ _ _ _ E). apply IH. exact H.
  - rewrite fold_step_Err in H. discriminate.
Qed.

(* with enough fuel there is one answer, the answer of the terminating Rust loops *)
Theorem fuel_irrelevant J d f1 f2 : hier_ok d J = true -> fuel_bound d J <= f1 -> fuel_bound d J <= f2 ->
  exists r, get_specialized_f f1 J = Ok r /\ get_specialized_f f2 J = Ok r.
Proof.
  intros H H1 H2. destruct (fuel_suffices_f J d (fuel_bound d J) H (Nat.le_refl _)) as [r Hr]. exists r.
  replace f1 with (fuel_bound d J + (f1 - fuel_bound d J)) by lia.
  replace f2 with (fuel_bound d J + (f2 - fuel_bound d J)) by lia.
  split; apply get_specialized_mono; exact Hr.
Qed.

(* ---------- acyclic = some rank decreases along every edge (the formulation of C06) ---------- *)
(* [ranked J rk D]: every class of the jar has rank below D and each of its super types (super
   class other than java/lang/Object, interfaces) has a smaller rank *)
Definition ranked (J : jar) (rk : str -> nat) (D : nat) : bool :=
  forallb (fun c => Nat.ltb (rk (jc_name c)) D
                    && forallb (fun p => Nat.ltb (rk p) (rk (jc_name c))) (edges_of c)) J.

Lemma ranked_parent J rk D : ranked J rk D = true -> forall c p, parent J c p -> rk p < rk c /\ rk c < D.
Proof.
  unfold ranked. rewrite forallb_forall. intros H c p (jc & Hin & <- & Hp).
  specialize (H jc Hin). apply andb_true_iff in H. destruct H as [H1 H2].
  rewrite forallb_forall in H2. specialize (H2 p Hp). apply Nat.ltb_lt in H1, H2. lia.
Qed.

Lemma rank_depth (G : graph) (rk : str -> nat) :
  (forall c ys y, map_get str_eqb c G = Some ys -> In y ys -> rk y < rk c) ->
  forall n c, rk c < n -> depth_ok n G c = true.
Proof.
  intros Hr. induction n as [|n IH]; intros c Hc; [lia|].
  rewrite depth_ok_eq. destruct (map_get str_eqb c G) as [ys|] eqn:E; [|reflexivity].
  apply forallb_forall. intros y Hy. apply IH. specialize (Hr c ys y E Hy). lia.
Qed.

Lemma ranked_table (R : str -> str -> Prop) G (rk : str -> nat) D :
  graph_inv R G -> (forall c y, R c y -> rk y < rk c /\ rk y < D) -> hier_depth_ok (S D) G = true.
Proof.
  intros Hg Hr. unfold hier_depth_ok. apply forallb_forall. intros e He.
  rewrite depth_ok_eq. destruct (map_get str_eqb (fst e) G) as [ys|] eqn:E; [|reflexivity].
  apply forallb_forall. intros y Hy. apply (rank_depth G rk).
  - intros c zs z Ez Hz. pose proof (Hg c) as Hc. rewrite Ez in Hc. apply (Hr c z). apply Hc. exact Hz.
  - pose proof (Hg (fst e)) as Hc. rewrite E in Hc. apply (Hr (fst e) y). apply Hc. exact Hy.
Qed.

Theorem ranked_hier_ok J rk D : ranked J rk D = true -> hier_ok (S D) J = true.
Proof.
  intros H. pose proof (ranked_parent J rk D H) as Hp. unfold hier_ok. apply andb_true_iff. split.
  - apply (ranked_table (parent J) _ rk D (ix_parents_spec J)).
    intros c y Hcy. destruct (Hp c y Hcy). lia.
  - apply (ranked_table (fun p c => parent J c p) _ (fun x => D - rk x) D (ix_children_spec J)).
    intros p c Hcp. destruct (Hp c p Hcp). lia.
Qed.

Theorem fuel_suffices_ranked J rk D : ranked J rk D = true -> get_specialized J <> Err.
Proof. intros H. apply (fuel_suffices J (S D)). apply (ranked_hier_ok J rk D H). Qed.

(* ---------- a cheap sufficient condition: bounded out-degree x depth ---------- *)
(* 1 + b + b^2 + ... + b^d *)
Fixpoint geo (b d : nat) : nat := match d with O => 1 | S d' => S (b * geo b d') end.
Definition degree_le (b : nat) (G : graph) : bool := forallb (fun e => Nat.leb (length (snd e)) b) G.

Lemma list_sum_le_const (f : str -> nat) m l : (forall y, In y l -> f y <= m) -> list_sum (map f l) <= length l * m.
Proof.
  induction l as [|y l IH]; intros H; [simpl; lia|]. rewrite map_cons. change (list_sum (f y :: map f l)) with (f y + list_sum (map f l)). cbn [length Nat.mul].
  pose proof (H y (or_introl eq_refl)). assert (list_sum (map f l) <= length l * m) by (apply IH; intros z Hz; apply H; right; exact Hz). lia.
Qed.

Lemma cost_le_geo b G : degree_le b G = true -> forall d c, cost d G c <= geo b d.
Proof.
  intros Hb. induction d as [|d IH]; intros c; rewrite cost_eq; destruct (map_get str_eqb c G) as [ys|] eqn:E; cbn [geo]; try lia.
  apply (map_get_Some_In str_eqb str_eqb_dec) in E. unfold degree_le in Hb. rewrite forallb_forall in Hb.
  specialize (Hb (c, ys) E). cbn [snd] in Hb. apply Nat.leb_le in Hb.
  pose proof (list_sum_le_const (cost d G) (geo b d) ys (fun y _ => IH y)) as Hs.
  assert (length ys * geo b d <= b * geo b d) by (apply Nat.mul_le_mono_r; exact Hb). lia.
Qed.

Lemma fold_max_le {A} (f : A -> nat) m l : 1 <= m -> (forall x, In x l -> f x <= m) ->
  fold_right (fun e acc => Nat.max (f e) acc) 1 l <= m.
Proof.
  intros H1. induction l as [|x l IH]; intros H; cbn [fold_right]; [exact H1|].
  pose proof (H x (or_introl eq_refl)). assert (fold_right (fun e acc => Nat.max (f e) acc) 1 l <= m) by (apply IH; intros z Hz; apply H; right; exact Hz). lia.
Qed.

Lemma graph_bound_le_geo b d G : degree_le b G = true -> graph_bound d G <= geo b d.
Proof.
  intros Hb. unfold graph_bound. apply fold_max_le.
  - destruct d; cbn [geo]; lia.
  - intros e _. apply (cost_le_geo b G Hb).
Qed.

(* at most b super types per class and at most b direct subtypes per class, chains of at most d
   edges: no work-list of the jar takes more than 1 + b + ... + b^d steps *)
Theorem fuel_degree_bound J b d :
  hier_ok d J = true -> degree_le b (ix_parents J) = true -> degree_le b (ix_children J) = true ->
  jar_fuel J <= geo b d.
Proof.
  intros H HP HC. rewrite (jar_fuel_exact J d H). unfold fuel_bound.
  pose proof (graph_bound_le_geo b d _ HP). pose proof (graph_bound_le_geo b d _ HC). lia.
Qed.

(* ---------- non-vacuity ---------- *)
(* a diamond: D extends B implements C; B extends A; C extends A.  Five paths start at D
   (D, D-B, D-B-A, D-C, D-C-A) although only four classes are reachable: A is expanded twice, and
   listed twice in the output.  D has a synthetic method without the bridge flag whose only callee
   takes a D where it takes an A: deciding that it is a bridge runs the ancestor work-list from D. *)
Definition n_A : str := [65]%N.  Definition n_B : str := [66]%N.  Definition n_C : str := [67]%N.  Definition n_D : str := [68]%N.
Definition d_A : str := [40;76;65;59;41;86]%N.   (* (LA;)V *)
Definition d_D : str := [40;76;68;59;41;86]%N.   (* (LD;)V *)
Definition n_m : str := [109]%N.
Definition dia_jar : jar :=
  [mkJC n_D (Some n_B) [n_C]
     [mkJM n_m d_D acc_plain (Some []);
      mkJM n_m d_A (mkAcc false false false false true) (Some [(n_D, (n_m, d_D))])];
   mkJC n_B (Some n_A) [] []; mkJC n_C (Some n_A) [] []; mkJC n_A (Some s_object) [] []].
Definition dia_rank (c : str) : nat :=
  if str_eqb c n_D then 2 else if str_eqb c n_B then 1 else if str_eqb c n_C then 1 else 0.

(* k diamonds on top of each other: t_i extends l_i implements r_i; l_i, r_i extend t_(i+1).
   2^(k+2) - 3 paths start at t_0 while the table has 4k edges: for k = 9 a quadratic fuel
   (4k+2)^2 = 1444 is below the 2045 steps the (terminating) Rust loop takes; the model's fuel is the path count. *)
Definition nm (c : N) (i : nat) : str := [c; (48 + N.of_nat i)%N].
Definition d_of (n : str) : str := [40; 76]%N ++ n ++ [59; 41; 86]%N.
Definition tower (k : nat) : jar :=
  flat_map (fun i =>
    [mkJC (nm 116%N i) (Some (nm 108%N i)) [nm 114%N i]
       (match i with
        | O => [mkJM n_m (d_of (nm 116%N 0)) acc_plain (Some []);
                mkJM n_m (d_of (nm 116%N k)) (mkAcc false false false false true) (Some [(nm 116%N 0, (n_m, d_of (nm 116%N 0)))])]
        | _ => []
        end);
     mkJC (nm 108%N i) (Some (nm 116%N (S i))) [] [];
     mkJC (nm 114%N i) (Some (nm 116%N (S i))) [] []]) (seq 0 k)
  ++ [mkJC (nm 116%N k) (Some s_object) [] []].

Definition fuel_examples : Prop :=
  (* the diamond is inside the hypotheses, by rank and by depth *)
  ranked dia_jar dia_rank 3 = true /\ hier_ok 2 dia_jar = true
  /\ fuel_bound 2 dia_jar = 5 /\ jar_fuel dia_jar = 5
  (* paths, not classes: 5 steps, A twice *)
  /\ walk 5 (ix_parents dia_jar) [n_D] [] = Ok [n_B; n_C; n_A; n_A]
  /\ walk 4 (ix_parents dia_jar) [n_D] [] = Err
  /\ get_specialized dia_jar = Ok ([((n_D, (n_m, d_A)), (n_D, (n_m, d_D)))], [((n_D, (n_m, d_D)), (n_D, (n_m, d_A)))])
  /\ get_specialized_f 4 dia_jar = Err
  (* no polynomial in the size of the tables would do: an acyclic tower of nine diamonds (28 classes, 36 edges) *)
  /\ hier_ok 18 (tower 9) = true /\ fuel_bound 18 (tower 9) = 2045 /\ jar_fuel (tower 9) = 2045
  /\ get_specialized_f 1444 (tower 9) = Err
  /\ get_specialized (tower 9)
     = Ok ([((nm 116%N 0, (n_m, d_of (nm 116%N 9))), (nm 116%N 0, (n_m, d_of (nm 116%N 0))))],
           [((nm 116%N 0, (n_m, d_of (nm 116%N 0))), (nm 116%N 0, (n_m, d_of (nm 116%N 9))))]).

Lemma fuel_examples_hold : fuel_examples.
Proof. unfold fuel_examples. repeat split; vm_compute; reflexivity. Qed.
