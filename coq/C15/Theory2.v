(* C15 theory, part 2: the insertion into the mappings (mappings_frame and its corollaries), the
   function as a whole, the link to Quill.Mappings.wf, fuel monotonicity, non-vacuity. *)
From FB Require Import C15.Model C15.Theory.
From Coq Require Import Relations.Relation_Operators.

(* ------------------------------------------------------------------ *)
(* the insertion into the mappings *)
Definition find_meth (k : key) (ms : list meth) : option meth :=
  find (fun m => okey_eqb key2_eqb (meth_key m) (Some k)) ms.
Definition doc_of (o : option meth) : option str := match o with Some m => m_doc m | None => None end.
Definition params_of (o : option meth) : list param := match o with Some m => m_params m | None => [] end.

Lemma okey_key_eq (a : option key) (k : key) : okey_eqb key2_eqb a (Some k) = true <-> a = Some k.
Proof.
  destruct a as [k'|]; cbn; [|split; discriminate].
  rewrite key2_eqb_eq. split; [intros ->; reflexivity|intros [= ->]; reflexivity].
Qed.
Lemma okey_str_eq (a : option str) (c : str) : okey_eqb str_eqb a (Some c) = true <-> a = Some c.
Proof.
  destruct a as [c'|]; cbn; [|split; discriminate].
  rewrite str_eqb_eq. split; [intros ->; reflexivity|intros [= ->]; reflexivity].
Qed.

Lemma first_name_names2 a b : first_name (names2 a b) = if is_nil a then None else Some a.
Proof. unfold names2, first_name. destruct (is_nil a); reflexivity. Qed.

Lemma find_upsert_same (k : key) nm ms : first_name nm = Some (fst k) ->
  find_meth k (upsert_method k nm ms)
  = Some (mkMeth (snd k) nm (doc_of (find_meth k ms)) (params_of (find_meth k ms))).
Proof.
  intros Hn. assert (Hk : forall d p, okey_eqb key2_eqb (meth_key (mkMeth (snd k) nm d p)) (Some k) = true).
  { intros d p. apply okey_key_eq. unfold meth_key. cbn [m_names m_desc]. rewrite Hn. destruct k; reflexivity. }
  unfold find_meth. induction ms as [|m ms IH]; cbn [upsert_method find]; cbv beta.
  - rewrite Hk. reflexivity.
  - destruct (okey_eqb key2_eqb (meth_key m) (Some k)) eqn:E; cbn [find].
    + cbv beta. rewrite Hk. reflexivity.
    + cbv beta. rewrite E. exact IH.
Qed.

Lemma find_upsert_other (k k' : key) nm ms : first_name nm = Some (fst k) -> k' <> k ->
  find_meth k' (upsert_method k nm ms) = find_meth k' ms.
Proof.
  intros Hn Hne.
  assert (Hk : forall d p, okey_eqb key2_eqb (meth_key (mkMeth (snd k) nm d p)) (Some k') = false).
  { intros d p. destruct (okey_eqb key2_eqb (meth_key (mkMeth (snd k) nm d p)) (Some k')) eqn:E; [|reflexivity].
    apply okey_key_eq in E. unfold meth_key in E. cbn [m_names m_desc] in E. rewrite Hn in E.
    destruct k. cbn [fst snd] in E. congruence. }
  unfold find_meth. induction ms as [|m ms IH]; cbn [upsert_method find]; cbv beta.
  - rewrite Hk. reflexivity.
  - destruct (okey_eqb key2_eqb (meth_key m) (Some k)) eqn:E; cbn [find].
    + cbv beta. rewrite Hk. apply okey_key_eq in E.
      destruct (okey_eqb key2_eqb (meth_key m) (Some k')) eqn:E'; [|reflexivity].
      apply okey_key_eq in E'. congruence.
    + cbv beta. destruct (okey_eqb key2_eqb (meth_key m) (Some k')); [reflexivity|exact IH].
Qed.

(* keys stay pairwise distinct *)
Lemma upsert_keys (k : key) nm ms : first_name nm = Some (fst k) ->
  forall x, In x (map meth_key (upsert_method k nm ms)) <-> x = Some k \/ In x (map meth_key ms).
Proof.
  intros Hn x.
  assert (Hk : forall d p, meth_key (mkMeth (snd k) nm d p) = Some k).
  { intros d p. unfold meth_key. cbn [m_names m_desc]. rewrite Hn. destruct k; reflexivity. }
  induction ms as [|m ms IH]; cbn [upsert_method map In].
  - rewrite Hk. split; [intros [<-|[]]; auto|intros [->|[]]; auto].
  - destruct (okey_eqb key2_eqb (meth_key m) (Some k)) eqn:E; cbn [map In].
    + apply okey_key_eq in E. rewrite Hk, E. split; [intros [<-|Hi]; auto|intros [->|[<-|Hi]]; auto].
    + rewrite IH. split; [intros [<-|[->|Hi]]; auto|intros [->|[<-|Hi]]; auto].
Qed.

Lemma upsert_NoDup (k : key) nm ms : first_name nm = Some (fst k) ->
  NoDup (map meth_key ms) -> NoDup (map meth_key (upsert_method k nm ms)).
Proof.
  intros Hn.
  assert (Hk : forall d p, meth_key (mkMeth (snd k) nm d p) = Some k).
  { intros d p. unfold meth_key. cbn [m_names m_desc]. rewrite Hn. destruct k; reflexivity. }
  induction ms as [|m ms IH]; cbn [upsert_method map]; intros Hnd.
  - constructor; [intros []|constructor].
  - inversion Hnd as [|? ? Hm Hnd']; subst.
    destruct (okey_eqb key2_eqb (meth_key m) (Some k)) eqn:E; cbn [map].
    + apply okey_key_eq in E. rewrite Hk, <- E. constructor; assumption.
    + constructor; [|apply IH; exact Hnd'].
      rewrite (upsert_keys k nm ms Hn). intros [Em|Hi]; [|contradiction].
      rewrite Em in E. assert (okey_eqb key2_eqb (Some k) (Some k) = true) by (apply okey_key_eq; reflexivity). congruence.
Qed.

(* the last bridge in P that targets class c with delegate key k *)
Fixpoint lastp (P : pairs) (c : str) (k : key) : option mref :=
  match P with
  | [] => None
  | (b, s) :: P' =>
      match lastp P' c k with
      | Some b' => Some b'
      | None => if str_eqb (mr_class b) c && key_eqb (snd s) k then Some b else None
      end
  end.

Lemma upd_class_spec c f cs : forall cs',
  NoDup (map class_key cs) -> upd_class c f cs = Ok cs' ->
  Forall2 (fun x x' => if okey_eqb str_eqb (class_key x) (Some c) then f x = Ok x' else x' = x) cs cs'.
Proof.
  induction cs as [|x cs IH]; intros cs' Hnd; cbn [upd_class map].
  - intros [= <-]. constructor.
  - cbn [map] in Hnd. inversion Hnd as [|? ? Hx Hnd']; subst.
    destruct (okey_eqb str_eqb (class_key x) (Some c)) eqn:E.
    + destruct (f x) as [x'|] eqn:Ef; [|discriminate]. intros [= <-]. constructor; [rewrite E; exact Ef|].
      apply okey_str_eq in E. clear IH Hnd Hnd'. induction cs as [|y cs IH2]; constructor.
      * destruct (okey_eqb str_eqb (class_key y) (Some c)) eqn:Ey; [|reflexivity].
        apply okey_str_eq in Ey. exfalso. apply Hx. left. congruence.
      * apply IH2. intros Hi. apply Hx. right. exact Hi.
    + destruct (upd_class c f cs) as [r|] eqn:Eu; [|discriminate]. intros [= <-].
      constructor; [rewrite E; reflexivity|apply IH; [exact Hnd'|reflexivity]].
Qed.

Lemma fold_add_Err named P : fold_left (add_one named) P Err = Err.
Proof. induction P as [|e P IH]; cbn [fold_left add_one]; [reflexivity|exact IH]. Qed.

(* what a class of the result looks like, relative to the class it came from *)
Definition class_frame (named : mref -> res str) (P : pairs) (c c' : class) : Prop :=
  c_names c' = c_names c /\ c_doc c' = c_doc c /\ c_fields c' = c_fields c /\
  (NoDup (map meth_key (c_methods c)) -> NoDup (map meth_key (c_methods c'))) /\
  (class_key c = None -> c' = c) /\
  forall cname, class_key c = Some cname ->
    forall k, match lastp P cname k with
              | None => find_meth k (c_methods c') = find_meth k (c_methods c)
              | Some b => exists nm, named b = Ok nm /\
                  find_meth k (c_methods c')
                  = Some (mkMeth (snd k) (names2 (fst k) nm)
                            (doc_of (find_meth k (c_methods c))) (params_of (find_meth k (c_methods c))))
              end.

Lemma class_key_names c c' : c_names c' = c_names c -> class_key c' = class_key c.
Proof. unfold class_key. intros ->. reflexivity. Qed.

Lemma add_fold named P : forall cs cs',
  NoDup (map class_key cs) ->
  fold_left (add_one named) P (Ok cs) = Ok cs' ->
  Forall2 (class_frame named P) cs cs'.
Proof.
  induction P as [|[b s] P IH]; intros cs cs' Hnd Hf.
  - cbn [fold_left] in Hf. injection Hf as <-. clear Hnd. induction cs as [|c cs IHc]; constructor; [|exact IHc].
    unfold class_frame. repeat split; auto.
  - cbn [fold_left] in Hf. unfold add_one at 2 in Hf. cbn [fst snd] in Hf.
    destruct (named b) as [nm|] eqn:En; [|rewrite fold_add_Err in Hf; discriminate].
    set (f := fun c : class => match first_name (names2 (mr_name s) nm) with
                                | Some n => Ok (mkClass (c_names c) (c_doc c) (c_fields c)
                                                  (upsert_method (n, mr_desc s) (names2 (mr_name s) nm) (c_methods c)))
                                | None => Err
                                end) in Hf.
    destruct (upd_class (mr_class b) f cs) as [cs1|] eqn:Eu; [|rewrite fold_add_Err in Hf; discriminate].
    pose proof (upd_class_spec _ _ _ _ Hnd Eu) as H1.
    assert (Hnd1 : NoDup (map class_key cs1)).
    { replace (map class_key cs1) with (map class_key cs); [exact Hnd|].
      clear -H1. induction H1 as [|x x' l l' Hx _ IHl]; [reflexivity|]. cbn [map]. f_equal; [|exact IHl].
      destruct (okey_eqb str_eqb (class_key x) (Some (mr_class b))); [|subst; reflexivity].
      unfold f in Hx. destruct (first_name (names2 (mr_name s) nm)); [|discriminate]. injection Hx as <-. reflexivity. }
    pose proof (IH _ _ Hnd1 Hf) as H2. clear IH Hf Eu Hnd Hnd1.
    revert cs' H2. induction H1 as [|x x1 l l1 Hx _ IHl]; intros cs' H2; inversion H2 as [|? x' ? l' Hfr Hrest]; subst; constructor.
    2:{ apply IHl. exact Hrest. }
    clear IHl Hrest H2. destruct Hfr as (Fn & Fd & Ff & Fnd & Fnone & Fk).
    destruct (okey_eqb str_eqb (class_key x) (Some (mr_class b))) eqn:Ex.
    + (* the class of the bridge *)
      apply okey_str_eq in Ex. unfold f in Hx. rewrite first_name_names2 in Hx.
      destruct (is_nil (mr_name s)) eqn:Enil; [discriminate|]. injection Hx as <-.
      cbn [c_names c_doc c_fields c_methods] in *.
      assert (Hfn : first_name (names2 (mr_name s) nm) = Some (fst (mr_name s, mr_desc s))).
      { rewrite first_name_names2, Enil. reflexivity. }
      unfold class_frame. split; [exact Fn|]. split; [exact Fd|]. split; [exact Ff|].
      split; [intros Hn; apply Fnd, (upsert_NoDup _ _ _ Hfn), Hn|].
      split; [intros E; congruence|].
      intros cname Ec k. assert (cname = mr_class b) by congruence. subst cname.
      assert (Ec1 : class_key (mkClass (c_names x) (c_doc x) (c_fields x)
                                 (upsert_method (mr_name s, mr_desc s) (names2 (mr_name s) nm) (c_methods x))) = Some (mr_class b)) by exact Ex.
      specialize (Fk _ Ec1 k). cbn [c_methods] in Fk. cbn [lastp].
      destruct (lastp P (mr_class b) k) as [b'|].
      * destruct Fk as (nm' & En' & Efind). exists nm'. split; [exact En'|]. rewrite Efind. f_equal.
        destruct (key_eqb (mr_name s, mr_desc s) k) eqn:Ek.
        -- apply key2_eqb_eq in Ek. subst k. rewrite (find_upsert_same _ _ _ Hfn). reflexivity.
        -- assert (Hne : k <> (mr_name s, mr_desc s)) by (intros ->; rewrite (eqb_refl_of key_eqb key_eqb_dec) in Ek; discriminate).
           rewrite (find_upsert_other _ _ _ _ Hfn Hne). reflexivity.
      * rewrite str_eqb_refl. cbn [andb]. replace (snd s) with (mr_name s, mr_desc s) by (destruct s as [? [? ?]]; reflexivity).
        destruct (key_eqb (mr_name s, mr_desc s) k) eqn:Ek.
        -- apply key2_eqb_eq in Ek. subst k. exists nm. split; [exact En|]. rewrite Fk.
           apply (find_upsert_same _ _ _ Hfn).
        -- assert (Hne : k <> (mr_name s, mr_desc s)) by (intros ->; rewrite (eqb_refl_of key_eqb key_eqb_dec) in Ek; discriminate).
           rewrite Fk. apply (find_upsert_other _ _ _ _ Hfn Hne).
    + (* another class *)
      subst x1. unfold class_frame. split; [exact Fn|]. split; [exact Fd|]. split; [exact Ff|].
      split; [exact Fnd|]. split; [exact Fnone|].
      intros cname Ec k. specialize (Fk _ Ec k). cbn [lastp].
      destruct (lastp P cname k) as [b'|]; [exact Fk|].
      destruct (str_eqb (mr_class b) cname) eqn:Eb; cbn [andb]; [|exact Fk].
      apply str_eqb_eq in Eb. subst cname. rewrite Ec in Ex.
      assert (okey_eqb str_eqb (Some (mr_class b)) (Some (mr_class b)) = true) by (apply okey_str_eq; reflexivity). congruence.
Qed.


Theorem mappings_frame named P M M' :
  NoDup (map class_key (ms_classes M)) ->
  add_pairs named P M = Ok M' ->
  ms_ns M' = ms_ns M /\ ms_doc M' = ms_doc M /\
  Forall2 (class_frame named P) (ms_classes M) (ms_classes M').
Proof.
  intros Hnd. unfold add_pairs. destruct (fold_left (add_one named) P (Ok (ms_classes M))) as [cs|] eqn:Ef; [|discriminate].
  intros [= <-]. cbn [ms_ns ms_doc ms_classes]. split; [reflexivity|]. split; [reflexivity|].
  apply add_fold; assumption.
Qed.

(* ---- lastp against membership ---- *)
Lemma lastp_None P c k : lastp P c k = None <-> forall b s, In (b, s) P -> ~ (mr_class b = c /\ snd s = k).
Proof.
  induction P as [|[b0 s0] P IH]; cbn [lastp In].
  - split; [intros _ b s []|reflexivity].
  - destruct (lastp P c k) as [b'|].
    + split; [discriminate|]. intros H. exfalso.
      assert (Hn : Some b' = None); [|discriminate]. apply IH. intros b s Hi. apply H. right. exact Hi.
    + destruct (str_eqb (mr_class b0) c && key_eqb (snd s0) k) eqn:E.
      * split; [discriminate|]. intros H. exfalso. apply andb_true_iff in E. destruct E as [E1 E2].
        apply str_eqb_eq in E1. apply key2_eqb_eq in E2. apply (H b0 s0); auto.
      * split; [|reflexivity]. intros _ b s [[= <- <-]|Hi].
        -- intros [E1 E2]. subst. rewrite str_eqb_refl, (eqb_refl_of key_eqb key_eqb_dec) in E. discriminate.
        -- apply (proj1 IH eq_refl). exact Hi.
Qed.

Lemma lastp_Some P c k b : lastp P c k = Some b -> exists s, In (b, s) P /\ mr_class b = c /\ snd s = k.
Proof.
  induction P as [|[b0 s0] P IH]; cbn [lastp]; [discriminate|].
  destruct (lastp P c k) as [b'|].
  - intros [= ->]. destruct (IH eq_refl) as (s & Hi & H). exists s. split; [right; exact Hi|exact H].
  - destruct (str_eqb (mr_class b0) c && key_eqb (snd s0) k) eqn:E; [|discriminate].
    intros [= <-]. apply andb_true_iff in E. destruct E as [E1 E2].
    apply str_eqb_eq in E1. apply key2_eqb_eq in E2. exists s0. split; [left; reflexivity|auto].
Qed.

(* "at most one bridge per delegate and class" *)
Definition one_bridge_per_delegate (P : pairs) : Prop :=
  forall b1 s1 b2 s2, In (b1, s1) P -> In (b2, s2) P -> mr_class b1 = mr_class b2 -> snd s1 = snd s2 -> b1 = b2.

Lemma lastp_unique P b s : one_bridge_per_delegate P -> In (b, s) P -> lastp P (mr_class b) (snd s) = Some b.
Proof.
  intros Hu Hi. destruct (lastp P (mr_class b) (snd s)) as [b'|] eqn:E.
  - apply lastp_Some in E. destruct E as (s' & Hi' & Ec & Ek). f_equal. apply (Hu b' s' b s Hi' Hi Ec Ek).
  - exfalso. apply (proj1 (lastp_None _ _ _) E b s Hi). auto.
Qed.

(* ---- lookups against membership (distinct keys) ---- *)
Lemma find_meth_In (k : key) ms m : find_meth k ms = Some m -> In m ms /\ meth_key m = Some k.
Proof. unfold find_meth. intros H. apply find_some in H. destruct H as [Hi Hk]. apply okey_key_eq in Hk. auto. Qed.

Lemma In_find_meth (k : key) ms m : NoDup (map meth_key ms) -> In m ms -> meth_key m = Some k -> find_meth k ms = Some m.
Proof.
  unfold find_meth. induction ms as [|x ms IH]; cbn [map In find]; intros Hnd Hi Hk; [destruct Hi|].
  inversion Hnd as [|? ? Hx Hnd']; subst. destruct Hi as [->|Hi].
  - assert (E : okey_eqb key2_eqb (meth_key m) (Some k) = true) by (apply okey_key_eq; exact Hk). rewrite E. reflexivity.
  - destruct (okey_eqb key2_eqb (meth_key x) (Some k)) eqn:E; [|apply IH; assumption].
    apply okey_key_eq in E. exfalso. apply Hx. rewrite E, <- Hk. apply in_map. exact Hi.
Qed.

(* entries not keyed by a delegate are returned unchanged, and nothing else appears *)
Lemma frame_unchanged named P c c' cname m (k : key) :
  class_frame named P c c' -> class_key c = Some cname -> NoDup (map meth_key (c_methods c)) ->
  meth_key m = Some k -> (forall b s, In (b, s) P -> ~ (mr_class b = cname /\ snd s = k)) ->
  (In m (c_methods c') <-> In m (c_methods c)).
Proof.
  intros (_ & _ & _ & Fnd & _ & Fk) Ec Hnd Hk Hno. specialize (Fk _ Ec k).
  rewrite (proj2 (lastp_None P cname k) Hno) in Fk. split; intros Hi.
  - apply (In_find_meth k _ _ (Fnd Hnd) Hi) in Hk. rewrite Fk in Hk. apply find_meth_In in Hk. tauto.
  - apply (In_find_meth k _ _ Hnd Hi) in Hk. rewrite <- Fk in Hk. apply find_meth_In in Hk. tauto.
Qed.

(* the delegate of a bridge gets exactly [delegate name; name of the bridge], in the bridge's class *)
Lemma frame_delegate named P c c' b s :
  class_frame named P c c' -> class_key c = Some (mr_class b) ->
  one_bridge_per_delegate P -> In (b, s) P ->
  exists nm m', named b = Ok nm /\ In m' (c_methods c') /\
    m_desc m' = mr_desc s /\ m_names m' = names2 (mr_name s) nm /\
    m_doc m' = doc_of (find_meth (snd s) (c_methods c)) /\ m_params m' = params_of (find_meth (snd s) (c_methods c)).
Proof.
  intros (_ & _ & _ & _ & _ & Fk) Ec Hu Hi. specialize (Fk _ Ec (snd s)).
  rewrite (lastp_unique P b s Hu Hi) in Fk. destruct Fk as (nm & En & Ef).
  exists nm. eexists. split; [exact En|]. apply find_meth_In in Ef as Hin. destruct Hin as [Hin _].
  split; [exact Hin|]. cbn [m_desc m_names m_doc m_params]. destruct s as [sc [sn sd]]. cbn. auto.
Qed.

(* ---- the whole function ---- *)
Definition cal_remapper (cal : mappings) : res bremap :=
  match ns_index s_official (ms_ns cal) O, ns_index s_intermediary (ms_ns cal) O with
  | Ok o, Ok i => remapper_b cal o i
  | _, _ => Err
  end.
Definition named_remapper (M : mappings) : res bremap :=
  match ns_index s_intermediary (ms_ns M) O, ns_index s_named (ms_ns M) O with
  | Ok i, Ok n => remapper_b M i n
  | _, _ => Err
  end.
(* a method reference of the jar (official names) in intermediary names *)
Definition cal_ref (J : jar) (cal : mappings) (libs : list jar) (m : mref) : res mref :=
  match cal_remapper cal with
  | Ok Rc => map_method_ref_obj Rc (map prov_of_jar (J :: libs)) m
  | Err => Err
  end.
(* the name the mappings give, through inheritance, to an intermediary method reference *)
Definition named_ref (J : jar) (cal : mappings) (libs : list jar) (M : mappings) (b : mref) : res str :=
  match cal_remapper cal, named_remapper M with
  | Ok Rc, Ok Rn => named_of Rn (map (remap_prov Rc) (map prov_of_jar (J :: libs))) b
  | _, _ => Err
  end.

Lemma map_put_In_inv {K V} (eqb : K -> K -> bool) (H : eq_dec_b eqb) (k : K) (v : V) l x :
  In x (map_put eqb k v l) -> x = (k, v) \/ In x l.
Proof.
  induction l as [|[k' v'] l IH]; cbn [map_put In].
  - intros [<-|[]]. auto.
  - destruct (eqb k k') eqn:E; cbn [In].
    + apply H in E. subst k'. intros [<-|Hi]; auto.
    + intros [<-|Hi]; [auto|]. destruct (IH Hi) as [->|Hl]; auto.
Qed.

Lemma remap_pairs_In R I l : forall t P,
  fold_left (fun acc e => match acc with
                          | Err => Err
                          | Ok t => match map_method_ref_obj R I (fst e), map_method_ref_obj R I (snd e) with
                                    | Ok a, Ok b => Ok (map_put mref_eqb a b t)
                                    | _, _ => Err
                                    end
                          end) l (Ok t) = Ok P ->
  forall b' s', In (b', s') P ->
    In (b', s') t \/
    exists b s, In (b, s) l /\ map_method_ref_obj R I b = Ok b' /\ map_method_ref_obj R I s = Ok s'.
Proof.
  induction l as [|[b s] l IH]; intros t P; cbn [fold_left fst snd].
  - intros [= <-] b' s' Hi. left. exact Hi.
  - destruct (map_method_ref_obj R I b) as [a|] eqn:Ea.
    2:{ intros Hf. exfalso. clear -Hf. induction l as [|e l IHl]; cbn [fold_left] in Hf; [discriminate|auto]. }
    destruct (map_method_ref_obj R I s) as [a2|] eqn:Ea2.
    2:{ intros Hf. exfalso. clear -Hf. induction l as [|e l IHl]; cbn [fold_left] in Hf; [discriminate|auto]. }
    intros Hf b' s' Hi. destruct (IH _ _ Hf b' s' Hi) as [Hi0|(b1 & s1 & Hi1 & E1 & E2)].
    + apply (map_put_In_inv mref_eqb mref_eqb_dec) in Hi0. destruct Hi0 as [[= -> ->]|Hi0].
      * right. exists b, s. split; [left; reflexivity|auto].
      * left. exact Hi0.
    + right. exists b1, s1. split; [right; exact Hi1|auto].
Qed.

(* add_specialized_methods_to_mappings as a whole: the pairs that reach the insertion are the
   bridge pairs of the jar re-expressed in intermediary names, and the result is the frame of
   the given mappings around them *)
Theorem add_specialized_spec J cal libs M M' :
  NoDup (map class_key (ms_classes M)) ->
  add_specialized J cal libs M = Ok M' ->
  exists P,
    (forall b' s', In (b', s') P ->
       exists b s, is_bridge_pair J b s /\ cal_ref J cal libs b = Ok b' /\ cal_ref J cal libs s = Ok s') /\
    ms_ns M' = ms_ns M /\ ms_doc M' = ms_doc M /\
    Forall2 (class_frame (named_ref J cal libs M) P) (ms_classes M) (ms_classes M').
Proof.
  intros Hnd. unfold add_specialized, cal_ref, named_ref, cal_remapper, named_remapper.
  destruct (ns_index s_official (ms_ns cal) 0) as [o|]; [|discriminate].
  destruct (ns_index s_intermediary (ms_ns cal) 0) as [i|]; [|discriminate].
  destruct (remapper_b cal o i) as [Rc|]; [|discriminate].
  destruct (ns_index s_intermediary (ms_ns M) 0) as [i2|]; [|discriminate].
  destruct (ns_index s_named (ms_ns M) 0) as [n2|]; [|discriminate].
  destruct (remapper_b M i2 n2) as [Rn|]; [|discriminate].
  destruct (get_specialized J) as [[b2s s2b]|] eqn:Eg; [|discriminate].
  destruct (remap_pairs Rc (map prov_of_jar (J :: libs)) b2s) as [P|] eqn:Ep; [|discriminate].
  destruct (remap_pairs Rc (map prov_of_jar (J :: libs)) s2b) as [P2|]; [|discriminate].
  intros Ha. exists P. split.
  - intros b' s' Hi. unfold remap_pairs in Ep.
    destruct (remap_pairs_In _ _ _ _ _ Ep b' s' Hi) as [[]|(b & s & Hi1 & E1 & E2)].
    exists b, s. split; [apply (bridge_iff J _ _ Eg); exact Hi1|auto].
  - apply (mappings_frame _ _ _ _ Hnd Ha).
Qed.


(* ---- completeness: every bridge pair of the jar reaches the insertion ---- *)
Definition remap_step (R : bremap) (I : list prov) (acc : res pairs) (e : mref * mref) : res pairs :=
  match acc with
  | Err => Err
  | Ok t => match map_method_ref_obj R I (fst e), map_method_ref_obj R I (snd e) with
            | Ok a, Ok b => Ok (map_put mref_eqb a b t)
            | _, _ => Err
            end
  end.

Lemma remap_pairs_fold R I l : remap_pairs R I l = fold_left (remap_step R I) l (Ok []).
Proof. reflexivity. Qed.

Lemma remap_fold_Err R I l : fold_left (remap_step R I) l Err = Err.
Proof. induction l as [|e l IH]; cbn [fold_left remap_step]; [reflexivity|exact IH]. Qed.

(* SpecializedMethods::remap collects into an IndexMap keyed by the REMAPPED bridge: when two bridges of the
   jar get the same intermediary reference the later one (in the order of bridge_to_specialized) replaces the
   delegate of the earlier one.  [last_remap f l b']: the remapped delegate of the last pair of l whose
   bridge is remapped to b'. *)
Fixpoint last_remap (f : mref -> res mref) (l : pairs) (b' : mref) : option mref :=
  match l with
  | [] => None
  | (b, s) :: l' =>
      match last_remap f l' b' with
      | Some x => Some x
      | None => match f b, f s with
                | Ok a, Ok s' => if mref_eqb a b' then Some s' else None
                | _, _ => None
                end
      end
  end.

Lemma remap_fold_get R I l : forall t P,
  fold_left (remap_step R I) l (Ok t) = Ok P ->
  forall b', map_get mref_eqb b' P
             = match last_remap (map_method_ref_obj R I) l b' with Some x => Some x | None => map_get mref_eqb b' t end.
Proof.
  induction l as [|[b s] l IH]; intros t P; cbn [fold_left].
  - intros [= <-] b'. reflexivity.
  - unfold remap_step at 2. cbn [fst snd].
    destruct (map_method_ref_obj R I b) as [a|] eqn:Ea; [|rewrite remap_fold_Err; discriminate].
    destruct (map_method_ref_obj R I s) as [a2|] eqn:Ea2; [|rewrite remap_fold_Err; discriminate].
    intros Hf b'. rewrite (IH _ _ Hf b'). cbn [last_remap].
    destruct (last_remap (map_method_ref_obj R I) l b') as [x|]; [reflexivity|]. rewrite Ea, Ea2.
    destruct (mref_eqb a b') eqn:E.
    + apply mref_eqb_eq in E. subst b'. apply (map_get_put_same mref_eqb mref_eqb_dec).
    + apply (map_get_put_other mref_eqb mref_eqb_dec). intros ->. rewrite (eqb_refl_of mref_eqb mref_eqb_dec) in E. discriminate.
Qed.

Lemma remap_fold_total R I l : forall t P,
  fold_left (remap_step R I) l (Ok t) = Ok P ->
  forall b s, In (b, s) l -> exists b' s', map_method_ref_obj R I b = Ok b' /\ map_method_ref_obj R I s = Ok s'.
Proof.
  induction l as [|[b0 s0] l IH]; intros t P Hf b s Hi; [destruct Hi|]. cbn [fold_left] in Hf.
  unfold remap_step at 2 in Hf. cbn [fst snd] in Hf.
  destruct (map_method_ref_obj R I b0) as [a|] eqn:Ea; [|rewrite remap_fold_Err in Hf; discriminate].
  destruct (map_method_ref_obj R I s0) as [a2|] eqn:Ea2; [|rewrite remap_fold_Err in Hf; discriminate].
  destruct Hi as [[= <- <-]|Hi]; [exists a, a2; auto|exact (IH _ _ Hf b s Hi)].
Qed.

Lemma remap_fold_NoDup R I l : forall t P,
  fold_left (remap_step R I) l (Ok t) = Ok P -> NoDup (map fst t) -> NoDup (map fst P).
Proof.
  induction l as [|[b0 s0] l IH]; intros t P; cbn [fold_left]; [intros [= <-] H; exact H|].
  unfold remap_step at 2. cbn [fst snd].
  destruct (map_method_ref_obj R I b0) as [a|]; [|rewrite remap_fold_Err; discriminate].
  destruct (map_method_ref_obj R I s0) as [a2|]; [|rewrite remap_fold_Err; discriminate].
  intros Hf Hn. apply (IH _ _ Hf). apply (map_put_NoDup mref_eqb mref_eqb_dec). exact Hn.
Qed.

(* the winner is a pair of l, and no later pair of l has its bridge remapped to b' *)
Lemma last_remap_Some f l b' x : last_remap f l b' = Some x ->
  exists l1 b s l2, l = l1 ++ (b, s) :: l2 /\ f b = Ok b' /\ f s = Ok x /\
                    forall b2 s2 x2, In (b2, s2) l2 -> f b2 = Ok b' -> f s2 = Ok x2 -> False.
Proof.
  induction l as [|[b0 s0] l IH]; cbn [last_remap]; [discriminate|].
  destruct (last_remap f l b') as [y|] eqn:El.
  - intros [= ->]. destruct (IH eq_refl) as (l1 & b & s & l2 & -> & H1 & H2 & H3).
    exists ((b0, s0) :: l1), b, s, l2. auto.
  - destruct (f b0) as [a|] eqn:Ea; [|discriminate]. destruct (f s0) as [a2|] eqn:Ea2; [|discriminate].
    destruct (mref_eqb a b') eqn:E; [|discriminate]. apply mref_eqb_eq in E. subst a. intros [= <-].
    exists [], b0, s0, l. split; [reflexivity|]. split; [exact Ea|]. split; [exact Ea2|].
    intros b2 s2 x2 Hi H1 H2. clear IH Ea Ea2. induction l as [|[b1 s1] l IHl]; [destruct Hi|].
    cbn [last_remap] in El. destruct (last_remap f l b') as [y|]; [discriminate|].
    destruct Hi as [[= -> ->]|Hi]; [|exact (IHl eq_refl Hi)].
    rewrite H1, H2, (eqb_refl_of mref_eqb mref_eqb_dec) in El. discriminate.
Qed.

Lemma last_remap_hit f l b s b' s' : In (b, s) l -> f b = Ok b' -> f s = Ok s' -> exists x, last_remap f l b' = Some x.
Proof.
  induction l as [|[b0 s0] l IH]; intros Hi Hb Hs; [destruct Hi|]. cbn [last_remap].
  destruct (last_remap f l b') as [y|] eqn:El; [eauto|].
  destruct Hi as [[= -> ->]|Hi].
  - rewrite Hb, Hs, (eqb_refl_of mref_eqb mref_eqb_dec). eauto.
  - destruct (IH Hi Hb Hs) as (x & Hx). discriminate.
Qed.

Lemma bridge_pair_fun J b s s2 : is_bridge_pair J b s -> is_bridge_pair J b s2 -> s = s2.
Proof.
  intros (a & _ & _ & H1 & _) (a2 & _ & _ & H2 & _). apply H2. apply H1. reflexivity.
Qed.

(* add_specialized_methods_to_mappings: the pair list P that reaches the insertion is EXACTLY the list of
   bridge pairs of the jar re-expressed in intermediary names:
     sound      every pair of P comes from a bridge pair of the jar;
     complete   every bridge pair (b, s) of the jar has its intermediary bridge b' as a key of P;
     functional P has one entry per key;
     last wins  the entry of b' holds the intermediary delegate of the last bridge pair (in the order of
                bridge_to_specialized) whose bridge becomes b' — in particular (b', s') itself when every
                bridge pair that collides with b on b' has the same intermediary delegate;
   and the result is the frame of the given mappings around P. *)
Theorem add_specialized_exact J cal libs M M' :
  NoDup (map class_key (ms_classes M)) ->
  add_specialized J cal libs M = Ok M' ->
  exists P,
    (forall b' s', In (b', s') P ->
       exists b s, is_bridge_pair J b s /\ cal_ref J cal libs b = Ok b' /\ cal_ref J cal libs s = Ok s') /\
    (forall b s, is_bridge_pair J b s ->
       exists b' s', cal_ref J cal libs b = Ok b' /\ cal_ref J cal libs s = Ok s' /\ exists s'', In (b', s'') P) /\
    NoDup (map fst P) /\
    (exists b2s s2b, get_specialized J = Ok (b2s, s2b) /\
       forall b', map_get mref_eqb b' P = last_remap (cal_ref J cal libs) b2s b') /\
    (forall b s b' s', is_bridge_pair J b s -> cal_ref J cal libs b = Ok b' -> cal_ref J cal libs s = Ok s' ->
       (forall b2 s2, is_bridge_pair J b2 s2 -> cal_ref J cal libs b2 = Ok b' -> cal_ref J cal libs s2 = Ok s') ->
       In (b', s') P) /\
    ms_ns M' = ms_ns M /\ ms_doc M' = ms_doc M /\
    Forall2 (class_frame (named_ref J cal libs M) P) (ms_classes M) (ms_classes M').
Proof.
  intros Hnd. unfold add_specialized, cal_ref, named_ref, cal_remapper, named_remapper.
  destruct (ns_index s_official (ms_ns cal) 0) as [o|]; [|discriminate].
  destruct (ns_index s_intermediary (ms_ns cal) 0) as [i|]; [|discriminate].
  destruct (remapper_b cal o i) as [Rc|]; [|discriminate].
  destruct (ns_index s_intermediary (ms_ns M) 0) as [i2|]; [|discriminate].
  destruct (ns_index s_named (ms_ns M) 0) as [n2|]; [|discriminate].
  destruct (remapper_b M i2 n2) as [Rn|]; [|discriminate].
  destruct (get_specialized J) as [[b2s s2b]|] eqn:Eg; [|discriminate].
  destruct (remap_pairs Rc (map prov_of_jar (J :: libs)) b2s) as [P|] eqn:Ep; [|discriminate].
  destruct (remap_pairs Rc (map prov_of_jar (J :: libs)) s2b) as [P2|]; [|discriminate].
  intros Ha. exists P. rewrite remap_pairs_fold in Ep.
  pose proof (remap_fold_get _ _ _ _ _ Ep) as Hget. cbn [map_get] in Hget.
  set (f := map_method_ref_obj Rc (map prov_of_jar (J :: libs))) in *.
  assert (Hget' : forall b', map_get mref_eqb b' P = last_remap f b2s b').
  { intros b'. rewrite Hget. destruct (last_remap f b2s b'); reflexivity. }
  assert (Hcomplete : forall b s, is_bridge_pair J b s ->
            exists b' s', f b = Ok b' /\ f s = Ok s' /\ exists s'', In (b', s'') P).
  { intros b s Hb. apply (bridge_iff J _ _ Eg) in Hb.
    destruct (remap_fold_total _ _ _ _ _ Ep b s Hb) as (b' & s' & E1 & E2). exists b', s'. split; [exact E1|]. split; [exact E2|].
    destruct (last_remap_hit f b2s b s b' s' Hb E1 E2) as (x & Hx). exists x.
    apply (map_get_Some_In mref_eqb mref_eqb_dec). rewrite Hget'. exact Hx. }
  split; [|split; [exact Hcomplete|split; [|split; [|split]]]].
  - intros b' s' Hi.
    destruct (remap_pairs_In _ _ _ _ _ Ep b' s' Hi) as [[]|(b & s & Hi1 & E1 & E2)].
    exists b, s. split; [apply (bridge_iff J _ _ Eg); exact Hi1|auto].
  - apply (remap_fold_NoDup _ _ _ _ _ Ep). constructor.
  - exists b2s, s2b. split; [reflexivity|exact Hget'].
  - intros b s b' s' Hb E1 E2 Hsame. apply (bridge_iff J _ _ Eg) in Hb.
    destruct (last_remap_hit f b2s b s b' s' Hb E1 E2) as (x & Hx).
    apply (map_get_Some_In mref_eqb mref_eqb_dec). rewrite Hget', Hx. f_equal.
    destruct (last_remap_Some _ _ _ _ Hx) as (l1 & b0 & s0 & l2 & El & F1 & F2 & _).
    assert (Hb0 : is_bridge_pair J b0 s0).
    { apply (bridge_iff J _ _ Eg). rewrite El. apply in_app_iff. right. left. reflexivity. }
    pose proof (Hsame b0 s0 Hb0 F1) as F3. change (f s0 = Ok s') in F3. congruence.
  - apply (mappings_frame _ _ _ _ Hnd Ha).
Qed.

Lemma Forall2_In_l {A B} (R : A -> B -> Prop) l l' x : Forall2 R l l' -> In x l -> exists x', In x' l' /\ R x x'.
Proof.
  induction 1 as [|a b l l' Hab _ IH]; intros Hi; [destruct Hi|].
  destruct Hi as [<-|Hi]; [exists b; split; [left; reflexivity|exact Hab]|].
  destruct (IH Hi) as (x' & Hx' & Hr). exists x'. split; [right; exact Hx'|exact Hr].
Qed.

(* The main sentence of the property, end to end.  (b, s) a bridge pair of the jar, b' and s' their
   intermediary references, c the row of the mappings for the bridge's (intermediary) class, and no other
   bridge pair of the jar lands on the same intermediary bridge or on the same (class, delegate key)
   ("at most one bridge per delegate and class").  Then the produced mappings hold, in that class, under the
   delegate's key, exactly: the delegate's descriptor, the names [delegate's intermediary name; the name the
   mappings give the bridge through inheritance], and the javadoc and parameters of the old entry if any. *)
Theorem bridge_gets_name J cal libs M M' b s b' s' c :
  NoDup (map class_key (ms_classes M)) ->
  add_specialized J cal libs M = Ok M' ->
  is_bridge_pair J b s -> cal_ref J cal libs b = Ok b' -> cal_ref J cal libs s = Ok s' ->
  (forall b2 s2 b2' s2', is_bridge_pair J b2 s2 -> cal_ref J cal libs b2 = Ok b2' -> cal_ref J cal libs s2 = Ok s2' ->
     b2' = b' \/ (mr_class b2' = mr_class b' /\ snd s2' = snd s') -> b2 = b) ->
  In c (ms_classes M) -> class_key c = Some (mr_class b') ->
  exists c' nm, In c' (ms_classes M') /\ c_names c' = c_names c /\ c_doc c' = c_doc c /\ c_fields c' = c_fields c /\
    named_ref J cal libs M b' = Ok nm /\
    find_meth (snd s') (c_methods c')
    = Some (mkMeth (mr_desc s') (names2 (mr_name s') nm)
              (doc_of (find_meth (snd s') (c_methods c))) (params_of (find_meth (snd s') (c_methods c)))).
Proof.
  intros Hnd Ha Hb E1 E2 Halone Hc Hk.
  destruct (add_specialized_exact J cal libs M M' Hnd Ha) as (P & Hsound & Hcomp & _ & _ & Hhit & _ & _ & HF).
  assert (HinP : In (b', s') P).
  { apply (Hhit b s b' s' Hb E1 E2). intros b2 s2 Hb2 F1.
    destruct (cal_ref J cal libs s2) as [s2'|] eqn:F2.
    - assert (b2 = b) by (apply (Halone b2 s2 b' s2' Hb2 F1 F2); left; reflexivity). subst b2.
      rewrite (bridge_pair_fun J b s2 s Hb2 Hb) in F2. congruence.
    - exfalso. destruct (Hcomp b2 s2 Hb2) as (x1 & x2 & _ & G2 & _). congruence. }
  assert (Hlast : lastp P (mr_class b') (snd s') = Some b').
  { destruct (lastp P (mr_class b') (snd s')) as [bx|] eqn:El.
    - apply lastp_Some in El. destruct El as (sx & Hix & Ecx & Ekx). f_equal.
      destruct (Hsound _ _ Hix) as (b2 & s2 & Hb2 & F1 & F2).
      assert (b2 = b) by (apply (Halone b2 s2 bx sx Hb2 F1 F2); right; auto). subst b2. congruence.
    - exfalso. apply (proj1 (lastp_None _ _ _) El b' s' HinP). auto. }
  destruct (Forall2_In_l _ _ _ _ HF Hc) as (c' & Hc' & (Fn & Fd & Ff & _ & _ & Fk)).
  specialize (Fk _ Hk (snd s')). rewrite Hlast in Fk. destruct Fk as (nm & En & Ef).
  exists c', nm. split; [exact Hc'|]. split; [exact Fn|]. split; [exact Fd|]. split; [exact Ff|]. split; [exact En|].
  rewrite Ef. destruct s' as [sc [sn sd]]. reflexivity.
Qed.

(* ---- the decidable well-formedness of Quill.Mappings gives the distinct keys used above ---- *)
Lemma nodupb_NoDup {A} (eqb : A -> A -> bool) (H : forall a b, eqb a b = true <-> a = b) l :
  nodupb eqb l = true -> NoDup l.
Proof.
  induction l as [|x l IH]; cbn [nodupb]; intros Hn; [constructor|].
  apply andb_true_iff in Hn. destruct Hn as [Hx Hl]. constructor; [|apply IH; exact Hl].
  intros Hi. apply negb_true_iff in Hx. assert (existsb (eqb x) l = true); [|congruence].
  apply existsb_exists. exists x. split; [exact Hi|apply H; reflexivity].
Qed.

Lemma opt_eqb_eq {A} (eqb : A -> A -> bool) (H : forall a b, eqb a b = true <-> a = b) (a b : option A) :
  opt_eqb eqb a b = true <-> a = b.
Proof.
  destruct a as [x|], b as [y|]; cbn [opt_eqb]; try (split; [reflexivity|reflexivity]); try (split; discriminate).
  rewrite H. split; [intros ->; reflexivity|intros [= ->]; reflexivity].
Qed.

Lemma wf_class_keys M : wf M = true -> NoDup (map class_key (ms_classes M)).
Proof.
  unfold wf. intros H. apply andb_true_iff in H. destruct H as [_ H].
  apply (nodupb_NoDup (okey_eqb str_eqb)); [|exact H].
  intros a b. unfold okey_eqb. apply opt_eqb_eq. exact str_eqb_eq.
Qed.

Lemma wf_meth_keys M c : wf M = true -> In c (ms_classes M) -> NoDup (map meth_key (c_methods c)).
Proof.
  unfold wf. intros H Hi. apply andb_true_iff in H. destruct H as [H _]. apply andb_true_iff in H. destruct H as [_ H].
  rewrite forallb_forall in H. specialize (H c Hi). unfold wf_class in H.
  apply andb_true_iff in H. destruct H as [_ H].
  apply (nodupb_NoDup (okey_eqb key2_eqb)); [|exact H].
  intros a b. unfold okey_eqb. apply opt_eqb_eq. exact key2_eqb_eq.
Qed.

(* more fuel never changes an answer: the theorems do not depend on the particular fuel function *)
Lemma walk_nil fuel G out : walk fuel G [] out = Ok out.
Proof. destruct fuel; reflexivity. Qed.

Lemma walk_mono G f : forall stack out r k, walk f G stack out = Ok r -> walk (f + k) G stack out = Ok r.
Proof.
  induction f as [|f IH]; intros stack out r k; destruct stack as [|c q].
  - rewrite !walk_nil. auto.
  - cbn [walk]. discriminate.
  - rewrite !walk_nil. auto.
  - cbn [walk Nat.add]. destruct (map_get str_eqb c G); apply IH.
Qed.

(* ---- non-vacuity: /repo's own fixture (MyNode extends Node<Integer>), abstracted ---- *)
Definition n_MyNode : str := [77;121;78;111;100;101].
Definition n_Node : str := [78;111;100;101].
Definition n_setData : str := [115;101;116;68;97;116;97].
Definition d_obj : str := [40;76;106;97;118;97;47;108;97;110;103;47;79;98;106;101;99;116;59;41;86].      (* (Ljava/lang/Object;)V *)
Definition d_int : str := [40;76;106;97;118;97;47;108;97;110;103;47;73;110;116;101;103;101;114;59;41;86]. (* (Ljava/lang/Integer;)V *)
Definition acc_plain := mkAcc false false false false false.
Definition ex_jar : jar :=
  [mkJC n_MyNode (Some n_Node) []
     [mkJM n_setData d_int acc_plain (Some [IOther; ISpecial (n_Node, (n_setData, d_obj)) false; IOther]);
      mkJM n_setData d_obj (mkAcc false false false true true) (Some [IOther; IVirtual (n_MyNode, (n_setData, d_int)); IOther])];
   mkJC n_Node (Some s_object) [] [mkJM n_setData d_obj acc_plain (Some [])]].
Definition ex_bridge : mref := (n_MyNode, (n_setData, d_obj)).
Definition ex_delegate : mref := (n_MyNode, (n_setData, d_int)).
(* the same jar with the bridge flag removed: found by the signature rule *)
Definition ex_jar_unflagged : jar :=
  [mkJC n_MyNode (Some n_Node) []
     [mkJM n_setData d_int acc_plain (Some []);
      mkJM n_setData d_obj (mkAcc false false false false true) (Some [IOther; IVirtual (n_MyNode, (n_setData, d_int)); IOther])];
   mkJC n_Node (Some s_object) [] [mkJM n_setData d_obj acc_plain (Some [])]].
Definition n_named : str := [117;112;100;97;116;101].   (* update *)
Definition ex_cal : mappings := mkMappings [s_official; s_intermediary] None [].
Definition ex_maps : mappings :=
  mkMappings [s_intermediary; s_named] None
    [mkClass [Some n_Node; Some n_Node] None [] [mkMeth d_obj [Some n_setData; Some n_named] None []];
     mkClass [Some n_MyNode; Some n_MyNode] None [] []].
Definition ex_result : mappings :=
  mkMappings [s_intermediary; s_named] None
    [mkClass [Some n_Node; Some n_Node] None [] [mkMeth d_obj [Some n_setData; Some n_named] None []];
     mkClass [Some n_MyNode; Some n_MyNode] None [] [mkMeth d_int [Some n_setData; Some n_named] None []]].

Definition nonvacuous : Prop :=
  get_specialized ex_jar = Ok ([(ex_bridge, ex_delegate)], [(ex_delegate, ex_bridge)]) /\
  get_specialized ex_jar_unflagged = Ok ([(ex_bridge, ex_delegate)], [(ex_delegate, ex_bridge)]) /\
  wf ex_maps = true /\
  add_specialized ex_jar ex_cal [] ex_maps = Ok ex_result.

Lemma nonvacuous_holds : nonvacuous.
Proof. unfold nonvacuous. repeat split; vm_compute; reflexivity. Qed.



(* the hypotheses of bridge_gets_name are satisfiable: the fixture's bridge, end to end *)
Definition end_to_end_example : Prop :=
  is_bridge_pair ex_jar ex_bridge ex_delegate /\
  (forall b2 s2, is_bridge_pair ex_jar b2 s2 -> b2 = ex_bridge) /\
  exists c' nm, In c' (ms_classes ex_result) /\ named_ref ex_jar ex_cal [] ex_maps ex_bridge = Ok nm /\ nm = n_named /\
    find_meth (n_setData, d_int) (c_methods c') = Some (mkMeth d_int [Some n_setData; Some n_named] None []).

Lemma end_to_end_example_holds : end_to_end_example.
Proof.
  destruct nonvacuous_holds as (Hg & _ & Hwf & Hadd).
  assert (Hb : is_bridge_pair ex_jar ex_bridge ex_delegate) by (apply (bridge_iff _ _ _ Hg); left; reflexivity).
  assert (Halone : forall b2 s2, is_bridge_pair ex_jar b2 s2 -> b2 = ex_bridge).
  { intros b2 s2 H. apply (bridge_iff _ _ _ Hg) in H. destruct H as [[= <- <-]|[]]. reflexivity. }
  split; [exact Hb|]. split; [exact Halone|].
  destruct (bridge_gets_name ex_jar ex_cal [] ex_maps ex_result ex_bridge ex_delegate ex_bridge ex_delegate
              (mkClass [Some n_MyNode; Some n_MyNode] None [] [])
              (wf_class_keys _ Hwf) Hadd Hb eq_refl eq_refl) as (c' & nm & Hc' & _ & _ & _ & En & Ef).
  - intros b2 s2 b2' s2' H _ _ _. exact (Halone b2 s2 H).
  - right. left. reflexivity.
  - reflexivity.
  - vm_compute in En. injection En as <-. exists c', n_named. split; [exact Hc'|].
    split; [vm_compute; reflexivity|]. split; [reflexivity|]. change (n_setData, d_int) with (snd ex_delegate). rewrite Ef. reflexivity.
Qed.

(* ---- specialized_to_bridge and the hierarchy tie-break ---- *)
(* c is a (transitive) subtype of p *)
Definition descendant (J : jar) : str -> str -> Prop := clos_trans_1n str (fun p c => parent J c p).

Lemma get_higher_spec J fuel b1 b2 r :
  get_higher fuel (ix_children J) b1 b2 = Ok r ->
  (r = b1 /\ descendant J (mr_class b1) (mr_class b2)) \/
  (r = b2 /\ ~ descendant J (mr_class b1) (mr_class b2)).
Proof.
  unfold get_higher. destruct (walk fuel (ix_children J) [mr_class b1] []) as [l|] eqn:Ew; [|discriminate].
  intros [= <-].
  assert (Hl : forall x, In x l <-> descendant J (mr_class b1) x).
  { intros x. rewrite (walk_spec _ _ (ix_children_spec J) _ _ _ _ Ew (closed_inv_start _ _) x). cbn [In]. unfold descendant. split.
    - intros [[]|(c & [<-|[]] & Ht)]. exact Ht.
    - intros Ht. right. exists (mr_class b1). auto. }
  destruct (mem_str (mr_class b2) l) eqn:Em.
  - left. split; [reflexivity|]. apply Hl. apply (set_mem_In str_eqb str_eqb_dec). exact Em.
  - right. split; [reflexivity|]. intros Hd. apply Hl in Hd. apply (set_mem_In str_eqb str_eqb_dec) in Hd.
    unfold mem_str in Em. congruence.
Qed.

Lemma map_put_In_keep {K V} (eqb : K -> K -> bool) (H : eq_dec_b eqb) (k : K) (v : V) l x :
  In x l -> fst x <> k -> In x (map_put eqb k v l).
Proof.
  induction l as [|[k' v'] l IH]; cbn [map_put In]; [intros []|].
  intros [<-|Hi] Hne; destruct (eqb k k') eqn:E; cbn [In].
  - apply H in E. subst k'. cbn [fst] in Hne. contradiction.
  - left. reflexivity.
  - right. exact Hi.
  - right. apply IH; assumption.
Qed.

Lemma map_put_In_new {K V} (eqb : K -> K -> bool) (H : eq_dec_b eqb) (k : K) (v : V) l : In (k, v) (map_put eqb k v l).
Proof. apply (map_get_Some_In eqb H). apply (map_get_put_same eqb H). Qed.

Lemma map_put_In_inv2 {K V} (eqb : K -> K -> bool) (H : eq_dec_b eqb) (k : K) (v : V) l x :
  In x (map_put eqb k v l) -> x = (k, v) \/ In x l.
Proof.
  induction l as [|[k' v'] l IH]; cbn [map_put In].
  - intros [<-|[]]. auto.
  - destruct (eqb k k') eqn:E; cbn [In].
    + apply H in E. subst k'. intros [<-|Hi]; auto.
    + intros [<-|Hi]; [auto|]. destruct (IH Hi) as [->|Hl]; auto.
Qed.

Definition s2b_inv (b2s s2b : pairs) : Prop :=
  (forall s b, In (s, b) s2b -> In (b, s) b2s) /\
  (forall b s, In (b, s) b2s -> exists b', In (s, b') s2b) /\
  NoDup (map fst s2b).

Lemma loop_s2b fuel cls P C refs l : forall b2s0 s2b0 b2s s2b,
  NoDup (map fst l) -> (forall k, In k (map fst b2s0) -> ~ In k (map fst l)) ->
  s2b_inv b2s0 s2b0 ->
  fold_left (step fuel cls P C refs) l (Ok (b2s0, s2b0)) = Ok (b2s, s2b) ->
  s2b_inv b2s s2b.
Proof.
  induction l as [|[b1 a1] l IH]; intros b2s0 s2b0 b2s s2b Hnd Hdisj Hinv Hf.
  - cbn [fold_left] in Hf. injection Hf as <- <-. exact Hinv.
  - cbn [map fst] in Hnd. inversion Hnd as [|? ? Hb1 Hnd']; subst.
    cbn [fold_left] in Hf. unfold step at 2 in Hf. cbn [fst snd] in Hf.
    destruct (decide fuel cls P refs b1 a1) as [[s1|]|] eqn:Ed.
    + destruct (match map_get mref_eqb s1 s2b0 with Some other => get_higher fuel C b1 other | None => Ok b1 end) as [keep|] eqn:Ek.
      2:{ rewrite fold_step_Err in Hf. discriminate. }
      assert (Hfresh : ~ In b1 (map fst b2s0)).
      { intros Hi. apply (Hdisj _ Hi). left. reflexivity. }
      rewrite (map_put_fresh mref_eqb mref_eqb_dec _ _ _ Hfresh) in Hf.
      assert (HD : forall k, In k (map fst (b2s0 ++ [(b1, s1)])) -> ~ In k (map fst l)).
      { intros k. rewrite map_app, in_app_iff. cbn [map fst In]. intros [Hi|[<-|[]]].
        - intros Hk. apply (Hdisj _ Hi). right. exact Hk.
        - exact Hb1. }
      apply (IH _ _ _ _ Hnd' HD) in Hf; [exact Hf|]. clear IH Hf HD.
      destruct Hinv as (H1 & H2 & H3).
      assert (Hkeep : keep = b1 \/ In (s1, keep) s2b0).
      { destruct (map_get mref_eqb s1 s2b0) as [other|] eqn:Eg.
        - unfold get_higher in Ek. destruct (walk fuel C [mr_class b1] []) as [ds|]; [|discriminate]. injection Ek as <-.
          destruct (mem_str (mr_class other) ds); [left; reflexivity|right].
          apply (map_get_Some_In mref_eqb mref_eqb_dec). exact Eg.
        - injection Ek as <-. left. reflexivity. }
      split; [|split].
      * intros s b Hi. rewrite in_app_iff. cbn [In].
        apply (map_put_In_inv2 mref_eqb mref_eqb_dec) in Hi. destruct Hi as [[= -> ->]|Hi].
        -- destruct Hkeep as [->|Hk]; [right; left; reflexivity|left; apply H1; exact Hk].
        -- left. apply H1. exact Hi.
      * intros b s Hi. apply in_app_iff in Hi. cbn [In] in Hi. destruct Hi as [Hi|[[= <- <-]|[]]].
        -- destruct (H2 _ _ Hi) as (b' & Hb'). destruct (mref_eqb s s1) eqn:E.
           ++ apply mref_eqb_eq in E. subst s. exists keep. apply (map_put_In_new mref_eqb mref_eqb_dec).
           ++ exists b'. apply (map_put_In_keep mref_eqb mref_eqb_dec); [exact Hb'|].
              cbn [fst]. intros ->. rewrite (eqb_refl_of mref_eqb mref_eqb_dec) in E. discriminate.
        -- exists keep. apply (map_put_In_new mref_eqb mref_eqb_dec).
      * apply (map_put_NoDup mref_eqb mref_eqb_dec). exact H3.
    + assert (HD : forall k, In k (map fst b2s0) -> ~ In k (map fst l)).
      { intros k Hi Hk. apply (Hdisj _ Hi). right. exact Hk. }
      apply (IH _ _ _ _ Hnd' HD Hinv Hf).
    + rewrite fold_step_Err in Hf. discriminate.
Qed.

(* specialized_to_bridge: exactly one entry per delegate, and it names one of the delegate's bridges *)
Theorem s2b_spec J b2s s2b :
  get_specialized J = Ok (b2s, s2b) ->
  (forall s b, In (s, b) s2b -> In (b, s) b2s) /\
  (forall b s, In (b, s) b2s -> exists b', In (s, b') s2b) /\
  NoDup (map fst s2b).
Proof.
  unfold get_specialized. intros Hf.
  apply (loop_s2b _ _ _ _ _ _ _ _ _ _ (ix_methods_NoDup J) (fun k (Hk : In k (map fst (@nil (mref * mref)))) => match Hk with end)) in Hf; [exact Hf|].
  split; [intros s b []|]. split; [intros b s []|constructor].
Qed.


Lemma Forall2_imp {A B} (R R' : A -> B -> Prop) l l' : (forall a b, R a b -> R' a b) -> Forall2 R l l' -> Forall2 R' l l'.
Proof. intros H. induction 1; constructor; auto. Qed.

(* no bridge pair of the jar lands on (class cname, key k)  =>  that entry is not renamed *)
Theorem add_specialized_no_rename J cal libs M M' :
  NoDup (map class_key (ms_classes M)) ->
  add_specialized J cal libs M = Ok M' ->
  Forall2 (fun c c' => forall cname (k : key), class_key c = Some cname ->
      (forall b s b' s', is_bridge_pair J b s -> cal_ref J cal libs b = Ok b' -> cal_ref J cal libs s = Ok s' ->
                         ~ (mr_class b' = cname /\ snd s' = k)) ->
      find_meth k (c_methods c') = find_meth k (c_methods c)) (ms_classes M) (ms_classes M').
Proof.
  intros Hnd Ha. destruct (add_specialized_spec J cal libs M M' Hnd Ha) as (P & HP & _ & _ & HF).
  refine (Forall2_imp _ _ _ _ _ HF). intros c c' Hc cname k Ec Hno. destruct Hc as (_ & _ & _ & _ & _ & Fk). specialize (Fk _ Ec k).
  assert (En : lastp P cname k = None).
  { apply lastp_None. intros b' s' Hi. destruct (HP _ _ Hi) as (b & s & Hb & E1 & E2). exact (Hno b s b' s' Hb E1 E2). }
  rewrite En in Fk. exact Fk.
Qed.

