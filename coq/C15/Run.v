(* C15 correspondence cases: the abstract jar (and mapping sets) together with what the
   implementation answered. *)
From FB Require Export C15.Model.

(* String pool of the case printer: the harness (harness/src/bin/c15/main.rs) reads these definitions
   from this file and prints every string of a case as a concatenation of pool entries, because
   Coq elaborates identifiers far faster than numeric literals.  Pure abbreviations. *)
Definition cat : list str -> str := @concat N.
Definition z0 : str := [65].
Definition z1 : str := [66].
Definition z2 : str := [67].
Definition z3 : str := [68].
Definition z4 : str := [69].
Definition z5 : str := [112;47;70].
Definition z6 : str := [112;47;71].
Definition z7 : str := [73].
Definition z8 : str := [74].
Definition z9 : str := [112;47;75;36;49].
Definition z10 : str := [106;97;118;97;47;108;97;110;103;47;73;110;116;101;103;101;114].
Definition z11 : str := [106;97;118;97;47;108;97;110;103;47;83;116;114;105;110;103].
Definition z12 : str := [106;97;118;97;47;108;97;110;103;47;67;111;109;112;97;114;97;98;108;101].
Definition z13 : str := [120;47;76;105;98].
Definition z14 : str := [120;47;66;97;115;101].
Definition z15 : str := [106;97;118;97;47;108;97;110;103;47;79;98;106;101;99;116].
Definition z16 : str := [106;97;118;97;47;108;97;110;103;47].
Definition z17 : str := [106;97;118;97;47;117;116;105;108;47].
Definition z18 : str := [109].
Definition z19 : str := [103;101;116].
Definition z20 : str := [115;101;116].
Definition z21 : str := [99;111;109;112;97;114;101;84;111].
Definition z22 : str := [99;97;108;108].
Definition z23 : str := [114;117;110].
Definition z24 : str := [97;112;112;108;121].
Definition z25 : str := [97].
Definition z26 : str := [111;116;104;101;114].
Definition z27 : str := [104;97;115;104;67;111;100;101].
Definition z28 : str := [99;108;111;110;101].
Definition z29 : str := [117;110;114;101;108;97;116;101;100;78;97;109;101;100].
Definition z30 : str := [117;110;114;101;108;97;116;101;100].
Definition z31 : str := [102;95;49].
Definition z32 : str := [102].
Definition z33 : str := [102;105;101;108;100].
Definition z34 : str := [100;111;99].
Definition z35 : str := [116;119;111;10;108;105;110;101;115].
Definition z36 : str := [120].
Definition z37 : str := [116;111;112].
Definition z38 : str := [97;114;103].
Definition z39 : str := [111;102;102;105;99;105;97;108].
Definition z40 : str := [105;110;116;101;114;109;101;100;105;97;114;121].
Definition z41 : str := [110;97;109;101;100;47;78].
Definition z42 : str := [110;97;109;101;100;47;83].
Definition z43 : str := [110;97;109;101;100].
Definition z44 : str := [99;97;108;97;109;117;115].
Definition z45 : str := [102;101;97;116;104;101;114].
Definition z46 : str := [98;114;105;100;103;101;36].
Definition z47 : str := [115;121;110;36].
Definition z48 : str := [110;101;116;47;67;95].
Definition z49 : str := [109;95].
Definition z50 : str := [105;110;104;101;114;105;116;101;100].
Definition z51 : str := [60;105;110;105;116;62].
Definition z52 : str := [115;101;116;68;97;116;97].
Definition z53 : str := [103;101;116;68;97;116;97].
Definition z54 : str := [100;97;116;97].
Definition z55 : str := [78;111;100;101].
Definition z56 : str := [77;121;78;111;100;101].
Definition z57 : str := [83;112;101;99;105;97;108;105;122;101;100;77;101;116;104;111;100;115].
Definition z58 : str := [73;110;116;101;103;101;114].
Definition z59 : str := [83;116;114;105;110;103].
Definition z60 : str := [79;98;106;101;99;116].
Definition z61 : str := [67;111;109;112;97;114;97;98;108;101].
Definition z62 : str := [76;105;115;116].
Definition z63 : str := [108;97;109;98;100;97;36].
Definition z64 : str := [97;99;99;101;115;115;36].
Definition z65 : str := [118;97;108;117;101].
Definition z66 : str := [116;104;105;115].
Definition z67 : str := [98;114;105;100;103;101;115;47].
Definition z68 : str := [76;98;114;105;100;103;101;115;47].
Definition z69 : str := [40].
Definition z70 : str := [41].
Definition z71 : str := [76].
Definition z72 : str := [59].
Definition z73 : str := [91].
Definition z74 : str := [86].
Definition z75 : str := [90].
Definition z76 : str := [70].
Definition z77 : str := [83].
Definition z78 : str := [36].
Definition z79 : str := [47].
Definition z80 : str := [95].
Definition z81 : str := [48].
Definition z82 : str := [49].
Definition z83 : str := [50].
Definition z84 : str := [51].
Definition z85 : str := [52].
Definition z86 : str := [53].
Definition z87 : str := [54].
Definition z88 : str := [55].
Definition z89 : str := [56].
Definition z90 : str := [57].

Inductive case :=
| CSpec (J : jar) (r : res (pairs * pairs))
    (* Jar::get_specialized_methods on the jar assembled from J: bridge_to_specialized and
       specialized_to_bridge, both in IndexMap iteration order; Err when it returned Err *)
| CAdd (J : jar) (libs : list jar) (cal M : mappings) (r : res mappings).
    (* add_specialized_methods_to_mappings(J, cal, libs, M); the resulting tree in IndexMap order *)

Definition pairs_eqb : pairs -> pairs -> bool := list_eqb (pair_eqb mref_eqb mref_eqb).

Definition check (c : case) : bool :=
  match c with
  | CSpec J r => res_eqb (pair_eqb pairs_eqb pairs_eqb) (get_specialized J) r
  | CAdd J libs cal M r => res_eqb mappings_eqb (add_specialized J cal libs M) r
  end.
