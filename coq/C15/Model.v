(* C15 model: src/specialized_methods/mod.rs of the binary crate —
     * the index the partial class visitor builds (EntryIndex, InheritanceIndex, ReferenceIndex),
     * get_ancestors / get_descendants (work-list with a visited set over the user-supplied hierarchy: explicit fuel,
       which Theory3.v shows sufficient on every hierarchy, cyclic or not),
     * are_types_bridge_compatible, is_potential_bridge, get_higher_method, the loop collecting
       bridge_to_specialized / specialized_to_bridge,
     * SpecializedMethods::remap and add_specialized_methods_to_mappings, together with the part of
       quill/src/remapper.rs they run through (remapper_a/remapper_b tables, map_desc, the
       recursive super-class search of map_method_fail, JarSuperProv::remap)
       and the super-class provider of dukebox/src/storage/opened_jar.rs.
   A jar is abstracted to what the visitor looks at: per class its name, super class, interfaces
   and methods; per method the access flags the code tests, name, descriptor and — when it has a
   Code attribute — its instruction list with the distinctions the visitor makes (the four invokes
   with their method references, invokedynamic, anything else).
   IndexMap/IndexSet are association lists in insertion order with the operations the code uses.
   Definitions only; proofs are in Theory.v.  Descriptor parsing comes from C18. *)
From FB Require Export Base.Str Base.Run Quill.Mappings C18.Model.

(* ------------------------------------------------------------------ *)
(* the jar *)
Record acc := mkAcc { a_private : bool; a_static : bool; a_final : bool; a_bridge : bool; a_synthetic : bool }.

Definition mref := (str * (str * str))%type.           (* MethodRefObj: class, (name, descriptor) *)
Definition mr_class (m : mref) : str := fst m.
Definition mr_name (m : mref) : str := fst (snd m).
Definition mr_desc (m : mref) : str := snd (snd m).
Definition mref_eqb (a b : mref) : bool := str_eqb (fst a) (fst b) && key2_eqb (snd a) (snd b).

(* An instruction of a method body, as far as the visitor's `match instruction.instruction` tells instructions apart:
   the four method invocations with the MethodRef they carry (the owner may be an ARRAY class name, `[...`; for
   invokespecial / invokestatic duke also hands over whether the constant is an InterfaceMethodref, which the visitor
   ignores), invokedynamic (name and descriptor of the call site; ignored), and everything else ([IOther] stands for a
   possibly empty run of instructions that are none of the five invokes). *)
Inductive insn :=
| IVirtual (r : mref)
| ISpecial (r : mref) (itf : bool)
| IStatic (r : mref) (itf : bool)
| IInterface (r : mref)
| IDynamic (name desc : str)
| IOther.

Record jmeth := mkJM { jm_name : str; jm_desc : str; jm_acc : acc; jm_code : option (list insn) }.
Record jclass := mkJC { jc_name : str; jc_super : option str; jc_ifaces : list str; jc_methods : list jmeth }.
Definition jar := list jclass.

Definition s_object : str := [106; 97; 118; 97; 47; 108; 97; 110; 103; 47; 79; 98; 106; 101; 99; 116].
Definition s_official : str := [111; 102; 102; 105; 99; 105; 97; 108].
Definition s_intermediary : str := [105; 110; 116; 101; 114; 109; 101; 100; 105; 97; 114; 121].
Definition s_named : str := [110; 97; 109; 101; 100].

(* ------------------------------------------------------------------ *)
(* IndexMap / IndexSet operations *)
Fixpoint map_get {K V} (eqb : K -> K -> bool) (k : K) (l : list (K * V)) : option V :=
  match l with
  | [] => None
  | (k', v) :: l' => if eqb k k' then Some v else map_get eqb k l'
  end.

(* `insert`: replaces the value of an existing key (position kept), else appends *)
Fixpoint map_put {K V} (eqb : K -> K -> bool) (k : K) (v : V) (l : list (K * V)) : list (K * V) :=
  match l with
  | [] => [(k, v)]
  | (k', v') :: l' => if eqb k k' then (k', v) :: l' else (k', v') :: map_put eqb k v l'
  end.

(* `entry(k).or_default()` followed by an update of the value *)
Fixpoint map_upd {K V} (eqb : K -> K -> bool) (k : K) (d : V) (f : V -> V) (l : list (K * V)) : list (K * V) :=
  match l with
  | [] => [(k, f d)]
  | (k', v') :: l' => if eqb k k' then (k', f v') :: l' else (k', v') :: map_upd eqb k d f l'
  end.

Definition set_mem {A} (eqb : A -> A -> bool) (x : A) (l : list A) : bool := existsb (eqb x) l.
Definition set_add {A} (eqb : A -> A -> bool) (x : A) (l : list A) : list A :=
  if set_mem eqb x l then l else l ++ [x].
Definition set_extend {A} (eqb : A -> A -> bool) (xs : list A) (l : list A) : list A :=
  fold_left (fun s x => set_add eqb x s) xs l.

Definition mem_str : str -> list str -> bool := set_mem str_eqb.

(* ------------------------------------------------------------------ *)
(* the index (MultiClassVisitorImpl).  The visitor handles one class after the other and, inside
   a class, one method after the other; the five tables are updated independently of each other,
   so each is written as its own fold over the jar. *)
Definition graph := list (str * list str).

(* InheritanceIndex::store: the super class unless it is java/lang/Object, then the interfaces *)
Definition edges_of (c : jclass) : list str :=
  (match jc_super c with
   | Some s => if str_eqb s s_object then [] else [s]
   | None => []
   end) ++ jc_ifaces c.

Definition store_parents (P : graph) (c : jclass) : graph :=
  fold_left (fun P p => map_upd str_eqb (jc_name c) [] (set_add str_eqb p) P) (edges_of c) P.
Definition store_children (C : graph) (c : jclass) : graph :=
  fold_left (fun C p => map_upd str_eqb p [] (set_add str_eqb (jc_name c)) C) (edges_of c) C.

(* every method of the jar with its MethodRefObj, in visiting order *)
Definition jar_methods (J : jar) : list (mref * jmeth) :=
  flat_map (fun c => map (fun m => ((jc_name c, (jm_name m, jm_desc m)), m)) (jc_methods c)) J.

(* the first filter_map of finish_method: InvokeVirtual | InvokeSpecial | InvokeStatic | InvokeInterface => Some(method_ref),
   every other instruction (invokedynamic included) => None *)
Definition invoke_target (i : insn) : option mref :=
  match i with
  | IVirtual r | ISpecial r _ | IStatic r _ | IInterface r => Some r
  | IDynamic _ _ | IOther => None
  end.
Definition targets (l : list insn) : list mref :=
  flat_map (fun i => match invoke_target i with Some r => [r] | None => [] end) l.

(* the second one, `class.into_obj()`: method references into array classes are dropped *)
Definition is_obj_ref (r : mref) : bool := negb (starts_with [cLBRACK] (mr_class r)).

Definition ix_classes (J : jar) : list str := set_extend str_eqb (map jc_name J) [].
Definition ix_parents (J : jar) : graph := fold_left store_parents J [].
Definition ix_children (J : jar) : graph := fold_left store_children J [].
Definition ix_methods (J : jar) : list (mref * acc) :=
  fold_left (fun ms e => map_put mref_eqb (fst e) (jm_acc (snd e)) ms) (jar_methods J) [].
Definition ix_refs (J : jar) : list (mref * list mref) :=
  fold_left (fun rs e => match jm_code (snd e) with
                         | Some l => map_upd mref_eqb (fst e) [] (set_extend mref_eqb (filter is_obj_ref (targets l))) rs
                         | None => rs
                         end) (jar_methods J) [].

(* ------------------------------------------------------------------ *)
(* get_ancestors / get_descendants (after "fix: the hierarchy walks of the bridge detection visit every class once"):
     let mut out = IndexSet::new(); let mut queue = vec![class];
     while let Some(x) = queue.pop() { for y in G[x] { if out.insert(y) { queue.push(y) } } }
     out.into_iter().collect()
   — a stack; the output set doubles as the visited set: a class is listed, pushed and expanded once, whatever the
   number of paths that reach it, and a cyclic hierarchy (legal bytes) is walked like any other.  One unit of fuel per
   pop; Theory3.v: a run started at one class pops exactly 1 + (number of distinct classes it lists) times
   ([walk_exact]), so [walk_fuel] below is enough on EVERY table ([walk_total]) and the model never answers Err here. *)
Fixpoint push_new (ys : list str) (stack out : list str) : list str * list str :=
  match ys with
  | [] => (stack, out)
  | y :: ys' => if mem_str y out then push_new ys' stack out
                else push_new ys' (y :: stack) (out ++ [y])
  end.

Fixpoint walk (fuel : nat) (G : graph) (stack : list str) (out : list str) : res (list str) :=
  match stack with
  | [] => Ok out
  | c :: q =>
      match fuel with
      | O => Err
      | S f =>
          match map_get str_eqb c G with
          | Some ys => walk f G (fst (push_new ys q out)) (snd (push_new ys q out))
          | None => walk f G q out
          end
      end
  end.

(* every class a run lists is an entry of some row: one more than the number of entries bounds the pops *)
Definition walk_fuel (G : graph) : nat := S (length (flat_map (fun e => snd e) G)).

(* ------------------------------------------------------------------ *)
(* the bridge predicate *)
Definition aty_eqb (a b : aty) : bool :=
  match a, b with
  | AB, AB | AC, AC | AD, AD | AF, AF | AI, AI | AJ, AJ | AS, AS | AZ, AZ => true
  | AObj n, AObj m => str_eqb n m
  | _, _ => false
  end.
Definition ty_eqb (a b : ty) : bool :=
  match a, b with
  | TB, TB | TC, TC | TD, TD | TF, TF | TI, TI | TJ, TJ | TS, TS | TZ, TZ => true
  | TObj n, TObj m => str_eqb n m
  | TArr d x, TArr e y => N.eqb d e && aty_eqb x y
  | _, _ => false
  end.

(* are_types_bridge_compatible, arm by arm *)
Definition compat (fuel : nat) (classes : list str) (P : graph) (tb ts : ty) : res bool :=
  if ty_eqb tb ts then Ok true
  else match tb, ts with
       | TObj b, TObj s =>
           if str_eqb b s_object then Ok true
           else if negb (mem_str b classes) then Ok true
           else match walk fuel P [s] [] with
                | Err => Err
                | Ok l => Ok (existsb (fun a => str_eqb b a || negb (mem_str a classes)) l)
                end
       | _, _ => Ok false
       end.

(* the parameter loop: stops at the first incompatible position (lists of equal length) *)
Fixpoint compat_all (fuel : nat) (classes : list str) (P : graph) (pb ps : list ty) : res bool :=
  match pb, ps with
  | b :: pb', s :: ps' =>
      match compat fuel classes P b s with
      | Err => Err
      | Ok false => Ok false
      | Ok true => compat_all fuel classes P pb' ps'
      end
  | _, _ => Ok true
  end.

(* is_potential_bridge(...).unwrap_or(false): a descriptor that does not parse gives false *)
Definition is_potential_bridge (fuel : nat) (classes : list str) (P : graph) (b : mref) (a : acc) (s : mref) : res bool :=
  if a_private a || a_final a || a_static a then Ok false
  else match parse_method (mr_desc b) with
       | Err => Ok false
       | Ok (pb, rb) =>
           match parse_method (mr_desc s) with
           | Err => Ok false
           | Ok (ps, rs) =>
               if negb (Nat.eqb (length pb) (length ps)) then Ok false
               else match compat_all fuel classes P pb ps with
                    | Err => Err
                    | Ok false => Ok false
                    | Ok true =>
                        match rb, rs with
                        | Some tb, Some ts => compat fuel classes P tb ts
                        | None, None => Ok true
                        | _, _ => Ok false
                        end
                    end
           end
       end.

(* the filter chain of the collecting loop: Some s when (b, a) is a bridge with delegate s *)
Definition decide (fuel : nat) (classes : list str) (P : graph) (refs : list (mref * list mref)) (b : mref) (a : acc) : res (option mref) :=
  if negb (a_synthetic a) then Ok None
  else match map_get mref_eqb b refs with
       | Some [s] =>
           if a_bridge a then Ok (Some s)
           else match is_potential_bridge fuel classes P b a s with
                | Err => Err
                | Ok true => Ok (Some s)
                | Ok false => Ok None
                end
       | _ => Ok None
       end.

(* get_higher_method *)
Definition get_higher (fuel : nat) (C : graph) (b1 b2 : mref) : res mref :=
  match walk fuel C [mr_class b1] [] with
  | Err => Err
  | Ok l => Ok (if mem_str (mr_class b2) l then b1 else b2)
  end.

Definition pairs := list (mref * mref).

Definition step (fuel : nat) (classes : list str) (P C : graph) (refs : list (mref * list mref))
           (st : res (pairs * pairs)) (e : mref * acc) : res (pairs * pairs) :=
  match st with
  | Err => Err
  | Ok (b2s, s2b) =>
      match decide fuel classes P refs (fst e) (snd e) with
      | Err => Err
      | Ok None => st
      | Ok (Some s) =>
          match (match map_get mref_eqb s s2b with
                 | Some other => get_higher fuel C (fst e) other
                 | None => Ok (fst e)
                 end) with
          | Err => Err
          | Ok keep => Ok (map_put mref_eqb (fst e) s b2s, map_put mref_eqb s keep s2b)
          end
      end
  end.

Definition jar_fuel (J : jar) : nat := Nat.max (walk_fuel (ix_parents J)) (walk_fuel (ix_children J)).

(* Jar::get_specialized_methods: (bridge_to_specialized, specialized_to_bridge) in IndexMap order *)
Definition get_specialized (J : jar) : res (pairs * pairs) :=
  fold_left (step (jar_fuel J) (ix_classes J) (ix_parents J) (ix_children J) (ix_refs J)) (ix_methods J) (Ok ([], [])).

(* ------------------------------------------------------------------ *)
(* quill/src/remapper.rs, as far as add_specialized_methods_to_mappings runs through it *)

(* map_desc: see C06 for the same loop; after an `L` the next character must exist and not be `;`,
   the class name runs to the next `;` *)
Fixpoint map_desc_f (fuel : nat) (f : str -> str) (s : str) : res str :=
  match fuel with
  | O => Err
  | S k =>
      match s with
      | [] => Ok []
      | c :: s' =>
          if N.eqb c cL then
            match s' with
            | [] => Err
            | c1 :: s'' =>
                if N.eqb c1 cSEMI then Err
                else match take_until_semi s'' with
                     | Err => Err
                     | Ok (n, r) =>
                         match map_desc_f k f r with
                         | Ok o => Ok (cL :: f (c1 :: n) ++ cSEMI :: o)
                         | Err => Err
                         end
                     end
            end
          else match map_desc_f k f s' with Ok o => Ok (c :: o) | Err => Err end
      end
  end.
Definition map_desc (f : str -> str) (s : str) : res str := map_desc_f (S (length s)) f s.

Definition atable := list (str * str).
Definition remapper_a (M : mappings) (from to : nat) : atable :=
  fold_left (fun T c => match nth_name (c_names c) from, nth_name (c_names c) to with
                        | Some a, Some b => map_put str_eqb a b T
                        | _, _ => T
                        end) (ms_classes M) [].
Definition a_map_class (T : atable) (c : str) : str :=
  match map_get str_eqb c T with Some n => n | None => c end.
Definition a_map_desc (T : atable) (d : str) : res str := map_desc (a_map_class T) d.

Definition key := (str * str)%type.
Definition key_eqb : key -> key -> bool := key2_eqb.
Definition mtable := list (key * key).
Definition bremap := list (str * (str * mtable)).     (* from-name -> (to-name, methods) *)

(* the field rows only matter through the `?` on their descriptors *)
Definition field_row_ok (Tf Tt : atable) (from to : nat) (f : field) : bool :=
  match nth_name (f_names f) from, nth_name (f_names f) to with
  | Some _, Some _ =>
      match a_map_desc Tf (f_desc f), a_map_desc Tt (f_desc f) with
      | Ok _, Ok _ => true
      | _, _ => false
      end
  | _, _ => true
  end.

Definition add_method_row (Tf Tt : atable) (from to : nat) (acc : res mtable) (m : meth) : res mtable :=
  match acc with
  | Err => Err
  | Ok t =>
      match nth_name (m_names m) from, nth_name (m_names m) to with
      | Some a, Some b =>
          match a_map_desc Tf (m_desc m), a_map_desc Tt (m_desc m) with
          | Ok df, Ok dt => Ok (map_put key_eqb (a, df) (b, dt) t)
          | _, _ => Err
          end
      | _, _ => Ok t
      end
  end.

Definition add_class_row (Tf Tt : atable) (from to : nat) (acc : res bremap) (c : class) : res bremap :=
  match acc with
  | Err => Err
  | Ok R =>
      match nth_name (c_names c) from, nth_name (c_names c) to with
      | Some a, Some b =>
          if forallb (field_row_ok Tf Tt from to) (c_fields c) then
            match fold_left (add_method_row Tf Tt from to) (c_methods c) (Ok []) with
            | Err => Err
            | Ok ms => Ok (map_put str_eqb a (b, ms) R)
            end
          else Err
      | _, _ => Ok R
      end
  end.

Definition remapper_b (M : mappings) (from to : nat) : res bremap :=
  fold_left (add_class_row (remapper_a M 0 from) (remapper_a M 0 to) from to) (ms_classes M) (Ok []).

Definition b_map_class (R : bremap) (c : str) : str :=
  match map_get str_eqb c R with Some cl => fst cl | None => c end.
Definition b_map_desc (R : bremap) (d : str) : res str := map_desc (b_map_class R) d.

(* super class providers: Vec<JarSuperProv>; the first provider that knows the class answers *)
Definition prov := list (str * list str).
Fixpoint supers (I : list prov) (c : str) : option (list str) :=
  match I with
  | [] => None
  | p :: I' => match map_get str_eqb c p with Some ss => Some ss | None => supers I' c end
  end.

(* OpenedJar::get_super_classes_provider: super class (java/lang/Object included) then interfaces *)
Definition prov_of_jar (J : jar) : prov :=
  fold_left (fun P c => map_put str_eqb (jc_name c)
                          (set_extend str_eqb ((match jc_super c with Some s => [s] | None => [] end) ++ jc_ifaces c) []) P) J [].

(* JarSuperProv::remap *)
Definition remap_prov (R : bremap) (p : prov) : prov :=
  fold_left (fun P e => map_put str_eqb (b_map_class R (fst e)) (set_extend str_eqb (map (b_map_class R) (snd e)) []) P) p [].

Fixpoint first_some (g : str -> res (option key)) (ss : list str) : res (option key) :=
  match ss with
  | [] => Ok None
  | s :: ss' =>
      match g s with
      | Err => Err
      | Ok (Some v) => Ok (Some v)
      | Ok None => first_some g ss'
      end
  end.

(* BRemapperImpl::map_method_fail (after "fix: remapper searches the super types of an owner class
   that has no mapping"): the owner's own table when it has a class entry, then — entry or not —
   the super types in order, depth first.  Unbounded recursion on a cyclic provider: fuel, Err. *)
Fixpoint map_method_fail (fuel : nat) (R : bremap) (I : list prov) (owner : str) (k : key) : res (option key) :=
  match fuel with
  | O => Err
  | S f =>
      match (match map_get str_eqb owner R with
             | Some cl => map_get key_eqb k (snd cl)
             | None => None
             end) with
      | Some v => Ok (Some v)
      | None =>
          match supers I owner with
          | Some ss => first_some (fun s => map_method_fail f R I s k) ss
          | None => Ok None
          end
      end
  end.

Definition prov_fuel (I : list prov) : nat := S (S (fold_left (fun n p => n + length p)%nat I O)).

(* map_method_ref_obj = map_method (name unchanged and descriptor remapped when nothing is found), then the class *)
Definition map_method_ref_obj (R : bremap) (I : list prov) (m : mref) : res mref :=
  match map_method_fail (prov_fuel I) R I (mr_class m) (snd m) with
  | Err => Err
  | Ok (Some v) => Ok (b_map_class R (mr_class m), v)
  | Ok None => match b_map_desc R (mr_desc m) with
               | Ok d => Ok (b_map_class R (mr_class m), (mr_name m, d))
               | Err => Err
               end
  end.

(* SpecializedMethods::remap: `.map(..).collect::<Result<IndexMap>>()` *)
Definition remap_pairs (R : bremap) (I : list prov) (l : pairs) : res pairs :=
  fold_left (fun acc e => match acc with
                          | Err => Err
                          | Ok t => match map_method_ref_obj R I (fst e), map_method_ref_obj R I (snd e) with
                                    | Ok a, Ok b => Ok (map_put mref_eqb a b t)
                                    | _, _ => Err
                                    end
                          end) l (Ok []).

(* SpecializedMethods::remap on the whole value: BOTH tables, bridge_to_specialized first (an error in either is
   the error of the call) *)
Definition remap_both (R : bremap) (I : list prov) (sm : pairs * pairs) : res (pairs * pairs) :=
  match remap_pairs R I (fst sm), remap_pairs R I (snd sm) with
  | Ok P, Ok Q => Ok (P, Q)
  | _, _ => Err
  end.

(* Namespaces::get_namespace *)
Fixpoint ns_index (name : str) (l : list str) (i : nat) : res nat :=
  match l with
  | [] => Err
  | x :: l' => if str_eqb x name then Ok i else ns_index name l' (S i)
  end.

(* ------------------------------------------------------------------ *)
(* the insertion into the mappings *)

(* Names::from([a, b]): an empty string becomes None *)
Definition names2 (a b : str) : names :=
  [if is_nil a then None else Some a; if is_nil b then None else Some b].

(* class.methods.entry(key): Occupied => only the info is replaced; Vacant => a fresh node *)
Fixpoint upsert_method (k : key) (nm : names) (ms : list meth) : list meth :=
  match ms with
  | [] => [mkMeth (snd k) nm None []]
  | m :: ms' =>
      if okey_eqb key2_eqb (meth_key m) (Some k) then mkMeth (snd k) nm (m_doc m) (m_params m) :: ms'
      else m :: upsert_method k nm ms'
  end.

(* mappings.classes.get_mut(&bridge.class) *)
Fixpoint upd_class (c : str) (f : class -> res class) (cs : list class) : res (list class) :=
  match cs with
  | [] => Ok []
  | x :: cs' =>
      if okey_eqb str_eqb (class_key x) (Some c) then
        match f x with Ok x' => Ok (x' :: cs') | Err => Err end
      else match upd_class c f cs' with Ok r => Ok (x :: r) | Err => Err end
  end.

(* one iteration of `for (bridge, specialized) in bridge_to_specialized`; [named] is the lookup
   `remapper_named.map_method_ref_obj(&bridge)?.name` *)
Definition add_one (named : mref -> res str) (cs : res (list class)) (e : mref * mref) : res (list class) :=
  match cs with
  | Err => Err
  | Ok cs =>
      match named (fst e) with
      | Err => Err
      | Ok nm =>
          let nms := names2 (mr_name (snd e)) nm in
          upd_class (mr_class (fst e))
            (fun c => match first_name nms with
                      | None => Err                         (* info.get_key()? *)
                      | Some n => Ok (mkClass (c_names c) (c_doc c) (c_fields c)
                                        (upsert_method (n, mr_desc (snd e)) nms (c_methods c)))
                      end) cs
      end
  end.

Definition add_pairs (named : mref -> res str) (P : pairs) (M : mappings) : res mappings :=
  match fold_left (add_one named) P (Ok (ms_classes M)) with
  | Ok cs => Ok (mkMappings (ms_ns M) (ms_doc M) cs)
  | Err => Err
  end.

Definition named_of (R : bremap) (I : list prov) (b : mref) : res str :=
  match map_method_ref_obj R I b with Ok r => Ok (mr_name r) | Err => Err end.

(* add_specialized_methods_to_mappings(main_jar, calamus, libraries, mappings) *)
Definition add_specialized (J : jar) (cal : mappings) (libs : list jar) (M : mappings) : res mappings :=
  let provs := map prov_of_jar (J :: libs) in
  match ns_index s_official (ms_ns cal) O, ns_index s_intermediary (ms_ns cal) O with
  | Ok o, Ok i =>
      match remapper_b cal o i with
      | Err => Err
      | Ok Rc =>
          let x := map (remap_prov Rc) provs in
          match ns_index s_intermediary (ms_ns M) O, ns_index s_named (ms_ns M) O with
          | Ok i2, Ok n2 =>
              match remapper_b M i2 n2 with
              | Err => Err
              | Ok Rn =>
                  match get_specialized J with
                  | Err => Err
                  | Ok (b2s, s2b) =>
                      match remap_pairs Rc provs b2s, remap_pairs Rc provs s2b with
                      | Ok P, Ok _ => add_pairs (named_of Rn x) P M
                      | _, _ => Err
                      end
                  end
              end
          | _, _ => Err
          end
      end
  | _, _ => Err
  end.

(* `main_jar.get_specialized_methods()?.remap(&remapper_calamus)?` with the remapper_calamus that
   add_specialized_methods_to_mappings builds (the step between detection and insertion, on its own) *)
Definition remap_sm (J : jar) (cal : mappings) (libs : list jar) : res (pairs * pairs) :=
  let provs := map prov_of_jar (J :: libs) in
  match ns_index s_official (ms_ns cal) O, ns_index s_intermediary (ms_ns cal) O with
  | Ok o, Ok i =>
      match remapper_b cal o i with
      | Err => Err
      | Ok Rc =>
          match get_specialized J with
          | Err => Err
          | Ok sm => remap_both Rc provs sm
          end
      end
  | _, _ => Err
  end.
