(* X12 — bridge, part 28: THE CODE-ARRAY EQUATION WITH FRAMES.
   C01's read_code, handed the written code array, the written tables AND the offset_deltas of the written StackMapTable
   (any list of deltas whose running offsets are the offsets C02's decoder finds in the written attribute — the deltas
   C01's frame format reads from it are such a list: BridgeFrames.smt_rel), returns exactly the label-free form of the
   translated body with the frames attached to the instructions fidx: tables with t_frames := fidx chs 0 b fs.
   Composition of Bridge.bridge_write_read (its proof, with frames), BridgeAttach.frames_attach and C01's read_encode_gen. *)
From Coq Require Import List NArith ZArith Bool Lia.
From FB Require Import Base.Str C01.Model C01.Theory1 C01.Theory2 C01.Theory3 C01.Theory4.
From FB Require C02.Model C02.Encode C02.Theory2 C02.Theory3 C02.Theory4 C02.Theory7 C02.Frames C02.TheoryF.
From FB Require Import X12.BridgeDefs X12.BridgePlain X12.BridgeEnc X12.Bridge X12.BridgeAttach.
Import ListNotations.
Arguments N.add : simpl never.
Arguments Z.add : simpl never.

Definition with_frames (ci : code_in) (ds : list N) : code_in :=
  {| ci_code := ci_code ci; ci_exc := ci_exc ci; ci_lines := ci_lines ci; ci_ranges := ci_ranges ci;
     ci_frames := ds; ci_cldc := ci_cldc ci; ci_points := ci_points ci |}.
Definition with_tframes (t : tables) (FI : list nat) : tables :=
  {| t_exc := t_exc t; t_lines := t_lines t; t_ranges := t_ranges t; t_frames := FI; t_points := t_points t |}.

Theorem bridge_read_encoding_f b chs last w tb rt nl lines FI deltas :
  length chs = length b ->
  body_in chs b = true -> refs_carried b = true -> tables_carried b tb = true ->
  WE.encode chs (WE.labpos chs 0 b last) 0 b = Some w ->
  WE.admissible chs (WE.labpos chs 0 b last) 0 b = true ->
  w <> [] -> N.of_nat (length w) <= 65535 ->
  WE.mapO (W7.L3 (WE.labpos chs 0 b last)) (W.t_exc tb) = Some (W.r_exc rt) ->
  WE.mapO (WE.labpos chs 0 b last) (W.t_offs tb) = Some (W.r_offs rt) ->
  WE.mapO (W7.Lrange (WE.labpos chs 0 b last)) (W.t_ranges tb) = Some (W.r_ranges rt) ->
  Forall (fun x => (0 <= snd x)%Z) (W.r_ranges rt) ->
  incr_from 0 FI -> (forall f, In f FI -> (f < length (tr_body chs b last))%nat) ->
  frame_offsets true 0 deltas = Ok (map (posf_of (layout (tr_ch chs b) (tr_body chs b last))) FI) ->
  read_code (with_frames (code_in_of_written w rt nl lines) deltas)
  = Ok (expected (tr_body chs b last) (with_tframes (tr_tables (T_of chs b last) tb nl lines) FI)).
Proof.
  intros Hl Hin Hrc Htc HE HAd Hne Hlen R1 R2 R3 Hnn HI HB HD.
  destruct (bridge_encode b chs last w Hl Hin HE HAd) as [E LA].
  rewrite <- (code_in_agree _ _ _ w tb rt nl lines LA R1 R2 R3).
  change (with_frames (code_in_of (posf_of (layout (tr_ch chs b) (tr_body chs b last))) (tr_tables (T_of chs b last) tb nl lines) w) deltas)
    with (code_in_with (posf_of (layout (tr_ch chs b) (tr_body chs b last))) (with_tframes (tr_tables (T_of chs b last) tb nl lines) FI) w deltas None).
  apply read_encode_gen.
  - exact E.
  - intros Hnil. rewrite Hnil in E. cbn in E. injection E as <-. apply Hne. reflexivity.
  - exact Hlen.
  - apply bridge_targets_ok; assumption.
  - destruct (bridge_tables_ok chs b last tb rt nl lines w Hl Htc E LA R3 Hnn) as (T1 & T2 & T3 & _ & _ & T6).
    exact (conj T1 (conj T2 (conj T3 (conj HI (conj HB T6))))).
  - exact HD.
Qed.

(* READING WHAT write_code_f WRITES, FRAMES INCLUDED *)
Theorem bridge_write_read_frames hasmax b last tb fs w Wd rt sm nl lines :
  W3.unique_labels b last -> WF.frames_ok fs = true -> length fs = length b ->
  WF.write_code_f hasmax b last tb fs = Some (W.OK (w, Wd, rt, Some sm)) ->
  let chs := W3.chs_run Wd 0%N 0%Z [] b in
  body_in chs b = true -> refs_carried b = true -> tables_carried b tb = true ->
  exists ds,
    WF.dec_stack_map sm = Some ds /\ WF.tree_frames (WE.labpos chs 0 b last) (WE.positions chs 0 b) fs = Some ds /\
    forall deltas, frame_offsets true 0 deltas = Ok (map (fun e => Z.to_N (fst e)) ds) ->
      read_code (with_frames (code_in_of_written w rt nl lines) deltas)
      = Ok (expected (tr_body chs b last) (with_tframes (tr_tables (T_of chs b last) tb nl lines) (fidx chs 0 b fs))).
Proof.
  intros Hu Hok Hlf HWF chs Hin Hrc Htc.
  destruct (frames_attach hasmax b last tb fs w Wd rt sm Hu Hok Hlf HWF Hin) as (ds & Hdec & Htf & Hoffs & HI & HB & _).
  destruct (WTF.frames_written hasmax b last tb fs w Wd rt (Some sm) Hu Hok Hlf HWF) as [HW _].
  exists ds. split; [exact Hdec|]. split; [exact Htf|]. intros deltas HD. rewrite Hoffs in HD.
  pose proof (W7.tables_resolve hasmax b last tb w Wd rt Hu HW) as (R1 & R2 & R3).
  unfold W.write_code in HW. destruct (negb hasmax); [discriminate|].
  destruct (W.wc_loop _ _ _ _) as [[[[w0 labs] W0]| |]|] eqn:E; try discriminate.
  destruct (W.resolve_tables labs tb) as [r| |] eqn:Er; try discriminate.
  injection HW as <- <- <-.
  pose proof (W4.write_is_encode _ _ _ _ _ Hu E) as (Hl & HE & HAd & _ & Hz & Hpos). cbv zeta in *.
  assert (Hnn : Forall (fun x => (0 <= snd x)%Z) (W.r_ranges r)).
  { unfold W.resolve_tables in Er.
    destruct (W.mapM_out (W.try_get3 labs) (W.t_exc tb)) as [e| |]; try discriminate.
    destruct (W.mapM_out (W.try_get labs) (W.t_offs tb)) as [o| |]; try discriminate.
    destruct (W.mapM_out (W.try_get_range labs) (W.t_ranges tb)) as [rg| |] eqn:E3; try discriminate.
    injection Er as <-. cbn [W.r_ranges]. apply (ranges_nonneg labs _ _ E3). }
  unfold W.zlen in Hz.
  apply (bridge_read_encoding_f b chs last w0 tb r nl lines (fidx chs 0 b fs) deltas); try assumption.
  - intros ->. cbn [length] in Hz. lia.
  - lia.
Qed.

(* with the deltas C01's own frame format reads from the written attribute (smt_rel: C02_bridge_stack_map_table) *)
From FB Require X12.BridgeFrames.
Theorem bridge_write_read_smt hasmax b last tb fs w Wd rt sm nl lines :
  W3.unique_labels b last -> WF.frames_ok fs = true -> length fs = length b ->
  WF.write_code_f hasmax b last tb fs = Some (W.OK (w, Wd, rt, Some sm)) ->
  let chs := W3.chs_run Wd 0%N 0%Z [] b in
  body_in chs b = true -> refs_carried b = true -> tables_carried b tb = true ->
  exists ds,
    WF.dec_stack_map sm = Some ds /\
    forall dec l v, map fst l = map fst ds -> X12.BridgeFrames.smt_rel dec l v ->
      exists vs deltas,
        v = FB.C01.Fmt.VAttr FB.C01.Formats.a_StackMapTable (FB.C01.Fmt.VList vs) /\
        FB.C01.Pool.map_res FB.C01.ClassFile.frame_delta vs = Ok deltas /\
        read_code (with_frames (code_in_of_written w rt nl lines) deltas)
        = Ok (expected (tr_body chs b last) (with_tframes (tr_tables (T_of chs b last) tb nl lines) (fidx chs 0 b fs))).
Proof.
  intros Hu Hok Hlf HWF chs Hin Hrc Htc.
  destruct (bridge_write_read_frames hasmax b last tb fs w Wd rt sm nl lines Hu Hok Hlf HWF Hin Hrc Htc) as (ds & Hdec & _ & Hread).
  exists ds. split; [exact Hdec|]. intros dec l v Hl (vs & dl & -> & Hd & Ho & _).
  exists vs, dl. split; [reflexivity|]. split; [exact Hd|]. apply Hread.
  rewrite Ho, <- (map_map fst Z.to_N), Hl, map_map. reflexivity.
Qed.

(* non-vacuity: C02's frames example (new #9; ifeq L2; L2: nop; return with a same frame, an append frame holding an
   object and an uninitialized local, a full frame): deltas 0, 5, 0; the frames sit on instructions 0, 2, 3 *)
Theorem frames_eq_example : exists w Wd rt sm,
  WF.write_code_f true WTF.exf_body None WTF.exf_tables WTF.exf_frames = Some (W.OK (w, Wd, rt, Some sm)) /\
  let chs := W3.chs_run Wd 0%N 0%Z [] WTF.exf_body in
  body_in chs WTF.exf_body = true /\ fidx chs 0 WTF.exf_body WTF.exf_frames = [0; 2; 3]%nat /\
  read_code (with_frames (code_in_of_written w rt 0 []) [0; 5; 0]%N)
  = Ok (expected (tr_body chs WTF.exf_body None)
                 (with_tframes (tr_tables (T_of chs WTF.exf_body None) WTF.exf_tables 0 []) [0; 2; 3]%nat)) /\
  map (fun x => snd (fst x)) (cs_insns (expected (tr_body chs WTF.exf_body None)
                 (with_tframes (tr_tables (T_of chs WTF.exf_body None) WTF.exf_tables 0 []) [0; 2; 3]%nat)))
  = [Some 0; None; Some 1; Some 2]%nat.
Proof.
  destruct (WF.write_code_f true WTF.exf_body None WTF.exf_tables WTF.exf_frames) as [[[[[w Wd] rt] [sm|]]| |]|] eqn:E;
    try (vm_compute in E; discriminate).
  pose proof E as E0. vm_compute in E0. injection E0 as Ew EWd Ert Esm.
  destruct WTF.frames_example as (Hu & Hok & _).
  assert (Hin : body_in (W3.chs_run Wd 0%N 0%Z [] WTF.exf_body) WTF.exf_body = true) by (rewrite <- EWd; vm_compute; reflexivity).
  assert (HF : fidx (W3.chs_run Wd 0%N 0%Z [] WTF.exf_body) 0 WTF.exf_body WTF.exf_frames = [0; 2; 3]%nat) by (rewrite <- EWd; vm_compute; reflexivity).
  destruct (bridge_write_read_frames true WTF.exf_body None WTF.exf_tables WTF.exf_frames w Wd rt sm 0 [] Hu Hok eq_refl E Hin
              ltac:(vm_compute; reflexivity) ltac:(vm_compute; reflexivity)) as (ds & Hdec & _ & Hread).
  rewrite <- Esm in Hdec. vm_compute in Hdec. injection Hdec as <-.
  specialize (Hread [0; 5; 0]%N ltac:(vm_compute; reflexivity)). rewrite HF in Hread.
  exists w, Wd, rt, sm. split; [reflexivity|]. cbv zeta. split; [exact Hin|]. split; [exact HF|]. split; [exact Hread|].
  rewrite <- EWd. vm_compute. reflexivity.
Qed.
