(* X12 — bridge, part 24: Record (class level): components with their own attribute lists
   (Signature, RuntimeVisible/InvisibleAnnotations, unknown attributes) through C01's record_sel. *)
From Coq Require Import List NArith ZArith Bool Lia.
From FB Require Import C02.Model C02.Encode C02.Theory2 C02.Theory8 C02.Frames C02.Class C02.Decode C02.Facts
  C02.TheoryC1 C02.TheoryC2.
From FB Require C01.Bytes C01.Pool C01.Attr C01.Tables C01.Fmt C01.Formats C01.ClassFile.
From FB Require X12.BridgePool.
From FB Require Import X12.BridgeClass X12.BridgeMembers X12.BridgeCode X12.BridgeFmt X12.BridgeDyn X12.BridgeFile X12.BridgeFmt2 X12.BridgeFrames
  X12.BridgeUnknown X12.BridgeAnnot.
Import ListNotations.
Local Open Scope Z_scope.

Lemma sel_default_record name : RA.mem_str name known_names = false -> forall len, R.record_sel name len = RF.FBytes len.
Proof. intros H len. unfold R.record_sel, R.ann_rows. cbn [app R.pick]. seldefault H. Qed.
Lemma no_unknownR c nb' q len s2 nb b r : leaf_body AtRecord c nb' = Some q ->
  p_block len q s2 = Some (AUnknown nb b, r) -> False.
Proof.
  intros Hq Hb. unfold leaf_body in Hq. cbn [andb] in Hq.
  chain Hq; try discriminate; (let E0 := fresh "E0" in injection Hq as E0; subst); blockout Hb.
Qed.
Theorem attr_UnknownR impl dec cs s nb b r t : unk_ok dec nb = true ->
  p_attr0 AtRecord (cslots cs 1) s = Some (AUnknown nb b, r) ->
  RF.rd_fmt impl dec (R.acc (BP.rpool dec cs)) (RF.FAttr R.record_sel) (s ++ t) = Ok (v_Unknown dec nb b, r ++ t).
Proof.
  intros Hu H. unfold unk_ok in Hu. apply negb_true_iff in Hu. unfold p_attr0 in H.
  apply (unknown_read impl dec cs _ AUnknown _ s nb b r t H).
  - intros nb' q len s2 r' Hq Hb. exact (no_unknownR _ _ _ _ _ _ _ _ Hq Hb).
  - intros n1 b1 n2 b2 [= -> ->]. split; reflexivity.
  - exact (sel_default_record _ Hu).
Qed.

Ltac namelemma0 Hq Hb :=
  unfold leaf_body in Hq; cbn [andb] in Hq;
  chain Hq; try discriminate; (let E0 := fresh "E0" in injection Hq as E0; subst); try (blockout Hb; fail);
  match goal with
  | E : is _ _ && _ = true |- _ => apply andb_prop in E; destruct E as [E _]; apply is_eq; exact E
  | _ => apply is_eq; assumption
  end.
Lemma name_SignatureR c nb q len s2 sg r : leaf_body AtRecord c nb = Some q ->
  p_block len q s2 = Some (ASignature sg, r) -> nb = s_Signature.
Proof. intros Hq Hb; namelemma0 Hq Hb. Qed.
Lemma name_AnnotationsR c nb q len s2 vis la r : leaf_body AtRecord c nb = Some q ->
  p_block len q s2 = Some (AAnnotations vis la, r) -> nb = if vis then s_RVAnn else s_RIAnn.
Proof. intros Hq Hb; destruct vis; namelemma0 Hq Hb. Qed.

Theorem attr_SignatureR impl dec cs s sg r t : BP.sdec dec s_Signature = RFo.a_Signature ->
  p_attr0 AtRecord (cslots cs 1) s = Some (ASignature sg, r) ->
  RF.rd_fmt impl dec (R.acc (BP.rpool dec cs)) (RF.FAttr R.record_sel) (s ++ t) = Ok (leaf_val dec (ASignature sg), r ++ t).
Proof.
  intros Hn H. unfold p_attr0 in H.
  destruct (attr_p2r (fun _ => True) impl dec cs _ _ R.record_sel ASignature (p_idx get_utf8 (cslots cs 1)) s_Signature RFo.a_Signature
              (RF.FIdx 8%N) (fun x => RF.VC (RP.VUtf8 (BP.sdec dec x))) s _ r t H) as (y & Ey & Hr).
  - intros nb q Hq len s2 y r' Hb ->. exact (name_SignatureR _ _ _ _ _ _ _ Hq Hb).
  - reflexivity.
  - exact Hn.
  - intros len. reflexivity.
  - apply p2r_q. apply p2r_utf8.
  - intros; exact I.
  - intros nb b. discriminate.
  - injection Ey as <-. exact Hr.
Qed.
Theorem attr_AnnotationsR impl dec cs s vis la r t :
  BP.sdec dec s_RVAnn = RFo.a_RuntimeVisibleAnnotations -> BP.sdec dec s_RIAnn = RFo.a_RuntimeInvisibleAnnotations ->
  anns_ok la = true -> p_attr0 AtRecord (cslots cs 1) s = Some (AAnnotations vis la, r) ->
  RF.rd_fmt impl dec (R.acc (BP.rpool dec cs)) (RF.FAttr R.record_sel) (s ++ t) = Ok (v_Annotations dec vis la, r ++ t).
Proof.
  intros N1 N2 Ha H. unfold p_attr0 in H. destruct vis.
  - destruct (attr_p2r (fun x => anns_ok x = true) impl dec cs _ _ R.record_sel (AAnnotations true) (p_annotations (cslots cs 1)) s_RVAnn
                RFo.a_RuntimeVisibleAnnotations R.annotations_fmt (fun l => RF.VList (map (ann_val dec) l)) s _ r t H) as (y & Ey & Hr).
    + intros nb q Hq len s2 y r' Hb ->. exact (name_AnnotationsR _ _ _ _ _ true _ _ Hq Hb).
    + reflexivity.
    + exact N1.
    + intros len. reflexivity.
    + apply p2rq_annotations.
    + intros y [= <-]. exact Ha.
    + intros nb b. discriminate.
    + injection Ey as <-. exact Hr.
  - destruct (attr_p2r (fun x => anns_ok x = true) impl dec cs _ _ R.record_sel (AAnnotations false) (p_annotations (cslots cs 1)) s_RIAnn
                RFo.a_RuntimeInvisibleAnnotations R.annotations_fmt (fun l => RF.VList (map (ann_val dec) l)) s _ r t H) as (y & Ey & Hr).
    + intros nb q Hq len s2 y r' Hb ->. exact (name_AnnotationsR _ _ _ _ _ false _ _ Hq Hb).
    + reflexivity.
    + exact N2.
    + intros len. reflexivity.
    + apply p2rq_annotations.
    + intros y [= <-]. exact Ha.
    + intros nb b. discriminate.
    + injection Ey as <-. exact Hr.
Qed.

(* ---- a record component's attributes, the component, the attribute ---- *)
Definition rattrb (dec : RB.bytes -> res str) (a : dattr0) : bool :=
  match a with ASignature _ => true | AAnnotations _ l => anns_ok l | AUnknown nb _ => unk_ok dec nb | _ => false end.
Definition rattr_val (dec : RB.bytes -> res str) (a : dattr0) : RF.val :=
  match a with
  | AAnnotations vis l => v_Annotations dec vis l
  | AUnknown nb b => v_Unknown dec nb b
  | _ => leaf_val dec a
  end.
Definition names7 (dec : RB.bytes -> res str) : bool := str_eqb (BP.sdec dec s_Record) RFo.a_Record.
Lemma p2rq_rattr impl dec cs :
  BP.sdec dec s_Signature = RFo.a_Signature ->
  BP.sdec dec s_RVAnn = RFo.a_RuntimeVisibleAnnotations -> BP.sdec dec s_RIAnn = RFo.a_RuntimeInvisibleAnnotations ->
  p2rq (fun a => rattrb dec a = true) (p_attr0 AtRecord (cslots cs 1)) (RF.rd_fmt impl dec (R.acc (BP.rpool dec cs)) (RF.FAttr R.record_sel)) (rattr_val dec).
Proof.
  intros N0 N1 N2 s a r t H Ha. destruct a; try discriminate; cbn [rattrb rattr_val] in *.
  - exact (attr_SignatureR impl dec cs s _ r t N0 H).
  - exact (attr_AnnotationsR impl dec cs s _ _ r t N1 N2 Ha H).
  - exact (attr_UnknownR impl dec cs s _ _ r t Ha H).
Qed.

Definition rcompb (dec : RB.bytes -> res str) (c : drecord) : bool := forallb (rattrb dec) (dr_attrs c).
Definition rc_val (dec : RB.bytes -> res str) (c : drecord) : RF.val :=
  RF.VSeq [u8v dec (dr_name c); u8v dec (dr_desc c); RF.VList (map (rattr_val dec) (dr_attrs c))].
Lemma p2rq_rcomp impl dec cs :
  BP.sdec dec s_Signature = RFo.a_Signature ->
  BP.sdec dec s_RVAnn = RFo.a_RuntimeVisibleAnnotations -> BP.sdec dec s_RIAnn = RFo.a_RuntimeInvisibleAnnotations ->
  p2rq (fun c => rcompb dec c = true) (p_record_component (cslots cs 1))
       (RF.rd_fmt impl dec (R.acc (BP.rpool dec cs)) (RF.FSeq [RF.FIdx 8%N; RF.FIdx 8%N; RF.FVec16 (RF.FAttr R.record_sel)])) (rc_val dec).
Proof.
  intros N0 N1 N2 s c r t H Hc. unfold p_record_component, pbind, pret in H.
  destruct (p_idx get_utf8 (cslots cs 1) s) as [[n s1]|] eqn:E1; [|discriminate].
  destruct (p_idx get_utf8 (cslots cs 1) s1) as [[d s2]|] eqn:E2; [|discriminate].
  destruct (p_attrs0 AtRecord (cslots cs 1) s2) as [[a s3]|] eqn:E3; [|discriminate]. injection H as <- <-.
  unfold rcompb in Hc. cbn [dr_attrs] in Hc. unfold rc_val. cbn [dr_name dr_desc dr_attrs].
  rewrite rd_seq3, (p2r_utf8 impl dec cs _ _ _ t E1). cbn [Base.Str.bind].
  rewrite (p2r_utf8 impl dec cs _ _ _ t E2). cbn [Base.Str.bind]. unfold p_attrs0 in E3.
  rewrite (p2rq_vec16 _ impl dec _ _ _ _ (p2rq_rattr impl dec cs N0 N1 N2) _ _ _ t E3); [reflexivity|].
  apply (forallb_Forall (rattrb dec)); [intros x Hx; exact Hx|exact Hc].
Qed.

Lemma name_Record c nb q len s2 x r : attr_body AtClass c nb = Some q ->
  p_block len q s2 = Some (ARecord x, r) -> nb = s_Record.
Proof. intros Hq Hb; namelemma Hq Hb. Qed.
Definition v_Record dec (l : list drecord) : RF.val := RF.VAttr RFo.a_Record (RF.VList (map (rc_val dec) l)).
Theorem attr_Record impl dec cs s x r t :
  BP.sdec dec s_Record = RFo.a_Record -> BP.sdec dec s_Signature = RFo.a_Signature ->
  BP.sdec dec s_RVAnn = RFo.a_RuntimeVisibleAnnotations -> BP.sdec dec s_RIAnn = RFo.a_RuntimeInvisibleAnnotations ->
  forallb (rcompb dec) x = true ->
  p_attr AtClass (cslots cs 1) s = Some (ARecord x, r) ->
  RF.rd_fmt impl dec (R.acc (BP.rpool dec cs)) (RF.FAttr R.class_sel) (s ++ t) = Ok (v_Record dec x, r ++ t).
Proof.
  intros Hn N0 N1 N2 Hx H. unfold p_attr in H.
  destruct (attr_p2r (fun l => forallb (rcompb dec) l = true) impl dec cs _ _ R.class_sel ARecord (p_list16 (p_record_component (cslots cs 1))) s_Record
              RFo.a_Record (RF.FVec16 (RF.FSeq [RF.FIdx 8%N; RF.FIdx 8%N; RF.FVec16 (RF.FAttr R.record_sel)])) (fun l => RF.VList (map (rc_val dec) l))
              s _ r t H) as (y & Ey & Hr).
  - intros nb q Hq len s2 y r' Hb ->. exact (name_Record _ _ _ _ _ _ _ Hq Hb).
  - reflexivity.
  - exact Hn.
  - intros len. reflexivity.
  - intros s0 l r0 t0 H0 Hl. apply (p2rq_vec16 _ impl dec _ _ _ _ (p2rq_rcomp impl dec cs N0 N1 N2) _ _ _ t0 H0).
    apply (forallb_Forall (rcompb dec)); [intros y Hy; exact Hy|exact Hl].
  - intros y [= <-]. exact Hx.
  - intros nb b. discriminate.
  - injection Ey as <-. exact Hr.
Qed.
