(* X12 — bridge, part 1: (a) the two models' big-endian encoders are the same function; (b) a Plain
   entry of C02 whose bytes [plain_insn] accepts IS, for C01's general encoder, the encoding of the
   decoded instruction under the choice read off the bytes ([plain_choice]): the opaque bytes of the
   writer model and the structured operands of the reader model meet here. *)
From Coq Require Import List NArith ZArith Bool Lia.
From FB Require Import Base.Str C01.Model C01.Theory1 C01.Theory2 C01.Theory4 C01.Theory14.
From FB Require C02.Model C02.Encode.
From FB Require Import X12.BridgeDefs.
Import ListNotations.
Arguments N.add : simpl never.
Arguments N.mul : simpl never.
Arguments N.sub : simpl never.
Arguments N.modulo : simpl never.
Arguments N.div : simpl never.
Arguments Z.add : simpl never.
Arguments Z.sub : simpl never.
Arguments Z.mul : simpl never.

(* ---------------------------------------------------------------------------------------------- *)
(* (a) i16 / i32 big endian: C02 writes floor-division bytes of the signed value, C01 the unsigned
   big-endian form of the value modulo 2^16 / 2^32.  They agree on every integer. *)
Lemma byte_of_lt z : W.byte_of z < 256.
Proof. unfold W.byte_of. pose proof (Z.mod_pos_bound z 256). lia. Qed.

Lemma wbe16_eq z : W.be16 z = bei16 z.
Proof.
  unfold W.be16, bei16.
  assert (E : u16 z = dec16 (W.byte_of (z / 256)) (W.byte_of z)).
  { unfold u16, dec16, W.byte_of.
    pose proof (Z.div_mod z 256 ltac:(lia)) as E0. pose proof (Z.div_mod (z / 256) 256 ltac:(lia)) as E1.
    pose proof (Z.mod_pos_bound z 256 ltac:(lia)) as B0. pose proof (Z.mod_pos_bound (z / 256) 256 ltac:(lia)) as B1.
    assert (M : (z mod 65536 = (z / 256) mod 256 * 256 + z mod 256)%Z).
    { symmetry. apply (Z.mod_unique z 65536 (z / 256 / 256)); lia. }
    rewrite M. lia. }
  rewrite E. symmetry. apply (proj1 (be16_dec16 _ _ (byte_of_lt _) (byte_of_lt _))).
Qed.

Lemma wbe32_eq z : W.be32 z = bei32 z.
Proof.
  unfold W.be32, bei32.
  assert (E : u32 z = dec32 (W.byte_of (z / 16777216)) (W.byte_of (z / 65536)) (W.byte_of (z / 256)) (W.byte_of z)).
  { unfold u32, dec32, W.byte_of.
    assert (D2 : (z / 65536 = z / 256 / 256)%Z) by (rewrite Zdiv.Zdiv_Zdiv by lia; reflexivity).
    assert (D3 : (z / 16777216 = z / 256 / 256 / 256)%Z) by (rewrite !Zdiv.Zdiv_Zdiv by lia; reflexivity).
    rewrite D2, D3.
    pose proof (Z.div_mod z 256 ltac:(lia)) as E0. pose proof (Z.div_mod (z / 256) 256 ltac:(lia)) as E1.
    pose proof (Z.div_mod (z / 256 / 256) 256 ltac:(lia)) as E2. pose proof (Z.div_mod (z / 256 / 256 / 256) 256 ltac:(lia)) as E3.
    pose proof (Z.mod_pos_bound z 256 ltac:(lia)) as B0. pose proof (Z.mod_pos_bound (z / 256) 256 ltac:(lia)) as B1.
    pose proof (Z.mod_pos_bound (z / 256 / 256) 256 ltac:(lia)) as B2.
    pose proof (Z.mod_pos_bound (z / 256 / 256 / 256) 256 ltac:(lia)) as B3.
    assert (M : (z mod 4294967296 = (((z / 256 / 256 / 256) mod 256 * 256 + (z / 256 / 256) mod 256) * 256
                                     + (z / 256) mod 256) * 256 + z mod 256)%Z).
    { symmetry. apply (Z.mod_unique z 4294967296 (z / 256 / 256 / 256 / 256)); lia. }
    rewrite M. lia. }
  rewrite E. symmetry. apply (proj1 (be32_dec32 _ _ _ _ (byte_of_lt _) (byte_of_lt _) (byte_of_lt _) (byte_of_lt _))).
Qed.

Lemma wfits16_eq z : W.fits16 z = fits16 z.
Proof.
  unfold W.fits16, fits16. f_equal.
  destruct (Z.leb_spec z 32767), (Z.ltb_spec z 32768); try reflexivity; lia.
Qed.
Lemma wfits32_eq z : WE.fits32 z = fits32 z.
Proof.
  unfold WE.fits32, fits32. f_equal.
  destruct (Z.leb_spec z 2147483647), (Z.ltb_spec z 2147483648); try reflexivity; lia.
Qed.

(* ---------------------------------------------------------------------------------------------- *)
(* (b) Plain entries *)
Lemma all_bytesb_spec bs : all_bytesb bs = true <-> is_bytes bs.
Proof.
  unfold all_bytesb, is_bytes. rewrite forallb_forall, Forall_forall. split; intros H x Hx; specialize (H x Hx).
  - apply N.ltb_lt. exact H.
  - apply N.ltb_lt. exact H.
Qed.

Lemma try_get_nil t : try_get [] t = Err.
Proof. reflexivity. Qed.

Lemma skipn2_be16 v (x : list N) : skipn 2 (be16 v ++ x) = x.
Proof. reflexivity. Qed.
Lemma skipn2_bei16 v (x : list N) : skipn 2 (bei16 v ++ x) = x.
Proof. reflexivity. Qed.

Ltac ops_tail IH H B :=
  match type of H with
  | bind (dec_ops [] 0 ?rs ?s1) _ = Ok _ =>
    let os := fresh "os" in let s2 := fresh "s2" in let ED := fresh "ED" in
    destruct (dec_ops [] 0 rs s1) as [[os s2]|] eqn:ED; [|discriminate]; cbn [bind] in H; injection H as <- <-;
    let b := fresh "b" in let HE := fresh "HE" in
    destruct (IH _ _ _ ED B) as (b & -> & HE)
  end.

(* operands: what dec_ops accepts (with the empty label set: no branch operand) is re-encoded by
   enc_ops, with the ignored bytes taken from the input, at every position and layout *)
Lemma enc_ops_fill : forall rs s ops s',
  dec_ops [] 0 rs s = Ok (ops, s') -> is_bytes s ->
  exists b, s = b ++ s' /\
    forall posf pos (ix : N -> nat), enc_ops posf pos (fill_of rs s) rs (map (map_op ix) ops) = Some b.
Proof.
  induction rs as [|r rs IH]; intros s ops s' H B.
  - cbn [dec_ops] in H. injection H as <- <-. exists []. split; reflexivity.
  - destruct r; cbn [dec_ops] in H.
    + (* RU8 *) bstep H B v s1. apply (rd_u8_inv _ _ _ E) in B. destruct B as (-> & Hv & B). ops_tail IH H B.
      exists (v :: b). split; [reflexivity|]. intros posf pos ix.
      cbn [map map_op enc_ops enc_op fill_of rd_len]. change (N.to_nat 1) with 1%nat. cbn [skipn].
      apply N.ltb_lt in Hv. rewrite Hv, HE. reflexivity.
    + (* RI8 *) bstep H B v s1. apply (rd_i8_inv _ _ _ E) in B. destruct B as (-> & Hv & B). ops_tail IH H B.
      exists (u8 v :: b). split; [reflexivity|]. intros posf pos ix.
      cbn [map map_op enc_ops enc_op fill_of rd_len]. change (N.to_nat 1) with 1%nat. cbn [skipn].
      rewrite Hv, HE. reflexivity.
    + (* RI16 *) bstep H B v s1. apply (rd_i16_inv _ _ _ E) in B. destruct B as (-> & Hv & B). ops_tail IH H B.
      exists (bei16 v ++ b). split; [rewrite app_assoc; reflexivity|]. intros posf pos ix.
      cbn [map map_op enc_ops enc_op fill_of rd_len]. change (N.to_nat 2) with 2%nat.
      rewrite skipn2_bei16. rewrite Hv, HE. reflexivity.
    + (* RLv8 *) bstep H B v s1. apply (rd_u8_inv _ _ _ E) in B. destruct B as (-> & Hv & B). ops_tail IH H B.
      exists (v :: b). split; [reflexivity|]. intros posf pos ix.
      cbn [map map_op enc_ops enc_op fill_of rd_len]. change (N.to_nat 1) with 1%nat. cbn [skipn].
      apply N.ltb_lt in Hv. rewrite Hv, HE. reflexivity.
    + (* RLv16 *) bstep H B v s1. apply (rd_u16_inv _ _ _ E) in B. destruct B as (-> & Hv & B). ops_tail IH H B.
      exists (be16 v ++ b). split; [rewrite app_assoc; reflexivity|]. intros posf pos ix.
      cbn [map map_op enc_ops enc_op fill_of rd_len]. change (N.to_nat 2) with 2%nat.
      rewrite skipn2_be16. apply N.ltb_lt in Hv. rewrite Hv, HE. reflexivity.
    + (* RBr16: no label exists *) bstep H B off s1.
      destruct (br_target 0 off) as [t|]; [|discriminate]. cbn [bind] in H. rewrite try_get_nil in H. discriminate.
    + (* RBr32 *) bstep H B off s1.
      destruct (br_target 0 off) as [t|]; [|discriminate]. cbn [bind] in H. rewrite try_get_nil in H. discriminate.
    + (* RSkip8 *) bstep H B v s1. apply (rd_u8_inv _ _ _ E) in B. destruct B as (-> & Hv & B).
      destruct (IH _ _ _ H B) as (b & -> & HE). exists (v :: b). split; [reflexivity|]. intros posf pos ix.
      cbn [enc_ops fill_of hd tl]. rewrite HE. reflexivity.
    + (* RAtype *) bstep H B v s1. apply (rd_u8_inv _ _ _ E) in B. destruct B as (-> & Hv & B).
      destruct (mem_N v atypes) eqn:M; [|discriminate]. ops_tail IH H B.
      exists (v :: b). split; [reflexivity|]. intros posf pos ix.
      cbn [map map_op enc_ops enc_op fill_of rd_len]. change (N.to_nat 1) with 1%nat. cbn [skipn].
      rewrite M, HE. reflexivity.
    + (* RCp8 *) bstep H B v s1. apply (rd_u8_inv _ _ _ E) in B. destruct B as (-> & Hv & B). ops_tail IH H B.
      exists (v :: b). split; [reflexivity|]. intros posf pos ix.
      cbn [map map_op enc_ops enc_op fill_of rd_len]. change (N.to_nat 1) with 1%nat. cbn [skipn].
      apply N.ltb_lt in Hv. rewrite N.eqb_refl, Hv, HE. reflexivity.
    + (* RCp16 *) bstep H B v s1. apply (rd_u16_inv _ _ _ E) in B. destruct B as (-> & Hv & B). ops_tail IH H B.
      exists (be16 v ++ b). split; [rewrite app_assoc; reflexivity|]. intros posf pos ix.
      cbn [map map_op enc_ops enc_op fill_of rd_len]. change (N.to_nat 2) with 2%nat.
      rewrite skipn2_be16. apply N.ltb_lt in Hv. rewrite N.eqb_refl, Hv, HE. reflexivity.
Qed.

Lemma plain_ops_enc ctor rs r i : plain_ops ctor rs r = Some i -> is_bytes r ->
  exists ops, i = Gen ctor ops /\ forall posf pos, enc_ops posf pos (fill_of rs r) rs ops = Some r.
Proof.
  unfold plain_ops. intros H B.
  destruct (dec_ops [] 0 rs r) as [[ops [|x s']]|] eqn:ED; try discriminate. injection H as <-.
  destruct (enc_ops_fill _ _ _ _ ED B) as (b & E & HE). rewrite app_nil_r in E. subst b.
  exists (map (map_op zN) ops). split; [reflexivity|]. intros posf pos. apply HE.
Qed.

(* THE PLAIN LEMMA: at every position and under every layout, C01's encoder maps the decoded
   instruction, under the choice read off the bytes, to exactly the bytes of the Plain entry *)
Lemma plain_enc bs i : plain_insn bs = Some i -> is_bytes bs ->
  forall posf pos, enc1 posf pos (plain_choice bs) i = Some bs.
Proof.
  intros H B posf pos. unfold plain_insn in H. unfold plain_choice.
  destruct bs as [|op r]; [discriminate|]. apply is_bytes_cons in B. destruct B as [Hop B].
  pose proof (special_all op) as SP. unfold special_ok in SP.
  destruct (pass2_entry op) as [ctor rs|ctor idx| | | |] eqn:E2; try discriminate.
  - destruct (plain_ops_enc _ _ _ _ H B) as (ops & -> & HE).
    unfold enc1. cbn [c_form c_fill]. rewrite E2, N.eqb_refl, HE. reflexivity.
  - destruct r; [|discriminate]. injection H as <-.
    unfold enc1, fp. cbn [c_form c_fill]. rewrite E2, !N.eqb_refl. reflexivity.
  - apply N.eqb_eq in SP. subst op. destruct r as [|sub r1]; [discriminate|].
    apply is_bytes_cons in B. destruct B as [Hsub B].
    destruct (pass2_wide_entry sub) as [ctor rs|? ?| | | |] eqn:EW; try discriminate.
    destruct (plain_ops_enc _ _ _ _ H B) as (ops & -> & HE).
    unfold enc1. cbn [c_form c_fill]. rewrite EW, N.eqb_refl, HE. reflexivity.
Qed.

Lemma plain_size bs i : plain_insn bs = Some i -> is_bytes bs ->
  forall pos, size (plain_choice bs) pos i = N.of_nat (length bs).
Proof.
  intros H B pos. symmetry. apply (enc1_length (fun _ => 0) pos (plain_choice bs) i bs). apply plain_enc; assumption.
Qed.

(* the decoded instruction has no branch target *)
Ltac rdstep H :=
  match type of H with
  | bind (?rd ?s) _ = Ok _ =>
    let v := fresh "v" in let s1 := fresh "s1" in
    destruct (rd s) as [[v s1]|]; [|discriminate]; cbn [bind] in H
  end.
Lemma dec_ops_nil_targets : forall rs s ops s',
  dec_ops [] 0 rs s = Ok (ops, s') -> flat_map op_targets (map (map_op zN) ops) = [].
Proof.
  induction rs as [|q rs IH]; intros s ops s' H.
  - cbn [dec_ops] in H. injection H as <- <-. reflexivity.
  - destruct q; cbn [dec_ops] in H; rdstep H;
      try (destruct (br_target 0 v) as [t|]; [|discriminate]; cbn [bind] in H; rewrite try_get_nil in H; discriminate);
      try (destruct (mem_N v atypes); [|discriminate]);
      first [ exact (IH _ _ _ H)
            | match type of H with
              | bind (dec_ops [] 0 rs ?s1) _ = Ok _ =>
                let ED := fresh "ED" in
                destruct (dec_ops [] 0 rs s1) as [[os s2]|] eqn:ED; [|discriminate]; cbn [bind] in H; injection H as <- <-;
                cbn [map map_op flat_map op_targets app]; exact (IH _ _ _ ED)
              end ].
Qed.

Lemma plain_targets bs i : plain_insn bs = Some i -> targets i = [].
Proof.
  intros H. unfold plain_insn in H. destruct bs as [|op r]; [discriminate|].
  assert (G : forall ctor rs r0, plain_ops ctor rs r0 = Some i -> targets i = []).
  { intros ctor rs r0 HP. unfold plain_ops in HP.
    destruct (dec_ops [] 0 rs r0) as [[ops [|x s']]|] eqn:ED; try discriminate. injection HP as <-.
    cbn [targets]. apply (dec_ops_nil_targets _ _ _ _ ED). }
  destruct (pass2_entry op) as [ctor rs|ctor idx| | | |]; try discriminate.
  - apply (G _ _ _ H).
  - destruct r; [|discriminate]. injection H as <-. reflexivity.
  - destruct r as [|sub r1]; [discriminate|].
    destruct (pass2_wide_entry sub) as [ctor rs|? ?| | | |]; try discriminate. apply (G _ _ _ H).
Qed.

(* the translation of a Plain entry is C01's own second-pass decoder [dec1] run on the bytes *)
Lemma plain_insn_dec1 bs i : plain_insn bs = Some i ->
  exists i0 n, dec1 [] 0 bs = Ok (i0, n, []) /\ i = map_insn zN i0.
Proof.
  unfold plain_insn, dec1. destruct bs as [|op r]; [discriminate|].
  destruct (pass2_entry op) as [ctor rs|ctor idx| | | |] eqn:E2; try discriminate.
  - unfold plain_ops, dec_entry. destruct (dec_ops [] 0 rs r) as [[ops [|x s']]|]; try discriminate.
    intros [= <-]. cbn [bind]. eexists _, _. split; reflexivity.
  - destruct r; [|discriminate]. intros [= <-]. unfold dec_entry. eexists _, _. split; reflexivity.
  - destruct r as [|sub r1]; [discriminate|].
    destruct (pass2_wide_entry sub) as [ctor rs|? ?| | | |]; try discriminate.
    unfold plain_ops, dec_entry. destruct (dec_ops [] 0 rs r1) as [[ops [|x s']]|]; try discriminate.
    intros [= <-]. cbn [bind]. eexists _, _. split; reflexivity.
Qed.
