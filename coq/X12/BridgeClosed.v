(* X12 — bridge, part 31: THE CLOSED FORM OF build_class's INTERPRETATION STEP, layer by layer.
   BridgeKinds.class_file_read_all says   read_class (written bytes) = build_class (pool as read) (explicit values).
   Here C01's interpretation step is computed as well (BridgeFold.v), so that the right-hand side is a DIRECT translation
   of the tree's facts into C01's description vocabulary and mentions neither build_class nor the pool:
     layer 1  class head (version, flags, this / super / interfaces)                      — every tree
     layer 2  fields (flags, name, descriptor, slots, unknown attributes)                  — every tree
     layer 3  methods: flags, name, descriptor of every method; everything of a method without Code
     layer 4  class-level attributes (Record with its components; BootstrapMethods absent)
   Together: for a tree whose decoded facts hold no Code and no BootstrapMethods attribute (interfaces, annotation
   types, abstract classes, module-info, records' headers), read_class (written bytes) = Ok (tr_class …)  — no
   build_class, no pool.  For every tree: whatever read_class answers has the translated head, the translated fields
   and the translated method headers (and, method by method, the translated method when it has no Code). *)
From Coq Require Import List NArith ZArith Bool Lia.
From FB Require Import C02.Model C02.Encode C02.Theory2 C02.Theory8 C02.Frames C02.Class C02.Decode C02.Facts
  C02.TheoryC1 C02.TheoryC2 C02.TheoryC3 C02.TheoryC8.
From FB Require C01.Bytes C01.Pool C01.Attr C01.Tables C01.Fmt C01.Formats C01.ClassFile C01.Mutf8.
From FB Require X12.BridgePool X12.BridgeFold.
From FB Require Import X12.BridgeClass X12.BridgeMembers X12.BridgeCode X12.BridgeFmt X12.BridgeDyn X12.BridgeFile X12.BridgeFmt2
  X12.BridgeFile2 X12.BridgeFrames X12.BridgeFile3 X12.BridgeUnknown X12.BridgeFmt3 X12.BridgeFile4 X12.BridgeAnnot X12.BridgeModule
  X12.BridgeRecord X12.BridgeFile5 X12.BridgeTypeAnn X12.BridgeFile6 X12.BridgeKinds.
Import ListNotations.
Local Open Scope Z_scope.
Module BF := FB.X12.BridgeFold.

(* ---- the values of the attributes that are given relationally in the whole-file theorem, where they are functions ---- *)
Definition is_acode (a : dattr) : bool := match a with ACode _ => true | _ => false end.
Definition is_absm (a : dattr) : bool := match a with ABootstrapMethods _ => true | _ => false end.
Definition mattr_val6 (dec : RB.bytes -> res str) (a : dattr) : RF.val :=
  match a with
  | ALeaf (ATypeAnnotations vis l) => v_TypeAnnotations dec vis l
  | ALeaf (AAnnotations vis l) => v_Annotations dec vis l
  | ALeaf (AUnknown nb b) => v_Unknown dec nb b
  | AAnnotationDefault e => v_AnnotationDefault dec e
  | AMethodParameters l => v_MethodParameters dec l
  | _ => mattr_val2 dec a
  end.
Definition cattr_val6 (dec : RB.bytes -> res str) (a : dattr) : RF.val :=
  match a with
  | ALeaf (ATypeAnnotations vis l) => v_TypeAnnotations dec vis l
  | ALeaf (AAnnotations vis l) => v_Annotations dec vis l
  | ALeaf (AUnknown nb b) => v_Unknown dec nb b
  | ASourceDebugExtension b => v_SDE dec b
  | ARecord l => v_Record6 dec l
  | AModule m => v_Module dec m
  | AModulePackages l => v_ModulePackages dec l
  | AModuleMainClass c => v_ModuleMainClass dec c
  | AEnclosingMethod c m => v_EnclosingMethod dec c m
  | APermittedSubclasses l => v_PermittedSubclasses dec l
  | _ => cattr_val2 dec a
  end.
Lemma mrel6_val dec a v : is_acode a = false -> mrel6 dec a v -> v = mattr_val6 dec a.
Proof. intros Hc H. destruct a; try discriminate Hc; try exact H. destruct a; exact H. Qed.
Lemma crel6_val dec cs a v : is_absm a = false -> crel6 dec cs a v -> v = cattr_val6 dec a.
Proof. intros Hc H. destruct a; try discriminate Hc; try exact H. destruct a; exact H. Qed.

Lemma Forall2_map_eq {A B} (R : A -> B -> Prop) (f : A -> B) l l' :
  Forall2 R l l' -> (forall a v, In a l -> R a v -> v = f a) -> l' = map f l.
Proof.
  induction 1 as [|a v l l' Hav _ IH]; intros Hf; [reflexivity|]. cbn [map].
  rewrite (Hf a v (or_introl eq_refl) Hav), IH; [reflexivity|]. intros a0 v0 Hin. apply Hf. right. exact Hin.
Qed.
Definition no_code (m : dmember) : bool := forallb (fun a => negb (is_acode a)) (dm_attrs m).
Lemma member_rel_val dec m v : no_code m = true -> member_rel dec 2%N (mrel6 dec) m v -> v = member_val dec 2%N (mattr_val6 dec) m.
Proof.
  intros Hn (avs & -> & F). unfold member_val. unfold no_code in Hn. rewrite forallb_forall in Hn.
  assert (Ea : avs = map (mattr_val6 dec) (dm_attrs m)); [|rewrite Ea; reflexivity].
  apply (Forall2_map_eq _ _ _ _ F). intros a v Hin Hr. apply mrel6_val; [|exact Hr].
  apply negb_true_iff. exact (Hn a Hin).
Qed.

(* ---- layer 1: the head ---- *)
Lemma head_closed dec t :
  R.head_parts (head_val dec t)
  = Some (RA.access_back 0 (Z.to_N (k_access t)), BP.sdec dec (k_name t),
          option_map (fun n => RP.VClass (BP.sdec dec n)) (k_super t), map (cls dec) (k_interfaces t)).
Proof. reflexivity. Qed.
Lemma super_closed dec (o : option bytes) :
  R.super_name (option_map (fun n => RP.VClass (BP.sdec dec n)) o) = Ok (option_map (BP.sdec dec) o).
Proof. destruct o; reflexivity. Qed.
Lemma itfs_closed dec (l : list bytes) : RP.map_res R.class_name (map (cls dec) l) = Ok (map (BP.sdec dec) l).
Proof. induction l as [|x l IH]; [reflexivity|]. cbn [map RP.map_res]. unfold cls at 1. cbn [R.class_name Base.Str.bind]. rewrite IH. reflexivity. Qed.

(* ---- the translation ---- *)
Definition field_vals (dec : RB.bytes -> res str) (d : dclass) : list RF.val := map (member_val dec 1%N (fattr_val6 dec)) (d_fields d).
Definition method_val (dec : RB.bytes -> res str) (m : dmember) : RF.val := member_val dec 2%N (mattr_val6 dec) m.
Definition class_vals (dec : RB.bytes -> res str) (d : dclass) : list RF.val := map (cattr_val6 dec) (d_attrs d).
(* a field / a method without Code, in C01's description vocabulary *)
Definition tr_field (impl : bool) (dec : RB.bytes -> res str) (f : dmember) : R.member_desc :=
  BF.member_closed impl 1%N (member_val dec 1%N (fattr_val6 dec) f).
Definition tr_method (impl : bool) (dec : RB.bytes -> res str) (m : dmember) : R.member_desc :=
  BF.member_closed impl 2%N (method_val dec m).
Definition tr_class (impl : bool) (dec : RB.bytes -> res str) (t : cclass) (d : dclass) : R.class_desc :=
  {| R.cd_minor := Z.to_N (k_minor t); R.cd_major := Z.to_N (k_major t);
     R.cd_access := RA.access_back 0 (Z.to_N (k_access t));
     R.cd_this := BP.sdec dec (k_name t); R.cd_super := option_map (BP.sdec dec) (k_super t);
     R.cd_interfaces := map (BP.sdec dec) (k_interfaces t);
     R.cd_fields := map (tr_field impl dec) (d_fields d);
     R.cd_methods := map (tr_method impl dec) (d_methods d);
     R.cd_slots := flat_map (BF.slot_ofa impl 0%N) (class_vals dec d);
     R.cd_unknown := flat_map (BF.unk_of impl 0%N) (class_vals dec d) |}.

(* ---- the decidable side conditions: no known attribute name twice at one location ---- *)
Definition fields_once (impl : bool) (dec : RB.bytes -> res str) (d : dclass) : bool :=
  forallb (fun f => BF.member_once impl 1%N (member_val dec 1%N (fattr_val6 dec) f)) (d_fields d).
Definition method_once (impl : bool) (dec : RB.bytes -> res str) (m : dmember) : bool := BF.member_once impl 2%N (method_val dec m).
Definition class_once (impl : bool) (dec : RB.bytes -> res str) (d : dclass) : bool :=
  BF.once_oka impl 0%N [] false (class_vals dec d).
Definition codeless (d : dclass) : bool :=
  forallb no_code (d_methods d) && forallb (fun a => negb (is_absm a)) (d_attrs d).

(* ---- layer 2: fields ---- *)
Theorem fields_closed impl dec p b d : fields_once impl dec d = true ->
  RP.map_res (R.build_member impl p b 1%N) (field_vals dec d) = Ok (map (tr_field impl dec) (d_fields d)).
Proof.
  intros H. unfold field_vals. rewrite (BF.map_res_closed (R.build_member impl p b 1%N) (BF.member_closed impl 1%N)).
  - rewrite map_map. reflexivity.
  - intros x Hx. apply in_map_iff in Hx. destruct Hx as (f & <- & Hf). apply BF.build_member_closed.
    unfold fields_once in H. rewrite forallb_forall in H. exact (H f Hf).
Qed.

(* ---- layer 3: methods ---- *)
Theorem method_closed impl dec p b m : method_once impl dec m = true ->
  R.build_member impl p b 2%N (method_val dec m) = Ok (tr_method impl dec m).
Proof. intros H. apply BF.build_member_closed. exact H. Qed.
Lemma build_member_header impl p b ctx a n de avs md :
  R.build_member impl p b ctx (RF.VSeq [RF.VN a; RF.VC (RP.VUtf8 n); RF.VC (RP.VUtf8 de); RF.VList avs]) = Ok md ->
  R.md_access md = a /\ R.md_name md = n /\ R.md_desc md = de.
Proof.
  unfold R.build_member. cbn [R.member_parts].
  destruct (R.fold_attrs (R.apply_attr impl p b ctx) R.st_empty avs) as [st|]; [|discriminate].
  cbn [Base.Str.bind]. intros [= <-]. repeat split.
Qed.
Definition method_sees (impl : bool) (dec : RB.bytes -> res str) (m : dmember) (md : R.member_desc) : Prop :=
  R.md_access md = RA.access_back 2 (Z.to_N (dm_access m)) /\ R.md_name md = BP.sdec dec (dm_name m) /\
  R.md_desc md = BP.sdec dec (dm_desc m) /\
  (no_code m = true -> method_once impl dec m = true -> md = tr_method impl dec m).
Lemma methods_seen impl dec p b : forall ms mvals mds,
  Forall2 (member_rel dec 2%N (mrel6 dec)) ms mvals -> RP.map_res (R.build_member impl p b 2%N) mvals = Ok mds ->
  Forall2 (method_sees impl dec) ms mds.
Proof.
  induction ms as [|m ms IH]; intros mvals mds F E; inversion F as [|m' v ms' vs Hv Hvs]; subst.
  - cbn [RP.map_res] in E. injection E as <-. constructor.
  - cbn [RP.map_res] in E. destruct (R.build_member impl p b 2%N v) as [md|] eqn:E1; [|discriminate]. cbn [Base.Str.bind] in E.
    destruct (RP.map_res (R.build_member impl p b 2%N) vs) as [mds'|] eqn:E2; [|discriminate]. cbn [Base.Str.bind] in E.
    injection E as <-. constructor; [|exact (IH _ _ Hvs E2)].
    pose proof Hv as Hv0. destruct Hv as (avs & -> & Fa).
    destruct (build_member_header _ _ _ _ _ _ _ _ _ E1) as (A1 & A2 & A3).
    split; [exact A1|]. split; [exact A2|]. split; [exact A3|]. intros Hn Ho.
    pose proof (member_rel_val dec m _ Hn Hv0) as Ev. rewrite Ev in E1. fold (method_val dec m) in E1.
    rewrite (method_closed impl dec p b m Ho) in E1. injection E1 as <-. reflexivity.
Qed.

(* ---- layer 4: the class-level attributes, BootstrapMethods absent ---- *)
Lemma class_vals_rel dec cs d cattrs : forallb (fun a => negb (is_absm a)) (d_attrs d) = true ->
  Forall2 (crel6 dec cs) (d_attrs d) cattrs -> cattrs = class_vals dec d.
Proof.
  intros Hn F. apply (Forall2_map_eq _ _ _ _ F). intros a v Hin Hr. apply (crel6_val dec cs); [|exact Hr].
  rewrite forallb_forall in Hn. apply negb_true_iff. exact (Hn a Hin).
Qed.
Theorem class_attrs_closed impl dec p d : class_once impl dec d = true ->
  R.fold_attrs (R.apply_attr impl p [] 0%N) R.st_empty (class_vals dec d)
  = Ok (BF.st_adda R.st_empty (flat_map (BF.slot_ofa impl 0%N) (class_vals dec d)) (flat_map (BF.unk_of impl 0%N) (class_vals dec d))
          (existsb (BF.is_record impl 0%N) (class_vals dec d))).
Proof. intros H. exact (BF.fold_attr_closed impl p [] 0%N (class_vals dec d) R.st_empty H). Qed.

(* the slots of the class when no BootstrapMethods attribute is among the values *)
Lemma slot_del_fresh n l : RA.mem_str n (map fst l) = false -> R.slot_del n l = l.
Proof.
  induction l as [|[k v] l IH]; intros H; [reflexivity|]. cbn [R.slot_del].
  rewrite (BF.mem_str_false_in _ _ H k (or_introl eq_refl)). f_equal. apply IH.
  unfold RA.mem_str in *. cbn [map existsb] in H. apply orb_false_elim in H. exact (proj2 H).
Qed.
Definition no_bsm_slot (impl : bool) (dec : RB.bytes -> res str) (d : dclass) : bool :=
  negb (RA.mem_str RFo.a_BootstrapMethods (map fst (flat_map (BF.slot_ofa impl 0%N) (class_vals dec d)))).

(* ---------------------------------------------------------------------------------------------- *)
(* THE CLOSED FORM for a class without Code and without BootstrapMethods: no build_class, no pool *)
Theorem read_class_codeless_closed impl dec t bs aux d :
  cclass_ok t = true -> write_class_aux t = WOK (bs, aux) ->
  RA.header_ok FB.C01.Tables.magic (Z.to_N (k_minor t)) (Z.to_N (k_major t)) = true ->
  pool_utf8_ok dec (a_pool aux) = true -> names_ok6 dec = true ->
  facts_of t aux = Some d -> dclass_side6 impl dec d = true ->
  codeless d = true -> class_once impl dec d = true -> no_bsm_slot impl dec d = true ->
  fields_once impl dec d = true -> forallb (method_once impl dec) (d_methods d) = true ->
  R.read_class impl dec bs = Ok (tr_class impl dec t d).
Proof.
  intros Hok Hw Hgate Hdec Hn Hd Hs Hcl Hco Hnb Hfo Hmo.
  destruct (class_file_read_all impl dec t bs aux d Hok Hw Hgate Hdec Hn Hd Hs) as (cs & cattrs & mvals & _ & _ & Rc & Rm & E).
  rewrite E. unfold codeless in Hcl. apply andb_prop in Hcl. destruct Hcl as [Hnc Hnbs].
  rewrite (class_vals_rel dec cs d cattrs Hnbs Rc).
  assert (Em : mvals = map (method_val dec) (d_methods d)).
  { apply (Forall2_map_eq _ _ _ _ Rm). intros m v Hin Hr. rewrite forallb_forall in Hnc. exact (member_rel_val dec m v (Hnc m Hin) Hr). }
  rewrite Em. unfold R.build_class. rewrite head_closed. cbn [R.list_of]. rewrite super_closed. cbn [Base.Str.bind].
  rewrite itfs_closed. cbn [Base.Str.bind]. rewrite (class_attrs_closed impl dec _ d Hco). cbn [Base.Str.bind].
  unfold BF.st_adda. cbn [R.st_slots R.st_unknown R.st_empty app].
  unfold no_bsm_slot in Hnb. apply negb_true_iff in Hnb.
  rewrite (BF.slot_list_fresh _ _ Hnb). cbn [RP.map_res Base.Str.bind].
  fold (field_vals dec d). rewrite (fields_closed impl dec _ [] d Hfo). cbn [Base.Str.bind].
  rewrite (BF.map_res_closed (R.build_member impl (BP.rpool dec cs) [] 2%N) (BF.member_closed impl 2%N)).
  2:{ intros x Hx. apply in_map_iff in Hx. destruct Hx as (m & <- & Hm). apply BF.build_member_closed.
      rewrite forallb_forall in Hmo. exact (Hmo m Hm). }
  cbn [Base.Str.bind]. rewrite (slot_del_fresh _ _ Hnb). unfold tr_class, tr_method. rewrite map_map. reflexivity.
Qed.

(* EVERY TREE: what read_class answers has the translated head, fields and method headers, and the translated method
   wherever a method has no Code *)
Theorem read_class_closed_parts impl dec t bs aux d cd :
  cclass_ok t = true -> write_class_aux t = WOK (bs, aux) ->
  RA.header_ok FB.C01.Tables.magic (Z.to_N (k_minor t)) (Z.to_N (k_major t)) = true ->
  pool_utf8_ok dec (a_pool aux) = true -> names_ok6 dec = true ->
  facts_of t aux = Some d -> dclass_side6 impl dec d = true -> fields_once impl dec d = true ->
  R.read_class impl dec bs = Ok cd ->
  R.cd_minor cd = Z.to_N (k_minor t) /\ R.cd_major cd = Z.to_N (k_major t) /\
  R.cd_access cd = RA.access_back 0 (Z.to_N (k_access t)) /\ R.cd_this cd = BP.sdec dec (k_name t) /\
  R.cd_super cd = option_map (BP.sdec dec) (k_super t) /\ R.cd_interfaces cd = map (BP.sdec dec) (k_interfaces t) /\
  R.cd_fields cd = map (tr_field impl dec) (d_fields d) /\
  Forall2 (method_sees impl dec) (d_methods d) (R.cd_methods cd).
Proof.
  intros Hok Hw Hgate Hdec Hn Hd Hs Hfo Er.
  destruct (class_file_read_all impl dec t bs aux d Hok Hw Hgate Hdec Hn Hd Hs) as (cs & cattrs & mvals & _ & _ & Rc & Rm & E).
  rewrite E in Er. unfold R.build_class in Er. rewrite head_closed in Er. cbn [R.list_of] in Er. rewrite super_closed in Er.
  cbn [Base.Str.bind] in Er. rewrite itfs_closed in Er. cbn [Base.Str.bind] in Er.
  destruct (R.fold_attrs (R.apply_attr impl (BP.rpool dec cs) [] 0%N) R.st_empty cattrs) as [st|]; [|discriminate]. cbn [Base.Str.bind] in Er.
  destruct (RP.map_res R.bsm_entry (R.slot_list RFo.a_BootstrapMethods (R.st_slots st))) as [b|]; [|discriminate]. cbn [Base.Str.bind] in Er.
  fold (field_vals dec d) in Er. rewrite (fields_closed impl dec _ b d Hfo) in Er. cbn [Base.Str.bind] in Er.
  destruct (RP.map_res (R.build_member impl (BP.rpool dec cs) b 2%N) mvals) as [mds|] eqn:Em; [|discriminate]. cbn [Base.Str.bind] in Er.
  injection Er as <-. cbn [R.cd_minor R.cd_major R.cd_access R.cd_this R.cd_super R.cd_interfaces R.cd_fields R.cd_methods].
  repeat (split; [reflexivity|]). exact (methods_seen impl dec _ b _ _ _ Rm Em).
Qed.

(* ---------------------------------------------------------------------------------------------- *)
(* non-vacuity: the class of BridgeFile6 with its method made abstract (no Code, hence no BootstrapMethods): every
   hypothesis of the closed form holds, and the 12 class-level slots include the Record with its component *)
Definition ex_codeless : cclass := {|
  k_minor := k_minor ex_file6; k_major := k_major ex_file6; k_access := k_access ex_file6;
  k_name := k_name ex_file6; k_super := k_super ex_file6; k_interfaces := [xb_I; xb_O];
  k_fields := k_fields ex_file6;
  k_methods := map (fun m => {| md_access := 1025; md_name := md_name m; md_desc := md_desc m; md_deprecated := true;
                                md_synthetic := md_synthetic m; md_code := None; md_exceptions := Some [xb_O];
                                md_signature := md_signature m; md_annots := md_annots m; md_default := md_default m;
                                md_parameters := md_parameters m; md_unknown := md_unknown m |}) (k_methods ex_file6);
  k_deprecated := true; k_synthetic := k_synthetic ex_file6; k_inner := k_inner ex_file6;
  k_enclosing := k_enclosing ex_file6; k_signature := Some xb_sig; k_source_file := k_source_file ex_file6;
  k_source_debug := k_source_debug ex_file6; k_annots := k_annots ex_file6;
  k_module := k_module ex_file6; k_module_packages := k_module_packages ex_file6; k_module_main := k_module_main ex_file6;
  k_nest_host := k_nest_host ex_file6; k_nest_members := k_nest_members ex_file6; k_permitted := k_permitted ex_file6;
  k_record := k_record ex_file6; k_unknown := k_unknown ex_file6 |}.

Theorem codeless_example : exists bs aux d,
  write_class_aux ex_codeless = WOK (bs, aux) /\ cclass_ok ex_codeless = true /\ facts_of ex_codeless aux = Some d /\
  pool_utf8_ok FB.C01.Mutf8.mutf8_dec (a_pool aux) = true /\ dclass_side6 true FB.C01.Mutf8.mutf8_dec d = true /\
  codeless d = true /\ class_once true FB.C01.Mutf8.mutf8_dec d = true /\ no_bsm_slot true FB.C01.Mutf8.mutf8_dec d = true /\
  fields_once true FB.C01.Mutf8.mutf8_dec d = true /\ forallb (method_once true FB.C01.Mutf8.mutf8_dec) (d_methods d) = true /\
  R.read_class true FB.C01.Mutf8.mutf8_dec bs = Ok (tr_class true FB.C01.Mutf8.mutf8_dec ex_codeless d) /\
  length (R.cd_slots (tr_class true FB.C01.Mutf8.mutf8_dec ex_codeless d)) = 14%nat /\
  map (fun md => length (R.md_slots md)) (R.cd_methods (tr_class true FB.C01.Mutf8.mutf8_dec ex_codeless d)) = [7%nat] /\
  map (fun md => length (R.md_unknown md)) (R.cd_fields (tr_class true FB.C01.Mutf8.mutf8_dec ex_codeless d)) = [1%nat].
Proof.
  destruct (write_class_aux ex_codeless) as [[bs aux]|?c|] eqn:E; [|vm_compute in E; discriminate|vm_compute in E; discriminate].
  assert (Hok : cclass_ok ex_codeless = true) by (vm_compute; reflexivity).
  pose proof E as E0. vm_compute in E0. injection E0 as Ebs Eaux.
  assert (Hu : pool_utf8_ok FB.C01.Mutf8.mutf8_dec (a_pool aux) = true) by (rewrite <- Eaux; vm_compute; reflexivity).
  destruct (facts_of ex_codeless aux) as [d|] eqn:Hd; [|rewrite <- Eaux in Hd; vm_compute in Hd; discriminate].
  pose proof Hd as Hd0. rewrite <- Eaux in Hd0. vm_compute in Hd0. injection Hd0 as Ed.
  assert (H1 : dclass_side6 true FB.C01.Mutf8.mutf8_dec d = true) by (rewrite <- Ed; vm_compute; reflexivity).
  assert (H2 : codeless d = true) by (rewrite <- Ed; vm_compute; reflexivity).
  assert (H3 : class_once true FB.C01.Mutf8.mutf8_dec d = true) by (rewrite <- Ed; vm_compute; reflexivity).
  assert (H4 : no_bsm_slot true FB.C01.Mutf8.mutf8_dec d = true) by (rewrite <- Ed; vm_compute; reflexivity).
  assert (H5 : fields_once true FB.C01.Mutf8.mutf8_dec d = true) by (rewrite <- Ed; vm_compute; reflexivity).
  assert (H6 : forallb (method_once true FB.C01.Mutf8.mutf8_dec) (d_methods d) = true) by (rewrite <- Ed; vm_compute; reflexivity).
  exists bs, aux, d. repeat (split; [first [reflexivity|assumption]|]).
  split; [exact (read_class_codeless_closed true FB.C01.Mutf8.mutf8_dec ex_codeless bs aux d Hok E ltac:(vm_compute; reflexivity) Hu
                   ltac:(vm_compute; reflexivity) Hd H1 H2 H3 H4 H5 H6)|].
  rewrite <- Ed. vm_compute. repeat split.
Qed.

(* non-vacuity of read_class_closed_parts: the class of BridgeFile6 (a method with Code, frames, type annotations) *)
Theorem closed_parts_example : exists bs aux d cd,
  write_class_aux ex_file6 = WOK (bs, aux) /\ facts_of ex_file6 aux = Some d /\
  fields_once true FB.C01.Mutf8.mutf8_dec d = true /\ R.read_class true FB.C01.Mutf8.mutf8_dec bs = Ok cd /\
  codeless d = false.
Proof.
  destruct (write_class_aux ex_file6) as [[bs aux]|?c|] eqn:E; [|vm_compute in E; discriminate|vm_compute in E; discriminate].
  pose proof E as E0. vm_compute in E0. injection E0 as Ebs Eaux.
  destruct (facts_of ex_file6 aux) as [d|] eqn:Hd; [|rewrite <- Eaux in Hd; vm_compute in Hd; discriminate].
  pose proof Hd as Hd0. rewrite <- Eaux in Hd0. vm_compute in Hd0. injection Hd0 as Ed.
  destruct (R.read_class true FB.C01.Mutf8.mutf8_dec bs) as [cd|] eqn:Er; [|rewrite <- Ebs in Er; vm_compute in Er; discriminate].
  exists bs, aux, d, cd. split; [reflexivity|]. split; [exact Hd|]. split; [rewrite <- Ed; vm_compute; reflexivity|].
  split; [exact Er|]. rewrite <- Ed. vm_compute. reflexivity.
Qed.

(* ---------------------------------------------------------------------------------------------- *)
(* layer 5: THE Code ATTRIBUTE.  Every Code value of the whole-file theorem (code_rel6: max_stack, max_locals, code array,
   exception entries, inner attribute values related to the decoded attributes) meets BridgeFold.code_once when the decoded
   Code attribute holds at most one StackMapTable — so build_code on it is code_closed: the attribute bookkeeping computed,
   leaving C01's code-array reader on explicitly given tables and the resolution of pool operands *)
Lemma mem_str_sub n l1 l2 : forallb (fun x => RA.mem_str x l2) l1 = true -> RA.mem_str n l2 = false -> RA.mem_str n l1 = false.
Proof.
  intros Hs Hn. induction l1 as [|x l1 IH]; [reflexivity|]. cbn [forallb] in Hs. apply andb_prop in Hs. destruct Hs as [Hx Hs].
  unfold RA.mem_str. cbn [existsb]. fold (RA.mem_str n l1). rewrite (IH Hs), orb_false_r.
  destruct (str_eqb_spec n x) as [->|_]; [congruence|reflexivity].
Qed.
Lemma unk_policy impl dec nb ctx : (ctx < 5)%N -> unk_ok dec nb = true -> R.policy_of impl ctx (BP.sdec dec nb) = R.PUnknown.
Proof.
  intros Hc H. unfold unk_ok in H. apply negb_true_iff in H. unfold R.policy_of.
  rewrite (mem_str_sub _ (R.ctx_names ctx) known_names); [reflexivity| |exact H].
  destruct ctx as [|q]; [vm_compute; reflexivity|]. do 3 (destruct q as [q|q|]; try (vm_compute; reflexivity); try lia).
Qed.
Definition is_smt (a : dattr0) : bool := match a with AStackMapTable _ => true | _ => false end.
Definition smt_once (k : dcode) : bool := (length (filter is_smt (dc_attrs k)) <=? 1)%nat.
Lemma inner_code1 impl dec a v : innerb6 impl dec a = true -> inner_rel6 dec a v ->
  BF.code1 impl v = true /\ length (BF.frames_of impl [v]) = (if is_smt a then 1 else 0)%nat.
Proof.
  intros Hb Hr. destruct a; try discriminate Hb; cbn [inner_rel6 inner_rel4 inner_rel] in Hr.
  - subst v. destruct visible; split; reflexivity.
  - destruct Hr as (vs & ds & -> & _). split; reflexivity.
  - subst v. split; reflexivity.
  - subst v. split; reflexivity.
  - subst v. split; reflexivity.
  - subst v. cbn [innerb6 innerb4] in Hb. unfold v_Unknown, BF.code1, BF.frames_of. cbn [flat_map].
    rewrite (unk_policy impl dec name 3%N ltac:(lia) Hb). split; reflexivity.
Qed.
Lemma inner_code_once impl dec : forall attrs ivs, forallb (innerb6 impl dec) attrs = true -> Forall2 (inner_rel6 dec) attrs ivs ->
  forallb (BF.code1 impl) ivs = true /\ length (BF.frames_of impl ivs) = length (filter is_smt attrs).
Proof.
  induction attrs as [|a attrs IH]; intros ivs Hb F; inversion F as [|a' v l' vs Hv Hvs]; subst; [split; reflexivity|].
  cbn [forallb] in Hb. apply andb_prop in Hb. destruct Hb as [Ha Hb]. destruct (IH vs Hb Hvs) as [I1 I2].
  destruct (inner_code1 impl dec a v Ha Hv) as [C1 C2]. cbn [forallb]. rewrite C1, I1. split; [reflexivity|].
  rewrite (BF.frames_of_cons impl v vs), app_length, C2, I2. cbn [filter]. destruct (is_smt a); reflexivity.
Qed.
Theorem code_closed6 impl dec p b k cv :
  code_rel6 dec k cv -> forallb (innerb6 impl dec) (dc_attrs k) = true -> smt_once k = true ->
  exists ivs, Forall2 (inner_rel6 dec) (dc_attrs k) ivs /\ BF.code_once impl ivs = true /\
    R.build_code impl p b cv
    = BF.code_closed impl p b (Z.to_N (dc_max_stack k)) (Z.to_N (dc_max_locals k)) (dc_code k)
        (map (exc_val dec) (dc_exceptions k)) ivs.
Proof.
  intros (ivs & -> & F) Hb Hs. destruct (inner_code_once impl dec _ _ Hb F) as [I1 I2].
  assert (Ho : BF.code_once impl ivs = true). { unfold BF.code_once. rewrite I1, I2. exact Hs. }
  exists ivs. split; [exact F|]. split; [exact Ho|]. exact (BF.build_code_closed_gen impl p b _ _ _ _ ivs Ho).
Qed.

(* ---------------------------------------------------------------------------------------------- *)
(* layer 6: A METHOD WITH Code.  build_member on the method value of the whole-file theorem is
       do c <- code_closed …; Ok (flags, name, descriptor, the slots of the other attributes, Some c)
   — the only way it fails is that the code-array reader or the resolution of a pool operand fails *)
Fixpoint split_code (l : list dattr) : option (list dattr * dcode * list dattr) :=
  match l with
  | [] => None
  | ACode k :: r => Some ([], k, r)
  | a :: r => match split_code r with Some (x, k, y) => Some (a :: x, k, y) | None => None end
  end.
Lemma split_code_spec : forall l x k y, split_code l = Some (x, k, y) ->
  l = x ++ ACode k :: y /\ forallb (fun a => negb (is_acode a)) x = true.
Proof.
  induction l as [|a l IH]; intros x k y H; [discriminate|].
  destruct a; cbn [split_code] in H;
    try (destruct (split_code l) as [[[x' k'] y']|] eqn:E; [|discriminate]; injection H as <- <- <-;
         destruct (IH _ _ _ eq_refl) as [-> Hx]; split; [reflexivity|cbn [forallb is_acode negb andb]; exact Hx]).
  injection H as <- <- <-. split; reflexivity.
Qed.
Definition code_method_once (impl : bool) (dec : RB.bytes -> res str) (m : dmember) : bool :=
  match split_code (dm_attrs m) with
  | Some (a1, k, a2) =>
      forallb (fun a => negb (is_acode a)) a2 && smt_once k && BF.once_oka impl 2%N [] false (map (mattr_val6 dec) (a1 ++ a2))
  | None => false
  end.
Definition tr_method_code (impl : bool) (dec : RB.bytes -> res str) (m : dmember) (c : R.code_desc) : R.member_desc :=
  match split_code (dm_attrs m) with
  | Some (a1, _, a2) =>
      BF.member_closed_code impl 2%N (RA.access_back 2 (Z.to_N (dm_access m))) (BP.sdec dec (dm_name m)) (BP.sdec dec (dm_desc m))
        (map (mattr_val6 dec) (a1 ++ a2)) c
  | None => tr_method impl dec m
  end.
Lemma vals_no_code dec : forall a vs, forallb (fun x => negb (is_acode x)) a = true -> Forall2 (mrel6 dec) a vs -> vs = map (mattr_val6 dec) a.
Proof.
  intros a vs Hn F. apply (Forall2_map_eq _ _ _ _ F). intros x v Hin Hr. apply mrel6_val; [|exact Hr].
  rewrite forallb_forall in Hn. apply negb_true_iff. exact (Hn x Hin).
Qed.
Theorem method_code_closed impl dec p b m v a1 k a2 :
  split_code (dm_attrs m) = Some (a1, k, a2) -> code_method_once impl dec m = true ->
  forallb (innerb6 impl dec) (dc_attrs k) = true -> member_rel dec 2%N (mrel6 dec) m v ->
  exists ivs, Forall2 (inner_rel6 dec) (dc_attrs k) ivs /\ BF.code_once impl ivs = true /\
    R.build_member impl p b 2%N v
    = (Base.Str.bind (BF.code_closed impl p b (Z.to_N (dc_max_stack k)) (Z.to_N (dc_max_locals k)) (dc_code k)
                        (map (exc_val dec) (dc_exceptions k)) ivs)
         (fun c => Ok (tr_method_code impl dec m c))).
Proof.
  intros Hs Ho Hb (avs & -> & F). unfold code_method_once in Ho. unfold tr_method_code. rewrite Hs in *.
  apply andb_prop in Ho. destruct Ho as [Ho Hon]. apply andb_prop in Ho. destruct Ho as [Hn2 Hsm].
  destruct (split_code_spec _ _ _ _ Hs) as [Ea Hn1]. rewrite Ea in F.
  apply Forall2_app_inv_l in F. destruct F as (v1 & v2' & F1 & F2 & ->).
  inversion F2 as [|x cvA l2' v2 Hcv F3]; subst. cbn [mrel6] in Hcv. destruct Hcv as (cv & -> & Hrel).
  pose proof Hrel as Hrel0. destruct Hrel as (ivs & -> & Fi).
  destruct (inner_code_once impl dec _ _ Hb Fi) as [I1 I2].
  assert (Hco : BF.code_once impl ivs = true). { unfold BF.code_once. rewrite I1, I2. exact Hsm. }
  exists ivs. split; [exact Fi|]. split; [exact Hco|].
  rewrite (vals_no_code dec a1 v1 Hn1 F1), (vals_no_code dec a2 v2 Hn2 F3). rewrite map_app in Hon |- *.
  exact (BF.build_member_closed_code impl p b 2%N _ _ _ _ RFo.a_Code _ _ _ _ ivs _ eq_refl Hco Hon).
Qed.

(* EVERY TREE, methods with Code included: method by method, what read_class answers is tr_method (no Code) or
   tr_method_code with the code description c that code_closed returns on the decoded Code attribute — for the pool as
   read (rpool of the written entries) and the bootstrap table b the reader extracted *)
Definition method_sees_code (impl : bool) (dec : RB.bytes -> res str) (p : RP.pool) (b : RP.bsms) (m : dmember) (md : R.member_desc) : Prop :=
  forall a1 k a2, split_code (dm_attrs m) = Some (a1, k, a2) -> code_method_once impl dec m = true ->
    exists ivs c, Forall2 (inner_rel6 dec) (dc_attrs k) ivs /\ BF.code_once impl ivs = true /\
      BF.code_closed impl p b (Z.to_N (dc_max_stack k)) (Z.to_N (dc_max_locals k)) (dc_code k) (map (exc_val dec) (dc_exceptions k)) ivs = Ok c /\
      md = tr_method_code impl dec m c.
Lemma methods_seen_code impl dec p b : forall ms mvals mds,
  Forall (fun m => forallb (mattrb6 impl dec) (dm_attrs m) = true) ms ->
  Forall2 (member_rel dec 2%N (mrel6 dec)) ms mvals -> RP.map_res (R.build_member impl p b 2%N) mvals = Ok mds ->
  Forall2 (method_sees_code impl dec p b) ms mds.
Proof.
  induction ms as [|m ms IH]; intros mvals mds Hk F E; inversion F as [|m' v ms' vs Hv Hvs]; subst.
  - cbn [RP.map_res] in E. injection E as <-. constructor.
  - cbn [RP.map_res] in E. destruct (R.build_member impl p b 2%N v) as [md|] eqn:E1; [|discriminate]. cbn [Base.Str.bind] in E.
    destruct (RP.map_res (R.build_member impl p b 2%N) vs) as [mds'|] eqn:E2; [|discriminate]. cbn [Base.Str.bind] in E.
    injection E as <-. inversion Hk as [|m0 ms0 Hm Hms]; subst. constructor; [|exact (IH _ _ Hms Hvs E2)].
    intros a1 k a2 Hs Ho. destruct (split_code_spec _ _ _ _ Hs) as [Ea _].
    assert (Hb : forallb (innerb6 impl dec) (dc_attrs k) = true).
    { rewrite forallb_forall in Hm. exact (Hm (ACode k) ltac:(rewrite Ea; apply in_or_app; right; left; reflexivity)). }
    destruct (method_code_closed impl dec p b m v a1 k a2 Hs Ho Hb Hv) as (ivs & Fi & Hco & Eb). rewrite Eb in E1.
    destruct (BF.code_closed impl p b (Z.to_N (dc_max_stack k)) (Z.to_N (dc_max_locals k)) (dc_code k) (map (exc_val dec) (dc_exceptions k)) ivs)
      as [c|] eqn:Ec; [|discriminate]. cbn [Base.Str.bind] in E1. injection E1 as <-.
    exists ivs, c. repeat split; assumption.
Qed.
Theorem read_class_closed_code_methods impl dec t bs aux d cd :
  cclass_ok t = true -> write_class_aux t = WOK (bs, aux) ->
  RA.header_ok FB.C01.Tables.magic (Z.to_N (k_minor t)) (Z.to_N (k_major t)) = true ->
  pool_utf8_ok dec (a_pool aux) = true -> names_ok6 dec = true ->
  facts_of t aux = Some d -> dclass_side6 impl dec d = true ->
  R.read_class impl dec bs = Ok cd ->
  exists cs b, rev (p_inner (a_pool aux)) = map mk cs /\
    Forall2 (method_sees_code impl dec (BP.rpool dec cs) b) (d_methods d) (R.cd_methods cd).
Proof.
  intros Hok Hw Hgate Hdec Hn Hd Hs Er.
  pose proof (written_kinds impl dec t bs aux d Hok Hw Hgate Hdec Hd Hs) as Hfrag.
  destruct (class_file_read_all impl dec t bs aux d Hok Hw Hgate Hdec Hn Hd Hs) as (cs & cattrs & mvals & Ecs & _ & Rc & Rm & E).
  rewrite E in Er. unfold R.build_class in Er. rewrite head_closed in Er. cbn [R.list_of] in Er. rewrite super_closed in Er.
  cbn [Base.Str.bind] in Er. rewrite itfs_closed in Er. cbn [Base.Str.bind] in Er.
  destruct (R.fold_attrs (R.apply_attr impl (BP.rpool dec cs) [] 0%N) R.st_empty cattrs) as [st|]; [|discriminate]. cbn [Base.Str.bind] in Er.
  destruct (RP.map_res R.bsm_entry (R.slot_list RFo.a_BootstrapMethods (R.st_slots st))) as [b|]; [|discriminate]. cbn [Base.Str.bind] in Er.
  destruct (RP.map_res (R.build_member impl (BP.rpool dec cs) b 1%N) _) as [fds|]; [|discriminate]. cbn [Base.Str.bind] in Er.
  destruct (RP.map_res (R.build_member impl (BP.rpool dec cs) b 2%N) mvals) as [mds|] eqn:Em; [|discriminate]. cbn [Base.Str.bind] in Er.
  injection Er as <-. cbn [R.cd_methods]. exists cs, b. split; [exact Ecs|].
  unfold dclass_frag6 in Hfrag. apply andb_prop in Hfrag. destruct Hfrag as [_ Hm].
  refine (methods_seen_code impl dec _ b _ _ _ _ Rm Em).
  apply (forallb_Forall (fun m => forallb (mattrb6 impl dec) (dm_attrs m))); [intros m Hm0; exact Hm0|exact Hm].
Qed.

(* non-vacuity: the method of the all-kinds example (Code with a StackMapTable, a LineNumberTable, three type-annotation
   entries and an unknown attribute, between Deprecated-less flags and six further method attributes) meets
   code_method_once, and C01's reader returns a code description for it *)
Theorem code_methods_example : exists bs aux d cd,
  write_class_aux ex_file6 = WOK (bs, aux) /\ facts_of ex_file6 aux = Some d /\
  forallb (code_method_once true FB.C01.Mutf8.mutf8_dec) (d_methods d) = true /\
  R.read_class true FB.C01.Mutf8.mutf8_dec bs = Ok cd /\
  map (fun md => match R.md_code md with
                 | Some c => (length (R.k_insns c), length (R.k_lines c), length (R.k_frames c), length (R.k_vta c), length (R.k_unknown c))
                 | None => (0, 0, 0, 0, 0)%nat
                 end) (R.cd_methods cd) = [(3, 1, 1, 2, 1)%nat].
Proof.
  destruct (write_class_aux ex_file6) as [[bs aux]|?c|] eqn:E; [|vm_compute in E; discriminate|vm_compute in E; discriminate].
  pose proof E as E0. vm_compute in E0. injection E0 as Ebs Eaux.
  destruct (facts_of ex_file6 aux) as [d|] eqn:Hd; [|rewrite <- Eaux in Hd; vm_compute in Hd; discriminate].
  pose proof Hd as Hd0. rewrite <- Eaux in Hd0. vm_compute in Hd0. injection Hd0 as Ed.
  destruct (R.read_class true FB.C01.Mutf8.mutf8_dec bs) as [cd|] eqn:Er; [|rewrite <- Ebs in Er; vm_compute in Er; discriminate].
  exists bs, aux, d, cd. split; [reflexivity|]. split; [exact Hd|]. split; [rewrite <- Ed; vm_compute; reflexivity|].
  split; [exact Er|]. rewrite <- Ebs in Er. vm_compute in Er. injection Er as <-. vm_compute. reflexivity.
Qed.
