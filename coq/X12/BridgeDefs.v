(* X12 — the bridge between the WRITER model of C02 and the READER model of C01 (round 6).
   Definitions only; the proofs are in BridgePlain.v, BridgeEnc.v, Bridge.v, BridgeShape.v, the examples in
   BridgeEx.v; the statements are pinned in Props/C02.v (the C02_bridge theorems).

   C02 (coq/C02/Model.v, Encode.v) and C01 (coq/C01/Model.v) were written independently and share no
   definition.  This file translates C02's vocabulary into C01's:

     C02                                            C01
     -------------------------------------------   ------------------------------------------------
     body = list (option label * entry)             list (ainsn nat): targets are instruction indices
     Plain bs          (opaque bytes)               Gen ctor ops, decoded from bs with C01's OWN tables
                                                    (pass2_entry / pass2_wide_entry / dec_ops): [plain_insn]
     Br (KCond op inv) l, narrow                    Gen op [OpT (T l)]                 form FPlain op
     Br (KCond op inv) l, wide (8 bytes)            Gen inv [OpT (2+k)]; Gen 167 [OpT (T l)]
                                                    (k = own index; forms FPlain inv, FPlain 200 = goto_w)
     Br (KJump op wop) l                            Gen op [OpT (T l)]     form FPlain op / FPlain wop:
                                                    goto_w / jsr_w are READ as Goto / Jsr (ctor 167 / 168)
     TSwitch d lo hi ts                             TSw (T d) lo hi (map T ts)         padding zeros
     LSwitch d ps                                   LSw (T d) (map (k, T l) ps)        padding zeros
     label l                                        T l = index, in the translated body, of the first
                                                    instruction of the entry carrying l; the last label
                                                    = number of instructions  [lidx]
     positions Z, choices list bool                 offsets N, choices nat -> choice   [tr_ch]
     rtables (Z offsets; ranges start/length)       code_in (N; ranges start/length)   [code_in_of_written]

   INSIDE the bridge: every entry kind of C02's layout model — all 16 conditionals in both forms,
   goto/jsr in both forms, both switches, and every Plain entry whose bytes are exactly ONE
   instruction of C01's second-pass table that is neither a branch nor a switch (all operand kinds:
   u8/i8/i16/local index/atype/pool index 8 and 16 bit, the wide prefix, the _n short forms, the
   ignored bytes of invokeinterface / invokedynamic); the exception table, line numbers / offset
   targets and local-variable ranges.
   OUTSIDE (see Bridge.v for why): Plain [] and Plain entries holding several instructions or a
   branch/switch opcode; a branch, switch arm, handler, range start or offset that names the LAST
   label (duke's reader refuses a target at code_length); a body whose last entry is a conditional
   written in its long form (it jumps to code_length); stack-map frames (C02 emits attribute bytes, C01's code_in
   takes offset deltas: the link is at the class-file level); pool contents of operands (both models
   keep indices here). *)
From Coq Require Import List NArith ZArith Bool Lia.
From FB Require Import Base.Str C01.Model C01.Theory4.
From FB Require C02.Model C02.Encode.
Module W := FB.C02.Model.
Module WE := FB.C02.Encode.
Import ListNotations.

(* ---------------------------------------------------------------------------------------------- *)
(* Plain bytes -> one instruction of C01, decoded with C01's tables and operand decoder.  The label
   set is empty: a branch operand (RBr16/RBr32) cannot be decoded, so branch opcodes are refused;
   switch opcodes (P2TSwitch / P2LSwitch) and unknown opcodes are refused by the match. *)
Definition zN (_ : N) : nat := 0%nat.

Definition plain_ops (ctor : N) (rs : list rdk) (r : list N) : option (ainsn nat) :=
  match dec_ops [] 0%N rs r with
  | Ok (ops, []) => Some (Gen ctor (map (map_op zN) ops))
  | _ => None
  end.

Definition plain_insn (bs : list N) : option (ainsn nat) :=
  match bs with
  | [] => None
  | op :: r =>
    match pass2_entry op with
    | P2 ctor rs => plain_ops ctor rs r
    | P2Short ctor idx => match r with [] => Some (Gen ctor [OpN idx]) | _ :: _ => None end
    | P2Wide =>
      match r with
      | sub :: r1 => match pass2_wide_entry sub with P2 ctor rs => plain_ops ctor rs r1 | _ => None end
      | [] => None
      end
    | _ => None
    end
  end.

(* the ignored bytes (RSkip8: invokeinterface count and zero, invokedynamic zeros), read off the bytes *)
Fixpoint fill_of (rs : list rdk) (s : list N) : list N :=
  match rs with
  | [] => []
  | RSkip8 :: rs' => hd 0%N s :: fill_of rs' (tl s)
  | r :: rs' => fill_of rs' (skipn (N.to_nat (rd_len r)) s)
  end.

Definition fp (op : N) : choice := {| c_form := FPlain op; c_fill := [] |}.

Definition plain_choice (bs : list N) : choice :=
  match bs with
  | [] => fp 0
  | op :: r =>
    match pass2_entry op with
    | P2 _ rs => {| c_form := FPlain op; c_fill := fill_of rs r |}
    | P2Wide =>
      match r with
      | sub :: r1 => match pass2_wide_entry sub with
                     | P2 _ rs => {| c_form := FWide sub; c_fill := fill_of rs r1 |}
                     | _ => fp 0
                     end
      | [] => fp 0
      end
    | _ => fp op
    end
  end.

Definition plain_insn_d (bs : list N) : ainsn nat :=
  match plain_insn bs with Some i => i | None => Gen 0 [] end.

(* ---------------------------------------------------------------------------------------------- *)
(* one C02 entry = one C01 instruction, except the long form of a conditional = two *)
Definition cnt (c : bool) (e : W.entry) : nat :=
  match e with
  | W.Br (W.KCond _ _) _ => if c then 2%nat else 1%nat
  | _ => 1%nat
  end.

(* index (in the translated body) of the instruction a label designates; mirrors WE.labpos
   ([cnt c e + k], not [k + cnt c e]: unary addition recurses on its first argument) *)
Fixpoint lidx (chs : list bool) (k : nat) (b : W.body) (last : option W.label) (l : W.label) : option nat :=
  match b, chs with
  | (lb, e) :: r, c :: cs => if WE.olabel_is lb l then Some k else lidx cs (cnt c e + k) r last l
  | _, _ => if WE.olabel_is last l then Some k else None
  end.
Definition tgt_of (o : option nat) : nat := match o with Some k => k | None => 0%nat end.
(* the target function of a body *)
Definition T_of (chs : list bool) (b : W.body) (last : option W.label) (l : W.label) : nat :=
  tgt_of (lidx chs 0 b last l).

Definition op_goto : N := 167%N.

Definition tr_entry (T : W.label -> nat) (k : nat) (c : bool) (e : W.entry) : list (ainsn nat) :=
  match e with
  | W.Plain bs => [plain_insn_d bs]
  | W.Br (W.KCond op inv) l =>
      if c then [Gen inv [OpT (2 + k)%nat]; Gen op_goto [OpT (T l)]] else [Gen op [OpT (T l)]]
  | W.Br (W.KJump op wop) l => [Gen op [OpT (T l)]]
  | W.TSwitch d lo hi ts => [TSw (T d) lo hi (map T ts)]
  | W.LSwitch d ps => [LSw (T d) (map (fun kp => (fst kp, T (snd kp))) ps)]
  end.

Definition ch_entry (c : bool) (e : W.entry) : list choice :=
  match e with
  | W.Plain bs => [plain_choice bs]
  | W.Br (W.KCond op inv) _ => if c then [fp inv; fp W.GOTO_W] else [fp op]
  | W.Br (W.KJump op wop) _ => [fp (if c then wop else op)]
  | _ => [fp 0]
  end.

Fixpoint tr_from (T : W.label -> nat) (chs : list bool) (k : nat) (b : W.body) : list (ainsn nat) :=
  match b, chs with
  | (_, e) :: r, c :: cs => tr_entry T k c e ++ tr_from T cs (cnt c e + k) r
  | _, _ => []
  end.
Fixpoint chl_from (chs : list bool) (b : W.body) : list choice :=
  match b, chs with
  | (_, e) :: r, c :: cs => ch_entry c e ++ chl_from cs r
  | _, _ => []
  end.

(* THE TRANSLATION of a body under the writer's choices, and of the choices *)
Definition tr_body (chs : list bool) (b : W.body) (last : option W.label) : list (ainsn nat) :=
  tr_from (T_of chs b last) chs 0 b.
Definition tr_ch (chs : list bool) (b : W.body) : nat -> choice :=
  fun k => nth k (chl_from chs b) (fp 0).

(* ---------------------------------------------------------------------------------------------- *)
(* tables.  C02 has one list [t_offs] for every single offset that goes through try_get (line
   numbers and type-annotation offset targets); C01 distinguishes line numbers (with the line as
   payload) from other points.  The first [nl] offsets are taken as line numbers with the payloads
   [lines], the rest as points. *)
Definition tr_tables (T : W.label -> nat) (tb : W.tables) (nl : nat) (lines : list N) : tables :=
  {| t_exc := map (fun e => match e with (s, e', h) => (T s, T e', T h) end) (W.t_exc tb);
     t_lines := combine (map T (firstn nl (W.t_offs tb))) lines;
     t_ranges := map (fun r => (T (fst r), T (snd r))) (W.t_ranges tb);
     t_frames := [];
     t_points := map T (skipn nl (W.t_offs tb)) |}.

(* what the reader is handed: the written code array and the written tables, as they stand in the
   file (offsets; ranges as start_pc / length) *)
Definition code_in_of_written (w : list N) (rt : W.rtables) (nl : nat) (lines : list N) : code_in :=
  {| ci_code := w;
     ci_exc := map (fun e => match e with (s, e', h) => (Z.to_N s, Z.to_N e', Z.to_N h) end) (W.r_exc rt);
     ci_lines := combine (map Z.to_N (firstn nl (W.r_offs rt))) lines;
     ci_ranges := map (fun r => (Z.to_N (fst r), Z.to_N (snd r))) (W.r_ranges rt);
     ci_frames := [];
     ci_cldc := None;
     ci_points := map Z.to_N (skipn nl (W.r_offs rt)) |}.

(* ---------------------------------------------------------------------------------------------- *)
(* the fragment: decidable conditions on the body *)
Definition all_bytesb (bs : list N) : bool := forallb (fun x => (x <? 256)%N) bs.
Definition is_some {A} (o : option A) : bool := match o with Some _ => true | None => false end.
Definition is_cond (e : W.entry) : bool := match e with W.Br (W.KCond _ _) _ => true | _ => false end.

Definition entry_in (e : W.entry) : bool :=
  match e with
  | W.Plain bs => all_bytesb bs && is_some (plain_insn bs)
  | W.Br k _ => WE.kind_ok k
  | W.TSwitch _ lo hi _ => WE.fits32 lo && WE.fits32 hi
  | W.LSwitch _ ps => forallb (fun kp => WE.fits32 (fst kp)) ps
  end.
(* every entry is in the fragment and the last entry is not a conditional IN ITS LONG FORM (that one
   jumps to code_length) *)
Fixpoint body_in (chs : list bool) (b : W.body) : bool :=
  match b, chs with
  | (_, e) :: r, c :: cs =>
      entry_in e && (match r with [] => negb (is_cond e && c) | _ => true end) && body_in cs r
  | _, _ => true
  end.
(* a sufficient condition that does not mention the writer's choices: the last entry is no conditional
   (true of every method that does not fall off its end) *)
Fixpoint body_in_simple (b : W.body) : bool :=
  match b with
  | [] => true
  | (_, e) :: r => entry_in e && (match r with [] => negb (is_cond e) | _ => true end) && body_in_simple r
  end.

(* a label is carried by an entry of the body (it is not only the last label) *)
Definition carried (b : W.body) (l : W.label) : bool := existsb (fun le => WE.olabel_is (fst le) l) b.
Definition refs_of (e : W.entry) : list W.label :=
  match e with
  | W.Plain _ => []
  | W.Br _ l => [l]
  | W.TSwitch d _ _ ts => d :: ts
  | W.LSwitch d ps => d :: map snd ps
  end.
Definition refs_carried (b : W.body) : bool :=
  forallb (fun le => forallb (carried b) (refs_of (snd le))) b.
Definition tables_carried (b : W.body) (tb : W.tables) : bool :=
  forallb (fun e => match e with (s, _, h) => carried b s && carried b h end) (W.t_exc tb)
  && forallb (carried b) (W.t_offs tb)
  && forallb (fun r => carried b (fst r)) (W.t_ranges tb).
