(* X12 — bridge, non-vacuity.  (1) a body with a far forward goto AND a far forward conditional: the
   writer needs three attempts and widens both; the reader model, run on what was written, sees
   Goto (from goto_w), the OPPOSITE conditional jumping over the pair, Goto (from goto_w) to the
   original target.  (2) a body with a tableswitch, a lookupswitch, ldc, bipush, invokeinterface (with
   its ignored count byte), wide iinc, an exception range ending at the last label: the result of
   C01's reader on C02's output is computed and is the translated body.  (3) a jump to the last
   label is written by the writer and refused by the reader: refs_carried is necessary. *)
From Coq Require Import List NArith ZArith Bool Lia.
From FB Require Import Base.Str C01.Model C01.Theory4.
From FB Require C02.Model C02.Encode C02.Theory3.
From FB Require Import X12.BridgeDefs X12.BridgePlain X12.BridgeEnc X12.Bridge.
Import ListNotations.

(* ---- (1) goto L; ifeq L; 32768 x nop; L: return ------------------------------------------------ *)
Definition ex_far : W.body :=
  (None, W.Br (W.KJump 167 200) 7%N) :: (None, W.Br (W.KCond 153 154) 7%N)
  :: repeat (None, W.Plain [0%N]) (N.to_nat 32768) ++ [(Some 7%N, W.Plain [177%N])].
Definition ex_far_last : option W.label := Some 8%N.
Definition ex_far_tb : W.tables :=
  {| W.t_exc := [(7%N, 8%N, 7%N)]; W.t_offs := [7%N]; W.t_ranges := [(7%N, 8%N)] |}.
Definition ex_far_chs : list bool := W3.chs_run [1%N; 0%N] 0%N 0%Z [] ex_far.

Lemma ex_far_unique : W3.unique_labels ex_far ex_far_last.
Proof.
  unfold W3.unique_labels. assert (E : W3.body_labels ex_far = [7%N]) by (vm_compute; reflexivity).
  rewrite E. cbn. repeat constructor; cbn; intuition discriminate.
Qed.

(* (the 32 KiB array is never printed into a goal: only small projections of it are computed) *)
Lemma ex_far_written : exists w rt,
  W.write_code true ex_far ex_far_last ex_far_tb = Some (W.OK (w, [1%N; 0%N], rt)) /\
  firstn 14 w = [200; 0; 0; 128; 13;  154; 0; 8;  200; 0; 0; 128; 5;  0] /\ length w = N.to_nat 32782.
Proof.
  assert (H : (match W.write_code true ex_far ex_far_last ex_far_tb with
               | Some (W.OK (w, Wd, _)) => (Wd, firstn 14 w, N.of_nat (length w))
               | _ => ([], [], 0)
               end) = ([1%N; 0%N], [200; 0; 0; 128; 13;  154; 0; 8;  200; 0; 0; 128; 5;  0], 32782)).
  { vm_compute. reflexivity. }
  destruct (W.write_code true ex_far ex_far_last ex_far_tb) as [[[[w Wd] rt]| |]|]; try discriminate.
  injection H as -> Hf Hl. exists w, rt. split; [reflexivity|]. split; [exact Hf|]. lia.
Qed.

(* indices are shown in binary (a unary numeral of size 32771 is not a term one wants in a goal) *)
Definition insN (i : ainsn nat) : ainsn N := map_insn N.of_nat i.
Definition tablesN (t : tables) :=
  (map (fun e => match e with (s, e', h) => (N.of_nat s, N.of_nat e', N.of_nat h) end) (t_exc t),
   map (fun e => (N.of_nat (fst e), snd e)) (t_lines t),
   map (fun e => (N.of_nat (fst e), N.of_nat (snd e))) (t_ranges t),
   map N.of_nat (t_frames t), map N.of_nat (t_points t)).
Definition ex_far_seen : Prop :=
  (* Goto L; IfNe (next after the pair); Goto L; Nop ...; L: Return *)
  map insN (firstn 4 (tr_body ex_far_chs ex_far ex_far_last))
  = [Gen 167 [OpT 32771]; Gen 154 [OpT 3]; Gen 167 [OpT 32771]; Gen 0 []] /\
  option_map insN (nth_error (tr_body ex_far_chs ex_far ex_far_last) (N.to_nat 32771)) = Some (Gen 177 []) /\
  N.of_nat (length (tr_body ex_far_chs ex_far ex_far_last)) = 32772 /\
  tablesN (tr_tables (T_of ex_far_chs ex_far ex_far_last) ex_far_tb 1 [42])
  = ([(32771, 32772, 32771)], [(32771, 42)], [(32771, 32772)], [], []).
Lemma ex_far_seen_holds : ex_far_seen.
Proof. unfold ex_far_seen. repeat split; vm_compute; reflexivity. Qed.

Theorem ex_far_bridge : exists w rt,
  (* the writer's answer: both jumps widened (wide set = indices 1 and 0), 32782 bytes *)
  W.write_code true ex_far ex_far_last ex_far_tb = Some (W.OK (w, [1%N; 0%N], rt)) /\
  firstn 14 w = [200; 0; 0; 128; 13;  154; 0; 8;  200; 0; 0; 128; 5;  0] /\ length w = N.to_nat 32782 /\
  (* the reader model on it *)
  read_code (code_in_of_written w rt 1 [42])
  = Ok (expected (tr_body ex_far_chs ex_far ex_far_last) (tr_tables (T_of ex_far_chs ex_far ex_far_last) ex_far_tb 1 [42])) /\
  ex_far_seen.
Proof.
  destruct ex_far_written as (w & rt & HW & Hf & Hl). exists w, rt.
  split; [exact HW|]. split; [exact Hf|]. split; [exact Hl|]. split; [|exact ex_far_seen_holds].
  apply (bridge_write_read true ex_far ex_far_last ex_far_tb w [1%N; 0%N] rt 1 [42] ex_far_unique).
  - vm_compute. reflexivity.
  - vm_compute. reflexivity.
  - vm_compute. reflexivity.
  - exact HW.
Qed.

(* ---- (2) switches, pool operands, ignored bytes, wide ------------------------------------------ *)
Definition ex_sw : W.body :=
  [ (Some 1%N, W.Plain [26%N]);                                   (* iload_0 *)
    (None, W.TSwitch 4%N 0%Z 1%Z [2%N; 3%N]);                     (* tableswitch 0 -> L2, 1 -> L3, default L4 *)
    (Some 2%N, W.Plain [16%N; 5%N]);                              (* L2: bipush 5 *)
    (None, W.Br (W.KJump 167 200) 5%N);                           (* goto L5 *)
    (Some 3%N, W.Plain [18%N; 9%N]);                              (* L3: ldc #9 *)
    (Some 4%N, W.LSwitch 5%N [((-1)%Z, 2%N); (10%Z, 3%N)]);       (* L4: lookupswitch -1 -> L2, 10 -> L3, default L5 *)
    (None, W.Plain [185%N; 0%N; 7%N; 1%N; 0%N]);                  (* invokeinterface #7, count 1, 0 *)
    (None, W.Plain [196%N; 132%N; 1%N; 0%N; 255%N; 255%N]);       (* wide iinc 256, -1 *)
    (Some 5%N, W.Plain [172%N]) ].                                (* L5: ireturn *)
Definition ex_sw_last : option W.label := Some 6%N.
Definition ex_sw_tb : W.tables :=
  {| W.t_exc := [(1%N, 5%N, 3%N)]; W.t_offs := [1%N; 2%N; 4%N]; W.t_ranges := [(1%N, 6%N); (2%N, 5%N)] |}.
Definition ex_sw_w : list N :=
  [26; 170; 0; 0;  0; 0; 0; 30;  0; 0; 0; 0;  0; 0; 0; 1;  0; 0; 0; 23;  0; 0; 0; 28;
   16; 5;  167; 0; 41;  18; 9;
   171;  0; 0; 0; 36;  0; 0; 0; 2;  255; 255; 255; 255;  255; 255; 255; 249;  0; 0; 0; 10;  255; 255; 255; 254;
   185; 0; 7; 1; 0;  196; 132; 1; 0; 255; 255;  172].
Definition ex_sw_rt : W.rtables :=
  {| W.r_exc := [(0, 67, 29)%Z]; W.r_offs := [0; 24; 31]%Z; W.r_ranges := [(0, 68)%Z; (24, 43)%Z] |}.
Definition ex_sw_chs : list bool := W3.chs_run [] 0%N 0%Z [] ex_sw.

Lemma ex_sw_written : W.write_code true ex_sw ex_sw_last ex_sw_tb = Some (W.OK (ex_sw_w, [], ex_sw_rt)).
Proof. vm_compute. reflexivity. Qed.
Lemma ex_sw_unique : W3.unique_labels ex_sw ex_sw_last.
Proof. unfold W3.unique_labels. cbn. repeat constructor; cbn; intuition discriminate. Qed.

Theorem ex_sw_bridge :
  W.write_code true ex_sw ex_sw_last ex_sw_tb = Some (W.OK (ex_sw_w, [], ex_sw_rt)) /\
  (* by the bridge theorem … *)
  read_code (code_in_of_written ex_sw_w ex_sw_rt 1 [42])
  = Ok (expected (tr_body ex_sw_chs ex_sw ex_sw_last) (tr_tables (T_of ex_sw_chs ex_sw ex_sw_last) ex_sw_tb 1 [42])) /\
  (* … and what that is *)
  tr_body ex_sw_chs ex_sw ex_sw_last
  = [Gen 21 [OpN 0]; TSw 5%nat 0 1 [2%nat; 4%nat]; Gen 16 [OpZ 5]; Gen 167 [OpT 8%nat]; Gen 18 [OpC 0 9];
     LSw 8%nat [((-1)%Z, 2%nat); (10%Z, 4%nat)]; Gen 185 [OpC 4 7]; Gen 132 [OpN 256; OpZ (-1)]; Gen 172 []] /\
  tr_tables (T_of ex_sw_chs ex_sw ex_sw_last) ex_sw_tb 1 [42]
  = {| t_exc := [(0, 8, 4)%nat]; t_lines := [(0%nat, 42)]; t_ranges := [(0, 9)%nat; (2, 8)%nat];
       t_frames := []; t_points := [2%nat; 5%nat] |} /\
  (* the same, computed directly with C01's reader (an independent evaluation, not through the theorem) *)
  read_code (code_in_of_written ex_sw_w ex_sw_rt 1 [42])
  = Ok {| cs_insns :=
            [(true, None, Gen 21 [OpN 0]);
             (false, None, TSw (Some 5%nat) 0 1 [Some 2%nat; Some 4%nat]);
             (true, None, Gen 16 [OpZ 5]);
             (false, None, Gen 167 [OpT (Some 8%nat)]);
             (true, None, Gen 18 [OpC 0 9]);
             (true, None, LSw (Some 8%nat) [((-1)%Z, Some 2%nat); (10%Z, Some 4%nat)]);
             (false, None, Gen 185 [OpC 4 7]);
             (false, None, Gen 132 [OpN 256; OpZ (-1)]);
             (true, None, Gen 172 [])];
          cs_last := true;
          cs_exc := [(Some 0%nat, Some 8%nat, Some 4%nat)];
          cs_lines := [(Some 0%nat, 42)];
          cs_ranges := [(Some 0%nat, Some 9%nat); (Some 2%nat, Some 8%nat)];
          cs_points := [Some 2%nat; Some 5%nat] |}.
Proof.
  split; [exact ex_sw_written|]. split.
  - apply (bridge_write_read true ex_sw ex_sw_last ex_sw_tb ex_sw_w [] ex_sw_rt 1 [42] ex_sw_unique).
    + vm_compute. reflexivity.
    + vm_compute. reflexivity.
    + vm_compute. reflexivity.
    + exact ex_sw_written.
  - repeat split; vm_compute; reflexivity.
Qed.

(* ---- (3) outside the bridge: a jump to the last label ------------------------------------------ *)
Definition ex_end : W.body := [(None, W.Br (W.KJump 167 200) 9%N)].
Theorem ex_end_refused :
  W3.unique_labels ex_end (Some 9%N) /\ body_in_simple ex_end = true /\ refs_carried ex_end = false /\
  W.write_code true ex_end (Some 9%N) {| W.t_exc := []; W.t_offs := []; W.t_ranges := [] |}
  = Some (W.OK ([167; 0; 3], [], {| W.r_exc := []; W.r_offs := []; W.r_ranges := [] |})) /\
  read_code (code_in_of_written [167; 0; 3] {| W.r_exc := []; W.r_offs := []; W.r_ranges := [] |} 0 []) = Err.
Proof.
  split; [|repeat split; vm_compute; reflexivity].
  unfold W3.unique_labels. cbn. repeat constructor; cbn; intuition discriminate.
Qed.

Definition bridge_nonvacuous : Prop :=
  (exists w rt, W.write_code true ex_far ex_far_last ex_far_tb = Some (W.OK (w, [1%N; 0%N], rt)) /\
     read_code (code_in_of_written w rt 1 [42])
     = Ok (expected (tr_body ex_far_chs ex_far ex_far_last) (tr_tables (T_of ex_far_chs ex_far ex_far_last) ex_far_tb 1 [42])) /\
     ex_far_seen) /\
  (exists w rt, W.write_code true ex_sw ex_sw_last ex_sw_tb = Some (W.OK (w, [], rt)) /\
     read_code (code_in_of_written w rt 1 [42])
     = Ok (expected (tr_body ex_sw_chs ex_sw ex_sw_last) (tr_tables (T_of ex_sw_chs ex_sw ex_sw_last) ex_sw_tb 1 [42])) /\
     nth_error (tr_body ex_sw_chs ex_sw ex_sw_last) 1 = Some (TSw 5%nat 0 1 [2%nat; 4%nat])) /\
  (refs_carried ex_end = false /\
   read_code (code_in_of_written [167; 0; 3] {| W.r_exc := []; W.r_offs := []; W.r_ranges := [] |} 0 []) = Err).
Theorem bridge_nonvacuous_holds : bridge_nonvacuous.
Proof.
  split; [|split].
  - destruct ex_far_bridge as (w & rt & H1 & _ & _ & H3 & H4). exists w, rt.
    split; [exact H1|]. split; [exact H3|].
    exact H4.
  - exists ex_sw_w, ex_sw_rt. destruct ex_sw_bridge as (H1 & H2 & H3 & _).
    split; [exact H1|]. split; [exact H2|]. rewrite H3. reflexivity.
  - destruct ex_end_refused as (_ & _ & H3 & _ & H5). split; assumption.
Qed.
