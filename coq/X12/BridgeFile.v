(* X12 — bridge, part 12: THE WHOLE FILE for a fragment of trees.
   Fragment ([dclass_frag], decidable, on what C02's facts_of says the written class contains):
     class attributes  ⊆ { SourceFile }
     field attributes  ⊆ { ConstantValue }
     method attributes ⊆ { Code }, the attributes of a Code attribute ⊆ { LineNumberTable }
   (any number of fields and methods, any code, exception table with catch types, any constant pool).
   For such a tree (cclass_ok, version inside the reader's gate, pool strings decodable, the four attribute names
   decoded to themselves):

       C01.read_class impl dec (the bytes C02.write_class_aux wrote)
         = C01.build_class impl (the pool as read) minor major head class_attrs fields methods

   where head / class_attrs / fields / methods are the VALUES C01's format reader delivers, given explicitly as
   functions of the tree's facts — i.e. C01's whole parsing phase (header gate, pool, head, the two skip passes,
   class_attrs_fmt, fields_fmt, methods_fmt with every attribute through its own format) is computed; what
   remains on the right-hand side is C01's own interpretation step build_class applied to those values (for a
   Code attribute: build_code -> read_code_raw on the code array and tables delivered here, to which
   C02_bridge_code_attr / C02_bridge_write_read apply). *)
From Coq Require Import List NArith ZArith Bool Lia.
From FB Require Import C02.Model C02.Encode C02.Theory2 C02.Theory8 C02.Frames C02.Class C02.Decode C02.Facts
  C02.TheoryC1 C02.TheoryC2 C02.TheoryC8.
From FB Require C01.Bytes C01.Pool C01.Attr C01.Tables C01.Fmt C01.Formats C01.ClassFile C01.Mutf8.
From FB Require X12.BridgePool.
From FB Require Import X12.BridgeClass X12.BridgeMembers X12.BridgeCode X12.BridgeFmt.
Import ListNotations.
Local Open Scope Z_scope.

(* ---------------------------------------------------------------------------------------------- *)
(* members *)
Definition member_val (dec : RB.bytes -> res str) (k : N) (av : dattr -> RF.val) (m : dmember) : RF.val :=
  RF.VSeq [RF.VN (RA.access_back k (Z.to_N (dm_access m))); RF.VC (RP.VUtf8 (BP.sdec dec (dm_name m)));
           RF.VC (RP.VUtf8 (BP.sdec dec (dm_desc m))); RF.VList (map av (dm_attrs m))].

Lemma p2rq_member (Qa : dattr -> Prop) impl dec cs l k sel av :
  p2rq Qa (p_attr l (cslots cs 1)) (RF.rd_fmt impl dec (R.acc (BP.rpool dec cs)) (RF.FAttr sel)) av ->
  p2rq (fun m => Forall Qa (dm_attrs m)) (p_member l (cslots cs 1))
       (RF.rd_fmt impl dec (R.acc (BP.rpool dec cs)) (RF.FSeq [RF.FFlags k; RF.FIdx 8%N; RF.FIdx 8%N; RF.FVec16 (RF.FAttr sel)]))
       (member_val dec k av).
Proof.
  intros Ha s m r t H HQ. unfold p_member, pbind in H.
  destruct (p_u16 s) as [[a s1]|] eqn:E1; [|discriminate].
  destruct (p_idx get_utf8 (cslots cs 1) s1) as [[n s2]|] eqn:E2; [|discriminate].
  destruct (p_idx get_utf8 (cslots cs 1) s2) as [[d s3]|] eqn:E3; [|discriminate].
  destruct (p_attrs l (cslots cs 1) s3) as [[at_ s4]|] eqn:E4; [|discriminate]. unfold pret in H. injection H as <- <-.
  cbn [dm_attrs] in HQ. unfold member_val. cbn [dm_access dm_name dm_desc dm_attrs].
  assert (P8 : p2r (p_idx get_utf8 (cslots cs 1)) (RF.rd_fmt impl dec (R.acc (BP.rpool dec cs)) (RF.FIdx 8%N))
                   (fun x => RF.VC (RP.VUtf8 (BP.sdec dec x)))).
  { apply p2r_idx. intros i x G. exact (acc8 dec cs i x G). }
  rewrite rd_seq4. rewrite (p2r_flags impl dec _ k _ _ _ t E1). cbn [Base.Str.bind].
  rewrite (P8 _ _ _ t E2). cbn [Base.Str.bind]. rewrite (P8 _ _ _ t E3). cbn [Base.Str.bind].
  unfold p_attrs in E4. rewrite (p2rq_vec16 Qa impl dec _ _ _ _ Ha _ _ _ t E4 HQ). reflexivity.
Qed.

(* ---------------------------------------------------------------------------------------------- *)
(* the fragment, on the facts of the written class *)
Definition is_cv (a : dattr) : Prop := exists v, a = AConstantValue v.
Definition is_code (a : dattr) : Prop := exists k, a = ACode k /\ code_okP k.
Definition is_sf (a : dattr) : Prop := exists s, a = ASourceFile s.
Definition fattr_val (dec : RB.bytes -> res str) (a : dattr) : RF.val := match a with AConstantValue v => v_ConstantValue dec v | _ => RF.VSeq [] end.
Definition mattr_val (dec : RB.bytes -> res str) (a : dattr) : RF.val := match a with ACode k => v_Code dec k | _ => RF.VSeq [] end.
Definition cattr_val (dec : RB.bytes -> res str) (a : dattr) : RF.val := match a with ASourceFile s => v_SourceFile dec s | _ => RF.VSeq [] end.

Definition lntb (a : dattr0) : bool := match a with ALineNumberTable _ => true | _ => false end.
Definition codeb (a : dattr) : bool := match a with ACode k => forallb lntb (dc_attrs k) | _ => false end.
Definition cvb (a : dattr) : bool := match a with AConstantValue _ => true | _ => false end.
Definition sfb (a : dattr) : bool := match a with ASourceFile _ => true | _ => false end.
Definition dclass_frag (d : dclass) : bool :=
  forallb sfb (d_attrs d) && forallb (fun m => forallb cvb (dm_attrs m)) (d_fields d)
  && forallb (fun m => forallb codeb (dm_attrs m)) (d_methods d).
(* the fragment as a decidable condition on the tree and what the writer returned beside the bytes *)
Definition in_fragment (t : cclass) (aux : class_aux) : bool :=
  match facts_of t aux with Some d => dclass_frag d | None => false end.

Lemma forallb_Forall {A} (f : A -> bool) (P : A -> Prop) l : (forall x, f x = true -> P x) -> forallb f l = true -> Forall P l.
Proof. intros H F. rewrite forallb_forall in F. apply Forall_forall. intros x Hx. apply H, F, Hx. Qed.
Lemma sfb_spec a : sfb a = true -> is_sf a. Proof. destruct a; try discriminate. intros _. eexists. reflexivity. Qed.
Lemma cvb_spec a : cvb a = true -> is_cv a. Proof. destruct a; try discriminate. intros _. eexists. reflexivity. Qed.
Lemma codeb_spec a : codeb a = true -> is_code a.
Proof.
  destruct a; try discriminate. cbn [codeb]. intros H. exists c. split; [reflexivity|].
  unfold code_okP. apply (forallb_Forall lntb is_lnt); [|exact H]. intros x Hx. destruct x; try discriminate. eexists. reflexivity.
Qed.

(* ---------------------------------------------------------------------------------------------- *)
Theorem class_file_read impl dec t bs aux d :
  cclass_ok t = true -> write_class_aux t = WOK (bs, aux) ->
  RA.header_ok FB.C01.Tables.magic (Z.to_N (k_minor t)) (Z.to_N (k_major t)) = true ->
  pool_utf8_ok dec (a_pool aux) = true -> names_ok dec = true ->
  facts_of t aux = Some d -> dclass_frag d = true ->
  exists cs,
    rev (p_inner (a_pool aux)) = map mk cs /\
    R.read_class impl dec bs
    = R.build_class impl (BP.rpool dec cs) (Z.to_N (k_minor t)) (Z.to_N (k_major t)) (head_val dec t)
        (RF.VList (map (cattr_val dec) (d_attrs d)))
        (RF.VList (map (member_val dec 1%N (fattr_val dec)) (d_fields d)))
        (RF.VList (map (member_val dec 2%N (mattr_val dec)) (d_methods d))).
Proof.
  intros Hok Hw Hgate Hdec Hn Hd Hfrag.
  destruct (class_read_base impl dec t bs aux Hok Hw Hgate Hdec) as (cs & fields & mbytes & abytes & fs & ms & ds & Ecs & Hag & Hhead & Hfs & Hms & Df & Dm & Da & (d' & Hd' & F1 & F2 & F3)).
  rewrite Hd in Hd'. injection Hd' as <-. subst fs ms ds.
  unfold dclass_frag in Hfrag. apply andb_prop in Hfrag. destruct Hfrag as [Hfrag Hm]. apply andb_prop in Hfrag. destruct Hfrag as [Hc Hf].
  pose proof (Df _ _ (mbytes ++ abytes) (pool_ext_refl _) Hag) as Pf.
  pose proof (Dm _ _ abytes (pool_ext_refl _) Hag) as Pm.
  pose proof (Da _ _ [] (pool_ext_refl _) Hag) as Pa. rewrite app_nil_r in Pa.
  exists cs. split; [exact Ecs|].
  rewrite (read_class_head impl dec bs _ _ _ _ _ Hhead).
  (* the two skip passes *)
  pose proof (members_read impl dec cs AtField 1%N _ _ _ Pf) as Sf. apply rd_headers_skip in Sf.
  pose proof (members_read impl dec cs AtMethod 2%N _ _ _ Pm) as Sm. apply rd_headers_skip in Sm.
  rewrite Sf. cbn [Base.Str.bind]. rewrite Sm. cbn [Base.Str.bind].
  (* class attributes *)
  assert (Ra : RF.rd_fmt impl dec (R.acc (BP.rpool dec cs)) R.class_attrs_fmt abytes
               = Ok (RF.VList (map (cattr_val dec) (d_attrs d)), [])).
  { assert (Q : p2rq is_sf (p_attr AtClass (cslots cs 1)) (RF.rd_fmt impl dec (R.acc (BP.rpool dec cs)) (RF.FAttr R.class_sel)) (cattr_val dec)).
    { intros s a r t0 H (sf & ->). exact (attr_SourceFile impl dec cs s sf r t0 Hn H). }
    pose proof (p2rq_vec16 is_sf impl dec _ _ _ _ Q _ _ _ [] Pa (forallb_Forall _ _ _ sfb_spec Hc)) as E.
    rewrite app_nil_r in E. exact E. }
  rewrite Ra. cbn [Base.Str.bind].
  (* fields *)
  assert (Rf : RF.rd_fmt impl dec (R.acc (BP.rpool dec cs)) R.fields_fmt (fields ++ mbytes ++ abytes)
               = Ok (RF.VList (map (member_val dec 1%N (fattr_val dec)) (d_fields d)), mbytes ++ abytes)).
  { assert (Q : p2rq is_cv (p_attr AtField (cslots cs 1)) (RF.rd_fmt impl dec (R.acc (BP.rpool dec cs)) (RF.FAttr R.field_sel)) (fattr_val dec)).
    { intros s a r t0 H (v & ->). exact (attr_ConstantValue impl dec cs s v r t0 Hn H). }
    pose proof (p2rq_vec16 _ impl dec _ _ _ _ (p2rq_member is_cv impl dec cs AtField 1%N R.field_sel _ Q) _ _ _ [] Pf) as E.
    rewrite !app_nil_r in E. apply E.
    apply (forallb_Forall (fun m => forallb cvb (dm_attrs m))); [|exact Hf]. intros m Hm0. exact (forallb_Forall _ _ _ cvb_spec Hm0). }
  rewrite Rf. cbn [Base.Str.bind].
  (* methods *)
  assert (Rm : RF.rd_fmt impl dec (R.acc (BP.rpool dec cs)) R.methods_fmt (mbytes ++ abytes)
               = Ok (RF.VList (map (member_val dec 2%N (mattr_val dec)) (d_methods d)), abytes)).
  { assert (Q : p2rq is_code (p_attr AtMethod (cslots cs 1)) (RF.rd_fmt impl dec (R.acc (BP.rpool dec cs)) (RF.FAttr R.method_sel)) (mattr_val dec)).
    { intros s a r t0 H (k & -> & Hk). exact (attr_Code impl dec cs s k r t0 Hn Hk H). }
    pose proof (p2rq_vec16 _ impl dec _ _ _ _ (p2rq_member is_code impl dec cs AtMethod 2%N R.method_sel _ Q) _ _ _ [] Pm) as E.
    rewrite !app_nil_r in E. apply E.
    apply (forallb_Forall (fun m => forallb codeb (dm_attrs m))); [|exact Hm]. intros m Hm0. exact (forallb_Forall _ _ _ codeb_spec Hm0). }
  rewrite Rm. cbn [Base.Str.bind]. reflexivity.
Qed.

(* ---------------------------------------------------------------------------------------------- *)
(* non-vacuity: class A extends O, SourceFile "f"; field  static final int f = -5  (ConstantValue); method m()V with
   Code (max_stack 2, max_locals 1): L1: nop; L2: return; exception range [L1, L2) -> L2 catching O; LineNumberTable L1 -> 10 *)
Definition no_ann : annots := {| an_vis := []; an_invis := []; an_tvis := []; an_tinvis := [] |}.
Definition ex_file_code : ccode := {|
  c_max := Some (2, 1);
  c_insns := [ (Some 1%N, None, IRaw [0]%N); (Some 2%N, None, IRaw [177]%N) ];
  c_last := None;
  c_exceptions := [ {| x_start := 1%N; x_end := 2%N; x_handler := 2%N; x_catch := Some [79]%N |} ];
  c_lines := Some [(1%N, 10)];
  c_locals := None; c_tvis := []; c_tinvis := []; c_unknown := [] |}.
Definition ex_file : cclass := {|
  k_minor := 0; k_major := 61; k_access := 33;
  k_name := [65]%N; k_super := Some [79]%N; k_interfaces := [];
  k_fields := [ {| f_access := 25; f_name := [102]%N; f_desc := [73]%N; f_deprecated := false; f_synthetic := false;
                   f_constant := Some (CVInt (-5)); f_signature := None; f_annots := no_ann; f_unknown := [] |} ];
  k_methods := [ {| md_access := 9; md_name := [109]%N; md_desc := [40; 41; 86]%N; md_deprecated := false; md_synthetic := false;
                    md_code := Some ex_file_code; md_exceptions := None; md_signature := None; md_annots := no_ann;
                    md_default := None; md_parameters := None; md_unknown := [] |} ];
  k_deprecated := false; k_synthetic := false; k_inner := None; k_enclosing := None; k_signature := None;
  k_source_file := Some [102]%N; k_source_debug := None; k_annots := no_ann;
  k_module := None; k_module_packages := None; k_module_main := None;
  k_nest_host := None; k_nest_members := None; k_permitted := None; k_record := []; k_unknown := [] |}.

Definition desc_check (r : res R.class_desc) : bool :=
  match r with
  | Ok cd =>
    str_eqb (R.cd_this cd) [65]%N && (Nat.eqb (length (R.cd_fields cd)) 1) &&
    match R.cd_methods cd with
    | [m] => match R.md_code m with
             | Some k => (Nat.eqb (length (R.k_insns k)) 2) && (Nat.eqb (length (R.k_exc k)) 1) && (Nat.eqb (length (R.k_lines k)) 1)
                         && (R.k_max_stack k =? 2)%N
             | None => false
             end
    | _ => false
    end
  | Err => false
  end.

Theorem class_file_example : exists bs aux d cs,
  write_class_aux ex_file = WOK (bs, aux) /\ cclass_ok ex_file = true /\
  facts_of ex_file aux = Some d /\ in_fragment ex_file aux = true /\
  R.read_class true FB.C01.Mutf8.mutf8_dec bs
  = R.build_class true (BP.rpool FB.C01.Mutf8.mutf8_dec cs) 0%N 61%N (head_val FB.C01.Mutf8.mutf8_dec ex_file)
      (RF.VList (map (cattr_val FB.C01.Mutf8.mutf8_dec) (d_attrs d)))
      (RF.VList (map (member_val FB.C01.Mutf8.mutf8_dec 1%N (fattr_val FB.C01.Mutf8.mutf8_dec)) (d_fields d)))
      (RF.VList (map (member_val FB.C01.Mutf8.mutf8_dec 2%N (mattr_val FB.C01.Mutf8.mutf8_dec)) (d_methods d))) /\
  (* … and the reader's answer on these bytes, computed: class A, one field, one method whose Code has 2 instructions,
     one exception range, one line number, max_stack 2 *)
  desc_check (R.read_class true FB.C01.Mutf8.mutf8_dec bs) = true.
Proof.
  destruct (write_class_aux ex_file) as [[bs aux]|?c|] eqn:E; [|vm_compute in E; discriminate|vm_compute in E; discriminate].
  assert (Hok : cclass_ok ex_file = true) by (vm_compute; reflexivity).
  pose proof E as E0. vm_compute in E0. injection E0 as Ebs Eaux.
  assert (Hu : pool_utf8_ok FB.C01.Mutf8.mutf8_dec (a_pool aux) = true) by (rewrite <- Eaux; vm_compute; reflexivity).
  destruct (facts_of ex_file aux) as [d|] eqn:Hd; [|rewrite <- Eaux in Hd; vm_compute in Hd; discriminate].
  assert (Hf : dclass_frag d = true).
  { rewrite <- Eaux in Hd. vm_compute in Hd. injection Hd as <-. vm_compute. reflexivity. }
  destruct (class_file_read true FB.C01.Mutf8.mutf8_dec ex_file bs aux d Hok E ltac:(vm_compute; reflexivity) Hu ltac:(vm_compute; reflexivity) Hd Hf)
    as (cs & _ & H).
  exists bs, aux, d, cs. split; [reflexivity|]. split; [exact Hok|]. split; [exact Hd|].
  split; [unfold in_fragment; rewrite Hd; exact Hf|]. split; [exact H|].
  rewrite <- Ebs. vm_compute. reflexivity.
Qed.

(* ---------------------------------------------------------------------------------------------- *)
(* (c) the BootstrapMethods table through C01's own format and bsm_entry: wherever C02's decoder reads the table tbl
   from the attribute payload, C01's f_BootstrapMethods reads values whose bsm_entry projection is a table that
   agrees with tbl in the sense of BridgeDyn.table_agrees *)
From FB Require Import X12.BridgeDyn.
Definition bsm_fmt : RF.fmt := RF.FSeq [RF.FIdxRaw 9%N; RF.FVec16 RF.FU16].
Lemma bsm_table_fmt : RFo.f_BootstrapMethods = RF.FVec16 bsm_fmt. Proof. reflexivity. Qed.

Lemma acc9 dec cs i h : get_handle (cslots cs 1) i = Some h ->
  R.acc (BP.rpool dec cs) 9%N (Z.to_N i) = Ok (BP.handle_val dec h).
Proof. intros H. unfold R.acc. cbn. unfold RP.resolve_kind. cbn. exact (BP.ag_handle dec cs i h H). Qed.

Lemma args_entry : forall (a : list Z), Forall (fun z => 0 <= z) a ->
  RP.map_res (fun x => match x with RF.VN n => Ok n | _ => Err end) (map (fun z => RF.VN (Z.to_N z)) a) = Ok (map Z.to_N a).
Proof. induction 1 as [|z a Hz _ IH]; [reflexivity|]. cbn [map RP.map_res Base.Str.bind]. rewrite IH. reflexivity. Qed.

Lemma rd_idxraw impl dec rs a s i r c : RB.rd_u16 s = Ok (i, r) -> rs a i = Ok c ->
  RF.rd_fmt impl dec rs (RF.FIdxRaw a) s = Ok (RF.VIx i c, r).
Proof. intros H1 H2. cbn [RF.rd_fmt]. rewrite H1. cbn [Base.Str.bind]. rewrite H2. reflexivity. Qed.

Lemma bsm_rep_read impl dec cs t : forall n s tbl r, p_rep n (p_bsm (cslots cs 1)) s = Some (tbl, r) ->
  exists vs B, RF.rd_rep n (RF.rd_fmt impl dec (R.acc (BP.rpool dec cs)) bsm_fmt) (s ++ t) = Ok (vs, r ++ t) /\
               RP.map_res R.bsm_entry vs = Ok B /\ table_agrees cs tbl B.
Proof.
  induction n as [|n IH]; intros s tbl r H; cbn [p_rep] in H.
  - unfold pret in H. injection H as <- <-. exists [], []. split; [reflexivity|]. split; [reflexivity|].
    intros j h idxs Hj. destruct j; discriminate.
  - unfold pbind in H. destruct (p_bsm (cslots cs 1) s) as [[e s1]|] eqn:E; [|discriminate].
    destruct (p_rep n (p_bsm (cslots cs 1)) s1) as [[tbl' r']|] eqn:E2; [|discriminate]. unfold pret in H. injection H as <- <-.
    destruct (IH _ _ _ E2) as (vs & B & Hr & Hm & HB).
    unfold p_bsm, p_idx, pbind, plift in E. destruct (p_u16 s) as [[hi s0]|] eqn:E0; [|discriminate].
    destruct (get_handle (cslots cs 1) hi) as [h|] eqn:G; [|discriminate].
    destruct (p_list16 p_u16 s0) as [[a s0']|] eqn:Ea; [|discriminate]. unfold pret in E. injection E as <- <-.
    destruct (p_u16_app s hi s0 t E0) as [R0 Hhi].
    pose proof (p2r_vec16 impl dec (R.acc (BP.rpool dec cs)) p_u16 RF.FU16 _ (p2r_u16 impl dec _) _ _ _ t Ea) as Rv.
    assert (Hpos : Forall (fun z => 0 <= z) a).
    { clear -Ea. unfold p_list16, pbind in Ea. destruct (p_u16 s0) as [[k s2]|]; [|discriminate].
      revert s2 a s0' Ea. generalize (Z.to_nat k). induction n as [|n IHn]; intros s2 a s0' Ea; cbn [p_rep] in Ea.
      - unfold pret in Ea. injection Ea as <- _. constructor.
      - unfold pbind in Ea. destruct (p_u16 s2) as [[z s3]|] eqn:Ez; [|discriminate].
        destruct (p_rep n p_u16 s3) as [[zs s4]|] eqn:Er; [|discriminate]. unfold pret in Ea. injection Ea as <- _.
        constructor; [exact (proj2 (p_u16_app _ _ _ [] Ez))|exact (IHn _ _ _ Er)]. }
    exists (RF.VSeq [RF.VIx (Z.to_N hi) (BP.handle_val dec h); RF.VList (map (fun z => RF.VN (Z.to_N z)) a)] :: vs),
           ((Z.to_N hi, map Z.to_N a) :: B).
    split; [|split].
    + cbn [RF.rd_rep]. unfold bsm_fmt at 1. rewrite rd_seq2.
      rewrite (rd_idxraw impl dec _ 9%N _ _ _ _ R0 (acc9 dec cs hi h G)). cbn [Base.Str.bind]. rewrite Rv. cbn [Base.Str.bind].
      rewrite Hr. reflexivity.
    + cbn [RP.map_res R.bsm_entry]. rewrite (args_entry a Hpos). cbn [Base.Str.bind]. rewrite Hm. reflexivity.
    + intros j h' idxs Hj. destruct j as [|j]; cbn [nth_error] in *.
      * injection Hj as <- <-. exists hi. repeat split; [exact Hhi|exact G].
      * exact (HB j h' idxs Hj).
Qed.

Theorem bootstrap_table_read impl dec cs s tbl r t : p_list16 (p_bsm (cslots cs 1)) s = Some (tbl, r) ->
  exists vs B, RF.rd_fmt impl dec (R.acc (BP.rpool dec cs)) RFo.f_BootstrapMethods (s ++ t) = Ok (RF.VList vs, r ++ t) /\
               RP.map_res R.bsm_entry vs = Ok B /\ table_agrees cs tbl B.
Proof.
  unfold p_list16, pbind. destruct (p_u16 s) as [[n s1]|] eqn:E; [|discriminate]. intros H.
  destruct (bsm_rep_read impl dec cs t _ _ _ _ H) as (vs & B & Hr & Hm & HB). exists vs, B. split; [|split; assumption].
  rewrite bsm_table_fmt. cbn [RF.rd_fmt]. destruct (p_u16_app s n s1 t E) as [-> Hn]. cbn [Base.Str.bind].
  replace (N.to_nat (Z.to_N n)) with (Z.to_nat n) by lia.
  fold (RF.rd_fmt impl dec (R.acc (BP.rpool dec cs)) bsm_fmt). rewrite Hr. reflexivity.
Qed.
