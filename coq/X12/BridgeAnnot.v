(* X12 — bridge, part 21: ANNOTATIONS through C01's element_value format.
   C02's decoder (Decode.v parse_elem: JVMS 4.7.16.1, fuel = bytes) returns the element-value tree; C01's reader reads
   [ev_fmt k] (tag-selected; annotation- and array-valued elements nest at most max_ev_nesting = 64 deep: duke's
   deliberate limit).  For every tree of depth <= k, C01 reads from the same bytes the value [ev_val dec e]:
   constants through the narrowing accessors (B as i8, C as u16, S as i16, Z as != 0, I, J, F, D, s), enum constants,
   class literals, nested annotations and arrays, every string decoded. *)
From Coq Require Import List NArith ZArith Bool Lia.
From FB Require Import C02.Model C02.Encode C02.Theory2 C02.Theory8 C02.Frames C02.Class C02.Decode C02.Facts
  C02.TheoryC1 C02.TheoryC2.
From FB Require C01.Bytes C01.Pool C01.Attr C01.Tables C01.Fmt C01.Formats C01.ClassFile.
From FB Require X12.BridgePool.
From FB Require Import X12.BridgeClass X12.BridgeMembers X12.BridgeCode X12.BridgeFmt X12.BridgeDyn X12.BridgeFile X12.BridgeFmt2 X12.BridgeFrames.
Import ListNotations.
Local Open Scope Z_scope.

Definition econst_val (dec : RB.bytes -> res str) (tag : N) (k : econst) : RP.cval :=
  match k with
  | ECInt v => RP.VInt (if (tag =? 66)%N then RB.s8 (RB.u8 v)
                        else if (tag =? 67)%N then Z.of_N (RB.u16 v)
                        else if (tag =? 83)%N then RB.s16 (RB.u16 v)
                        else if (tag =? 90)%N then (if v =? 0 then 0 else 1)
                        else v)
  | ECFloat b => RP.VFloat (Z.to_N b) | ECLong v => RP.VLong v | ECDouble b => RP.VDouble (Z.to_N b)
  | ECUtf8 s => RP.VUtf8 (BP.sdec dec s)
  end.
Definition u8v (dec : RB.bytes -> res str) (s : bytes) : RF.val := RF.VC (RP.VUtf8 (BP.sdec dec s)).
Fixpoint ev_val (dec : RB.bytes -> res str) (e : elem) : RF.val :=
  match e with
  | EConst tag k => RF.VTag tag (RF.VC (econst_val dec tag k))
  | EEnum tn cn => RF.VTag 101%N (RF.VSeq [u8v dec tn; u8v dec cn])
  | EClass d => RF.VTag 99%N (u8v dec d)
  | EAnnot ty ps => RF.VTag 64%N (RF.VSeq [u8v dec ty; RF.VList (map (fun p => RF.VSeq [u8v dec (fst p); ev_val dec (snd p)]) ps)])
  | EArray vs => RF.VTag 91%N (RF.VList (map (ev_val dec) vs))
  end.
Fixpoint ev_depth (e : elem) : nat :=
  match e with
  | EAnnot _ ps => S (fold_right Nat.max 0%nat (map (fun p => ev_depth (snd p)) ps))
  | EArray vs => S (fold_right Nat.max 0%nat (map ev_depth vs))
  | _ => 0%nat
  end.

(* constants: the accessor C01's table selects for the tag delivers the narrowed constant *)
Definition acc_of (t : Z) : N :=
  if t =? 66 then 14%N else if t =? 67 then 15%N else if t =? 68 then 20%N else if t =? 70 then 19%N else if t =? 73 then 13%N
  else if t =? 74 then 18%N else if t =? 83 then 16%N else if t =? 90 then 17%N else 8%N.
Definition const_tag (t : Z) : bool :=
  (t =? 66) || (t =? 67) || (t =? 68) || (t =? 70) || (t =? 73) || (t =? 74) || (t =? 83) || (t =? 90) || (t =? 115).

Lemma acc_econst dec cs t i ec : const_tag t = true -> get_econst t (cslots cs 1) i = Some ec ->
  R.acc (BP.rpool dec cs) (acc_of t) (Z.to_N i) = Ok (econst_val dec (Z.to_N t) ec).
Proof.
  intros Ht H. unfold get_econst in H. destruct (cp_get (cslots cs 1) i) as [e|] eqn:E; [|discriminate].
  pose proof (BP.pget_rpool dec cs i e E) as P.
  unfold const_tag in Ht.
  repeat (apply orb_true_iff in Ht; destruct Ht as [Ht|Ht]); apply Z.eqb_eq in Ht; subst t;
    destruct e; cbn in H; try discriminate; injection H as <-;
    first [ unfold R.acc, acc_of; rewrite P; reflexivity
          | apply (acc8 dec cs i); unfold get_utf8; rewrite E; reflexivity ].
Qed.

Lemma sel_const t : const_tag t = true ->
  forall nest inner impl, R.ev_tag_ok nest impl (Z.to_N t) = true /\ R.ev_sel inner (Z.to_N t) = RF.FIdx (acc_of t).
Proof.
  intros Ht nest inner impl. unfold const_tag in Ht.
  repeat (apply orb_true_iff in Ht; destruct Ht as [Ht|Ht]); apply Z.eqb_eq in Ht; subst t; split; reflexivity.
Qed.

Lemma ev_fmt_unfold k : R.ev_fmt k = RF.FTag (R.ev_tag_ok (match k with O => false | S _ => true end))
                                              (R.ev_sel (match k with O => None | S k' => Some (R.ev_fmt k') end)).
Proof. destruct k; reflexivity. Qed.

Lemma max_le_all {A} (f : A -> nat) l x : In x l -> (f x <= fold_right Nat.max 0%nat (map f l))%nat.
Proof. induction l as [|y l IH]; [intros []|]. cbn [map fold_right]. intros [->|H]; [lia|]. specialize (IH H). lia. Qed.

(* ELEMENT VALUES *)
Theorem elem_read impl dec cs : forall fuel k,
  p2rq (fun e => (ev_depth e <= k)%nat) (parse_elem fuel (cslots cs 1))
       (RF.rd_fmt impl dec (R.acc (BP.rpool dec cs)) (R.ev_fmt k)) (ev_val dec).
Proof.
  induction fuel as [|f IH]; intros k s e r t H Hd; [discriminate|].
  cbn [parse_elem] in H. unfold pbind at 1 in H. unfold p_u8 in H.
  destruct (rd_u8 s) as [[tg s1]|] eqn:E; [|discriminate]. destruct (rd_u8_app s tg s1 t E) as [R1 Ht].
  rewrite ev_fmt_unfold.
  fold (const_tag tg) in H. destruct (const_tag tg) eqn:Ct.
  { unfold pbind at 1 in H. destruct (p_idx (get_econst tg) (cslots cs 1) s1) as [[ec s2]|] eqn:E2; [|discriminate].
    unfold pret in H. injection H as <- <-.
    destruct (sel_const tg Ct (match k with O => false | S _ => true end) (match k with O => None | S k' => Some (R.ev_fmt k') end) impl) as [Hok Hsel].
    apply (rd_tag impl dec _ _ _ _ (Z.to_N tg) (s1 ++ t) (RF.FIdx (acc_of tg))); [exact R1|exact Hok|exact Hsel|].
    exact (p2r_idx impl dec _ _ (get_econst tg) (acc_of tg) (econst_val dec (Z.to_N tg)) (fun i x G => acc_econst dec cs tg i x Ct G) _ _ _ t E2). }
  revert H. destruct (Z.eqb_spec tg 101) as [->|N101]; intros H.
  { unfold pbind in H.
    destruct (p_idx get_utf8 (cslots cs 1) s1) as [[a s2]|] eqn:Ea; [|discriminate].
    destruct (p_idx get_utf8 (cslots cs 1) s2) as [[b s3]|] eqn:Eb; [|discriminate]. unfold pret in H. injection H as <- <-.
    apply (rd_tag impl dec _ _ _ _ 101%N (s1 ++ t) (RF.FSeq [RF.FIdx 8%N; RF.FIdx 8%N])); [exact R1|destruct k; reflexivity|destruct k; reflexivity|].
    rewrite rd_seq2, (p2r_utf8 impl dec cs _ _ _ t Ea). cbn [Base.Str.bind]. rewrite (p2r_utf8 impl dec cs _ _ _ t Eb). reflexivity. }
  revert H. destruct (Z.eqb_spec tg 99) as [->|N99]; intros H.
  { unfold pbind in H.
    destruct (p_idx get_utf8 (cslots cs 1) s1) as [[a s2]|] eqn:Ea; [|discriminate]. unfold pret in H. injection H as <- <-.
    apply (rd_tag impl dec _ _ _ _ 99%N (s1 ++ t) (RF.FIdx 8%N)); [exact R1|destruct k; reflexivity|destruct k; reflexivity|].
    exact (p2r_utf8 impl dec cs _ _ _ t Ea). }
  revert H. destruct (Z.eqb_spec tg 64) as [->|N64]; intros H.
  { unfold pbind at 1 in H.
    destruct (p_idx get_utf8 (cslots cs 1) s1) as [[ty s2]|] eqn:Ea; [|discriminate]. unfold pbind at 1 in H.
    destruct (p_list16 (n <~ p_idx get_utf8 (cslots cs 1) ;; v <~ parse_elem f (cslots cs 1) ;; pret (n, v)) s2) as [[ps s3]|] eqn:Ep; [|discriminate].
    unfold pret in H. injection H as <- <-. cbn [ev_depth] in Hd. destruct k as [|k']; [lia|].
    apply (rd_tag impl dec _ _ _ _ 64%N (s1 ++ t) (RF.FSeq [RF.FIdx 8%N; RF.FVec16 (RF.FSeq [RF.FIdx 8%N; R.ev_fmt k'])])); [exact R1|reflexivity|reflexivity|].
    rewrite rd_seq2, (p2r_utf8 impl dec cs _ _ _ t Ea). cbn [Base.Str.bind].
    assert (Q : p2rq (fun p : bytes * elem => (ev_depth (snd p) <= k')%nat)
                     (n <~ p_idx get_utf8 (cslots cs 1) ;; v <~ parse_elem f (cslots cs 1) ;; pret (n, v))
                     (RF.rd_fmt impl dec (R.acc (BP.rpool dec cs)) (RF.FSeq [RF.FIdx 8%N; R.ev_fmt k']))
                     (fun p => RF.VSeq [u8v dec (fst p); ev_val dec (snd p)])).
    { intros s0 p r0 t0 H0 Hp. unfold pbind, pret in H0.
      destruct (p_idx get_utf8 (cslots cs 1) s0) as [[n s4]|] eqn:En; [|discriminate].
      destruct (parse_elem f (cslots cs 1) s4) as [[v s5]|] eqn:Ev; [|discriminate]. injection H0 as <- <-. cbn [fst snd] in *.
      rewrite rd_seq2, (p2r_utf8 impl dec cs _ _ _ t0 En). cbn [Base.Str.bind].
      rewrite (IH k' _ _ _ t0 Ev Hp). reflexivity. }
    rewrite (p2rq_vec16 _ impl dec _ _ _ _ Q _ _ _ t Ep); [reflexivity|].
    apply Forall_forall. intros p Hin. pose proof (max_le_all (fun p => ev_depth (snd p)) ps p Hin). lia. }
  revert H. destruct (Z.eqb_spec tg 91) as [->|N91]; intros H; [|discriminate].
  unfold pbind at 1 in H.
  destruct (p_list16 (parse_elem f (cslots cs 1)) s1) as [[vs s3]|] eqn:Ep; [|discriminate].
  unfold pret in H. injection H as <- <-. cbn [ev_depth] in Hd. destruct k as [|k']; [lia|].
  apply (rd_tag impl dec _ _ _ _ 91%N (s1 ++ t) (RF.FVec16 (R.ev_fmt k'))); [exact R1|reflexivity|reflexivity|].
  apply (p2rq_vec16 _ impl dec _ _ _ _ (IH k') _ _ _ t Ep).
  apply Forall_forall. intros p Hin. pose proof (max_le_all ev_depth vs p Hin). lia.
Qed.

(* ---------------------------------------------------------------------------------------------- *)
(* annotations *)
Definition max_nest : nat := RFo.max_ev_nesting.
Definition pair_val (dec : RB.bytes -> res str) (p : bytes * elem) : RF.val := RF.VSeq [u8v dec (fst p); ev_val dec (snd p)].
Definition ann_val (dec : RB.bytes -> res str) (a : annotation) : RF.val :=
  RF.VSeq [u8v dec (fst a); RF.VList (map (pair_val dec) (snd a))].
Definition ev_nest_ok (e : elem) : bool := Nat.leb (ev_depth e) max_nest.
Definition pairs_ok (ps : list (bytes * elem)) : bool := forallb (fun p => ev_nest_ok (snd p)) ps.
Definition ann_ok (a : annotation) : bool := pairs_ok (snd a).

Lemma p2rq_elem impl dec cs :
  p2rq (fun e => ev_nest_ok e = true) (p_elem (cslots cs 1)) (RF.rd_fmt impl dec (R.acc (BP.rpool dec cs)) (R.ev_fmt RFo.max_ev_nesting)) (ev_val dec).
Proof.
  intros s e r t H HQ. unfold p_elem in H. apply (elem_read impl dec cs _ _ _ _ _ t H). apply Nat.leb_le. exact HQ.
Qed.
Lemma p2rq_pairs impl dec cs :
  p2rq (fun ps => pairs_ok ps = true) (p_pairs (cslots cs 1)) (RF.rd_fmt impl dec (R.acc (BP.rpool dec cs)) R.pairs_fmt)
       (fun ps => RF.VList (map (pair_val dec) ps)).
Proof.
  assert (Q : p2rq (fun p : bytes * elem => ev_nest_ok (snd p) = true)
                   (n <~ p_idx get_utf8 (cslots cs 1) ;; v <~ p_elem (cslots cs 1) ;; pret (n, v))
                   (RF.rd_fmt impl dec (R.acc (BP.rpool dec cs)) (RF.FSeq [RF.FIdx 8%N; R.ev_fmt RFo.max_ev_nesting])) (pair_val dec)).
  { intros s0 p r0 t0 H0 Hp. unfold pbind, pret in H0. destruct (p_idx get_utf8 (cslots cs 1) s0) as [[n s4]|] eqn:En; [|discriminate].
    destruct (p_elem (cslots cs 1) s4) as [[v s5]|] eqn:Ev; [|discriminate]. injection H0 as <- <-. cbn [fst snd] in *.
    rewrite rd_seq2, (p2r_utf8 impl dec cs _ _ _ t0 En). cbn [Base.Str.bind].
    rewrite (p2rq_elem impl dec cs _ _ _ t0 Ev Hp). reflexivity. }
  intros s ps r t H HQ. unfold p_pairs in H. unfold R.pairs_fmt.
  apply (p2rq_vec16 _ impl dec _ _ _ _ Q _ _ _ t H).
  apply (forallb_Forall (fun p : bytes * elem => ev_nest_ok (snd p))); [intros x Hx; exact Hx|exact HQ].
Qed.

Lemma p2rq_annotation impl dec cs :
  p2rq (fun a => ann_ok a = true) (p_annotation (cslots cs 1)) (RF.rd_fmt impl dec (R.acc (BP.rpool dec cs)) R.annotation_fmt) (ann_val dec).
Proof.
  intros s a r t H HQ. unfold p_annotation, pbind, pret in H.
  destruct (p_idx get_utf8 (cslots cs 1) s) as [[ty s1]|] eqn:Et; [|discriminate].
  destruct (p_pairs (cslots cs 1) s1) as [[ps s2]|] eqn:Ep; [|discriminate]. injection H as <- <-.
  unfold R.annotation_fmt. rewrite rd_seq2, (p2r_utf8 impl dec cs _ _ _ t Et). cbn [Base.Str.bind].
  rewrite (p2rq_pairs impl dec cs _ _ _ t Ep HQ). reflexivity.
Qed.
Definition anns_ok (l : list annotation) : bool := forallb ann_ok l.
Lemma p2rq_annotations impl dec cs :
  p2rq (fun l => anns_ok l = true) (p_annotations (cslots cs 1)) (RF.rd_fmt impl dec (R.acc (BP.rpool dec cs)) R.annotations_fmt)
       (fun l => RF.VList (map (ann_val dec) l)).
Proof.
  intros s l r t H HQ. unfold p_annotations in H. unfold R.annotations_fmt.
  apply (p2rq_vec16 _ impl dec _ _ _ _ (p2rq_annotation impl dec cs) _ _ _ t H).
  apply (forallb_Forall ann_ok); [intros x Hx; exact Hx|exact HQ].
Qed.

(* ---- the attributes ---- *)
Lemma p2rq_map {A B} (Q : A -> Prop) (Q' : B -> Prop) (p0 : parser A) (k : A -> B) rd tv0 tv :
  p2rq Q p0 rd tv0 -> (forall x, tv (k x) = tv0 x) -> (forall x, Q' (k x) -> Q x) -> p2rq Q' (x <~ p0 ;; pret (k x)) rd tv.
Proof.
  intros H Hk HQ s a r t E Ha. unfold pbind, pret in E. destruct (p0 s) as [[x s1]|] eqn:E0; [|discriminate]. injection E as <- <-.
  rewrite Hk. exact (H _ _ _ t E0 (HQ _ Ha)).
Qed.

Lemma name_Annotations l c nb q len s2 vis la r : (l = AtClass \/ l = AtField \/ l = AtMethod) -> attr_body l c nb = Some q ->
  p_block len q s2 = Some (ALeaf (AAnnotations vis la), r) -> nb = if vis then s_RVAnn else s_RIAnn.
Proof. intros [ -> | [ -> | -> ] ] Hq Hb; destruct vis; namelemma Hq Hb. Qed.
Lemma name_AnnotationDefault c nb q len s2 x r : attr_body AtMethod c nb = Some q ->
  p_block len q s2 = Some (AAnnotationDefault x, r) -> nb = s_AnnotationDefault.
Proof. intros Hq Hb; namelemma Hq Hb. Qed.

Definition names5 (dec : RB.bytes -> res str) : bool :=
  str_eqb (BP.sdec dec s_RVAnn) RFo.a_RuntimeVisibleAnnotations && str_eqb (BP.sdec dec s_RIAnn) RFo.a_RuntimeInvisibleAnnotations
  && str_eqb (BP.sdec dec s_AnnotationDefault) RFo.a_AnnotationDefault.
Definition ann_sel_ok (sel : str -> N -> RF.fmt) : Prop :=
  (forall len, sel RFo.a_RuntimeVisibleAnnotations len = R.annotations_fmt) /\
  (forall len, sel RFo.a_RuntimeInvisibleAnnotations len = R.annotations_fmt).
Definition v_Annotations (dec : RB.bytes -> res str) (vis : bool) (la : list annotation) : RF.val :=
  RF.VAttr (if vis then RFo.a_RuntimeVisibleAnnotations else RFo.a_RuntimeInvisibleAnnotations) (RF.VList (map (ann_val dec) la)).

Theorem attr_Annotations impl dec cs l sel s vis la r t :
  BP.sdec dec s_RVAnn = RFo.a_RuntimeVisibleAnnotations -> BP.sdec dec s_RIAnn = RFo.a_RuntimeInvisibleAnnotations ->
  (l = AtClass \/ l = AtField \/ l = AtMethod) -> ann_sel_ok sel -> anns_ok la = true ->
  p_attr l (cslots cs 1) s = Some (ALeaf (AAnnotations vis la), r) ->
  RF.rd_fmt impl dec (R.acc (BP.rpool dec cs)) (RF.FAttr sel) (s ++ t) = Ok (v_Annotations dec vis la, r ++ t).
Proof.
  intros N1 N2 Hl (S1 & S2) Ha H.
  pose (tv0 := fun a0 => match a0 with AAnnotations _ x => RF.VList (map (ann_val dec) x) | _ => RF.VSeq [] end).
  pose (Q0 := fun a0 => match a0 with AAnnotations _ x => anns_ok x = true | _ => True end).
  destruct vis.
  - apply (attr_leaf Q0 impl dec cs l sel (x <~ p_annotations (cslots cs 1) ;; pret (AAnnotations true x)) s_RVAnn RFo.a_RuntimeVisibleAnnotations
             R.annotations_fmt tv0 s _ r t H).
    + intros nb q len s2 r' Hq Hb. exact (name_Annotations l _ _ _ _ _ true _ _ Hl Hq Hb).
    + destruct Hl as [ -> | [ -> | -> ] ]; reflexivity.
    + exact N1.
    + exact S1.
    + apply (p2rq_map (fun x => anns_ok x = true) Q0 _ (AAnnotations true) _ (fun x => RF.VList (map (ann_val dec) x)));
        [apply p2rq_annotations|reflexivity|intros x Hx; exact Hx].
    + exact Ha.
    + intros; discriminate.
  - apply (attr_leaf Q0 impl dec cs l sel (x <~ p_annotations (cslots cs 1) ;; pret (AAnnotations false x)) s_RIAnn RFo.a_RuntimeInvisibleAnnotations
             R.annotations_fmt tv0 s _ r t H).
    + intros nb q len s2 r' Hq Hb. exact (name_Annotations l _ _ _ _ _ false _ _ Hl Hq Hb).
    + destruct Hl as [ -> | [ -> | -> ] ]; reflexivity.
    + exact N2.
    + exact S2.
    + apply (p2rq_map (fun x => anns_ok x = true) Q0 _ (AAnnotations false) _ (fun x => RF.VList (map (ann_val dec) x)));
        [apply p2rq_annotations|reflexivity|intros x Hx; exact Hx].
    + exact Ha.
    + intros; discriminate.
Qed.

Lemma ann_sel_class : ann_sel_ok R.class_sel. Proof. split; intros len; reflexivity. Qed.
Lemma ann_sel_field : ann_sel_ok R.field_sel. Proof. split; intros len; reflexivity. Qed.
Lemma ann_sel_method : ann_sel_ok R.method_sel. Proof. split; intros len; reflexivity. Qed.

(* ---- AnnotationDefault (method) ---- *)
Definition v_AnnotationDefault (dec : RB.bytes -> res str) (e : elem) : RF.val := RF.VAttr RFo.a_AnnotationDefault (ev_val dec e).
Theorem attr_AnnotationDefault impl dec cs s e r t : BP.sdec dec s_AnnotationDefault = RFo.a_AnnotationDefault -> ev_nest_ok e = true ->
  p_attr AtMethod (cslots cs 1) s = Some (AAnnotationDefault e, r) ->
  RF.rd_fmt impl dec (R.acc (BP.rpool dec cs)) (RF.FAttr R.method_sel) (s ++ t) = Ok (v_AnnotationDefault dec e, r ++ t).
Proof.
  intros Hn He H. unfold p_attr in H.
  destruct (attr_p2r (fun x => ev_nest_ok x = true) impl dec cs _ _ R.method_sel AAnnotationDefault (p_elem (cslots cs 1)) s_AnnotationDefault
              RFo.a_AnnotationDefault (R.ev_fmt RFo.max_ev_nesting) (ev_val dec) s _ r t H) as (y & Ey & Hr).
  - intros nb q Hq len s2 y r' Hb ->. exact (name_AnnotationDefault _ _ _ _ _ _ _ Hq Hb).
  - reflexivity.
  - exact Hn.
  - intros len. reflexivity.
  - apply p2rq_elem.
  - intros y [= <-]. exact He.
  - intros nb b. discriminate.
  - injection Ey as <-. exact Hr.
Qed.
