(* X12 — bridge, part 23: Module, ModulePackages, ModuleMainClass (class level) through C01's formats. *)
From Coq Require Import List NArith ZArith Bool Lia.
From FB Require Import C02.Model C02.Encode C02.Theory2 C02.Theory8 C02.Frames C02.Class C02.Decode C02.Facts
  C02.TheoryC1 C02.TheoryC2.
From FB Require C01.Bytes C01.Pool C01.Attr C01.Tables C01.Fmt C01.Formats C01.ClassFile.
From FB Require X12.BridgePool.
From FB Require Import X12.BridgeClass X12.BridgeMembers X12.BridgeCode X12.BridgeFmt X12.BridgeDyn X12.BridgeFile X12.BridgeFmt2 X12.BridgeFrames.
Import ListNotations.
Local Open Scope Z_scope.

Lemma name_Module c nb q len s2 x r : attr_body AtClass c nb = Some q ->
  p_block len q s2 = Some (AModule x, r) -> nb = s_Module.
Proof. intros Hq Hb; namelemma Hq Hb. Qed.
Lemma name_ModulePackages c nb q len s2 x r : attr_body AtClass c nb = Some q ->
  p_block len q s2 = Some (AModulePackages x, r) -> nb = s_ModulePackages.
Proof. intros Hq Hb; namelemma Hq Hb. Qed.
Lemma name_ModuleMainClass c nb q len s2 x r : attr_body AtClass c nb = Some q ->
  p_block len q s2 = Some (AModuleMainClass x, r) -> nb = s_ModuleMainClass.
Proof. intros Hq Hb; namelemma Hq Hb. Qed.

Definition names6 (dec : RB.bytes -> res str) : bool :=
  str_eqb (BP.sdec dec s_Module) RFo.a_Module && str_eqb (BP.sdec dec s_ModulePackages) RFo.a_ModulePackages
  && str_eqb (BP.sdec dec s_ModuleMainClass) RFo.a_ModuleMainClass.

Definition modv (dec : RB.bytes -> res str) (x : bytes) : RF.val := RF.VC (RP.VModule (BP.sdec dec x)).
Definition pkgv (dec : RB.bytes -> res str) (x : bytes) : RF.val := RF.VC (RP.VPackage (BP.sdec dec x)).
Lemma acc11 dec cs i n : get_module (cslots cs 1) i = Some n ->
  R.acc (BP.rpool dec cs) 11%N (Z.to_N i) = Ok (RP.VModule (BP.sdec dec n)).
Proof.
  intros H. pose proof (BP.ag_module dec cs i n H) as G. unfold R.acc. cbn. unfold RP.resolve_kind. cbn.
  unfold BP.get_module_r in G. unfold RP.get_module. destruct (RP.pget (BP.rpool dec cs) (Z.to_N i)) as [e|]; [|discriminate].
  cbn [Base.Str.bind] in *. destruct e; try discriminate. rewrite G. reflexivity.
Qed.
Lemma acc12 dec cs i n : get_package (cslots cs 1) i = Some n ->
  R.acc (BP.rpool dec cs) 12%N (Z.to_N i) = Ok (RP.VPackage (BP.sdec dec n)).
Proof.
  intros H. pose proof (BP.ag_package dec cs i n H) as G. unfold R.acc. cbn. unfold RP.resolve_kind. cbn.
  unfold BP.get_package_r in G. unfold RP.get_package. destruct (RP.pget (BP.rpool dec cs) (Z.to_N i)) as [e|]; [|discriminate].
  cbn [Base.Str.bind] in *. destruct e; try discriminate. rewrite G. reflexivity.
Qed.
Lemma p2r_modidx impl dec cs :
  p2r (p_idx get_module (cslots cs 1)) (RF.rd_fmt impl dec (R.acc (BP.rpool dec cs)) (RF.FIdx 11%N)) (modv dec).
Proof. apply p2r_idx. intros i x G. exact (acc11 dec cs i x G). Qed.
Lemma p2r_pkgidx impl dec cs :
  p2r (p_idx get_package (cslots cs 1)) (RF.rd_fmt impl dec (R.acc (BP.rpool dec cs)) (RF.FIdx 12%N)) (pkgv dec).
Proof. apply p2r_idx. intros i x G. exact (acc12 dec cs i x G). Qed.

Lemma p2r_seq3 {A B C D} impl dec rs (p1 : parser A) (p2 : parser B) (p3 : parser C) (k : A -> B -> C -> D) f1 f2 f3 tv1 tv2 tv3 tv :
  p2r p1 (RF.rd_fmt impl dec rs f1) tv1 -> p2r p2 (RF.rd_fmt impl dec rs f2) tv2 -> p2r p3 (RF.rd_fmt impl dec rs f3) tv3 ->
  (forall a b c, tv (k a b c) = RF.VSeq [tv1 a; tv2 b; tv3 c]) ->
  p2r (a <~ p1 ;; b <~ p2 ;; c <~ p3 ;; pret (k a b c)) (RF.rd_fmt impl dec rs (RF.FSeq [f1; f2; f3])) tv.
Proof.
  intros H1 H2 H3 Hk s x r t H. unfold pbind, pret in H.
  destruct (p1 s) as [[a s1]|] eqn:E1; [|discriminate]. destruct (p2 s1) as [[b s2]|] eqn:E2; [|discriminate].
  destruct (p3 s2) as [[c s3]|] eqn:E3; [|discriminate]. injection H as <- <-.
  rewrite rd_seq3, (H1 _ _ _ t E1). cbn [Base.Str.bind]. rewrite (H2 _ _ _ t E2). cbn [Base.Str.bind].
  rewrite (H3 _ _ _ t E3). cbn [Base.Str.bind]. rewrite Hk. reflexivity.
Qed.

(* ---- ModuleMainClass, ModulePackages ---- *)
Definition v_ModuleMainClass dec (c : bytes) : RF.val := RF.VAttr RFo.a_ModuleMainClass (cls dec c).
Definition v_ModulePackages dec (l : list bytes) : RF.val := RF.VAttr RFo.a_ModulePackages (RF.VList (map (pkgv dec) l)).
Theorem attr_ModuleMainClass impl dec cs s x r t : BP.sdec dec s_ModuleMainClass = RFo.a_ModuleMainClass ->
  p_attr AtClass (cslots cs 1) s = Some (AModuleMainClass x, r) ->
  RF.rd_fmt impl dec (R.acc (BP.rpool dec cs)) (RF.FAttr R.class_sel) (s ++ t) = Ok (v_ModuleMainClass dec x, r ++ t).
Proof.
  intros Hn H. unfold p_attr in H.
  destruct (attr_p2r (fun _ => True) impl dec cs _ _ R.class_sel AModuleMainClass (p_idx get_class (cslots cs 1)) s_ModuleMainClass RFo.a_ModuleMainClass
              (RF.FIdx 6%N) (cls dec) s _ r t H) as (y & Ey & Hr).
  - intros nb q Hq len s2 y r' Hb ->. exact (name_ModuleMainClass _ _ _ _ _ _ _ Hq Hb).
  - reflexivity.
  - exact Hn.
  - intros len. reflexivity.
  - apply p2r_q. apply p2r_class.
  - intros; exact I.
  - intros nb b. discriminate.
  - injection Ey as <-. exact Hr.
Qed.
Theorem attr_ModulePackages impl dec cs s x r t : BP.sdec dec s_ModulePackages = RFo.a_ModulePackages ->
  p_attr AtClass (cslots cs 1) s = Some (AModulePackages x, r) ->
  RF.rd_fmt impl dec (R.acc (BP.rpool dec cs)) (RF.FAttr R.class_sel) (s ++ t) = Ok (v_ModulePackages dec x, r ++ t).
Proof.
  intros Hn H. unfold p_attr in H.
  destruct (attr_p2r (fun _ => True) impl dec cs _ _ R.class_sel AModulePackages (p_list16 (p_idx get_package (cslots cs 1))) s_ModulePackages
              RFo.a_ModulePackages (RF.FVec16 (RF.FIdx 12%N)) (fun l => RF.VList (map (pkgv dec) l)) s _ r t H) as (y & Ey & Hr).
  - intros nb q Hq len s2 y r' Hb ->. exact (name_ModulePackages _ _ _ _ _ _ _ Hq Hb).
  - reflexivity.
  - exact Hn.
  - intros len. reflexivity.
  - apply p2r_q. apply p2r_vec16. apply p2r_pkgidx.
  - intros; exact I.
  - intros nb b. discriminate.
  - injection Ey as <-. exact Hr.
Qed.

(* ---- Module ---- *)
Definition ou8 (dec : RB.bytes -> res str) (o : option bytes) : RF.val := RF.VO (option_map (fun n => RP.VUtf8 (BP.sdec dec n)) o).
Definition rq_val (dec : RB.bytes -> res str) (q : mrequires) : RF.val :=
  RF.VSeq [modv dec (rq_name q); RF.VN (RA.access_back 6 (Z.to_N (rq_flags q))); ou8 dec (rq_version q)].
Definition ex_val (dec : RB.bytes -> res str) (k : N) (e : mexports) : RF.val :=
  RF.VSeq [pkgv dec (ex_name e); RF.VN (RA.access_back k (Z.to_N (ex_flags e))); RF.VList (map (modv dec) (ex_to e))].
Definition pv_val (dec : RB.bytes -> res str) (p : mprovides) : RF.val :=
  RF.VSeq [cls dec (pv_name p); RF.VList (map (cls dec) (pv_with p))].
Definition mod_val (dec : RB.bytes -> res str) (m : cmodule) : RF.val :=
  RF.VSeq [modv dec (m_name m); RF.VN (RA.access_back 5 (Z.to_N (m_flags m))); ou8 dec (m_version m);
           RF.VList (map (rq_val dec) (m_requires m)); RF.VList (map (ex_val dec 7%N) (m_exports m));
           RF.VList (map (ex_val dec 8%N) (m_opens m)); RF.VList (map (cls dec) (m_uses m)); RF.VList (map (pv_val dec) (m_provides m))].
Definition v_Module dec (m : cmodule) : RF.val := RF.VAttr RFo.a_Module (mod_val dec m).

Lemma rd_seq_all impl dec rs l s :
  RF.rd_fmt impl dec rs (RF.FSeq l) s = (do (vs, s1) <- RF.rd_all (map (RF.rd_fmt impl dec rs) l) s; Ok (RF.VSeq vs, s1)).
Proof. reflexivity. Qed.

Lemma p2r_module_body impl dec cs :
  p2r (p_module (cslots cs 1)) (RF.rd_fmt impl dec (R.acc (BP.rpool dec cs)) RFo.f_Module) (mod_val dec).
Proof.
  intros s m r t H. unfold p_module in H.
  unfold pbind at 1 in H. destruct (p_idx get_module (cslots cs 1) s) as [[n s1]|] eqn:E1; [|discriminate].
  unfold pbind at 1 in H. destruct (p_u16 s1) as [[fl s2]|] eqn:E2; [|discriminate].
  unfold pbind at 1 in H. destruct (p_idx (get_opt get_utf8) (cslots cs 1) s2) as [[v s3]|] eqn:E3; [|discriminate].
  unfold pbind at 1 in H.
  match type of H with match ?p s3 with _ => _ end = _ => destruct (p s3) as [[rq s4]|] eqn:E4; [|discriminate] end.
  unfold pbind at 1 in H.
  match type of H with match ?p s4 with _ => _ end = _ => destruct (p s4) as [[ex s5]|] eqn:E5; [|discriminate] end.
  unfold pbind at 1 in H.
  match type of H with match ?p s5 with _ => _ end = _ => destruct (p s5) as [[op s6]|] eqn:E6; [|discriminate] end.
  unfold pbind at 1 in H.
  match type of H with match ?p s6 with _ => _ end = _ => destruct (p s6) as [[us s7]|] eqn:E7; [|discriminate] end.
  unfold pbind at 1 in H.
  match type of H with match ?p s7 with _ => _ end = _ => destruct (p s7) as [[pv s8]|] eqn:E8; [|discriminate] end.
  unfold pret in H. injection H as <- <-.
  unfold RFo.f_Module. rewrite rd_seq_all. cbn [map RF.rd_all].
  rewrite (p2r_modidx impl dec cs _ _ _ t E1). cbn [Base.Str.bind].
  rewrite (p2r_flags impl dec _ 5%N _ _ _ t E2). cbn [Base.Str.bind].
  rewrite (p2r_optidx8 impl dec cs _ _ _ t E3). cbn [Base.Str.bind].
  rewrite (p2r_vec16 impl dec _ _ _ (rq_val dec)
             (p2r_seq3 impl dec _ _ _ _ Build_mrequires _ _ _ _ _ _ (rq_val dec) (p2r_modidx impl dec cs) (p2r_flags impl dec _ 6%N) (p2r_optidx8 impl dec cs)
                (fun a b c => eq_refl)) _ _ _ t E4). cbn [Base.Str.bind].
  rewrite (p2r_vec16 impl dec _ _ _ (ex_val dec 7%N)
             (p2r_seq3 impl dec _ _ _ _ Build_mexports _ _ _ _ _ _ (ex_val dec 7%N) (p2r_pkgidx impl dec cs) (p2r_flags impl dec _ 7%N)
                (p2r_vec16 impl dec _ _ _ _ (p2r_modidx impl dec cs)) (fun a b c => eq_refl)) _ _ _ t E5). cbn [Base.Str.bind].
  rewrite (p2r_vec16 impl dec _ _ _ (ex_val dec 8%N)
             (p2r_seq3 impl dec _ _ _ _ Build_mexports _ _ _ _ _ _ (ex_val dec 8%N) (p2r_pkgidx impl dec cs) (p2r_flags impl dec _ 8%N)
                (p2r_vec16 impl dec _ _ _ _ (p2r_modidx impl dec cs)) (fun a b c => eq_refl)) _ _ _ t E6). cbn [Base.Str.bind].
  rewrite (p2r_vec16 impl dec _ _ _ _ (p2r_class impl dec cs) _ _ _ t E7). cbn [Base.Str.bind].
  rewrite (p2r_vec16 impl dec _ _ _ (pv_val dec)
             (p2r_seq2 impl dec _ _ _ Build_mprovides _ _ _ _ (pv_val dec) (p2r_class impl dec cs)
                (p2r_vec16 impl dec _ _ _ _ (p2r_class impl dec cs)) (fun a b => eq_refl)) _ _ _ t E8). cbn [Base.Str.bind].
  reflexivity.
Qed.

Theorem attr_Module impl dec cs s x r t : BP.sdec dec s_Module = RFo.a_Module ->
  p_attr AtClass (cslots cs 1) s = Some (AModule x, r) ->
  RF.rd_fmt impl dec (R.acc (BP.rpool dec cs)) (RF.FAttr R.class_sel) (s ++ t) = Ok (v_Module dec x, r ++ t).
Proof.
  intros Hn H. unfold p_attr in H.
  destruct (attr_p2r (fun _ => True) impl dec cs _ _ R.class_sel AModule (p_module (cslots cs 1)) s_Module RFo.a_Module
              RFo.f_Module (mod_val dec) s _ r t H) as (y & Ey & Hr).
  - intros nb q Hq len s2 y r' Hb ->. exact (name_Module _ _ _ _ _ _ _ Hq Hb).
  - reflexivity.
  - exact Hn.
  - intros len. reflexivity.
  - apply p2r_q. apply p2r_module_body.
  - intros; exact I.
  - intros nb b. discriminate.
  - injection Ey as <-. exact Hr.
Qed.
