(* X12 — bridge, part 25: TYPE ANNOTATIONS (RuntimeVisibleTypeAnnotations / RuntimeInvisibleTypeAnnotations) at class,
   field, method, record-component level and inside Code.
   C01 selects the layout of target_info from a table PER LOCATION (target_class_tbl, target_field_tbl, target_method_tbl
   with the javac extra, target_code_tbl); C02's decoder accepts every non-Code target at every non-Code location.  The
   two agree under [tgt_ok impl tbl extra tg] (decidable on the decoder's answer): C01's own tag test for that location,
   and the field layout its table gives the tag is the layout C02's decoder parsed. *)
From Coq Require Import List NArith ZArith Bool Lia.
From FB Require Import C02.Model C02.Encode C02.Theory2 C02.Theory8 C02.Frames C02.Class C02.Decode C02.Facts
  C02.TheoryC1 C02.TheoryC2.
From FB Require C01.Bytes C01.Pool C01.Attr C01.Tables C01.Fmt C01.Formats C01.ClassFile.
From FB Require X12.BridgePool.
From FB Require Import X12.BridgeClass X12.BridgeMembers X12.BridgeCode X12.BridgeFmt X12.BridgeDyn X12.BridgeFile X12.BridgeFmt2 X12.BridgeFrames
  X12.BridgeFmt3 X12.BridgeUnknown X12.BridgeAnnot X12.BridgeModule X12.BridgeRecord.
Import ListNotations.
Local Open Scope Z_scope.

Definition target_ty (tg : target Z) : N :=
  match tg with
  | TTypeParameter ty _ | TSupertype ty _ | TTypeParameterBound ty _ _ | TEmpty ty | TFormalParameter ty _ | TThrows ty _
  | TLocalVar ty _ | TCatch ty _ | TOffset ty _ | TTypeArgument ty _ _ => ty
  end.
(* the layout C02's decoder parsed, in C01's field codes (0 u8, 1 u16, 2 bytecode offset, 3 local-variable table) *)
Definition tfields (tg : target Z) : list N :=
  match tg with
  | TTypeParameter _ _ | TFormalParameter _ _ => [0] | TSupertype _ _ | TThrows _ _ | TCatch _ _ => [1]
  | TTypeParameterBound _ _ _ => [0; 0] | TEmpty _ => [] | TLocalVar _ _ => [3] | TOffset _ _ => [2] | TTypeArgument _ _ _ => [2; 0]
  end%N.
Definition zn (z : Z) : RF.val := RF.VN (Z.to_N z).
Definition lvr_val (e : Z * Z * Z) : RF.val := RF.VSeq [RF.VRange (Z.to_N (fst (fst e))) (Z.to_N (snd (fst e))); zn (snd e)].
Definition target_val (tg : target Z) : RF.val :=
  RF.VTag (target_ty tg)
    (RF.VSeq match tg with
             | TTypeParameter _ i | TSupertype _ i | TFormalParameter _ i | TThrows _ i | TCatch _ i => [zn i]
             | TTypeParameterBound _ p b => [zn p; zn b]
             | TEmpty _ => []
             | TLocalVar _ tb => [RF.VList (map lvr_val tb)]
             | TOffset _ o => [RF.VPc 0 (Z.to_N o)]
             | TTypeArgument _ o i => [RF.VPc 0 (Z.to_N o); zn i]
             end).
Fixpoint lN_eqb (a b : list N) : bool :=
  match a, b with [], [] => true | x :: a', y :: b' => (x =? y)%N && lN_eqb a' b' | _, _ => false end.
Lemma lN_eqb_eq a : forall b, lN_eqb a b = true -> a = b.
Proof.
  induction a as [|x a IH]; intros [|y b]; cbn [lN_eqb]; try discriminate; [reflexivity|].
  intros H. apply andb_prop in H. destruct H as [H1 H2]. apply N.eqb_eq in H1. rewrite H1, (IH _ H2). reflexivity.
Qed.
Definition tgt_ok (impl : bool) (tbl extra : list (N * list N)) (tg : target Z) : bool :=
  (R.in_tbl (target_ty tg) tbl || (negb impl && R.in_tbl (target_ty tg) extra))
  && lN_eqb (R.tbl_get (target_ty tg) (tbl ++ extra)) (tfields tg).

Lemma p2r_u8 impl dec rs : p2r p_u8 (RF.rd_fmt impl dec rs RF.FU8) zn.
Proof. intros s a r t H. cbn [RF.rd_fmt]. destruct (rd_u8_app s a r t H) as [-> _]. reflexivity. Qed.
Lemma p2r_lvr impl dec rs :
  p2r (s <~ p_u16 ;; l <~ p_u16 ;; i <~ p_u16 ;; pret (s, l, i)) (RF.rd_fmt impl dec rs (RF.FSeq [RF.FRange; RF.FU16])) lvr_val.
Proof.
  intros s x r t H. unfold pbind, pret in H. destruct (p_u16 s) as [[a s1]|] eqn:E1; [|discriminate].
  destruct (p_u16 s1) as [[l s2]|] eqn:E2; [|discriminate]. destruct (p_u16 s2) as [[i s3]|] eqn:E3; [|discriminate]. injection H as <- <-.
  rewrite rd_seq2. cbn [RF.rd_fmt]. destruct (p_u16_app _ _ _ t E1) as [-> _]. cbn [Base.Str.bind].
  destruct (p_u16_app _ _ _ t E2) as [-> _]. cbn [Base.Str.bind]. destruct (p_u16_app _ _ _ t E3) as [-> _]. reflexivity.
Qed.

Ltac tgt_open Hok R1 s1 t :=
  unfold tgt_ok in Hok; cbn [target_ty tfields] in Hok; apply andb_prop in Hok;
  let H1 := fresh "Hok1" in let H2 := fresh "Hok2" in destruct Hok as [H1 H2]; apply lN_eqb_eq in H2;
  unfold R.target_fmt, target_val; cbn [target_ty];
  eapply (rd_tag _ _ _ _ _ _ _ (s1 ++ t)); [exact R1|exact H1|cbv beta; rewrite H2; reflexivity|];
  rewrite rd_seq_all; cbn [map RF.rd_all R.target_field_fmt].

(* TARGET_INFO *)
Theorem target_read impl dec rs tbl extra ic s tg r t :
  p_target ic s = Some (tg, r) -> tgt_ok impl tbl extra tg = true ->
  RF.rd_fmt impl dec rs (R.target_fmt tbl extra) (s ++ t) = Ok (target_val tg, r ++ t).
Proof.
  intros H Hok. unfold p_target in H. unfold pbind at 1 in H. unfold p_u8 at 1 in H.
  destruct (rd_u8 s) as [[tn s1]|] eqn:E; [|discriminate]. destruct (rd_u8_app s tn s1 t E) as [R1 _]. cbv beta zeta in H.
  destruct ic.
  - destruct ((tn =? 64) || (tn =? 65)).
    { unfold pbind at 1 in H.
      destruct (p_list16 (s0 <~ p_u16 ;; l <~ p_u16 ;; i <~ p_u16 ;; pret (s0, l, i)) s1) as [[tb s2]|] eqn:E1; [|discriminate].
      unfold pret in H. injection H as <- <-. tgt_open Hok R1 s1 t.
      rewrite (p2r_vec16 impl dec rs _ _ _ (p2r_lvr impl dec rs) _ _ _ t E1). reflexivity. }
    destruct (tn =? 66).
    { unfold pbind, pret in H. destruct (p_u16 s1) as [[i s2]|] eqn:E1; [|discriminate]. injection H as <- <-. tgt_open Hok R1 s1 t.
      rewrite (p2r_u16 impl dec rs _ _ _ t E1). reflexivity. }
    destruct ((67 <=? tn) && (tn <=? 70)).
    { unfold pbind, pret in H. destruct (p_u16 s1) as [[i s2]|] eqn:E1; [|discriminate]. injection H as <- <-. tgt_open Hok R1 s1 t.
      rewrite (p2r_pc impl dec rs 0%N _ _ _ t E1). reflexivity. }
    destruct ((71 <=? tn) && (tn <=? 75)); [|discriminate].
    unfold pbind, pret in H. destruct (p_u16 s1) as [[o s2]|] eqn:E1; [|discriminate].
    destruct (p_u8 s2) as [[i s3]|] eqn:E2; [|discriminate]. injection H as <- <-. tgt_open Hok R1 s1 t.
    rewrite (p2r_pc impl dec rs 0%N _ _ _ t E1). cbn [Base.Str.bind]. rewrite (p2r_u8 impl dec rs _ _ _ t E2). reflexivity.
  - destruct ((tn =? 0) || (tn =? 1)).
    { unfold pbind, pret in H. destruct (p_u8 s1) as [[i s2]|] eqn:E1; [|discriminate]. injection H as <- <-. tgt_open Hok R1 s1 t.
      rewrite (p2r_u8 impl dec rs _ _ _ t E1). reflexivity. }
    destruct (tn =? 16).
    { unfold pbind, pret in H. destruct (p_u16 s1) as [[i s2]|] eqn:E1; [|discriminate]. injection H as <- <-. tgt_open Hok R1 s1 t.
      rewrite (p2r_u16 impl dec rs _ _ _ t E1). reflexivity. }
    destruct ((tn =? 17) || (tn =? 18)).
    { unfold pbind, pret in H. destruct (p_u8 s1) as [[p s2]|] eqn:E1; [|discriminate].
      destruct (p_u8 s2) as [[b s3]|] eqn:E2; [|discriminate]. injection H as <- <-. tgt_open Hok R1 s1 t.
      rewrite (p2r_u8 impl dec rs _ _ _ t E1). cbn [Base.Str.bind]. rewrite (p2r_u8 impl dec rs _ _ _ t E2). reflexivity. }
    destruct ((19 <=? tn) && (tn <=? 21)).
    { unfold pret in H. injection H as <- <-. tgt_open Hok R1 s1 t. reflexivity. }
    destruct (tn =? 22).
    { unfold pbind, pret in H. destruct (p_u8 s1) as [[i s2]|] eqn:E1; [|discriminate]. injection H as <- <-. tgt_open Hok R1 s1 t.
      rewrite (p2r_u8 impl dec rs _ _ _ t E1). reflexivity. }
    destruct (tn =? 23); [|discriminate].
    unfold pbind, pret in H. destruct (p_u16 s1) as [[i s2]|] eqn:E1; [|discriminate]. injection H as <- <-. tgt_open Hok R1 s1 t.
    rewrite (p2r_u16 impl dec rs _ _ _ t E1). reflexivity.
Qed.

(* TYPE_PATH *)
Definition tp_val (e : Z * Z) : RF.val := RF.VTag (Z.to_N (fst e)) (zn (snd e)).
Lemma p2r_type_path impl dec rs : p2r p_type_path (RF.rd_fmt impl dec rs R.type_path_fmt) (fun l => RF.VList (map tp_val l)).
Proof.
  unfold p_type_path, R.type_path_fmt. apply p2r_vec8. intros s x r t H. unfold pbind in H. unfold p_u8 at 1 in H.
  destruct (rd_u8 s) as [[k s1]|] eqn:E1; [|discriminate]. destruct (p_u8 s1) as [[i s2]|] eqn:E2; [|discriminate].
  destruct (rd_u8_app _ _ _ t E1) as [R1 Hk]. destruct (rd_u8_app _ _ _ t E2) as [R2 Hi].
  destruct ((k <=? 3) && ((k =? 3) || (i =? 0))) eqn:C; [|discriminate]. unfold pret in H. injection H as <- <-.
  apply andb_prop in C. destruct C as [C1 C2]. apply Z.leb_le in C1. unfold tp_val. cbn [fst snd].
  eapply (rd_tag _ _ _ _ _ _ _ (s1 ++ t)); [exact R1|cbv beta; apply N.leb_le; change 3%N with (Z.to_N 3); apply Z2N.inj_le; lia|reflexivity|]. cbv beta.
  destruct (Z.eqb_spec k 3) as [->|N3].
  - change (Z.to_N 3 <=? 2)%N with false. cbn [RF.rd_fmt]. unfold p_u8 in R2. rewrite R2. reflexivity.
  - cbn [orb] in C2. apply Z.eqb_eq in C2. subst i. replace (Z.to_N k <=? 2)%N with true by (symmetry; apply N.leb_le; change 2%N with (Z.to_N 2); apply Z2N.inj_le; lia).
    cbn [RF.rd_fmt]. rewrite R2. reflexivity.
Qed.

(* TYPE ANNOTATIONS *)
Definition ta_val (dec : RB.bytes -> res str) (a : type_annotation Z) : RF.val :=
  RF.VSeq [target_val (ta_target a); RF.VList (map tp_val (ta_path a)); u8v dec (ta_type a); RF.VList (map (pair_val dec) (ta_pairs a))].
Definition ta_ok (impl : bool) (tbl extra : list (N * list N)) (a : type_annotation Z) : bool :=
  tgt_ok impl tbl extra (ta_target a) && pairs_ok (ta_pairs a).
Definition tas_ok (impl : bool) (tbl extra : list (N * list N)) (l : list (type_annotation Z)) : bool := forallb (ta_ok impl tbl extra) l.
Lemma p2rq_type_annotation impl dec cs tbl extra ic :
  p2rq (fun a => ta_ok impl tbl extra a = true) (p_type_annotation ic (cslots cs 1))
       (RF.rd_fmt impl dec (R.acc (BP.rpool dec cs)) (RF.FSeq [R.target_fmt tbl extra; R.type_path_fmt; RF.FIdx 8%N; R.pairs_fmt])) (ta_val dec).
Proof.
  intros s a r t H Ha. unfold p_type_annotation, pbind, pret in H.
  destruct (p_target ic s) as [[tg s1]|] eqn:E1; [|discriminate]. destruct (p_type_path s1) as [[p s2]|] eqn:E2; [|discriminate].
  destruct (p_idx get_utf8 (cslots cs 1) s2) as [[ty s3]|] eqn:E3; [|discriminate].
  destruct (p_pairs (cslots cs 1) s3) as [[ps s4]|] eqn:E4; [|discriminate]. injection H as <- <-.
  unfold ta_ok in Ha. cbn [ta_target ta_pairs] in Ha. apply andb_prop in Ha. destruct Ha as [Ha1 Ha2].
  unfold ta_val. cbn [ta_target ta_path ta_type ta_pairs].
  rewrite rd_seq4, (target_read impl dec _ tbl extra ic _ _ _ t E1 Ha1). cbn [Base.Str.bind].
  rewrite (p2r_type_path impl dec _ _ _ _ t E2). cbn [Base.Str.bind].
  rewrite (p2r_utf8 impl dec cs _ _ _ t E3). cbn [Base.Str.bind]. rewrite (p2rq_pairs impl dec cs _ _ _ t E4 Ha2). reflexivity.
Qed.
Lemma p2rq_type_annotations impl dec cs tbl extra ic :
  p2rq (fun l => tas_ok impl tbl extra l = true) (p_type_annotations ic (cslots cs 1))
       (RF.rd_fmt impl dec (R.acc (BP.rpool dec cs)) (R.type_annotations_fmt (R.target_fmt tbl extra))) (fun l => RF.VList (map (ta_val dec) l)).
Proof.
  intros s l r t H HQ. unfold p_type_annotations in H. unfold R.type_annotations_fmt.
  apply (p2rq_vec16 _ impl dec _ _ _ _ (p2rq_type_annotation impl dec cs tbl extra ic) _ _ _ t H).
  apply (forallb_Forall (ta_ok impl tbl extra)); [intros x Hx; exact Hx|exact HQ].
Qed.

(* ---- the attribute, at the five locations ---- *)
Definition names8 (dec : RB.bytes -> res str) : bool :=
  str_eqb (BP.sdec dec s_RVTAnn) RFo.a_RuntimeVisibleTypeAnnotations && str_eqb (BP.sdec dec s_RITAnn) RFo.a_RuntimeInvisibleTypeAnnotations.
Definition v_TypeAnnotations (dec : RB.bytes -> res str) (vis : bool) (l : list (type_annotation Z)) : RF.val :=
  RF.VAttr (if vis then RFo.a_RuntimeVisibleTypeAnnotations else RFo.a_RuntimeInvisibleTypeAnnotations) (RF.VList (map (ta_val dec) l)).
Definition loc_code (l : loc) : bool := match l with AtCode => true | _ => false end.

Lemma name_TypeAnnotations0 l c nb q len s2 vis la r : leaf_body l c nb = Some q ->
  p_block len q s2 = Some (ATypeAnnotations vis la, r) -> nb = if vis then s_RVTAnn else s_RITAnn.
Proof. intros Hq Hb; destruct l; destruct vis; namelemma0 Hq Hb. Qed.

(* for a location whose attributes are leaf attributes (Code, record component) *)
Theorem attr_TypeAnnotations0 impl dec cs l sel tbl extra s vis la r t :
  BP.sdec dec s_RVTAnn = RFo.a_RuntimeVisibleTypeAnnotations -> BP.sdec dec s_RITAnn = RFo.a_RuntimeInvisibleTypeAnnotations ->
  (forall len, sel RFo.a_RuntimeVisibleTypeAnnotations len = R.type_annotations_fmt (R.target_fmt tbl extra)) ->
  (forall len, sel RFo.a_RuntimeInvisibleTypeAnnotations len = R.type_annotations_fmt (R.target_fmt tbl extra)) ->
  tas_ok impl tbl extra la = true -> p_attr0 l (cslots cs 1) s = Some (ATypeAnnotations vis la, r) ->
  RF.rd_fmt impl dec (R.acc (BP.rpool dec cs)) (RF.FAttr sel) (s ++ t) = Ok (v_TypeAnnotations dec vis la, r ++ t).
Proof.
  intros N1 N2 S1 S2 Ha H. unfold p_attr0 in H. destruct vis.
  - destruct (attr_p2r (fun x => tas_ok impl tbl extra x = true) impl dec cs _ _ sel (ATypeAnnotations true) (p_type_annotations (loc_code l) (cslots cs 1)) s_RVTAnn
                RFo.a_RuntimeVisibleTypeAnnotations (R.type_annotations_fmt (R.target_fmt tbl extra)) (fun x => RF.VList (map (ta_val dec) x)) s _ r t H) as (y & Ey & Hr).
    + intros nb q Hq len s2 y r' Hb ->. exact (name_TypeAnnotations0 l _ _ _ _ _ true _ _ Hq Hb).
    + destruct l; reflexivity.
    + exact N1.
    + exact S1.
    + apply p2rq_type_annotations.
    + intros y [= <-]. exact Ha.
    + intros nb b. discriminate.
    + injection Ey as <-. exact Hr.
  - destruct (attr_p2r (fun x => tas_ok impl tbl extra x = true) impl dec cs _ _ sel (ATypeAnnotations false) (p_type_annotations (loc_code l) (cslots cs 1)) s_RITAnn
                RFo.a_RuntimeInvisibleTypeAnnotations (R.type_annotations_fmt (R.target_fmt tbl extra)) (fun x => RF.VList (map (ta_val dec) x)) s _ r t H) as (y & Ey & Hr).
    + intros nb q Hq len s2 y r' Hb ->. exact (name_TypeAnnotations0 l _ _ _ _ _ false _ _ Hq Hb).
    + destruct l; reflexivity.
    + exact N2.
    + exact S2.
    + apply p2rq_type_annotations.
    + intros y [= <-]. exact Ha.
    + intros nb b. discriminate.
    + injection Ey as <-. exact Hr.
Qed.

Lemma name_TypeAnnotations l c nb q len s2 vis la r : (l = AtClass \/ l = AtField \/ l = AtMethod) -> attr_body l c nb = Some q ->
  p_block len q s2 = Some (ALeaf (ATypeAnnotations vis la), r) -> nb = if vis then s_RVTAnn else s_RITAnn.
Proof. intros [ -> | [ -> | -> ] ] Hq Hb; destruct vis; namelemma Hq Hb. Qed.

(* at class / field / method level *)
Theorem attr_TypeAnnotations impl dec cs l sel tbl extra s vis la r t :
  BP.sdec dec s_RVTAnn = RFo.a_RuntimeVisibleTypeAnnotations -> BP.sdec dec s_RITAnn = RFo.a_RuntimeInvisibleTypeAnnotations ->
  (l = AtClass \/ l = AtField \/ l = AtMethod) ->
  (forall len, sel RFo.a_RuntimeVisibleTypeAnnotations len = R.type_annotations_fmt (R.target_fmt tbl extra)) ->
  (forall len, sel RFo.a_RuntimeInvisibleTypeAnnotations len = R.type_annotations_fmt (R.target_fmt tbl extra)) ->
  tas_ok impl tbl extra la = true -> p_attr l (cslots cs 1) s = Some (ALeaf (ATypeAnnotations vis la), r) ->
  RF.rd_fmt impl dec (R.acc (BP.rpool dec cs)) (RF.FAttr sel) (s ++ t) = Ok (v_TypeAnnotations dec vis la, r ++ t).
Proof.
  intros N1 N2 Hl S1 S2 Ha H.
  pose (tv0 := fun a0 => match a0 with ATypeAnnotations _ x => RF.VList (map (ta_val dec) x) | _ => RF.VSeq [] end).
  pose (Q0 := fun a0 => match a0 with ATypeAnnotations _ x => tas_ok impl tbl extra x = true | _ => True end).
  destruct vis.
  - apply (attr_leaf Q0 impl dec cs l sel (x <~ p_type_annotations false (cslots cs 1) ;; pret (ATypeAnnotations true x)) s_RVTAnn
             RFo.a_RuntimeVisibleTypeAnnotations (R.type_annotations_fmt (R.target_fmt tbl extra)) tv0 s _ r t H).
    + intros nb q len s2 r' Hq Hb. exact (name_TypeAnnotations l _ _ _ _ _ true _ _ Hl Hq Hb).
    + destruct Hl as [ -> | [ -> | -> ] ]; reflexivity.
    + exact N1.
    + exact S1.
    + apply (p2rq_map (fun x => tas_ok impl tbl extra x = true) Q0 _ (ATypeAnnotations true) _ (fun x => RF.VList (map (ta_val dec) x)));
        [apply p2rq_type_annotations|reflexivity|intros x Hx; exact Hx].
    + exact Ha.
    + intros; discriminate.
  - apply (attr_leaf Q0 impl dec cs l sel (x <~ p_type_annotations false (cslots cs 1) ;; pret (ATypeAnnotations false x)) s_RITAnn
             RFo.a_RuntimeInvisibleTypeAnnotations (R.type_annotations_fmt (R.target_fmt tbl extra)) tv0 s _ r t H).
    + intros nb q len s2 r' Hq Hb. exact (name_TypeAnnotations l _ _ _ _ _ false _ _ Hl Hq Hb).
    + destruct Hl as [ -> | [ -> | -> ] ]; reflexivity.
    + exact N2.
    + exact S2.
    + apply (p2rq_map (fun x => tas_ok impl tbl extra x = true) Q0 _ (ATypeAnnotations false) _ (fun x => RF.VList (map (ta_val dec) x)));
        [apply p2rq_type_annotations|reflexivity|intros x Hx; exact Hx].
    + exact Ha.
    + intros; discriminate.
Qed.
