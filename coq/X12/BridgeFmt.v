(* X12 — bridge, part 11: DECODER TO READER through C01's formats.
   [p2r p rd tv]: whatever the C02 parser p accepts from the front of a byte string, the C01 reader rd reads from
   the same string followed by anything, to the translated value, leaving the same rest.  Primitives, pool
   indices by accessor kind, vectors, sequences; then the attributes of the fragment
     { SourceFile (class), ConstantValue (field), Code (method) with LineNumberTable inside }
   through C01's FAttr / class_sel / field_sel / method_sel / code_sel, the full member formats and the class
   attribute list.  The attribute NAME is read by C01 as a decoded string and compared with its own name
   constants: [names_ok dec] says that the decoder maps the four attribute names (ASCII) to themselves. *)
From Coq Require Import List NArith ZArith Bool Lia.
From FB Require Import C02.Model C02.Encode C02.Theory2 C02.Theory8 C02.Frames C02.Class C02.Decode C02.Facts
  C02.TheoryC1 C02.TheoryC2.
From FB Require C01.Bytes C01.Pool C01.Attr C01.Tables C01.Fmt C01.Formats C01.ClassFile.
From FB Require X12.BridgePool.
From FB Require Import X12.BridgeClass X12.BridgeMembers X12.BridgeCode.
Import ListNotations.
Module RFo := FB.C01.Formats.
Local Open Scope Z_scope.

Definition p2rq {A} (Q : A -> Prop) (p : parser A) (rd : RF.parser RF.val) (tv : A -> RF.val) : Prop :=
  forall s a r t, p s = Some (a, r) -> Q a -> rd (s ++ t) = Ok (tv a, r ++ t).
Definition p2r {A} (p : parser A) (rd : RF.parser RF.val) (tv : A -> RF.val) : Prop :=
  forall s a r t, p s = Some (a, r) -> rd (s ++ t) = Ok (tv a, r ++ t).
Lemma p2r_q {A} (Q : A -> Prop) p rd tv : p2r p rd tv -> p2rq Q p rd tv.
Proof. intros H s a r t E _. exact (H s a r t E). Qed.

(* ---------------------------------------------------------------------------------------------- *)
(* primitives *)
Lemma p_u16_app s z r t : p_u16 s = Some (z, r) -> RB.rd_u16 (s ++ t) = Ok (Z.to_N z, r ++ t) /\ 0 <= z.
Proof.
  unfold p_u16, rd_u16, RB.rd_u16. destruct s as [|a [|b s']]; try discriminate. intros [= <- <-]. cbn [app].
  split; [|lia]. f_equal. f_equal. unfold RB.dec16. lia.
Qed.
Lemma p_u32_app s z r t : p_u32 s = Some (z, r) -> RB.rd_u32 (s ++ t) = Ok (Z.to_N z, r ++ t) /\ 0 <= z.
Proof.
  unfold p_u32, RB.rd_u32. destruct s as [|a [|b [|c [|d s']]]]; try discriminate. intros [= <- <-]. cbn [app].
  split; [|lia]. f_equal. f_equal. unfold RB.dec32. lia.
Qed.

Lemma p2r_u16 impl dec rs : p2r p_u16 (RF.rd_fmt impl dec rs RF.FU16) (fun z => RF.VN (Z.to_N z)).
Proof. intros s a r t H. cbn [RF.rd_fmt]. destruct (p_u16_app s a r t H) as [-> _]. reflexivity. Qed.
Lemma p2r_flags impl dec rs k : p2r p_u16 (RF.rd_fmt impl dec rs (RF.FFlags k)) (fun z => RF.VN (RA.access_back k (Z.to_N z))).
Proof. intros s a r t H. cbn [RF.rd_fmt]. destruct (p_u16_app s a r t H) as [-> _]. reflexivity. Qed.
Lemma p2r_pc impl dec rs k : p2r p_u16 (RF.rd_fmt impl dec rs (RF.FPc k)) (fun z => RF.VPc k (Z.to_N z)).
Proof. intros s a r t H. cbn [RF.rd_fmt]. destruct (p_u16_app s a r t H) as [-> _]. reflexivity. Qed.

Lemma p2r_idx {A} impl dec (rs : N -> N -> res RP.cval) (c : cpool) (g : cpool -> Z -> option A) (k : N) (val : A -> RP.cval) :
  (forall i x, g c i = Some x -> rs k (Z.to_N i) = Ok (val x)) ->
  p2r (p_idx g c) (RF.rd_fmt impl dec rs (RF.FIdx k)) (fun x => RF.VC (val x)).
Proof.
  intros Hg s a r t H. unfold p_idx, pbind, plift in H. destruct (p_u16 s) as [[i s1]|] eqn:E; [|discriminate].
  destruct (g c i) as [x|] eqn:G; [|discriminate]. injection H as <- <-.
  cbn [RF.rd_fmt]. destruct (p_u16_app s i s1 t E) as [-> _]. cbn [Base.Str.bind]. rewrite (Hg i x G). reflexivity.
Qed.

Lemma p2rq_vec16 {A} (Q : A -> Prop) impl dec rs (p : parser A) f tv :
  p2rq Q p (RF.rd_fmt impl dec rs f) tv ->
  p2rq (Forall Q) (p_list16 p) (RF.rd_fmt impl dec rs (RF.FVec16 f)) (fun xs => RF.VList (map tv xs)).
Proof.
  intros Hp s xs r t H HQ. unfold p_list16, pbind in H. destruct (p_u16 s) as [[n s1]|] eqn:E; [|discriminate].
  cbn [RF.rd_fmt]. destruct (p_u16_app s n s1 t E) as [-> Hn]. cbn [Base.Str.bind].
  replace (N.to_nat (Z.to_N n)) with (Z.to_nat n) by lia.
  assert (G : forall k s1 xs r, p_rep k p s1 = Some (xs, r) -> Forall Q xs ->
              RF.rd_rep k (RF.rd_fmt impl dec rs f) (s1 ++ t) = Ok (map tv xs, r ++ t)).
  { induction k as [|k IH]; intros s0 ys r0 H0 HQ0; cbn [p_rep] in H0.
    - unfold pret in H0. injection H0 as <- <-. reflexivity.
    - unfold pbind in H0. destruct (p s0) as [[x s2]|] eqn:E1; [|discriminate].
      destruct (p_rep k p s2) as [[ys' r']|] eqn:E2; [|discriminate]. unfold pret in H0. injection H0 as <- <-.
      inversion HQ0 as [|? ? Qx Qr]; subst.
      cbn [RF.rd_rep map]. rewrite (Hp _ _ _ t E1 Qx). cbn [Base.Str.bind]. rewrite (IH _ _ _ E2 Qr). reflexivity. }
  rewrite (G _ _ _ _ H HQ). reflexivity.
Qed.
Lemma p2r_vec16 {A} impl dec rs (p : parser A) f tv :
  p2r p (RF.rd_fmt impl dec rs f) tv ->
  p2r (p_list16 p) (RF.rd_fmt impl dec rs (RF.FVec16 f)) (fun xs => RF.VList (map tv xs)).
Proof.
  intros Hp s xs r t H. apply (p2rq_vec16 (fun _ => True) impl dec rs p f tv (p2r_q _ _ _ _ Hp) s xs r t H).
  apply Forall_forall. intros; exact I.
Qed.

Lemma rd_seq2 impl dec rs a b s :
  RF.rd_fmt impl dec rs (RF.FSeq [a; b]) s
  = (do (v1, s1) <- RF.rd_fmt impl dec rs a s; do (v2, s2) <- RF.rd_fmt impl dec rs b s1; Ok (RF.VSeq [v1; v2], s2)).
Proof.
  cbn [RF.rd_fmt map RF.rd_all].
  destruct (RF.rd_fmt impl dec rs a s) as [[v1 s1]|]; [|reflexivity]. cbn [Base.Str.bind].
  destruct (RF.rd_fmt impl dec rs b s1) as [[v2 s2]|]; reflexivity.
Qed.
Lemma p2r_seq2 {A B C} impl dec rs (p1 : parser A) (p2 : parser B) (k : A -> B -> C) f1 f2 tv1 tv2 tv :
  p2r p1 (RF.rd_fmt impl dec rs f1) tv1 -> p2r p2 (RF.rd_fmt impl dec rs f2) tv2 ->
  (forall x y, tv (k x y) = RF.VSeq [tv1 x; tv2 y]) ->
  p2r (x <~ p1 ;; y <~ p2 ;; pret (k x y)) (RF.rd_fmt impl dec rs (RF.FSeq [f1; f2])) tv.
Proof.
  intros H1 H2 Hk s a r t H. unfold pbind, pret in H. destruct (p1 s) as [[x s1]|] eqn:E1; [|discriminate].
  destruct (p2 s1) as [[y s2]|] eqn:E2; [|discriminate]. injection H as <- <-.
  rewrite rd_seq2, (H1 _ _ _ t E1). cbn [Base.Str.bind]. rewrite (H2 _ _ _ t E2). cbn [Base.Str.bind]. rewrite Hk. reflexivity.
Qed.

(* ---------------------------------------------------------------------------------------------- *)
(* the attribute frame *)
Lemma attr_with_inv {A} c (body : bytes -> option (parser A)) unk s x r :
  p_attr_with c body unk s = Some (x, r) ->
  exists i nameb len s1 s2,
    p_u16 s = Some (i, s1) /\ get_utf8 c i = Some nameb /\ p_u32 s1 = Some (len, s2) /\
    match body nameb with
    | Some p => p_block len p s2 = Some (x, r)
    | None => exists b, p_take (Z.to_nat len) s2 = Some (b, r) /\ x = unk nameb b
    end.
Proof.
  unfold p_attr_with, p_idx, pbind, plift. intros H.
  destruct (p_u16 s) as [[i s1]|] eqn:E1; [|discriminate]. destruct (get_utf8 c i) as [nameb|] eqn:G; [|discriminate].
  destruct (p_u32 s1) as [[len s2]|] eqn:E2; [|discriminate].
  exists i, nameb, len, s1, s2. repeat split; try assumption.
  destruct (body nameb) as [p|]; [exact H|].
  destruct (p_take (Z.to_nat len) s2) as [[b r']|]; [|discriminate]. unfold pret in H. injection H as <- <-. exists b. split; reflexivity.
Qed.
Lemma block_inv {A} len (p : parser A) s2 x r : p_block len p s2 = Some (x, r) ->
  exists b, s2 = b ++ r /\ length b = Z.to_nat len /\ p b = Some (x, []).
Proof.
  unfold p_block, pbind. destruct (p_take (Z.to_nat len) s2) as [[b r']|] eqn:E; [|discriminate].
  destruct (p_take_inv _ _ _ _ E) as [-> Hb]. destruct (p b) as [[a [|? ?]]|] eqn:Ep; try discriminate. unfold pret. intros [= <- <-].
  exists b. repeat split; assumption.
Qed.

(* the reader's side of one attribute whose payload parser is related to the format the name selects *)
Lemma attr_p2r {A B} (Q : B -> Prop) impl dec cs (body : bytes -> option (parser A)) unk (sel : str -> N -> RF.fmt) (K : B -> A) (p : parser B)
    nameb name f tv s x r t :
  p_attr_with (cslots cs 1) body unk s = Some (x, r) ->
  (forall nb q, body nb = Some q -> forall len s2 y r', p_block len q s2 = Some (y, r') -> y = x -> nb = nameb) ->
  body nameb = Some (a <~ p ;; pret (K a)) ->
  BP.sdec dec nameb = name -> (forall len, sel name len = f) ->
  p2rq Q p (RF.rd_fmt impl dec (R.acc (BP.rpool dec cs)) f) tv -> (forall y, x = K y -> Q y) ->
  (forall nb b, x <> unk nb b) ->
  exists y, x = K y /\
    RF.rd_fmt impl dec (R.acc (BP.rpool dec cs)) (RF.FAttr sel) (s ++ t) = Ok (RF.VAttr name (tv y), r ++ t).
Proof.
  intros H Huniq Hbody Hname Hsel Hp HQ Hunk.
  destruct (attr_with_inv _ _ _ _ _ _ H) as (i & nb & len & s1 & s2 & E1 & G & E2 & Hb).
  destruct (body nb) as [q|] eqn:Eq.
  2:{ destruct Hb as (b & _ & Hx). exfalso. exact (Hunk nb b Hx). }
  assert (nb = nameb) by (apply (Huniq nb q Eq len s2 x r Hb eq_refl)). subst nb. rewrite Hbody in Eq. injection Eq as <-.
  destruct (block_inv _ _ _ _ _ Hb) as (b & -> & Hlen & Hpb).
  unfold pbind, pret in Hpb. destruct (p b) as [[y rb]|] eqn:Ep; [|discriminate]. injection Hpb as <- ->.
  exists y. split; [reflexivity|].
  cbn [RF.rd_fmt]. destruct (p_u16_app s i s1 t E1) as [-> _]. cbn [Base.Str.bind].
  rewrite (acc8 dec cs i nameb G). cbn [Base.Str.bind]. rewrite Hname.
  destruct (p_u32_app s1 len (b ++ r) t E2) as [-> _]. cbn [Base.Str.bind]. rewrite Hsel.
  rewrite <- app_assoc. pose proof (Hp b y [] (r ++ t) Ep (HQ y eq_refl)) as Q0. cbn [app] in Q0. rewrite Q0. reflexivity.
Qed.

(* ---------------------------------------------------------------------------------------------- *)
(* which name a decoded attribute had: the chain of name tests of C02's decoder, walked once per kind *)
Lemma is_eq a b : is a b = true -> a = b.
Proof. unfold is, bytes_eqb. apply str_eqb_eq. Qed.

Ltac blockout H :=
  let b := fresh "b" in let Hs := fresh in let Hl := fresh in let Hp := fresh "Hp" in
  apply block_inv in H; destruct H as (b & Hs & Hl & Hp); unfold pbind, pret, p_idx, plift in Hp;
  repeat match type of Hp with
         | context [match ?q ?z with Some _ => _ | None => _ end] => destruct (q z) as [[? ?]|]
         | context [match ?q with Some _ => _ | None => _ end] => destruct q
         end; try discriminate.
Ltac chain H :=
  repeat match type of H with
         | (if is ?n ?s && ?b then _ else _) = Some _ -> _ => fail
         | context [if is ?n ?s && ?b then _ else _] =>
           let E := fresh "E" in destruct (is n s && b) eqn:E
         | context [if is ?n ?s then _ else _] =>
           let E := fresh "E" in destruct (is n s) eqn:E
         end.

Lemma name_SourceFile c nb q len s2 sf r : attr_body AtClass c nb = Some q ->
  p_block len q s2 = Some (ASourceFile sf, r) -> nb = s_SourceFile.
Proof.
  intros Hq Hb. unfold attr_body, leaf_body in Hq. cbn [andb] in Hq.
  chain Hq; try discriminate; injection Hq as <-; try (blockout Hb; fail).
  apply is_eq. assumption.
Qed.

Lemma name_ConstantValue c nb q len s2 v r : attr_body AtField c nb = Some q ->
  p_block len q s2 = Some (AConstantValue v, r) -> nb = s_ConstantValue.
Proof.
  intros Hq Hb. unfold attr_body, leaf_body in Hq. cbn [andb] in Hq.
  chain Hq; try discriminate; injection Hq as <-; try (blockout Hb; fail).
  apply is_eq. assumption.
Qed.
Lemma name_Code c nb q len s2 k r : attr_body AtMethod c nb = Some q ->
  p_block len q s2 = Some (ACode k, r) -> nb = s_Code.
Proof.
  intros Hq Hb. unfold attr_body, leaf_body in Hq. cbn [andb] in Hq.
  chain Hq; try discriminate; injection Hq as <-; try (blockout Hb; fail).
  apply is_eq. assumption.
Qed.
Lemma name_LineNumberTable c nb q len s2 l r : leaf_body AtCode c nb = Some q ->
  p_block len q s2 = Some (ALineNumberTable l, r) -> nb = s_LineNumberTable.
Proof.
  intros Hq Hb. unfold leaf_body in Hq. cbn [andb] in Hq.
  chain Hq; try discriminate; injection Hq as <-; try (blockout Hb; fail).
  apply is_eq. assumption.
Qed.

(* the decoder maps the attribute names of the fragment to C01's name constants *)
Definition names_ok (dec : RB.bytes -> res str) : bool :=
  str_eqb (BP.sdec dec s_SourceFile) RFo.a_SourceFile && str_eqb (BP.sdec dec s_ConstantValue) RFo.a_ConstantValue
  && str_eqb (BP.sdec dec s_Code) RFo.a_Code && str_eqb (BP.sdec dec s_LineNumberTable) RFo.a_LineNumberTable.

Lemma names_ok_spec dec : names_ok dec = true ->
  BP.sdec dec s_SourceFile = RFo.a_SourceFile /\ BP.sdec dec s_ConstantValue = RFo.a_ConstantValue /\
  BP.sdec dec s_Code = RFo.a_Code /\ BP.sdec dec s_LineNumberTable = RFo.a_LineNumberTable.
Proof.
  unfold names_ok. intros H. apply andb_prop in H. destruct H as [H H4]. apply andb_prop in H. destruct H as [H H3].
  apply andb_prop in H. destruct H as [H1 H2]. repeat split; apply str_eqb_eq; assumption.
Qed.

Lemma acc7 dec cs i v : get_cvalue (cslots cs 1) i = Some v ->
  R.acc (BP.rpool dec cs) 7%N (Z.to_N i) = Ok (BP.cvalue_val dec v).
Proof. intros H. unfold R.acc. cbn. unfold RP.resolve_kind. cbn. exact (BP.ag_cvalue dec cs i v H). Qed.

(* ---- the attributes of the fragment ---- *)
Definition v_SourceFile (dec : RB.bytes -> res str) (sf : bytes) : RF.val :=
  RF.VAttr RFo.a_SourceFile (RF.VC (RP.VUtf8 (BP.sdec dec sf))).
Theorem attr_SourceFile impl dec cs s sf r t : names_ok dec = true ->
  p_attr AtClass (cslots cs 1) s = Some (ASourceFile sf, r) ->
  RF.rd_fmt impl dec (R.acc (BP.rpool dec cs)) (RF.FAttr R.class_sel) (s ++ t) = Ok (v_SourceFile dec sf, r ++ t).
Proof.
  intros Hn H. destruct (names_ok_spec dec Hn) as (N1 & _). unfold p_attr in H.
  destruct (attr_p2r (fun _ => True) impl dec cs _ _ R.class_sel ASourceFile (p_idx get_utf8 (cslots cs 1)) s_SourceFile RFo.a_SourceFile
              (RF.FIdx 8%N) (fun x => RF.VC (RP.VUtf8 (BP.sdec dec x))) s _ r t H) as (y & Ey & Hr).
  - intros nb q Hq len s2 y r' Hb ->. exact (name_SourceFile _ _ _ _ _ _ _ Hq Hb).
  - reflexivity.
  - exact N1.
  - intros len. reflexivity.
  - apply p2r_q. apply p2r_idx. intros i x G. exact (acc8 dec cs i x G).
  - intros; exact I.
  - intros nb b. discriminate.
  - injection Ey as <-. exact Hr.
Qed.

Definition v_ConstantValue (dec : RB.bytes -> res str) (v : cvalue) : RF.val :=
  RF.VAttr RFo.a_ConstantValue (RF.VC (BP.cvalue_val dec v)).
Theorem attr_ConstantValue impl dec cs s v r t : names_ok dec = true ->
  p_attr AtField (cslots cs 1) s = Some (AConstantValue v, r) ->
  RF.rd_fmt impl dec (R.acc (BP.rpool dec cs)) (RF.FAttr R.field_sel) (s ++ t) = Ok (v_ConstantValue dec v, r ++ t).
Proof.
  intros Hn H. destruct (names_ok_spec dec Hn) as (_ & N2 & _). unfold p_attr in H.
  destruct (attr_p2r (fun _ => True) impl dec cs _ _ R.field_sel AConstantValue (p_idx get_cvalue (cslots cs 1)) s_ConstantValue RFo.a_ConstantValue
              (RF.FIdx 7%N) (fun x => RF.VC (BP.cvalue_val dec x)) s _ r t H) as (y & Ey & Hr).
  - intros nb q Hq len s2 y r' Hb ->. exact (name_ConstantValue _ _ _ _ _ _ _ Hq Hb).
  - reflexivity.
  - exact N2.
  - intros len. reflexivity.
  - apply p2r_q. apply p2r_idx. intros i x G. exact (acc7 dec cs i x G).
  - intros; exact I.
  - intros nb b. discriminate.
  - injection Ey as <-. exact Hr.
Qed.

Definition line_val (e : Z * Z) : RF.val := RF.VSeq [RF.VPc 0%N (Z.to_N (fst e)); RF.VN (Z.to_N (snd e))].
Definition v_LineNumberTable (l : list (Z * Z)) : RF.val := RF.VAttr RFo.a_LineNumberTable (RF.VList (map line_val l)).
Definition p_line : parser (Z * Z) := s <~ p_u16 ;; n <~ p_u16 ;; pret (s, n).
Theorem attr_LineNumberTable impl dec cs s l r t : names_ok dec = true ->
  p_attr0 AtCode (cslots cs 1) s = Some (ALineNumberTable l, r) ->
  RF.rd_fmt impl dec (R.acc (BP.rpool dec cs)) (RF.FAttr R.code_sel) (s ++ t) = Ok (v_LineNumberTable l, r ++ t).
Proof.
  intros Hn H. destruct (names_ok_spec dec Hn) as (_ & _ & _ & N4). unfold p_attr0 in H.
  destruct (attr_p2r (fun _ => True) impl dec cs _ _ R.code_sel ALineNumberTable (p_list16 p_line) s_LineNumberTable RFo.a_LineNumberTable
              (RF.FVec16 (RF.FSeq [RF.FPc 0%N; RF.FU16])) (fun x => RF.VList (map line_val x)) s _ r t H) as (y & Ey & Hr).
  - intros nb q Hq len s2 y r' Hb ->. exact (name_LineNumberTable _ _ _ _ _ _ _ Hq Hb).
  - reflexivity.
  - exact N4.
  - intros len. reflexivity.
  - apply p2r_q. apply p2r_vec16. unfold p_line.
    apply (p2r_seq2 impl dec _ p_u16 p_u16 (fun a b => (a, b)) (RF.FPc 0%N) RF.FU16 (fun z => RF.VPc 0%N (Z.to_N z)) (fun z => RF.VN (Z.to_N z))).
    + apply p2r_pc.
    + apply p2r_u16.
    + intros x y. reflexivity.
  - intros; exact I.
  - intros nb b. discriminate.
  - injection Ey as <-. exact Hr.
Qed.

(* ---- the Code attribute ---- *)
Lemma p2r_optidx6 impl dec cs :
  p2r (p_idx (get_opt get_class) (cslots cs 1)) (RF.rd_fmt impl dec (R.acc (BP.rpool dec cs)) (RF.FOptIdx 6%N))
      (fun o => RF.VO (option_map (fun n => RP.VClass (BP.sdec dec n)) o)).
Proof.
  intros s o r t H. unfold p_idx, pbind, plift in H. destruct (p_u16 s) as [[i s1]|] eqn:E; [|discriminate].
  destruct (get_opt get_class (cslots cs 1) i) as [x|] eqn:G; [|discriminate]. injection H as <- <-.
  destruct (p_u16_app s i s1 t E) as [R1 Hi]. exact (optidx6_rd impl dec cs _ i x _ R1 Hi G).
Qed.

Lemma p2r_exc impl dec cs : p2r (p_exc (cslots cs 1)) (RF.rd_fmt impl dec (R.acc (BP.rpool dec cs)) exc_fmt) (exc_val dec).
Proof.
  intros s x r t H. unfold p_exc, pbind in H.
  destruct (p_u16 s) as [[a s1]|] eqn:E1; [|discriminate]. destruct (p_u16 s1) as [[b s2]|] eqn:E2; [|discriminate].
  destruct (p_u16 s2) as [[h s3]|] eqn:E3; [|discriminate].
  destruct (p_idx (get_opt get_class) (cslots cs 1) s3) as [[o s4]|] eqn:E4; [|discriminate]. unfold pret in H. injection H as <- <-.
  unfold exc_fmt. rewrite rd_seq4.
  rewrite (p2r_pc impl dec _ 0%N _ _ _ t E1). cbn [Base.Str.bind]. rewrite (p2r_pc impl dec _ 1%N _ _ _ t E2). cbn [Base.Str.bind].
  rewrite (p2r_pc impl dec _ 0%N _ _ _ t E3). cbn [Base.Str.bind]. rewrite (p2r_optidx6 impl dec cs _ _ _ t E4). reflexivity.
Qed.

Lemma rd_seq5 impl dec rs a b c d e s :
  RF.rd_fmt impl dec rs (RF.FSeq [a; b; c; d; e]) s
  = (do (v1, s1) <- RF.rd_fmt impl dec rs a s; do (v2, s2) <- RF.rd_fmt impl dec rs b s1;
     do (v3, s3) <- RF.rd_fmt impl dec rs c s2; do (v4, s4) <- RF.rd_fmt impl dec rs d s3;
     do (v5, s5) <- RF.rd_fmt impl dec rs e s4; Ok (RF.VSeq [v1; v2; v3; v4; v5], s5)).
Proof.
  cbn [RF.rd_fmt map RF.rd_all].
  destruct (RF.rd_fmt impl dec rs a s) as [[v1 s1]|]; [|reflexivity]. cbn [Base.Str.bind].
  destruct (RF.rd_fmt impl dec rs b s1) as [[v2 s2]|]; [|reflexivity]. cbn [Base.Str.bind].
  destruct (RF.rd_fmt impl dec rs c s2) as [[v3 s3]|]; [|reflexivity]. cbn [Base.Str.bind].
  destruct (RF.rd_fmt impl dec rs d s3) as [[v4 s4]|]; [|reflexivity]. cbn [Base.Str.bind].
  destruct (RF.rd_fmt impl dec rs e s4) as [[v5 s5]|]; reflexivity.
Qed.

Definition is_lnt (a : dattr0) : Prop := exists l, a = ALineNumberTable l.
Definition inner_val (a : dattr0) : RF.val := match a with ALineNumberTable l => v_LineNumberTable l | _ => RF.VSeq [] end.
Definition code_okP (k : dcode) : Prop := Forall is_lnt (dc_attrs k).
Definition code_val (dec : RB.bytes -> res str) (k : dcode) : RF.val :=
  RF.VSeq [RF.VN (Z.to_N (dc_max_stack k)); RF.VN (Z.to_N (dc_max_locals k)); RF.VB (dc_code k);
           RF.VList (map (exc_val dec) (dc_exceptions k)); RF.VList (map inner_val (dc_attrs k))].

Lemma p2rq_inner impl dec cs : names_ok dec = true ->
  p2rq is_lnt (p_attr0 AtCode (cslots cs 1)) (RF.rd_fmt impl dec (R.acc (BP.rpool dec cs)) (RF.FAttr R.code_sel)) inner_val.
Proof. intros Hn s a r t H (l & ->). exact (attr_LineNumberTable impl dec cs s l r t Hn H). Qed.

Lemma rd_bytes32 impl dec rs s n s1 b r : RB.rd_u32 s = Ok (n, s1) -> FB.C01.Attr.take_res n s1 = Ok (b, r) ->
  RF.rd_fmt impl dec rs RF.FBytes32 s = Ok (RF.VB b, r).
Proof. intros H1 H2. cbn [RF.rd_fmt]. rewrite H1. cbn [Base.Str.bind]. rewrite H2. reflexivity. Qed.

Lemma p2rq_code impl dec cs : names_ok dec = true ->
  p2rq code_okP (p_code (cslots cs 1)) (RF.rd_fmt impl dec (R.acc (BP.rpool dec cs)) R.code_fmt) (code_val dec).
Proof.
  intros Hn s k r t H HQ. unfold p_code, pbind in H.
  destruct (p_u16 s) as [[ms s1]|] eqn:E1; [|discriminate]. destruct (p_u16 s1) as [[ml s2]|] eqn:E2; [|discriminate].
  destruct (p_u32 s2) as [[len s3]|] eqn:E3; [|discriminate]. destruct ((len <? 1) || (65535 <? len)); [discriminate|].
  destruct (p_take (Z.to_nat len) s3) as [[code s4]|] eqn:E4; [|discriminate].
  change (fun bs : bytes => match p_u16 bs with Some (a, r0) => _ | None => None end) with (p_exc (cslots cs 1)) in H.
  destruct (p_list16 (p_exc (cslots cs 1)) s4) as [[ex s5]|] eqn:E5; [|discriminate].
  destruct (p_attrs0 AtCode (cslots cs 1) s5) as [[at_ s6]|] eqn:E6; [|discriminate]. unfold pret in H. injection H as <- <-.
  unfold code_okP in HQ. cbn [dc_attrs] in HQ.
  unfold R.code_fmt, code_val. cbn [dc_max_stack dc_max_locals dc_code dc_exceptions dc_attrs]. rewrite exc_table_fmt, rd_seq5.
  rewrite (p2r_u16 impl dec _ _ _ _ t E1). cbn [Base.Str.bind]. rewrite (p2r_u16 impl dec _ _ _ _ t E2). cbn [Base.Str.bind].
  destruct (p_take_inv _ _ _ _ E4) as [-> Hc]. destruct (p_u32_app _ _ _ t E3) as [R3 Hl].
  rewrite <- app_assoc in R3.
  rewrite (rd_bytes32 impl dec _ _ _ _ code (s4 ++ t) R3) by (apply take_res_app; lia). cbn [Base.Str.bind].
  rewrite (p2r_vec16 impl dec _ _ _ _ (p2r_exc impl dec cs) _ _ _ t E5). cbn [Base.Str.bind].
  unfold p_attrs0 in E6. rewrite (p2rq_vec16 is_lnt impl dec _ _ _ _ (p2rq_inner impl dec cs Hn) _ _ _ t E6 HQ). reflexivity.
Qed.

Definition v_Code (dec : RB.bytes -> res str) (k : dcode) : RF.val := RF.VAttr RFo.a_Code (code_val dec k).
Theorem attr_Code impl dec cs s k r t : names_ok dec = true -> code_okP k ->
  p_attr AtMethod (cslots cs 1) s = Some (ACode k, r) ->
  RF.rd_fmt impl dec (R.acc (BP.rpool dec cs)) (RF.FAttr R.method_sel) (s ++ t) = Ok (v_Code dec k, r ++ t).
Proof.
  intros Hn Hk H. destruct (names_ok_spec dec Hn) as (_ & _ & N3 & _). unfold p_attr in H.
  destruct (attr_p2r code_okP impl dec cs _ _ R.method_sel ACode (p_code (cslots cs 1)) s_Code RFo.a_Code
              R.code_fmt (code_val dec) s _ r t H) as (y & Ey & Hr).
  - intros nb q Hq len s2 y r' Hb ->. exact (name_Code _ _ _ _ _ _ _ Hq Hb).
  - reflexivity.
  - exact N3.
  - intros len. reflexivity.
  - apply p2rq_code. exact Hn.
  - intros y [= <-]. exact Hk.
  - intros nb b. discriminate.
  - injection Ey as <-. exact Hr.
Qed.
