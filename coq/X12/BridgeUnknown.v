(* X12 — bridge, part 17: UNKNOWN ATTRIBUTES through C01's formats.
   C02's decoder returns AUnknown name bytes when the name is none of the names predefined at that location; C01's
   reader decodes the name and looks it up in its own table, falling back to the raw bytes.  The two agree when
   the DECODED name is none of C01's known names: [unk_ok dec nb], decidable on the attribute name (C01's table
   holds 31 names; a decoder that is not injective could map some other byte string onto one of them). *)
From Coq Require Import List NArith ZArith Bool Lia.
From FB Require Import C02.Model C02.Encode C02.Theory2 C02.Theory8 C02.Frames C02.Class C02.Decode C02.Facts
  C02.TheoryC1 C02.TheoryC2.
From FB Require C01.Bytes C01.Pool C01.Attr C01.Tables C01.Fmt C01.Formats C01.ClassFile.
From FB Require X12.BridgePool.
From FB Require Import X12.BridgeClass X12.BridgeMembers X12.BridgeCode X12.BridgeFmt X12.BridgeDyn X12.BridgeFile X12.BridgeFmt2.
Import ListNotations.
Local Open Scope Z_scope.

Definition known_names : list str :=
  [RFo.a_AnnotationDefault; RFo.a_BootstrapMethods; RFo.a_Code; RFo.a_ConstantValue; RFo.a_Deprecated; RFo.a_EnclosingMethod;
   RFo.a_Exceptions; RFo.a_InnerClasses; RFo.a_LineNumberTable; RFo.a_LocalVariableTable; RFo.a_LocalVariableTypeTable;
   RFo.a_MethodParameters; RFo.a_Module; RFo.a_ModuleMainClass; RFo.a_ModulePackages; RFo.a_NestHost; RFo.a_NestMembers;
   RFo.a_PermittedSubclasses; RFo.a_Record; RFo.a_RuntimeVisibleAnnotations; RFo.a_RuntimeVisibleParameterAnnotations;
   RFo.a_RuntimeVisibleTypeAnnotations; RFo.a_RuntimeInvisibleAnnotations; RFo.a_RuntimeInvisibleParameterAnnotations;
   RFo.a_RuntimeInvisibleTypeAnnotations; RFo.a_Signature; RFo.a_SourceDebugExtension; RFo.a_SourceFile; RFo.a_StackMap;
   RFo.a_StackMapTable; RFo.a_Synthetic].
Definition unk_ok (dec : RB.bytes -> res str) (nb : bytes) : bool := negb (RA.mem_str (BP.sdec dec nb) known_names).

Ltac seldefault H :=
  repeat match goal with
  | |- context [str_eqb ?k ?name] =>
    destruct (str_eqb_spec k name) as [<-|_]; [exfalso; vm_compute in H; discriminate|]
  end; reflexivity.

Lemma sel_default name : RA.mem_str name known_names = false ->
  (forall len, R.class_sel name len = RF.FBytes len) /\ (forall len, R.field_sel name len = RF.FBytes len) /\
  (forall len, R.method_sel name len = RF.FBytes len) /\ (forall len, R.code_sel name len = RF.FBytes len).
Proof.
  intros H. repeat split; intros len.
  - unfold R.class_sel, R.ann_rows. cbn [app R.pick]. seldefault H.
  - unfold R.field_sel, R.ann_rows. cbn [app R.pick]. seldefault H.
  - unfold R.method_sel, R.ann_rows. cbn [app R.pick]. seldefault H.
  - unfold R.code_sel. cbn [R.pick]. seldefault H.
Qed.

(* no predefined payload parser of C02's decoder produces AUnknown *)
Lemma no_unknown l c nb' q len s2 nb b r : (l = AtClass \/ l = AtField \/ l = AtMethod) -> attr_body l c nb' = Some q ->
  p_block len q s2 = Some (ALeaf (AUnknown nb b), r) -> False.
Proof.
  intros [ -> | [ -> | -> ] ] Hq Hb; unfold attr_body, leaf_body in Hq; cbn [andb] in Hq;
    chain Hq; try discriminate; (let E0 := fresh "E0" in injection Hq as E0; subst); blockout Hb.
Qed.
Lemma no_unknown0 c nb' q len s2 nb b r : leaf_body AtCode c nb' = Some q ->
  p_block len q s2 = Some (AUnknown nb b, r) -> False.
Proof.
  intros Hq Hb. unfold leaf_body in Hq. cbn [andb] in Hq.
  chain Hq; try discriminate; (let E0 := fresh "E0" in injection Hq as E0; subst); blockout Hb.
Qed.

Definition v_Unknown (dec : RB.bytes -> res str) (nb b : bytes) : RF.val := RF.VAttr (BP.sdec dec nb) (RF.VB b).

Lemma unknown_read {A} impl dec cs (body : bytes -> option (parser A)) (unk : bytes -> bytes -> A) sel s nb b r t :
  p_attr_with (cslots cs 1) body unk s = Some (unk nb b, r) ->
  (forall nb' q len s2 r', body nb' = Some q -> p_block len q s2 = Some (unk nb b, r') -> False) ->
  (forall n1 b1 n2 b2, unk n1 b1 = unk n2 b2 -> n1 = n2 /\ b1 = b2) ->
  (forall len, sel (BP.sdec dec nb) len = RF.FBytes len) ->
  RF.rd_fmt impl dec (R.acc (BP.rpool dec cs)) (RF.FAttr sel) (s ++ t) = Ok (v_Unknown dec nb b, r ++ t).
Proof.
  intros H Hno Hinj Hsel.
  destruct (attr_with_inv _ _ _ _ _ _ H) as (i & nb' & len & s1 & s2 & E1 & G & E2 & Hb).
  destruct (body nb') as [q|] eqn:Eq; [exfalso; exact (Hno nb' q len s2 r Eq Hb)|].
  destruct Hb as (b' & Ht & Hx). destruct (Hinj _ _ _ _ Hx) as [-> ->].
  destruct (p_take_inv _ _ _ _ Ht) as [-> Hl].
  cbn [RF.rd_fmt]. destruct (p_u16_app s i s1 t E1) as [-> _]. cbn [Base.Str.bind].
  rewrite (acc8 dec cs i _ G). cbn [Base.Str.bind].
  destruct (p_u32_app s1 len (b' ++ r) t E2) as [-> Hlen]. cbn [Base.Str.bind]. rewrite Hsel. cbn [RF.rd_fmt].
  rewrite <- app_assoc, take_res_app by lia. reflexivity.
Qed.

(* unknown attributes at class / field / method level and inside Code *)
Theorem attr_Unknown impl dec cs l s nb b r t : (l = AtClass \/ l = AtField \/ l = AtMethod) -> unk_ok dec nb = true ->
  p_attr l (cslots cs 1) s = Some (ALeaf (AUnknown nb b), r) ->
  RF.rd_fmt impl dec (R.acc (BP.rpool dec cs))
    (RF.FAttr (match l with AtClass => R.class_sel | AtField => R.field_sel | _ => R.method_sel end)) (s ++ t)
  = Ok (v_Unknown dec nb b, r ++ t).
Proof.
  intros Hl Hu H. unfold unk_ok in Hu. apply negb_true_iff in Hu. destruct (sel_default _ Hu) as (S1 & S2 & S3 & _).
  unfold p_attr in H.
  apply (unknown_read impl dec cs _ (fun n b0 => ALeaf (AUnknown n b0)) _ s nb b r t H).
  - intros nb' q len s2 r' Hq Hb. exact (no_unknown l _ _ _ _ _ _ _ _ Hl Hq Hb).
  - intros n1 b1 n2 b2 [= -> ->]. split; reflexivity.
  - destruct Hl as [ -> | [ -> | -> ] ]; assumption.
Qed.
Theorem attr_Unknown0 impl dec cs s nb b r t : unk_ok dec nb = true ->
  p_attr0 AtCode (cslots cs 1) s = Some (AUnknown nb b, r) ->
  RF.rd_fmt impl dec (R.acc (BP.rpool dec cs)) (RF.FAttr R.code_sel) (s ++ t) = Ok (v_Unknown dec nb b, r ++ t).
Proof.
  intros Hu H. unfold unk_ok in Hu. apply negb_true_iff in Hu. destruct (sel_default _ Hu) as (_ & _ & _ & S4).
  unfold p_attr0 in H.
  apply (unknown_read impl dec cs _ AUnknown _ s nb b r t H).
  - intros nb' q len s2 r' Hq Hb. exact (no_unknown0 _ _ _ _ _ _ _ _ Hq Hb).
  - intros n1 b1 n2 b2 [= -> ->]. split; reflexivity.
  - exact S4.
Qed.
