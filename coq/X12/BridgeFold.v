(* X12 — bridge, part 30: A CLOSED FORM OF C01's ATTRIBUTE BOOKKEEPING (the interpretation step of build_class /
   build_member / build_component that folds apply_simple / apply_attr over the attribute values of one location).
   Pure C01 vocabulary.  For a list of attribute values in which no known attribute name occurs twice (once_ok /
   once_oka: decidable), the fold is not an error and its state is given directly:
       slots   = the slots before ++ one (name, value) per known attribute, in file order (a flag attribute stores VSeq [])
       unknown = the unknown list before ++ (name, bytes) of every attribute whose name the location does not know
   and a Record attribute stores the list of its components, each with the closed form of its own attribute list. *)
From Coq Require Import List NArith Bool Lia.
From FB Require Import Base.Str C01.ClassFile.
Import ListNotations.
Local Open Scope N_scope.

Lemma mem_str_false_in n l : mem_str n l = false -> forall k, In k l -> str_eqb k n = false.
Proof.
  unfold mem_str. induction l as [|x l IH]; intros H k Hk; [destruct Hk|]. cbn [existsb] in H. apply orb_false_elim in H.
  destruct H as [H1 H2]. destruct Hk as [<-|Hk]; [|exact (IH H2 k Hk)].
  apply str_eqb_neq. apply str_eqb_neq in H1. congruence.
Qed.
Lemma slot_get_fresh n l : mem_str n (map fst l) = false -> slot_get n l = None.
Proof.
  induction l as [|[k v] l IH]; intros H; [reflexivity|]. cbn [slot_get].
  rewrite (mem_str_false_in _ _ H k (or_introl eq_refl)). apply IH.
  unfold mem_str in *. cbn [map existsb] in H. apply orb_false_elim in H. exact (proj2 H).
Qed.
Lemma slot_put_fresh n v l : mem_str n (map fst l) = false -> slot_put n v l = l ++ [(n, v)].
Proof.
  induction l as [|[k v'] l IH]; intros H; [reflexivity|]. cbn [slot_put app].
  rewrite (mem_str_false_in _ _ H k (or_introl eq_refl)). f_equal. apply IH.
  unfold mem_str in *. cbn [map existsb] in H. apply orb_false_elim in H. exact (proj2 H).
Qed.
Lemma slot_list_fresh n l : mem_str n (map fst l) = false -> slot_list n l = [].
Proof. intros H. unfold slot_list. rewrite (slot_get_fresh _ _ H). reflexivity. Qed.

(* ---- one location, attributes without a nested structure (apply_simple) ---- *)
Definition is_list (v : val) : bool := match v with VList _ => true | _ => false end.
Definition is_bytes (v : val) : bool := match v with VB _ => true | _ => false end.
Definition slot_of (impl : bool) (ctx : N) (a : val) : list (str * val) :=
  match a with
  | VAttr n v => match policy_of impl ctx n with PFlag => [(n, VSeq [])] | POnce | POver | PExtend => [(n, v)] | _ => [] end
  | _ => []
  end.
Definition unk_of (impl : bool) (ctx : N) (a : val) : list (str * bytes) :=
  match a with
  | VAttr n (VB b) => match policy_of impl ctx n with PUnknown => [(n, b)] | _ => [] end
  | _ => []
  end.
Definition once1 (impl : bool) (ctx : N) (seen : list str) (a : val) : bool :=
  match a with
  | VAttr n v =>
    match policy_of impl ctx n with
    | PUnknown => is_bytes v
    | PFlag | POnce | POver => negb (mem_str n seen)
    | PExtend => negb (mem_str n seen) && is_list v
    | _ => false
    end
  | _ => false
  end.
Fixpoint once_ok (impl : bool) (ctx : N) (seen : list str) (l : list val) : bool :=
  match l with
  | [] => true
  | a :: r => once1 impl ctx seen a && once_ok impl ctx (seen ++ map fst (slot_of impl ctx a)) r
  end.
Definition st_add (st : astate) (s : list (str * val)) (u : list (str * bytes)) : astate :=
  {| st_slots := st_slots st ++ s; st_unknown := st_unknown st ++ u; st_code := st_code st; st_had_record := st_had_record st |}.

Lemma st_add_nil st : st_add st [] [] = st.
Proof. destruct st. unfold st_add. cbn. rewrite !app_nil_r. reflexivity. Qed.
Lemma st_add_add st s u s' u' : st_add (st_add st s u) s' u' = st_add st (s ++ s') (u ++ u').
Proof. unfold st_add. cbn. rewrite !app_assoc. reflexivity. Qed.

Lemma simple_step impl ctx st n v : once1 impl ctx (map fst (st_slots st)) (VAttr n v) = true ->
  apply_simple impl ctx st n v = Ok (st_add st (slot_of impl ctx (VAttr n v)) (unk_of impl ctx (VAttr n v))).
Proof.
  unfold once1, apply_simple, slot_of, unk_of. destruct (policy_of impl ctx n); intros H; try discriminate H; cbv beta iota in H |- *.
  - destruct v; try discriminate H. unfold st_add. rewrite app_nil_r. reflexivity.
  - apply negb_true_iff in H. unfold st_put, st_add. rewrite (slot_put_fresh _ _ _ H). destruct v; rewrite app_nil_r; reflexivity.
  - apply negb_true_iff in H. rewrite (slot_get_fresh _ _ H). unfold st_put, st_add. rewrite (slot_put_fresh _ _ _ H).
    destruct v; rewrite app_nil_r; reflexivity.
  - apply negb_true_iff in H. unfold st_put, st_add. rewrite (slot_put_fresh _ _ _ H). destruct v; rewrite app_nil_r; reflexivity.
  - apply andb_prop in H. destruct H as [H Hl]. apply negb_true_iff in H. destruct v; try discriminate Hl.
    rewrite (slot_list_fresh _ _ H). unfold st_put, st_add. rewrite (slot_put_fresh _ _ _ H), app_nil_r. reflexivity.
Qed.

(* THE CLOSED FORM, attributes without a nested structure *)
Theorem fold_simple_closed impl ctx : forall l st, once_ok impl ctx (map fst (st_slots st)) l = true ->
  fold_attrs (apply_simple impl ctx) st l = Ok (st_add st (flat_map (slot_of impl ctx) l) (flat_map (unk_of impl ctx) l)).
Proof.
  unfold fold_attrs. induction l as [|a l IH]; intros st H.
  - cbn [fold_res flat_map]. rewrite st_add_nil. reflexivity.
  - cbn [once_ok] in H. apply andb_prop in H. destruct H as [H1 H2]. cbn [fold_res flat_map].
    destruct a; try discriminate H1. rewrite (simple_step impl ctx st name a H1). cbn [bind].
    rewrite IH; [rewrite st_add_add; reflexivity|]. unfold st_add. cbn [st_slots]. rewrite map_app. exact H2.
Qed.

(* ---- a record component ---- *)
Definition comp_once (impl : bool) (v : val) : bool :=
  match component_parts v with Some (_, _, attrs) => once_ok impl 4 [] attrs | None => false end.
Definition comp_closed (impl : bool) (v : val) : val :=
  match component_parts v with
  | Some (n, d, attrs) => VSeq [VS n; VS d; val_of_state (st_add st_empty (flat_map (slot_of impl 4) attrs) (flat_map (unk_of impl 4) attrs))]
  | None => VSeq []
  end.
Theorem build_component_closed impl v : comp_once impl v = true -> build_component impl v = Ok (comp_closed impl v).
Proof.
  unfold comp_once, comp_closed, build_component. destruct (component_parts v) as [[[n d] attrs]|]; [|discriminate].
  intros H. rewrite (fold_simple_closed impl 4 attrs st_empty H). reflexivity.
Qed.
Lemma map_res_closed {A B} (f : A -> res B) (g : A -> B) l : (forall x, In x l -> f x = Ok (g x)) -> map_res f l = Ok (map g l).
Proof.
  induction l as [|x l IH]; intros H; [reflexivity|]. cbn [map_res map]. rewrite (H x (or_introl eq_refl)). cbn [bind].
  rewrite IH; [reflexivity|]. intros y Hy. apply H. right. exact Hy.
Qed.

(* ---- one location with the Record attribute (apply_attr; a Code attribute is outside) ---- *)
Definition record_slot (impl : bool) (n : str) (comps : list val) : list (str * val) :=
  match map (comp_closed impl) comps with [] => if impl then [] else [(n, VList [])] | cs => [(n, VList cs)] end.
Definition slot_ofa (impl : bool) (ctx : N) (a : val) : list (str * val) :=
  match a with
  | VAttr n v => match policy_of impl ctx n with
                 | PRecord => match v with VList comps => record_slot impl n comps | _ => [] end
                 | _ => slot_of impl ctx a
                 end
  | _ => []
  end.
Definition is_record (impl : bool) (ctx : N) (a : val) : bool :=
  match a with VAttr n _ => match policy_of impl ctx n with PRecord => true | _ => false end | _ => false end.
Definition once1a (impl : bool) (ctx : N) (seen : list str) (had : bool) (a : val) : bool :=
  match a with
  | VAttr n v =>
    match policy_of impl ctx n with
    | PRecord => negb had && negb (mem_str n seen) && match v with VList comps => forallb (comp_once impl) comps | _ => false end
    | PCode => false
    | _ => once1 impl ctx seen a
    end
  | _ => false
  end.
Fixpoint once_oka (impl : bool) (ctx : N) (seen : list str) (had : bool) (l : list val) : bool :=
  match l with
  | [] => true
  | a :: r => once1a impl ctx seen had a && once_oka impl ctx (seen ++ map fst (slot_ofa impl ctx a)) (had || is_record impl ctx a) r
  end.
Definition st_adda (st : astate) (s : list (str * val)) (u : list (str * bytes)) (had : bool) : astate :=
  {| st_slots := st_slots st ++ s; st_unknown := st_unknown st ++ u; st_code := st_code st; st_had_record := st_had_record st || had |}.

Lemma attr_step impl p b ctx st n v : once1a impl ctx (map fst (st_slots st)) (st_had_record st) (VAttr n v) = true ->
  apply_attr impl p b ctx st n v
  = Ok (st_adda st (slot_ofa impl ctx (VAttr n v)) (unk_of impl ctx (VAttr n v)) (is_record impl ctx (VAttr n v))).
Proof.
  intros H. unfold once1a in H. unfold apply_attr, slot_ofa, is_record.
  destruct (policy_of impl ctx n) eqn:P; rewrite ?P in H; cbv beta iota in H |- *; try discriminate H;
    try (rewrite (simple_step impl ctx st n v H); unfold st_add, st_adda; rewrite orb_false_r; reflexivity).
  apply andb_prop in H. destruct H as [H Hc]. apply andb_prop in H. destruct H as [Hh Hn]. apply negb_true_iff in Hh, Hn.
  rewrite Hh. destruct v as [| | | | | | | | | | |comps| |]; try discriminate Hc.
  rewrite (map_res_closed (build_component impl) (comp_closed impl) comps).
  2:{ intros x Hx. apply build_component_closed. rewrite forallb_forall in Hc. exact (Hc x Hx). }
  cbn [bind]. unfold st_adda, record_slot. rewrite orb_true_r.
  assert (U : st_unknown st ++ match VList comps with VB b0 => [] | _ => [] end = st_unknown st) by (cbn; apply app_nil_r).
  destruct (map (comp_closed impl) comps) as [|c cs'] eqn:Em.
  - destruct impl; [rewrite !app_nil_r; reflexivity|]. rewrite (slot_put_fresh _ _ _ Hn), app_nil_r. reflexivity.
  - rewrite (slot_put_fresh _ _ _ Hn), app_nil_r. reflexivity.
Qed.

(* THE CLOSED FORM, with Record: the state after the attributes of a class / a member without Code *)
Theorem fold_attr_closed impl p b ctx : forall l st, once_oka impl ctx (map fst (st_slots st)) (st_had_record st) l = true ->
  fold_attrs (apply_attr impl p b ctx) st l
  = Ok (st_adda st (flat_map (slot_ofa impl ctx) l) (flat_map (unk_of impl ctx) l) (existsb (is_record impl ctx) l)).
Proof.
  unfold fold_attrs. induction l as [|a l IH]; intros st H.
  - cbn [fold_res flat_map existsb]. unfold st_adda. rewrite !app_nil_r, orb_false_r. destruct st; reflexivity.
  - cbn [once_oka] in H. apply andb_prop in H. destruct H as [H1 H2]. cbn [fold_res flat_map existsb].
    destruct a; try discriminate H1. rewrite (attr_step impl p b ctx st name a H1). cbn [bind].
    rewrite IH.
    + unfold st_adda. cbn [st_slots st_unknown st_code st_had_record]. rewrite !app_assoc, orb_assoc. reflexivity.
    + unfold st_adda. cbn [st_slots st_had_record]. rewrite map_app. exact H2.
Qed.

(* a member: header and the closed state *)
Definition member_once (impl : bool) (ctx : N) (v : val) : bool :=
  match member_parts v with Some (_, _, _, attrs) => once_oka impl ctx [] false attrs | None => false end.
Definition member_closed (impl : bool) (ctx : N) (v : val) : member_desc :=
  match member_parts v with
  | Some (a, n, d, attrs) =>
      {| md_access := a; md_name := n; md_desc := d; md_slots := flat_map (slot_ofa impl ctx) attrs;
         md_unknown := flat_map (unk_of impl ctx) attrs; md_code := None |}
  | None => {| md_access := 0; md_name := []; md_desc := []; md_slots := []; md_unknown := []; md_code := None |}
  end.
Theorem build_member_closed impl p b ctx v : member_once impl ctx v = true ->
  build_member impl p b ctx v = Ok (member_closed impl ctx v).
Proof.
  unfold member_once, member_closed, build_member. destruct (member_parts v) as [[[[a n] d] attrs]|]; [|discriminate].
  intros H. rewrite (fold_attr_closed impl p b ctx attrs st_empty H). reflexivity.
Qed.

(* ---------------------------------------------------------------------------------------------- *)
(* THE Code ATTRIBUTE (context 3).  Its inner attributes are merged, not stored once: LineNumberTable and the two
   type-annotation attributes extend their slot, LocalVariableTable and LocalVariableTypeTable extend one common slot
   (entries tagged 0 / 1), StackMapTable fills a slot that must be empty.  What build_code looks up afterwards, in closed form: *)
Definition ext_of (impl : bool) (q : str) (l : list val) : list val :=
  flat_map (fun a => match a with
                     | VAttr n (VList x) => match policy_of impl 3 n with PExtend => if str_eqb n q then x else [] | _ => [] end
                     | _ => []
                     end) l.
Definition lvs_of (impl : bool) (l : list val) : list val :=
  flat_map (fun a => match a with
                     | VAttr n (VList x) => match policy_of impl 3 n with PLocals t => map (VTag t) x | _ => [] end
                     | _ => []
                     end) l.
Definition frames_of (impl : bool) (l : list val) : list val :=
  flat_map (fun a => match a with
                     | VAttr n v => match policy_of impl 3 n with PFrames => [v] | _ => [] end
                     | _ => []
                     end) l.
Definition code1 (impl : bool) (a : val) : bool :=
  match a with
  | VAttr n v =>
    match policy_of impl 3 n with
    | PUnknown => is_bytes v
    | PExtend | PLocals _ => is_list v
    | PFrames => str_eqb n a_StackMapTable
    | _ => false
    end
  | _ => false
  end.
(* decidable: shapes as the formats deliver them, at most one StackMapTable, no CLDC StackMap *)
Definition code_once (impl : bool) (l : list val) : bool := forallb (code1 impl) l && (length (frames_of impl l) <=? 1)%nat.

Lemma slot_get_put q n v l : slot_get q (slot_put n v l) = if str_eqb n q then Some v else slot_get q l.
Proof.
  induction l as [|[k v'] l IH]; cbn [slot_put slot_get].
  - reflexivity.
  - destruct (str_eqb_spec k n) as [->|Hkn]; cbn [slot_get].
    + destruct (str_eqb n q); reflexivity.
    + destruct (str_eqb_spec k q) as [->|Hkq].
      * destruct (str_eqb_spec n q) as [->|_]; [congruence|reflexivity].
      * exact IH.
Qed.
Lemma slot_list_put q n y l : slot_list q (slot_put n (VList y) l) = if str_eqb n q then y else slot_list q l.
Proof. unfold slot_list. rewrite slot_get_put. destruct (str_eqb n q); reflexivity. Qed.

Lemma pol_extend_names impl n : policy_of impl 3 n = PExtend ->
  str_eqb n a_LocalVariableTable = false /\ str_eqb n a_StackMapTable = false /\ str_eqb n a_StackMap = false.
Proof.
  intros P. repeat split.
  - destruct (str_eqb_spec n a_LocalVariableTable) as [->|_]; [vm_compute in P; discriminate|reflexivity].
  - destruct (str_eqb_spec n a_StackMapTable) as [->|_]; [vm_compute in P; discriminate|reflexivity].
  - destruct (str_eqb_spec n a_StackMap) as [->|_]; [vm_compute in P; discriminate|reflexivity].
Qed.
Lemma str_eqb_sym a b : str_eqb a b = str_eqb b a.
Proof. destruct (str_eqb_spec a b) as [->|H]; [symmetry; apply str_eqb_refl|]. symmetry. apply str_eqb_neq. congruence. Qed.

Definition has_smt (st : astate) : nat := match slot_get a_StackMapTable (st_slots st) with Some _ => 1 | None => 0 end.
Definition smt_after (st : astate) (fr : list val) : option val :=
  match slot_get a_StackMapTable (st_slots st) with Some v => Some v | None => hd_error fr end.

(* one inner attribute *)
Lemma code_step impl st n v : code1 impl (VAttr n v) = true -> slot_get a_StackMap (st_slots st) = None ->
  (length (frames_of impl [VAttr n v]) + has_smt st <= 1)%nat ->
  exists st1, apply_simple impl 3 st n v = Ok st1 /\
    (forall q, policy_of impl 3 q = PExtend ->
       slot_list q (st_slots st1) = slot_list q (st_slots st) ++ ext_of impl q [VAttr n v]) /\
    slot_list a_LocalVariableTable (st_slots st1) = slot_list a_LocalVariableTable (st_slots st) ++ lvs_of impl [VAttr n v] /\
    st_unknown st1 = st_unknown st ++ unk_of impl 3 (VAttr n v) /\
    slot_get a_StackMap (st_slots st1) = None /\
    slot_get a_StackMapTable (st_slots st1) = smt_after st (frames_of impl [VAttr n v]) /\
    has_smt st1 = (length (frames_of impl [VAttr n v]) + has_smt st)%nat.
Proof.
  intros H1 Hc Hf. unfold code1 in H1. unfold apply_simple, ext_of, lvs_of, frames_of, unk_of, smt_after, has_smt in *.
  cbn [flat_map] in *. destruct (policy_of impl 3 n) eqn:P; try discriminate H1.
  - (* unknown *)
    destruct v; try discriminate H1. eexists. split; [reflexivity|]. cbn [st_slots st_unknown].
    repeat split; try (intros; rewrite app_nil_r; reflexivity); try (rewrite app_nil_r; reflexivity); try assumption.
    destruct (slot_get a_StackMapTable (st_slots st)); rewrite ?app_nil_r; reflexivity.
  - (* extend *)
    destruct v; try discriminate H1. destruct (pol_extend_names impl n P) as (N1 & N2 & N3).
    eexists. split; [reflexivity|]. unfold st_put. cbn [st_slots st_unknown]. rewrite !app_nil_r.
    split; [|split; [|split; [|split; [|split]]]].
    + intros q Pq. rewrite slot_list_put. destruct (str_eqb_spec n q) as [->|_]; rewrite ?str_eqb_refl, ?app_nil_r; rewrite ?app_nil_r; reflexivity.
    + rewrite slot_list_put, N1. rewrite ?app_nil_r; reflexivity.
    + rewrite ?app_nil_r; reflexivity.
    + rewrite slot_get_put, N3. exact Hc.
    + rewrite slot_get_put, N2. destruct (slot_get a_StackMapTable (st_slots st)); rewrite ?app_nil_r; reflexivity.
    + rewrite slot_get_put, N2. rewrite ?app_nil_r; reflexivity.
  - (* locals *)
    destruct v; try discriminate H1.
    eexists. split; [reflexivity|]. unfold st_put. cbn [st_slots st_unknown]. rewrite !app_nil_r.
    split; [|split; [|split; [|split; [|split]]]].
    + intros q Pq. destruct (pol_extend_names impl q Pq) as (N1 & _ & _). rewrite slot_list_put, str_eqb_sym, N1. rewrite ?app_nil_r; reflexivity.
    + rewrite slot_list_put, str_eqb_refl. rewrite ?app_nil_r; reflexivity.
    + rewrite ?app_nil_r; reflexivity.
    + rewrite slot_get_put. exact Hc.
    + rewrite slot_get_put. destruct (slot_get a_StackMapTable (st_slots st)); rewrite ?app_nil_r; reflexivity.
    + rewrite slot_get_put. rewrite ?app_nil_r; reflexivity.
  - (* frames *)
    apply str_eqb_eq in H1. subst n. cbn [length app] in Hf.
    destruct (slot_get a_StackMapTable (st_slots st)) eqn:Es; [cbn in Hf; lia|]. rewrite Hc.
    eexists. split; [reflexivity|]. unfold st_put. cbn [st_slots st_unknown]. rewrite !app_nil_r.
    split; [|split; [|split; [|split; [|split]]]].
    + intros q Pq. destruct (pol_extend_names impl q Pq) as (_ & N2 & _). unfold slot_list. rewrite slot_get_put, str_eqb_sym, N2.
      destruct v; rewrite ?app_nil_r; reflexivity.
    + unfold slot_list. rewrite slot_get_put. destruct v; rewrite ?app_nil_r; reflexivity.
    + destruct v; rewrite ?app_nil_r; rewrite ?app_nil_r; reflexivity.
    + rewrite slot_get_put. exact Hc.
    + rewrite slot_get_put, str_eqb_refl. rewrite ?app_nil_r; reflexivity.
    + rewrite slot_get_put, str_eqb_refl. rewrite ?app_nil_r; reflexivity.
Qed.

Lemma ext_of_cons impl q a l : ext_of impl q (a :: l) = ext_of impl q [a] ++ ext_of impl q l.
Proof. unfold ext_of. cbn [flat_map]. rewrite app_nil_r. reflexivity. Qed.
Lemma lvs_of_cons impl a l : lvs_of impl (a :: l) = lvs_of impl [a] ++ lvs_of impl l.
Proof. unfold lvs_of. cbn [flat_map]. rewrite app_nil_r. reflexivity. Qed.
Lemma frames_of_cons impl a l : frames_of impl (a :: l) = frames_of impl [a] ++ frames_of impl l.
Proof. unfold frames_of. cbn [flat_map]. rewrite app_nil_r. reflexivity. Qed.

Lemma code_fold impl : forall l st, forallb (code1 impl) l = true -> slot_get a_StackMap (st_slots st) = None ->
  (length (frames_of impl l) + has_smt st <= 1)%nat ->
  exists st', fold_attrs (apply_simple impl 3) st l = Ok st' /\
    (forall q, policy_of impl 3 q = PExtend -> slot_list q (st_slots st') = slot_list q (st_slots st) ++ ext_of impl q l) /\
    slot_list a_LocalVariableTable (st_slots st') = slot_list a_LocalVariableTable (st_slots st) ++ lvs_of impl l /\
    st_unknown st' = st_unknown st ++ flat_map (unk_of impl 3) l /\
    slot_get a_StackMap (st_slots st') = None /\
    slot_get a_StackMapTable (st_slots st') = smt_after st (frames_of impl l).
Proof.
  unfold fold_attrs. induction l as [|a l IH]; intros st H Hc Hf.
  - exists st. cbn [fold_res flat_map]. unfold ext_of, lvs_of, frames_of, smt_after. cbn [flat_map hd_error].
    repeat split; try (intros; rewrite app_nil_r; reflexivity); try (rewrite app_nil_r; reflexivity); try assumption.
    destruct (slot_get a_StackMapTable (st_slots st)); reflexivity.
  - cbn [forallb] in H. apply andb_prop in H. destruct H as [H1 H2]. destruct a; try discriminate H1. rewrite (frames_of_cons impl (VAttr name a) l), app_length in Hf.
    destruct (code_step impl st name a H1 Hc ltac:(lia)) as (st1 & E1 & Q1 & L1 & U1 & C1 & S1 & N1).
    destruct (IH st1 H2 C1 ltac:(lia)) as (st' & E' & Q' & L' & U' & C' & S').
    exists st'. cbn [fold_res]. rewrite E1. cbn [bind]. split; [exact E'|].
    split; [|split; [|split; [|split]]].
    + intros q Pq. rewrite (Q' q Pq), (Q1 q Pq), (ext_of_cons impl q (VAttr name a) l), app_assoc. reflexivity.
    + rewrite L', L1, (lvs_of_cons impl (VAttr name a) l), app_assoc. reflexivity.
    + rewrite U', U1. cbn [flat_map]. rewrite app_assoc. reflexivity.
    + exact C'.
    + rewrite S', (frames_of_cons impl (VAttr name a) l). unfold smt_after in *. rewrite S1.
      destruct (slot_get a_StackMapTable (st_slots st)); [reflexivity|].
      destruct (frames_of impl [VAttr name a]); reflexivity.
Qed.

Definition smt_frames (impl : bool) (ivs : list val) : list val := match frames_of impl ivs with VList f :: _ => f | _ => [] end.
Definition code_in_closed (impl : bool) (code : bytes) (ex : list (N * N * N)) (ln : list (N * N)) (ds : list N) (ivs : list val) : code_in :=
  let tas := ext_of impl a_RuntimeVisibleTypeAnnotations ivs ++ ext_of impl a_RuntimeInvisibleTypeAnnotations ivs in
  {| ci_code := code; ci_exc := ex; ci_lines := ln;
     ci_ranges := flat_map ranges_of (lvs_of impl ivs) ++ flat_map ranges_of tas;
     ci_frames := ds; ci_cldc := None;
     ci_points := flat_map pcs_of (smt_frames impl ivs) ++ flat_map pcs_of tas |}.

(* THE CLOSED FORM OF build_code, inner attributes included: the attribute bookkeeping is gone; what remains is C01's
   code-array reader (read_code_raw / sem on explicitly given tables) and the resolution of the pool operands *)
Definition code_closed (impl : bool) (p : pool) (b : bsms) (ms ml : N) (code : bytes) (exc ivs : list val) : res code_desc :=
  do ex <- map_res exc_triple exc;
  do ln <- map_res line_pair (ext_of impl a_LineNumberTable ivs);
  do ds <- map_res frame_delta (smt_frames impl ivs);
  let ci := code_in_closed impl code ex ln ds ivs in
  do cr <- read_code_raw ci;
  let cs := sem ci cr in
  do xi <- map_res (resolve_entry p b) (cs_insns cs);
  Ok {| k_max_stack := ms; k_max_locals := ml; k_insns := xi; k_last := cs_last cs;
        k_exc := map (map_pcs (ixf cr)) exc;
        k_lines := map (map_pcs (ixf cr)) (ext_of impl a_LineNumberTable ivs);
        k_lvs := map (map_pcs (ixf cr)) (lvs_of impl ivs);
        k_frames := firstn (count_some (map (fun x => snd (fst x)) (cs_insns cs)))
                      (map (fun f => map_pcs (ixf cr) f) (map frame_norm (smt_frames impl ivs)));
        k_vta := map (map_pcs (ixf cr)) (ext_of impl a_RuntimeVisibleTypeAnnotations ivs);
        k_ita := map (map_pcs (ixf cr)) (ext_of impl a_RuntimeInvisibleTypeAnnotations ivs);
        k_unknown := flat_map (unk_of impl 3) ivs |}.
Theorem build_code_closed_gen impl p b ms ml code exc ivs : code_once impl ivs = true ->
  build_code impl p b (VSeq [VN ms; VN ml; VB code; VList exc; VList ivs]) = code_closed impl p b ms ml code exc ivs.
Proof.
  intros H. unfold code_once in H. apply andb_prop in H. destruct H as [H1 H2]. apply Nat.leb_le in H2.
  destruct (code_fold impl ivs st_empty H1 eq_refl) as (st' & E & Q & L & U & C & S).
  { unfold has_smt. cbn. lia. }
  unfold build_code, code_closed. cbn [code_parts]. rewrite E. cbn [bind].
  pose proof (Q a_LineNumberTable eq_refl) as Q1. pose proof (Q a_RuntimeVisibleTypeAnnotations eq_refl) as Q2.
  pose proof (Q a_RuntimeInvisibleTypeAnnotations eq_refl) as Q3.
  cbn [st_empty st_slots st_unknown slot_list slot_get app] in Q1, Q2, Q3, L, U.
  fold (slot_list a_LineNumberTable (st_slots st')) in Q1. fold (slot_list a_RuntimeVisibleTypeAnnotations (st_slots st')) in Q2.
  fold (slot_list a_RuntimeInvisibleTypeAnnotations (st_slots st')) in Q3. fold (slot_list a_LocalVariableTable (st_slots st')) in L.
  assert (Sf : slot_list a_StackMapTable (st_slots st') = smt_frames impl ivs).
  { unfold slot_list, smt_frames. rewrite S. unfold smt_after. cbn [st_empty st_slots slot_get].
    destruct (frames_of impl ivs) as [|[] ?]; reflexivity. }
  assert (Sc : slot_list a_StackMap (st_slots st') = []) by (unfold slot_list; rewrite C; reflexivity).
  unfold code_in_of_state, code_desc_of, frames_of_state. rewrite C, Sc, Sf, Q1, Q2, Q3, L, U.
  destruct (map_res exc_triple exc) as [ex|]; [|reflexivity]. cbn [bind].
  destruct (map_res line_pair (ext_of impl a_LineNumberTable ivs)) as [ln|]; [|reflexivity]. cbn [bind].
  destruct (map_res frame_delta (smt_frames impl ivs)) as [ds|]; [|reflexivity]. cbn [bind]. reflexivity.
Qed.

(* ---------------------------------------------------------------------------------------------- *)
(* a member WITH a Code attribute: the attributes before and after it as in fold_attr_closed, the Code attribute through
   code_closed; the only way the fold fails is that code_closed fails *)
Lemma fold_res_app {A B} (f : A -> B -> res A) l1 l2 : forall a,
  fold_res f a (l1 ++ l2) = (do a1 <- fold_res f a l1; fold_res f a1 l2).
Proof.
  induction l1 as [|x l1 IH]; intros a; cbn [app fold_res bind]; [reflexivity|].
  destruct (f a x) as [a'|]; cbn [bind]; [apply IH|reflexivity].
Qed.
Lemma once_oka_app impl ctx : forall l1 l2 seen had,
  once_oka impl ctx seen had (l1 ++ l2)
  = once_oka impl ctx seen had l1
    && once_oka impl ctx (seen ++ map fst (flat_map (slot_ofa impl ctx) l1)) (had || existsb (is_record impl ctx) l1) l2.
Proof.
  induction l1 as [|a l1 IH]; intros l2 seen had.
  - cbn [app once_oka flat_map existsb map]. rewrite app_nil_r, orb_false_r. reflexivity.
  - change (flat_map (slot_ofa impl ctx) (a :: l1)) with (slot_ofa impl ctx a ++ flat_map (slot_ofa impl ctx) l1).
    change (existsb (is_record impl ctx) (a :: l1)) with (is_record impl ctx a || existsb (is_record impl ctx) l1).
    cbn [app once_oka]. rewrite IH. rewrite (List.map_app fst (slot_ofa impl ctx a) (flat_map (slot_ofa impl ctx) l1)). rewrite app_assoc, orb_assoc, andb_assoc. reflexivity.
Qed.
Definition st_with_code (st : astate) (c : code_desc) : astate :=
  {| st_slots := st_slots st; st_unknown := st_unknown st; st_code := Some c; st_had_record := st_had_record st |}.

Theorem fold_attr_closed_code impl p b ctx l1 n ms ml code exc ivs l2 st :
  policy_of impl ctx n = PCode -> st_code st = None -> code_once impl ivs = true ->
  once_oka impl ctx (map fst (st_slots st)) (st_had_record st) (l1 ++ l2) = true ->
  fold_attrs (apply_attr impl p b ctx) st (l1 ++ VAttr n (VSeq [VN ms; VN ml; VB code; VList exc; VList ivs]) :: l2)
  = (do c <- code_closed impl p b ms ml code exc ivs;
     Ok (st_with_code (st_adda st (flat_map (slot_ofa impl ctx) (l1 ++ l2)) (flat_map (unk_of impl ctx) (l1 ++ l2))
                         (existsb (is_record impl ctx) (l1 ++ l2))) c)).
Proof.
  intros P Hc Ho H. rewrite once_oka_app in H. apply andb_prop in H. destruct H as [H1 H2].
  pose proof (fold_attr_closed impl p b ctx l1 st H1) as E1. unfold fold_attrs in *. rewrite fold_res_app, E1. cbn [bind fold_res].
  unfold apply_attr at 1. rewrite P. cbn [st_adda st_code]. rewrite Hc, (build_code_closed_gen impl p b ms ml code exc ivs Ho).
  destruct (code_closed impl p b ms ml code exc ivs) as [c|]; [|reflexivity]. cbn [bind].
  match goal with |- fold_res _ ?s l2 = _ => set (st1 := s) end.
  assert (H2' : once_oka impl ctx (map fst (st_slots st1)) (st_had_record st1) l2 = true).
  { subst st1. unfold st_adda. cbn [st_slots st_had_record]. rewrite List.map_app. exact H2. }
  pose proof (fold_attr_closed impl p b ctx l2 st1 H2') as E2. unfold fold_attrs in E2. rewrite E2. subst st1.
  unfold st_adda, st_with_code. cbn [st_slots st_unknown st_code st_had_record].
  rewrite !flat_map_app, existsb_app, !app_assoc, orb_assoc. reflexivity.
Qed.

Definition member_closed_code (impl : bool) (ctx : N) (a : N) (n d : str) (attrs : list val) (c : code_desc) : member_desc :=
  {| md_access := a; md_name := n; md_desc := d; md_slots := flat_map (slot_ofa impl ctx) attrs;
     md_unknown := flat_map (unk_of impl ctx) attrs; md_code := Some c |}.
Theorem build_member_closed_code impl p b ctx a nm d l1 n ms ml code exc ivs l2 :
  policy_of impl ctx n = PCode -> code_once impl ivs = true -> once_oka impl ctx [] false (l1 ++ l2) = true ->
  build_member impl p b ctx (VSeq [VN a; VC (VUtf8 nm); VC (VUtf8 d);
                                   VList (l1 ++ VAttr n (VSeq [VN ms; VN ml; VB code; VList exc; VList ivs]) :: l2)])
  = (do c <- code_closed impl p b ms ml code exc ivs; Ok (member_closed_code impl ctx a nm d (l1 ++ l2) c)).
Proof.
  intros P Ho H. unfold build_member. cbn [member_parts].
  rewrite (fold_attr_closed_code impl p b ctx l1 n ms ml code exc ivs l2 st_empty P eq_refl Ho H).
  destruct (code_closed impl p b ms ml code exc ivs) as [c|]; reflexivity.
Qed.
