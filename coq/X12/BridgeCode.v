(* X12 — bridge, part 9: THE Code ATTRIBUTE WRAPPER, joining the code-array bridge (Bridge.v).

   Decoder to reader: whatever C02's strict decoder accepts as the payload of a Code attribute (p_code: max_stack,
   max_locals, code_length + code, exception table with catch types, the Code attributes by exact lengths),
   C01's format reader reads over the same bytes with its own Code format — [code_prefix_fmt] = the first four
   components of C01's code_fmt ([code_prefix_of_code_fmt]) — to the same max_stack, max_locals, code array and
   exception entries (offsets as label positions, catch type resolved and decoded), and C01's [skip_attrs]
   passes over the attributes of the Code attribute to the same end.

   Writer to reader: for the Code attribute write_code_attr writes (ccode_ok, any state satisfying C02's
   invariant): the payload is read by C01 to max_stack / max_locals / the code array w / the exception triples,
   where w and the triples are what C02's layout-level write_code answers on the lowered body — so the
   code-array bridge applies: C01's read_code on (w, the exception table as read) delivers the translated
   instruction list with the exception ranges on the translated instructions.
   Not joined here: LineNumberTable / LocalVariable(Type)Table / StackMapTable / type annotations of the Code
   attribute are passed over by length, not read through their formats. *)
From Coq Require Import List NArith ZArith Bool Lia.
From FB Require Import C02.Model C02.Encode C02.Theory2 C02.Theory3 C02.Theory4 C02.Theory8 C02.Frames C02.Class C02.Decode C02.Facts
  C02.TheoryC1 C02.TheoryC2 C02.TheoryC3 C02.TheoryC4 C02.TheoryC7 C02.TheoryC8 C02.TheoryB1 C02.TheoryB2.
From FB Require C01.Bytes C01.Pool C01.Attr C01.Tables C01.Fmt C01.Formats C01.ClassFile C01.Model C01.Theory4.
From FB Require X12.BridgeDefs X12.Bridge X12.BridgePool.
From FB Require Import X12.BridgeClass X12.BridgeMembers.
Import ListNotations.
Module RM := FB.C01.Model.
Module BD := FB.X12.BridgeDefs.
Local Open Scope Z_scope.

Definition exc_fmt : RF.fmt := RF.FSeq [RF.FPc 0%N; RF.FPc 1%N; RF.FPc 0%N; RF.FOptIdx 6%N].
Definition code_prefix_fmt : RF.fmt := RF.FSeq [RF.FU16; RF.FU16; RF.FBytes32; RF.FVec16 exc_fmt].
Lemma exc_table_fmt : FB.C01.Formats.f_exception_table = RF.FVec16 exc_fmt.
Proof. reflexivity. Qed.

(* the prefix is what C01's code_fmt reads first *)
Lemma rd_all_app {A} (ps1 ps2 : list (RF.parser A)) s :
  RF.rd_all (ps1 ++ ps2) s = (do (v1, s1) <- RF.rd_all ps1 s; do (v2, s2) <- RF.rd_all ps2 s1; Ok (v1 ++ v2, s2)).
Proof.
  revert s. induction ps1 as [|p ps1 IH]; intros s; cbn [app RF.rd_all Base.Str.bind].
  - destruct (RF.rd_all ps2 s) as [[v2 s2]|]; reflexivity.
  - destruct (p s) as [[v s1]|]; [|reflexivity]. cbn [Base.Str.bind]. rewrite IH.
    destruct (RF.rd_all ps1 s1) as [[v1 s1']|]; [|reflexivity]. cbn [Base.Str.bind].
    destruct (RF.rd_all ps2 s1') as [[v2 s2]|]; reflexivity.
Qed.
Theorem code_prefix_of_code_fmt impl dec rs s v r :
  RF.rd_fmt impl dec rs R.code_fmt s = Ok (v, r) ->
  exists vs att s4, v = RF.VSeq (vs ++ [att]) /\ RF.rd_fmt impl dec rs code_prefix_fmt s = Ok (RF.VSeq vs, s4) /\
                    RF.rd_fmt impl dec rs (RF.FVec16 (RF.FAttr R.code_sel)) s4 = Ok (att, r).
Proof.
  unfold R.code_fmt, code_prefix_fmt. rewrite exc_table_fmt.
  change [RF.FU16; RF.FU16; RF.FBytes32; RF.FVec16 exc_fmt; RF.FVec16 (RF.FAttr R.code_sel)]
    with ([RF.FU16; RF.FU16; RF.FBytes32; RF.FVec16 exc_fmt] ++ [RF.FVec16 (RF.FAttr R.code_sel)]).
  set (l1 := [RF.FU16; RF.FU16; RF.FBytes32; RF.FVec16 exc_fmt]).
  change (RF.rd_fmt impl dec rs (RF.FSeq (l1 ++ [RF.FVec16 (RF.FAttr R.code_sel)])) s)
    with (do (vs, s1) <- RF.rd_all (map (RF.rd_fmt impl dec rs) (l1 ++ [RF.FVec16 (RF.FAttr R.code_sel)])) s; Ok (RF.VSeq vs, s1)).
  change (RF.rd_fmt impl dec rs (RF.FSeq l1) s) with (do (vs, s1) <- RF.rd_all (map (RF.rd_fmt impl dec rs) l1) s; Ok (RF.VSeq vs, s1)).
  rewrite map_app, rd_all_app.
  destruct (RF.rd_all (map (RF.rd_fmt impl dec rs) l1) s) as [[vs s4]|]; [|discriminate]. cbn [Base.Str.bind map RF.rd_all].
  destruct (RF.rd_fmt impl dec rs (RF.FVec16 (RF.FAttr R.code_sel)) s4) as [[att r']|] eqn:E; [|discriminate]. cbn [Base.Str.bind].
  intros [= <- <-]. exists vs, att, s4. repeat split. exact E.
Qed.

(* ---------------------------------------------------------------------------------------------- *)
(* decoder to reader *)
Definition exc_val (dec : RB.bytes -> res str) (e : Z * Z * Z * option bytes) : RF.val :=
  match e with (a, b, h, ct) =>
    RF.VSeq [RF.VPc 0%N (Z.to_N a); RF.VPc 1%N (Z.to_N b); RF.VPc 0%N (Z.to_N h);
             RF.VO (option_map (fun n => RP.VClass (BP.sdec dec n)) ct)]
  end.
Definition exc3 (e : Z * Z * Z * option bytes) : N * N * N := match e with (a, b, h, _) => (Z.to_N a, Z.to_N b, Z.to_N h) end.

Lemma optidx6_rd impl dec cs s i o r : RB.rd_u16 s = Ok (Z.to_N i, r) -> 0 <= i ->
  get_opt get_class (cslots cs 1) i = Some o ->
  RF.rd_fmt impl dec (R.acc (BP.rpool dec cs)) (RF.FOptIdx 6%N) s = Ok (RF.VO (option_map (fun n => RP.VClass (BP.sdec dec n)) o), r).
Proof.
  intros R1 Hi H. cbn [RF.rd_fmt]. rewrite R1. cbn [Base.Str.bind]. unfold get_opt in H.
  destruct (Z.eqb_spec i 0) as [E0|E0].
  - injection H as <-. subst i. reflexivity.
  - destruct (get_class (cslots cs 1) i) as [a|] eqn:Ea; [|discriminate]. injection H as <-.
    destruct (N.eqb_spec (Z.to_N i) 0); [lia|]. rewrite (acc6 dec cs i a Ea). reflexivity.
Qed.

Definition p_exc (c : cpool) : parser (Z * Z * Z * option bytes) :=
  s <~ p_u16 ;; e <~ p_u16 ;; h <~ p_u16 ;; ct <~ p_idx (get_opt get_class) c ;; pret (s, e, h, ct).

Lemma exc_read impl dec cs s x r : p_exc (cslots cs 1) s = Some (x, r) ->
  RF.rd_fmt impl dec (R.acc (BP.rpool dec cs)) exc_fmt s = Ok (exc_val dec x, r).
Proof.
  unfold p_exc, p_idx, pbind, plift. intros H.
  destruct (p_u16 s) as [[a s1]|] eqn:E1; [|discriminate]. destruct (p_u16 s1) as [[b s2]|] eqn:E2; [|discriminate].
  destruct (p_u16 s2) as [[h s3]|] eqn:E3; [|discriminate]. destruct (p_u16 s3) as [[i s4]|] eqn:E4; [|discriminate].
  destruct (get_opt get_class (cslots cs 1) i) as [o|] eqn:G; [|discriminate]. unfold pret in H. injection H as <- <-.
  destruct (p_u16_rd _ _ _ E1) as [R1 _]. destruct (p_u16_rd _ _ _ E2) as [R2 _]. destruct (p_u16_rd _ _ _ E3) as [R3 _].
  destruct (p_u16_rd _ _ _ E4) as [R4 Hi].
  unfold exc_fmt. rewrite rd_seq4. cbn [RF.rd_fmt]. rewrite R1. cbn [Base.Str.bind]. rewrite R2. cbn [Base.Str.bind]. rewrite R3. cbn [Base.Str.bind].
  fold (RF.rd_fmt impl dec (R.acc (BP.rpool dec cs)) (RF.FOptIdx 6%N) s3).
  rewrite (optidx6_rd impl dec cs s3 i o s4 R4 Hi G). reflexivity.
Qed.

Lemma exc_rep_read impl dec cs : forall n s xs r, p_rep n (p_exc (cslots cs 1)) s = Some (xs, r) ->
  RF.rd_rep n (RF.rd_fmt impl dec (R.acc (BP.rpool dec cs)) exc_fmt) s = Ok (map (exc_val dec) xs, r).
Proof.
  induction n as [|n IH]; intros s xs r H; cbn [p_rep] in H.
  - unfold pret in H. injection H as <- <-. reflexivity.
  - unfold pbind in H. destruct (p_exc (cslots cs 1) s) as [[x s1]|] eqn:E; [|discriminate].
    destruct (p_rep n (p_exc (cslots cs 1)) s1) as [[xs' r']|] eqn:E2; [|discriminate]. unfold pret in H. injection H as <- <-.
    cbn [RF.rd_rep map]. rewrite (exc_read impl dec cs _ _ _ E). cbn [Base.Str.bind]. rewrite (IH _ _ _ E2). reflexivity.
Qed.

Lemma exc_triples dec xs : RP.map_res R.exc_triple (map (exc_val dec) xs) = Ok (map exc3 xs).
Proof.
  induction xs as [|[[[a b] h] ct] xs IH]; [reflexivity|]. cbn [map RP.map_res exc_val R.exc_triple Base.Str.bind]. rewrite IH. reflexivity.
Qed.

Lemma take_res_app (b r : list N) k : N.to_nat k = length b -> FB.C01.Attr.take_res k (b ++ r) = Ok (b, r).
Proof.
  intros H. unfold FB.C01.Attr.take_res. rewrite app_length.
  destruct (N.leb_spec k (N.of_nat (length b + length r))); [|lia]. rewrite H.
  rewrite firstn_app, Nat.sub_diag, firstn_all, skipn_app, Nat.sub_diag, skipn_all. cbn [firstn skipn]. rewrite app_nil_r. reflexivity.
Qed.

Theorem code_read impl dec cs s k r : p_code (cslots cs 1) s = Some (k, r) ->
  exists s4,
    RF.rd_fmt impl dec (R.acc (BP.rpool dec cs)) code_prefix_fmt s
    = Ok (RF.VSeq [RF.VN (Z.to_N (dc_max_stack k)); RF.VN (Z.to_N (dc_max_locals k)); RF.VB (dc_code k);
                   RF.VList (map (exc_val dec) (dc_exceptions k))], s4) /\
    R.skip_attrs s4 = Ok r.
Proof.
  unfold p_code, pbind. intros H.
  destruct (p_u16 s) as [[ms s1]|] eqn:E1; [|discriminate]. destruct (p_u16 s1) as [[ml s2]|] eqn:E2; [|discriminate].
  destruct (p_u32 s2) as [[len s3]|] eqn:E3; [|discriminate]. destruct ((len <? 1) || (65535 <? len)); [discriminate|].
  destruct (p_take (Z.to_nat len) s3) as [[code s4]|] eqn:E4; [|discriminate].
  change (fun bs : bytes => match p_u16 bs with Some (a, r0) => _ | None => None end) with (p_exc (cslots cs 1)) in H.
  destruct (p_list16 (p_exc (cslots cs 1)) s4) as [[ex s5]|] eqn:E5; [|discriminate].
  destruct (p_attrs0 AtCode (cslots cs 1) s5) as [[at_ s6]|] eqn:E6; [|discriminate]. unfold pret in H. injection H as <- <-.
  cbn [dc_max_stack dc_max_locals dc_code dc_exceptions].
  destruct (p_u16_rd _ _ _ E1) as [R1 _]. destruct (p_u16_rd _ _ _ E2) as [R2 _]. destruct (p_u32_rd _ _ _ E3) as [R3 Hl].
  destruct (p_take_inv _ _ _ _ E4) as [-> Hc].
  unfold p_list16, pbind in E5. destruct (p_u16 s4) as [[n s4']|] eqn:E5a; [|discriminate]. destruct (p_u16_rd _ _ _ E5a) as [R5 Hn].
  exists s5. split.
  - unfold code_prefix_fmt. rewrite rd_seq4. cbn [RF.rd_fmt]. rewrite R1. cbn [Base.Str.bind]. rewrite R2. cbn [Base.Str.bind].
    rewrite R3. cbn [Base.Str.bind]. rewrite take_res_app by lia. cbn [Base.Str.bind]. rewrite R5. cbn [Base.Str.bind].
    replace (N.to_nat (Z.to_N n)) with (Z.to_nat n) by lia.
    fold (RF.rd_fmt impl dec (R.acc (BP.rpool dec cs)) exc_fmt).
    rewrite (exc_rep_read impl dec cs _ _ _ _ E5). reflexivity.
  - unfold p_attrs0, p_attr0 in E6. exact (attrs_skip _ _ _ _ _ _ E6).
Qed.

(* ---------------------------------------------------------------------------------------------- *)
(* writer to reader *)
Lemma obind_some {A B} (o : option A) (f : A -> option B) d : obind o f = Some d -> exists a, o = Some a /\ f a = Some d.
Proof. destruct o as [a|]; [|discriminate]. intros H. exists a. split; [reflexivity|exact H]. Qed.

Definition exc_labels (c : ccode) : list (label * label * label) := map (fun x => (x_start x, x_end x, x_handler x)) (c_exceptions c).
Definition exc_tables (c : ccode) : tables := {| t_exc := exc_labels c; t_offs := []; t_ranges := [] |}.
Definition exc3z (e : Z * Z * Z * option bytes) : Z * Z * Z := match e with (a, b, h, _) => (a, b, h) end.

Lemma exc_resolved labs : forall xs ex,
  mapO (fun x => match lget labs (x_start x), lget labs (x_end x), lget labs (x_handler x) with
                 | Some a, Some b, Some h => Some (a, b, h, x_catch x) | _, _, _ => None end) xs = Some ex ->
  mapM_out (try_get3 labs) (map (fun x => (x_start x, x_end x, x_handler x)) xs) = OK (map exc3z ex).
Proof.
  induction xs as [|x xs IH]; intros ex H; cbn [mapO] in H; [injection H as <-; reflexivity|].
  destruct (lget labs (x_start x)) as [a|] eqn:Ea; [|discriminate]. destruct (lget labs (x_end x)) as [b|] eqn:Eb; [|discriminate].
  destruct (lget labs (x_handler x)) as [h|] eqn:Eh; [|discriminate].
  destruct (mapO _ xs) as [ex'|] eqn:E; [|discriminate]. injection H as <-.
  cbn [map mapM_out]. rewrite (IH _ eq_refl). unfold try_get3, try_get. cbn [fst snd]. rewrite Ea, Eb, Eh. reflexivity.
Qed.

Theorem code_attr_bridge impl dec c s payload w labs pos s' cs p :
  ccode_ok c = true -> winv s ->
  write_code_attr c s = WOK ((payload, (w, labs, pos)), s') ->
  pool_ext (w_pool s') p -> agrees p (cslots cs 1) ->
  exists ms ml es Wd ex,
    c_max c = Some (ms, ml) /\ length es = length (c_insns c) /\ unique_labels es (c_last c) /\
    (* C02's layout-level writer on the lowered body and the exception labels *)
    write_code true es (c_last c) (exc_tables c) = Some (OK (w, Wd, {| r_exc := map exc3z ex; r_offs := []; r_ranges := [] |})) /\
    (* C01's format reader on the written payload *)
    (forall rest, exists s4,
       RF.rd_fmt impl dec (R.acc (BP.rpool dec cs)) code_prefix_fmt (payload ++ rest)
       = Ok (RF.VSeq [RF.VN (Z.to_N ms); RF.VN (Z.to_N ml); RF.VB w; RF.VList (map (exc_val dec) ex)], s4) /\
       R.skip_attrs s4 = Ok rest) /\
    RP.map_res R.exc_triple (map (exc_val dec) ex) = Ok (map exc3 ex) /\
    (* … and the code-array bridge on what was read *)
    (let chs := chs_run Wd 0%N 0 [] es in
     BD.body_in chs es = true -> BD.refs_carried es = true -> BD.tables_carried es (exc_tables c) = true ->
     RM.read_code {| RM.ci_code := w; RM.ci_exc := map exc3 ex; RM.ci_lines := []; RM.ci_ranges := []; RM.ci_frames := [];
                     RM.ci_cldc := None; RM.ci_points := [] |}
     = Ok (FB.C01.Theory4.expected (BD.tr_body chs es (c_last c)) (BD.tr_tables (BD.T_of chs es (c_last c)) (exc_tables c) 0 []))).
Proof.
  intros Hok Hi Hw Hext Hag.
  destruct (wspec_run _ _ _ _ _ (write_code_attr_spec c Hok) Hi Hw) as (_ & _ & d & Hd & Hdec). cbn [fst snd] in Hd, Hdec.
  pose proof Hw as Hw0. rewrite write_code_attr_unfold in Hw.
  unfold fa_code in Hd. destruct (c_max c) as [[ms ml]|] eqn:Emax; [|discriminate].
  apply obind_some in Hd as (ex & Hex & Hd). apply obind_some in Hd as (sm & _ & Hd). apply obind_some in Hd as (ln & _ & Hd).
  apply obind_some in Hd as (lv & _ & Hd). apply obind_some in Hd as (ta & _ & Hd). injection Hd as <-.
  destruct (mapW _ (c_insns c) s) as [[es s1]|?e|] eqn:El; try discriminate.
  destruct (wc_loop (S (length es)) [] es (c_last c)) as [[[[w0 labs0] Wd]| |]|] eqn:Ew; try discriminate.
  pose proof (code_tail_result c ms ml es w0 labs0 Wd s1 _ _ Hw) as Eaux. cbn [snd] in Eaux. injection Eaux as E1 E2 _. subst w0 labs0.
  assert (Hcok : forallb (fun i => cinsn_ok (snd i)) (c_insns c) = true).
  { unfold ccode_ok in Hok. rewrite Emax in Hok. bsplit.
    match goal with H : forallb _ (c_insns c) = true |- _ => rewrite forallb_forall in H; apply forallb_forall; intros i Hin; specialize (H i Hin) end.
    bsplit. assumption. }
  destruct (wspec_run _ _ _ _ _ (lower_all_spec _ Hcok) Hi El) as (_ & _ & Hes).
  assert (Hu : unique_labels es (c_last c)).
  { unfold unique_labels. rewrite body_labels_map, Hes, <- insn_labels_map. apply nodupN_spec.
    unfold ccode_ok in Hok. rewrite Emax in Hok. bsplit. assumption. }
  assert (Hlen : length es = length (c_insns c)).
  { rewrite <- (map_length fst es), Hes, map_length. reflexivity. }
  assert (HW : write_code true es (c_last c) (exc_tables c) = Some (OK (w, Wd, {| r_exc := map exc3z ex; r_offs := []; r_ranges := [] |}))).
  { unfold write_code. cbn [negb]. rewrite Ew. unfold resolve_tables, exc_tables, exc_labels. cbn [t_exc t_offs t_ranges mapM_out].
    rewrite (exc_resolved labs _ _ Hex). reflexivity. }
  exists ms, ml, es, Wd, ex. split; [reflexivity|]. split; [exact Hlen|]. split; [exact Hu|]. split; [exact HW|].
  split; [|split; [apply exc_triples|]].
  - intros rest. pose proof (Hdec p (cslots cs 1) rest Hext Hag) as P.
    destruct (code_read impl dec cs _ _ _ P) as (s4 & H1 & H2). exists s4. split; [exact H1|exact H2].
  - intros chs Hb Hr Ht.
    pose proof (FB.X12.Bridge.bridge_write_read true es (c_last c) (exc_tables c) w Wd _ 0%nat [] Hu Hb Hr Ht HW) as B.
    cbv zeta in B. fold chs in B.
    assert (E : BD.code_in_of_written w {| r_exc := map exc3z ex; r_offs := []; r_ranges := [] |} 0 []
                = {| RM.ci_code := w; RM.ci_exc := map exc3 ex; RM.ci_lines := []; RM.ci_ranges := []; RM.ci_frames := [];
                     RM.ci_cldc := None; RM.ci_points := [] |}).
    { unfold BD.code_in_of_written. cbn [r_exc r_offs r_ranges firstn skipn map combine]. f_equal.
      clear. induction ex as [|[[[a b] h] ct] ex IH]; [reflexivity|]. cbn [map exc3z exc3]. rewrite IH. reflexivity. }
    rewrite <- E. exact B.
Qed.

(* ---------------------------------------------------------------------------------------------- *)
(* non-vacuity (C02's example class: one field with attributes, one method with a Code attribute holding new, ldc,
   a conditional, invokedynamic, return, an exception range, line numbers, a local variable, frames) *)
From FB Require C02.TheoryC9.
Definition ex_code_check : bool :=
  match mapW (fun i => e <- lower_insn (snd i) ;; ret (fst (fst i), e)) (c_insns FB.C02.TheoryC9.ex_code) wst_new with
  | WOK (es, _) =>
    match write_code true es (c_last FB.C02.TheoryC9.ex_code) (exc_tables FB.C02.TheoryC9.ex_code) with
    | Some (OK (w, Wd, rt)) =>
      BD.body_in (chs_run Wd 0%N 0 [] es) es && BD.refs_carried es && BD.tables_carried es (exc_tables FB.C02.TheoryC9.ex_code)
      && (Nat.eqb (length es) 5)
    | _ => false
    end
  | _ => false
  end.
Theorem code_example : ccode_ok FB.C02.TheoryC9.ex_code = true /\ ex_code_check = true.
Proof. split; vm_compute; reflexivity. Qed.

Theorem members_example : exists bs aux cs s5 s6 s7,
  write_class_aux FB.C02.TheoryC9.ex_class = WOK (bs, aux) /\
  read_head true FB.C01.Mutf8.mutf8_dec bs = Ok (0%N, 61%N, BP.rpool FB.C01.Mutf8.mutf8_dec cs, head_val FB.C01.Mutf8.mutf8_dec FB.C02.TheoryC9.ex_class, s5) /\
  rd_headers true FB.C01.Mutf8.mutf8_dec (R.acc (BP.rpool FB.C01.Mutf8.mutf8_dec cs)) 1%N s5
    = Ok ([RF.VSeq [RF.VN 25%N; RF.VC (RP.VUtf8 [102]%N); RF.VC (RP.VUtf8 [73]%N)]], s6) /\
  rd_headers true FB.C01.Mutf8.mutf8_dec (R.acc (BP.rpool FB.C01.Mutf8.mutf8_dec cs)) 2%N s6
    = Ok ([RF.VSeq [RF.VN 9%N; RF.VC (RP.VUtf8 [109]%N); RF.VC (RP.VUtf8 [40; 41; 86]%N)]], s7) /\
  R.skip_members s5 = Ok s6 /\ R.skip_members s6 = Ok s7 /\ R.skip_attrs s7 = Ok [].
Proof.
  destruct (write_class_aux FB.C02.TheoryC9.ex_class) as [[bs aux]|?c|] eqn:E; [|vm_compute in E; discriminate|vm_compute in E; discriminate].
  assert (Hok : cclass_ok FB.C02.TheoryC9.ex_class = true) by (vm_compute; reflexivity).
  assert (Hu : pool_utf8_ok FB.C01.Mutf8.mutf8_dec (a_pool aux) = true).
  { vm_compute in E. injection E as <- <-. vm_compute. reflexivity. }
  destruct (class_members_read true FB.C01.Mutf8.mutf8_dec _ bs aux Hok E ltac:(vm_compute; reflexivity) Hu)
    as (cs & s5 & s6 & s7 & _ & H1 & H2 & H3 & H4 & H5 & H6).
  exists bs, aux, cs, s5, s6, s7. split; [reflexivity|]. split; [exact H1|].
  split; [rewrite H2; f_equal; f_equal; vm_compute; reflexivity|].
  split; [rewrite H3; f_equal; f_equal; vm_compute; reflexivity|]. repeat split; assumption.
Qed.
