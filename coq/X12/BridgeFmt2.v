(* X12 — bridge, part 13: MORE ATTRIBUTE KINDS through C01's formats (each: one name lemma + one payload lemma).
   class:  Signature, InnerClasses, NestHost, NestMembers, BootstrapMethods, Deprecated, Synthetic (+ SourceFile)
   field:  Signature, Deprecated, Synthetic (+ ConstantValue)
   method: Signature, Exceptions, Deprecated, Synthetic (+ Code)
   Code:   LocalVariableTable, LocalVariableTypeTable (+ LineNumberTable) *)
From Coq Require Import List NArith ZArith Bool Lia.
From FB Require Import C02.Model C02.Encode C02.Theory2 C02.Theory8 C02.Frames C02.Class C02.Decode C02.Facts
  C02.TheoryC1 C02.TheoryC2.
From FB Require C01.Bytes C01.Pool C01.Attr C01.Tables C01.Fmt C01.Formats C01.ClassFile.
From FB Require X12.BridgePool.
From FB Require Import X12.BridgeClass X12.BridgeMembers X12.BridgeCode X12.BridgeFmt X12.BridgeDyn X12.BridgeFile.
Import ListNotations.
Local Open Scope Z_scope.

(* ---------------------------------------------------------------------------------------------- *)
(* names *)
Definition name_pairs : list (bytes * str) :=
  [(s_SourceFile, RFo.a_SourceFile); (s_ConstantValue, RFo.a_ConstantValue); (s_Code, RFo.a_Code);
   (s_LineNumberTable, RFo.a_LineNumberTable); (s_Signature, RFo.a_Signature); (s_InnerClasses, RFo.a_InnerClasses);
   (s_NestHost, RFo.a_NestHost); (s_NestMembers, RFo.a_NestMembers); (s_BootstrapMethods, RFo.a_BootstrapMethods);
   (s_Deprecated, RFo.a_Deprecated); (s_Synthetic, RFo.a_Synthetic); (s_Exceptions, RFo.a_Exceptions);
   (s_LocalVariableTable, RFo.a_LocalVariableTable); (s_LocalVariableTypeTable, RFo.a_LocalVariableTypeTable)].
Definition names_ok2 (dec : RB.bytes -> res str) : bool :=
  forallb (fun p => str_eqb (BP.sdec dec (fst p)) (snd p)) name_pairs.
Lemma names_in dec b a : names_ok2 dec = true -> In (b, a) name_pairs -> BP.sdec dec b = a.
Proof. intros H Hin. unfold names_ok2 in H. rewrite forallb_forall in H. apply str_eqb_eq. exact (H _ Hin). Qed.
Lemma names_ok2_ok dec : names_ok2 dec = true -> names_ok dec = true.
Proof.
  intros H. unfold names_ok.
  rewrite (names_in dec s_SourceFile _ H), (names_in dec s_ConstantValue _ H), (names_in dec s_Code _ H), (names_in dec s_LineNumberTable _ H)
    by (cbn; tauto).
  rewrite !str_eqb_refl. reflexivity.
Qed.
Ltac inpairs := cbn [In name_pairs]; tauto.

(* the name of a decoded attribute, per kind *)
Ltac namelemma Hq Hb :=
  unfold attr_body, leaf_body in Hq; cbn [andb] in Hq;
  chain Hq; try discriminate; (let E0 := fresh "E0" in injection Hq as E0; subst); try (blockout Hb; fail);
  match goal with
  | E : is _ _ && _ = true |- _ => apply andb_prop in E; destruct E as [E _]; apply is_eq; exact E
  | _ => apply is_eq; assumption
  end.

Lemma name_Signature l c nb q len s2 sg r : (l = AtClass \/ l = AtField \/ l = AtMethod) -> attr_body l c nb = Some q ->
  p_block len q s2 = Some (ALeaf (ASignature sg), r) -> nb = s_Signature.
Proof. intros [ -> | [ -> | -> ] ] Hq Hb; namelemma Hq Hb. Qed.
Lemma name_Deprecated l c nb q len s2 r : (l = AtClass \/ l = AtField \/ l = AtMethod) -> attr_body l c nb = Some q ->
  p_block len q s2 = Some (ALeaf ADeprecated, r) -> nb = s_Deprecated.
Proof. intros [ -> | [ -> | -> ] ] Hq Hb; namelemma Hq Hb. Qed.
Lemma name_Synthetic l c nb q len s2 r : (l = AtClass \/ l = AtField \/ l = AtMethod) -> attr_body l c nb = Some q ->
  p_block len q s2 = Some (ALeaf ASynthetic, r) -> nb = s_Synthetic.
Proof. intros [ -> | [ -> | -> ] ] Hq Hb; namelemma Hq Hb. Qed.
Lemma name_InnerClasses c nb q len s2 x r : attr_body AtClass c nb = Some q ->
  p_block len q s2 = Some (AInnerClasses x, r) -> nb = s_InnerClasses.
Proof. intros Hq Hb; namelemma Hq Hb. Qed.
Lemma name_NestHost c nb q len s2 x r : attr_body AtClass c nb = Some q ->
  p_block len q s2 = Some (ANestHost x, r) -> nb = s_NestHost.
Proof. intros Hq Hb; namelemma Hq Hb. Qed.
Lemma name_NestMembers c nb q len s2 x r : attr_body AtClass c nb = Some q ->
  p_block len q s2 = Some (ANestMembers x, r) -> nb = s_NestMembers.
Proof. intros Hq Hb; namelemma Hq Hb. Qed.
Lemma name_BootstrapMethods c nb q len s2 x r : attr_body AtClass c nb = Some q ->
  p_block len q s2 = Some (ABootstrapMethods x, r) -> nb = s_BootstrapMethods.
Proof. intros Hq Hb; namelemma Hq Hb. Qed.
Lemma name_Exceptions c nb q len s2 x r : attr_body AtMethod c nb = Some q ->
  p_block len q s2 = Some (AExceptions x, r) -> nb = s_Exceptions.
Proof. intros Hq Hb; namelemma Hq Hb. Qed.
Lemma name_LVT c nb q len s2 x r : leaf_body AtCode c nb = Some q ->
  p_block len q s2 = Some (ALocalVariableTable x, r) -> nb = s_LocalVariableTable.
Proof.
  intros Hq Hb. unfold leaf_body in Hq. cbn [andb] in Hq.
  chain Hq; try discriminate; injection Hq as <-; try (blockout Hb; fail). apply is_eq. assumption.
Qed.
Lemma name_LVTT c nb q len s2 x r : leaf_body AtCode c nb = Some q ->
  p_block len q s2 = Some (ALocalVariableTypeTable x, r) -> nb = s_LocalVariableTypeTable.
Proof.
  intros Hq Hb. unfold leaf_body in Hq. cbn [andb] in Hq.
  chain Hq; try discriminate; injection Hq as <-; try (blockout Hb; fail). apply is_eq. assumption.
Qed.

(* ---------------------------------------------------------------------------------------------- *)
(* more combinators *)
Lemma p2r_map {A B} (p0 : parser A) (k : A -> B) rd tv0 tv :
  p2r p0 rd tv0 -> (forall x, tv (k x) = tv0 x) -> p2r (x <~ p0 ;; pret (k x)) rd tv.
Proof.
  intros H Hk s a r t E. unfold pbind, pret in E. destruct (p0 s) as [[x s1]|] eqn:E0; [|discriminate]. injection E as <- <-.
  rewrite Hk. exact (H _ _ _ t E0).
Qed.
Lemma p2r_ret {A} impl dec rs (x : A) : p2r (pret x) (RF.rd_fmt impl dec rs (RF.FSeq [])) (fun _ => RF.VSeq []).
Proof. intros s a r t E. unfold pret in E. injection E as <- <-. reflexivity. Qed.

Lemma p2r_optidx8 impl dec cs :
  p2r (p_idx (get_opt get_utf8) (cslots cs 1)) (RF.rd_fmt impl dec (R.acc (BP.rpool dec cs)) (RF.FOptIdx 8%N))
      (fun o => RF.VO (option_map (fun n => RP.VUtf8 (BP.sdec dec n)) o)).
Proof.
  intros s o r t H. unfold p_idx, pbind, plift in H. destruct (p_u16 s) as [[i s1]|] eqn:E; [|discriminate].
  destruct (get_opt get_utf8 (cslots cs 1) i) as [x|] eqn:G; [|discriminate]. injection H as <- <-.
  destruct (p_u16_app s i s1 t E) as [R1 Hi]. cbn [RF.rd_fmt]. rewrite R1. cbn [Base.Str.bind]. unfold get_opt in G.
  destruct (Z.eqb_spec i 0) as [E0|E0].
  - injection G as <-. subst i. reflexivity.
  - destruct (get_utf8 (cslots cs 1) i) as [a|] eqn:Ea; [|discriminate]. injection G as <-.
    destruct (N.eqb_spec (Z.to_N i) 0); [lia|]. rewrite (acc8 dec cs i a Ea). reflexivity.
Qed.
Lemma p2r_class impl dec cs :
  p2r (p_idx get_class (cslots cs 1)) (RF.rd_fmt impl dec (R.acc (BP.rpool dec cs)) (RF.FIdx 6%N)) (cls dec).
Proof. apply p2r_idx. intros i x G. exact (acc6 dec cs i x G). Qed.
Lemma p2r_utf8 impl dec cs :
  p2r (p_idx get_utf8 (cslots cs 1)) (RF.rd_fmt impl dec (R.acc (BP.rpool dec cs)) (RF.FIdx 8%N)) (fun x => RF.VC (RP.VUtf8 (BP.sdec dec x))).
Proof. apply p2r_idx. intros i x G. exact (acc8 dec cs i x G). Qed.

(* a leaf attribute at class / field / method level *)
Lemma attr_leaf (Q0 : dattr0 -> Prop) impl dec cs l sel (p0 : parser dattr0) nameb name f tv0 s a0 r t :
  p_attr l (cslots cs 1) s = Some (ALeaf a0, r) ->
  (forall nb q len s2 r', attr_body l (cslots cs 1) nb = Some q -> p_block len q s2 = Some (ALeaf a0, r') -> nb = nameb) ->
  attr_body l (cslots cs 1) nameb = Some (a <~ p0 ;; pret (ALeaf a)) ->
  BP.sdec dec nameb = name -> (forall len, sel name len = f) ->
  p2rq Q0 p0 (RF.rd_fmt impl dec (R.acc (BP.rpool dec cs)) f) tv0 -> Q0 a0 -> (forall n b, a0 <> AUnknown n b) ->
  RF.rd_fmt impl dec (R.acc (BP.rpool dec cs)) (RF.FAttr sel) (s ++ t) = Ok (RF.VAttr name (tv0 a0), r ++ t).
Proof.
  intros H Hu Hb Hn Hs Hp HQ Hunk. unfold p_attr in H.
  destruct (attr_p2r Q0 impl dec cs _ _ sel ALeaf p0 nameb name f tv0 s _ r t H) as (y & Ey & Hr); try assumption.
  - intros nb q Hq len s2 y r' Hbl ->. exact (Hu nb q len s2 r' Hq Hbl).
  - intros y [= <-]. exact HQ.
  - intros nb b [= E]. exact (Hunk nb b E).
  - injection Ey as <-. exact Hr.
Qed.

(* ---- Signature, Deprecated, Synthetic (class, field, method) ---- *)
Definition leaf_val (dec : RB.bytes -> res str) (a : dattr0) : RF.val :=
  match a with
  | ASignature sg => RF.VAttr RFo.a_Signature (RF.VC (RP.VUtf8 (BP.sdec dec sg)))
  | ADeprecated => RF.VAttr RFo.a_Deprecated (RF.VSeq [])
  | ASynthetic => RF.VAttr RFo.a_Synthetic (RF.VSeq [])
  | _ => RF.VSeq []
  end.
Definition leaf3 (a : dattr0) : bool := match a with ASignature _ | ADeprecated | ASynthetic => true | _ => false end.
Definition sel_ok (sel : str -> N -> RF.fmt) : Prop :=
  (forall len, sel RFo.a_Signature len = RF.FIdx 8%N) /\ (forall len, sel RFo.a_Deprecated len = RF.FSeq []) /\
  (forall len, sel RFo.a_Synthetic len = RF.FSeq []).

Theorem attr_leaf3 impl dec cs l sel s a0 r t : names_ok2 dec = true ->
  (l = AtClass \/ l = AtField \/ l = AtMethod) -> sel_ok sel -> leaf3 a0 = true ->
  p_attr l (cslots cs 1) s = Some (ALeaf a0, r) ->
  RF.rd_fmt impl dec (R.acc (BP.rpool dec cs)) (RF.FAttr sel) (s ++ t) = Ok (leaf_val dec a0, r ++ t).
Proof.
  intros Hn Hl (S1 & S2 & S3) Ha H. destruct a0 as [| |sg| | | | | | |]; try discriminate.
  - (* Deprecated *)
    apply (attr_leaf (fun _ => True) impl dec cs l sel (pret ADeprecated) s_Deprecated RFo.a_Deprecated (RF.FSeq []) (fun _ => RF.VSeq []) s _ r t H).
    + intros nb q len s2 r' Hq Hb. exact (name_Deprecated l _ _ _ _ _ _ Hl Hq Hb).
    + destruct Hl as [ -> | [ -> | -> ] ]; reflexivity.
    + apply (names_in dec _ _ Hn). inpairs.
    + exact S2.
    + apply p2r_q, p2r_ret.
    + exact I.
    + intros; discriminate.
  - (* Synthetic *)
    apply (attr_leaf (fun _ => True) impl dec cs l sel (pret ASynthetic) s_Synthetic RFo.a_Synthetic (RF.FSeq []) (fun _ => RF.VSeq []) s _ r t H).
    + intros nb q len s2 r' Hq Hb. exact (name_Synthetic l _ _ _ _ _ _ Hl Hq Hb).
    + destruct Hl as [ -> | [ -> | -> ] ]; reflexivity.
    + apply (names_in dec _ _ Hn). inpairs.
    + exact S3.
    + apply p2r_q, p2r_ret.
    + exact I.
    + intros; discriminate.
  - (* Signature *)
    apply (attr_leaf (fun _ => True) impl dec cs l sel (x <~ p_idx get_utf8 (cslots cs 1) ;; pret (ASignature x)) s_Signature RFo.a_Signature
             (RF.FIdx 8%N) (fun a => match a with ASignature x => RF.VC (RP.VUtf8 (BP.sdec dec x)) | _ => RF.VSeq [] end) s _ r t H).
    + intros nb q len s2 r' Hq Hb. exact (name_Signature l _ _ _ _ _ _ _ Hl Hq Hb).
    + destruct Hl as [ -> | [ -> | -> ] ]; reflexivity.
    + apply (names_in dec _ _ Hn). inpairs.
    + exact S1.
    + apply p2r_q. apply (p2r_map _ ASignature _ (fun x => RF.VC (RP.VUtf8 (BP.sdec dec x)))); [apply p2r_utf8|reflexivity].
    + exact I.
    + intros; discriminate.
Qed.

Lemma p2r_seq4 {A B C D E} impl dec rs (p1 : parser A) (p2 : parser B) (p3 : parser C) (p4 : parser D) (k : A -> B -> C -> D -> E)
    f1 f2 f3 f4 tv1 tv2 tv3 tv4 tv :
  p2r p1 (RF.rd_fmt impl dec rs f1) tv1 -> p2r p2 (RF.rd_fmt impl dec rs f2) tv2 ->
  p2r p3 (RF.rd_fmt impl dec rs f3) tv3 -> p2r p4 (RF.rd_fmt impl dec rs f4) tv4 ->
  (forall a b c d, tv (k a b c d) = RF.VSeq [tv1 a; tv2 b; tv3 c; tv4 d]) ->
  p2r (a <~ p1 ;; b <~ p2 ;; c <~ p3 ;; d <~ p4 ;; pret (k a b c d)) (RF.rd_fmt impl dec rs (RF.FSeq [f1; f2; f3; f4])) tv.
Proof.
  intros H1 H2 H3 H4 Hk s x r t H. unfold pbind, pret in H.
  destruct (p1 s) as [[a s1]|] eqn:E1; [|discriminate]. destruct (p2 s1) as [[b s2]|] eqn:E2; [|discriminate].
  destruct (p3 s2) as [[c s3]|] eqn:E3; [|discriminate]. destruct (p4 s3) as [[d s4]|] eqn:E4; [|discriminate]. injection H as <- <-.
  rewrite rd_seq4, (H1 _ _ _ t E1). cbn [Base.Str.bind]. rewrite (H2 _ _ _ t E2). cbn [Base.Str.bind].
  rewrite (H3 _ _ _ t E3). cbn [Base.Str.bind]. rewrite (H4 _ _ _ t E4). cbn [Base.Str.bind]. rewrite Hk. reflexivity.
Qed.

(* ---- InnerClasses, NestHost, NestMembers (class); Exceptions (method) ---- *)
Definition ic_val (dec : RB.bytes -> res str) (ic : cinner) : RF.val :=
  RF.VSeq [cls dec (ic_inner ic); RF.VO (option_map (fun n => RP.VClass (BP.sdec dec n)) (ic_outer ic));
           RF.VO (option_map (fun n => RP.VUtf8 (BP.sdec dec n)) (ic_name ic)); RF.VN (RA.access_back 3 (Z.to_N (ic_flags ic)))].
Definition v_InnerClasses dec (l : list cinner) : RF.val := RF.VAttr RFo.a_InnerClasses (RF.VList (map (ic_val dec) l)).
Definition v_NestHost dec (c : bytes) : RF.val := RF.VAttr RFo.a_NestHost (cls dec c).
Definition v_NestMembers dec (l : list bytes) : RF.val := RF.VAttr RFo.a_NestMembers (RF.VList (map (cls dec) l)).
Definition v_Exceptions dec (l : list bytes) : RF.val := RF.VAttr RFo.a_Exceptions (RF.VList (map (cls dec) l)).

Definition p_ic (c : cpool) : parser cinner :=
  a <~ p_idx get_class c ;; b <~ p_idx (get_opt get_class) c ;; n <~ p_idx (get_opt get_utf8) c ;; f <~ p_u16 ;;
  pret {| ic_inner := a; ic_outer := b; ic_name := n; ic_flags := f |}.
Lemma p2r_ic impl dec cs :
  p2r (p_ic (cslots cs 1)) (RF.rd_fmt impl dec (R.acc (BP.rpool dec cs)) (RF.FSeq [RF.FIdx 6%N; RF.FOptIdx 6%N; RF.FOptIdx 8%N; RF.FFlags 3%N])) (ic_val dec).
Proof.
  unfold p_ic. apply (p2r_seq4 impl dec _ _ _ _ _ Build_cinner _ _ _ _ (cls dec)
           (fun o => RF.VO (option_map (fun n => RP.VClass (BP.sdec dec n)) o))
           (fun o => RF.VO (option_map (fun n => RP.VUtf8 (BP.sdec dec n)) o))
           (fun z => RF.VN (RA.access_back 3 (Z.to_N z)))).
  - apply p2r_class.
  - apply p2r_optidx6.
  - apply p2r_optidx8.
  - apply p2r_flags.
  - intros a b c d. reflexivity.
Qed.

Theorem attr_InnerClasses impl dec cs s l r t : names_ok2 dec = true ->
  p_attr AtClass (cslots cs 1) s = Some (AInnerClasses l, r) ->
  RF.rd_fmt impl dec (R.acc (BP.rpool dec cs)) (RF.FAttr R.class_sel) (s ++ t) = Ok (v_InnerClasses dec l, r ++ t).
Proof.
  intros Hn H. unfold p_attr in H.
  destruct (attr_p2r (fun _ => True) impl dec cs _ _ R.class_sel AInnerClasses (p_list16 (p_ic (cslots cs 1))) s_InnerClasses RFo.a_InnerClasses
              RFo.f_InnerClasses (fun x => RF.VList (map (ic_val dec) x)) s _ r t H) as (y & Ey & Hr).
  - intros nb q Hq len s2 y r' Hb ->. exact (name_InnerClasses _ _ _ _ _ _ _ Hq Hb).
  - reflexivity.
  - apply (names_in dec _ _ Hn). inpairs.
  - intros len. reflexivity.
  - apply p2r_q. unfold RFo.f_InnerClasses. apply p2r_vec16. apply p2r_ic.
  - intros; exact I.
  - intros nb b. discriminate.
  - injection Ey as <-. exact Hr.
Qed.

Theorem attr_NestHost impl dec cs s x r t : names_ok2 dec = true ->
  p_attr AtClass (cslots cs 1) s = Some (ANestHost x, r) ->
  RF.rd_fmt impl dec (R.acc (BP.rpool dec cs)) (RF.FAttr R.class_sel) (s ++ t) = Ok (v_NestHost dec x, r ++ t).
Proof.
  intros Hn H. unfold p_attr in H.
  destruct (attr_p2r (fun _ => True) impl dec cs _ _ R.class_sel ANestHost (p_idx get_class (cslots cs 1)) s_NestHost RFo.a_NestHost
              (RF.FIdx 6%N) (cls dec) s _ r t H) as (y & Ey & Hr).
  - intros nb q Hq len s2 y r' Hb ->. exact (name_NestHost _ _ _ _ _ _ _ Hq Hb).
  - reflexivity.
  - apply (names_in dec _ _ Hn). inpairs.
  - intros len. reflexivity.
  - apply p2r_q. apply p2r_class.
  - intros; exact I.
  - intros nb b. discriminate.
  - injection Ey as <-. exact Hr.
Qed.

Theorem attr_NestMembers impl dec cs s x r t : names_ok2 dec = true ->
  p_attr AtClass (cslots cs 1) s = Some (ANestMembers x, r) ->
  RF.rd_fmt impl dec (R.acc (BP.rpool dec cs)) (RF.FAttr R.class_sel) (s ++ t) = Ok (v_NestMembers dec x, r ++ t).
Proof.
  intros Hn H. unfold p_attr in H.
  destruct (attr_p2r (fun _ => True) impl dec cs _ _ R.class_sel ANestMembers (p_list16 (p_idx get_class (cslots cs 1))) s_NestMembers RFo.a_NestMembers
              (RF.FVec16 (RF.FIdx 6%N)) (fun l => RF.VList (map (cls dec) l)) s _ r t H) as (y & Ey & Hr).
  - intros nb q Hq len s2 y r' Hb ->. exact (name_NestMembers _ _ _ _ _ _ _ Hq Hb).
  - reflexivity.
  - apply (names_in dec _ _ Hn). inpairs.
  - intros len. reflexivity.
  - apply p2r_q. apply p2r_vec16. apply p2r_class.
  - intros; exact I.
  - intros nb b. discriminate.
  - injection Ey as <-. exact Hr.
Qed.

Theorem attr_Exceptions impl dec cs s x r t : names_ok2 dec = true ->
  p_attr AtMethod (cslots cs 1) s = Some (AExceptions x, r) ->
  RF.rd_fmt impl dec (R.acc (BP.rpool dec cs)) (RF.FAttr R.method_sel) (s ++ t) = Ok (v_Exceptions dec x, r ++ t).
Proof.
  intros Hn H. unfold p_attr in H.
  destruct (attr_p2r (fun _ => True) impl dec cs _ _ R.method_sel AExceptions (p_list16 (p_idx get_class (cslots cs 1))) s_Exceptions RFo.a_Exceptions
              (RF.FVec16 (RF.FIdx 6%N)) (fun l => RF.VList (map (cls dec) l)) s _ r t H) as (y & Ey & Hr).
  - intros nb q Hq len s2 y r' Hb ->. exact (name_Exceptions _ _ _ _ _ _ _ Hq Hb).
  - reflexivity.
  - apply (names_in dec _ _ Hn). inpairs.
  - intros len. reflexivity.
  - apply p2r_q. apply p2r_vec16. apply p2r_class.
  - intros; exact I.
  - intros nb b. discriminate.
  - injection Ey as <-. exact Hr.
Qed.

(* ---- LocalVariableTable / LocalVariableTypeTable (inside Code) ---- *)
Definition lv_val (dec : RB.bytes -> res str) (e : Z * Z * bytes * bytes * Z) : RF.val :=
  match e with (s, l, n, d, i) =>
    RF.VSeq [RF.VRange (Z.to_N s) (Z.to_N l); RF.VC (RP.VUtf8 (BP.sdec dec n)); RF.VC (RP.VUtf8 (BP.sdec dec d)); RF.VN (Z.to_N i)] end.
Definition lv_fmt : RF.fmt := RF.FSeq [RF.FRange; RF.FIdx 8%N; RF.FIdx 8%N; RF.FU16].
Lemma p2r_lv impl dec cs : p2r (p_lv (cslots cs 1)) (RF.rd_fmt impl dec (R.acc (BP.rpool dec cs)) lv_fmt) (lv_val dec).
Proof.
  intros s x r t H. unfold p_lv, pbind in H.
  destruct (p_u16 s) as [[a s1]|] eqn:E1; [|discriminate]. destruct (p_u16 s1) as [[l s2]|] eqn:E2; [|discriminate].
  destruct (p_idx get_utf8 (cslots cs 1) s2) as [[n s3]|] eqn:E3; [|discriminate].
  destruct (p_idx get_utf8 (cslots cs 1) s3) as [[d s4]|] eqn:E4; [|discriminate].
  destruct (p_u16 s4) as [[i s5]|] eqn:E5; [|discriminate]. unfold pret in H. injection H as <- <-.
  unfold lv_fmt. rewrite rd_seq4.
  assert (RR : RF.rd_fmt impl dec (R.acc (BP.rpool dec cs)) RF.FRange (s ++ t) = Ok (RF.VRange (Z.to_N a) (Z.to_N l), s2 ++ t)).
  { cbn [RF.rd_fmt]. destruct (p_u16_app _ _ _ t E1) as [-> _]. cbn [Base.Str.bind]. destruct (p_u16_app _ _ _ t E2) as [-> _]. reflexivity. }
  rewrite RR. cbn [Base.Str.bind]. rewrite (p2r_utf8 impl dec cs _ _ _ t E3). cbn [Base.Str.bind].
  rewrite (p2r_utf8 impl dec cs _ _ _ t E4). cbn [Base.Str.bind]. rewrite (p2r_u16 impl dec _ _ _ _ t E5). reflexivity.
Qed.

Definition v_LVT dec (l : list (Z * Z * bytes * bytes * Z)) : RF.val := RF.VAttr RFo.a_LocalVariableTable (RF.VList (map (lv_val dec) l)).
Definition v_LVTT dec (l : list (Z * Z * bytes * bytes * Z)) : RF.val := RF.VAttr RFo.a_LocalVariableTypeTable (RF.VList (map (lv_val dec) l)).
Theorem attr_LVT impl dec cs s l r t : names_ok2 dec = true ->
  p_attr0 AtCode (cslots cs 1) s = Some (ALocalVariableTable l, r) ->
  RF.rd_fmt impl dec (R.acc (BP.rpool dec cs)) (RF.FAttr R.code_sel) (s ++ t) = Ok (v_LVT dec l, r ++ t).
Proof.
  intros Hn H. unfold p_attr0 in H.
  destruct (attr_p2r (fun _ => True) impl dec cs _ _ R.code_sel ALocalVariableTable (p_list16 (p_lv (cslots cs 1))) s_LocalVariableTable
              RFo.a_LocalVariableTable (RF.FVec16 lv_fmt) (fun x => RF.VList (map (lv_val dec) x)) s _ r t H) as (y & Ey & Hr).
  - intros nb q Hq len s2 y r' Hb ->. exact (name_LVT _ _ _ _ _ _ _ Hq Hb).
  - reflexivity.
  - apply (names_in dec _ _ Hn). inpairs.
  - intros len. reflexivity.
  - apply p2r_q. apply p2r_vec16. apply p2r_lv.
  - intros; exact I.
  - intros nb b. discriminate.
  - injection Ey as <-. exact Hr.
Qed.
Theorem attr_LVTT impl dec cs s l r t : names_ok2 dec = true ->
  p_attr0 AtCode (cslots cs 1) s = Some (ALocalVariableTypeTable l, r) ->
  RF.rd_fmt impl dec (R.acc (BP.rpool dec cs)) (RF.FAttr R.code_sel) (s ++ t) = Ok (v_LVTT dec l, r ++ t).
Proof.
  intros Hn H. unfold p_attr0 in H.
  destruct (attr_p2r (fun _ => True) impl dec cs _ _ R.code_sel ALocalVariableTypeTable (p_list16 (p_lv (cslots cs 1))) s_LocalVariableTypeTable
              RFo.a_LocalVariableTypeTable (RF.FVec16 lv_fmt) (fun x => RF.VList (map (lv_val dec) x)) s _ r t H) as (y & Ey & Hr).
  - intros nb q Hq len s2 y r' Hb ->. exact (name_LVTT _ _ _ _ _ _ _ Hq Hb).
  - reflexivity.
  - apply (names_in dec _ _ Hn). inpairs.
  - intros len. reflexivity.
  - apply p2r_q. apply p2r_vec16. apply p2r_lv.
  - intros; exact I.
  - intros nb b. discriminate.
  - injection Ey as <-. exact Hr.
Qed.

(* ---- BootstrapMethods (class): relational, the handle indices are not part of the decoder's result ---- *)
Definition bsm_rel (cs : list centry) (tbl : list (handle * list Z)) (v : RF.val) : Prop :=
  exists vs B, v = RF.VAttr RFo.a_BootstrapMethods (RF.VList vs) /\ RP.map_res R.bsm_entry vs = Ok B /\ table_agrees cs tbl B.
Theorem attr_BootstrapMethods impl dec cs s tbl r t : names_ok2 dec = true ->
  p_attr AtClass (cslots cs 1) s = Some (ABootstrapMethods tbl, r) ->
  exists v, RF.rd_fmt impl dec (R.acc (BP.rpool dec cs)) (RF.FAttr R.class_sel) (s ++ t) = Ok (v, r ++ t) /\ bsm_rel cs tbl v.
Proof.
  intros Hn H. unfold p_attr in H.
  destruct (attr_with_inv _ _ _ _ _ _ H) as (i & nb & len & s1 & s2 & E1 & G & E2 & Hb).
  destruct (attr_body AtClass (cslots cs 1) nb) as [q|] eqn:Eq; [|destruct Hb as (b & _ & Hx); discriminate].
  pose proof (name_BootstrapMethods _ _ _ _ _ _ _ Eq Hb) as ->.
  assert (Eq' : attr_body AtClass (cslots cs 1) s_BootstrapMethods = Some (x <~ p_list16 (p_bsm (cslots cs 1)) ;; pret (ABootstrapMethods x))) by reflexivity.
  rewrite Eq' in Eq. injection Eq as <-.
  destruct (block_inv _ _ _ _ _ Hb) as (b & -> & Hlen & Hpb).
  unfold pbind, pret in Hpb. destruct (p_list16 (p_bsm (cslots cs 1)) b) as [[y rb]|] eqn:Ep; [|discriminate]. injection Hpb as <- ->.
  destruct (bootstrap_table_read impl dec cs b y [] (r ++ t) Ep) as (vs & B & Hr & Hm & HB). cbn [app] in Hr.
  exists (RF.VAttr RFo.a_BootstrapMethods (RF.VList vs)). split; [|exists vs, B; repeat split; assumption].
  cbn [RF.rd_fmt]. destruct (p_u16_app s i s1 t E1) as [-> _]. cbn [Base.Str.bind].
  rewrite (acc8 dec cs i _ G). cbn [Base.Str.bind]. rewrite (names_in dec s_BootstrapMethods _ Hn) by inpairs.
  destruct (p_u32_app s1 len (b ++ r) t E2) as [-> _]. cbn [Base.Str.bind].
  change (R.class_sel RFo.a_BootstrapMethods (Z.to_N len)) with RFo.f_BootstrapMethods.
  rewrite <- app_assoc.
  fold (RF.rd_fmt impl dec (R.acc (BP.rpool dec cs)) RFo.f_BootstrapMethods (b ++ r ++ t)). rewrite Hr. reflexivity.
Qed.
