(* X12 — bridge, part 5: MODIFIED UTF-8 across the two models.
   C02's writer encodes every string with [mutf8] (C02/Class.v, proved against a byte-only JVMS 4.4.7
   decoder in C02/TheoryU.v).  C01's reader decodes every CONSTANT_Utf8 with [mutf8_dec] (C01/Mutf8.v, the
   model of java_string's from_modified_utf8: bytes that are valid standard UTF-8 are taken as they are,
   otherwise the modified form is decoded, a high surrogate followed by a low one becoming one
   supplementary character).  The two were written independently, from different sources (the JVMS
   table; the crate's code).

     mutf8_dec (mutf8 s) = Ok (join (utf16 s))      for EVERY list of code points below 0x110000
                         = Ok s                      unless s holds a high-surrogate code point
                                                     immediately followed by a low-surrogate one
   (the one ambiguity of the format, C02's [nsp]: such a list and the list with the joined
   supplementary character have the same bytes). *)
From Coq Require Import List NArith ZArith Bool Lia.
From FB Require Import Base.Str C01.Bytes C01.Mutf8.
From FB Require C02.Model C02.Class C02.TheoryU.
Import ListNotations.
Module WC := FB.C02.Class.
Module WU := FB.C02.TheoryU.
Local Open Scope N_scope.
Local Arguments N.add : simpl never.
Local Arguments N.sub : simpl never.
Local Arguments N.mul : simpl never.
Local Arguments N.div : simpl never.
Local Arguments N.modulo : simpl never.
Local Arguments N.eqb : simpl never.
Local Arguments N.ltb : simpl never.
Local Arguments N.leb : simpl never.

Ltac dlia := zify; Z.to_euclidean_division_equations; lia.
Ltac bdec :=
  repeat match goal with
  | |- context [N.eqb ?a ?b] => destruct (N.eqb_spec a b); try lia
  | |- context [N.ltb ?a ?b] => destruct (N.ltb_spec a b); try lia
  | |- context [N.leb ?a ?b] => destruct (N.leb_spec a b); try lia
  end.

(* ---------------------------------------------------------------------------------------------- *)
(* one step of from_modified_utf8_internal, per form *)
Lemma int_1 k x r : 0 < x -> x < 128 ->
  mutf8_internal (S k) (x :: r) = (do t <- mutf8_internal k r; Ok (x :: t)).
Proof.
  intros H0 H1. cbn [mutf8_internal]. destruct (N.eqb_spec x 0); [lia|]. destruct (N.ltb_spec x 128); [|lia]. reflexivity.
Qed.

Lemma int_0 k r : mutf8_internal (S k) (192 :: 128 :: r) = (do t <- mutf8_internal k r; Ok (0 :: t)).
Proof. reflexivity. Qed.

Lemma int_2 k a b r : 194 <= a -> a < 224 -> 128 <= b -> b < 192 ->
  mutf8_internal (S k) (a :: b :: r) = (do t <- mutf8_internal k r; Ok (((a - 192) * 64 + (b - 128)) :: t)).
Proof.
  intros Ha1 Ha2 Hb1 Hb2. cbn [mutf8_internal]. unfold is_cont.
  destruct (N.eqb_spec a 0); [lia|]. destruct (N.ltb_spec a 128); [lia|]. destruct (N.eqb_spec a 192); [lia|].
  destruct (N.leb_spec 128 b); [|lia]. destruct (N.ltb_spec b 192); [|lia]. cbn [andb negb].
  destruct (N.leb_spec 194 a); [|lia]. destruct (N.ltb_spec a 224); [|lia]. reflexivity.
Qed.

(* three bytes, not the first half of a pair *)
Lemma int_3 k a b c r : 224 <= a -> a < 240 -> 128 <= b -> b < 192 -> 128 <= c -> c < 192 ->
  (a = 224 -> 160 <= b) -> (a = 237 -> b < 160 \/ 176 <= b) ->
  mutf8_internal (S k) (a :: b :: c :: r)
  = (do t <- mutf8_internal k r; Ok (((a - 224) * 4096 + (b - 128) * 64 + (c - 128)) :: t)).
Proof.
  intros Ha1 Ha2 Hb1 Hb2 Hc1 Hc2 H224 H237. cbn [mutf8_internal]. unfold is_cont.
  destruct (N.eqb_spec a 0); [lia|]. destruct (N.ltb_spec a 128); [lia|]. destruct (N.eqb_spec a 192); [lia|].
  destruct (N.leb_spec 128 b); [|lia]. destruct (N.ltb_spec b 192); [|lia]. cbn [andb negb].
  destruct (N.leb_spec 194 a); [|lia]. destruct (N.ltb_spec a 224); [lia|]. cbn [andb].
  destruct (N.leb_spec 224 a); [|lia]. destruct (N.ltb_spec a 240); [|lia]. cbn [andb].
  destruct (N.leb_spec 128 c); [|lia]. destruct (N.ltb_spec c 192); [|lia]. cbn [andb negb].
  destruct (N.eqb_spec a 224) as [E|E].
  - specialize (H224 E). destruct (N.leb_spec 160 b); [|lia]. reflexivity.
  - cbn [andb orb]. destruct (N.leb_spec 225 a); [|lia]. destruct (N.leb_spec a 236) as [L|L]; [reflexivity|].
    cbn [andb orb]. destruct (N.eqb_spec a 237) as [E7|E7].
    + destruct (H237 E7) as [Hb|Hb].
      * destruct (N.ltb_spec b 160); [|lia]. reflexivity.
      * destruct (N.ltb_spec b 160); [lia|]. cbn [andb orb]. destruct (N.leb_spec 238 a); [lia|]. cbn [orb].
        destruct (N.leb_spec 176 b); [|lia]. reflexivity.
    + cbn [andb orb]. destruct (N.leb_spec 238 a); [|lia]. reflexivity.
Qed.

(* the head of the hi-surrogate branch, the same for what follows *)
Lemma int_hi_head k b c r2 : 160 <= b -> b < 176 -> 128 <= c -> c < 192 ->
  mutf8_internal (S k) (237 :: b :: c :: r2)
  = (let cp := (237 - 224) * 4096 + (b - 128) * 64 + (c - 128) in
     match r2 with
     | 237 :: e :: f :: r3 =>
       if (176 <=? e) && (e <? 192) && is_cont f
       then let lo := 53248 + (e - 128) * 64 + (f - 128) in
            do t <- mutf8_internal k r3; Ok ((65536 + (cp - 55296) * 1024 + (lo - 56320)) :: t)
       else do t <- mutf8_internal k r2; Ok (cp :: t)
     | _ => do t <- mutf8_internal k r2; Ok (cp :: t)
     end).
Proof.
  intros Hb1 Hb2 Hc1 Hc2. cbn [mutf8_internal]. unfold is_cont.
  change (237 =? 0) with false. change (237 <? 128) with false. change (237 =? 192) with false. cbv iota.
  destruct (N.leb_spec 128 b); [|lia]. destruct (N.ltb_spec b 192); [|lia]. cbn [andb negb].
  change (194 <=? 237) with true. change (237 <? 224) with false. change (224 <=? 237) with true.
  change (237 <? 240) with true. cbn [andb].
  destruct (N.leb_spec 128 c); [|lia]. destruct (N.ltb_spec c 192); [|lia]. cbn [andb negb].
  change (237 =? 224) with false. change (225 <=? 237) with true. change (237 <=? 236) with false.
  change (237 =? 237) with true. change (238 <=? 237) with false. cbn [andb orb].
  destruct (N.ltb_spec b 160); [lia|]. destruct (N.leb_spec 176 b); [lia|]. cbn [andb orb].
  destruct (N.leb_spec 160 b); [|lia]. destruct (N.ltb_spec b 176); [|lia]. cbn [andb]. reflexivity.
Qed.

Lemma int_pair k b c e f r3 : 160 <= b -> b < 176 -> 128 <= c -> c < 192 -> 176 <= e -> e < 192 -> 128 <= f -> f < 192 ->
  mutf8_internal (S k) (237 :: b :: c :: 237 :: e :: f :: r3)
  = (do t <- mutf8_internal k r3;
     Ok ((65536 + (((237 - 224) * 4096 + (b - 128) * 64 + (c - 128)) - 55296) * 1024
          + ((53248 + (e - 128) * 64 + (f - 128)) - 56320)) :: t)).
Proof.
  intros Hb1 Hb2 Hc1 Hc2 He1 He2 Hf1 Hf2. rewrite int_hi_head by assumption. cbv zeta. unfold is_cont.
  destruct (N.leb_spec 176 e); [|lia]. destruct (N.ltb_spec e 192); [|lia].
  destruct (N.leb_spec 128 f); [|lia]. destruct (N.ltb_spec f 192); [|lia]. reflexivity.
Qed.

(* a first half not followed by the three-byte form of a second half *)
Definition no_lo_form (r2 : bytes) : Prop :=
  r2 = [] \/ (exists x r, r2 = x :: r /\ x <> 237) \/ (exists e f r3, r2 = 237 :: e :: f :: r3 /\ e < 176).
Lemma int_hi_single k b c r2 : 160 <= b -> b < 176 -> 128 <= c -> c < 192 -> no_lo_form r2 ->
  mutf8_internal (S k) (237 :: b :: c :: r2)
  = (do t <- mutf8_internal k r2; Ok (((237 - 224) * 4096 + (b - 128) * 64 + (c - 128)) :: t)).
Proof.
  intros Hb1 Hb2 Hc1 Hc2 H. rewrite int_hi_head by assumption. cbv zeta.
  destruct H as [->|[(x & r & -> & Hx)|(e & f & r3 & -> & He)]].
  - reflexivity.
  - destruct x as [|p]; [reflexivity|].
    do 8 (destruct p as [p|p|]; try reflexivity). exfalso. apply Hx. reflexivity.
  - destruct (N.leb_spec 176 e); [lia|]. reflexivity.
Qed.

(* ---------------------------------------------------------------------------------------------- *)
(* units *)
Lemma join_not_hi h r : WU.is_hi h = false -> WU.join (h :: r) = h :: WU.join r.
Proof. intros H. destruct r as [|l r']; [reflexivity|]. cbn [WU.join]. rewrite H. reflexivity. Qed.
Lemma join_hi_not_lo h l r : WU.is_lo l = false -> WU.join (h :: l :: r) = h :: WU.join (l :: r).
Proof. intros H. cbn [WU.join]. rewrite H, andb_false_r. reflexivity. Qed.

Lemma enc_unit_len_pos u : (1 <= length (WU.enc_unit u))%nat.
Proof. pose proof (WU.enc_unit_len u). lia. Qed.

(* the first byte of an encoded unit is 237 only for the three-byte form of D000..DFFF *)
Lemma enc_unit_head u rest : u < 65536 ->
  (exists x r, WU.enc_unit u ++ rest = x :: r /\ x <> 237)
  \/ (53248 <= u /\ u < 57344 /\ WU.enc_unit u ++ rest = 237 :: (128 + (u / 64) mod 64) :: (128 + u mod 64) :: rest).
Proof.
  intros Hu. unfold WU.enc_unit.
  destruct (N.eqb_spec u 0); [left; eexists _, _; split; [reflexivity|lia]|].
  destruct (N.ltb_spec u 128); [left; eexists _, _; split; [reflexivity|lia]|].
  destruct (N.ltb_spec u 2048); [left; eexists _, _; split; [reflexivity|dlia]|].
  unfold WC.enc3. cbn [app].
  destruct (N.eq_dec (u / 4096) 13) as [E|E].
  - right. split; [dlia|]. split; [dlia|]. rewrite E. reflexivity.
  - left. eexists _, _. split; [reflexivity|]. lia.
Qed.

Lemma internal_units : forall n us k, (length us <= n)%nat -> Forall (fun u => u < 65536) us ->
  (length (flat_map WU.enc_unit us) <= k)%nat ->
  mutf8_internal k (flat_map WU.enc_unit us) = Ok (WU.join us).
Proof.
  induction n as [|n IH]; intros us k Hn HF Hk.
  { destruct us; [|cbn in Hn; lia]. destruct k; reflexivity. }
  destruct us as [|h r]; [destruct k; reflexivity|].
  inversion HF as [|? ? Hh Hr]; subst. cbn [flat_map] in *. rewrite app_length in Hk.
  pose proof (enc_unit_len_pos h) as Hpos.
  destruct k as [|k]; [lia|].
  assert (Hrest : forall k', (length (flat_map WU.enc_unit r) <= k')%nat ->
                              mutf8_internal k' (flat_map WU.enc_unit r) = Ok (WU.join r)).
  { intros k' Hk'. apply (IH r k'); [cbn [length] in Hn; lia|exact Hr|exact Hk']. }
  unfold WU.enc_unit at 1. unfold WU.enc_unit at 1 in Hk.
  destruct (N.eqb_spec h 0) as [E0|E0].
  { subst h. cbn [app length] in *. rewrite int_0, Hrest by lia. cbn [bind]. rewrite join_not_hi by reflexivity. reflexivity. }
  destruct (N.ltb_spec h 128) as [H1|H1].
  { cbn [app length] in *. rewrite int_1, Hrest by lia. cbn [bind]. rewrite join_not_hi; [reflexivity|].
    unfold WU.is_hi. destruct (N.leb_spec 55296 h); [lia|reflexivity]. }
  destruct (N.ltb_spec h 2048) as [H2|H2].
  { cbn [app length] in *. rewrite int_2, Hrest by (try lia; dlia). cbn [bind]. rewrite join_not_hi.
    - do 2 f_equal. dlia.
    - unfold WU.is_hi. destruct (N.leb_spec 55296 h); [lia|reflexivity]. }
  unfold WC.enc3 in *. cbn [app length] in *.
  destruct (WU.is_hi h) eqn:Ehi.
  - (* a first half *)
    unfold WU.is_hi in Ehi. apply andb_prop in Ehi. destruct Ehi as [G1 G2]. apply N.leb_le in G1. apply N.ltb_lt in G2.
    assert (E13 : 224 + h / 4096 = 237) by dlia. rewrite E13.
    destruct r as [|l r'].
    + cbn [flat_map]. rewrite int_hi_single; try dlia; [|left; reflexivity].
      assert (Z0 : mutf8_internal k [] = Ok []) by (destruct k; reflexivity).
      rewrite Z0. cbn [bind WU.join]. do 2 f_equal. dlia.
    + inversion Hr as [|? ? Hl Hr']; subst. cbn [flat_map].
      destruct (WU.is_lo l) eqn:Elo.
      * unfold WU.is_lo in Elo. apply andb_prop in Elo. destruct Elo as [L1 L2]. apply N.leb_le in L1. apply N.ltb_lt in L2.
        destruct (enc_unit_head l (flat_map WU.enc_unit r') Hl) as [(x & rr & Ex & Hx)|(_ & _ & E)].
        { exfalso. unfold WU.enc_unit in Ex.
          destruct (N.eqb_spec l 0); [lia|]. destruct (N.ltb_spec l 128); [lia|]. destruct (N.ltb_spec l 2048); [lia|].
          unfold WC.enc3 in Ex. cbn [app] in Ex. injection Ex as Ex _. apply Hx. rewrite <- Ex. dlia. }
        rewrite E. rewrite int_pair; try dlia.
        assert (Hk3 : (length (flat_map WU.enc_unit r') <= k)%nat).
        { cbn [flat_map] in Hk. rewrite E in Hk. cbn [length] in Hk. lia. }
        rewrite (IH r' k) by (try assumption; cbn [length] in Hn; lia). cbn [bind].
        rewrite WU.join_pair.
        -- do 2 f_equal. dlia.
        -- unfold WU.is_hi. destruct (N.leb_spec 55296 h); [|lia]. destruct (N.ltb_spec h 56320); [reflexivity|lia].
        -- unfold WU.is_lo. destruct (N.leb_spec 56320 l); [|lia]. destruct (N.ltb_spec l 57344); [reflexivity|lia].
      * rewrite int_hi_single; try dlia.
        -- change (WU.enc_unit l ++ flat_map WU.enc_unit r') with (flat_map WU.enc_unit (l :: r')).
           rewrite Hrest by lia. cbn [bind]. rewrite join_hi_not_lo by exact Elo. do 2 f_equal. dlia.
        -- destruct (enc_unit_head l (flat_map WU.enc_unit r') Hl) as [(x & rr & Ex & Hx)|(G3 & G4 & E)].
           ++ right. left. exists x, rr. split; assumption.
           ++ right. right. eexists _, _, _. split; [exact E|].
              unfold WU.is_lo in Elo. destruct (N.leb_spec 56320 l) as [Q|Q].
              ** destruct (N.ltb_spec l 57344); [discriminate|lia].
              ** dlia.
  - (* not a first half *)
    unfold WU.is_hi in Ehi.
    rewrite int_3; try dlia.
    + rewrite Hrest by lia. cbn [bind]. rewrite join_not_hi by exact Ehi. do 2 f_equal. dlia.
    + intros E. destruct (N.leb_spec 55296 h) as [Q|Q]; [|dlia]. destruct (N.ltb_spec h 56320); [discriminate|dlia].
Qed.

(* ---------------------------------------------------------------------------------------------- *)
(* what from_utf8 accepts of bytes below F0 without a zero byte, the modified decoder reads the same way *)
Lemma strict_internal : forall k s x, utf8_strict k s = Ok x -> Forall (fun b => 0 < b /\ b < 240) s ->
  mutf8_internal k s = Ok x.
Proof.
  induction k as [|k IH]; intros s x H HF.
  { destruct s; [exact H|discriminate]. }
  destruct s as [|a r]; [exact H|]. inversion HF as [|? ? [Ha0 Ha1] Hr]; subst.
  cbn [utf8_strict] in H.
  destruct (N.ltb_spec a 128) as [L|L].
  { destruct (utf8_strict k r) as [t|] eqn:E; [|discriminate]. cbn [bind] in H. injection H as <-.
    rewrite int_1 by lia. rewrite (IH r t E Hr). reflexivity. }
  destruct (N.leb_spec 194 a) as [L2|L2]; cbn [andb] in H.
  2:{ destruct (N.leb_spec 224 a); [lia|]. cbn [andb] in H. destruct (N.leb_spec 240 a); [lia|]. discriminate. }
  destruct (N.ltb_spec a 224) as [L3|L3]; cbn [andb] in H.
  { destruct r as [|b r1]; [discriminate|]. unfold is_cont in H.
    destruct (N.leb_spec 128 b); [|discriminate]. destruct (N.ltb_spec b 192); [|discriminate]. cbn [andb] in H.
    destruct (utf8_strict k r1) as [t|] eqn:E; [|discriminate]. cbn [bind] in H. injection H as <-.
    inversion Hr as [|? ? _ Hr1]; subst. rewrite int_2 by lia. rewrite (IH r1 t E Hr1). reflexivity. }
  destruct (N.leb_spec 224 a); [|lia]. destruct (N.ltb_spec a 240); [|lia]. cbn [andb] in H.
  destruct r as [|b [|c r1]]; try discriminate.
  inversion Hr as [|? ? _ Hr0]; subst. inversion Hr0 as [|? ? _ Hr1]; subst.
  match type of H with (if ?c1 && is_cont c then _ else _) = _ => destruct c1 eqn:E1; [|discriminate] end.
  unfold is_cont in H. cbn [andb] in H.
  destruct (N.leb_spec 128 c); [|discriminate]. destruct (N.ltb_spec c 192); [|discriminate]. cbn [andb] in H.
  destruct (utf8_strict k r1) as [t|] eqn:E; [|discriminate]. cbn [bind] in H. injection H as <-.
  assert (Hb : 128 <= b /\ b < 192 /\ (a = 224 -> 160 <= b) /\ (a = 237 -> b < 160)).
  { unfold is_cont in E1. destruct (N.eqb_spec a 224).
    - apply andb_prop in E1. destruct E1 as [Q1 Q2]. apply N.leb_le in Q1. apply N.ltb_lt in Q2. repeat split; lia.
    - destruct (N.eqb_spec a 237).
      + apply andb_prop in E1. destruct E1 as [Q1 Q2]. apply N.leb_le in Q1. apply N.ltb_lt in Q2. repeat split; lia.
      + apply andb_prop in E1. destruct E1 as [Q1 Q2]. apply N.leb_le in Q1. apply N.ltb_lt in Q2. repeat split; lia. }
  destruct Hb as (B1 & B2 & B3 & B4).
  rewrite int_3 by (try lia; intros E7; left; apply B4; exact E7).
  rewrite (IH r1 t E Hr1). reflexivity.
Qed.

(* ---------------------------------------------------------------------------------------------- *)
Theorem mutf8_dec_mutf8_general s : WU.cps_ok s -> mutf8_dec (WC.mutf8 s) = Ok (WU.join (WU.utf16 s)).
Proof.
  intros Hs. unfold mutf8_dec.
  assert (I : mutf8_internal (length (WC.mutf8 s)) (WC.mutf8 s) = Ok (WU.join (WU.utf16 s))).
  { rewrite WU.mutf8_units. apply (internal_units (length (WU.utf16 s))); [lia|apply WU.utf16_units; exact Hs|lia]. }
  destruct (utf8_strict (length (WC.mutf8 s)) (WC.mutf8 s)) as [x|] eqn:E; [|exact I].
  rewrite (strict_internal _ _ _ E (WU.mutf8_bytes s Hs)) in I. exact I.
Qed.

Theorem mutf8_dec_mutf8 s : WU.cps_ok s -> WU.nsp s = true -> mutf8_dec (WC.mutf8 s) = Ok s.
Proof. intros Hs Hn. rewrite mutf8_dec_mutf8_general by exact Hs. rewrite WU.join_utf16 by assumption. reflexivity. Qed.

(* non-vacuity: NUL, ASCII, two- and three-byte characters, a supplementary character, lone surrogates;
   and the ambiguity: a split pair reads back joined *)
Theorem mutf8_dec_examples :
  mutf8_dec (WC.mutf8 [0; 65; 233; 8364; 128512; 55357; 65; 56832]) = Ok [0; 65; 233; 8364; 128512; 55357; 65; 56832]
  /\ WU.nsp [0; 65; 233; 8364; 128512; 55357; 65; 56832] = true
  /\ WU.nsp [55357; 56832] = false /\ mutf8_dec (WC.mutf8 [55357; 56832]) = Ok [128512]
  /\ WC.mutf8 [55357; 56832] = WC.mutf8 [128512].
Proof. repeat split; vm_compute; reflexivity. Qed.
