(* X12 — bridge, part 8: FIELD AND METHOD HEADERS, and the attribute framing the reader's first pass needs.

   Generic part ("decoder to reader"): whatever byte string C02's strict JVMS decoder (C02/Decode.v) accepts as
   an attribute / attribute list / member / member list, C01's reader traverses over exactly the same bytes:
   [skip_attrs] / [skip_members] (the length-driven first pass of read_class) end where the decoder ends, and
   the member headers C01's format reader delivers (access flags through the flag table, name and descriptor
   resolved with the Utf8 accessor) are the decoder's, strings decoded.  The attribute_length fields are
   exact because the decoder demands it (p_block) — this is where C02's length theorems enter.

   Class part: for the class file write_class_aux wrote (cclass_ok tree), after [read_head]: the fields and the
   methods are read header by header to the tree's (flags, name, descriptor) in order, the first pass lands
   exactly on the class attributes, and skipping those ends exactly at the end of the file.
   [rd_headers] is the reader's member loop reduced to the header: the three header fields are read by C01's
   own [rd_fmt] on the first three components of its member format, the attributes are passed over by C01's
   own [skip_attrs] ([rd_headers_skip]: it ends where skip_members ends). *)
From Coq Require Import List NArith ZArith Bool Lia.
From FB Require Import C02.Model C02.Encode C02.Theory2 C02.Theory8 C02.Frames C02.Class C02.Decode C02.Facts
  C02.TheoryC1 C02.TheoryC2 C02.TheoryC3 C02.TheoryC4 C02.TheoryC8.
From FB Require C01.Bytes C01.Pool C01.Attr C01.Tables C01.Fmt C01.ClassFile C01.Theory7 C01.Mutf8.
From FB Require X12.BridgePlain X12.BridgePool.
From FB Require Import X12.BridgeClass.
Import ListNotations.
Local Open Scope Z_scope.

(* ---------------------------------------------------------------------------------------------- *)
(* primitive reads of the two models *)
Lemma p_u16_rd s z r : p_u16 s = Some (z, r) -> RB.rd_u16 s = Ok (Z.to_N z, r) /\ 0 <= z.
Proof.
  unfold p_u16, rd_u16, RB.rd_u16. destruct s as [|a [|b s']]; try discriminate. intros [= <- <-].
  split; [|lia]. f_equal. f_equal. unfold RB.dec16. lia.
Qed.
Lemma p_u32_rd s z r : p_u32 s = Some (z, r) -> RB.rd_u32 s = Ok (Z.to_N z, r) /\ 0 <= z.
Proof.
  unfold p_u32, RB.rd_u32. destruct s as [|a [|b [|c [|d s']]]]; try discriminate. intros [= <- <-].
  split; [|lia]. f_equal. f_equal. unfold RB.dec32. lia.
Qed.
Lemma p_take_inv : forall n s b r, p_take n s = Some (b, r) -> s = b ++ r /\ length b = n.
Proof.
  induction n as [|n IH]; intros s b r H; cbn [p_take] in H.
  - unfold pret in H. injection H as <- <-. split; reflexivity.
  - destruct s as [|x s']; [discriminate|]. destruct (p_take n s') as [[l r']|] eqn:E; [|discriminate]. injection H as <- <-.
    destruct (IH _ _ _ E) as [-> <-]. split; reflexivity.
Qed.
Lemma take_lenient_app (b r : list N) k : N.to_nat k = length b -> snd (RF.take_lenient k (b ++ r)) = r.
Proof.
  intros H. unfold RF.take_lenient. rewrite app_length.
  destruct (N.leb_spec k (N.of_nat (length b + length r))); [|lia]. cbn [snd]. rewrite H.
  rewrite skipn_app, Nat.sub_diag, skipn_all. reflexivity.
Qed.

(* ---------------------------------------------------------------------------------------------- *)
(* attributes: the decoder's exact lengths are the reader's skips *)
Lemma attr_skip {A} c (body : bytes -> option (parser A)) unk s x r :
  p_attr_with c body unk s = Some (x, r) -> R.skip_attrs_n 1 s = Ok r.
Proof.
  unfold p_attr_with, p_idx, pbind, plift. intros H.
  destruct (p_u16 s) as [[i s1]|] eqn:E1; [|discriminate].
  destruct (get_utf8 c i) as [name|]; [|discriminate].
  destruct (p_u32 s1) as [[len s2]|] eqn:E2; [|discriminate].
  destruct (p_u16_rd _ _ _ E1) as [R1 _]. destruct (p_u32_rd _ _ _ E2) as [R2 Hl].
  cbn [R.skip_attrs_n]. rewrite R1. cbn [Base.Str.bind]. rewrite R2. cbn [Base.Str.bind].
  assert (G : exists b, s2 = b ++ r /\ length b = Z.to_nat len).
  { destruct (body name) as [p|].
    - unfold p_block, pbind in H. destruct (p_take (Z.to_nat len) s2) as [[b r']|] eqn:E3; [|discriminate].
      destruct (p_take_inv _ _ _ _ E3) as [-> Hb]. destruct (p b) as [[a [|? ?]]|]; try discriminate. unfold pret in H. injection H as _ <-.
      exists b. split; [reflexivity|exact Hb].
    - unfold pbind in H. destruct (p_take (Z.to_nat len) s2) as [[b r']|] eqn:E3; [|discriminate].
      destruct (p_take_inv _ _ _ _ E3) as [-> Hb]. unfold pret in H. injection H as _ <-. exists b. split; [reflexivity|exact Hb]. }
  destruct G as (b & -> & Hb). rewrite take_lenient_app by lia. reflexivity.
Qed.

Lemma skip_attrs_n_S n s : R.skip_attrs_n (S n) s = (do s1 <- R.skip_attrs_n 1 s; R.skip_attrs_n n s1).
Proof.
  cbn [R.skip_attrs_n]. destruct (RB.rd_u16 s) as [[i s1]|]; [|reflexivity]. cbn [Base.Str.bind].
  destruct (RB.rd_u32 s1) as [[len s2]|]; reflexivity.
Qed.

Lemma attrs_rep_skip {A} c (body : bytes -> option (parser A)) unk : forall n s xs r,
  p_rep n (p_attr_with c body unk) s = Some (xs, r) -> R.skip_attrs_n n s = Ok r.
Proof.
  induction n as [|n IH]; intros s xs r H; cbn [p_rep] in H.
  - unfold pret in H. injection H as _ <-. reflexivity.
  - unfold pbind in H. destruct (p_attr_with c body unk s) as [[x s1]|] eqn:E; [|discriminate].
    destruct (p_rep n (p_attr_with c body unk) s1) as [[xs' r']|] eqn:E2; [|discriminate]. unfold pret in H. injection H as _ <-.
    rewrite skip_attrs_n_S, (attr_skip _ _ _ _ _ _ E). cbn [Base.Str.bind]. exact (IH _ _ _ E2).
Qed.

Lemma attrs_skip {A} c (body : bytes -> option (parser A)) unk s xs r :
  p_list16 (p_attr_with c body unk) s = Some (xs, r) -> R.skip_attrs s = Ok r.
Proof.
  unfold p_list16, pbind. destruct (p_u16 s) as [[n s1]|] eqn:E; [|discriminate]. intros H.
  destruct (p_u16_rd _ _ _ E) as [R1 Hn]. unfold R.skip_attrs. rewrite R1. cbn [Base.Str.bind].
  replace (N.to_nat (Z.to_N n)) with (Z.to_nat n) by lia. exact (attrs_rep_skip _ _ _ _ _ _ _ H).
Qed.

(* ---------------------------------------------------------------------------------------------- *)
(* members *)
Definition hdr_fmt (k : N) : RF.fmt := RF.FSeq [RF.FFlags k; RF.FIdx 8%N; RF.FIdx 8%N].
Fixpoint rd_headers_n (impl : bool) (dec : RB.bytes -> res str) (rs : N -> N -> res RP.cval) (k : N) (n : nat) (s : RB.bytes)
  : res (list RF.val * RB.bytes) :=
  match n with
  | O => Ok ([], s)
  | S n' =>
    do (h, s1) <- RF.rd_fmt impl dec rs (hdr_fmt k) s;
    do s2 <- R.skip_attrs s1;
    do (hs, s3) <- rd_headers_n impl dec rs k n' s2;
    Ok (h :: hs, s3)
  end.
Definition rd_headers impl dec rs (k : N) (s : RB.bytes) : res (list RF.val * RB.bytes) :=
  do (n, s1) <- RB.rd_u16 s; rd_headers_n impl dec rs k (N.to_nat n) s1.

(* the header reader passes over the same bytes as the reader's first pass *)
Lemma rd_u16_shape s n r : RB.rd_u16 s = Ok (n, r) -> exists a b, s = a :: b :: r.
Proof. unfold RB.rd_u16. destruct s as [|a [|b s']]; try discriminate. intros [= _ <-]. exists a, b. reflexivity. Qed.
Lemma hdr_six impl dec rs k s h s1 : RF.rd_fmt impl dec rs (hdr_fmt k) s = Ok (h, s1) -> snd (RF.take_lenient 6 s) = s1.
Proof.
  unfold hdr_fmt. cbn [RF.rd_fmt map RF.rd_all]. intros H.
  destruct (RB.rd_u16 s) as [[a t1]|] eqn:E1; [|discriminate]. cbn [Base.Str.bind] in H.
  destruct (RB.rd_u16 t1) as [[i t2]|] eqn:E2; [|discriminate]. cbn [Base.Str.bind] in H.
  destruct (rs 8%N i); [|discriminate]. cbn [Base.Str.bind] in H.
  destruct (RB.rd_u16 t2) as [[j t3]|] eqn:E3; [|discriminate]. cbn [Base.Str.bind] in H.
  destruct (rs 8%N j); [|discriminate]. cbn [Base.Str.bind] in H. injection H as _ <-.
  destruct (rd_u16_shape _ _ _ E1) as (x1 & x2 & ->). destruct (rd_u16_shape _ _ _ E2) as (y1 & y2 & ->).
  destruct (rd_u16_shape _ _ _ E3) as (z1 & z2 & ->).
  apply (take_lenient_app [x1; x2; y1; y2; z1; z2] t3 6%N). reflexivity.
Qed.
Lemma rd_headers_n_skip impl dec rs k : forall n s hs r, rd_headers_n impl dec rs k n s = Ok (hs, r) -> R.skip_members_n n s = Ok r.
Proof.
  induction n as [|n IH]; intros s hs r H; cbn [rd_headers_n] in H; [injection H as _ <-; reflexivity|].
  destruct (RF.rd_fmt impl dec rs (hdr_fmt k) s) as [[h s1]|] eqn:E1; [|discriminate]. cbn [Base.Str.bind] in H.
  destruct (R.skip_attrs s1) as [s2|] eqn:E2; [|discriminate]. cbn [Base.Str.bind] in H.
  destruct (rd_headers_n impl dec rs k n s2) as [[hs' s3]|] eqn:E3; [|discriminate]. cbn [Base.Str.bind] in H. injection H as _ <-.
  cbn [R.skip_members_n]. rewrite (hdr_six _ _ _ _ _ _ _ E1), E2. cbn [Base.Str.bind]. exact (IH _ _ _ E3).
Qed.
Theorem rd_headers_skip impl dec rs k s hs r : rd_headers impl dec rs k s = Ok (hs, r) -> R.skip_members s = Ok r.
Proof.
  unfold rd_headers, R.skip_members. destruct (RB.rd_u16 s) as [[n s1]|]; [|discriminate]. cbn [Base.Str.bind].
  apply rd_headers_n_skip.
Qed.
(* … and its header is what C01's member format delivers in its first three components *)
Theorem hdr_of_member_fmt impl dec rs k att s v1 v2 v3 v4 r :
  RF.rd_fmt impl dec rs (RF.FSeq [RF.FFlags k; RF.FIdx 8%N; RF.FIdx 8%N; att]) s = Ok (RF.VSeq [v1; v2; v3; v4], r) ->
  exists s3, RF.rd_fmt impl dec rs (hdr_fmt k) s = Ok (RF.VSeq [v1; v2; v3], s3) /\ RF.rd_fmt impl dec rs att s3 = Ok (v4, r).
Proof.
  rewrite rd_seq4. unfold hdr_fmt. cbn [RF.rd_fmt map RF.rd_all].
  destruct (RB.rd_u16 s) as [[a s1]|]; [|discriminate]. cbn [Base.Str.bind].
  destruct (RB.rd_u16 s1) as [[i s2]|]; [|discriminate]. cbn [Base.Str.bind].
  destruct (rs 8%N i) as [c1|]; [|discriminate]. cbn [Base.Str.bind].
  destruct (RB.rd_u16 s2) as [[j s3]|]; [|discriminate]. cbn [Base.Str.bind].
  destruct (rs 8%N j) as [c2|]; [|discriminate]. cbn [Base.Str.bind].
  destruct (RF.rd_fmt impl dec rs att s3) as [[w r']|] eqn:E; [|discriminate]. cbn [Base.Str.bind].
  intros [= <- <- <- <- <-]. exists s3. split; [reflexivity|exact E].
Qed.

Definition hdr (dec : RB.bytes -> res str) (k : N) (access : Z) (name desc : bytes) : RF.val :=
  RF.VSeq [RF.VN (RA.access_back k (Z.to_N access)); RF.VC (RP.VUtf8 (BP.sdec dec name)); RF.VC (RP.VUtf8 (BP.sdec dec desc))].
Definition hdr_of (dec : RB.bytes -> res str) (k : N) (m : dmember) : RF.val := hdr dec k (dm_access m) (dm_name m) (dm_desc m).

Lemma acc8 dec cs i n : get_utf8 (cslots cs 1) i = Some n ->
  R.acc (BP.rpool dec cs) 8%N (Z.to_N i) = Ok (RP.VUtf8 (BP.sdec dec n)).
Proof. intros H. unfold R.acc. cbn. unfold RP.resolve_kind. cbn. rewrite (BP.ag_utf8 dec cs i n H). reflexivity. Qed.

Lemma member_read impl dec cs l k s m r : p_member l (cslots cs 1) s = Some (m, r) ->
  exists s1, RF.rd_fmt impl dec (R.acc (BP.rpool dec cs)) (hdr_fmt k) s = Ok (hdr_of dec k m, s1) /\ R.skip_attrs s1 = Ok r.
Proof.
  unfold p_member, p_idx, pbind, plift. intros H.
  destruct (p_u16 s) as [[a s1]|] eqn:E1; [|discriminate].
  destruct (p_u16 s1) as [[i s2]|] eqn:E2; [|discriminate]. destruct (get_utf8 (cslots cs 1) i) as [n|] eqn:G1; [|discriminate].
  destruct (p_u16 s2) as [[j s3]|] eqn:E3; [|discriminate]. destruct (get_utf8 (cslots cs 1) j) as [d|] eqn:G2; [|discriminate].
  destruct (p_attrs l (cslots cs 1) s3) as [[at_ r']|] eqn:E4; [|discriminate]. unfold pret in H. injection H as <- <-.
  destruct (p_u16_rd _ _ _ E1) as [R1 _]. destruct (p_u16_rd _ _ _ E2) as [R2 _]. destruct (p_u16_rd _ _ _ E3) as [R3 _].
  exists s3. split.
  - unfold hdr_fmt, hdr_of, hdr. cbn [RF.rd_fmt map RF.rd_all dm_access dm_name dm_desc].
    rewrite R1. cbn [Base.Str.bind]. rewrite R2. cbn [Base.Str.bind]. rewrite (acc8 dec cs i n G1). cbn [Base.Str.bind].
    rewrite R3. cbn [Base.Str.bind]. rewrite (acc8 dec cs j d G2). reflexivity.
  - unfold p_attrs, p_attr in E4. exact (attrs_skip _ _ _ _ _ _ E4).
Qed.

Lemma members_rep_read impl dec cs l k : forall n s ms r, p_rep n (p_member l (cslots cs 1)) s = Some (ms, r) ->
  rd_headers_n impl dec (R.acc (BP.rpool dec cs)) k n s = Ok (map (hdr_of dec k) ms, r).
Proof.
  induction n as [|n IH]; intros s ms r H; cbn [p_rep] in H.
  - unfold pret in H. injection H as <- <-. reflexivity.
  - unfold pbind in H. destruct (p_member l (cslots cs 1) s) as [[m s1]|] eqn:E; [|discriminate].
    destruct (p_rep n (p_member l (cslots cs 1)) s1) as [[ms' r']|] eqn:E2; [|discriminate]. unfold pret in H. injection H as <- <-.
    destruct (member_read impl dec cs l k s m s1 E) as (s0 & H1 & H2).
    cbn [rd_headers_n map]. rewrite H1. cbn [Base.Str.bind]. rewrite H2. cbn [Base.Str.bind]. rewrite (IH _ _ _ E2). reflexivity.
Qed.

(* DECODER TO READER, member lists *)
Theorem members_read impl dec cs l k s ms r : p_list16 (p_member l (cslots cs 1)) s = Some (ms, r) ->
  rd_headers impl dec (R.acc (BP.rpool dec cs)) k s = Ok (map (hdr_of dec k) ms, r).
Proof.
  unfold p_list16, pbind. destruct (p_u16 s) as [[n s1]|] eqn:E; [|discriminate]. intros H.
  destruct (p_u16_rd _ _ _ E) as [R1 Hn]. unfold rd_headers. rewrite R1. cbn [Base.Str.bind].
  replace (N.to_nat (Z.to_N n)) with (Z.to_nat n) by lia. exact (members_rep_read impl dec cs l k _ _ _ _ H).
Qed.

(* ---------------------------------------------------------------------------------------------- *)
(* the written class *)
Lemma fields_hdr dec : forall fl fs, mapO fa_field fl = Some fs ->
  map (hdr_of dec 1%N) fs = map (fun f => hdr dec 1%N (f_access f) (f_name f) (f_desc f)) fl.
Proof.
  induction fl as [|f fl IH]; intros fs H; cbn [mapO] in H; [injection H as <-; reflexivity|].
  destruct (fa_field f) as [d|] eqn:E; [|discriminate]. destruct (mapO fa_field fl) as [ds|]; [|discriminate]. injection H as <-.
  cbn [map]. rewrite (IH _ eq_refl). f_equal.
  unfold fa_field, omap in E. destruct (fa_annots [] (f_annots f)); [|discriminate]. injection E as <-. reflexivity.
Qed.
Lemma methods_hdr dec : forall ml auxs ms, mapO2 fa_method ml auxs = Some ms ->
  map (hdr_of dec 2%N) ms = map (fun m => hdr dec 2%N (md_access m) (md_name m) (md_desc m)) ml.
Proof.
  induction ml as [|m ml IH]; intros auxs ms H; destruct auxs as [|a auxs]; cbn [mapO2] in H; try discriminate; [injection H as <-; reflexivity|].
  destruct (fa_method m a) as [d|] eqn:E; [|discriminate]. destruct (mapO2 fa_method ml auxs) as [ds|] eqn:E2; [|discriminate]. injection H as <-.
  cbn [map]. rewrite (IH _ _ E2). f_equal.
  unfold fa_method, obind, omap in E.
  destruct (match md_code m, a with None, None => Some [] | Some c, Some a0 => _ | _, _ => None end); [|discriminate].
  destruct (fa_annots [] (md_annots m)); [|discriminate]. injection E as <-. reflexivity.
Qed.

Theorem class_members_read impl dec t bs aux :
  cclass_ok t = true -> write_class_aux t = WOK (bs, aux) ->
  RA.header_ok FB.C01.Tables.magic (Z.to_N (k_minor t)) (Z.to_N (k_major t)) = true ->
  pool_utf8_ok dec (a_pool aux) = true ->
  exists cs s5 s6 s7,
    rev (p_inner (a_pool aux)) = map mk cs /\
    read_head impl dec bs = Ok (Z.to_N (k_minor t), Z.to_N (k_major t), BP.rpool dec cs, head_val dec t, s5) /\
    (* the member headers, in order *)
    rd_headers impl dec (R.acc (BP.rpool dec cs)) 1%N s5
      = Ok (map (fun f => hdr dec 1%N (f_access f) (f_name f) (f_desc f)) (k_fields t), s6) /\
    rd_headers impl dec (R.acc (BP.rpool dec cs)) 2%N s6
      = Ok (map (fun m => hdr dec 2%N (md_access m) (md_name m) (md_desc m)) (k_methods t), s7) /\
    (* the first pass of read_class: over the fields, over the methods, onto the class attributes, to the end *)
    R.skip_members s5 = Ok s6 /\ R.skip_members s6 = Ok s7 /\ R.skip_attrs s7 = Ok [].
Proof.
  intros Hok Hw Hgate Hdec.
  destruct (class_read_base impl dec t bs aux Hok Hw Hgate Hdec) as (cs & fields & mbytes & abytes & fs & ms & ds & Ecs & Hag & Hhead & Hfs & Hms & Df & Dm & Da & _).
  pose proof (Df _ _ (mbytes ++ abytes) (pool_ext_refl _) Hag) as Pf.
  pose proof (Dm _ _ abytes (pool_ext_refl _) Hag) as Pm.
  pose proof (Da _ _ [] (pool_ext_refl _) Hag) as Pa. rewrite app_nil_r in Pa.
  pose proof (members_read impl dec cs AtField 1%N _ _ _ Pf) as Hf. rewrite (fields_hdr dec _ _ Hfs) in Hf.
  pose proof (members_read impl dec cs AtMethod 2%N _ _ _ Pm) as Hm. rewrite (methods_hdr dec _ _ _ Hms) in Hm.
  exists cs, (fields ++ mbytes ++ abytes), (mbytes ++ abytes), abytes.
  split; [exact Ecs|]. split; [exact Hhead|]. split; [exact Hf|]. split; [exact Hm|].
  split; [exact (rd_headers_skip _ _ _ _ _ _ _ Hf)|]. split; [exact (rd_headers_skip _ _ _ _ _ _ _ Hm)|].
  unfold p_attr in Pa. exact (attrs_skip _ _ _ _ _ _ Pa).
Qed.
