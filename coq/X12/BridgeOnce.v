(* X12 — bridge, part 32: THE ONCE-CONDITION OF THE FIELDS HOLDS FOR EVERY WRITTEN TREE.
   facts_of lists the attributes of a field in a fixed order, each named attribute at most once (Deprecated, Synthetic,
   ConstantValue, Signature, the four annotation attributes), followed by the unknown attributes; so fields_once follows
   from the side conditions of the whole-file theorem (unk_ok for the unknown names), and C02_bridge_read_class_closed_parts
   holds without it. *)
From Coq Require Import List NArith ZArith Bool Lia.
From FB Require Import C02.Model C02.Encode C02.Theory2 C02.Theory8 C02.Frames C02.Class C02.Decode C02.Facts
  C02.TheoryC1 C02.TheoryC2 C02.TheoryC3 C02.TheoryC8.
From FB Require C01.Bytes C01.Pool C01.Attr C01.Tables C01.Fmt C01.Formats C01.ClassFile C01.Mutf8.
From FB Require X12.BridgePool X12.BridgeFold.
From FB Require Import X12.BridgeClass X12.BridgeMembers X12.BridgeCode X12.BridgeFmt X12.BridgeDyn X12.BridgeFile X12.BridgeFmt2
  X12.BridgeFile2 X12.BridgeFrames X12.BridgeFile3 X12.BridgeUnknown X12.BridgeFmt3 X12.BridgeFile4 X12.BridgeAnnot X12.BridgeModule
  X12.BridgeRecord X12.BridgeFile5 X12.BridgeTypeAnn X12.BridgeFile6 X12.BridgeKinds X12.BridgeClosed.
Import ListNotations.
Local Open Scope Z_scope.

Lemma once_oka_unknowns impl dec ctx : (ctx < 5)%N -> forall (l : list raw_attr) seen had,
  (forall r, In r l -> unk_ok dec (fst r) = true) ->
  BF.once_oka impl ctx seen had (map (fun a => v_Unknown dec (fst a) (snd a)) l) = true.
Proof.
  intros Hc. induction l as [|[nb b] l IH]; intros seen had H; [reflexivity|].
  cbn [map BF.once_oka fst snd]. unfold v_Unknown at 1 2 3.
  unfold BF.once1a, BF.slot_ofa, BF.is_record, BF.once1, BF.slot_of.
  rewrite (unk_policy impl dec nb ctx Hc (H (nb, b) (or_introl eq_refl))).
  cbn [BF.is_bytes andb map app]. rewrite app_nil_r, orb_false_r. apply IH. intros r Hr. apply H. right. exact Hr.
Qed.

Lemma fa_tas_shape vis labs l x : fa_tas vis labs l = Some x -> x = [] \/ exists z, x = [ATypeAnnotations vis z].
Proof.
  unfold fa_tas, omap. destruct l; [intros [= <-]; left; reflexivity|].
  destruct (mapO (fa_type_annotation labs) (t :: l)) as [z|]; [|discriminate]. intros [= <-]. right. exists z. reflexivity.
Qed.
Lemma fa_anns_shape vis l : fa_anns vis l = [] \/ fa_anns vis l = [AAnnotations vis l].
Proof. destruct l; [left|right]; reflexivity. Qed.

Lemma field_once impl dec f m : fa_field f = Some m -> forallb (fside6 impl dec) (dm_attrs m) = true ->
  BF.member_once impl 1%N (member_val dec 1%N (fattr_val6 dec) m) = true.
Proof.
  intros H Hs. unfold fa_field, omap in H. destruct (fa_annots [] (f_annots f)) as [an|] eqn:Ea; [|discriminate].
  injection H as <-. cbn [dm_attrs] in Hs. unfold BF.member_once, member_val. cbn [R.member_parts dm_attrs].
  unfold fa_annots, oapp in Ea.
  destruct (fa_tas true [] (an_tvis (f_annots f))) as [x|] eqn:Ex; [|discriminate].
  destruct (fa_tas false [] (an_tinvis (f_annots f))) as [y|] eqn:Ey; [|discriminate]. injection Ea as <-.
  rewrite forallb_forall in Hs.
  assert (Hu : forall r, In r (f_unknown f) -> unk_ok dec (fst r) = true).
  { intros r Hr. apply (Hs (ALeaf (AUnknown (fst r) (snd r)))).
    apply in_or_app; right. apply in_or_app; right. unfold leafs. apply (in_map ALeaf).
    apply in_or_app; right. apply in_or_app; right. unfold fa_unknown.
    exact (in_map (fun a => AUnknown (fst a) (snd a)) _ _ Hr). }
  clear Hs. unfold leafs, fa_unknown. rewrite !map_app, !map_map, !app_assoc. rewrite BF.once_oka_app.
  apply andb_true_intro. split.
  - destruct (fa_tas_shape _ _ _ _ Ex) as [->|(zx & ->)]; destruct (fa_tas_shape _ _ _ _ Ey) as [->|(zy & ->)];
      destruct (fa_anns_shape true (an_vis (f_annots f))) as [->| ->]; destruct (fa_anns_shape false (an_invis (f_annots f))) as [->| ->];
      destruct (f_deprecated f); destruct (f_synthetic f); destruct (f_constant f); destruct (f_signature f);
      vm_compute; reflexivity.
  - apply (once_oka_unknowns impl dec 1%N ltac:(lia) (f_unknown f)). exact Hu.
Qed.

Lemma mapO_in_r {A B} (g : A -> option B) : forall l r y, mapO g l = Some r -> In y r -> exists x, In x l /\ g x = Some y.
Proof.
  induction l as [|a l IH]; intros r y H Hy; cbn [mapO] in H.
  - injection H as <-. destruct Hy.
  - destruct (g a) as [b|] eqn:Ga; [|discriminate]. destruct (mapO g l) as [r'|] eqn:E; [|discriminate]. injection H as <-.
    destruct Hy as [<-|Hy]; [exists a; split; [left; reflexivity|exact Ga]|].
    destruct (IH r' y eq_refl Hy) as (x & Hx & Gx). exists x. split; [right; exact Hx|exact Gx].
Qed.

(* fields_once is a consequence of the side conditions *)
Theorem fields_once_written impl dec t aux d : facts_of t aux = Some d -> dclass_side6 impl dec d = true -> fields_once impl dec d = true.
Proof.
  intros Hd Hs. unfold facts_of, obind in Hd.
  destruct (mapO fa_field (k_fields t)) as [fs|] eqn:Ef; [|discriminate].
  destruct (mapO2 fa_method (k_methods t) (a_codes aux)) as [ms|]; [|discriminate].
  destruct (fa_annots [] (k_annots t)) as [an|]; [|discriminate].
  destruct (mapO fa_record (k_record t)) as [rc|]; [|discriminate]. injection Hd as <-.
  unfold dclass_side6 in Hs. cbn [d_attrs d_fields d_methods] in Hs. apply andb_prop in Hs. destruct Hs as [Hs _].
  apply andb_prop in Hs. destruct Hs as [_ Hf]. unfold fields_once. cbn [d_fields].
  apply forallb_forall. intros m Hm. rewrite forallb_forall in Hf.
  destruct (mapO_in_r fa_field _ _ m Ef Hm) as (f & _ & Gf). exact (field_once impl dec f m Gf (Hf m Hm)).
Qed.

(* C02_bridge_read_class_closed_parts without the once-condition *)
Theorem read_class_closed_parts_all impl dec t bs aux d cd :
  cclass_ok t = true -> write_class_aux t = WOK (bs, aux) ->
  RA.header_ok FB.C01.Tables.magic (Z.to_N (k_minor t)) (Z.to_N (k_major t)) = true ->
  pool_utf8_ok dec (a_pool aux) = true -> names_ok6 dec = true ->
  facts_of t aux = Some d -> dclass_side6 impl dec d = true ->
  R.read_class impl dec bs = Ok cd ->
  R.cd_minor cd = Z.to_N (k_minor t) /\ R.cd_major cd = Z.to_N (k_major t) /\
  R.cd_access cd = RA.access_back 0 (Z.to_N (k_access t)) /\ R.cd_this cd = BP.sdec dec (k_name t) /\
  R.cd_super cd = option_map (BP.sdec dec) (k_super t) /\ R.cd_interfaces cd = map (BP.sdec dec) (k_interfaces t) /\
  R.cd_fields cd = map (tr_field impl dec) (d_fields d) /\
  Forall2 (method_sees impl dec) (d_methods d) (R.cd_methods cd).
Proof.
  intros Hok Hw Hgate Hdec Hn Hd Hs Er.
  exact (read_class_closed_parts impl dec t bs aux d cd Hok Hw Hgate Hdec Hn Hd Hs (fields_once_written impl dec t aux d Hd Hs) Er).
Qed.

(* ---------------------------------------------------------------------------------------------- *)
(* the same for a method without Code: Deprecated, Synthetic, Exceptions, Signature, the four annotation attributes,
   AnnotationDefault, MethodParameters — each at most once, in this order — then the unknown attributes *)
Lemma method_once_nocode impl dec (m : cmethod) aux dm : fa_method m aux = Some dm -> no_code dm = true ->
  forallb (mside6 impl dec) (dm_attrs dm) = true -> method_once impl dec dm = true.
Proof.
  intros H Hnc Hs. unfold fa_method, obind, omap in H.
  destruct (match md_code m, aux with
            | None, None => Some []
            | Some c, Some a => match fa_code c a with Some k => Some [ACode k] | None => None end
            | _, _ => None
            end) as [code|] eqn:Ec; [|discriminate].
  destruct (fa_annots [] (md_annots m)) as [an|] eqn:Ea; [|discriminate]. injection H as <-.
  assert (Ecode : code = []).
  { destruct (md_code m) as [c|], aux as [a|]; try discriminate Ec; [|injection Ec as <-; reflexivity].
    destruct (fa_code c a) as [k|]; [|discriminate]. injection Ec as <-.
    unfold no_code in Hnc. cbn [dm_attrs] in Hnc. rewrite forallb_app in Hnc. apply andb_prop in Hnc. destruct Hnc as [_ Hnc].
    cbn in Hnc. discriminate Hnc. }
  subst code. clear Ec Hnc. cbn [dm_attrs] in Hs. unfold method_once, BF.member_once, method_val, member_val. cbn [R.member_parts dm_attrs].
  unfold fa_annots, oapp in Ea.
  destruct (fa_tas true [] (an_tvis (md_annots m))) as [x|] eqn:Ex; [|discriminate].
  destruct (fa_tas false [] (an_tinvis (md_annots m))) as [y|] eqn:Ey; [|discriminate]. injection Ea as <-.
  rewrite forallb_forall in Hs.
  assert (Hu : forall r, In r (md_unknown m) -> unk_ok dec (fst r) = true).
  { intros r Hr. apply (Hs (ALeaf (AUnknown (fst r) (snd r)))).
    do 6 (apply in_or_app; right). unfold leafs. apply (in_map ALeaf). unfold fa_unknown.
    exact (in_map (fun a => AUnknown (fst a) (snd a)) _ _ Hr). }
  clear Hs. unfold leafs, fa_unknown. rewrite !map_app, !map_map, !app_assoc. rewrite BF.once_oka_app.
  apply andb_true_intro. split.
  - destruct (fa_tas_shape _ _ _ _ Ex) as [->|(zx & ->)]; destruct (fa_tas_shape _ _ _ _ Ey) as [->|(zy & ->)];
      destruct (fa_anns_shape true (an_vis (md_annots m))) as [->| ->]; destruct (fa_anns_shape false (an_invis (md_annots m))) as [->| ->];
      destruct (md_deprecated m); destruct (md_synthetic m); destruct (md_exceptions m); destruct (md_signature m);
      destruct (md_default m); destruct (md_parameters m);
      vm_compute; reflexivity.
  - apply (once_oka_unknowns impl dec 2%N ltac:(lia) (md_unknown m)). exact Hu.
Qed.

Lemma mapO2_in_r {A B C} (g : A -> B -> option C) : forall l1 l2 r y, mapO2 g l1 l2 = Some r -> In y r ->
  exists a b, g a b = Some y.
Proof.
  induction l1 as [|a l1 IH]; intros [|b l2] r y H Hy; cbn [mapO2] in H; try discriminate.
  - injection H as <-. destruct Hy.
  - destruct (g a b) as [c|] eqn:G; [|discriminate]. destruct (mapO2 g l1 l2) as [r'|] eqn:E; [|discriminate]. injection H as <-.
    destruct Hy as [<-|Hy]; [exists a, b; exact G|exact (IH l2 r' y E Hy)].
Qed.
Theorem methods_once_written impl dec t aux d : facts_of t aux = Some d -> dclass_side6 impl dec d = true ->
  forall m, In m (d_methods d) -> no_code m = true -> method_once impl dec m = true.
Proof.
  intros Hd Hs m Hm Hnc. unfold facts_of, obind in Hd.
  destruct (mapO fa_field (k_fields t)) as [fs|]; [|discriminate].
  destruct (mapO2 fa_method (k_methods t) (a_codes aux)) as [ms|] eqn:Em; [|discriminate].
  destruct (fa_annots [] (k_annots t)) as [an|]; [|discriminate].
  destruct (mapO fa_record (k_record t)) as [rc|]; [|discriminate]. injection Hd as <-.
  unfold dclass_side6 in Hs. cbn [d_attrs d_fields d_methods] in Hs, Hm. apply andb_prop in Hs. destruct Hs as [_ Hms].
  rewrite forallb_forall in Hms. destruct (mapO2_in_r fa_method _ _ _ m Em Hm) as (cm & ca & G).
  exact (method_once_nocode impl dec cm ca m G Hnc (Hms m Hm)).
Qed.

(* the every-tree statement with no once-condition left: a method without Code IS tr_method *)
Definition method_sees_all (impl : bool) (dec : RB.bytes -> res str) (m : dmember) (md : R.member_desc) : Prop :=
  R.md_access md = RA.access_back 2 (Z.to_N (dm_access m)) /\ R.md_name md = BP.sdec dec (dm_name m) /\
  R.md_desc md = BP.sdec dec (dm_desc m) /\ (no_code m = true -> md = tr_method impl dec m).
Lemma Forall2_impl_in {A B} (P Q : A -> B -> Prop) : forall l l', (forall a b, In a l -> P a b -> Q a b) -> Forall2 P l l' -> Forall2 Q l l'.
Proof.
  intros l l' H F. induction F as [|a b l l' Hab F IH]; constructor.
  - apply H; [left; reflexivity|exact Hab].
  - apply IH. intros a0 b0 Hin. apply H. right. exact Hin.
Qed.
Theorem read_class_closed_parts_final impl dec t bs aux d cd :
  cclass_ok t = true -> write_class_aux t = WOK (bs, aux) ->
  RA.header_ok FB.C01.Tables.magic (Z.to_N (k_minor t)) (Z.to_N (k_major t)) = true ->
  pool_utf8_ok dec (a_pool aux) = true -> names_ok6 dec = true ->
  facts_of t aux = Some d -> dclass_side6 impl dec d = true ->
  R.read_class impl dec bs = Ok cd ->
  R.cd_minor cd = Z.to_N (k_minor t) /\ R.cd_major cd = Z.to_N (k_major t) /\
  R.cd_access cd = RA.access_back 0 (Z.to_N (k_access t)) /\ R.cd_this cd = BP.sdec dec (k_name t) /\
  R.cd_super cd = option_map (BP.sdec dec) (k_super t) /\ R.cd_interfaces cd = map (BP.sdec dec) (k_interfaces t) /\
  R.cd_fields cd = map (tr_field impl dec) (d_fields d) /\
  Forall2 (method_sees_all impl dec) (d_methods d) (R.cd_methods cd).
Proof.
  intros Hok Hw Hgate Hdec Hn Hd Hs Er.
  destruct (read_class_closed_parts_all impl dec t bs aux d cd Hok Hw Hgate Hdec Hn Hd Hs Er) as (A1 & A2 & A3 & A4 & A5 & A6 & A7 & A8).
  repeat (split; [assumption|]). revert A8. apply Forall2_impl_in. intros m md Hm (B1 & B2 & B3 & B4).
  split; [exact B1|]. split; [exact B2|]. split; [exact B3|]. intros Hnc.
  exact (B4 Hnc (methods_once_written impl dec t aux d Hd Hs m Hm Hnc)).
Qed.

(* the closed form for a class without Code and BootstrapMethods, with the field and method once-conditions discharged:
   what remains are the class-level conditions class_once / no_bsm_slot *)
Theorem read_class_codeless_closed_all impl dec t bs aux d :
  cclass_ok t = true -> write_class_aux t = WOK (bs, aux) ->
  RA.header_ok FB.C01.Tables.magic (Z.to_N (k_minor t)) (Z.to_N (k_major t)) = true ->
  pool_utf8_ok dec (a_pool aux) = true -> names_ok6 dec = true ->
  facts_of t aux = Some d -> dclass_side6 impl dec d = true ->
  codeless d = true -> class_once impl dec d = true -> no_bsm_slot impl dec d = true ->
  R.read_class impl dec bs = Ok (tr_class impl dec t d).
Proof.
  intros Hok Hw Hgate Hdec Hn Hd Hs Hcl Hco Hnb.
  apply (read_class_codeless_closed impl dec t bs aux d Hok Hw Hgate Hdec Hn Hd Hs Hcl Hco Hnb (fields_once_written impl dec t aux d Hd Hs)).
  apply forallb_forall. intros m Hm. apply (methods_once_written impl dec t aux d Hd Hs m Hm).
  unfold codeless in Hcl. apply andb_prop in Hcl. destruct Hcl as [Hnc _]. rewrite forallb_forall in Hnc. exact (Hnc m Hm).
Qed.

(* ---------------------------------------------------------------------------------------------- *)
(* a Code attribute of facts_of holds at most one StackMapTable *)
Lemma filter_smt_unknown l : filter is_smt (fa_unknown l) = [].
Proof. unfold fa_unknown. induction l as [|a l IH]; [reflexivity|exact IH]. Qed.
Theorem smt_once_written c a k : fa_code c a = Some k -> smt_once k = true.
Proof.
  destruct a as [[w labs] pos]. unfold fa_code, obind. destruct (c_max c) as [[ms ml]|]; [|discriminate].
  intros H.
  repeat match type of H with
         | match ?x with Some _ => _ | None => None end = Some _ => let E := fresh "E" in destruct x eqn:E; [|discriminate H]
         end.
  injection H as <-. unfold smt_once. cbn [dc_attrs]. rewrite !filter_app, filter_smt_unknown, !app_length.
  match goal with E : match cframes_at _ _ with nil => _ | cons _ _ => _ end = Some ?sm |- _ =>
    assert (A1 : (length (filter is_smt sm) <= 1)%nat);
      [revert E; destruct (cframes_at pos (c_insns c)); [intros [= <-]; cbn; lia|];
       unfold omap; match goal with |- match ?o with _ => _ end = _ -> _ => destruct o end; intros E; [injection E as <-; cbn; lia|discriminate E]|]
  end.
  match goal with E : match c_lines c with Some _ => _ | None => _ end = Some ?ln |- _ =>
    assert (A2 : filter is_smt ln = []);
      [revert E; destruct (c_lines c); [|intros [= <-]; reflexivity];
       unfold omap; match goal with |- match ?o with _ => _ end = _ -> _ => destruct o end; intros E; [injection E as <-; reflexivity|discriminate E]|]
  end.
  match goal with E : match c_locals c with Some _ => _ | None => _ end = Some ?lv |- _ =>
    assert (A3 : filter is_smt lv = []);
      [revert E; destruct (c_locals c) as [lvs|]; [|intros [= <-]; reflexivity];
       unfold oapp, omap; destruct (0 <? opt_count lv_desc lvs); destruct (0 <? opt_count lv_sig lvs);
       try destruct (fa_lvs labs lv_desc lvs); try destruct (fa_lvs labs lv_sig lvs); intros E; try discriminate E;
       injection E as <-; reflexivity|]
  end.
  match goal with E : oapp (fa_tas true labs _) (fa_tas false labs _) = Some ?ta |- _ =>
    assert (A4 : filter is_smt ta = []);
      [revert E; unfold oapp; destruct (fa_tas true labs (c_tvis c)) as [x|] eqn:Ex; [|discriminate];
       destruct (fa_tas false labs (c_tinvis c)) as [y|] eqn:Ey; [|discriminate]; intros [= <-];
       destruct (fa_tas_shape _ _ _ _ Ex) as [->|(zx & ->)]; destruct (fa_tas_shape _ _ _ _ Ey) as [->|(zy & ->)]; reflexivity|]
  end.
  rewrite A2, A3, A4. cbn [length]. apply Nat.leb_le. lia.
Qed.

(* ---------------------------------------------------------------------------------------------- *)
(* a method WITH Code meets code_method_once *)
Lemma forallb_leafs (f : dattr -> bool) l : (forall a, f (ALeaf a) = true) -> forallb f (leafs l) = true.
Proof. intros H. unfold leafs. apply forallb_forall. intros x Hx. apply in_map_iff in Hx. destruct Hx as (a & <- & _). apply H. Qed.
Lemma split_code_app k R : forall F, forallb (fun a => negb (is_acode a)) F = true -> split_code (F ++ ACode k :: R) = Some (F, k, R).
Proof.
  induction F as [|a F IH]; intros H; [reflexivity|]. cbn [forallb] in H. apply andb_prop in H. destruct H as [Ha H].
  cbn [app]. destruct a; try discriminate Ha; cbn [split_code]; rewrite (IH H); reflexivity.
Qed.
Definition mrest (m : cmethod) (an : list dattr0) : list dattr :=
  match md_exceptions m with Some l => [AExceptions l] | None => [] end ++
  leafs (fa_sig (md_signature m) ++ an) ++
  match md_default m with Some e => [AAnnotationDefault e] | None => [] end ++
  match md_parameters m with Some l => [AMethodParameters l] | None => [] end ++
  leafs (fa_unknown (md_unknown m)).
Lemma mrest_nocode m an : forallb (fun a => negb (is_acode a)) (mrest m an) = true.
Proof.
  unfold mrest. rewrite !forallb_app. rewrite !forallb_leafs by reflexivity.
  destruct (md_exceptions m); destruct (md_default m); destruct (md_parameters m); reflexivity.
Qed.
Lemma rest_once impl dec (m : cmethod) x y :
  fa_tas true [] (an_tvis (md_annots m)) = Some x -> fa_tas false [] (an_tinvis (md_annots m)) = Some y ->
  (forall r, In r (md_unknown m) -> unk_ok dec (fst r) = true) ->
  BF.once_oka impl 2%N [] false
    (map (mattr_val6 dec) (leafs (fa_flag (md_deprecated m) ADeprecated ++ fa_flag (md_synthetic m) ASynthetic) ++
                           mrest m ((fa_anns true (an_vis (md_annots m)) ++ fa_anns false (an_invis (md_annots m))) ++ x ++ y))) = true.
Proof.
  intros Ex Ey Hu. unfold mrest, leafs, fa_unknown. rewrite !map_app, !map_map, !app_assoc. rewrite BF.once_oka_app.
  apply andb_true_intro. split.
  - destruct (fa_tas_shape _ _ _ _ Ex) as [->|(zx & ->)]; destruct (fa_tas_shape _ _ _ _ Ey) as [->|(zy & ->)];
      destruct (fa_anns_shape true (an_vis (md_annots m))) as [->| ->]; destruct (fa_anns_shape false (an_invis (md_annots m))) as [->| ->];
      destruct (md_deprecated m); destruct (md_synthetic m); destruct (md_exceptions m); destruct (md_signature m);
      destruct (md_default m); destruct (md_parameters m);
      vm_compute; reflexivity.
  - apply (once_oka_unknowns impl dec 2%N ltac:(lia) (md_unknown m)). exact Hu.
Qed.
Lemma method_once_code impl dec (m : cmethod) aux dm : fa_method m aux = Some dm ->
  forallb (mside6 impl dec) (dm_attrs dm) = true -> code_method_once impl dec dm = true \/ no_code dm = true.
Proof.
  intros H Hs. unfold fa_method, obind, omap in H.
  destruct (match md_code m, aux with
            | None, None => Some []
            | Some c, Some a => match fa_code c a with Some k => Some [ACode k] | None => None end
            | _, _ => None
            end) as [code|] eqn:Ec; [|discriminate].
  destruct (fa_annots [] (md_annots m)) as [an|] eqn:Ea; [|discriminate]. injection H as <-.
  fold (mrest m an) in Hs |- *. cbn [dm_attrs] in Hs.
  assert (Hf : forallb (fun a => negb (is_acode a)) (leafs (fa_flag (md_deprecated m) ADeprecated ++ fa_flag (md_synthetic m) ASynthetic)) = true)
    by (apply forallb_leafs; reflexivity).
  destruct (md_code m) as [c|], aux as [a|]; try discriminate Ec.
  2:{ injection Ec as <-. right. unfold no_code. cbn [dm_attrs app]. rewrite forallb_app, Hf, mrest_nocode. reflexivity. }
  destruct (fa_code c a) as [k|] eqn:Ek; [|discriminate]. injection Ec as <-. left.
  unfold code_method_once. cbn [dm_attrs app]. cbn [app] in Hs. rewrite (split_code_app k _ _ Hf).
  rewrite mrest_nocode, (smt_once_written c a k Ek). cbn [andb].
  unfold fa_annots, oapp in Ea.
  destruct (fa_tas true [] (an_tvis (md_annots m))) as [x|] eqn:Ex; [|discriminate].
  destruct (fa_tas false [] (an_tinvis (md_annots m))) as [y|] eqn:Ey; [|discriminate]. injection Ea as <-.
  apply (rest_once impl dec m x y Ex Ey). intros r Hr. rewrite forallb_forall in Hs.
  apply (Hs (ALeaf (AUnknown (fst r) (snd r)))). apply in_or_app; right. right. unfold mrest.
  do 4 (apply in_or_app; right). unfold leafs. apply (in_map ALeaf). unfold fa_unknown.
  exact (in_map (fun a0 => AUnknown (fst a0) (snd a0)) _ _ Hr).
Qed.
Theorem code_methods_once_written impl dec t aux d : facts_of t aux = Some d -> dclass_side6 impl dec d = true ->
  forall m, In m (d_methods d) -> code_method_once impl dec m = true \/ no_code m = true.
Proof.
  intros Hd Hs m Hm. unfold facts_of, obind in Hd.
  destruct (mapO fa_field (k_fields t)) as [fs|]; [|discriminate].
  destruct (mapO2 fa_method (k_methods t) (a_codes aux)) as [ms|] eqn:Em; [|discriminate].
  destruct (fa_annots [] (k_annots t)) as [an|]; [|discriminate].
  destruct (mapO fa_record (k_record t)) as [rc|]; [|discriminate]. injection Hd as <-.
  unfold dclass_side6 in Hs. cbn [d_attrs d_fields d_methods] in Hs, Hm. apply andb_prop in Hs. destruct Hs as [_ Hms].
  rewrite forallb_forall in Hms. destruct (mapO2_in_r fa_method _ _ _ m Em Hm) as (cm & ca & G).
  exact (method_once_code impl dec cm ca m G (Hms m Hm)).
Qed.

(* EVERY TREE, methods with Code, no once-condition left *)
Definition method_sees_code_all (impl : bool) (dec : RB.bytes -> res str) (p : RP.pool) (b : RP.bsms) (m : dmember) (md : R.member_desc) : Prop :=
  forall a1 k a2, split_code (dm_attrs m) = Some (a1, k, a2) ->
    exists ivs c, Forall2 (inner_rel6 dec) (dc_attrs k) ivs /\ BF.code_once impl ivs = true /\
      BF.code_closed impl p b (Z.to_N (dc_max_stack k)) (Z.to_N (dc_max_locals k)) (dc_code k) (map (exc_val dec) (dc_exceptions k)) ivs = Ok c /\
      md = tr_method_code impl dec m c.
Theorem read_class_closed_code_methods_all impl dec t bs aux d cd :
  cclass_ok t = true -> write_class_aux t = WOK (bs, aux) ->
  RA.header_ok FB.C01.Tables.magic (Z.to_N (k_minor t)) (Z.to_N (k_major t)) = true ->
  pool_utf8_ok dec (a_pool aux) = true -> names_ok6 dec = true ->
  facts_of t aux = Some d -> dclass_side6 impl dec d = true ->
  R.read_class impl dec bs = Ok cd ->
  exists cs b, rev (p_inner (a_pool aux)) = map mk cs /\
    Forall2 (method_sees_code_all impl dec (BP.rpool dec cs) b) (d_methods d) (R.cd_methods cd).
Proof.
  intros Hok Hw Hgate Hdec Hn Hd Hs Er.
  destruct (read_class_closed_code_methods impl dec t bs aux d cd Hok Hw Hgate Hdec Hn Hd Hs Er) as (cs & b & Ecs & F).
  exists cs, b. split; [exact Ecs|]. revert F. apply Forall2_impl_in. intros m md Hm Hsee a1 k a2 Hsp.
  destruct (code_methods_once_written impl dec t aux d Hd Hs m Hm) as [Ho|Hnc]; [exact (Hsee a1 k a2 Hsp Ho)|].
  exfalso. destruct (split_code_spec _ _ _ _ Hsp) as [Ea _]. unfold no_code in Hnc. rewrite Ea, forallb_app in Hnc.
  apply andb_prop in Hnc. destruct Hnc as [_ Hnc]. cbn in Hnc. discriminate Hnc.
Qed.
