(* X12 — bridge, part 7: THE CLASS-FILE HEADER across the two models.
   C02's [write_class_aux] (the model of duke's simple_class_writer::write) writes
       magic, minor, major, constant pool, access_flags, this_class, super_class, interfaces, …
   C01's [read_class] (the model of duke's class_reader::read) starts with exactly these fields.
   [read_head] below is the first part of C01's read_class, cut out as a function ([read_class_head]
   proves it is that part).  For every tree satisfying C02's decidable cclass_ok, whose version passes
   the reader's gate and whose pool strings decode:

       read_head impl dec (the written bytes)
         = (minor, major, the pool as C01 reads it (BridgePool.rpool),
            [access flags (defined bits); this class; super class or none; the interfaces in order],
            the remaining bytes)

   with every name decoded from the Utf8 the writer put.  In this file C02's names are unqualified and
   C01's are qualified (R, RF, RP, RB). *)
From Coq Require Import List NArith ZArith Bool Lia.
From FB Require Import C02.Model C02.Encode C02.Theory2 C02.Theory8 C02.Frames C02.Class C02.Decode C02.Facts
  C02.TheoryC1 C02.TheoryC2 C02.TheoryC3 C02.TheoryC4 C02.TheoryC5 C02.TheoryC6 C02.TheoryC7 C02.TheoryC8.
From FB Require C01.Bytes C01.Pool C01.Attr C01.Tables C01.Fmt C01.ClassFile C01.Theory7 C01.Mutf8.
From FB Require X12.BridgePlain X12.BridgePool X12.BridgeMutf8.
Import ListNotations.
Module R := FB.C01.ClassFile.
Module RF := FB.C01.Fmt.
Module RP := FB.C01.Pool.
Module RB := FB.C01.Bytes.
Module RA := FB.C01.Attr.
Module BP := FB.X12.BridgePool.
Local Open Scope Z_scope.

(* ---------------------------------------------------------------------------------------------- *)
(* the first part of C01's read_class *)
Definition read_head (impl : bool) (dec : RB.bytes -> res str) (s : RB.bytes)
  : res (N * N * RP.pool * RF.val * RB.bytes) :=
  do (mg, s1) <- RB.rd_u32 s;
  do (minor, s2) <- RB.rd_u16 s1;
  do (major, s3) <- RB.rd_u16 s2;
  if negb (RA.header_ok mg minor major) then Err else
  do (p, s4) <- R.rd_pool dec s3;
  do (head, s5) <- RF.rd_fmt impl dec (R.acc p) R.head_fmt s4;
  Ok (minor, major, p, head, s5).

Lemma read_class_head impl dec s minor major p head s5 :
  read_head impl dec s = Ok (minor, major, p, head, s5) ->
  R.read_class impl dec s =
  (do s6 <- R.skip_members s5;
   do s7 <- R.skip_members s6;
   do (attrs, _) <- RF.rd_fmt impl dec (R.acc p) R.class_attrs_fmt s7;
   do (fields, s8) <- RF.rd_fmt impl dec (R.acc p) R.fields_fmt s5;
   do (methods, _) <- RF.rd_fmt impl dec (R.acc p) R.methods_fmt s8;
   R.build_class impl p minor major head attrs fields methods).
Proof.
  unfold read_head, R.read_class.
  destruct (RB.rd_u32 s) as [[mg s1]|]; [|discriminate]. cbn [Base.Str.bind].
  destruct (RB.rd_u16 s1) as [[mi s2]|]; [|discriminate]. cbn [Base.Str.bind].
  destruct (RB.rd_u16 s2) as [[ma s3]|]; [|discriminate]. cbn [Base.Str.bind].
  destruct (negb (RA.header_ok mg mi ma)); [discriminate|].
  destruct (R.rd_pool dec s3) as [[p0 s4]|]; [|discriminate]. cbn [Base.Str.bind].
  destruct (RF.rd_fmt impl dec (R.acc p0) R.head_fmt s4) as [[h0 s50]|]; [|discriminate]. cbn [Base.Str.bind].
  intros [= <- <- <- <- <-]. reflexivity.
Qed.

(* ---------------------------------------------------------------------------------------------- *)
(* the interfaces list as bytes: the count and the indices the puts returned *)
Lemma idx_list_run {A} (put_x : A -> W Z) (g : cpool -> Z -> option A) l :
  (forall x, wspec (put_x x) (refers g x)) ->
  wspec (wslice16 (fun x => idx16 (put_x x)) l)
        (fun p bs => zlen l <= 65535 /\
                     exists idxs, bs = be16 (zlen l) ++ flat_map be16 idxs /\ Forall2 (fun x i => refers g x p i) l idxs).
Proof.
  intros H. unfold wslice16. eapply wspec_bind; [apply w_u16len_spec|]. intros cnt p0 [-> Hn].
  eapply wspec_bind.
  - apply (wspec_mapW (fun x => idx16 (put_x x)) (fun x p b => exists i, b = be16 i /\ refers g x p i)).
    + intros x p p' b He (i & -> & Hr). exists i. split; [reflexivity|]. exact (refers_mono g x p p' i He Hr).
    + intros x _. unfold idx16. eapply wspec_bind; [apply H|]. intros i p1 Hi. apply wspec_ret. intros p He.
      exists i. split; [reflexivity|]. exact (refers_mono g x p1 p i He Hi).
  - intros bs p1 Hbs. apply wspec_ret. intros p He1 He0. split; [exact Hn|].
    assert (G : exists idxs, concat bs = flat_map be16 idxs /\ Forall2 (fun x i => refers g x p i) l idxs).
    { clear -Hbs He1. induction Hbs as [|x b l bs (i & -> & Hr) _ IH].
      - exists []. split; [reflexivity|constructor].
      - destruct IH as (idxs & E & F). exists (i :: idxs). split.
        + cbn [concat flat_map]. rewrite E. reflexivity.
        + constructor; [exact (refers_mono g x p1 p i He1 Hr)|exact F]. }
    destruct G as (idxs & E & F). exists idxs. split; [rewrite E; reflexivity|exact F].
Qed.

(* what write_class_aux wrote, as far as the header goes (the first steps of C02's write_class_decodes) *)
Lemma class_written t bs aux :
  cclass_ok t = true -> write_class_aux t = WOK (bs, aux) ->
  exists pb this super idxs fields mbytes abytes fs ms ds,
    bs = MAGIC ++ be16 (k_minor t) ++ be16 (k_major t) ++ pb ++ be16 (k_access t) ++ be16 this ++ be16 super
         ++ (be16 (zlen (k_interfaces t)) ++ flat_map be16 idxs) ++ (fields ++ mbytes ++ abytes) /\
    pool_bytes (a_pool aux) = Ok pb /\ PInv (a_pool aux) /\ Forall made (p_inner (a_pool aux)) /\
    (0 <= k_minor t <= 65535 /\ 0 <= k_major t <= 65535 /\ 0 <= k_access t <= 65535 /\ zlen (k_interfaces t) <= 65535) /\
    refers get_class (k_name t) (a_pool aux) this /\
    refers0 (get_opt get_class) (k_super t) (a_pool aux) super /\
    Forall2 (fun x i => refers get_class x (a_pool aux) i) (k_interfaces t) idxs /\
    (* the members and the class attributes, as C02's decoder reads them in the final pool *)
    mapO fa_field (k_fields t) = Some fs /\ mapO2 fa_method (k_methods t) (a_codes aux) = Some ms /\
    decodes (fun c => p_list16 (p_member AtField c)) fs (a_pool aux) fields /\
    decodes (fun c => p_list16 (p_member AtMethod c)) ms (a_pool aux) mbytes /\
    decodes (fun c => p_list16 (p_attr AtClass c)) ds (a_pool aux) abytes /\
    (exists d, facts_of t aux = Some d /\ d_fields d = fs /\ d_methods d = ms /\ d_attrs d = ds).
Proof.
  intros Hok Hw. pose proof Hok as Hok0. unfold cclass_ok in Hok. bsplit. okfacts.
  unfold write_class_aux in Hw.
  match type of Hw with match ?body wst_new with _ => _ end = _ => destruct (body wst_new) as [[[[rest codes] tbl] sF]|?c|] eqn:Hbody; try discriminate end.
  destruct (pool_bytes (w_pool sF)) as [pb|] eqn:Hpb; [|discriminate]. injection Hw as <- <-.
  apply bind_ok in Hbody as (this & s1 & R1 & Hbody). destruct (wspec_run _ _ _ _ _ (put_class_spec (k_name t)) winv_new R1) as (I1 & E1 & Q1).
  apply bind_ok in Hbody as (super & s2 & R2 & Hbody).
  destruct (wspec_run _ _ _ _ _ (put_opt_spec put_class get_class (k_super t) put_class_spec) I1 R2) as (I2 & E2 & Q2).
  apply bind_ok in Hbody as (ifs & s3 & R3 & Hbody).
  destruct (wspec_run _ _ _ _ _ (idx_list_run put_class get_class (k_interfaces t) put_class_spec) I2 R3) as (I3 & E3 & Hn3 & idxs & -> & Q3).
  apply bind_ok in Hbody as (fields & s4 & R4 & Hbody).
  assert (S4 : wspec (wslice16 write_field (k_fields t)) (fun p b => exists ys, mapO fa_field (k_fields t) = Some ys /\ decodes (fun c => p_list16 (p_member AtField c)) ys p b)).
  { apply wslice16_spec_gen. intros f Hin. match goal with H : forallb cfield_ok _ = true |- _ => rewrite forallb_forall in H; destruct (write_field_spec f (H _ Hin)) as (d & Hd & Hwf) end.
    eapply wspec_weaken; [exact Hwf|]. intros p b Hdec. exists d. split; assumption. }
  destruct (wspec_run _ _ _ _ _ S4 I3 R4) as (I4 & E4 & fs & Hfs & Q4).
  apply bind_ok in Hbody as (nm & s5 & R5 & Hbody). destruct (wspec_run _ _ _ _ _ (w_u16len_spec _) I4 R5) as (I5 & E5 & -> & Hnm).
  apply bind_ok in Hbody as (methods & s6 & R6 & Hbody).
  assert (S6 : wspec (mapW write_method (k_methods t))
                 (fun p rs => Forall2 (fun m r => exists d, fa_method m (snd r) = Some d /\ decodes (p_member AtMethod) d p (fst r)) (k_methods t) rs)).
  { apply (wspec_mapW write_method (fun m p r => exists d, fa_method m (snd r) = Some d /\ decodes (p_member AtMethod) d p (fst r))).
    - intros m p p' r He (d & Hd & Hdec). exists d. split; [exact Hd|exact (decodes_mono _ d p p' _ He Hdec)].
    - intros m Hin. apply write_method_spec. match goal with H : forallb cmethod_ok _ = true |- _ => rewrite forallb_forall in H; apply (H _ Hin) end. }
  destruct (wspec_run _ _ _ _ _ S6 I5 R6) as (I6 & E6 & Q6).
  destruct (methods_facts _ _ _ Q6) as (ms & Hms & Fms).
  apply bind_ok in Hbody as (pre & s7 & R7 & Hbody).
  destruct (w_annots_spec AtClass (k_annots t) eq_refl ltac:(assumption)) as (an & Han & Fan).
  destruct (records_nocode (k_record t) ltac:(assumption)) as (rc & Hrc).
  destruct (wspec_run _ _ _ _ _ (lseq_of AtClass _ _ (class_pre_spec t an rc Hok0 Han Hrc Fan)) I6 R7) as (I7 & E7 & Q7).
  apply bind_ok in Hbody as (tbl' & s8 & R8 & Hbody). injection R8 as <- <-.
  apply bind_ok in Hbody as (bsm & s9 & R9 & Hbody).
  assert (Hb : winv s9 /\ pool_ext (w_pool s7) (w_pool s9) /\
               Forall2 (fun d b => decodes (p_attr AtClass) d (w_pool s9) b)
                 (match w_bsm s7 with [] => [] | tb => [ABootstrapMethods tb] end)
                 (filter (fun b => negb (match b with [] => true | _ => false end)) bsm)).
  { unfold w_bootstrap in R9. cbn [seqW] in R9. apply bind_ok in R9 as (y & sy & Ry & R9). apply bind_ok in R9 as (ys & sz & Rz & R9).
    apply ret_ok in Rz as [-> ->]. apply ret_ok in R9 as [-> ->].
    destruct (w_bsm s7) as [|e tb] eqn:Etb.
    - injection Ry as <- <-. cbn [filter negb]. split; [exact I7|split; [apply pool_ext_refl|constructor]].
    - destruct I7 as [Ip Im Ib Il]. rewrite Etb in Ib.
      pose proof (bootstrap_spec (e :: tb) Ib) as Hbs. unfold aspec in Hbs.
      destruct (Hbs _ _ _ (Build_winv _ Ip Im ltac:(rewrite Etb; exact Ib) Il) Ry) as (Iy & Ey & Qy).
      split; [exact Iy|split; [exact Ey|]]. cbn [filter].
      assert (Hne : match y with [] => true | _ => false end = false).
      { unfold wattr in Ry. apply bind_ok in Ry as (b0 & sb & _ & Ry). apply bind_ok in Ry as (i0 & si & _ & Ry).
        apply lift_res_ok in Ry as [Ry _]. apply write_attribute_ok in Ry as [-> _]. apply be16_app_nonempty. }
      rewrite Hne. cbn [negb]. constructor; [exact Qy|constructor]. }
  destruct Hb as (I9 & E9 & Q9).
  apply bind_ok in Hbody as (unk & s10 & R10 & Hbody).
  assert (S10 : wspec (mapW wunknown (k_unknown t)) (fun p bs => Forall2 (fun a b => decodes (p_attr AtClass) (ALeaf (AUnknown (fst a) (snd a))) p b) (k_unknown t) bs)).
  { apply (wspec_mapW wunknown (fun a p b => decodes (p_attr AtClass) (ALeaf (AUnknown (fst a) (snd a))) p b)).
    - intros a p p' b He Hd. exact (decodes_mono _ _ p p' b He Hd).
    - intros a Hin. apply wunknown_spec. match goal with H : unknown_ok AtClass _ = true |- _ => unfold unknown_ok in H; rewrite forallb_forall in H; specialize (H _ Hin); apply negb_true_iff in H; exact H end. }
  destruct (wspec_run _ _ _ _ _ S10 I9 R10) as (I10 & E10 & Q10).
  apply bind_ok in Hbody as (cnt & s11 & R11 & Hbody). destruct (wspec_run _ _ _ _ _ (w_u16len_spec _) I10 R11) as (I11 & E11 & -> & Hcnt).
  apply ret_ok in Hbody as [Hret ->]. injection Hret as -> -> ->.
  destruct I11 as [Ip Im Ib Il]. cbn [a_pool a_codes].
  set (pF := w_pool s11) in *.
  assert (X1 : pool_ext (w_pool s1) pF) by eauto 12 with pext.
  assert (X2 : pool_ext (w_pool s2) pF) by eauto 12 with pext.
  assert (X3 : pool_ext (w_pool s3) pF) by eauto 12 with pext.
  assert (X4 : pool_ext (w_pool s4) pF) by eauto 12 with pext.
  assert (X6 : pool_ext (w_pool s6) pF) by eauto 12 with pext.
  assert (X7 : pool_ext (w_pool s7) pF) by eauto 12 with pext.
  assert (X9 : pool_ext (w_pool s9) pF) by eauto 12 with pext.
  assert (X10 : pool_ext (w_pool s10) pF) by eauto 12 with pext.
  set (all := pre ++ filter (fun b => negb (match b with [] => true | _ => false end)) bsm ++ unk) in *.
  match type of Q7 with Forall2 _ ?d7 _ =>
    set (dsall := d7 ++ match w_bsm s7 with [] => [] | tb => [ABootstrapMethods tb] end ++ leafs (fa_unknown (k_unknown t))) end.
  assert (Fall : Forall2 (fun d b => decodes (p_attr AtClass) d pF b) dsall all).
  { apply Forall2_app'; [apply (Forall2_dec_mono AtClass (w_pool s7) pF); assumption|].
    apply Forall2_app'; [apply (Forall2_dec_mono AtClass (w_pool s9) pF); assumption|].
    unfold leafs, fa_unknown. rewrite map_map. clear -Q10 X10. induction Q10; cbn [map]; constructor; [|assumption].
    exact (decodes_mono _ _ _ pF _ X10 H). }
  assert (Hz : zlen all = zlen dsall) by (unfold zlen; rewrite (Forall2_len _ _ _ Fall); reflexivity).
  assert (Hattrs : decodes (fun c => p_list16 (p_attr AtClass c)) dsall pF (be16 (zlen all) ++ concat all)).
  { assert (Hc2 : zlen dsall <= 65535) by (rewrite <- Hz; exact Hcnt). rewrite Hz. apply decodes_list16; [exact Hc2|exact Fall]. }
  assert (Hmeth : decodes (fun c => p_list16 (p_member AtMethod c)) ms pF (be16 (zlen (k_methods t)) ++ concat (map fst methods))).
  { assert (Hl : zlen (k_methods t) = zlen ms).
    { unfold zlen. rewrite (Forall2_len _ _ _ Q6). rewrite <- (map_length fst). rewrite (Forall2_len _ _ _ Fms). reflexivity. }
    assert (Hc2 : zlen ms <= 65535) by (rewrite <- Hl; exact Hnm). rewrite Hl. apply decodes_list16; [exact Hc2|].
    eapply Forall2_impl'; [|exact Fms]. intros d b Hd. exact (decodes_mono _ d _ pF b X6 Hd). }
  exists pb, this, super, idxs, fields, (be16 (zlen (k_methods t)) ++ concat (map fst methods)), (be16 (zlen all) ++ concat all), fs, ms, dsall.
  split; [rewrite <- ?app_assoc; reflexivity|].
  split; [exact Hpb|]. split; [exact Ip|]. split; [exact Im|]. split; [unfold idx_ok in *; repeat split; try lia|].
  split; [exact (refers_mono _ _ _ _ _ X1 Q1)|]. split; [exact (refers0_mono _ _ _ _ _ X2 Q2)|].
  split; [eapply Forall2_impl'; [|exact Q3]; intros x i Hr; exact (refers_mono _ _ _ _ _ X3 Hr)|].
  split; [exact Hfs|]. split; [exact Hms|].
  split; [exact (decodes_mono _ _ _ pF _ X4 Q4)|]. split; [exact Hmeth|]. split; [exact Hattrs|].
  unfold facts_of. cbn [a_codes a_bsm]. rewrite Hfs, Hms, Han, Hrc. cbn [obind].
  eexists. split; [reflexivity|]. cbn [d_fields d_methods d_attrs]. split; [reflexivity|]. split; [reflexivity|].
  unfold dsall. rewrite !leafs_app, <- !app_assoc. reflexivity.
Qed.

(* ---------------------------------------------------------------------------------------------- *)
(* the reader on it *)
Definition cls (dec : RB.bytes -> res str) (n : bytes) : RF.val := RF.VC (RP.VClass (BP.sdec dec n)).

Lemma acc6 dec cs i n : get_class (cslots cs 1) i = Some n ->
  R.acc (BP.rpool dec cs) 6%N (Z.to_N i) = Ok (RP.VClass (BP.sdec dec n)).
Proof. intros H. unfold R.acc. cbn. unfold RP.resolve_kind. cbn. rewrite (BP.ag_class dec cs i n H). reflexivity. Qed.

Lemma rd_u16_wbe16 n r : 0 <= n <= 65535 -> RB.rd_u16 (be16 n ++ r) = Ok (Z.to_N n, r).
Proof. intros H. rewrite BP.wbe16_w16 by exact H. apply FB.C01.Theory7.rd_u16_w16. lia. Qed.

Lemma rd_interfaces impl dec cs : forall (l : list bytes) idxs rest,
  Forall2 (fun x i => idx_ok i /\ get_class (cslots cs 1) i = Some x) l idxs ->
  RF.rd_rep (length l) (RF.rd_fmt impl dec (R.acc (BP.rpool dec cs)) (RF.FIdx 6%N)) (flat_map be16 idxs ++ rest)
  = Ok (map (cls dec) l, rest).
Proof.
  induction l as [|x l IH]; intros idxs rest H; inversion H as [|? i ? idxs' [Hi Hx] Hr]; subst; [reflexivity|].
  cbn [length RF.rd_rep flat_map]. rewrite <- app_assoc.
  cbn [RF.rd_fmt]. rewrite rd_u16_wbe16 by exact Hi. cbn [Base.Str.bind]. rewrite (acc6 dec cs i x Hx). cbn [Base.Str.bind].
  fold (RF.rd_fmt impl dec (R.acc (BP.rpool dec cs)) (RF.FIdx 6%N)). rewrite (IH idxs' rest Hr). reflexivity.
Qed.

Lemma rd_seq4 impl dec rs a b c d s :
  RF.rd_fmt impl dec rs (RF.FSeq [a; b; c; d]) s
  = (do (v1, s1) <- RF.rd_fmt impl dec rs a s; do (v2, s2) <- RF.rd_fmt impl dec rs b s1;
     do (v3, s3) <- RF.rd_fmt impl dec rs c s2; do (v4, s4) <- RF.rd_fmt impl dec rs d s3;
     Ok (RF.VSeq [v1; v2; v3; v4], s4)).
Proof.
  cbn [RF.rd_fmt map RF.rd_all].
  destruct (RF.rd_fmt impl dec rs a s) as [[v1 s1]|]; [|reflexivity]. cbn [Base.Str.bind].
  destruct (RF.rd_fmt impl dec rs b s1) as [[v2 s2]|]; [|reflexivity]. cbn [Base.Str.bind].
  destruct (RF.rd_fmt impl dec rs c s2) as [[v3 s3]|]; [|reflexivity]. cbn [Base.Str.bind].
  destruct (RF.rd_fmt impl dec rs d s3) as [[v4 s4]|]; reflexivity.
Qed.

Lemma rd_flags impl dec rs k a r : 0 <= a <= 65535 ->
  RF.rd_fmt impl dec rs (RF.FFlags k) (be16 a ++ r) = Ok (RF.VN (RA.access_back k (Z.to_N a)), r).
Proof. intros H. cbn [RF.rd_fmt]. rewrite rd_u16_wbe16 by exact H. reflexivity. Qed.

Lemma rd_idx6 impl dec cs i n r : idx_ok i -> get_class (cslots cs 1) i = Some n ->
  RF.rd_fmt impl dec (R.acc (BP.rpool dec cs)) (RF.FIdx 6%N) (be16 i ++ r) = Ok (cls dec n, r).
Proof. intros Hi H. cbn [RF.rd_fmt]. rewrite rd_u16_wbe16 by exact Hi. cbn [Base.Str.bind]. rewrite (acc6 dec cs i n H). reflexivity. Qed.

Lemma rd_optidx6 impl dec cs i o r : idx_ok i -> get_opt get_class (cslots cs 1) i = Some o ->
  RF.rd_fmt impl dec (R.acc (BP.rpool dec cs)) (RF.FOptIdx 6%N) (be16 i ++ r)
  = Ok (RF.VO (option_map (fun n => RP.VClass (BP.sdec dec n)) o), r).
Proof.
  intros Hi H. cbn [RF.rd_fmt]. rewrite rd_u16_wbe16 by exact Hi. cbn [Base.Str.bind].
  unfold get_opt in H. unfold idx_ok in Hi. destruct (Z.eqb_spec i 0) as [E0|E0].
  - injection H as <-. subst i. reflexivity.
  - destruct (get_class (cslots cs 1) i) as [a|] eqn:Ea; [|discriminate]. injection H as <-.
    destruct (N.eqb_spec (Z.to_N i) 0); [lia|]. rewrite (acc6 dec cs i a Ea). reflexivity.
Qed.

Lemma rd_vec6 impl dec cs (l : list bytes) idxs r : zlen l <= 65535 ->
  Forall2 (fun x i => idx_ok i /\ get_class (cslots cs 1) i = Some x) l idxs ->
  RF.rd_fmt impl dec (R.acc (BP.rpool dec cs)) (RF.FVec16 (RF.FIdx 6%N)) ((be16 (zlen l) ++ flat_map be16 idxs) ++ r)
  = Ok (RF.VList (map (cls dec) l), r).
Proof.
  intros Hn H. cbn [RF.rd_fmt]. rewrite <- app_assoc. rewrite rd_u16_wbe16 by (pose proof (zlen_nonneg l); lia). cbn [Base.Str.bind].
  replace (N.to_nat (Z.to_N (zlen l))) with (length l) by (unfold zlen; lia).
  fold (RF.rd_fmt impl dec (R.acc (BP.rpool dec cs)) (RF.FIdx 6%N)).
  rewrite (rd_interfaces impl dec cs _ _ r H). reflexivity.
Qed.

(* every CONSTANT_Utf8 of the written pool decodes: decidable on the writer's pool *)
Definition is_ok {A} (r : res A) : bool := match r with Ok _ => true | Err => false end.
Definition pool_utf8_ok (dec : RB.bytes -> res str) (p : pool) : bool :=
  forallb (fun e => match pe_key e with 1%N :: _ :: _ :: s => is_ok (dec s) | _ => true end) (p_inner p).
Lemma pool_utf8_ok_spec dec p : pool_utf8_ok dec p = true ->
  forall cs, rev (p_inner p) = map mk cs -> BP.utf8s_decode dec cs.
Proof.
  intros H cs E. unfold pool_utf8_ok in H. rewrite forallb_forall in H. unfold BP.utf8s_decode. apply Forall_forall.
  intros c Hc. destruct c; try exact I.
  assert (Hin : In (mk (CUtf8 s)) (p_inner p)).
  { apply in_rev. rewrite E. apply in_map. exact Hc. }
  specialize (H _ Hin). cbn [mk pe_key centry_bytes] in H. unfold be16 in H. cbn [app] in H.
  destruct (dec s) as [x|]; [exists x; reflexivity|discriminate].
Qed.

Definition head_val (dec : RB.bytes -> res str) (t : cclass) : RF.val :=
  RF.VSeq [RF.VN (RA.access_back 0 (Z.to_N (k_access t)));
           cls dec (k_name t);
           RF.VO (option_map (fun n => RP.VClass (BP.sdec dec n)) (k_super t));
           RF.VList (map (cls dec) (k_interfaces t))].

(* the head, together with what C02's decoder sees behind it (used by BridgeMembers.v) *)
Lemma class_read_base impl dec t bs aux :
  cclass_ok t = true -> write_class_aux t = WOK (bs, aux) ->
  RA.header_ok FB.C01.Tables.magic (Z.to_N (k_minor t)) (Z.to_N (k_major t)) = true ->
  pool_utf8_ok dec (a_pool aux) = true ->
  exists cs fields mbytes abytes fs ms ds,
    rev (p_inner (a_pool aux)) = map mk cs /\ agrees (a_pool aux) (cslots cs 1) /\
    read_head impl dec bs
    = Ok (Z.to_N (k_minor t), Z.to_N (k_major t), BP.rpool dec cs, head_val dec t, fields ++ mbytes ++ abytes) /\
    mapO fa_field (k_fields t) = Some fs /\ mapO2 fa_method (k_methods t) (a_codes aux) = Some ms /\
    decodes (fun c => p_list16 (p_member AtField c)) fs (a_pool aux) fields /\
    decodes (fun c => p_list16 (p_member AtMethod c)) ms (a_pool aux) mbytes /\
    decodes (fun c => p_list16 (p_attr AtClass c)) ds (a_pool aux) abytes /\
    (exists d, facts_of t aux = Some d /\ d_fields d = fs /\ d_methods d = ms /\ d_attrs d = ds).
Proof.
  intros Hok Hw Hgate Hdec.
  destruct (class_written t bs aux Hok Hw) as (pb & this & super & idxs & fields & mbytes & abytes & fs & ms & ds & -> & Hpb & Hinv & Hmade & (Hmi & Hma & Hac & Hnif) & Q1 & Q2 & Q3 & Hfs & Hms & Df & Dm & Da & Hd).
  set (tail := fields ++ mbytes ++ abytes) in *.
  destruct (BP.pool_read dec (a_pool aux) pb (be16 (k_access t) ++ be16 this ++ be16 super ++ (be16 (zlen (k_interfaces t)) ++ flat_map be16 idxs) ++ tail)
              Hinv Hmade Hpb) as (cs & Ecs & Hcs & Hag & Hrd).
  specialize (Hrd (pool_utf8_ok_spec dec _ Hdec cs Ecs)).
  exists cs, fields, mbytes, abytes, fs, ms, ds. split; [exact Ecs|]. split; [exact Hag|].
  split; [|repeat split; assumption].
  unfold read_head, MAGIC. cbn [app RB.rd_u32 Base.Str.bind].
  rewrite rd_u16_wbe16 by exact Hmi. cbn [Base.Str.bind]. rewrite rd_u16_wbe16 by exact Hma. cbn [Base.Str.bind].
  change (RB.dec32 202 254 186 190) with FB.C01.Tables.magic. rewrite Hgate. cbn [negb].
  rewrite Hrd. cbn [Base.Str.bind].
  assert (G1 : get_class (cslots cs 1) this = Some (k_name t)) by exact (refers_get _ _ _ _ _ _ Q1 (pool_ext_refl _) Hag).
  assert (I1 : idx_ok this) by exact (refers_idx _ _ _ _ Q1).
  destruct Q2 as [I2 Q2]. pose proof (Q2 _ _ (pool_ext_refl _) Hag) as G2.
  assert (G3 : Forall2 (fun x i => idx_ok i /\ get_class (cslots cs 1) i = Some x) (k_interfaces t) idxs).
  { eapply Forall2_impl'; [|exact Q3]. intros x i Hr. split; [exact (refers_idx _ _ _ _ Hr)|exact (refers_get _ _ _ _ _ _ Hr (pool_ext_refl _) Hag)]. }
  unfold R.head_fmt. rewrite rd_seq4.
  rewrite (rd_flags impl dec _ 0%N _ _ Hac). cbn [Base.Str.bind].
  rewrite (rd_idx6 impl dec cs this _ _ I1 G1). cbn [Base.Str.bind].
  rewrite (rd_optidx6 impl dec cs super _ _ I2 G2). cbn [Base.Str.bind].
  rewrite (rd_vec6 impl dec cs _ _ tail Hnif G3). reflexivity.
Qed.

Theorem class_head_read impl dec t bs aux :
  cclass_ok t = true -> write_class_aux t = WOK (bs, aux) ->
  RA.header_ok FB.C01.Tables.magic (Z.to_N (k_minor t)) (Z.to_N (k_major t)) = true ->
  pool_utf8_ok dec (a_pool aux) = true ->
  exists cs tail,
    rev (p_inner (a_pool aux)) = map mk cs /\
    read_head impl dec bs
    = Ok (Z.to_N (k_minor t), Z.to_N (k_major t), BP.rpool dec cs,
          RF.VSeq [RF.VN (RA.access_back 0 (Z.to_N (k_access t)));
                   cls dec (k_name t);
                   RF.VO (option_map (fun n => RP.VClass (BP.sdec dec n)) (k_super t));
                   RF.VList (map (cls dec) (k_interfaces t))],
          tail).
Proof.
  intros Hok Hw Hgate Hdec.
  destruct (class_read_base impl dec t bs aux Hok Hw Hgate Hdec) as (cs & fields & mbytes & abytes & fs & ms & ds & Ecs & _ & H & _).
  exists cs, (fields ++ mbytes ++ abytes). split; [exact Ecs|exact H].
Qed.

(* C01's decoder on C02's encoder, in the vocabulary of the pool bridge *)
Lemma sdec_mutf8 x : FB.C02.TheoryU.cps_ok x -> FB.C02.TheoryU.nsp x = true -> BP.sdec FB.C01.Mutf8.mutf8_dec (mutf8 x) = x.
Proof. intros H Hn. unfold BP.sdec. rewrite (FB.X12.BridgeMutf8.mutf8_dec_mutf8 x H Hn). reflexivity. Qed.

(* ---------------------------------------------------------------------------------------------- *)
(* non-vacuity: a class whose name holds e-acute, NUL and a supplementary character, a super class, two
   interfaces (one with the euro sign); version 61.0 *)
Definition ex_hd : cclass := {|
  k_minor := 0; k_major := 61; k_access := 33;
  k_name := mutf8 [233; 0; 128512]%N; k_super := Some [79]%N; k_interfaces := [[73]%N; mutf8 [8364]%N];
  k_fields := []; k_methods := [];
  k_deprecated := false; k_synthetic := false; k_inner := None; k_enclosing := None; k_signature := None;
  k_source_file := None; k_source_debug := None;
  k_annots := {| an_vis := []; an_invis := []; an_tvis := []; an_tinvis := [] |};
  k_module := None; k_module_packages := None; k_module_main := None;
  k_nest_host := None; k_nest_members := None; k_permitted := None; k_record := []; k_unknown := [] |}.

Theorem class_head_example : exists bs aux cs tail,
  write_class_aux ex_hd = WOK (bs, aux) /\ cclass_ok ex_hd = true /\
  pool_utf8_ok FB.C01.Mutf8.mutf8_dec (a_pool aux) = true /\
  read_head true FB.C01.Mutf8.mutf8_dec bs
  = Ok (0%N, 61%N, BP.rpool FB.C01.Mutf8.mutf8_dec cs,
        RF.VSeq [RF.VN 33%N; RF.VC (RP.VClass [233; 0; 128512]%N); RF.VO (Some (RP.VClass [79]%N));
                 RF.VList [RF.VC (RP.VClass [73]%N); RF.VC (RP.VClass [8364]%N)]],
        tail).
Proof.
  destruct (write_class_aux ex_hd) as [[bs aux]|?c|] eqn:E; [|vm_compute in E; discriminate|vm_compute in E; discriminate].
  assert (Hok : cclass_ok ex_hd = true) by (vm_compute; reflexivity).
  assert (Hu : pool_utf8_ok FB.C01.Mutf8.mutf8_dec (a_pool aux) = true).
  { vm_compute in E. injection E as <- <-. vm_compute. reflexivity. }
  destruct (class_head_read true FB.C01.Mutf8.mutf8_dec ex_hd bs aux Hok E ltac:(vm_compute; reflexivity) Hu) as (cs & tail & _ & H).
  exists bs, aux, cs, tail. split; [reflexivity|]. split; [exact Hok|]. split; [exact Hu|].
  rewrite H.
  replace (Z.to_N (k_minor ex_hd)) with 0%N by (vm_compute; reflexivity).
  replace (Z.to_N (k_major ex_hd)) with 61%N by (vm_compute; reflexivity).
  replace (RA.access_back 0 (Z.to_N (k_access ex_hd))) with 33%N by (vm_compute; reflexivity).
  replace (cls FB.C01.Mutf8.mutf8_dec (k_name ex_hd)) with (RF.VC (RP.VClass [233; 0; 128512]%N)) by (vm_compute; reflexivity).
  replace (option_map (fun n => RP.VClass (BP.sdec FB.C01.Mutf8.mutf8_dec n)) (k_super ex_hd)) with (Some (RP.VClass [79]%N))
    by (vm_compute; reflexivity).
  replace (map (cls FB.C01.Mutf8.mutf8_dec) (k_interfaces ex_hd)) with [RF.VC (RP.VClass [73]%N); RF.VC (RP.VClass [8364]%N)]
    by (vm_compute; reflexivity).
  reflexivity.
Qed.
