(* X12 — bridge, part 18: EnclosingMethod, PermittedSubclasses (class), MethodParameters (method). *)
From Coq Require Import List NArith ZArith Bool Lia.
From FB Require Import C02.Model C02.Encode C02.Theory2 C02.Theory8 C02.Frames C02.Class C02.Decode C02.Facts
  C02.TheoryC1 C02.TheoryC2.
From FB Require C01.Bytes C01.Pool C01.Attr C01.Tables C01.Fmt C01.Formats C01.ClassFile.
From FB Require X12.BridgePool.
From FB Require Import X12.BridgeClass X12.BridgeMembers X12.BridgeCode X12.BridgeFmt X12.BridgeDyn X12.BridgeFile X12.BridgeFmt2 X12.BridgeFrames.
Import ListNotations.
Local Open Scope Z_scope.

Lemma name_EnclosingMethod c nb q len s2 x y r : attr_body AtClass c nb = Some q ->
  p_block len q s2 = Some (AEnclosingMethod x y, r) -> nb = s_EnclosingMethod.
Proof. intros Hq Hb; namelemma Hq Hb. Qed.
Lemma name_PermittedSubclasses c nb q len s2 x r : attr_body AtClass c nb = Some q ->
  p_block len q s2 = Some (APermittedSubclasses x, r) -> nb = s_PermittedSubclasses.
Proof. intros Hq Hb; namelemma Hq Hb. Qed.
Lemma name_MethodParameters c nb q len s2 x r : attr_body AtMethod c nb = Some q ->
  p_block len q s2 = Some (AMethodParameters x, r) -> nb = s_MethodParameters.
Proof. intros Hq Hb; namelemma Hq Hb. Qed.

Definition names3 (dec : RB.bytes -> res str) : bool :=
  str_eqb (BP.sdec dec s_EnclosingMethod) RFo.a_EnclosingMethod && str_eqb (BP.sdec dec s_PermittedSubclasses) RFo.a_PermittedSubclasses
  && str_eqb (BP.sdec dec s_MethodParameters) RFo.a_MethodParameters.

(* ---- PermittedSubclasses ---- *)
Definition v_PermittedSubclasses dec (l : list bytes) : RF.val := RF.VAttr RFo.a_PermittedSubclasses (RF.VList (map (cls dec) l)).
Theorem attr_PermittedSubclasses impl dec cs s x r t : BP.sdec dec s_PermittedSubclasses = RFo.a_PermittedSubclasses ->
  p_attr AtClass (cslots cs 1) s = Some (APermittedSubclasses x, r) ->
  RF.rd_fmt impl dec (R.acc (BP.rpool dec cs)) (RF.FAttr R.class_sel) (s ++ t) = Ok (v_PermittedSubclasses dec x, r ++ t).
Proof.
  intros Hn H. unfold p_attr in H.
  destruct (attr_p2r (fun _ => True) impl dec cs _ _ R.class_sel APermittedSubclasses (p_list16 (p_idx get_class (cslots cs 1))) s_PermittedSubclasses
              RFo.a_PermittedSubclasses (RF.FVec16 (RF.FIdx 6%N)) (fun l => RF.VList (map (cls dec) l)) s _ r t H) as (y & Ey & Hr).
  - intros nb q Hq len s2 y r' Hb ->. exact (name_PermittedSubclasses _ _ _ _ _ _ _ Hq Hb).
  - reflexivity.
  - exact Hn.
  - intros len. reflexivity.
  - apply p2r_q. apply p2r_vec16. apply p2r_class.
  - intros; exact I.
  - intros nb b. discriminate.
  - injection Ey as <-. exact Hr.
Qed.

(* ---- MethodParameters ---- *)
Lemma p2r_vec8 {A} impl dec rs (p : parser A) f tv :
  p2r p (RF.rd_fmt impl dec rs f) tv ->
  p2r (p_list8 p) (RF.rd_fmt impl dec rs (RF.FVec8 f)) (fun xs => RF.VList (map tv xs)).
Proof.
  intros Hp s xs r t H. unfold p_list8, pbind, p_u8 in H. destruct (rd_u8 s) as [[n s1]|] eqn:E; [|discriminate].
  cbn [RF.rd_fmt]. destruct (rd_u8_app s n s1 t E) as [-> Hn]. cbn [Base.Str.bind].
  replace (N.to_nat (Z.to_N n)) with (Z.to_nat n) by lia.
  assert (G : forall k s1 xs r, p_rep k p s1 = Some (xs, r) ->
              RF.rd_rep k (RF.rd_fmt impl dec rs f) (s1 ++ t) = Ok (map tv xs, r ++ t)).
  { induction k as [|k IH]; intros s0 ys r0 H0; cbn [p_rep] in H0.
    - unfold pret in H0. injection H0 as <- <-. reflexivity.
    - unfold pbind in H0. destruct (p s0) as [[x s2]|] eqn:E1; [|discriminate].
      destruct (p_rep k p s2) as [[ys' r']|] eqn:E2; [|discriminate]. unfold pret in H0. injection H0 as <- <-.
      cbn [RF.rd_rep map]. rewrite (Hp _ _ _ t E1). cbn [Base.Str.bind]. rewrite (IH _ _ _ E2). reflexivity. }
  rewrite (G _ _ _ _ H). reflexivity.
Qed.
Definition mp_val (dec : RB.bytes -> res str) (e : option bytes * Z) : RF.val :=
  RF.VSeq [RF.VO (option_map (fun n => RP.VUtf8 (BP.sdec dec n)) (fst e)); RF.VN (RA.access_back 4 (Z.to_N (snd e)))].
Definition v_MethodParameters dec (l : list (option bytes * Z)) : RF.val := RF.VAttr RFo.a_MethodParameters (RF.VList (map (mp_val dec) l)).
Definition p_mp (c : cpool) : parser (option bytes * Z) := n <~ p_idx (get_opt get_utf8) c ;; f <~ p_u16 ;; pret (n, f).
Theorem attr_MethodParameters impl dec cs s x r t : BP.sdec dec s_MethodParameters = RFo.a_MethodParameters ->
  p_attr AtMethod (cslots cs 1) s = Some (AMethodParameters x, r) ->
  RF.rd_fmt impl dec (R.acc (BP.rpool dec cs)) (RF.FAttr R.method_sel) (s ++ t) = Ok (v_MethodParameters dec x, r ++ t).
Proof.
  intros Hn H. unfold p_attr in H.
  destruct (attr_p2r (fun _ => True) impl dec cs _ _ R.method_sel AMethodParameters (p_list8 (p_mp (cslots cs 1))) s_MethodParameters
              RFo.a_MethodParameters RFo.f_MethodParameters (fun l => RF.VList (map (mp_val dec) l)) s _ r t H) as (y & Ey & Hr).
  - intros nb q Hq len s2 y r' Hb ->. exact (name_MethodParameters _ _ _ _ _ _ _ Hq Hb).
  - reflexivity.
  - exact Hn.
  - intros len. reflexivity.
  - apply p2r_q. unfold RFo.f_MethodParameters. apply p2r_vec8. unfold p_mp.
    apply (p2r_seq2 impl dec _ _ p_u16 (fun a b => (a, b)) (RF.FOptIdx 8%N) (RF.FFlags 4%N)
             (fun o => RF.VO (option_map (fun n => RP.VUtf8 (BP.sdec dec n)) o)) (fun z => RF.VN (RA.access_back 4 (Z.to_N z)))).
    + apply p2r_optidx8.
    + apply p2r_flags.
    + intros a b. reflexivity.
  - intros; exact I.
  - intros nb b. discriminate.
  - injection Ey as <-. exact Hr.
Qed.

(* ---- EnclosingMethod ---- *)
Definition nt_val (dec : RB.bytes -> res str) (nd : bytes * bytes) : RP.cval := RP.VNameType (BP.sdec dec (fst nd)) (BP.sdec dec (snd nd)).
Definition v_EnclosingMethod dec (c : bytes) (m : option (bytes * bytes)) : RF.val :=
  RF.VAttr RFo.a_EnclosingMethod (RF.VSeq [cls dec c; RF.VO (option_map (nt_val dec) m)]).
Lemma acc10 dec cs i n d : get_nat (cslots cs 1) i = Some (n, d) ->
  R.acc (BP.rpool dec cs) 10%N (Z.to_N i) = Ok (RP.VNameType (BP.sdec dec n) (BP.sdec dec d)).
Proof. intros H. unfold R.acc. cbn. unfold RP.resolve_kind. cbn. rewrite (BP.ag_nat dec cs i n d H). reflexivity. Qed.
Lemma p2r_optidx10 impl dec cs :
  p2r (p_idx (get_opt get_nat) (cslots cs 1)) (RF.rd_fmt impl dec (R.acc (BP.rpool dec cs)) (RF.FOptIdx 10%N))
      (fun o => RF.VO (option_map (nt_val dec) o)).
Proof.
  intros s o r t H. unfold p_idx, pbind, plift in H. destruct (p_u16 s) as [[i s1]|] eqn:E; [|discriminate].
  destruct (get_opt get_nat (cslots cs 1) i) as [x|] eqn:G; [|discriminate]. injection H as <- <-.
  destruct (p_u16_app s i s1 t E) as [R1 Hi]. cbn [RF.rd_fmt]. rewrite R1. cbn [Base.Str.bind]. unfold get_opt in G.
  destruct (Z.eqb_spec i 0) as [E0|E0].
  - injection G as <-. subst i. reflexivity.
  - destruct (get_nat (cslots cs 1) i) as [[n d]|] eqn:Ea; [|discriminate]. injection G as <-.
    destruct (N.eqb_spec (Z.to_N i) 0); [lia|]. rewrite (acc10 dec cs i n d Ea). reflexivity.
Qed.
Theorem attr_EnclosingMethod impl dec cs s x m r t : BP.sdec dec s_EnclosingMethod = RFo.a_EnclosingMethod ->
  p_attr AtClass (cslots cs 1) s = Some (AEnclosingMethod x m, r) ->
  RF.rd_fmt impl dec (R.acc (BP.rpool dec cs)) (RF.FAttr R.class_sel) (s ++ t) = Ok (v_EnclosingMethod dec x m, r ++ t).
Proof.
  intros Hn H. unfold p_attr in H.
  destruct (attr_with_inv _ _ _ _ _ _ H) as (i & nb & len & s1 & s2 & E1 & G & E2 & Hb).
  destruct (attr_body AtClass (cslots cs 1) nb) as [q|] eqn:Eq; [|destruct Hb as (b & _ & Hx); discriminate].
  pose proof (name_EnclosingMethod _ _ _ _ _ _ _ _ Eq Hb) as ->.
  assert (Eq' : attr_body AtClass (cslots cs 1) s_EnclosingMethod
                = Some (a <~ p_idx get_class (cslots cs 1) ;; m0 <~ p_idx (get_opt get_nat) (cslots cs 1) ;; pret (AEnclosingMethod a m0))) by reflexivity.
  rewrite Eq' in Eq. injection Eq as <-.
  destruct (block_inv _ _ _ _ _ Hb) as (b & -> & Hlen & Hpb).
  unfold pbind, pret in Hpb. destruct (p_idx get_class (cslots cs 1) b) as [[a b1]|] eqn:Ea; [|discriminate].
  destruct (p_idx (get_opt get_nat) (cslots cs 1) b1) as [[m0 b2]|] eqn:Em; [|discriminate]. injection Hpb as -> -> ->.
  cbn [RF.rd_fmt]. destruct (p_u16_app s i s1 t E1) as [-> _]. cbn [Base.Str.bind].
  rewrite (acc8 dec cs i _ G). cbn [Base.Str.bind]. rewrite Hn.
  destruct (p_u32_app s1 len (b ++ r) t E2) as [-> _]. cbn [Base.Str.bind].
  change (R.class_sel RFo.a_EnclosingMethod (Z.to_N len)) with (RF.FSeq [RF.FIdx 6%N; RF.FOptIdx 10%N]).
  rewrite <- app_assoc.
  fold (RF.rd_fmt impl dec (R.acc (BP.rpool dec cs)) (RF.FSeq [RF.FIdx 6%N; RF.FOptIdx 10%N]) (b ++ r ++ t)).
  rewrite rd_seq2. rewrite (p2r_class impl dec cs _ _ _ (r ++ t) Ea). cbn [Base.Str.bind].
  rewrite (p2r_optidx10 impl dec cs _ _ _ (r ++ t) Em). reflexivity.
Qed.
