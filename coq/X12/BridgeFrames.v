(* X12 — bridge, part 15: THE StackMapTable through C01's frame format.
   C02's decoder (Frames.v dec_stack_map, transcribed from the reader's read_stack_map_frame; Decode.v p_stack_map
   resolves Object types) returns the frames with their ABSOLUTE offsets and loses which of two equivalent
   frame_type encodings stood in the file (same vs same_frame_extended, same_locals_1 vs its extended form).  C01's
   format reader returns, per frame, the tag with its payload; C01's build_code then takes [frame_delta] and
   [frame_norm] of each.  So the statement is relational ([smt_rel]): the values C01 reads have
     * deltas whose offsets by C01's own rule [frame_offsets] (JVMS 4.7.4) are the decoder's offsets, and
     * normal forms [frame_norm] equal to the decoder's frames (verification types: simple tags incl. Long = 4 /
       Double = 3, Object with the class name resolved and decoded, Uninitialized with its offset). *)
From Coq Require Import List NArith ZArith Bool Lia.
From FB Require Import C02.Model C02.Encode C02.Theory2 C02.Theory8 C02.Frames C02.Class C02.Decode C02.Facts
  C02.TheoryC1 C02.TheoryC2.
From FB Require C01.Bytes C01.Pool C01.Attr C01.Tables C01.Fmt C01.Formats C01.ClassFile C01.Model.
From FB Require X12.BridgePool.
From FB Require Import X12.BridgeClass X12.BridgeMembers X12.BridgeCode X12.BridgeFmt X12.BridgeDyn X12.BridgeFile X12.BridgeFmt2.
Import ListNotations.
Local Open Scope Z_scope.

Definition fvti_val (dec : RB.bytes -> res str) (v : fvti) : RF.val :=
  match v with
  | FVSimple t => RF.VTag (Z.to_N t) (RF.VSeq [])
  | FVObject n => RF.VTag 7%N (cls dec n)
  | FVUninit o => RF.VTag 8%N (RF.VPc 0%N (Z.to_N o))
  end.
Definition ff_val (dec : RB.bytes -> res str) (f : fframe) : RF.val :=
  match f with
  | FrSame => RF.VTag 0%N (RF.VSeq [])
  | FrSame1 s => RF.VTag 1%N (fvti_val dec s)
  | FrChop k => RF.VTag 2%N (RF.VN (Z.to_N k))
  | FrAppend ls => RF.VTag 3%N (RF.VList (map (fvti_val dec) ls))
  | FrFull ls ss => RF.VTag 4%N (RF.VSeq [RF.VList (map (fvti_val dec) ls); RF.VList (map (fvti_val dec) ss)])
  end.

Lemma rd_u8_app s z r t : rd_u8 s = Some (z, r) -> RB.rd_u8 (s ++ t) = Ok (Z.to_N z, r ++ t) /\ 0 <= z.
Proof. unfold rd_u8, RB.rd_u8. destruct s as [|a s']; [discriminate|]. intros [= <- <-]. cbn [app]. split; [|lia]. rewrite N2Z.id. reflexivity. Qed.

(* ---- verification types ---- *)
Lemma vti_read impl dec cs s v r t fv : dec_vti s = Some (v, r) -> resolve_vti (cslots cs 1) v = Some fv ->
  RF.rd_fmt impl dec (R.acc (BP.rpool dec cs)) R.vti_fmt (s ++ t) = Ok (fvti_val dec fv, r ++ t).
Proof.
  unfold dec_vti. intros H Hr. destruct (rd_u8 s) as [[tg s1]|] eqn:E; [|discriminate].
  destruct (rd_u8_app s tg s1 t E) as [R1 Ht].
  unfold R.vti_fmt. cbn [RF.rd_fmt]. rewrite R1. cbn [Base.Str.bind].
  destruct (Z.ltb_spec tg 7) as [L|L].
  - injection H as <- <-. cbn [resolve_vti] in Hr. injection Hr as <-.
    assert (Hm : mem_N (Z.to_N tg) RFo.vti_plain = true).
    { assert (C : tg = 0 \/ tg = 1 \/ tg = 2 \/ tg = 3 \/ tg = 4 \/ tg = 5 \/ tg = 6) by lia.
      destruct C as [->|[->|[->|[->|[->|[->| ->]]]]]]; reflexivity. }
    rewrite Hm. cbn [orb].
    unfold RFo.vti_object_tag, RFo.vti_uninit_tag.
    destruct (N.eqb_spec (Z.to_N tg) 7); [lia|]. destruct (N.eqb_spec (Z.to_N tg) 8); [lia|]. reflexivity.
  - destruct (Z.eqb_spec tg 7) as [E7|E7].
    + subst tg. destruct (rd_u16 s1) as [[i s2]|] eqn:E2; [|discriminate]. injection H as <- <-.
      cbn [resolve_vti] in Hr. destruct (get_class (cslots cs 1) i) as [n|] eqn:G; [|discriminate]. injection Hr as <-.
      change (Z.to_N 7) with 7%N.
      change (mem_N 7 RFo.vti_plain || (7 =? RFo.vti_object_tag)%N || (7 =? RFo.vti_uninit_tag)%N) with true. cbv iota.
      change (if (7 =? RFo.vti_object_tag)%N then RF.FIdx 6%N else if (7 =? RFo.vti_uninit_tag)%N then RF.FPc 0%N else RF.FSeq []) with (RF.FIdx 6%N).
      cbn [RF.rd_fmt]. destruct (p_u16_app s1 i s2 t E2) as [-> _]. cbn [Base.Str.bind].
      rewrite (acc6 dec cs i n G). reflexivity.
    + destruct (Z.eqb_spec tg 8) as [E8|E8]; [|discriminate].
      subst tg. destruct (rd_u16 s1) as [[o s2]|] eqn:E2; [|discriminate]. injection H as <- <-.
      cbn [resolve_vti] in Hr. injection Hr as <-.
      change (Z.to_N 8) with 8%N.
      change (mem_N 8 RFo.vti_plain || (8 =? RFo.vti_object_tag)%N || (8 =? RFo.vti_uninit_tag)%N) with true. cbv iota.
      change (if (8 =? RFo.vti_object_tag)%N then RF.FIdx 6%N else if (8 =? RFo.vti_uninit_tag)%N then RF.FPc 0%N else RF.FSeq []) with (RF.FPc 0%N).
      cbn [RF.rd_fmt]. destruct (p_u16_app s1 o s2 t E2) as [-> _]. reflexivity.
Qed.

Lemma vtis_all impl dec cs t : forall n s vs r fvs, dec_vtis n s = Some (vs, r) -> mapO (resolve_vti (cslots cs 1)) vs = Some fvs ->
  RF.rd_all (map (RF.rd_fmt impl dec (R.acc (BP.rpool dec cs))) (repeat R.vti_fmt n)) (s ++ t) = Ok (map (fvti_val dec) fvs, r ++ t).
Proof.
  induction n as [|n IH]; intros s vs r fvs H Hr; cbn [dec_vtis] in H.
  - injection H as <- <-. cbn [mapO] in Hr. injection Hr as <-. reflexivity.
  - destruct (dec_vti s) as [[v s1]|] eqn:E; [|discriminate]. destruct (dec_vtis n s1) as [[vs' r']|] eqn:E2; [|discriminate].
    injection H as <- <-. cbn [mapO] in Hr. destruct (resolve_vti (cslots cs 1) v) as [fv|] eqn:Rv; [|discriminate].
    destruct (mapO (resolve_vti (cslots cs 1)) vs') as [fvs'|] eqn:Rs; [|discriminate]. injection Hr as <-.
    cbn [repeat map RF.rd_all]. rewrite (vti_read impl dec cs s v s1 t fv E Rv). cbn [Base.Str.bind].
    rewrite (IH _ _ _ _ E2 Rs). reflexivity.
Qed.
Lemma vtis_rep impl dec cs t : forall n s vs r fvs, dec_vtis n s = Some (vs, r) -> mapO (resolve_vti (cslots cs 1)) vs = Some fvs ->
  RF.rd_rep n (RF.rd_fmt impl dec (R.acc (BP.rpool dec cs)) R.vti_fmt) (s ++ t) = Ok (map (fvti_val dec) fvs, r ++ t).
Proof.
  induction n as [|n IH]; intros s vs r fvs H Hr; cbn [dec_vtis] in H.
  - injection H as <- <-. cbn [mapO] in Hr. injection Hr as <-. reflexivity.
  - destruct (dec_vti s) as [[v s1]|] eqn:E; [|discriminate]. destruct (dec_vtis n s1) as [[vs' r']|] eqn:E2; [|discriminate].
    injection H as <- <-. cbn [mapO] in Hr. destruct (resolve_vti (cslots cs 1) v) as [fv|] eqn:Rv; [|discriminate].
    destruct (mapO (resolve_vti (cslots cs 1)) vs') as [fvs'|] eqn:Rs; [|discriminate]. injection Hr as <-.
    cbn [RF.rd_rep map]. rewrite (vti_read impl dec cs s v s1 t fv E Rv). cbn [Base.Str.bind].
    rewrite (IH _ _ _ _ E2 Rs). reflexivity.
Qed.

(* ---- one frame ---- *)
Lemma rd_tag impl dec rs ok sel s tN s1 f v r :
  RB.rd_u8 s = Ok (tN, s1) -> ok impl tN = true -> sel tN = f -> RF.rd_fmt impl dec rs f s1 = Ok (v, r) ->
  RF.rd_fmt impl dec rs (RF.FTag ok sel) s = Ok (RF.VTag tN v, r).
Proof. intros H1 H2 H3 H4. cbn [RF.rd_fmt]. rewrite H1. cbn [Base.Str.bind]. rewrite H2, H3, H4. reflexivity. Qed.
Lemma rd_u16_fmt impl dec rs s n r : RB.rd_u16 s = Ok (n, r) -> RF.rd_fmt impl dec rs RF.FU16 s = Ok (RF.VN n, r).
Proof. intros H. cbn [RF.rd_fmt]. rewrite H. reflexivity. Qed.
Lemma rd_seq_list impl dec rs l s vs r : RF.rd_all (map (RF.rd_fmt impl dec rs) l) s = Ok (vs, r) ->
  RF.rd_fmt impl dec rs (RF.FSeq l) s = Ok (RF.VSeq vs, r).
Proof. intros H. cbn [RF.rd_fmt]. rewrite H. reflexivity. Qed.
Lemma rd_vec16 impl dec rs f s n s1 vs r : RB.rd_u16 s = Ok (n, s1) -> RF.rd_rep (N.to_nat n) (RF.rd_fmt impl dec rs f) s1 = Ok (vs, r) ->
  RF.rd_fmt impl dec rs (RF.FVec16 f) s = Ok (RF.VList vs, r).
Proof. intros H1 H2. cbn [RF.rd_fmt]. rewrite H1. cbn [Base.Str.bind]. rewrite H2. reflexivity. Qed.
Lemma rd_seq3 impl dec rs a b c s :
  RF.rd_fmt impl dec rs (RF.FSeq [a; b; c]) s
  = (do (v1, s1) <- RF.rd_fmt impl dec rs a s; do (v2, s2) <- RF.rd_fmt impl dec rs b s1; do (v3, s3) <- RF.rd_fmt impl dec rs c s2;
     Ok (RF.VSeq [v1; v2; v3], s3)).
Proof.
  cbn [RF.rd_fmt map RF.rd_all].
  destruct (RF.rd_fmt impl dec rs a s) as [[v1 s1]|]; [|reflexivity]. cbn [Base.Str.bind].
  destruct (RF.rd_fmt impl dec rs b s1) as [[v2 s2]|]; [|reflexivity]. cbn [Base.Str.bind].
  destruct (RF.rd_fmt impl dec rs c s2) as [[v3 s3]|]; reflexivity.
Qed.

Definition okf : bool -> N -> bool := fun _ t => ((t <? 128) || (247 <=? t))%N.
Definition self : N -> RF.fmt := fun t =>
  if (t <? 64)%N then RF.FSeq []
  else if (t <? 128)%N then R.vti_fmt
  else if (t =? 247)%N then RF.FSeq [RF.FU16; R.vti_fmt]
  else if (t <? 252)%N then RF.FU16
  else if (t <? 255)%N then RF.FSeq [RF.FU16; RF.FSeq (repeat R.vti_fmt (N.to_nat (t - 251)))]
  else RF.FSeq [RF.FU16; RF.FVec16 R.vti_fmt; RF.FVec16 R.vti_fmt].
Lemma frame_fmt_eq : R.frame_fmt = RF.FTag okf self. Proof. reflexivity. Qed.

Ltac nb := repeat match goal with
  | |- context [N.ltb ?a ?b] => destruct (N.ltb_spec a b); try lia
  | |- context [N.leb ?a ?b] => destruct (N.leb_spec a b); try lia
  | |- context [N.eqb ?a ?b] => destruct (N.eqb_spec a b); try lia
  end.

Theorem frame_read impl dec cs s d f r t ff : dec_frame s = Some (d, f, r) -> resolve_frame (cslots cs 1) f = Some ff ->
  exists v, RF.rd_fmt impl dec (R.acc (BP.rpool dec cs)) R.frame_fmt (s ++ t) = Ok (v, r ++ t) /\
            R.frame_delta v = Ok (Z.to_N d) /\ R.frame_norm v = ff_val dec ff.
Proof.
  unfold dec_frame. intros H Hr. destruct (rd_u8 s) as [[tg s1]|] eqn:E; [|discriminate].
  destruct (rd_u8_app s tg s1 t E) as [R1 Ht]. rewrite frame_fmt_eq.
  set (tN := Z.to_N tg) in *.
  destruct (Z.ltb_spec tg 64) as [L1|L1].
  { injection H as <- <- <-. cbn [resolve_frame] in Hr. injection Hr as <-.
    exists (RF.VTag tN (RF.VSeq [])). split; [|split].
    - apply (rd_tag impl dec _ okf self _ tN (s1 ++ t) (RF.FSeq [])); [exact R1| | |reflexivity]; unfold okf, self; nb; reflexivity.
    - unfold R.frame_delta. nb. reflexivity.
    - unfold R.frame_norm. nb. reflexivity. }
  destruct (Z.ltb_spec tg 128) as [L2|L2].
  { destruct (dec_vti s1) as [[v s2]|] eqn:Ev; [|discriminate]. injection H as <- <- <-.
    cbn [resolve_frame] in Hr. destruct (resolve_vti (cslots cs 1) v) as [fv|] eqn:Rv; [|discriminate]. injection Hr as <-.
    exists (RF.VTag tN (fvti_val dec fv)). split; [|split].
    - apply (rd_tag impl dec _ okf self _ tN (s1 ++ t) R.vti_fmt); [exact R1| | |exact (vti_read impl dec cs s1 v s2 t fv Ev Rv)];
        unfold okf, self; nb; reflexivity.
    - unfold R.frame_delta. nb. f_equal. lia.
    - unfold R.frame_norm. nb. reflexivity. }
  destruct (Z.ltb_spec tg 247) as [L3|L3]; [discriminate|].
  destruct (rd_u16 s1) as [[dd s2]|] eqn:Ed; [|discriminate]. destruct (p_u16_app s1 dd s2 t Ed) as [Rd Hd].
  destruct (Z.eqb_spec tg 247) as [E247|N247].
  { destruct (dec_vti s2) as [[v s3]|] eqn:Ev; [|discriminate]. injection H as <- <- <-.
    cbn [resolve_frame] in Hr. destruct (resolve_vti (cslots cs 1) v) as [fv|] eqn:Rv; [|discriminate]. injection Hr as <-.
    exists (RF.VTag tN (RF.VSeq [RF.VN (Z.to_N dd); fvti_val dec fv])). split; [|split].
    - apply (rd_tag impl dec _ okf self _ tN (s1 ++ t) (RF.FSeq [RF.FU16; R.vti_fmt])); [exact R1| | |]; try (unfold okf, self; nb; reflexivity).
      rewrite rd_seq2, (rd_u16_fmt impl dec _ _ _ _ Rd). cbn [Base.Str.bind]. rewrite (vti_read impl dec cs s2 v s3 t fv Ev Rv). reflexivity.
    - unfold R.frame_delta. nb. reflexivity.
    - unfold R.frame_norm. nb. reflexivity. }
  destruct (Z.ltb_spec tg 251) as [L4|L4].
  { injection H as <- <- <-. cbn [resolve_frame] in Hr. injection Hr as <-.
    exists (RF.VTag tN (RF.VN (Z.to_N dd))). split; [|split].
    - apply (rd_tag impl dec _ okf self _ tN (s1 ++ t) RF.FU16); [exact R1| | |exact (rd_u16_fmt impl dec _ _ _ _ Rd)]; unfold okf, self; nb; reflexivity.
    - unfold R.frame_delta. nb. reflexivity.
    - unfold R.frame_norm. nb. cbn [ff_val]. do 2 f_equal. lia. }
  destruct (Z.eqb_spec tg 251) as [E251|N251].
  { injection H as <- <- <-. cbn [resolve_frame] in Hr. injection Hr as <-.
    exists (RF.VTag tN (RF.VN (Z.to_N dd))). split; [|split].
    - apply (rd_tag impl dec _ okf self _ tN (s1 ++ t) RF.FU16); [exact R1| | |exact (rd_u16_fmt impl dec _ _ _ _ Rd)]; unfold okf, self; nb; reflexivity.
    - unfold R.frame_delta. nb. reflexivity.
    - unfold R.frame_norm. nb. reflexivity. }
  destruct (Z.ltb_spec tg 255) as [L5|L5].
  { destruct (dec_vtis (Z.to_nat (tg - 251)) s2) as [[vs s3]|] eqn:Ev; [|discriminate]. injection H as <- <- <-.
    cbn [resolve_frame] in Hr. destruct (mapO (resolve_vti (cslots cs 1)) vs) as [fvs|] eqn:Rv; [|discriminate]. injection Hr as <-.
    exists (RF.VTag tN (RF.VSeq [RF.VN (Z.to_N dd); RF.VSeq (map (fvti_val dec) fvs)])). split; [|split].
    - apply (rd_tag impl dec _ okf self _ tN (s1 ++ t) (RF.FSeq [RF.FU16; RF.FSeq (repeat R.vti_fmt (N.to_nat (tN - 251)))]));
        [exact R1| | |]; try (unfold okf, self; nb; reflexivity).
      rewrite rd_seq2, (rd_u16_fmt impl dec _ _ _ _ Rd). cbn [Base.Str.bind].
      replace (N.to_nat (tN - 251)) with (Z.to_nat (tg - 251)) by lia.
      rewrite (rd_seq_list impl dec _ _ _ _ _ (vtis_all impl dec cs t _ _ _ _ _ Ev Rv)). reflexivity.
    - unfold R.frame_delta. nb. reflexivity.
    - unfold R.frame_norm. nb. reflexivity. }
  destruct (rd_u16 s2) as [[nl s3]|] eqn:En; [|discriminate]. destruct (p_u16_app s2 nl s3 t En) as [Rn Hn].
  destruct (dec_vtis (Z.to_nat nl) s3) as [[ls s4]|] eqn:El; [|discriminate].
  destruct (rd_u16 s4) as [[ns s5]|] eqn:Es; [|discriminate]. destruct (p_u16_app s4 ns s5 t Es) as [Rs Hs].
  destruct (dec_vtis (Z.to_nat ns) s5) as [[ss s6]|] eqn:Ess; [|discriminate]. injection H as <- <- <-.
  cbn [resolve_frame] in Hr. destruct (mapO (resolve_vti (cslots cs 1)) ls) as [fls|] eqn:Rl; [|discriminate].
  destruct (mapO (resolve_vti (cslots cs 1)) ss) as [fss|] eqn:Rss; [|discriminate]. injection Hr as <-.
  exists (RF.VTag tN (RF.VSeq [RF.VN (Z.to_N dd); RF.VList (map (fvti_val dec) fls); RF.VList (map (fvti_val dec) fss)])). split; [|split].
  - apply (rd_tag impl dec _ okf self _ tN (s1 ++ t) (RF.FSeq [RF.FU16; RF.FVec16 R.vti_fmt; RF.FVec16 R.vti_fmt]));
      [exact R1| | |]; try (unfold okf, self; nb; reflexivity).
    rewrite rd_seq3, (rd_u16_fmt impl dec _ _ _ _ Rd). cbn [Base.Str.bind].
    rewrite (rd_vec16 impl dec _ R.vti_fmt _ _ _ (map (fvti_val dec) fls) (s4 ++ t) Rn)
      by (replace (N.to_nat (Z.to_N nl)) with (Z.to_nat nl) by lia; exact (vtis_rep impl dec cs t _ _ _ _ _ El Rl)).
    cbn [Base.Str.bind].
    rewrite (rd_vec16 impl dec _ R.vti_fmt _ _ _ (map (fvti_val dec) fss) (s6 ++ t) Rs)
      by (replace (N.to_nat (Z.to_N ns)) with (Z.to_nat ns) by lia; exact (vtis_rep impl dec cs t _ _ _ _ _ Ess Rss)).
    reflexivity.
  - unfold R.frame_delta. nb. reflexivity.
  - unfold R.frame_norm. nb. reflexivity.
Qed.

Lemma dec_frame_nonneg s d f r : dec_frame s = Some (d, f, r) -> 0 <= d.
Proof.
  unfold dec_frame. destruct (rd_u8 s) as [[tg s1]|] eqn:E; [|discriminate].
  assert (Ht : 0 <= tg) by (unfold rd_u8 in E; destruct s; [discriminate|]; injection E as <- _; lia).
  destruct (Z.ltb_spec tg 64); [intros [= <- _ _]; exact Ht|].
  destruct (Z.ltb_spec tg 128). { destruct (dec_vti s1) as [[? ?]|]; [|discriminate]. intros [= <- _ _]. lia. }
  destruct (tg <? 247); [discriminate|].
  destruct (rd_u16 s1) as [[dd s2]|] eqn:Ed; [|discriminate].
  assert (Hd : 0 <= dd) by (unfold rd_u16 in Ed; destruct s1 as [|x [|y ?]]; try discriminate; injection Ed as <- _; lia).
  destruct (tg =? 247). { destruct (dec_vti s2) as [[? ?]|]; [|discriminate]. intros [= <- _ _]. exact Hd. }
  destruct (tg <? 251); [intros [= <- _ _]; exact Hd|].
  destruct (tg =? 251); [intros [= <- _ _]; exact Hd|].
  destruct (tg <? 255). { destruct (dec_vtis (Z.to_nat (tg - 251)) s2) as [[? ?]|]; [|discriminate]. intros [= <- _ _]. exact Hd. }
  destruct (rd_u16 s2) as [[nl s3]|]; [|discriminate]. destruct (dec_vtis (Z.to_nat nl) s3) as [[ls s4]|]; [|discriminate].
  destruct (rd_u16 s4) as [[ns s5]|]; [|discriminate]. destruct (dec_vtis (Z.to_nat ns) s5) as [[ss s6]|]; [|discriminate]. intros [= <- _ _]. exact Hd.
Qed.

(* ---- the table ---- *)
Definition res_frame (c : cpool) (of : Z * dframe) : option (Z * fframe) :=
  match resolve_frame c (snd of) with Some f => Some (fst of, f) | None => None end.
Lemma frames_read impl dec cs t : forall n first off s l r rl,
  dec_frames n first off s = Some (l, r) -> mapO (res_frame (cslots cs 1)) l = Some rl -> 0 <= off ->
  exists vs ds, RF.rd_rep n (RF.rd_fmt impl dec (R.acc (BP.rpool dec cs)) R.frame_fmt) (s ++ t) = Ok (vs, r ++ t) /\
                RP.map_res R.frame_delta vs = Ok ds /\
                RM.frame_offsets first (Z.to_N off) ds = Ok (map (fun e => Z.to_N (fst e)) rl) /\
                map R.frame_norm vs = map (fun e => ff_val dec (snd e)) rl.
Proof.
  induction n as [|n IH]; intros first off s l r rl H Hr Hoff; cbn [dec_frames] in H.
  - injection H as <- <-. cbn [mapO] in Hr. injection Hr as <-. exists [], []. repeat split.
  - destruct (dec_frame s) as [[[d f] s1]|] eqn:Ef; [|discriminate].
    destruct (Z.ltb_spec 65535 (off + d + (if first then 0 else 1))) as [Lo|Lo]; [discriminate|].
    destruct (dec_frames n false (off + d + (if first then 0 else 1)) s1) as [[l' r']|] eqn:En; [|discriminate]. injection H as <- <-.
    cbn [mapO] in Hr. unfold res_frame at 1 in Hr. cbn [fst snd] in Hr.
    destruct (resolve_frame (cslots cs 1) f) as [ff|] eqn:Rf; [|discriminate].
    destruct (mapO (res_frame (cslots cs 1)) l') as [rl'|] eqn:Rl; [|discriminate]. injection Hr as <-.
    pose proof (dec_frame_nonneg _ _ _ _ Ef) as Hd.
    destruct (frame_read impl dec cs s d f s1 t ff Ef Rf) as (v & Hv & Dv & Nv).
    destruct (IH false _ _ _ _ _ En Rl ltac:(destruct first; lia)) as (vs & ds & Hvs & Dvs & Ovs & Nvs).
    exists (v :: vs), (Z.to_N d :: ds). split; [|split; [|split]].
    + cbn [RF.rd_rep]. rewrite Hv. cbn [Base.Str.bind]. rewrite Hvs. reflexivity.
    + cbn [RP.map_res]. rewrite Dv. cbn [Base.Str.bind]. rewrite Dvs. reflexivity.
    + cbn [RM.frame_offsets map fst].
      replace (Z.to_N off + Z.to_N d + (if first then 0 else 1))%N with (Z.to_N (off + d + (if first then 0 else 1))) by (destruct first; lia).
      destruct (N.ltb_spec (Z.to_N (off + d + (if first then 0 else 1))) 65536); [|destruct first; lia].
      rewrite Ovs. reflexivity.
    + cbn [map snd]. rewrite Nv, Nvs. reflexivity.
Qed.

Definition smt_rel (dec : RB.bytes -> res str) (l : list (Z * fframe)) (v : RF.val) : Prop :=
  exists vs ds, v = RF.VAttr RFo.a_StackMapTable (RF.VList vs) /\ RP.map_res R.frame_delta vs = Ok ds /\
                RM.frame_offsets true 0 ds = Ok (map (fun e => Z.to_N (fst e)) l) /\
                map R.frame_norm vs = map (fun e => ff_val dec (snd e)) l.

Lemma name_SMT c nb q len s2 x r : leaf_body AtCode c nb = Some q ->
  p_block len q s2 = Some (AStackMapTable x, r) -> nb = s_StackMapTable.
Proof.
  intros Hq Hb. unfold leaf_body in Hq. cbn [andb] in Hq.
  chain Hq; try discriminate; injection Hq as <-; try (blockout Hb; fail). apply is_eq. assumption.
Qed.

Theorem attr_StackMapTable impl dec cs s l r t :
  BP.sdec dec s_StackMapTable = RFo.a_StackMapTable ->
  p_attr0 AtCode (cslots cs 1) s = Some (AStackMapTable l, r) ->
  exists v, RF.rd_fmt impl dec (R.acc (BP.rpool dec cs)) (RF.FAttr R.code_sel) (s ++ t) = Ok (v, r ++ t) /\ smt_rel dec l v.
Proof.
  intros Hname H. unfold p_attr0 in H.
  destruct (attr_with_inv _ _ _ _ _ _ H) as (i & nb & len & s1 & s2 & E1 & G & E2 & Hb).
  destruct (leaf_body AtCode (cslots cs 1) nb) as [q|] eqn:Eq; [|destruct Hb as (b & _ & Hx); discriminate].
  pose proof (name_SMT _ _ _ _ _ _ _ Eq Hb) as ->.
  assert (Eq' : leaf_body AtCode (cslots cs 1) s_StackMapTable = Some (x <~ p_stack_map (cslots cs 1) ;; pret (AStackMapTable x))) by reflexivity.
  rewrite Eq' in Eq. injection Eq as <-.
  destruct (block_inv _ _ _ _ _ Hb) as (b & -> & Hlen & Hpb).
  unfold pbind, pret in Hpb. destruct (p_stack_map (cslots cs 1) b) as [[y rb]|] eqn:Ep; [|discriminate]. injection Hpb as <- ->.
  unfold p_stack_map in Ep. destruct (dec_stack_map b) as [fl|] eqn:Eds; [|discriminate].
  fold (res_frame (cslots cs 1)) in Ep. destruct (mapO (res_frame (cslots cs 1)) fl) as [rl|] eqn:Erl; [|discriminate]. injection Ep as <-.
  unfold dec_stack_map in Eds. destruct (rd_u16 b) as [[n b1]|] eqn:En; [|discriminate].
  destruct (dec_frames (Z.to_nat n) true 0 b1) as [[fl' [|? ?]]|] eqn:Efr; try discriminate. injection Eds as <-.
  destruct (frames_read impl dec cs (r ++ t) _ _ _ _ _ _ _ Efr Erl ltac:(lia)) as (vs & ds & Hvs & Dvs & Ovs & Nvs).
  cbn [app] in Hvs.
  exists (RF.VAttr RFo.a_StackMapTable (RF.VList vs)). split; [|exists vs, ds; repeat split; assumption].
  cbn [RF.rd_fmt]. destruct (p_u16_app s i s1 t E1) as [-> _]. cbn [Base.Str.bind].
  rewrite (acc8 dec cs i _ G). cbn [Base.Str.bind]. rewrite Hname.
  destruct (p_u32_app s1 len (b ++ r) t E2) as [-> _]. cbn [Base.Str.bind].
  change (R.code_sel RFo.a_StackMapTable (Z.to_N len)) with (RF.FVec16 R.frame_fmt).
  rewrite <- app_assoc. destruct (p_u16_app b n b1 (r ++ t) En) as [Rn Hn].
  fold (RF.rd_fmt impl dec (R.acc (BP.rpool dec cs)) (RF.FVec16 R.frame_fmt) (b ++ r ++ t)).
  rewrite (rd_vec16 impl dec _ R.frame_fmt _ _ _ vs (r ++ t) Rn) by (replace (N.to_nat (Z.to_N n)) with (Z.to_nat n) by lia; exact Hvs).
  reflexivity.
Qed.
