(* X12 — bridge, part 27: THE KIND PART OF FRAGMENT 6 HOLDS FOR EVERY WRITTEN CLASS.
   Whatever C02's decoder returns at a location is one of the kinds dclass_frag6 names there; so for the decoded
   class of a written cclass_ok tree, dclass_frag6 reduces to its SIDE CONDITIONS (dclass_side6: every constructor is
   mapped to `true` or to a side condition, none to `false`), and the whole-file theorem holds with those alone. *)
From Coq Require Import List NArith ZArith Bool Lia.
From FB Require Import C02.Model C02.Encode C02.Theory2 C02.Theory8 C02.Frames C02.Class C02.Decode C02.Facts
  C02.TheoryC1 C02.TheoryC2 C02.TheoryC3 C02.TheoryC8.
From FB Require C01.Bytes C01.Pool C01.Attr C01.Tables C01.Fmt C01.Formats C01.ClassFile C01.Mutf8.
From FB Require X12.BridgePool.
From FB Require Import X12.BridgeClass X12.BridgeMembers X12.BridgeCode X12.BridgeFmt X12.BridgeDyn X12.BridgeFile X12.BridgeFmt2
  X12.BridgeFile2 X12.BridgeFrames X12.BridgeFile3 X12.BridgeUnknown X12.BridgeFmt3 X12.BridgeFile4 X12.BridgeAnnot X12.BridgeModule
  X12.BridgeRecord X12.BridgeFile5 X12.BridgeTypeAnn X12.BridgeFile6.
Import ListNotations.
Local Open Scope Z_scope.

(* ---- the side conditions alone ---- *)
Definition iside6 (impl : bool) (dec : RB.bytes -> res str) (a : dattr0) : bool :=
  match a with ATypeAnnotations _ l => tas_ok impl RFo.target_code_tbl [] l | AUnknown nb _ => unk_ok dec nb | _ => true end.
Definition rside6 (impl : bool) (dec : RB.bytes -> res str) (a : dattr0) : bool :=
  match a with
  | ATypeAnnotations _ l => tas_ok impl RFo.target_field_tbl [] l | AAnnotations _ l => anns_ok l | AUnknown nb _ => unk_ok dec nb
  | _ => true
  end.
Definition rcside6 (impl : bool) (dec : RB.bytes -> res str) (c : drecord) : bool := forallb (rside6 impl dec) (dr_attrs c).
Definition cside6 (impl : bool) (dec : RB.bytes -> res str) (a : dattr) : bool :=
  match a with
  | ALeaf (ATypeAnnotations _ l) => tas_ok impl RFo.target_class_tbl [] l
  | ALeaf (AAnnotations _ l) => anns_ok l
  | ALeaf (AUnknown nb _) => unk_ok dec nb
  | ASourceDebugExtension b => sde_ok dec b
  | ARecord l => forallb (rcside6 impl dec) l
  | _ => true
  end.
Definition fside6 (impl : bool) (dec : RB.bytes -> res str) (a : dattr) : bool :=
  match a with
  | ALeaf (ATypeAnnotations _ l) => tas_ok impl RFo.target_field_tbl [] l
  | ALeaf (AAnnotations _ l) => anns_ok l
  | ALeaf (AUnknown nb _) => unk_ok dec nb
  | _ => true
  end.
Definition mside6 (impl : bool) (dec : RB.bytes -> res str) (a : dattr) : bool :=
  match a with
  | ALeaf (ATypeAnnotations _ l) => tas_ok impl RFo.target_method_tbl R.target_method_extra l
  | ALeaf (AAnnotations _ l) => anns_ok l
  | ALeaf (AUnknown nb _) => unk_ok dec nb
  | AAnnotationDefault e => ev_nest_ok e
  | ACode k => forallb (iside6 impl dec) (dc_attrs k)
  | _ => true
  end.
Definition dclass_side6 (impl : bool) (dec : RB.bytes -> res str) (d : dclass) : bool :=
  forallb (cside6 impl dec) (d_attrs d) && forallb (fun m => forallb (fside6 impl dec) (dm_attrs m)) (d_fields d)
  && forallb (fun m => forallb (mside6 impl dec) (dm_attrs m)) (d_methods d).

(* ---- lists ---- *)
Lemma rep_forall {A} (p : parser A) (K : A -> Prop) : (forall s a r, p s = Some (a, r) -> K a) ->
  forall n s xs r, p_rep n p s = Some (xs, r) -> Forall K xs.
Proof.
  intros Hp. induction n as [|n IH]; intros s xs r H; cbn [p_rep] in H.
  - unfold pret in H. injection H as <- _. constructor.
  - unfold pbind in H. destruct (p s) as [[x s1]|] eqn:E1; [|discriminate].
    destruct (p_rep n p s1) as [[ys r']|] eqn:E2; [|discriminate]. unfold pret in H. injection H as <- _.
    constructor; [exact (Hp _ _ _ E1)|exact (IH _ _ _ E2)].
Qed.
Lemma list16_forall {A} (p : parser A) (K : A -> Prop) s xs r : (forall s a r, p s = Some (a, r) -> K a) ->
  p_list16 p s = Some (xs, r) -> Forall K xs.
Proof.
  intros Hp H. unfold p_list16, pbind in H. destruct (p_u16 s) as [[n s1]|]; [|discriminate]. exact (rep_forall p K Hp _ _ _ _ H).
Qed.
Lemma forallb_imp {A} (f g : A -> bool) l : Forall (fun x => f x = true -> g x = true) l -> forallb f l = true -> forallb g l = true.
Proof.
  induction 1 as [|x l Hx _ IH]; [reflexivity|]. cbn [forallb]. intros H. apply andb_prop in H. destruct H as [H1 H2].
  rewrite (Hx H1), (IH H2). reflexivity.
Qed.

(* ---- one attribute: open the decoder's answer, keeping the equations of the payload parsers ---- *)
Ltac blockeq H :=
  let b := fresh "b" in let Hs := fresh in let Hl := fresh in let Hp := fresh "Hp" in
  apply block_inv in H; destruct H as (b & Hs & Hl & Hp); unfold pbind, pret in Hp; cbv beta in Hp;
  repeat (match type of Hp with
          | context [match ?q ?z with Some _ => _ | None => _ end] => let E := fresh "EqP" in destruct (q z) as [[? ?]|] eqn:E
          end; cbv beta iota in Hp); try discriminate;
  apply (f_equal (fun o => match o with Some (x, _) => Some x | None => None end)) in Hp; cbv beta iota in Hp; injection Hp as <-.
Ltac open0 H EqB Hb :=
  unfold p_attr0 in H; destruct (attr_with_inv _ _ _ _ _ _ H) as (?i & ?nb & ?len & ?s1 & ?s2 & _ & _ & _ & Hb);
  match type of Hb with match ?body with _ => _ end => destruct body as [q|] eqn:EqB end.

Lemma code_kinds impl dec c s a r : p_attr0 AtCode c s = Some (a, r) -> iside6 impl dec a = true -> innerb6 impl dec a = true.
Proof.
  intros H Hs. open0 H EqB Hb.
  - unfold leaf_body in EqB. cbn [andb] in EqB. chain EqB; try discriminate; try (exfalso; match goal with E : _ && false = true |- _ => rewrite andb_false_r in E; discriminate E end); (let E0 := fresh "E0" in injection EqB as E0; subst q);
      blockeq Hb; first [exact Hs|reflexivity].
  - destruct Hb as (b & _ & ->). exact Hs.
Qed.
Lemma rec_kinds impl dec c s a r : p_attr0 AtRecord c s = Some (a, r) -> rside6 impl dec a = true -> rattrb6 impl dec a = true.
Proof.
  intros H Hs. open0 H EqB Hb.
  - unfold leaf_body in EqB. cbn [andb] in EqB. chain EqB; try discriminate; try (exfalso; match goal with E : _ && false = true |- _ => rewrite andb_false_r in E; discriminate E end); (let E0 := fresh "E0" in injection EqB as E0; subst q);
      blockeq Hb; first [exact Hs|reflexivity].
  - destruct Hb as (b & _ & ->). exact Hs.
Qed.
Lemma code_kinds_all impl dec c s k r : p_code c s = Some (k, r) ->
  forallb (iside6 impl dec) (dc_attrs k) = true -> forallb (innerb6 impl dec) (dc_attrs k) = true.
Proof.
  intros H. apply forallb_imp. unfold p_code, pbind in H.
  destruct (p_u16 s) as [[ms s1]|]; [|discriminate]. destruct (p_u16 s1) as [[ml s2]|]; [|discriminate].
  destruct (p_u32 s2) as [[len s3]|]; [|discriminate]. destruct ((len <? 1) || (65535 <? len)); [discriminate|].
  destruct (p_take (Z.to_nat len) s3) as [[code s4]|]; [|discriminate].
  match type of H with match ?p s4 with _ => _ end = _ => destruct (p s4) as [[ex s5]|]; [|discriminate] end.
  destruct (p_attrs0 AtCode c s5) as [[at_ s6]|] eqn:E6; [|discriminate]. unfold pret in H. injection H as <- _. cbn [dc_attrs].
  unfold p_attrs0 in E6. apply (list16_forall _ _ _ _ _ (fun s0 a r0 H0 => code_kinds impl dec c s0 a r0 H0) E6).
Qed.
Lemma reccomp_kinds impl dec c s x r : p_record_component c s = Some (x, r) -> rcside6 impl dec x = true -> rcompb6 impl dec x = true.
Proof.
  intros H. unfold rcside6, rcompb6. apply forallb_imp. unfold p_record_component, pbind, pret in H.
  destruct (p_idx get_utf8 c s) as [[n s1]|]; [|discriminate]. destruct (p_idx get_utf8 c s1) as [[d s2]|]; [|discriminate].
  destruct (p_attrs0 AtRecord c s2) as [[a s3]|] eqn:E3; [|discriminate]. injection H as <- _. cbn [dr_attrs].
  unfold p_attrs0 in E3. apply (list16_forall _ _ _ _ _ (fun s0 a0 r0 H0 => rec_kinds impl dec c s0 a0 r0 H0) E3).
Qed.

Ltac open1 H EqB Hb :=
  unfold p_attr in H; destruct (attr_with_inv _ _ _ _ _ _ H) as (?i & ?nb & ?len & ?s1 & ?s2 & _ & _ & _ & Hb);
  match type of Hb with match ?body with _ => _ end => destruct body as [q|] eqn:EqB end.
Ltac branches EqB Hb :=
  unfold attr_body, leaf_body in EqB; cbn [andb] in EqB; chain EqB; try discriminate; try (exfalso; match goal with E : _ && false = true |- _ => rewrite andb_false_r in E; discriminate E end); (let E0 := fresh "E0" in injection EqB as E0; match goal with q0 : parser dattr |- _ => subst q0 end);
  blockeq Hb.

Lemma field_kinds impl dec c s a r : p_attr AtField c s = Some (a, r) -> fside6 impl dec a = true -> fattrb6 impl dec a = true.
Proof.
  intros H Hs. open1 H EqB Hb.
  - branches EqB Hb; first [exact Hs|reflexivity].
  - destruct Hb as (b & _ & ->). exact Hs.
Qed.
Lemma method_kinds impl dec c s a r : p_attr AtMethod c s = Some (a, r) -> mside6 impl dec a = true -> mattrb6 impl dec a = true.
Proof.
  intros H Hs. open1 H EqB Hb.
  - branches EqB Hb; first [exact Hs|reflexivity|idtac].
    cbn [mside6] in Hs. cbn [mattrb6]. eapply code_kinds_all; eassumption.
  - destruct Hb as (b & _ & ->). exact Hs.
Qed.
Lemma class_kinds impl dec c s a r : p_attr AtClass c s = Some (a, r) -> cside6 impl dec a = true -> cattrb6 impl dec a = true.
Proof.
  intros H Hs. open1 H EqB Hb.
  - branches EqB Hb; first [exact Hs|reflexivity|idtac].
    cbn [cside6] in Hs. cbn [cattrb6]. revert Hs. apply forallb_imp.
    match goal with E : p_list16 (p_record_component c) _ = Some _ |- _ =>
      apply (list16_forall _ _ _ _ _ (fun s0 a0 r0 H0 => reccomp_kinds impl dec c s0 a0 r0 H0) E) end.
  - destruct Hb as (b & _ & ->). exact Hs.
Qed.

Lemma member_kinds (f g : dattr -> bool) l c s m r :
  (forall s a r, p_attr l c s = Some (a, r) -> f a = true -> g a = true) ->
  p_member l c s = Some (m, r) -> forallb f (dm_attrs m) = true -> forallb g (dm_attrs m) = true.
Proof.
  intros Hk H. apply forallb_imp. unfold p_member, pbind, pret in H.
  destruct (p_u16 s) as [[a s1]|]; [|discriminate]. destruct (p_idx get_utf8 c s1) as [[n s2]|]; [|discriminate].
  destruct (p_idx get_utf8 c s2) as [[d s3]|]; [|discriminate]. destruct (p_attrs l c s3) as [[at_ s4]|] eqn:E; [|discriminate].
  injection H as <- _. cbn [dm_attrs]. unfold p_attrs in E. exact (list16_forall _ _ _ _ _ Hk E).
Qed.

(* THE KIND PART HOLDS: for the decoded class of a written tree, the side conditions are the whole fragment condition *)
Theorem written_kinds impl dec t bs aux d :
  cclass_ok t = true -> write_class_aux t = WOK (bs, aux) ->
  RA.header_ok FB.C01.Tables.magic (Z.to_N (k_minor t)) (Z.to_N (k_major t)) = true ->
  pool_utf8_ok dec (a_pool aux) = true ->
  facts_of t aux = Some d -> dclass_side6 impl dec d = true -> dclass_frag6 impl dec d = true.
Proof.
  intros Hok Hw Hgate Hdec Hd Hs.
  destruct (class_read_base impl dec t bs aux Hok Hw Hgate Hdec) as (cs & fields & mbytes & abytes & fs & ms & ds & Ecs & Hag & Hhead & Hfs & Hms & Df & Dm & Da & (d' & Hd' & F1 & F2 & F3)).
  rewrite Hd in Hd'. injection Hd' as <-. subst fs ms ds.
  pose proof (Df _ _ [] (pool_ext_refl _) Hag) as Pf. pose proof (Dm _ _ [] (pool_ext_refl _) Hag) as Pm.
  pose proof (Da _ _ [] (pool_ext_refl _) Hag) as Pa.
  unfold dclass_side6 in Hs. apply andb_prop in Hs. destruct Hs as [Hs Hm]. apply andb_prop in Hs. destruct Hs as [Hc Hf].
  unfold dclass_frag6. apply andb_true_intro. split; [apply andb_true_intro; split|].
  - revert Hc. apply forallb_imp. exact (list16_forall _ _ _ _ _ (fun s a r H0 => class_kinds impl dec _ s a r H0) Pa).
  - revert Hf. apply forallb_imp.
    exact (list16_forall _ _ _ _ _ (fun s m r H0 => member_kinds _ _ AtField _ s m r (fun s0 a r0 => field_kinds impl dec _ s0 a r0) H0) Pf).
  - revert Hm. apply forallb_imp.
    exact (list16_forall _ _ _ _ _ (fun s m r H0 => member_kinds _ _ AtMethod _ s m r (fun s0 a r0 => method_kinds impl dec _ s0 a r0) H0) Pm).
Qed.

(* THE WHOLE FILE, for every written cclass_ok tree, under side conditions only *)
Theorem class_file_read_all impl dec t bs aux d :
  cclass_ok t = true -> write_class_aux t = WOK (bs, aux) ->
  RA.header_ok FB.C01.Tables.magic (Z.to_N (k_minor t)) (Z.to_N (k_major t)) = true ->
  pool_utf8_ok dec (a_pool aux) = true -> names_ok6 dec = true ->
  facts_of t aux = Some d -> dclass_side6 impl dec d = true ->
  exists cs cattrs mvals,
    rev (p_inner (a_pool aux)) = map mk cs /\ agrees (a_pool aux) (cslots cs 1) /\
    Forall2 (crel6 dec cs) (d_attrs d) cattrs /\
    Forall2 (member_rel dec 2%N (mrel6 dec)) (d_methods d) mvals /\
    R.read_class impl dec bs
    = R.build_class impl (BP.rpool dec cs) (Z.to_N (k_minor t)) (Z.to_N (k_major t)) (head_val dec t)
        (RF.VList cattrs)
        (RF.VList (map (member_val dec 1%N (fattr_val6 dec)) (d_fields d)))
        (RF.VList mvals).
Proof.
  intros Hok Hw Hgate Hdec Hn Hd Hs.
  exact (class_file_read6 impl dec t bs aux d Hok Hw Hgate Hdec Hn Hd (written_kinds impl dec t bs aux d Hok Hw Hgate Hdec Hd Hs)).
Qed.

(* non-vacuity: the side conditions hold for the decoded class of the example of BridgeFile6 *)
Theorem side_example : exists bs aux d,
  write_class_aux ex_file6 = WOK (bs, aux) /\ facts_of ex_file6 aux = Some d /\ dclass_side6 true FB.C01.Mutf8.mutf8_dec d = true.
Proof.
  destruct (write_class_aux ex_file6) as [[bs aux]|?c|] eqn:E; [|vm_compute in E; discriminate|vm_compute in E; discriminate].
  pose proof E as E0. vm_compute in E0. injection E0 as Ebs Eaux.
  destruct (facts_of ex_file6 aux) as [d|] eqn:Hd; [|rewrite <- Eaux in Hd; vm_compute in Hd; discriminate].
  exists bs, aux, d. split; [reflexivity|]. split; [exact Hd|].
  rewrite <- Eaux in Hd. vm_compute in Hd. injection Hd as <-. vm_compute. reflexivity.
Qed.
