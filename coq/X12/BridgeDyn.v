(* X12 — bridge, part 10: LOADABLE CONSTANTS, Dynamic included, through the BootstrapMethods table.
   Writer side: C02's [ldenotes p tbl l x] (TheoryB2: what the index x that put_loadable returned designates in
   the pool p and the bootstrap table tbl, recursively through the arguments of dynamic constants —
   C02_bootstrap_resolves).  Reader side: C01's [get_loadable fuel P B i] (Pool.v: lazy resolution with the
   bootstrap table B of (handle index, argument indices), nesting bounded by fuel).
   If the reader's table B agrees with the writer's table ([table_agrees]: entry by entry the same argument
   indices, and a handle index at which C02's decoder finds the entry's handle — what the written
   BootstrapMethods attribute holds), then for every loadable whose nesting is below the fuel:
       get_loadable fuel (rpool dec cs) B x = Ok (lval dec l)
   the tree's constant with every string decoded — name and descriptor from the entry's own NameAndType, handle
   and arguments from the bootstrap method, recursively. *)
From Coq Require Import List NArith ZArith Bool Lia.
From FB Require Import C02.Model C02.Encode C02.Theory2 C02.Theory8 C02.Frames C02.Class C02.Decode C02.Facts
  C02.TheoryC1 C02.TheoryC2 C02.TheoryC6 C02.TheoryC10 C02.TheoryB1 C02.TheoryB2.
From FB Require C01.Bytes C01.Pool C01.ClassFile.
From FB Require X12.BridgePool.
From FB Require Import X12.BridgeClass.
Import ListNotations.
Local Open Scope Z_scope.

Fixpoint lval (dec : RB.bytes -> res str) (l : loadable) : RP.cval :=
  match l with
  | LInt v => RP.VInt v | LFloat b => RP.VFloat (Z.to_N b) | LLong v => RP.VLong v | LDouble b => RP.VDouble (Z.to_N b)
  | LClass n => RP.VClass (BP.sdec dec n) | LString s => RP.VString (BP.sdec dec s)
  | LHandle h => BP.handle_val dec h | LMethodType d => RP.VMethodType (BP.sdec dec d)
  | LDynamic n d h args => RP.VDynamic (BP.sdec dec n) (BP.sdec dec d) (BP.handle_val dec h) (map (lval dec) args)
  end.
Fixpoint ldepth (l : loadable) : nat :=
  match l with LDynamic _ _ _ args => S (fold_right Nat.max 0%nat (map ldepth args)) | _ => 0%nat end.

Definition table_agrees (cs : list centry) (tbl : list bsment) (B : RP.bsms) : Prop :=
  forall j h idxs, nth_error tbl j = Some (h, idxs) ->
    exists hi, 0 <= hi /\ nth_error B j = Some (Z.to_N hi, map Z.to_N idxs) /\ get_handle (cslots cs 1) hi = Some h.

Lemma named_inv (sel : centry -> option Z) c i s : get_named sel c i = Some s ->
  exists e n, cp_get c i = Some e /\ sel e = Some n /\ get_utf8 c n = Some s.
Proof.
  unfold get_named. destruct (cp_get c i) as [e|]; [|discriminate]. destruct (sel e) as [n|] eqn:E; [|discriminate].
  intros H. exists e, n. repeat split; assumption.
Qed.

Theorem loadable_read dec cs p tbl B : agrees p (cslots cs 1) -> table_agrees cs tbl B ->
  forall l x fuel, ldenotes p tbl l x -> (ldepth l < fuel)%nat ->
  RP.get_loadable fuel (BP.rpool dec cs) B (Z.to_N x) = Ok (lval dec l).
Proof.
  intros Hag HT. induction l as [v|v|v|v|n|s|h|d|n d h args IH] using loadable_ind2; intros x fuel HD Hf;
    (destruct fuel as [|f]; [lia|]); cbn [RP.get_loadable lval].
  - cbn [ldenotes loadable_refers] in HD. rewrite (BP.pget_rpool dec cs x _ (resolves_get _ _ _ _ _ HD (pool_ext_refl _) Hag)). reflexivity.
  - cbn [ldenotes loadable_refers] in HD. rewrite (BP.pget_rpool dec cs x _ (resolves_get _ _ _ _ _ HD (pool_ext_refl _) Hag)). reflexivity.
  - cbn [ldenotes loadable_refers] in HD. rewrite (BP.pget_rpool dec cs x _ (resolves_get _ _ _ _ _ HD (pool_ext_refl _) Hag)). reflexivity.
  - cbn [ldenotes loadable_refers] in HD. rewrite (BP.pget_rpool dec cs x _ (resolves_get _ _ _ _ _ HD (pool_ext_refl _) Hag)). reflexivity.
  - cbn [ldenotes loadable_refers] in HD. pose proof (refers_get _ _ _ _ _ _ HD (pool_ext_refl _) Hag) as G.
    destruct (named_inv _ _ _ _ G) as (e & k & E1 & E2 & E3). destruct e; try discriminate. injection E2 as <-.
    rewrite (BP.pget_rpool dec cs x _ E1). cbn [BP.trd BP.tr_centry Base.Str.bind]. rewrite (BP.ag_utf8 dec cs _ _ E3). reflexivity.
  - cbn [ldenotes loadable_refers] in HD. pose proof (refers_get _ _ _ _ _ _ HD (pool_ext_refl _) Hag) as G.
    destruct (named_inv _ _ _ _ G) as (e & k & E1 & E2 & E3). destruct e; try discriminate. injection E2 as <-.
    rewrite (BP.pget_rpool dec cs x _ E1). cbn [BP.trd BP.tr_centry Base.Str.bind]. rewrite (BP.ag_utf8 dec cs _ _ E3). reflexivity.
  - cbn [ldenotes loadable_refers] in HD. pose proof (refers_get _ _ _ _ _ _ HD (pool_ext_refl _) Hag) as G.
    pose proof (BP.ag_handle dec cs x h G) as A. unfold RP.get_method_handle in A.
    unfold get_handle in G. destruct (cp_get (cslots cs 1) x) as [[]|] eqn:E1; try discriminate.
    rewrite (BP.pget_rpool dec cs x _ E1) in A |- *. cbn [BP.trd BP.tr_centry Base.Str.bind] in A |- *. exact A.
  - cbn [ldenotes loadable_refers] in HD. pose proof (refers_get _ _ _ _ _ _ HD (pool_ext_refl _) Hag) as G.
    destruct (named_inv _ _ _ _ G) as (e & k & E1 & E2 & E3). destruct e; try discriminate. injection E2 as <-.
    rewrite (BP.pget_rpool dec cs x _ E1). cbn [BP.trd BP.tr_centry Base.Str.bind]. rewrite (BP.ag_utf8 dec cs _ _ E3). reflexivity.
  - apply ldenotes_dyn in HD. destruct HD as (b & nt & idxs & R1 & R2 & Hb & Hn & HF).
    rewrite (BP.pget_rpool dec cs x _ (resolves_get _ _ _ _ _ R1 (pool_ext_refl _) Hag)). cbn [BP.trd BP.tr_centry Base.Str.bind].
    cbn [ldepth] in Hf. destruct f as [|f']; [lia|].
    rewrite (BP.ag_nat dec cs _ _ _ (refers_get _ _ _ _ _ _ R2 (pool_ext_refl _) Hag)). cbn [Base.Str.bind].
    destruct (HT _ _ _ Hn) as (hi & Hhi & HB & HG).
    replace (N.to_nat (Z.to_N b)) with (Z.to_nat b) by lia. rewrite HB.
    rewrite (BP.ag_handle dec cs hi h HG). cbn [Base.Str.bind].
    assert (M : RP.map_res (RP.get_loadable (S f') (BP.rpool dec cs) B) (map Z.to_N idxs) = Ok (map (lval dec) args)).
    { assert (Hd : Forall (fun a => (ldepth a < S f')%nat) args).
      { apply Forall_forall. intros a Ha. assert (ldepth a <= fold_right Nat.max 0%nat (map ldepth args))%nat; [|lia].
        clear -Ha. induction args as [|y args IHa]; [destruct Ha|]. cbn [map fold_right]. destruct Ha as [->|Ha]; [lia|]. specialize (IHa Ha). lia. }
      clear -IH HF Hd. induction HF as [|a i args idxs Hai _ IHF]; [reflexivity|].
      inversion IH as [|? ? IHa IHr]; subst. inversion Hd as [|? ? Hda Hdr]; subst.
      cbn [map RP.map_res]. rewrite (IHa i (S f') Hai Hda). cbn [Base.Str.bind]. rewrite (IHF IHr Hdr). reflexivity. }
    rewrite M. reflexivity.
Qed.

(* invokedynamic: the call site's own NameAndType, the bootstrap method's handle and arguments *)
Theorem indy_read dec cs p tbl B x b nt n d h idxs args :
  agrees p (cslots cs 1) -> table_agrees cs tbl B ->
  resolves p x (CInvokeDynamic b nt) -> refers get_nat (n, d) p nt -> 0 <= b ->
  nth_error tbl (Z.to_nat b) = Some (h, idxs) -> Forall2 (ldenotes p tbl) args idxs ->
  Forall (fun a => (ldepth a < pred RP.nesting_fuel)%nat) args ->
  RP.get_invoke_dynamic (BP.rpool dec cs) B (Z.to_N x)
  = Ok (RP.VIndy (BP.sdec dec n) (BP.sdec dec d) (BP.handle_val dec h) (map (lval dec) args)).
Proof.
  intros Hag HT R1 R2 Hb Hn HF Hd. unfold RP.get_invoke_dynamic.
  rewrite (BP.pget_rpool dec cs x _ (resolves_get _ _ _ _ _ R1 (pool_ext_refl _) Hag)). cbn [BP.trd BP.tr_centry Base.Str.bind].
  rewrite (BP.ag_nat dec cs _ _ _ (refers_get _ _ _ _ _ _ R2 (pool_ext_refl _) Hag)). cbn [Base.Str.bind].
  destruct (HT _ _ _ Hn) as (hi & Hhi & HB & HG).
  replace (N.to_nat (Z.to_N b)) with (Z.to_nat b) by lia. rewrite HB.
  rewrite (BP.ag_handle dec cs hi h HG). cbn [Base.Str.bind].
  assert (M : RP.map_res (RP.get_loadable (pred RP.nesting_fuel) (BP.rpool dec cs) B) (map Z.to_N idxs) = Ok (map (lval dec) args)).
  { clear -HF Hd Hag HT. induction HF as [|a i args idxs Hai _ IHF]; [reflexivity|].
    inversion Hd as [|? ? Hda Hdr]; subst.
    cbn [map RP.map_res]. rewrite (loadable_read dec cs p tbl B Hag HT a i _ Hai Hda). cbn [Base.Str.bind]. rewrite (IHF Hdr). reflexivity. }
  rewrite M. reflexivity.
Qed.

(* the hypothesis table_agrees is what the written BootstrapMethods attribute provides: wherever C02's decoder reads
   the table tbl from the attribute's payload (handle index resolved with get_handle, argument indices as
   written), the table of the indices standing in the payload agrees with it *)
Definition p_bsm (c : cpool) : parser (handle * list Z) := h <~ p_idx get_handle c ;; a <~ p_list16 p_u16 ;; pret (h, a).
Lemma table_rep cs : forall n s tbl r, p_rep n (p_bsm (cslots cs 1)) s = Some (tbl, r) ->
  exists B, length B = length tbl /\ table_agrees cs tbl B.
Proof.
  induction n as [|n IH]; intros s tbl r H; cbn [p_rep] in H.
  - unfold pret in H. injection H as <- <-. exists []. split; [reflexivity|]. intros j h idxs Hj. destruct j; discriminate.
  - unfold pbind in H. destruct (p_bsm (cslots cs 1) s) as [[e s1]|] eqn:E; [|discriminate].
    destruct (p_rep n (p_bsm (cslots cs 1)) s1) as [[tbl' r']|] eqn:E2; [|discriminate]. unfold pret in H. injection H as <- <-.
    destruct (IH _ _ _ E2) as (B & HL & HB).
    unfold p_bsm, p_idx, pbind, plift in E. destruct (p_u16 s) as [[hi s0]|] eqn:E0; [|discriminate].
    destruct (get_handle (cslots cs 1) hi) as [h|] eqn:G; [|discriminate].
    destruct (p_list16 p_u16 s0) as [[a s0']|]; [|discriminate]. unfold pret in E. injection E as <- <-.
    assert (Hhi : 0 <= hi).
    { unfold p_u16, rd_u16 in E0. destruct s as [|x [|y s']]; try discriminate. injection E0 as <- _. lia. }
    exists ((Z.to_N hi, map Z.to_N a) :: B). split; [cbn [length]; rewrite HL; reflexivity|].
    intros j h' idxs Hj. destruct j as [|j]; cbn [nth_error] in *.
    + injection Hj as <- <-. exists hi. repeat split; [exact Hhi|exact G].
    + exact (HB j h' idxs Hj).
Qed.
Theorem table_from_decoder cs s tbl r : p_list16 (p_bsm (cslots cs 1)) s = Some (tbl, r) ->
  exists B, length B = length tbl /\ table_agrees cs tbl B.
Proof.
  unfold p_list16, pbind. destruct (p_u16 s) as [[n s1]|]; [|discriminate]. apply table_rep.
Qed.
