(* X12 — bridge, part 16: THE WHOLE FILE with StackMapTable inside ([dclass_frag3] = dclass_frag2 + StackMapTable among
   the attributes of a Code attribute: the shape of javac output for Java 7+).  Because a frame's value is
   determined only up to its frame_type encoding (BridgeFrames.smt_rel), the method values are now related to the
   facts ([member_rel] / [mrel] / [code_rel] / [inner_rel]) instead of being given as a function: everything is
   the explicit value of BridgeFile2 except a StackMapTable attribute, whose frames have the decoder's offsets
   under C01's own frame_offsets rule and the decoder's contents under C01's own frame_norm. *)
From Coq Require Import List NArith ZArith Bool Lia.
From FB Require Import C02.Model C02.Encode C02.Theory2 C02.Theory8 C02.Frames C02.Class C02.Decode C02.Facts
  C02.TheoryC1 C02.TheoryC2 C02.TheoryC3 C02.TheoryC8.
From FB Require C01.Bytes C01.Pool C01.Attr C01.Tables C01.Fmt C01.Formats C01.ClassFile C01.Mutf8.
From FB Require X12.BridgePool.
From FB Require Import X12.BridgeClass X12.BridgeMembers X12.BridgeCode X12.BridgeFmt X12.BridgeDyn X12.BridgeFile X12.BridgeFmt2
  X12.BridgeFile2 X12.BridgeFrames.
Import ListNotations.
Local Open Scope Z_scope.

Definition names_ok3 (dec : RB.bytes -> res str) : bool :=
  names_ok2 dec && str_eqb (BP.sdec dec s_StackMapTable) RFo.a_StackMapTable.

(* ---- inside Code ---- *)
Definition innerb3 (a : dattr0) : bool := match a with AStackMapTable _ => true | _ => innerb a end.
Definition inner_rel (dec : RB.bytes -> res str) (a : dattr0) (v : RF.val) : Prop :=
  match a with AStackMapTable l => smt_rel dec l v | _ => v = inner_val2 dec a end.
Lemma p2rR_inner3 impl dec cs : names_ok3 dec = true -> forall s a r t,
  p_attr0 AtCode (cslots cs 1) s = Some (a, r) -> innerb3 a = true ->
  exists v, RF.rd_fmt impl dec (R.acc (BP.rpool dec cs)) (RF.FAttr R.code_sel) (s ++ t) = Ok (v, r ++ t) /\ inner_rel dec a v.
Proof.
  intros Hn s a r t H Ha. unfold names_ok3 in Hn. apply andb_prop in Hn. destruct Hn as [Hn2 Hs]. apply str_eqb_eq in Hs.
  destruct a; try discriminate; cbn [inner_rel].
  - exact (attr_StackMapTable impl dec cs s l r t Hs H).
  - eexists. split; [exact (p2rq_inner2 impl dec cs Hn2 s _ r t H eq_refl)|reflexivity].
  - eexists. split; [exact (p2rq_inner2 impl dec cs Hn2 s _ r t H eq_refl)|reflexivity].
  - eexists. split; [exact (p2rq_inner2 impl dec cs Hn2 s _ r t H eq_refl)|reflexivity].
Qed.

Definition code_rel (dec : RB.bytes -> res str) (k : dcode) (v : RF.val) : Prop :=
  exists ivs, v = RF.VSeq [RF.VN (Z.to_N (dc_max_stack k)); RF.VN (Z.to_N (dc_max_locals k)); RF.VB (dc_code k);
                           RF.VList (map (exc_val dec) (dc_exceptions k)); RF.VList ivs] /\
              Forall2 (inner_rel dec) (dc_attrs k) ivs.
Lemma p2rR_code3 impl dec cs : names_ok3 dec = true -> forall s k r t,
  p_code (cslots cs 1) s = Some (k, r) -> Forall (fun a => innerb3 a = true) (dc_attrs k) ->
  exists v, RF.rd_fmt impl dec (R.acc (BP.rpool dec cs)) R.code_fmt (s ++ t) = Ok (v, r ++ t) /\ code_rel dec k v.
Proof.
  intros Hn s k r t H HQ. unfold p_code, pbind in H.
  destruct (p_u16 s) as [[ms s1]|] eqn:E1; [|discriminate]. destruct (p_u16 s1) as [[ml s2]|] eqn:E2; [|discriminate].
  destruct (p_u32 s2) as [[len s3]|] eqn:E3; [|discriminate]. destruct ((len <? 1) || (65535 <? len)); [discriminate|].
  destruct (p_take (Z.to_nat len) s3) as [[code s4]|] eqn:E4; [|discriminate].
  change (fun bs : bytes => match p_u16 bs with Some (a, r0) => _ | None => None end) with (p_exc (cslots cs 1)) in H.
  destruct (p_list16 (p_exc (cslots cs 1)) s4) as [[ex s5]|] eqn:E5; [|discriminate].
  destruct (p_attrs0 AtCode (cslots cs 1) s5) as [[at_ s6]|] eqn:E6; [|discriminate]. unfold pret in H. injection H as <- <-.
  cbn [dc_attrs] in HQ. unfold p_attrs0 in E6.
  destruct (p2rR_vec16 _ (inner_rel dec) impl dec _ _ _ (p2rR_inner3 impl dec cs Hn) _ _ _ t E6 HQ) as (ivs & Hivs & Rivs).
  eexists. split; [|exists ivs; split; [reflexivity|exact Rivs]].
  unfold R.code_fmt. cbn [dc_max_stack dc_max_locals dc_code dc_exceptions dc_attrs]. rewrite exc_table_fmt, rd_seq5.
  rewrite (p2r_u16 impl dec _ _ _ _ t E1). cbn [Base.Str.bind]. rewrite (p2r_u16 impl dec _ _ _ _ t E2). cbn [Base.Str.bind].
  destruct (p_take_inv _ _ _ _ E4) as [-> Hc]. destruct (p_u32_app _ _ _ t E3) as [R3 Hl].
  rewrite <- app_assoc in R3.
  rewrite (rd_bytes32 impl dec _ _ _ _ code (s4 ++ t) R3) by (apply take_res_app; lia). cbn [Base.Str.bind].
  rewrite (p2r_vec16 impl dec _ _ _ _ (p2r_exc impl dec cs) _ _ _ t E5). cbn [Base.Str.bind].
  rewrite Hivs. reflexivity.
Qed.

(* ---- method attributes ---- *)
Definition mattrb3 (a : dattr) : bool :=
  match a with ACode k => forallb innerb3 (dc_attrs k) | AExceptions _ => true | ALeaf a0 => leaf3 a0 | _ => false end.
Definition mrel (dec : RB.bytes -> res str) (a : dattr) (v : RF.val) : Prop :=
  match a with ACode k => exists cv, v = RF.VAttr RFo.a_Code cv /\ code_rel dec k cv | _ => v = mattr_val2 dec a end.

Lemma attr_Code3 impl dec cs s k r t : names_ok3 dec = true -> Forall (fun a => innerb3 a = true) (dc_attrs k) ->
  p_attr AtMethod (cslots cs 1) s = Some (ACode k, r) ->
  exists v, RF.rd_fmt impl dec (R.acc (BP.rpool dec cs)) (RF.FAttr R.method_sel) (s ++ t) = Ok (v, r ++ t) /\ mrel dec (ACode k) v.
Proof.
  intros Hn Hk H. pose proof Hn as Hn0. unfold names_ok3 in Hn0. apply andb_prop in Hn0. destruct Hn0 as [Hn2 _]. unfold p_attr in H.
  destruct (attr_with_inv _ _ _ _ _ _ H) as (i & nb & len & s1 & s2 & E1 & G & E2 & Hb).
  destruct (attr_body AtMethod (cslots cs 1) nb) as [q|] eqn:Eq; [|destruct Hb as (b & _ & Hx); discriminate].
  pose proof (name_Code _ _ _ _ _ _ _ Eq Hb) as ->.
  assert (Eq' : attr_body AtMethod (cslots cs 1) s_Code = Some (x <~ p_code (cslots cs 1) ;; pret (ACode x))) by reflexivity.
  rewrite Eq' in Eq. injection Eq as <-.
  destruct (block_inv _ _ _ _ _ Hb) as (b & -> & Hlen & Hpb).
  unfold pbind, pret in Hpb. destruct (p_code (cslots cs 1) b) as [[y rb]|] eqn:Ep; [|discriminate]. injection Hpb as -> ->.
  destruct (p2rR_code3 impl dec cs Hn b k [] (r ++ t) Ep Hk) as (cv & Hcv & Rcv). cbn [app] in Hcv.
  exists (RF.VAttr RFo.a_Code cv). split; [|exists cv; split; [reflexivity|exact Rcv]].
  cbn [RF.rd_fmt]. destruct (p_u16_app s i s1 t E1) as [-> _]. cbn [Base.Str.bind].
  rewrite (acc8 dec cs i _ G). cbn [Base.Str.bind]. rewrite (names_in dec s_Code _ Hn2) by inpairs.
  destruct (p_u32_app s1 len (b ++ r) t E2) as [-> _]. cbn [Base.Str.bind].
  change (R.method_sel RFo.a_Code (Z.to_N len)) with R.code_fmt.
  rewrite <- app_assoc. fold (RF.rd_fmt impl dec (R.acc (BP.rpool dec cs)) R.code_fmt (b ++ r ++ t)). rewrite Hcv. reflexivity.
Qed.

Lemma p2rR_method3 impl dec cs : names_ok3 dec = true -> forall s a r t,
  p_attr AtMethod (cslots cs 1) s = Some (a, r) -> mattrb3 a = true ->
  exists v, RF.rd_fmt impl dec (R.acc (BP.rpool dec cs)) (RF.FAttr R.method_sel) (s ++ t) = Ok (v, r ++ t) /\ mrel dec a v.
Proof.
  intros Hn s a r t H Ha. pose proof Hn as Hn0. unfold names_ok3 in Hn0. apply andb_prop in Hn0. destruct Hn0 as [Hn2 _].
  destruct a; try discriminate.
  - eexists. split; [exact (attr_leaf3 impl dec cs AtMethod R.method_sel s a r t Hn2 (or_intror (or_intror eq_refl)) sel_ok_method Ha H)|reflexivity].
  - cbn [mattrb3] in Ha. apply (attr_Code3 impl dec cs s c r t Hn); [|exact H].
    apply Forall_forall. rewrite forallb_forall in Ha. exact Ha.
  - eexists. split; [exact (attr_Exceptions impl dec cs s l r t Hn2 H)|reflexivity].
Qed.

(* ---- members, relationally ---- *)
Definition member_rel (dec : RB.bytes -> res str) (k : N) (arel : dattr -> RF.val -> Prop) (m : dmember) (v : RF.val) : Prop :=
  exists avs, v = RF.VSeq [RF.VN (RA.access_back k (Z.to_N (dm_access m))); RF.VC (RP.VUtf8 (BP.sdec dec (dm_name m)));
                           RF.VC (RP.VUtf8 (BP.sdec dec (dm_desc m))); RF.VList avs] /\
              Forall2 arel (dm_attrs m) avs.
Lemma p2rR_member (Qa : dattr -> Prop) (arel : dattr -> RF.val -> Prop) impl dec cs l k sel :
  (forall s a r t, p_attr l (cslots cs 1) s = Some (a, r) -> Qa a ->
     exists v, RF.rd_fmt impl dec (R.acc (BP.rpool dec cs)) (RF.FAttr sel) (s ++ t) = Ok (v, r ++ t) /\ arel a v) ->
  forall s m r t, p_member l (cslots cs 1) s = Some (m, r) -> Forall Qa (dm_attrs m) ->
  exists v, RF.rd_fmt impl dec (R.acc (BP.rpool dec cs)) (RF.FSeq [RF.FFlags k; RF.FIdx 8%N; RF.FIdx 8%N; RF.FVec16 (RF.FAttr sel)]) (s ++ t)
            = Ok (v, r ++ t) /\ member_rel dec k arel m v.
Proof.
  intros Ha s m r t H HQ. unfold p_member, pbind in H.
  destruct (p_u16 s) as [[a s1]|] eqn:E1; [|discriminate].
  destruct (p_idx get_utf8 (cslots cs 1) s1) as [[n s2]|] eqn:E2; [|discriminate].
  destruct (p_idx get_utf8 (cslots cs 1) s2) as [[d s3]|] eqn:E3; [|discriminate].
  destruct (p_attrs l (cslots cs 1) s3) as [[at_ s4]|] eqn:E4; [|discriminate]. unfold pret in H. injection H as <- <-.
  cbn [dm_attrs] in HQ. unfold p_attrs in E4.
  destruct (p2rR_vec16 Qa arel impl dec _ _ _ Ha _ _ _ t E4 HQ) as (avs & Havs & Ravs).
  eexists. split; [|exists avs; split; [reflexivity|exact Ravs]].
  cbn [dm_access dm_name dm_desc].
  rewrite rd_seq4. rewrite (p2r_flags impl dec _ k _ _ _ t E1). cbn [Base.Str.bind].
  rewrite (p2r_utf8 impl dec cs _ _ _ t E2). cbn [Base.Str.bind]. rewrite (p2r_utf8 impl dec cs _ _ _ t E3). cbn [Base.Str.bind].
  rewrite Havs. reflexivity.
Qed.

(* ---------------------------------------------------------------------------------------------- *)
Definition dclass_frag3 (d : dclass) : bool :=
  forallb cattrb (d_attrs d) && forallb (fun m => forallb fattrb (dm_attrs m)) (d_fields d)
  && forallb (fun m => forallb mattrb3 (dm_attrs m)) (d_methods d).
Definition in_fragment3 (t : cclass) (aux : class_aux) : bool :=
  match facts_of t aux with Some d => dclass_frag3 d | None => false end.

Theorem class_file_read3 impl dec t bs aux d :
  cclass_ok t = true -> write_class_aux t = WOK (bs, aux) ->
  RA.header_ok FB.C01.Tables.magic (Z.to_N (k_minor t)) (Z.to_N (k_major t)) = true ->
  pool_utf8_ok dec (a_pool aux) = true -> names_ok3 dec = true ->
  facts_of t aux = Some d -> dclass_frag3 d = true ->
  exists cs cattrs mvals,
    rev (p_inner (a_pool aux)) = map mk cs /\ agrees (a_pool aux) (cslots cs 1) /\
    Forall2 (crel dec cs) (d_attrs d) cattrs /\
    Forall2 (member_rel dec 2%N (mrel dec)) (d_methods d) mvals /\
    R.read_class impl dec bs
    = R.build_class impl (BP.rpool dec cs) (Z.to_N (k_minor t)) (Z.to_N (k_major t)) (head_val dec t)
        (RF.VList cattrs)
        (RF.VList (map (member_val dec 1%N (fattr_val2 dec)) (d_fields d)))
        (RF.VList mvals).
Proof.
  intros Hok Hw Hgate Hdec Hn Hd Hfrag.
  pose proof Hn as Hn0. unfold names_ok3 in Hn0. apply andb_prop in Hn0. destruct Hn0 as [Hn2 _].
  destruct (class_read_base impl dec t bs aux Hok Hw Hgate Hdec) as (cs & fields & mbytes & abytes & fs & ms & ds & Ecs & Hag & Hhead & Hfs & Hms & Df & Dm & Da & (d' & Hd' & F1 & F2 & F3)).
  rewrite Hd in Hd'. injection Hd' as <-. subst fs ms ds.
  unfold dclass_frag3 in Hfrag. apply andb_prop in Hfrag. destruct Hfrag as [Hfrag Hm]. apply andb_prop in Hfrag. destruct Hfrag as [Hc Hf].
  pose proof (Df _ _ (mbytes ++ abytes) (pool_ext_refl _) Hag) as Pf.
  pose proof (Dm _ _ abytes (pool_ext_refl _) Hag) as Pm.
  pose proof (Da _ _ [] (pool_ext_refl _) Hag) as Pa. rewrite app_nil_r in Pa.
  destruct (p2rR_vec16 (fun a => cattrb a = true) (crel dec cs) impl dec _ _ _ (p2rR_class2 impl dec cs Hn2) _ _ _ [] Pa
              (forallb_Forall _ _ _ (fun x H => H) Hc)) as (cattrs & Ra & Rc).
  rewrite app_nil_r in Ra.
  assert (HmQ : Forall (fun m => Forall (fun a => mattrb3 a = true) (dm_attrs m)) (d_methods d)).
  { apply (forallb_Forall (fun m => forallb mattrb3 (dm_attrs m))); [|exact Hm]. intros m Hm0. exact (forallb_Forall _ _ _ (fun x H => H) Hm0). }
  destruct (p2rR_vec16 _ (member_rel dec 2%N (mrel dec)) impl dec _ _ _
              (p2rR_member _ (mrel dec) impl dec cs AtMethod 2%N R.method_sel (p2rR_method3 impl dec cs Hn)) _ _ _ [] Pm HmQ) as (mvals & Rm & Rmr).
  rewrite !app_nil_r in Rm.
  exists cs, cattrs, mvals. split; [exact Ecs|]. split; [exact Hag|]. split; [exact Rc|]. split; [exact Rmr|].
  rewrite (read_class_head impl dec bs _ _ _ _ _ Hhead).
  pose proof (members_read impl dec cs AtField 1%N _ _ _ Pf) as Sf. apply rd_headers_skip in Sf.
  pose proof (members_read impl dec cs AtMethod 2%N _ _ _ Pm) as Sm. apply rd_headers_skip in Sm.
  rewrite Sf. cbn [Base.Str.bind]. rewrite Sm. cbn [Base.Str.bind].
  unfold R.class_attrs_fmt. rewrite Ra. cbn [Base.Str.bind].
  assert (Rf : RF.rd_fmt impl dec (R.acc (BP.rpool dec cs)) R.fields_fmt (fields ++ mbytes ++ abytes)
               = Ok (RF.VList (map (member_val dec 1%N (fattr_val2 dec)) (d_fields d)), mbytes ++ abytes)).
  { pose proof (p2rq_vec16 _ impl dec _ _ _ _ (p2rq_member _ impl dec cs AtField 1%N R.field_sel _ (p2rq_field2 impl dec cs Hn2)) _ _ _ [] Pf) as E.
    rewrite !app_nil_r in E. apply E.
    apply (forallb_Forall (fun m => forallb fattrb (dm_attrs m))); [|exact Hf]. intros m Hm0. exact (forallb_Forall _ _ _ (fun x H => H) Hm0). }
  rewrite Rf. cbn [Base.Str.bind]. unfold R.methods_fmt. rewrite Rm. cbn [Base.Str.bind]. reflexivity.
Qed.

(* ---------------------------------------------------------------------------------------------- *)
(* non-vacuity: the class of BridgeFile2 with a second method g()V whose branch targets carry frames:
   append [Long; Double] (tags 4, 3), same, and a full frame [Object A; Integer] / [Uninitialized L1] *)
Definition ex3_code : ccode := {|
  c_max := Some (4, 5);
  c_insns := [ (Some 1%N, None, IRaw [3]%N);
               (None, None, IBr (KCond 153 154) 2%N);
               (None, None, IRaw [0]%N);
               (Some 2%N, Some (CFAppend [CVSimple 4%N; CVSimple 3%N]), IRaw [3]%N);
               (None, None, IBr (KJump 167 200) 3%N);
               (Some 3%N, Some CFSame, IRaw [3]%N);
               (None, None, IBr (KCond 153 154) 4%N);
               (Some 4%N, Some (CFFull [CVObject xb_A; CVSimple 1%N] [CVUninit 1%N]), IRaw [177]%N) ];
  c_last := None; c_exceptions := []; c_lines := Some [(1%N, 20)]; c_locals := None;
  c_tvis := []; c_tinvis := []; c_unknown := [] |}.
Definition ex_file3 : cclass := {|
  k_minor := k_minor ex_file2; k_major := k_major ex_file2; k_access := k_access ex_file2;
  k_name := k_name ex_file2; k_super := k_super ex_file2; k_interfaces := k_interfaces ex_file2;
  k_fields := k_fields ex_file2;
  k_methods := k_methods ex_file2 ++
    [ {| md_access := 9; md_name := [103]%N; md_desc := xb_V; md_deprecated := false; md_synthetic := true;
         md_code := Some ex3_code; md_exceptions := None; md_signature := None; md_annots := no_ann;
         md_default := None; md_parameters := None; md_unknown := [] |} ];
  k_deprecated := k_deprecated ex_file2; k_synthetic := k_synthetic ex_file2; k_inner := k_inner ex_file2;
  k_enclosing := k_enclosing ex_file2; k_signature := k_signature ex_file2; k_source_file := k_source_file ex_file2;
  k_source_debug := k_source_debug ex_file2; k_annots := k_annots ex_file2; k_module := k_module ex_file2;
  k_module_packages := k_module_packages ex_file2; k_module_main := k_module_main ex_file2;
  k_nest_host := k_nest_host ex_file2; k_nest_members := k_nest_members ex_file2; k_permitted := k_permitted ex_file2;
  k_record := k_record ex_file2; k_unknown := k_unknown ex_file2 |}.

Definition desc_check3 (r : res R.class_desc) : bool :=
  match r with
  | Ok cd =>
    match R.cd_methods cd with
    | [m1; m2] =>
      match R.md_code m1, R.md_code m2 with
      | Some k1, Some k2 => (Nat.eqb (length (R.k_insns k1)) 5) && (Nat.eqb (length (R.k_insns k2)) 8) && (Nat.eqb (length (R.k_frames k2)) 3)
      | _, _ => false
      end
    | _ => false
    end
  | Err => false
  end.

Theorem class_file_example3 : exists bs aux d cs cattrs mvals,
  write_class_aux ex_file3 = WOK (bs, aux) /\ cclass_ok ex_file3 = true /\
  facts_of ex_file3 aux = Some d /\ in_fragment3 ex_file3 aux = true /\ in_fragment2 ex_file3 aux = false /\
  Forall2 (crel FB.C01.Mutf8.mutf8_dec cs) (d_attrs d) cattrs /\
  Forall2 (member_rel FB.C01.Mutf8.mutf8_dec 2%N (mrel FB.C01.Mutf8.mutf8_dec)) (d_methods d) mvals /\ length mvals = 2%nat /\
  R.read_class true FB.C01.Mutf8.mutf8_dec bs
  = R.build_class true (BP.rpool FB.C01.Mutf8.mutf8_dec cs) 0%N 61%N (head_val FB.C01.Mutf8.mutf8_dec ex_file3)
      (RF.VList cattrs)
      (RF.VList (map (member_val FB.C01.Mutf8.mutf8_dec 1%N (fattr_val2 FB.C01.Mutf8.mutf8_dec)) (d_fields d)))
      (RF.VList mvals) /\
  desc_check3 (R.read_class true FB.C01.Mutf8.mutf8_dec bs) = true.
Proof.
  destruct (write_class_aux ex_file3) as [[bs aux]|?c|] eqn:E; [|vm_compute in E; discriminate|vm_compute in E; discriminate].
  assert (Hok : cclass_ok ex_file3 = true) by (vm_compute; reflexivity).
  pose proof E as E0. vm_compute in E0. injection E0 as Ebs Eaux.
  assert (Hu : pool_utf8_ok FB.C01.Mutf8.mutf8_dec (a_pool aux) = true) by (rewrite <- Eaux; vm_compute; reflexivity).
  destruct (facts_of ex_file3 aux) as [d|] eqn:Hd; [|rewrite <- Eaux in Hd; vm_compute in Hd; discriminate].
  assert (Hf : dclass_frag3 d = true /\ dclass_frag2 d = false /\ length (d_methods d) = 2%nat).
  { rewrite <- Eaux in Hd. vm_compute in Hd. injection Hd as <-. repeat split; vm_compute; reflexivity. }
  destruct Hf as (Hf & Hf2 & H2).
  destruct (class_file_read3 true FB.C01.Mutf8.mutf8_dec ex_file3 bs aux d Hok E ltac:(vm_compute; reflexivity) Hu ltac:(vm_compute; reflexivity) Hd Hf)
    as (cs & cattrs & mvals & _ & _ & Hrel & Hmrel & H).
  exists bs, aux, d, cs, cattrs, mvals. split; [reflexivity|]. split; [exact Hok|]. split; [exact Hd|].
  split; [unfold in_fragment3; rewrite Hd; exact Hf|]. split; [unfold in_fragment2; rewrite Hd; exact Hf2|].
  split; [exact Hrel|]. split; [exact Hmrel|]. split; [rewrite <- (Forall2_len _ _ _ Hmrel); exact H2|]. split; [exact H|].
  rewrite <- Ebs. vm_compute. reflexivity.
Qed.
