(* X12 — bridge, part 2: THE TRANSLATION COMMUTES WITH THE TWO ENCODERS.
   For every body of the fragment and every list of writer choices [chs] under which C02's general
   encoder produces [w] admissibly, C01's general encoder, run on the translated body under the
   translated choice function, produces the same [w]; and the layout C01's encoder computes for the
   translated body puts every label where C02's layout puts it. *)
From Coq Require Import List NArith ZArith Bool Lia.
From FB Require Import Base.Str C01.Model C01.Theory1 C01.Theory2 C01.Theory3 C01.Theory4 C01.Theory14.
From FB Require C02.Model C02.Encode C02.Theory2 C02.Theory4 C02.Theory6 C02.Theory7.
From FB Require Import X12.BridgeDefs X12.BridgePlain.
Import ListNotations.
Module W2 := FB.C02.Theory2.
Module W4 := FB.C02.Theory4.
Module W6 := FB.C02.Theory6.
Module W7 := FB.C02.Theory7.
Arguments N.add : simpl never.
Arguments N.mul : simpl never.
Arguments N.sub : simpl never.
Arguments N.modulo : simpl never.
Arguments N.div : simpl never.
Arguments Z.add : simpl never.
Arguments Z.sub : simpl never.
Arguments Z.mul : simpl never.
Arguments Z.modulo : simpl never.
Arguments Z.div : simpl never.

(* ---------------------------------------------------------------------------------------------- *)
(* the opcode tables of the two models agree on the branch instructions *)
Lemma cond_entry op : WE.is_cond_op (Z.of_N op) = true -> pass2_entry op = P2 op [RBr16].
Proof.
  intros H. apply W6.cond_ops in H.
  repeat (destruct H as [H|H]; [match type of H with Z.of_N op = ?v => assert (op = Z.to_N v) by lia end; subst op; reflexivity|]).
  assert (op = Z.to_N 199) by lia. subst op. reflexivity.
Qed.

Lemma kind_cond op inv : WE.kind_ok (W.KCond op inv) = true ->
  pass2_entry op = P2 op [RBr16] /\ pass2_entry inv = P2 inv [RBr16].
Proof.
  cbn [WE.kind_ok]. intros H. apply andb_true_iff in H. destruct H as [Hc Hi]. apply Z.eqb_eq in Hi.
  split; [apply cond_entry; exact Hc|]. apply cond_entry. rewrite Hi. apply (W6.cond_op_opposite _ Hc).
Qed.

Lemma kind_jump op wop : WE.kind_ok (W.KJump op wop) = true ->
  pass2_entry op = P2 op [RBr16] /\ pass2_entry wop = P2 op [RBr32].
Proof.
  cbn [WE.kind_ok]. intros H. apply orb_true_iff in H.
  destruct H as [H|H]; apply andb_true_iff in H; destruct H as [H1 H2]; apply N.eqb_eq in H1, H2; subst; split; reflexivity.
Qed.

Lemma goto_w_entry : pass2_entry W.GOTO_W = P2 op_goto [RBr32].
Proof. reflexivity. Qed.

(* ---------------------------------------------------------------------------------------------- *)
(* single instructions of C01's encoder *)
Lemma enc1_br16 posf pos op ctor tl z : pass2_entry op = P2 ctor [RBr16] ->
  rel_off posf pos tl = z -> fits16 z = true ->
  enc1 posf pos (fp op) (Gen ctor [OpT tl]) = Some (op :: bei16 z).
Proof.
  intros E R F. unfold enc1, fp. cbn [c_form c_fill]. rewrite E, N.eqb_refl. cbn [enc_ops enc_op]. rewrite R, F.
  rewrite app_nil_r. reflexivity.
Qed.
Lemma enc1_br32 posf pos op ctor tl z : pass2_entry op = P2 ctor [RBr32] ->
  rel_off posf pos tl = z -> fits32 z = true ->
  enc1 posf pos (fp op) (Gen ctor [OpT tl]) = Some (op :: bei32 z).
Proof.
  intros E R F. unfold enc1, fp. cbn [c_form c_fill]. rewrite E, N.eqb_refl. cbn [enc_ops enc_op]. rewrite R, F.
  rewrite app_nil_r. reflexivity.
Qed.
Lemma size_br16 pos op ctor ops : pass2_entry op = P2 ctor [RBr16] -> size (fp op) pos (Gen ctor ops) = 3.
Proof. intros E. cbn [size fp c_form]. rewrite E. reflexivity. Qed.
Lemma size_br32 pos op ctor ops : pass2_entry op = P2 ctor [RBr32] -> size (fp op) pos (Gen ctor ops) = 5.
Proof. intros E. cbn [size fp c_form]. rewrite E. reflexivity. Qed.

Lemma pad_eq p : (0 <= p)%Z -> pad_of (Z.to_N p) = Z.to_N (WE.pad p).
Proof.
  intros Hp. unfold pad_of, WE.pad.
  pose proof (Z.mod_pos_bound p 4 ltac:(lia)) as B.
  assert (E : Z.to_N p mod 4 = Z.to_N (p mod 4)%Z).
  { change 4 with (Z.to_N 4). rewrite <- Z2N.inj_mod; [reflexivity|lia|lia]. }
  rewrite E. lia.
Qed.

Lemma pad_bytes_zeros p : (0 <= p)%Z -> pad_bytes [] (N.to_nat (pad_of (Z.to_N p))) = WE.zeros (WE.pad p).
Proof.
  intros Hp. rewrite pad_eq by exact Hp. unfold pad_bytes, WE.zeros. cbn [app].
  rewrite Z_N_nat. set (n := Z.to_nat (WE.pad p)). rewrite <- (repeat_length 0%N n) at 1. apply firstn_all.
Qed.

(* ---------------------------------------------------------------------------------------------- *)
(* agreement of a position function with C02's layout *)
Fixpoint pagree (posf : nat -> N) (chs : list bool) (k : nat) (p : Z) (b : W.body) : Prop :=
  match b, chs with
  | (_, e) :: r, c :: cs => posf k = Z.to_N p /\ pagree posf cs (cnt c e + k) (p + WE.esize c p e)%Z r
  | _, _ => posf k = Z.to_N p
  end.
Lemma pagree_head posf chs k p b : pagree posf chs k p b -> posf k = Z.to_N p.
Proof. destruct b as [|[lb e] r], chs as [|c cs]; cbn [pagree]; tauto. Qed.
Lemma cnt_pos c e : (1 <= cnt c e)%nat.
Proof. destruct e as [bs|[op inv|op wop] l|d lo hi ts|d ps]; cbn [cnt]; try destruct c; lia. Qed.
Lemma pagree_ext posf posf' : forall b chs k p, (forall j, (k <= j)%nat -> posf j = posf' j) ->
  pagree posf chs k p b -> pagree posf' chs k p b.
Proof.
  induction b as [|[lb e] r IH]; intros chs k p H; destruct chs as [|c cs]; cbn [pagree].
  1-3: rewrite <- H by lia; tauto.
  intros [H1 H2]. split; [rewrite <- H by lia; exact H1|].
  apply (IH cs _ _); [|exact H2]. intros j Hj. apply H. pose proof (cnt_pos c e). lia.
Qed.

Definition lab_agree (posf : nat -> N) (T : W.label -> nat) (L : W.label -> option Z) : Prop :=
  forall l t, L l = Some t -> (0 <= t)%Z /\ posf (T l) = Z.to_N t.

Lemma pagree_lidx posf : forall b chs k p last l t, (0 <= p)%Z ->
  pagree posf chs k p b -> WE.labpos chs p b last l = Some t ->
  (0 <= t)%Z /\ exists j, lidx chs k b last l = Some j /\ posf j = Z.to_N t.
Proof.
  induction b as [|[lb e] r IH]; intros chs k p last l t Hp HA HL; destruct chs as [|c cs]; cbn [pagree WE.labpos lidx] in *.
  1-3: destruct (WE.olabel_is last l); [|discriminate]; injection HL as <-; split; [exact Hp|]; exists k; split; [reflexivity|tauto].
  destruct HA as [H1 H2]. destruct (WE.olabel_is lb l).
  - injection HL as <-. split; [exact Hp|]. exists k. split; [reflexivity|exact H1].
  - pose proof (W2.esize_nonneg c p e). apply (IH cs (cnt c e + k)%nat (p + WE.esize c p e)%Z last l t); [lia|exact H2|exact HL].
Qed.

(* ---------------------------------------------------------------------------------------------- *)
(* lengths *)
Lemma tr_entry_length T k c e : length (tr_entry T k c e) = cnt c e.
Proof. destruct e as [bs|[op inv|op wop] l|d lo hi ts|d ps]; cbn [tr_entry cnt]; try destruct c; reflexivity. Qed.
Lemma ch_entry_length c e : length (ch_entry c e) = cnt c e.
Proof. destruct e as [bs|[op inv|op wop] l|d lo hi ts|d ps]; cbn [ch_entry cnt]; try destruct c; reflexivity. Qed.
Lemma tr_from_length T : forall b chs k, length (tr_from T chs k b) = length (chl_from chs b).
Proof.
  induction b as [|[lb e] r IH]; intros [|c cs] k; cbn [tr_from chl_from]; try reflexivity.
  rewrite !app_length, tr_entry_length, ch_entry_length, IH. reflexivity.
Qed.

(* the choice function restricted to one entry *)
Definition ch_at (ch : nat -> choice) (k : nat) (cl : list choice) : Prop :=
  forall j, (j < length cl)%nat -> ch (k + j)%nat = nth j cl (fp 0).
Lemma ch_at_app ch k l1 l2 : ch_at ch k (l1 ++ l2) -> ch_at ch k l1 /\ ch_at ch (k + length l1) l2.
Proof.
  intros H. split.
  - intros j Hj. rewrite H by (rewrite app_length; lia). apply app_nth1. exact Hj.
  - intros j Hj. rewrite <- Nat.add_assoc, H by (rewrite app_length; lia). rewrite app_nth2 by lia. f_equal. lia.
Qed.
Lemma ch_at_0 ch k c cl : ch_at ch k (c :: cl) -> ch k = c.
Proof. intros H. specialize (H 0%nat). rewrite Nat.add_0_r in H. apply H. cbn [length]. lia. Qed.
Lemma ch_at_1 ch k c c' cl : ch_at ch k (c :: c' :: cl) -> ch (S k) = c'.
Proof. intros H. specialize (H 1%nat). rewrite Nat.add_1_r in H. apply H. cbn [length]. lia. Qed.

(* ---------------------------------------------------------------------------------------------- *)
(* SIZES: the layout of the translated entry *)
Lemma entry_in_plain bs : entry_in (W.Plain bs) = true -> is_bytes bs /\ plain_insn bs = Some (plain_insn_d bs).
Proof.
  cbn [entry_in]. intros H. apply andb_true_iff in H. destruct H as [H1 H2]. split; [apply all_bytesb_spec; exact H1|].
  unfold plain_insn_d. destruct (plain_insn bs); [reflexivity|discriminate].
Qed.

Lemma to_N_add p q : (0 <= p)%Z -> (0 <= q)%Z -> Z.to_N p + Z.to_N q = Z.to_N (p + q).
Proof. intros. lia. Qed.

Lemma entry_layout ch T k p c e rest : (0 <= p)%Z -> entry_in e = true -> ch_at ch k (ch_entry c e) ->
  layout_from ch k (Z.to_N p) (tr_entry T k c e ++ rest)
  = (if is_cond e && c then [Z.to_N p; Z.to_N p + 3] else [Z.to_N p])
    ++ layout_from ch (cnt c e + k) (Z.to_N (p + WE.esize c p e)) rest.
Proof.
  intros Hp Hin Hch.
  destruct e as [bs|[op inv|op wop] l|d lo hi ts|d ps]; cbn [tr_entry ch_entry cnt is_cond andb WE.esize Nat.add] in *.
  - destruct (entry_in_plain bs Hin) as [B PI]. cbn [app layout_from]. rewrite (ch_at_0 _ _ _ _ Hch).
    rewrite (plain_size _ _ PI B). do 2 f_equal. unfold W.zlen. lia.
  - destruct (kind_cond _ _ Hin) as [E1 E2]. destruct c.
    + cbn [app layout_from]. rewrite (ch_at_0 _ _ _ _ Hch), (ch_at_1 _ _ _ _ _ Hch).
      rewrite (size_br16 _ _ _ _ E2), (size_br32 _ _ _ _ goto_w_entry).
      do 3 f_equal. lia.
    + cbn [app layout_from]. rewrite (ch_at_0 _ _ _ _ Hch), (size_br16 _ _ _ _ E1).
      do 2 f_equal. lia.
  - destruct (kind_jump _ _ Hin) as [E1 E2]. cbn [app layout_from]. rewrite (ch_at_0 _ _ _ _ Hch). destruct c.
    + rewrite (size_br32 _ _ _ _ E2). do 2 f_equal. lia.
    + rewrite (size_br16 _ _ _ _ E1). do 2 f_equal. lia.
  - cbn [app layout_from size]. rewrite map_length. do 2 f_equal.
    rewrite pad_eq by exact Hp. pose proof (W2.pad_bounds p). unfold W.zlen. lia.
  - cbn [app layout_from size]. rewrite map_length. do 2 f_equal.
    rewrite pad_eq by exact Hp. pose proof (W2.pad_bounds p). unfold W.zlen. lia.
Qed.

Lemma body_in_cons lb e r c cs : body_in (c :: cs) ((lb, e) :: r) = true ->
  entry_in e = true /\ (r = [] -> is_cond e && c = false) /\ body_in cs r = true.
Proof.
  cbn [body_in]. intros H. apply andb_true_iff in H. destruct H as [H H3]. apply andb_true_iff in H. destruct H as [H1 H2].
  repeat split; try assumption. intros ->. destruct (is_cond e && c); [discriminate|reflexivity].
Qed.
Lemma body_in_of_simple : forall b chs, body_in_simple b = true -> body_in chs b = true.
Proof.
  induction b as [|[lb e] r IH]; intros [|c cs] H; try reflexivity. cbn [body_in body_in_simple] in *.
  apply andb_true_iff in H. destruct H as [H H3]. apply andb_true_iff in H. destruct H as [H1 H2].
  rewrite H1, (IH cs H3). destruct r; [|reflexivity]. destruct (is_cond e); [discriminate|reflexivity].
Qed.

(* the layout C01's encoder computes for the translated body is C02's layout *)
Lemma layout_pagree ch T : forall b chs k p, length chs = length b -> (0 <= p)%Z -> body_in chs b = true ->
  ch_at ch k (chl_from chs b) ->
  pagree (fun j => nth (j - k) (layout_from ch k (Z.to_N p) (tr_from T chs k b)) 0) chs k p b.
Proof.
  induction b as [|[lb e] r IH]; intros chs k p Hl Hp Hin Hch; destruct chs as [|c cs]; try discriminate;
    cbn [pagree tr_from chl_from].
  - rewrite Nat.sub_diag. reflexivity.
  - apply body_in_cons in Hin. destruct Hin as (He & _ & Hr).
    apply ch_at_app in Hch. destruct Hch as [Hc1 Hc2]. rewrite ch_entry_length, (Nat.add_comm k (cnt c e)) in Hc2.
    rewrite (entry_layout ch T k p c e _ Hp He Hc1). rewrite Nat.sub_diag.
    split; [destruct (is_cond e && c); reflexivity|].
    pose proof (W2.esize_nonneg c p e) as Hs.
    assert (Hl' : length cs = length r) by (cbn [length] in Hl; lia).
    specialize (IH cs (cnt c e + k)%nat (p + WE.esize c p e)%Z Hl' ltac:(lia) Hr Hc2).
    revert IH. apply pagree_ext. intros j Hj.
    assert (Hcnt : cnt c e = if is_cond e && c then 2%nat else 1%nat).
    { destruct e as [bs|[op inv|op wop] l|d lo hi ts|d ps]; cbn [cnt is_cond andb]; try destruct c; reflexivity. }
    destruct (is_cond e && c); rewrite Hcnt in *.
    + replace (j - k)%nat with (S (S (j - (2 + k))))%nat by lia. reflexivity.
    + replace (j - k)%nat with (S (j - (1 + k)))%nat by lia. reflexivity.
Qed.

(* ---------------------------------------------------------------------------------------------- *)
(* ENCODING, one entry *)
Lemma enc_cons ch posf k pos i rest b pos' : enc1 posf pos (ch k) i = Some b -> pos + size (ch k) pos i = pos' ->
  encode_from ch posf k pos (i :: rest)
  = match encode_from ch posf (S k) pos' rest with Some bs => Some (b ++ bs) | None => None end.
Proof. intros E S. cbn [encode_from]. rewrite E, S. reflexivity. Qed.

Lemma rel_off_agree posf T L pos p l t : lab_agree posf T L -> L l = Some t -> (0 <= p)%Z -> pos = Z.to_N p ->
  rel_off posf pos (T l) = (t - p)%Z.
Proof. intros HA HL Hp ->. destruct (HA l t HL) as [Ht E]. unfold rel_off. rewrite E. lia. Qed.

Lemma arms_agree posf T L p : lab_agree posf T L -> (0 <= p)%Z -> forall ts tts,
  WE.mapO L ts = Some tts -> forallb (WE.tgt_ok WE.fits32 L p) ts = true ->
  flat_map (fun t => bei32 (rel_off posf (Z.to_N p) t)) (map T ts) = flat_map (fun t => W.be32 (t - p)) tts
  /\ all_fit32 (map (rel_off posf (Z.to_N p)) (map T ts)) = true.
Proof.
  intros HA Hp. induction ts as [|l ts IH]; intros tts HM HF; cbn [WE.mapO] in HM.
  - injection HM as <-. split; reflexivity.
  - destruct (L l) as [t|] eqn:El; [|discriminate]. destruct (WE.mapO L ts) as [tts'|]; [|discriminate]. injection HM as <-.
    cbn [forallb] in HF. apply andb_true_iff in HF. destruct HF as [F1 F2].
    destruct (IH _ eq_refl F2) as [I1 I2].
    unfold WE.tgt_ok in F1. rewrite El in F1. rewrite wfits32_eq in F1.
    cbn [map flat_map all_fit32 forallb]. rewrite (rel_off_agree posf T L _ p l t HA El Hp eq_refl).
    rewrite I1, wbe32_eq, F1. split; [reflexivity|]. exact I2.
Qed.

Lemma pairs_agree posf T L p : lab_agree posf T L -> (0 <= p)%Z -> forall ps kts,
  WE.mapO (fun kp => match L (snd kp) with Some t => Some (fst kp, t) | None => None end) ps = Some kts ->
  forallb (fun kp => WE.tgt_ok WE.fits32 L p (snd kp)) ps = true ->
  forallb (fun kp => WE.fits32 (fst kp)) ps = true ->
  flat_map (fun q => bei32 (fst q) ++ bei32 (rel_off posf (Z.to_N p) (snd q))) (map (fun kp => (fst kp, T (snd kp))) ps)
  = flat_map (fun kt => W.be32 (fst kt) ++ W.be32 (snd kt - p)) kts
  /\ all_fit32 (map fst (map (fun kp => (fst kp, T (snd kp))) ps)) = true
  /\ all_fit32 (map (rel_off posf (Z.to_N p)) (map snd (map (fun kp => (fst kp, T (snd kp))) ps))) = true.
Proof.
  intros HA Hp. induction ps as [|[key l] ps IH]; intros kts HM HF HK; cbn [WE.mapO snd fst] in HM.
  - injection HM as <-. repeat split; reflexivity.
  - destruct (L l) as [t|] eqn:El; [|discriminate].
    destruct (WE.mapO _ ps) as [kts'|]; [|discriminate]. injection HM as <-.
    cbn [forallb snd fst] in HF, HK. apply andb_true_iff in HF. destruct HF as [F1 F2].
    apply andb_true_iff in HK. destruct HK as [K1 K2].
    destruct (IH _ eq_refl F2 K2) as (I1 & I2 & I3).
    unfold WE.tgt_ok in F1. rewrite El in F1. rewrite wfits32_eq in F1. rewrite wfits32_eq in K1.
    cbn [map flat_map all_fit32 forallb fst snd]. rewrite (rel_off_agree posf T L _ p l t HA El Hp eq_refl).
    rewrite I1, !wbe32_eq, F1, K1. repeat split; try reflexivity; assumption.
Qed.

Lemma mapO_length {A B} (f : A -> option B) : forall l r, WE.mapO f l = Some r -> length r = length l.
Proof.
  induction l as [|a l IH]; intros r H; cbn [WE.mapO] in H; [injection H as <-; reflexivity|].
  destruct (f a); [|discriminate]. destruct (WE.mapO f l) as [r'|]; [|discriminate]. injection H as <-.
  cbn [length]. rewrite (IH _ eq_refl). reflexivity.
Qed.

(* one entry: C01's encoder on the translated instruction(s) gives the bytes C02's encoder gives *)
Lemma entry_encode ch posf T L k p c e bs rest :
  (0 <= p)%Z -> posf k = Z.to_N p -> (is_cond e && c = true -> posf (2 + k)%nat = Z.to_N (p + 8)) ->
  lab_agree posf T L -> entry_in e = true -> ch_at ch k (ch_entry c e) ->
  WE.enc_entry c L p e = Some bs -> WE.adm_entry c L p e = true ->
  encode_from ch posf k (Z.to_N p) (tr_entry T k c e ++ rest)
  = match encode_from ch posf (cnt c e + k) (Z.to_N (p + WE.esize c p e)) rest with
    | Some bs' => Some (bs ++ bs') | None => None end.
Proof.
  intros Hp Hk Hk2 HA Hin Hch HE HAd.
  destruct e as [bs0|[op inv|op wop] l|d lo hi ts|d ps]; cbn [tr_entry ch_entry cnt is_cond andb WE.esize WE.enc_entry WE.adm_entry Nat.add] in *.
  - (* Plain *)
    injection HE as <-. destruct (entry_in_plain bs0 Hin) as [B PI]. cbn [app].
    apply enc_cons; rewrite (ch_at_0 _ _ _ _ Hch).
    + apply plain_enc; assumption.
    + rewrite (plain_size _ _ PI B). unfold W.zlen. lia.
  - (* conditional *)
    destruct (kind_cond _ _ Hin) as [E1 E2].
    destruct (L l) as [t|] eqn:El; [|discriminate]. injection HE as <-. unfold WE.tgt_ok in HAd. rewrite El in HAd.
    destruct c.
    + (* long form: inverted conditional over a goto_w *)
      rewrite wfits32_eq in HAd. cbn [app].
      rewrite (enc_cons ch posf k (Z.to_N p) _ _ [inv; 0; 8] (Z.to_N p + 3)).
      * rewrite (enc_cons ch posf (S k) (Z.to_N p + 3) _ _ (W.GOTO_W :: W.be32 (t - (p + 3))) (Z.to_N (p + 8))).
        -- change (2 + k)%nat with (S (S k)). destruct (encode_from ch posf (S (S k)) (Z.to_N (p + 8)) rest); reflexivity.
        -- rewrite (ch_at_1 _ _ _ _ _ Hch). rewrite wbe32_eq. apply (enc1_br32 _ _ _ _ _ _ goto_w_entry); [|exact HAd].
           apply (rel_off_agree posf T L _ (p + 3) l t HA El); lia.
        -- rewrite (ch_at_1 _ _ _ _ _ Hch), (size_br32 _ _ _ _ goto_w_entry). lia.
      * rewrite (ch_at_0 _ _ _ _ Hch). change [inv; 0; 8] with (inv :: bei16 8).
        apply (enc1_br16 _ _ _ _ _ _ E2); [|reflexivity].
        unfold rel_off. rewrite (Hk2 eq_refl). lia.
      * rewrite (ch_at_0 _ _ _ _ Hch), (size_br16 _ _ _ _ E2). reflexivity.
    + rewrite wfits16_eq in HAd. cbn [app].
      apply (enc_cons ch posf k (Z.to_N p) _ _ (op :: W.be16 (t - p))); rewrite (ch_at_0 _ _ _ _ Hch).
      * rewrite wbe16_eq. apply (enc1_br16 _ _ _ _ _ _ E1); [|exact HAd].
        apply (rel_off_agree posf T L _ p l t HA El Hp eq_refl).
      * rewrite (size_br16 _ _ _ _ E1). lia.
  - (* goto / jsr *)
    destruct (kind_jump _ _ Hin) as [E1 E2].
    destruct (L l) as [t|] eqn:El; [|discriminate]. injection HE as <-. unfold WE.tgt_ok in HAd. rewrite El in HAd.
    cbn [app]. destruct c.
    + rewrite wfits32_eq in HAd. apply (enc_cons ch posf k (Z.to_N p) _ _ (wop :: W.be32 (t - p))); rewrite (ch_at_0 _ _ _ _ Hch).
      * rewrite wbe32_eq. apply (enc1_br32 _ _ _ _ _ _ E2); [|exact HAd].
        apply (rel_off_agree posf T L _ p l t HA El Hp eq_refl).
      * rewrite (size_br32 _ _ _ _ E2). lia.
    + rewrite wfits16_eq in HAd. apply (enc_cons ch posf k (Z.to_N p) _ _ (op :: W.be16 (t - p))); rewrite (ch_at_0 _ _ _ _ Hch).
      * rewrite wbe16_eq. apply (enc1_br16 _ _ _ _ _ _ E1); [|exact HAd].
        apply (rel_off_agree posf T L _ p l t HA El Hp eq_refl).
      * rewrite (size_br16 _ _ _ _ E1). lia.
  - (* tableswitch *)
    destruct (L d) as [td|] eqn:Ed; [|discriminate]. destruct (WE.mapO L ts) as [tts|] eqn:EM; [|discriminate].
    injection HE as <-.
    apply andb_true_iff in HAd. destruct HAd as [HAd A5]. apply andb_true_iff in HAd. destruct HAd as [HAd A4].
    apply andb_true_iff in HAd. destruct HAd as [HAd A3]. apply andb_true_iff in HAd. destruct HAd as [A1 A2].
    apply andb_true_iff in Hin. destruct Hin as [I1 I2]. rewrite wfits32_eq in I1, I2.
    unfold WE.tgt_ok in A2. rewrite Ed in A2. rewrite wfits32_eq in A2.
    destruct (arms_agree posf T L p HA Hp ts tts EM A3) as [G1 G2].
    apply Z.leb_le in A4. apply Z.eqb_eq in A5. unfold W.zlen in A5.
    cbn [app].
    apply (enc_cons ch posf k (Z.to_N p) _ _ ([W.TABLESWITCH] ++ WE.zeros (WE.pad p) ++ W.be32 (td - p) ++ W.be32 lo ++ W.be32 hi
                                             ++ flat_map (fun t => W.be32 (t - p)) tts)).
    + rewrite (ch_at_0 _ _ _ _ Hch). unfold enc1. cbn [c_fill fp]. rewrite map_length.
      assert (C : ((lo <=? hi)%Z && (Z.of_nat (length ts) =? hi - lo + 1)%Z && fits32 lo && fits32 hi
                   && all_fit32 (map (rel_off posf (Z.to_N p)) (T d :: map T ts))) = true).
      { cbn [map all_fit32 forallb]. rewrite (rel_off_agree posf T L _ p d td HA Ed Hp eq_refl), A2.
        change (forallb fits32 (map (rel_off posf (Z.to_N p)) (map T ts))) with (all_fit32 (map (rel_off posf (Z.to_N p)) (map T ts))).
        rewrite G2, I1, I2. rewrite (proj2 (Z.leb_le lo hi) A4), (proj2 (Z.eqb_eq _ _) A5). reflexivity. }
      rewrite C. rewrite (rel_off_agree posf T L _ p d td HA Ed Hp eq_refl). rewrite G1.
      rewrite (pad_bytes_zeros p Hp), !wbe32_eq. reflexivity.
    + cbn [size]. rewrite map_length. rewrite pad_eq by exact Hp. pose proof (W2.pad_bounds p). unfold W.zlen. lia.
  - (* lookupswitch *)
    destruct (L d) as [td|] eqn:Ed; [|discriminate].
    destruct (WE.mapO (fun kp => match L (snd kp) with Some t => Some (fst kp, t) | None => None end) ps) as [kts|] eqn:EM; [|discriminate].
    injection HE as <-.
    apply andb_true_iff in HAd. destruct HAd as [HAd A5]. apply andb_true_iff in HAd. destruct HAd as [HAd A4].
    apply andb_true_iff in HAd. destruct HAd as [HAd A3]. apply andb_true_iff in HAd. destruct HAd as [A1 A2].
    unfold WE.tgt_ok in A2. rewrite Ed in A2. rewrite wfits32_eq in A2.
    destruct (pairs_agree posf T L p HA Hp ps kts EM A3 Hin) as (G1 & G2 & G3).
    apply Z.leb_le in A5. unfold W.zlen, W.i32max in A5.
    cbn [app].
    apply (enc_cons ch posf k (Z.to_N p) _ _ ([W.LOOKUPSWITCH] ++ WE.zeros (WE.pad p) ++ W.be32 (td - p) ++ W.be32 (W.zlen ps)
                                             ++ flat_map (fun kt => W.be32 (fst kt) ++ W.be32 (snd kt - p)) kts)).
    + rewrite (ch_at_0 _ _ _ _ Hch). unfold enc1. cbn [c_fill fp]. rewrite map_length.
      assert (C : (fits32 (Z.of_nat (length ps)) && all_fit32 (map fst (map (fun kp => (fst kp, T (snd kp))) ps))
                   && all_fit32 (map (rel_off posf (Z.to_N p)) (T d :: map snd (map (fun kp => (fst kp, T (snd kp))) ps)))) = true).
      { cbn [map all_fit32 forallb]. rewrite (rel_off_agree posf T L _ p d td HA Ed Hp eq_refl), A2.
        change (forallb fits32 (map fst (map (fun kp => (fst kp, T (snd kp))) ps)))
          with (all_fit32 (map fst (map (fun kp => (fst kp, T (snd kp))) ps))).
        change (forallb fits32 (map (rel_off posf (Z.to_N p)) (map snd (map (fun kp => (fst kp, T (snd kp))) ps))))
          with (all_fit32 (map (rel_off posf (Z.to_N p)) (map snd (map (fun kp => (fst kp, T (snd kp))) ps)))).
        rewrite G2, G3. assert (F : fits32 (Z.of_nat (length ps)) = true) by (apply fits32_spec; lia). rewrite F. reflexivity. }
      rewrite C. rewrite (rel_off_agree posf T L _ p d td HA Ed Hp eq_refl). rewrite G1.
      rewrite (pad_bytes_zeros p Hp), !wbe32_eq. reflexivity.
    + cbn [size]. rewrite map_length. rewrite pad_eq by exact Hp. pose proof (W2.pad_bounds p). unfold W.zlen. lia.
Qed.

(* ENCODING, whole bodies: under ANY position function that agrees with C02's layout and labels *)
Lemma body_encode ch posf T L : lab_agree posf T L -> forall b chs k p w,
  length chs = length b -> (0 <= p)%Z -> pagree posf chs k p b -> body_in chs b = true ->
  ch_at ch k (chl_from chs b) ->
  WE.encode chs L p b = Some w -> WE.admissible chs L p b = true ->
  encode_from ch posf k (Z.to_N p) (tr_from T chs k b) = Some w.
Proof.
  intros HA. induction b as [|[lb e] r IH]; intros chs k p w Hl Hp HP Hin Hch HE HAd; destruct chs as [|c cs]; try discriminate;
    cbn [tr_from chl_from WE.encode WE.admissible pagree] in *.
  - injection HE as <-. reflexivity.
  - destruct (WE.enc_entry c L p e) as [bs|] eqn:E1; [|discriminate].
    destruct (WE.encode cs L (p + WE.esize c p e) r) as [rest|] eqn:E2; [|discriminate]. injection HE as <-.
    apply andb_true_iff in HAd. destruct HAd as [Ad1 Ad2].
    apply body_in_cons in Hin. destruct Hin as (He & Hlast & Hr).
    apply ch_at_app in Hch. destruct Hch as [Hc1 Hc2]. rewrite ch_entry_length, (Nat.add_comm k (cnt c e)) in Hc2.
    destruct HP as [P1 P2]. pose proof (W2.esize_nonneg c p e) as Hs.
    assert (Hl' : length cs = length r) by (cbn [length] in Hl; lia).
    rewrite (entry_encode ch posf T L k p c e bs _ Hp P1); try assumption.
    + assert (Hp' : (0 <= p + WE.esize c p e)%Z) by lia.
      rewrite (IH cs (cnt c e + k)%nat (p + WE.esize c p e)%Z rest Hl' Hp' P2 Hr Hc2 E2 Ad2). reflexivity.
    + intros Hc. apply andb_true_iff in Hc. destruct Hc as [Hc1' ->].
      destruct e as [bs0|[op inv|op wop] l|d lo hi ts|d ps]; try discriminate. cbn [cnt WE.esize] in P2.
      apply pagree_head in P2. exact P2.
Qed.
