(* X12 — bridge, part 14: THE WHOLE FILE for the widened fragment ([dclass_frag2], decidable on facts_of t aux):
     class attributes  ⊆ { SourceFile, Signature, InnerClasses, NestHost, NestMembers, BootstrapMethods, Deprecated, Synthetic }
     field attributes  ⊆ { ConstantValue, Signature, Deprecated, Synthetic }
     method attributes ⊆ { Code, Exceptions, Signature, Deprecated, Synthetic }
     inside Code       ⊆ { LineNumberTable, LocalVariableTable, LocalVariableTypeTable }
   The statement is the one of BridgeFile.class_file_read; the value of a BootstrapMethods attribute is given
   up to the handle indices standing in the file ([bsm_rel]: its bsm_entry projection is a table that agrees
   with the writer's, so that BridgeDyn.loadable_read / indy_read apply inside the file). *)
From Coq Require Import List NArith ZArith Bool Lia.
From FB Require Import C02.Model C02.Encode C02.Theory2 C02.Theory8 C02.Frames C02.Class C02.Decode C02.Facts
  C02.TheoryC1 C02.TheoryC2 C02.TheoryC3 C02.TheoryC8.
From FB Require C01.Bytes C01.Pool C01.Attr C01.Tables C01.Fmt C01.Formats C01.ClassFile C01.Mutf8.
From FB Require X12.BridgePool.
From FB Require Import X12.BridgeClass X12.BridgeMembers X12.BridgeCode X12.BridgeFmt X12.BridgeDyn X12.BridgeFile X12.BridgeFmt2.
Import ListNotations.
Local Open Scope Z_scope.

(* ---------------------------------------------------------------------------------------------- *)
(* Code with the three tables inside *)
Definition innerb (a : dattr0) : bool :=
  match a with ALineNumberTable _ | ALocalVariableTable _ | ALocalVariableTypeTable _ => true | _ => false end.
Definition inner_val2 (dec : RB.bytes -> res str) (a : dattr0) : RF.val :=
  match a with
  | ALineNumberTable l => v_LineNumberTable l | ALocalVariableTable l => v_LVT dec l | ALocalVariableTypeTable l => v_LVTT dec l
  | _ => RF.VSeq []
  end.
Definition code_val2 (dec : RB.bytes -> res str) (k : dcode) : RF.val :=
  RF.VSeq [RF.VN (Z.to_N (dc_max_stack k)); RF.VN (Z.to_N (dc_max_locals k)); RF.VB (dc_code k);
           RF.VList (map (exc_val dec) (dc_exceptions k)); RF.VList (map (inner_val2 dec) (dc_attrs k))].
Definition code_ok2 (k : dcode) : Prop := Forall (fun a => innerb a = true) (dc_attrs k).

Lemma p2rq_inner2 impl dec cs : names_ok2 dec = true ->
  p2rq (fun a => innerb a = true) (p_attr0 AtCode (cslots cs 1)) (RF.rd_fmt impl dec (R.acc (BP.rpool dec cs)) (RF.FAttr R.code_sel)) (inner_val2 dec).
Proof.
  intros Hn s a r t H Ha. destruct a; try discriminate.
  - exact (attr_LineNumberTable impl dec cs s l r t (names_ok2_ok dec Hn) H).
  - exact (attr_LVT impl dec cs s l r t Hn H).
  - exact (attr_LVTT impl dec cs s l r t Hn H).
Qed.

Lemma p2rq_code2 impl dec cs : names_ok2 dec = true ->
  p2rq code_ok2 (p_code (cslots cs 1)) (RF.rd_fmt impl dec (R.acc (BP.rpool dec cs)) R.code_fmt) (code_val2 dec).
Proof.
  intros Hn s k r t H HQ. unfold p_code, pbind in H.
  destruct (p_u16 s) as [[ms s1]|] eqn:E1; [|discriminate]. destruct (p_u16 s1) as [[ml s2]|] eqn:E2; [|discriminate].
  destruct (p_u32 s2) as [[len s3]|] eqn:E3; [|discriminate]. destruct ((len <? 1) || (65535 <? len)); [discriminate|].
  destruct (p_take (Z.to_nat len) s3) as [[code s4]|] eqn:E4; [|discriminate].
  change (fun bs : bytes => match p_u16 bs with Some (a, r0) => _ | None => None end) with (p_exc (cslots cs 1)) in H.
  destruct (p_list16 (p_exc (cslots cs 1)) s4) as [[ex s5]|] eqn:E5; [|discriminate].
  destruct (p_attrs0 AtCode (cslots cs 1) s5) as [[at_ s6]|] eqn:E6; [|discriminate]. unfold pret in H. injection H as <- <-.
  unfold code_ok2 in HQ. cbn [dc_attrs] in HQ.
  unfold R.code_fmt, code_val2. cbn [dc_max_stack dc_max_locals dc_code dc_exceptions dc_attrs]. rewrite exc_table_fmt, rd_seq5.
  rewrite (p2r_u16 impl dec _ _ _ _ t E1). cbn [Base.Str.bind]. rewrite (p2r_u16 impl dec _ _ _ _ t E2). cbn [Base.Str.bind].
  destruct (p_take_inv _ _ _ _ E4) as [-> Hc]. destruct (p_u32_app _ _ _ t E3) as [R3 Hl].
  rewrite <- app_assoc in R3.
  rewrite (rd_bytes32 impl dec _ _ _ _ code (s4 ++ t) R3) by (apply take_res_app; lia). cbn [Base.Str.bind].
  rewrite (p2r_vec16 impl dec _ _ _ _ (p2r_exc impl dec cs) _ _ _ t E5). cbn [Base.Str.bind].
  unfold p_attrs0 in E6. rewrite (p2rq_vec16 _ impl dec _ _ _ _ (p2rq_inner2 impl dec cs Hn) _ _ _ t E6 HQ). reflexivity.
Qed.

Definition v_Code2 (dec : RB.bytes -> res str) (k : dcode) : RF.val := RF.VAttr RFo.a_Code (code_val2 dec k).
Theorem attr_Code2 impl dec cs s k r t : names_ok2 dec = true -> code_ok2 k ->
  p_attr AtMethod (cslots cs 1) s = Some (ACode k, r) ->
  RF.rd_fmt impl dec (R.acc (BP.rpool dec cs)) (RF.FAttr R.method_sel) (s ++ t) = Ok (v_Code2 dec k, r ++ t).
Proof.
  intros Hn Hk H. unfold p_attr in H.
  destruct (attr_p2r code_ok2 impl dec cs _ _ R.method_sel ACode (p_code (cslots cs 1)) s_Code RFo.a_Code
              R.code_fmt (code_val2 dec) s _ r t H) as (y & Ey & Hr).
  - intros nb q Hq len s2 y r' Hb ->. exact (name_Code _ _ _ _ _ _ _ Hq Hb).
  - reflexivity.
  - apply (names_in dec _ _ Hn). inpairs.
  - intros len. reflexivity.
  - apply p2rq_code2. exact Hn.
  - intros y [= <-]. exact Hk.
  - intros nb b. discriminate.
  - injection Ey as <-. exact Hr.
Qed.

(* ---------------------------------------------------------------------------------------------- *)
(* per location *)
Definition fattrb (a : dattr) : bool := match a with AConstantValue _ => true | ALeaf a0 => leaf3 a0 | _ => false end.
Definition fattr_val2 (dec : RB.bytes -> res str) (a : dattr) : RF.val :=
  match a with AConstantValue v => v_ConstantValue dec v | ALeaf a0 => leaf_val dec a0 | _ => RF.VSeq [] end.
Definition mattrb (a : dattr) : bool :=
  match a with ACode k => forallb innerb (dc_attrs k) | AExceptions _ => true | ALeaf a0 => leaf3 a0 | _ => false end.
Definition mattr_val2 (dec : RB.bytes -> res str) (a : dattr) : RF.val :=
  match a with ACode k => v_Code2 dec k | AExceptions l => v_Exceptions dec l | ALeaf a0 => leaf_val dec a0 | _ => RF.VSeq [] end.
Definition cattrb (a : dattr) : bool :=
  match a with
  | ASourceFile _ | AInnerClasses _ | ANestHost _ | ANestMembers _ | ABootstrapMethods _ => true
  | ALeaf a0 => leaf3 a0 | _ => false
  end.
Definition cattr_val2 (dec : RB.bytes -> res str) (a : dattr) : RF.val :=
  match a with
  | ASourceFile s => v_SourceFile dec s | AInnerClasses l => v_InnerClasses dec l | ANestHost c => v_NestHost dec c
  | ANestMembers l => v_NestMembers dec l | ALeaf a0 => leaf_val dec a0 | _ => RF.VSeq []
  end.
Definition crel (dec : RB.bytes -> res str) (cs : list centry) (a : dattr) (v : RF.val) : Prop :=
  match a with ABootstrapMethods tbl => bsm_rel cs tbl v | _ => v = cattr_val2 dec a end.

Lemma sel_ok_class : sel_ok R.class_sel. Proof. repeat split; intros len; reflexivity. Qed.
Lemma sel_ok_field : sel_ok R.field_sel. Proof. repeat split; intros len; reflexivity. Qed.
Lemma sel_ok_method : sel_ok R.method_sel. Proof. repeat split; intros len; reflexivity. Qed.

Lemma p2rq_field2 impl dec cs : names_ok2 dec = true ->
  p2rq (fun a => fattrb a = true) (p_attr AtField (cslots cs 1)) (RF.rd_fmt impl dec (R.acc (BP.rpool dec cs)) (RF.FAttr R.field_sel)) (fattr_val2 dec).
Proof.
  intros Hn s a r t H Ha. destruct a; try discriminate.
  - exact (attr_leaf3 impl dec cs AtField R.field_sel s a r t Hn (or_intror (or_introl eq_refl)) sel_ok_field Ha H).
  - exact (attr_ConstantValue impl dec cs s v r t (names_ok2_ok dec Hn) H).
Qed.
Lemma p2rq_method2 impl dec cs : names_ok2 dec = true ->
  p2rq (fun a => mattrb a = true) (p_attr AtMethod (cslots cs 1)) (RF.rd_fmt impl dec (R.acc (BP.rpool dec cs)) (RF.FAttr R.method_sel)) (mattr_val2 dec).
Proof.
  intros Hn s a r t H Ha. destruct a; try discriminate.
  - exact (attr_leaf3 impl dec cs AtMethod R.method_sel s a r t Hn (or_intror (or_intror eq_refl)) sel_ok_method Ha H).
  - cbn [mattrb] in Ha. apply (attr_Code2 impl dec cs s c r t Hn); [|exact H].
    unfold code_ok2. apply Forall_forall. rewrite forallb_forall in Ha. exact Ha.
  - exact (attr_Exceptions impl dec cs s l r t Hn H).
Qed.
Lemma p2rR_class2 impl dec cs : names_ok2 dec = true -> forall s a r t,
  p_attr AtClass (cslots cs 1) s = Some (a, r) -> cattrb a = true ->
  exists v, RF.rd_fmt impl dec (R.acc (BP.rpool dec cs)) (RF.FAttr R.class_sel) (s ++ t) = Ok (v, r ++ t) /\ crel dec cs a v.
Proof.
  intros Hn s a r t H Ha. destruct a; try discriminate; cbn [crel].
  - eexists. split; [exact (attr_leaf3 impl dec cs AtClass R.class_sel s a r t Hn (or_introl eq_refl) sel_ok_class Ha H)|reflexivity].
  - eexists. split; [exact (attr_InnerClasses impl dec cs s l r t Hn H)|reflexivity].
  - eexists. split; [exact (attr_SourceFile impl dec cs s s0 r t (names_ok2_ok dec Hn) H)|reflexivity].
  - eexists. split; [exact (attr_NestHost impl dec cs s c r t Hn H)|reflexivity].
  - eexists. split; [exact (attr_NestMembers impl dec cs s l r t Hn H)|reflexivity].
  - exact (attr_BootstrapMethods impl dec cs s l r t Hn H).
Qed.

(* relational vector *)
Lemma p2rR_vec16 {A} (Q : A -> Prop) (Rl : A -> RF.val -> Prop) impl dec rs (p : parser A) f :
  (forall s a r t, p s = Some (a, r) -> Q a -> exists v, RF.rd_fmt impl dec rs f (s ++ t) = Ok (v, r ++ t) /\ Rl a v) ->
  forall s xs r t, p_list16 p s = Some (xs, r) -> Forall Q xs ->
  exists vs, RF.rd_fmt impl dec rs (RF.FVec16 f) (s ++ t) = Ok (RF.VList vs, r ++ t) /\ Forall2 Rl xs vs.
Proof.
  intros Hp s xs r t H HQ. unfold p_list16, pbind in H. destruct (p_u16 s) as [[n s1]|] eqn:E; [|discriminate].
  assert (G : forall k s1 xs r, p_rep k p s1 = Some (xs, r) -> Forall Q xs ->
              exists vs, RF.rd_rep k (RF.rd_fmt impl dec rs f) (s1 ++ t) = Ok (vs, r ++ t) /\ Forall2 Rl xs vs).
  { induction k as [|k IH]; intros s0 ys r0 H0 HQ0; cbn [p_rep] in H0.
    - unfold pret in H0. injection H0 as <- <-. exists []. split; [reflexivity|constructor].
    - unfold pbind in H0. destruct (p s0) as [[x s2]|] eqn:E1; [|discriminate].
      destruct (p_rep k p s2) as [[ys' r']|] eqn:E2; [|discriminate]. unfold pret in H0. injection H0 as <- <-.
      inversion HQ0 as [|? ? Qx Qr]; subst.
      destruct (Hp _ _ _ t E1 Qx) as (v & Hv & Rv). destruct (IH _ _ _ E2 Qr) as (vs & Hvs & Rvs).
      exists (v :: vs). split; [|constructor; assumption].
      cbn [RF.rd_rep]. rewrite Hv. cbn [Base.Str.bind]. rewrite Hvs. reflexivity. }
  destruct (G _ _ _ _ H HQ) as (vs & Hvs & Rvs). exists vs. split; [|exact Rvs].
  cbn [RF.rd_fmt]. destruct (p_u16_app s n s1 t E) as [-> Hn]. cbn [Base.Str.bind].
  replace (N.to_nat (Z.to_N n)) with (Z.to_nat n) by lia. rewrite Hvs. reflexivity.
Qed.

(* ---------------------------------------------------------------------------------------------- *)
Definition dclass_frag2 (d : dclass) : bool :=
  forallb cattrb (d_attrs d) && forallb (fun m => forallb fattrb (dm_attrs m)) (d_fields d)
  && forallb (fun m => forallb mattrb (dm_attrs m)) (d_methods d).
Definition in_fragment2 (t : cclass) (aux : class_aux) : bool :=
  match facts_of t aux with Some d => dclass_frag2 d | None => false end.

Theorem class_file_read2 impl dec t bs aux d :
  cclass_ok t = true -> write_class_aux t = WOK (bs, aux) ->
  RA.header_ok FB.C01.Tables.magic (Z.to_N (k_minor t)) (Z.to_N (k_major t)) = true ->
  pool_utf8_ok dec (a_pool aux) = true -> names_ok2 dec = true ->
  facts_of t aux = Some d -> dclass_frag2 d = true ->
  exists cs cattrs,
    rev (p_inner (a_pool aux)) = map mk cs /\ agrees (a_pool aux) (cslots cs 1) /\
    Forall2 (crel dec cs) (d_attrs d) cattrs /\
    R.read_class impl dec bs
    = R.build_class impl (BP.rpool dec cs) (Z.to_N (k_minor t)) (Z.to_N (k_major t)) (head_val dec t)
        (RF.VList cattrs)
        (RF.VList (map (member_val dec 1%N (fattr_val2 dec)) (d_fields d)))
        (RF.VList (map (member_val dec 2%N (mattr_val2 dec)) (d_methods d))).
Proof.
  intros Hok Hw Hgate Hdec Hn Hd Hfrag.
  destruct (class_read_base impl dec t bs aux Hok Hw Hgate Hdec) as (cs & fields & mbytes & abytes & fs & ms & ds & Ecs & Hag & Hhead & Hfs & Hms & Df & Dm & Da & (d' & Hd' & F1 & F2 & F3)).
  rewrite Hd in Hd'. injection Hd' as <-. subst fs ms ds.
  unfold dclass_frag2 in Hfrag. apply andb_prop in Hfrag. destruct Hfrag as [Hfrag Hm]. apply andb_prop in Hfrag. destruct Hfrag as [Hc Hf].
  pose proof (Df _ _ (mbytes ++ abytes) (pool_ext_refl _) Hag) as Pf.
  pose proof (Dm _ _ abytes (pool_ext_refl _) Hag) as Pm.
  pose proof (Da _ _ [] (pool_ext_refl _) Hag) as Pa. rewrite app_nil_r in Pa.
  (* class attributes *)
  destruct (p2rR_vec16 (fun a => cattrb a = true) (crel dec cs) impl dec _ _ _ (p2rR_class2 impl dec cs Hn) _ _ _ [] Pa
              (forallb_Forall _ _ _ (fun x H => H) Hc)) as (cattrs & Ra & Rc).
  rewrite app_nil_r in Ra.
  exists cs, cattrs. split; [exact Ecs|]. split; [exact Hag|]. split; [exact Rc|].
  rewrite (read_class_head impl dec bs _ _ _ _ _ Hhead).
  pose proof (members_read impl dec cs AtField 1%N _ _ _ Pf) as Sf. apply rd_headers_skip in Sf.
  pose proof (members_read impl dec cs AtMethod 2%N _ _ _ Pm) as Sm. apply rd_headers_skip in Sm.
  rewrite Sf. cbn [Base.Str.bind]. rewrite Sm. cbn [Base.Str.bind].
  unfold R.class_attrs_fmt. rewrite Ra. cbn [Base.Str.bind].
  assert (Rf : RF.rd_fmt impl dec (R.acc (BP.rpool dec cs)) R.fields_fmt (fields ++ mbytes ++ abytes)
               = Ok (RF.VList (map (member_val dec 1%N (fattr_val2 dec)) (d_fields d)), mbytes ++ abytes)).
  { pose proof (p2rq_vec16 _ impl dec _ _ _ _ (p2rq_member _ impl dec cs AtField 1%N R.field_sel _ (p2rq_field2 impl dec cs Hn)) _ _ _ [] Pf) as E.
    rewrite !app_nil_r in E. apply E.
    apply (forallb_Forall (fun m => forallb fattrb (dm_attrs m))); [|exact Hf]. intros m Hm0. exact (forallb_Forall _ _ _ (fun x H => H) Hm0). }
  rewrite Rf. cbn [Base.Str.bind].
  assert (Rm : RF.rd_fmt impl dec (R.acc (BP.rpool dec cs)) R.methods_fmt (mbytes ++ abytes)
               = Ok (RF.VList (map (member_val dec 2%N (mattr_val2 dec)) (d_methods d)), abytes)).
  { pose proof (p2rq_vec16 _ impl dec _ _ _ _ (p2rq_member _ impl dec cs AtMethod 2%N R.method_sel _ (p2rq_method2 impl dec cs Hn)) _ _ _ [] Pm) as E.
    rewrite !app_nil_r in E. apply E.
    apply (forallb_Forall (fun m => forallb mattrb (dm_attrs m))); [|exact Hm]. intros m Hm0. exact (forallb_Forall _ _ _ (fun x H => H) Hm0). }
  rewrite Rm. cbn [Base.Str.bind]. reflexivity.
Qed.

(* ---------------------------------------------------------------------------------------------- *)
(* non-vacuity: deprecated generic class A<…> extends O implements I with InnerClasses, NestMembers, SourceFile, and (because of the
   invokedynamic below) BootstrapMethods; a deprecated synthetic field with ConstantValue and Signature; a generic method
   m()V throws O with Signature whose Code holds new, ldc, a conditional, an invokedynamic call site (bootstrap handle
   kind 6, arguments an Integer and a Class), return; an exception range, two line numbers, a local variable with
   descriptor and signature (LocalVariableTable and LocalVariableTypeTable) *)
Definition xb_A : bytes := [65]%N.  Definition xb_O : bytes := [79]%N.  Definition xb_I : bytes := [73]%N.
Definition xb_f : bytes := [102]%N. Definition xb_m : bytes := [109]%N. Definition xb_V : bytes := [40; 41; 86]%N.
Definition xb_sig : bytes := [76; 81; 59]%N.
Definition x_handle : handle := {| h_kind := 6; h_ref := {| mr_class := xb_A; mr_name := xb_m; mr_desc := xb_V |}; h_iface := false |}.
Definition ex2_code : ccode := {|
  c_max := Some (2, 1);
  c_insns := [ (Some 1%N, None, ICp [187]%N (KClass xb_A) []);
               (None, None, ILdc (LString xb_f));
               (None, None, IBr (KCond 153 154) 2%N);
               (None, None, ICp [186]%N (KIndy xb_m xb_V x_handle [LInt 7; LClass xb_O]) [0; 0]%N);
               (Some 2%N, None, IRaw [177]%N) ];
  c_last := Some 3%N;
  c_exceptions := [ {| x_start := 1%N; x_end := 2%N; x_handler := 2%N; x_catch := Some xb_O |} ];
  c_lines := Some [(1%N, 10); (2%N, 11)];
  c_locals := Some [ {| lv_start := 1%N; lv_end := 3%N; lv_name := xb_f; lv_desc := Some xb_I; lv_sig := Some xb_sig; lv_index := 0 |} ];
  c_tvis := []; c_tinvis := []; c_unknown := [] |}.
Definition ex_file2 : cclass := {|
  k_minor := 0; k_major := 61; k_access := 33;
  k_name := xb_A; k_super := Some xb_O; k_interfaces := [xb_I];
  k_fields := [ {| f_access := 25; f_name := xb_f; f_desc := xb_I; f_deprecated := true; f_synthetic := true;
                   f_constant := Some (CVInt (-5)); f_signature := Some xb_sig; f_annots := no_ann; f_unknown := [] |} ];
  k_methods := [ {| md_access := 9; md_name := xb_m; md_desc := xb_V; md_deprecated := false; md_synthetic := false;
                    md_code := Some ex2_code; md_exceptions := Some [xb_O]; md_signature := Some xb_sig; md_annots := no_ann;
                    md_default := None; md_parameters := None; md_unknown := [] |} ];
  k_deprecated := true; k_synthetic := false;
  k_inner := Some [ {| ic_inner := xb_A; ic_outer := None; ic_name := Some xb_f; ic_flags := 8 |} ];
  k_enclosing := None; k_signature := Some xb_sig; k_source_file := Some xb_f; k_source_debug := None;
  k_annots := no_ann; k_module := None; k_module_packages := None; k_module_main := None;
  k_nest_host := None; k_nest_members := Some [xb_I]; k_permitted := None; k_record := []; k_unknown := [] |}.

Definition desc_check2 (r : res R.class_desc) : bool :=
  match r with
  | Ok cd =>
    str_eqb (R.cd_this cd) [65]%N && (Nat.eqb (length (R.cd_fields cd)) 1) &&
    match R.cd_methods cd with
    | [m] => match R.md_code m with
             | Some k => (Nat.eqb (length (R.k_insns k)) 5) && (Nat.eqb (length (R.k_exc k)) 1) && (Nat.eqb (length (R.k_lines k)) 2)
                         && (Nat.eqb (length (R.k_lvs k)) 2)
             | None => false
             end
    | _ => false
    end
  | Err => false
  end.

Theorem class_file_example2 : exists bs aux d cs cattrs,
  write_class_aux ex_file2 = WOK (bs, aux) /\ cclass_ok ex_file2 = true /\ length (a_bsm aux) = 1%nat /\
  facts_of ex_file2 aux = Some d /\ in_fragment2 ex_file2 aux = true /\
  Forall2 (crel FB.C01.Mutf8.mutf8_dec cs) (d_attrs d) cattrs /\ length cattrs = 6%nat /\
  R.read_class true FB.C01.Mutf8.mutf8_dec bs
  = R.build_class true (BP.rpool FB.C01.Mutf8.mutf8_dec cs) 0%N 61%N (head_val FB.C01.Mutf8.mutf8_dec ex_file2)
      (RF.VList cattrs)
      (RF.VList (map (member_val FB.C01.Mutf8.mutf8_dec 1%N (fattr_val2 FB.C01.Mutf8.mutf8_dec)) (d_fields d)))
      (RF.VList (map (member_val FB.C01.Mutf8.mutf8_dec 2%N (mattr_val2 FB.C01.Mutf8.mutf8_dec)) (d_methods d))) /\
  desc_check2 (R.read_class true FB.C01.Mutf8.mutf8_dec bs) = true.
Proof.
  destruct (write_class_aux ex_file2) as [[bs aux]|?c|] eqn:E; [|vm_compute in E; discriminate|vm_compute in E; discriminate].
  assert (Hok : cclass_ok ex_file2 = true) by (vm_compute; reflexivity).
  pose proof E as E0. vm_compute in E0. injection E0 as Ebs Eaux.
  assert (Hu : pool_utf8_ok FB.C01.Mutf8.mutf8_dec (a_pool aux) = true) by (rewrite <- Eaux; vm_compute; reflexivity).
  destruct (facts_of ex_file2 aux) as [d|] eqn:Hd; [|rewrite <- Eaux in Hd; vm_compute in Hd; discriminate].
  assert (Hf : dclass_frag2 d = true /\ length (d_attrs d) = 6%nat).
  { rewrite <- Eaux in Hd. vm_compute in Hd. injection Hd as <-. split; vm_compute; reflexivity. }
  destruct Hf as [Hf H7].
  destruct (class_file_read2 true FB.C01.Mutf8.mutf8_dec ex_file2 bs aux d Hok E ltac:(vm_compute; reflexivity) Hu ltac:(vm_compute; reflexivity) Hd Hf)
    as (cs & cattrs & _ & _ & Hrel & H).
  exists bs, aux, d, cs, cattrs. split; [reflexivity|]. split; [exact Hok|].
  split; [rewrite <- Eaux; reflexivity|]. split; [exact Hd|].
  split; [unfold in_fragment2; rewrite Hd; exact Hf|]. split; [exact Hrel|].
  split; [rewrite <- (FB.C02.TheoryC3.Forall2_len _ _ _ Hrel); exact H7|]. split; [exact H|].
  rewrite <- Ebs. vm_compute. reflexivity.
Qed.

(* ---------------------------------------------------------------------------------------------- *)
(* A closed form of build_class's Code step, for a Code attribute without inner attributes: what the tree receives
   is determined by the label-free form S that C01's read_code delivers on (code array, exception triples) — the S of
   C02_bridge_code_attr / C02_bridge_write_read, i.e. [expected (tr_body …) (tr_tables …)] — : the instructions of S with
   their pool operands resolved, the exception entries with their labels replaced by the instruction indices of S *)
Module RM := FB.C01.Model.
Definition ci_of (k : dcode) : RM.code_in :=
  {| RM.ci_code := dc_code k; RM.ci_exc := map exc3 (dc_exceptions k); RM.ci_lines := []; RM.ci_ranges := []; RM.ci_frames := [];
     RM.ci_cldc := None; RM.ci_points := [] |}.

Theorem build_code_closed impl dec p b k S : dc_attrs k = [] -> RM.read_code (ci_of k) = Ok S ->
  exists ix,
    RM.cs_exc S = map (fun e => match e with (s, e', h) => (ix s, ix e', ix h) end) (map exc3 (dc_exceptions k)) /\
    R.build_code impl p b (code_val2 dec k)
    = (do xi <- RP.map_res (R.resolve_entry p b) (RM.cs_insns S);
       Ok {| R.k_max_stack := Z.to_N (dc_max_stack k); R.k_max_locals := Z.to_N (dc_max_locals k);
             R.k_insns := xi; R.k_last := RM.cs_last S;
             R.k_exc := map (RF.map_pcs ix) (map (exc_val dec) (dc_exceptions k));
             R.k_lines := []; R.k_lvs := []; R.k_frames := []; R.k_vta := []; R.k_ita := []; R.k_unknown := [] |}).
Proof.
  intros Ha HS. unfold RM.read_code in HS. destruct (RM.read_code_raw (ci_of k)) as [cr|] eqn:Ecr; [|discriminate].
  cbn [Base.Str.bind] in HS. injection HS as <-.
  exists (R.ixf cr). split; [reflexivity|].
  unfold R.build_code, code_val2. rewrite Ha. cbn [R.code_parts map R.fold_attrs RM.fold_res Base.Str.bind].
  unfold R.code_in_of_state. rewrite (exc_triples dec (dc_exceptions k)). cbn [Base.Str.bind].
  change (R.slot_list RFo.a_LineNumberTable (R.st_slots R.st_empty)) with (@nil RF.val).
  change (R.slot_list RFo.a_StackMapTable (R.st_slots R.st_empty)) with (@nil RF.val).
  cbn [RP.map_res Base.Str.bind].
  change {| RM.ci_code := dc_code k; RM.ci_exc := map exc3 (dc_exceptions k); RM.ci_lines := [];
            RM.ci_ranges := _; RM.ci_frames := []; RM.ci_cldc := _; RM.ci_points := _ |} with (ci_of k).
  rewrite Ecr. cbn [Base.Str.bind].
  destruct (RP.map_res (R.resolve_entry p b) (RM.cs_insns (RM.sem (ci_of k) cr))) as [xi|]; [|reflexivity]. cbn [Base.Str.bind].
  unfold R.code_desc_of. f_equal. change (R.frames_of_state R.st_empty) with (@nil RF.val). cbn [map]. rewrite firstn_nil. reflexivity.
Qed.
