(* X12 — bridge, part 19: THE WHOLE FILE, fragment 4 = fragment 3
     + unknown attributes at class / field / method level and inside Code, each under [unk_ok dec name]
     + EnclosingMethod, PermittedSubclasses (class), MethodParameters (method). *)
From Coq Require Import List NArith ZArith Bool Lia.
From FB Require Import C02.Model C02.Encode C02.Theory2 C02.Theory8 C02.Frames C02.Class C02.Decode C02.Facts
  C02.TheoryC1 C02.TheoryC2 C02.TheoryC3 C02.TheoryC8.
From FB Require C01.Bytes C01.Pool C01.Attr C01.Tables C01.Fmt C01.Formats C01.ClassFile C01.Mutf8.
From FB Require X12.BridgePool.
From FB Require Import X12.BridgeClass X12.BridgeMembers X12.BridgeCode X12.BridgeFmt X12.BridgeDyn X12.BridgeFile X12.BridgeFmt2
  X12.BridgeFile2 X12.BridgeFrames X12.BridgeFile3 X12.BridgeUnknown X12.BridgeFmt3.
Import ListNotations.
Local Open Scope Z_scope.

Definition names_ok4 (dec : RB.bytes -> res str) : bool := names_ok3 dec && names3 dec.
Lemma names_ok4_spec dec : names_ok4 dec = true ->
  names_ok3 dec = true /\ names_ok2 dec = true /\ BP.sdec dec s_EnclosingMethod = RFo.a_EnclosingMethod /\
  BP.sdec dec s_PermittedSubclasses = RFo.a_PermittedSubclasses /\ BP.sdec dec s_MethodParameters = RFo.a_MethodParameters.
Proof.
  unfold names_ok4, names3. intros H. apply andb_prop in H. destruct H as [H3 H]. apply andb_prop in H. destruct H as [H H2].
  apply andb_prop in H. destruct H as [H0 H1]. pose proof H3 as H3'. unfold names_ok3 in H3'. apply andb_prop in H3'. destruct H3' as [Hn2 _].
  repeat split; try assumption; apply str_eqb_eq; assumption.
Qed.

(* ---- inside Code ---- *)
Definition innerb4 (dec : RB.bytes -> res str) (a : dattr0) : bool := match a with AUnknown nb _ => unk_ok dec nb | _ => innerb3 a end.
Definition inner_rel4 (dec : RB.bytes -> res str) (a : dattr0) (v : RF.val) : Prop :=
  match a with AUnknown nb b => v = v_Unknown dec nb b | _ => inner_rel dec a v end.
Lemma p2rR_inner4 impl dec cs : names_ok4 dec = true -> forall s a r t,
  p_attr0 AtCode (cslots cs 1) s = Some (a, r) -> innerb4 dec a = true ->
  exists v, RF.rd_fmt impl dec (R.acc (BP.rpool dec cs)) (RF.FAttr R.code_sel) (s ++ t) = Ok (v, r ++ t) /\ inner_rel4 dec a v.
Proof.
  intros Hn s a r t H Ha. destruct (names_ok4_spec dec Hn) as (Hn3 & _).
  destruct a; try exact (p2rR_inner3 impl dec cs Hn3 s _ r t H Ha).
  cbn [innerb4] in Ha. cbn [inner_rel4]. eexists. split; [exact (attr_Unknown0 impl dec cs s name content r t Ha H)|reflexivity].
Qed.

Definition code_rel4 (dec : RB.bytes -> res str) (k : dcode) (v : RF.val) : Prop :=
  exists ivs, v = RF.VSeq [RF.VN (Z.to_N (dc_max_stack k)); RF.VN (Z.to_N (dc_max_locals k)); RF.VB (dc_code k);
                           RF.VList (map (exc_val dec) (dc_exceptions k)); RF.VList ivs] /\
              Forall2 (inner_rel4 dec) (dc_attrs k) ivs.
Lemma p2rR_code4 impl dec cs : names_ok4 dec = true -> forall s k r t,
  p_code (cslots cs 1) s = Some (k, r) -> Forall (fun a => innerb4 dec a = true) (dc_attrs k) ->
  exists v, RF.rd_fmt impl dec (R.acc (BP.rpool dec cs)) R.code_fmt (s ++ t) = Ok (v, r ++ t) /\ code_rel4 dec k v.
Proof.
  intros Hn s k r t H HQ. unfold p_code, pbind in H.
  destruct (p_u16 s) as [[ms s1]|] eqn:E1; [|discriminate]. destruct (p_u16 s1) as [[ml s2]|] eqn:E2; [|discriminate].
  destruct (p_u32 s2) as [[len s3]|] eqn:E3; [|discriminate]. destruct ((len <? 1) || (65535 <? len)); [discriminate|].
  destruct (p_take (Z.to_nat len) s3) as [[code s4]|] eqn:E4; [|discriminate].
  change (fun bs : bytes => match p_u16 bs with Some (a, r0) => _ | None => None end) with (p_exc (cslots cs 1)) in H.
  destruct (p_list16 (p_exc (cslots cs 1)) s4) as [[ex s5]|] eqn:E5; [|discriminate].
  destruct (p_attrs0 AtCode (cslots cs 1) s5) as [[at_ s6]|] eqn:E6; [|discriminate]. unfold pret in H. injection H as <- <-.
  cbn [dc_attrs] in HQ. unfold p_attrs0 in E6.
  destruct (p2rR_vec16 _ (inner_rel4 dec) impl dec _ _ _ (p2rR_inner4 impl dec cs Hn) _ _ _ t E6 HQ) as (ivs & Hivs & Rivs).
  eexists. split; [|exists ivs; split; [reflexivity|exact Rivs]].
  unfold R.code_fmt. cbn [dc_max_stack dc_max_locals dc_code dc_exceptions dc_attrs]. rewrite exc_table_fmt, rd_seq5.
  rewrite (p2r_u16 impl dec _ _ _ _ t E1). cbn [Base.Str.bind]. rewrite (p2r_u16 impl dec _ _ _ _ t E2). cbn [Base.Str.bind].
  destruct (p_take_inv _ _ _ _ E4) as [-> Hc]. destruct (p_u32_app _ _ _ t E3) as [R3 Hl].
  rewrite <- app_assoc in R3.
  rewrite (rd_bytes32 impl dec _ _ _ _ code (s4 ++ t) R3) by (apply take_res_app; lia). cbn [Base.Str.bind].
  rewrite (p2r_vec16 impl dec _ _ _ _ (p2r_exc impl dec cs) _ _ _ t E5). cbn [Base.Str.bind].
  rewrite Hivs. reflexivity.
Qed.

(* ---- method attributes ---- *)
Definition mattrb4 (dec : RB.bytes -> res str) (a : dattr) : bool :=
  match a with
  | ACode k => forallb (innerb4 dec) (dc_attrs k)
  | AExceptions _ | AMethodParameters _ => true
  | ALeaf (AUnknown nb _) => unk_ok dec nb
  | ALeaf a0 => leaf3 a0
  | _ => false
  end.
Definition mrel4 (dec : RB.bytes -> res str) (a : dattr) (v : RF.val) : Prop :=
  match a with
  | ACode k => exists cv, v = RF.VAttr RFo.a_Code cv /\ code_rel4 dec k cv
  | AMethodParameters l => v = v_MethodParameters dec l
  | ALeaf (AUnknown nb b) => v = v_Unknown dec nb b
  | _ => v = mattr_val2 dec a
  end.

Lemma attr_Code4 impl dec cs s k r t : names_ok4 dec = true -> Forall (fun a => innerb4 dec a = true) (dc_attrs k) ->
  p_attr AtMethod (cslots cs 1) s = Some (ACode k, r) ->
  exists v, RF.rd_fmt impl dec (R.acc (BP.rpool dec cs)) (RF.FAttr R.method_sel) (s ++ t) = Ok (v, r ++ t) /\ mrel4 dec (ACode k) v.
Proof.
  intros Hn Hk H. destruct (names_ok4_spec dec Hn) as (_ & Hn2 & _). unfold p_attr in H.
  destruct (attr_with_inv _ _ _ _ _ _ H) as (i & nb & len & s1 & s2 & E1 & G & E2 & Hb).
  destruct (attr_body AtMethod (cslots cs 1) nb) as [q|] eqn:Eq; [|destruct Hb as (b & _ & Hx); discriminate].
  pose proof (name_Code _ _ _ _ _ _ _ Eq Hb) as ->.
  assert (Eq' : attr_body AtMethod (cslots cs 1) s_Code = Some (x <~ p_code (cslots cs 1) ;; pret (ACode x))) by reflexivity.
  rewrite Eq' in Eq. injection Eq as <-.
  destruct (block_inv _ _ _ _ _ Hb) as (b & -> & Hlen & Hpb).
  unfold pbind, pret in Hpb. destruct (p_code (cslots cs 1) b) as [[y rb]|] eqn:Ep; [|discriminate]. injection Hpb as -> ->.
  destruct (p2rR_code4 impl dec cs Hn b k [] (r ++ t) Ep Hk) as (cv & Hcv & Rcv). cbn [app] in Hcv.
  exists (RF.VAttr RFo.a_Code cv). split; [|exists cv; split; [reflexivity|exact Rcv]].
  cbn [RF.rd_fmt]. destruct (p_u16_app s i s1 t E1) as [-> _]. cbn [Base.Str.bind].
  rewrite (acc8 dec cs i _ G). cbn [Base.Str.bind]. rewrite (names_in dec s_Code _ Hn2) by inpairs.
  destruct (p_u32_app s1 len (b ++ r) t E2) as [-> _]. cbn [Base.Str.bind].
  change (R.method_sel RFo.a_Code (Z.to_N len)) with R.code_fmt.
  rewrite <- app_assoc. fold (RF.rd_fmt impl dec (R.acc (BP.rpool dec cs)) R.code_fmt (b ++ r ++ t)). rewrite Hcv. reflexivity.
Qed.

Lemma p2rR_method4 impl dec cs : names_ok4 dec = true -> forall s a r t,
  p_attr AtMethod (cslots cs 1) s = Some (a, r) -> mattrb4 dec a = true ->
  exists v, RF.rd_fmt impl dec (R.acc (BP.rpool dec cs)) (RF.FAttr R.method_sel) (s ++ t) = Ok (v, r ++ t) /\ mrel4 dec a v.
Proof.
  intros Hn s a r t H Ha. destruct (names_ok4_spec dec Hn) as (_ & Hn2 & _ & _ & N3).
  destruct a; try discriminate.
  - destruct a; try discriminate; cbn [mattrb4 mrel4] in *;
      try (eexists; split; [exact (attr_leaf3 impl dec cs AtMethod R.method_sel s _ r t Hn2 (or_intror (or_intror eq_refl)) sel_ok_method Ha H)|reflexivity]).
    eexists. split; [exact (attr_Unknown impl dec cs AtMethod s name content r t (or_intror (or_intror eq_refl)) Ha H)|reflexivity].
  - cbn [mattrb4] in Ha. apply (attr_Code4 impl dec cs s c r t Hn); [|exact H].
    apply Forall_forall. rewrite forallb_forall in Ha. exact Ha.
  - eexists. split; [exact (attr_Exceptions impl dec cs s l r t Hn2 H)|reflexivity].
  - eexists. split; [exact (attr_MethodParameters impl dec cs s l r t N3 H)|reflexivity].
Qed.

(* ---- field attributes ---- *)
Definition fattrb4 (dec : RB.bytes -> res str) (a : dattr) : bool := match a with ALeaf (AUnknown nb _) => unk_ok dec nb | _ => fattrb a end.
Definition fattr_val4 (dec : RB.bytes -> res str) (a : dattr) : RF.val :=
  match a with ALeaf (AUnknown nb b) => v_Unknown dec nb b | _ => fattr_val2 dec a end.
Lemma p2rq_field4 impl dec cs : names_ok4 dec = true ->
  p2rq (fun a => fattrb4 dec a = true) (p_attr AtField (cslots cs 1)) (RF.rd_fmt impl dec (R.acc (BP.rpool dec cs)) (RF.FAttr R.field_sel)) (fattr_val4 dec).
Proof.
  intros Hn s a r t H Ha. destruct (names_ok4_spec dec Hn) as (_ & Hn2 & _).
  destruct a; try exact (p2rq_field2 impl dec cs Hn2 s _ r t H Ha).
  destruct a; try exact (p2rq_field2 impl dec cs Hn2 s _ r t H Ha).
  cbn [fattrb4] in Ha. exact (attr_Unknown impl dec cs AtField s name content r t (or_intror (or_introl eq_refl)) Ha H).
Qed.

(* ---- class attributes ---- *)
Definition cattrb4 (dec : RB.bytes -> res str) (a : dattr) : bool :=
  match a with
  | AEnclosingMethod _ _ | APermittedSubclasses _ => true
  | ALeaf (AUnknown nb _) => unk_ok dec nb
  | _ => cattrb a
  end.
Definition crel4 (dec : RB.bytes -> res str) (cs : list centry) (a : dattr) (v : RF.val) : Prop :=
  match a with
  | AEnclosingMethod c m => v = v_EnclosingMethod dec c m
  | APermittedSubclasses l => v = v_PermittedSubclasses dec l
  | ALeaf (AUnknown nb b) => v = v_Unknown dec nb b
  | _ => crel dec cs a v
  end.
Lemma p2rR_class4 impl dec cs : names_ok4 dec = true -> forall s a r t,
  p_attr AtClass (cslots cs 1) s = Some (a, r) -> cattrb4 dec a = true ->
  exists v, RF.rd_fmt impl dec (R.acc (BP.rpool dec cs)) (RF.FAttr R.class_sel) (s ++ t) = Ok (v, r ++ t) /\ crel4 dec cs a v.
Proof.
  intros Hn s a r t H Ha. destruct (names_ok4_spec dec Hn) as (_ & Hn2 & N1 & N2 & _).
  destruct a; try exact (p2rR_class2 impl dec cs Hn2 s _ r t H Ha).
  - destruct a; try exact (p2rR_class2 impl dec cs Hn2 s _ r t H Ha).
    cbn [cattrb4] in Ha. cbn [crel4]. eexists. split; [exact (attr_Unknown impl dec cs AtClass s name content r t (or_introl eq_refl) Ha H)|reflexivity].
  - cbn [crel4]. eexists. split; [exact (attr_EnclosingMethod impl dec cs s class method r t N1 H)|reflexivity].
  - cbn [crel4]. eexists. split; [exact (attr_PermittedSubclasses impl dec cs s l r t N2 H)|reflexivity].
Qed.

(* ---------------------------------------------------------------------------------------------- *)
Definition dclass_frag4 (dec : RB.bytes -> res str) (d : dclass) : bool :=
  forallb (cattrb4 dec) (d_attrs d) && forallb (fun m => forallb (fattrb4 dec) (dm_attrs m)) (d_fields d)
  && forallb (fun m => forallb (mattrb4 dec) (dm_attrs m)) (d_methods d).
Definition in_fragment4 (dec : RB.bytes -> res str) (t : cclass) (aux : class_aux) : bool :=
  match facts_of t aux with Some d => dclass_frag4 dec d | None => false end.

Theorem class_file_read4 impl dec t bs aux d :
  cclass_ok t = true -> write_class_aux t = WOK (bs, aux) ->
  RA.header_ok FB.C01.Tables.magic (Z.to_N (k_minor t)) (Z.to_N (k_major t)) = true ->
  pool_utf8_ok dec (a_pool aux) = true -> names_ok4 dec = true ->
  facts_of t aux = Some d -> dclass_frag4 dec d = true ->
  exists cs cattrs mvals,
    rev (p_inner (a_pool aux)) = map mk cs /\ agrees (a_pool aux) (cslots cs 1) /\
    Forall2 (crel4 dec cs) (d_attrs d) cattrs /\
    Forall2 (member_rel dec 2%N (mrel4 dec)) (d_methods d) mvals /\
    R.read_class impl dec bs
    = R.build_class impl (BP.rpool dec cs) (Z.to_N (k_minor t)) (Z.to_N (k_major t)) (head_val dec t)
        (RF.VList cattrs)
        (RF.VList (map (member_val dec 1%N (fattr_val4 dec)) (d_fields d)))
        (RF.VList mvals).
Proof.
  intros Hok Hw Hgate Hdec Hn Hd Hfrag.
  destruct (class_read_base impl dec t bs aux Hok Hw Hgate Hdec) as (cs & fields & mbytes & abytes & fs & ms & ds & Ecs & Hag & Hhead & Hfs & Hms & Df & Dm & Da & (d' & Hd' & F1 & F2 & F3)).
  rewrite Hd in Hd'. injection Hd' as <-. subst fs ms ds.
  unfold dclass_frag4 in Hfrag. apply andb_prop in Hfrag. destruct Hfrag as [Hfrag Hm]. apply andb_prop in Hfrag. destruct Hfrag as [Hc Hf].
  pose proof (Df _ _ (mbytes ++ abytes) (pool_ext_refl _) Hag) as Pf.
  pose proof (Dm _ _ abytes (pool_ext_refl _) Hag) as Pm.
  pose proof (Da _ _ [] (pool_ext_refl _) Hag) as Pa. rewrite app_nil_r in Pa.
  destruct (p2rR_vec16 (fun a => cattrb4 dec a = true) (crel4 dec cs) impl dec _ _ _ (p2rR_class4 impl dec cs Hn) _ _ _ [] Pa
              (forallb_Forall _ _ _ (fun x H => H) Hc)) as (cattrs & Ra & Rc).
  rewrite app_nil_r in Ra.
  assert (HmQ : Forall (fun m => Forall (fun a => mattrb4 dec a = true) (dm_attrs m)) (d_methods d)).
  { apply (forallb_Forall (fun m => forallb (mattrb4 dec) (dm_attrs m))); [|exact Hm]. intros m Hm0. exact (forallb_Forall _ _ _ (fun x H => H) Hm0). }
  destruct (p2rR_vec16 _ (member_rel dec 2%N (mrel4 dec)) impl dec _ _ _
              (p2rR_member _ (mrel4 dec) impl dec cs AtMethod 2%N R.method_sel (p2rR_method4 impl dec cs Hn)) _ _ _ [] Pm HmQ) as (mvals & Rm & Rmr).
  rewrite !app_nil_r in Rm.
  exists cs, cattrs, mvals. split; [exact Ecs|]. split; [exact Hag|]. split; [exact Rc|]. split; [exact Rmr|].
  rewrite (read_class_head impl dec bs _ _ _ _ _ Hhead).
  pose proof (members_read impl dec cs AtField 1%N _ _ _ Pf) as Sf. apply rd_headers_skip in Sf.
  pose proof (members_read impl dec cs AtMethod 2%N _ _ _ Pm) as Sm. apply rd_headers_skip in Sm.
  rewrite Sf. cbn [Base.Str.bind]. rewrite Sm. cbn [Base.Str.bind].
  unfold R.class_attrs_fmt. rewrite Ra. cbn [Base.Str.bind].
  assert (Rf : RF.rd_fmt impl dec (R.acc (BP.rpool dec cs)) R.fields_fmt (fields ++ mbytes ++ abytes)
               = Ok (RF.VList (map (member_val dec 1%N (fattr_val4 dec)) (d_fields d)), mbytes ++ abytes)).
  { pose proof (p2rq_vec16 _ impl dec _ _ _ _ (p2rq_member _ impl dec cs AtField 1%N R.field_sel _ (p2rq_field4 impl dec cs Hn)) _ _ _ [] Pf) as E.
    rewrite !app_nil_r in E. apply E.
    apply (forallb_Forall (fun m => forallb (fattrb4 dec) (dm_attrs m))); [|exact Hf]. intros m Hm0. exact (forallb_Forall _ _ _ (fun x H => H) Hm0). }
  rewrite Rf. cbn [Base.Str.bind]. unfold R.methods_fmt. rewrite Rm. cbn [Base.Str.bind]. reflexivity.
Qed.

(* ---------------------------------------------------------------------------------------------- *)
(* non-vacuity: the class of BridgeFile3 with EnclosingMethod, PermittedSubclasses, an unknown class attribute "X";
   a field with an unknown attribute; a method with MethodParameters, an unknown attribute, and an unknown attribute
   inside its Code (beside line numbers and a frame) *)
Definition xb_X : bytes := [88]%N.
Definition ex4_code : ccode := {|
  c_max := Some (2, 1);
  c_insns := [ (Some 1%N, None, IRaw [3]%N); (None, None, IBr (KCond 153 154) 2%N); (Some 2%N, Some CFSame, IRaw [177]%N) ];
  c_last := None; c_exceptions := []; c_lines := Some [(1%N, 7)]; c_locals := None;
  c_tvis := []; c_tinvis := []; c_unknown := [(xb_X, [9; 9]%N)] |}.
Definition ex_file4 : cclass := {|
  k_minor := 0; k_major := 61; k_access := 33;
  k_name := xb_A; k_super := Some xb_O; k_interfaces := [];
  k_fields := [ {| f_access := 2; f_name := xb_f; f_desc := xb_I; f_deprecated := false; f_synthetic := false;
                   f_constant := None; f_signature := None; f_annots := no_ann; f_unknown := [(xb_X, [1]%N)] |} ];
  k_methods := [ {| md_access := 9; md_name := xb_m; md_desc := xb_V; md_deprecated := false; md_synthetic := false;
                    md_code := Some ex4_code; md_exceptions := None; md_signature := None; md_annots := no_ann;
                    md_default := None; md_parameters := Some [(Some xb_f, 16); (None, 0)]; md_unknown := [(xb_X, [])] |} ];
  k_deprecated := false; k_synthetic := false; k_inner := None;
  k_enclosing := Some (xb_O, Some (xb_m, xb_V)); k_signature := None; k_source_file := Some xb_f; k_source_debug := None;
  k_annots := no_ann; k_module := None; k_module_packages := None; k_module_main := None;
  k_nest_host := Some xb_O; k_nest_members := None; k_permitted := Some [xb_I]; k_record := [];
  k_unknown := [(xb_X, [1; 2; 3]%N)] |}.

Definition desc_check4 (r : res R.class_desc) : bool :=
  match r with
  | Ok cd =>
    (Nat.eqb (length (R.cd_unknown cd)) 1) &&
    match R.cd_fields cd, R.cd_methods cd with
    | [f], [m] => (Nat.eqb (length (R.md_unknown f)) 1) && (Nat.eqb (length (R.md_unknown m)) 1) &&
                  match R.md_code m with
                  | Some k => (Nat.eqb (length (R.k_unknown k)) 1) && (Nat.eqb (length (R.k_frames k)) 1)
                  | None => false
                  end
    | _, _ => false
    end
  | Err => false
  end.

Theorem class_file_example4 : exists bs aux d cs cattrs mvals,
  write_class_aux ex_file4 = WOK (bs, aux) /\ cclass_ok ex_file4 = true /\
  facts_of ex_file4 aux = Some d /\ in_fragment4 FB.C01.Mutf8.mutf8_dec ex_file4 aux = true /\ in_fragment3 ex_file4 aux = false /\
  Forall2 (crel4 FB.C01.Mutf8.mutf8_dec cs) (d_attrs d) cattrs /\ length cattrs = 5%nat /\
  Forall2 (member_rel FB.C01.Mutf8.mutf8_dec 2%N (mrel4 FB.C01.Mutf8.mutf8_dec)) (d_methods d) mvals /\
  R.read_class true FB.C01.Mutf8.mutf8_dec bs
  = R.build_class true (BP.rpool FB.C01.Mutf8.mutf8_dec cs) 0%N 61%N (head_val FB.C01.Mutf8.mutf8_dec ex_file4)
      (RF.VList cattrs)
      (RF.VList (map (member_val FB.C01.Mutf8.mutf8_dec 1%N (fattr_val4 FB.C01.Mutf8.mutf8_dec)) (d_fields d)))
      (RF.VList mvals) /\
  desc_check4 (R.read_class true FB.C01.Mutf8.mutf8_dec bs) = true.
Proof.
  destruct (write_class_aux ex_file4) as [[bs aux]|?c|] eqn:E; [|vm_compute in E; discriminate|vm_compute in E; discriminate].
  assert (Hok : cclass_ok ex_file4 = true) by (vm_compute; reflexivity).
  pose proof E as E0. vm_compute in E0. injection E0 as Ebs Eaux.
  assert (Hu : pool_utf8_ok FB.C01.Mutf8.mutf8_dec (a_pool aux) = true) by (rewrite <- Eaux; vm_compute; reflexivity).
  destruct (facts_of ex_file4 aux) as [d|] eqn:Hd; [|rewrite <- Eaux in Hd; vm_compute in Hd; discriminate].
  assert (Hf : dclass_frag4 FB.C01.Mutf8.mutf8_dec d = true /\ dclass_frag3 d = false /\ length (d_attrs d) = 5%nat).
  { rewrite <- Eaux in Hd. vm_compute in Hd. injection Hd as <-. repeat split; vm_compute; reflexivity. }
  destruct Hf as (Hf & Hf3 & H5).
  destruct (class_file_read4 true FB.C01.Mutf8.mutf8_dec ex_file4 bs aux d Hok E ltac:(vm_compute; reflexivity) Hu ltac:(vm_compute; reflexivity) Hd Hf)
    as (cs & cattrs & mvals & _ & _ & Hrel & Hmrel & H).
  exists bs, aux, d, cs, cattrs, mvals. split; [reflexivity|]. split; [exact Hok|]. split; [exact Hd|].
  split; [unfold in_fragment4; rewrite Hd; exact Hf|]. split; [unfold in_fragment3; rewrite Hd; exact Hf3|].
  split; [exact Hrel|]. split; [rewrite <- (Forall2_len _ _ _ Hrel); exact H5|]. split; [exact Hmrel|]. split; [exact H|].
  rewrite <- Ebs. vm_compute. reflexivity.
Qed.
