(* X12 — bridge, part 4: what the translated body looks like, entry by entry.
   (a) [tr_body_at]: the j-th entry of the tree's body is seen by the reader as the instruction(s)
       [tr_entry T k c e] starting at index k = [eidx … j] (the number of instructions before it);
   (b) [T_of_carrier] / [T_of_last]: under unique_labels the index T_of l is the index of the (first
       instruction of the) entry that carries l, and the last label is the number of instructions;
   (c) pool operands: the Plain entries whose bytes the writer model itself assembles — the ldc family,
       invokeinterface, and every `opcode, u16 pool index, …` instruction — are decoded by the bridge
       to the instruction with exactly the index the writer wrote ([plain_cp8], [plain_cp16]). *)
From Coq Require Import List NArith ZArith Bool Lia.
From FB Require Import Base.Str C01.Model C01.Theory1 C01.Theory4 C01.Theory14.
From FB Require C02.Model C02.Encode C02.Theory3.
From FB Require Import X12.BridgeDefs X12.BridgePlain X12.BridgeEnc X12.Bridge.
Import ListNotations.

(* index of the first translated instruction of every entry *)
Fixpoint eidx (chs : list bool) (k : nat) (b : W.body) : list nat :=
  match b, chs with
  | (_, e) :: r, c :: cs => k :: eidx cs (cnt c e + k) r
  | _, _ => []
  end.

Lemma eidx_ge : forall b chs k0 j k, nth_error (eidx chs k0 b) j = Some k -> (k0 <= k)%nat.
Proof.
  induction b as [|[lb e] r IH]; intros chs k0 j k H; destruct chs as [|c cs]; cbn [eidx] in H; try (destruct j; discriminate).
  destruct j as [|j]; cbn [nth_error] in H; [injection H as <-; lia|]. apply IH in H. lia.
Qed.

Lemma tr_from_at T : forall b chs k0 j lb e c k,
  nth_error b j = Some (lb, e) -> nth_error chs j = Some c -> nth_error (eidx chs k0 b) j = Some k ->
  firstn (cnt c e) (skipn (k - k0) (tr_from T chs k0 b)) = tr_entry T k c e.
Proof.
  induction b as [|[lb0 e0] r IH]; intros chs k0 j lb e c k Hb Hc Hk; [destruct j; discriminate|].
  destruct chs as [|c0 cs]; [destruct j; discriminate|]. cbn [eidx tr_from] in *.
  destruct j as [|j]; cbn [nth_error] in Hb, Hc, Hk.
  - injection Hb as <- <-. injection Hc as <-. injection Hk as <-. rewrite Nat.sub_diag. cbn [skipn].
    rewrite firstn_app, tr_entry_length, Nat.sub_diag, firstn_all2 by (rewrite tr_entry_length; lia).
    cbn [firstn]. apply app_nil_r.
  - pose proof (eidx_ge _ _ _ _ _ Hk) as G.
    rewrite skipn_app, tr_entry_length, skipn_all2 by (rewrite tr_entry_length; lia). cbn [app].
    replace (k - k0 - cnt c0 e0)%nat with (k - (cnt c0 e0 + k0))%nat by lia.
    apply (IH cs _ j lb e c k Hb Hc Hk).
Qed.

(* (a) *)
Theorem tr_body_at b chs last j lb e c k :
  nth_error b j = Some (lb, e) -> nth_error chs j = Some c -> nth_error (eidx chs 0 b) j = Some k ->
  firstn (cnt c e) (skipn k (tr_body chs b last)) = tr_entry (T_of chs b last) k c e.
Proof.
  intros Hb Hc Hk. pose proof (tr_from_at (T_of chs b last) b chs 0 j lb e c k Hb Hc Hk) as H.
  rewrite Nat.sub_0_r in H. exact H.
Qed.

Lemma in_body_labels b j l e : nth_error b j = Some (Some l, e) -> In l (W3.body_labels b).
Proof.
  intros H. apply nth_error_In in H. unfold W3.body_labels. apply in_flat_map. exists (Some l, e). split; [exact H|left; reflexivity].
Qed.

Lemma lidx_carrier : forall b chs k0 last j l e k, NoDup (W3.body_labels b) ->
  nth_error b j = Some (Some l, e) -> nth_error (eidx chs k0 b) j = Some k -> lidx chs k0 b last l = Some k.
Proof.
  induction b as [|[lb0 e0] r IH]; intros chs k0 last j l e k Hnd Hb Hk; [destruct j; discriminate|].
  destruct chs as [|c0 cs]; [destruct j; discriminate|]. cbn [eidx lidx] in *.
  destruct j as [|j]; cbn [nth_error] in Hb, Hk.
  - injection Hb as -> <-. injection Hk as <-. cbn [WE.olabel_is]. rewrite N.eqb_refl. reflexivity.
  - cbn [W3.body_labels flat_map fst] in Hnd. fold (W3.body_labels r) in Hnd.
    assert (F : WE.olabel_is lb0 l = false).
    { destruct (WE.olabel_is lb0 l) eqn:E; [|reflexivity]. apply W3.olabel_is_spec in E. subst lb0. exfalso.
      cbn [W3.olist app] in Hnd. inversion Hnd as [|? ? Hn _]. apply Hn. apply (in_body_labels r j l e Hb). }
    rewrite F. apply (IH cs _ last j l e k (W3.nodup_app_r _ _ Hnd) Hb Hk).
Qed.

(* (b) a label designates the first instruction of the entry that carries it … *)
Theorem T_of_carrier b chs last j l e k : W3.unique_labels b last ->
  nth_error b j = Some (Some l, e) -> nth_error (eidx chs 0 b) j = Some k -> T_of chs b last l = k.
Proof.
  intros Hu Hb Hk. unfold T_of. rewrite (lidx_carrier b chs 0 last j l e k (W3.nodup_app_l _ _ Hu) Hb Hk). reflexivity.
Qed.

Lemma lidx_last : forall b chs k0 l, length chs = length b -> ~ In l (W3.body_labels b) ->
  lidx chs k0 b (Some l) l = Some (k0 + length (chl_from chs b))%nat.
Proof.
  induction b as [|[lb0 e0] r IH]; intros chs k0 l Hl Hn; destruct chs as [|c0 cs]; try discriminate; cbn [lidx chl_from].
  - cbn [WE.olabel_is length]. rewrite N.eqb_refl, Nat.add_0_r. reflexivity.
  - cbn [W3.body_labels flat_map fst] in Hn. fold (W3.body_labels r) in Hn.
    assert (F : WE.olabel_is lb0 l = false).
    { destruct (WE.olabel_is lb0 l) eqn:E; [|reflexivity]. apply W3.olabel_is_spec in E. subst lb0. exfalso.
      apply Hn. left. reflexivity. }
    rewrite F, (IH cs _ l) by (cbn [length] in Hl; try lia; intros H; apply Hn, in_or_app; right; exact H).
    rewrite app_length, ch_entry_length. f_equal. lia.
Qed.

(* … and the last label designates the end: the number of instructions *)
Theorem T_of_last b chs l : length chs = length b -> W3.unique_labels b (Some l) ->
  T_of chs b (Some l) l = length (tr_body chs b (Some l)).
Proof.
  intros Hl Hu. unfold T_of, tr_body. rewrite tr_from_length, lidx_last; [reflexivity|exact Hl|].
  unfold W3.unique_labels in Hu. cbn [W3.olist] in Hu. intros Hin.
  apply NoDup_remove_2 in Hu. apply Hu. rewrite app_nil_r. exact Hin.
Qed.

Theorem bridge_labels b chs last : W3.unique_labels b last ->
  (forall j l e k, nth_error b j = Some (Some l, e) -> nth_error (eidx chs 0 b) j = Some k -> T_of chs b last l = k) /\
  (forall l, last = Some l -> length chs = length b -> T_of chs b last l = length (tr_body chs b last)).
Proof.
  intros Hu. split.
  - intros j l e k Hb Hk. exact (T_of_carrier b chs last j l e k Hu Hb Hk).
  - intros l E Hl. subst last. apply T_of_last; assumption.
Qed.

(* ---------------------------------------------------------------------------------------------- *)
(* (c) pool operands *)
Lemma u16_small x : (0 <= x < 65536)%Z -> u16 x = Z.to_N x.
Proof. intros H. unfold u16. rewrite Z.mod_small by lia. reflexivity. Qed.

(* opcode, u16 pool index, further operands: getstatic … invokestatic, new, anewarray, checkcast,
   instanceof, ldc_w, ldc2_w (post = []), multianewarray (post = [dimensions]), invokeinterface /
   invokedynamic (post = the two ignored bytes) *)
Theorem plain_cp16 op ctor k rs x post ops :
  pass2_entry op = P2 ctor (RCp16 k :: rs) -> (0 <= x < 65536)%Z ->
  dec_ops [] 0 rs post = Ok (ops, []) ->
  plain_insn (op :: W.be16 x ++ post) = Some (Gen ctor (OpC k (Z.to_N x) :: map (map_op zN) ops)).
Proof.
  intros E Hx HD. unfold plain_insn. rewrite E. unfold plain_ops. cbn [dec_ops].
  rewrite wbe16_eq. unfold bei16. rewrite rd_u16_be16. cbn [bind]. rewrite HD. cbn [bind map map_op].
  rewrite (u16_small x Hx). reflexivity.
Qed.

(* opcode, u8 pool index: ldc *)
Theorem plain_cp8 op ctor k x :
  pass2_entry op = P2 ctor [RCp8 k] -> plain_insn [op; x] = Some (Gen ctor [OpC k x]).
Proof. intros E. unfold plain_insn. rewrite E. reflexivity. Qed.

(* the three instruction kinds the writer model assembles itself (C02/Class.v lower_insn) *)
Theorem plain_writer_built :
  (forall i, plain_insn [18; i] = Some (Gen 18 [OpC 0 i])) /\
  (forall x, (0 <= x < 65536)%Z -> plain_insn (19 :: W.be16 x) = Some (Gen 18 [OpC 0 (Z.to_N x)])
                                /\ plain_insn (20 :: W.be16 x) = Some (Gen 18 [OpC 0 (Z.to_N x)])) /\
  (forall x n, (0 <= x < 65536)%Z ->
     plain_insn (185 :: W.be16 x ++ [W.byte_of n; 0]) = Some (Gen 185 [OpC 4 (Z.to_N x)])).
Proof.
  split; [|split].
  - intros i. apply plain_cp8. reflexivity.
  - intros x Hx. split.
    + rewrite <- (app_nil_r (W.be16 x)). apply (plain_cp16 19 18 0 [] x [] []); [reflexivity|exact Hx|reflexivity].
    + rewrite <- (app_nil_r (W.be16 x)). apply (plain_cp16 20 18 0 [] x [] []); [reflexivity|exact Hx|reflexivity].
  - intros x n Hx. apply (plain_cp16 185 185 4 [RSkip8; RSkip8] x [W.byte_of n; 0] []); [reflexivity|exact Hx|reflexivity].
Qed.
