(* X12 — bridge, part 6: THE CONSTANT POOL across the two models.
   C02's writer keeps a hash-consing pool of entries keyed by their class-file bytes (C02/Model.v pool,
   C02/Class.v centry / mk / pool_bytes); C01's reader parses the pool bytes into [list (option entry)]
   with Utf8 entries decoded (C01/ClassFile.v rd_pool, C01/Pool.v accessors).

   (1) bytes: what [pool_bytes] emits for a pool built by [put] IS C01's [enc_pool] of the translated
       entries ([tr_centry]: the same tags and numbers, Z -> N), which fit their fields; hence C01's
       [rd_pool] reads it to [rpool dec cs]: the translated entries, Utf8 decoded, Long / Double
       followed by an unusable slot, index 0 unusable.
   (2) indices: whatever C02's own kind-checked decoder (C02/Decode.v get_utf8 / get_class / get_string /
       get_nat / get_fieldref / get_methodref / get_imethodref / get_handle / get_cvalue / …) finds at an
       index of the written pool, C01's accessor of the same kind (Pool.v get_utf8 / get_class / get_nt /
       get_field_ref / get_method_ref / get_imethod_ref / get_method_handle / get_constant_value / …)
       finds at the same index, with every string decoded.  All of C02's `refers g x p i` facts (what each
       put returned designates in the final pool) therefore hold of C01's reader.
   Outside: Dynamic / InvokeDynamic entries are translated and read (tags 17 / 18) but their resolution
   through the BootstrapMethods table is not bridged. *)
From Coq Require Import List NArith ZArith Bool Lia.
From FB Require Import Base.Str C01.Bytes C01.Pool C01.ClassFile C01.Theory8.
From FB Require C02.Model C02.Class C02.Decode C02.Theory8 C02.TheoryC1 C02.TheoryC2.
From FB Require Import X12.BridgeDefs X12.BridgePlain.
Import ListNotations.
Module WC := FB.C02.Class.
Module WD := FB.C02.Decode.
Module W8 := FB.C02.Theory8.
Module WC1 := FB.C02.TheoryC1.
Module WC2 := FB.C02.TheoryC2.
Arguments N.add : simpl never.
Arguments N.mul : simpl never.
Arguments N.sub : simpl never.
Arguments N.modulo : simpl never.
Arguments N.div : simpl never.
Arguments Z.add : simpl never.
Arguments Z.sub : simpl never.
Arguments Z.mul : simpl never.
Arguments Z.modulo : simpl never.
Arguments Z.div : simpl never.

Ltac dlia := zify; Z.to_euclidean_division_equations; lia.

Definition tr_centry (c : WC.centry) : entry :=
  match c with
  | WC.CUtf8 s => EUtf8 s
  | WC.CInteger v => EInt v
  | WC.CFloat b => EFloat (Z.to_N b)
  | WC.CLong v => ELong v
  | WC.CDouble b => EDouble (Z.to_N b)
  | WC.CClass n => EClass (Z.to_N n)
  | WC.CString n => EString (Z.to_N n)
  | WC.CFieldRef a b => EFieldRef (Z.to_N a) (Z.to_N b)
  | WC.CMethodRef a b => EMethodRef (Z.to_N a) (Z.to_N b)
  | WC.CIMethodRef a b => EIMethodRef (Z.to_N a) (Z.to_N b)
  | WC.CNameAndType a b => ENameAndType (Z.to_N a) (Z.to_N b)
  | WC.CMethodHandle k r => EMethodHandle (Z.to_N k) (Z.to_N r)
  | WC.CMethodType d => EMethodType (Z.to_N d)
  | WC.CDynamic a b => EDynamic (Z.to_N a) (Z.to_N b)
  | WC.CInvokeDynamic a b => EInvokeDynamic (Z.to_N a) (Z.to_N b)
  | WC.CModule n => EModule (Z.to_N n)
  | WC.CPackage n => EPackage (Z.to_N n)
  end.

(* ---------------------------------------------------------------------------------------------- *)
(* numbers *)
Lemma wbe16_w16 n : (0 <= n <= 65535)%Z -> W.be16 n = w16 (Z.to_N n).
Proof.
  intros H. rewrite wbe16_eq. unfold bei16, w16, u16. f_equal.
  rewrite Z.mod_small by lia. rewrite N.mod_small by lia. reflexivity.
Qed.
Lemma wbe32_w32 n : (0 <= n < 4294967296)%Z -> W.be32 n = w32 (Z.to_N n).
Proof.
  intros H. rewrite wbe32_eq. unfold bei32, w32, u32. f_equal.
  rewrite Z.mod_small by lia. rewrite N.mod_small by lia. reflexivity.
Qed.
Lemma wbe32_u32 z : W.be32 z = w32 (u32 z).
Proof. rewrite wbe32_eq. unfold bei32, w32. pose proof (u32_lt z). rewrite N.mod_small by lia. reflexivity. Qed.
Lemma w32_mod n : w32 (n mod 4294967296) = w32 n.
Proof. unfold w32. rewrite N.mod_mod by lia. reflexivity. Qed.
Lemma wbe64_w64 z : WC.be64 z = w64 (u64 z).
Proof.
  unfold WC.be64, w64. rewrite !wbe32_u32. unfold u32, u64. f_equal.
  - rewrite <- (w32_mod (Z.to_N (z mod 18446744073709551616) / 4294967296)). f_equal. dlia.
  - rewrite <- (w32_mod (Z.to_N (z mod 18446744073709551616))). f_equal. dlia.
Qed.
Lemma u64_small b : (0 <= b < 18446744073709551616)%Z -> u64 b = Z.to_N b.
Proof. intros H. unfold u64. rewrite Z.mod_small by lia. reflexivity. Qed.

(* ---------------------------------------------------------------------------------------------- *)
(* one entry *)
Lemma centry_bytes_enc c : WC1.centry_ok c -> WC.centry_bytes c = enc_entry (tr_centry c).
Proof.
  destruct c; cbn [WC1.centry_ok WC.centry_bytes tr_centry enc_entry]; unfold WC1.idx_ok; intros H.
  - f_equal. f_equal. unfold W.zlen in *. rewrite wbe16_w16 by lia. f_equal. lia.
  - f_equal. apply wbe32_u32.
  - f_equal. apply wbe32_w32. lia.
  - f_equal. apply wbe64_w64.
  - f_equal. rewrite wbe64_w64, u64_small by lia. reflexivity.
  - f_equal. apply wbe16_w16. lia.
  - f_equal. apply wbe16_w16. lia.
  - f_equal. rewrite !wbe16_w16 by lia. reflexivity.
  - f_equal. rewrite !wbe16_w16 by lia. reflexivity.
  - f_equal. rewrite !wbe16_w16 by lia. reflexivity.
  - f_equal. rewrite !wbe16_w16 by lia. reflexivity.
  - f_equal. rewrite wbe16_w16 by lia. unfold w8, W.byte_of. cbn [app]. f_equal.
    rewrite Z.mod_small by lia. rewrite N.mod_small by lia. reflexivity.
  - f_equal. apply wbe16_w16. lia.
  - f_equal. rewrite !wbe16_w16 by lia. reflexivity.
  - f_equal. rewrite !wbe16_w16 by lia. reflexivity.
  - f_equal. apply wbe16_w16. lia.
  - f_equal. apply wbe16_w16. lia.
Qed.

Lemma ltb_of_Z n b : (0 <= n)%Z -> (n < Z.of_N b)%Z -> (Z.to_N n <? b) = true.
Proof. intros. apply N.ltb_lt. lia. Qed.

Lemma entry_fits_tr c : WC1.centry_ok c -> entry_fits (tr_centry c) = true.
Proof.
  destruct c; cbn [WC1.centry_ok tr_centry entry_fits]; unfold WC1.idx_ok, W.zlen; intros H;
    rewrite ?andb_true_iff; repeat split;
    try (apply N.ltb_lt; lia); try (apply fits32_spec; lia).
  unfold fits64. apply andb_true_iff. split; [apply Z.leb_le|apply Z.ltb_lt]; lia.
Qed.

Lemma two_slot_tr c : two_slot (tr_centry c) = WC.centry_two c.
Proof. destruct c; reflexivity. Qed.

Lemma pool_slots_tr cs : Z.of_N (pool_slots (map tr_centry cs)) = WC1.ctotal cs.
Proof.
  induction cs as [|c cs IH]; cbn [map pool_slots WC1.ctotal]; [reflexivity|].
  rewrite two_slot_tr. destruct (WC.centry_two c); lia.
Qed.

(* ---------------------------------------------------------------------------------------------- *)
(* (1) the bytes of the pool *)
Theorem pool_bytes_enc p pb :
  W8.PInv p -> Forall WC1.made (W.p_inner p) -> WC.pool_bytes p = Ok pb ->
  exists cs, rev (W.p_inner p) = map WC.mk cs /\ Forall WC1.centry_ok cs /\
             pb = enc_pool (map tr_centry cs) /\ pool_fits (map tr_centry cs) = true.
Proof.
  intros Hinv Hmade. unfold WC.pool_bytes, W.frev. rewrite <- rev_alt.
  destruct (existsb _ (rev (W.p_inner p))) eqn:Elong; [discriminate|]. intros Hpb.
  assert (Epb : pb = W.be16 (W.p_count p) ++ flat_map W.pe_key (rev (W.p_inner p))) by congruence.
  clear Hpb. subst pb.
  assert (Hm : Forall WC1.made (rev (W.p_inner p))) by (apply Forall_rev, Hmade).
  destruct (WC1.made_list _ Hm) as (cs & Ecs & Hwf).
  assert (Hcs : Forall WC1.centry_ok cs) by (apply WC1.not_too_long; [rewrite <- Ecs; exact Elong|exact Hwf]).
  exists cs. split; [exact Ecs|]. split; [exact Hcs|].
  pose proof (W8.pool_count p Hinv) as Hc. rewrite Ecs, WC1.total_ctotal in Hc.
  pose proof (WC1.ctotal_nonneg cs) as Hnn. destruct Hinv as [_ _ _ Hb].
  pose proof (pool_slots_tr cs) as Hps.
  split.
  - unfold enc_pool. rewrite wbe16_w16 by lia. f_equal; [f_equal; lia|].
    rewrite Ecs. clear -Hcs. induction Hcs as [|c cs Hc _ IH]; [reflexivity|].
    cbn [map flat_map]. rewrite IH. f_equal. cbn [WC.mk W.pe_key]. apply centry_bytes_enc. exact Hc.
  - unfold pool_fits. apply andb_true_iff. split; [apply N.ltb_lt; lia|].
    apply forallb_forall. intros e He. apply in_map_iff in He. destruct He as (c & <- & Hin).
    apply entry_fits_tr. rewrite Forall_forall in Hcs. apply Hcs. exact Hin.
Qed.

(* the reader's pool: translated entries with Utf8 decoded *)
Definition sdec (dec : bytes -> res str) (b : bytes) : str := match dec b with Ok x => x | Err => [] end.
Definition trd (dec : bytes -> res str) (c : WC.centry) : entry :=
  match c with WC.CUtf8 s => EUtf8 (sdec dec s) | _ => tr_centry c end.
Definition rpool (dec : bytes -> res str) (cs : list WC.centry) : pool := pool_of_entries (map (trd dec) cs).
(* every Utf8 entry of the pool decodes *)
Definition utf8s_decode (dec : bytes -> res str) (cs : list WC.centry) : Prop :=
  Forall (fun c => match c with WC.CUtf8 s => exists x, dec s = Ok x | _ => True end) cs.

Lemma decode_pool_tr dec cs : utf8s_decode dec cs -> decode_pool dec (map tr_centry cs) = Ok (rpool dec cs).
Proof.
  intros H. unfold decode_pool, rpool.
  assert (E : map_res (dec_entry dec) (map tr_centry cs) = Ok (map (trd dec) cs)).
  { induction H as [|c cs Hc _ IH]; [reflexivity|]. cbn [map map_res]. rewrite IH.
    destruct c; cbn [tr_centry dec_entry trd bind]; try reflexivity.
    destruct Hc as (x & Hx). unfold sdec. rewrite Hx. reflexivity. }
  rewrite E. reflexivity.
Qed.

Theorem pool_read dec p pb rest :
  W8.PInv p -> Forall WC1.made (W.p_inner p) -> WC.pool_bytes p = Ok pb ->
  exists cs, rev (W.p_inner p) = map WC.mk cs /\ Forall WC1.centry_ok cs /\
             WC1.agrees p (WC1.cslots cs 1) /\
             (utf8s_decode dec cs -> rd_pool dec (pb ++ rest) = Ok (rpool dec cs, rest)).
Proof.
  intros Hinv Hmade Hpb. destruct (pool_bytes_enc p pb Hinv Hmade Hpb) as (cs & Ecs & Hcs & -> & Hfit).
  exists cs. split; [exact Ecs|]. split; [exact Hcs|]. split.
  - (* as in C02's pool_bytes_ok *)
    intros i e He Hr. unfold W.pool_resolve in Hr. unfold W.frev in Hr. rewrite <- rev_alt, Ecs, WC1.slots_of_mk, WC1.find_map_mk in Hr.
    rewrite WC1.cp_get_cslots. destruct (find _ (WC1.cslots cs 1)) as [[j x]|] eqn:Ef; cbn [option_map snd fst] in *; [|discriminate].
    assert (Hx : WC.mk x = WC.mk e) by congruence. clear Hr. f_equal. apply WC1.mk_inj; [|exact He|exact Hx].
    apply find_some in Ef. destruct Ef as [Hin _].
    assert (Hwf : Forall WC1.centry_wf cs).
    { clear -Hcs. induction Hcs as [|c cs Hc _ IH]; constructor; [|exact IH]. destruct c; try exact Hc. exact I. }
    clear -Hin Hwf. revert Hin. generalize 1%Z. induction cs as [|c cs IH]; intros k; cbn [WC1.cslots]; [intros []|].
    inversion Hwf; subst. intros [[= _ <-]|Hin]; [assumption|]. eapply IH; eauto.
  - intros Hd. rewrite (rd_pool_enc dec _ rest Hfit), (decode_pool_tr dec cs Hd). reflexivity.
Qed.

(* ---------------------------------------------------------------------------------------------- *)
(* (2) indices *)
Definition slotsf (e : entry) : list (option entry) := if two_slot e then [Some e; None] else [Some e].
Lemma cp_get_ge : forall cs i0 i e, WD.cp_get (WC1.cslots cs i0) i = Some e -> (i0 <= i)%Z.
Proof.
  induction cs as [|c cs IH]; intros i0 i e H; cbn [WC1.cslots WD.cp_get] in H; [discriminate|].
  destruct (Z.eqb_spec i0 i); [lia|]. apply IH in H. destruct (WC.centry_two c); lia.
Qed.

Lemma cp_get_nth (f : WC.centry -> entry) : (forall c, two_slot (f c) = WC.centry_two c) ->
  forall cs i0 i e, WD.cp_get (WC1.cslots cs i0) i = Some e ->
  nth_error (flat_map slotsf (map f cs)) (Z.to_nat (i - i0)) = Some (Some (f e)).
Proof.
  intros Hf. induction cs as [|c cs IH]; intros i0 i e H; cbn [WC1.cslots WD.cp_get] in H; [discriminate|].
  cbn [map flat_map]. destruct (Z.eqb_spec i0 i) as [->|Hne].
  - injection H as <-. rewrite Z.sub_diag. unfold slotsf. destruct (two_slot (f c)); reflexivity.
  - pose proof (cp_get_ge _ _ _ _ H) as G. specialize (IH _ _ _ H).
    unfold slotsf at 1. rewrite Hf. destruct (WC.centry_two c).
    + replace (Z.to_nat (i - i0)) with (S (S (Z.to_nat (i - (i0 + 2))))) by lia. exact IH.
    + replace (Z.to_nat (i - i0)) with (S (Z.to_nat (i - (i0 + 1)))) by lia. exact IH.
Qed.

Lemma trd_two dec c : two_slot (trd dec c) = WC.centry_two c.
Proof. destruct c; reflexivity. Qed.

(* what C02's decoder finds at an index, C01's reader finds there *)
Lemma pget_rpool dec cs i e : WD.cp_get (WC1.cslots cs 1) i = Some e -> pget (rpool dec cs) (Z.to_N i) = Ok (trd dec e).
Proof.
  intros H. pose proof (cp_get_ge _ _ _ _ H) as G.
  pose proof (cp_get_nth (trd dec) (trd_two dec) cs 1 i e H) as N1.
  unfold pget, rpool, pool_of_entries.
  replace (N.to_nat (Z.to_N i)) with (S (Z.to_nat (i - 1))) by lia. cbn [nth_error].
  change (fun e0 : entry => if two_slot e0 then [Some e0; None] else [Some e0]) with slotsf. rewrite N1. reflexivity.
Qed.



Lemma ag_utf8 dec cs i s : WD.get_utf8 (WC1.cslots cs 1) i = Some s -> get_utf8 (rpool dec cs) (Z.to_N i) = Ok (sdec dec s).
Proof.
  unfold WD.get_utf8. destruct (WD.cp_get _ i) as [[]|] eqn:E; try discriminate. intros [= <-].
  unfold get_utf8. rewrite (pget_rpool dec cs i _ E). reflexivity.
Qed.

Lemma ag_named dec cs (sel : WC.centry -> option Z) (get1 : pool -> N -> res str) i s :
  (forall e n, sel e = Some n -> forall P j, pget P j = Ok (trd dec e) -> get1 P j = get_utf8 P (Z.to_N n)) ->
  WD.get_named sel (WC1.cslots cs 1) i = Some s -> get1 (rpool dec cs) (Z.to_N i) = Ok (sdec dec s).
Proof.
  intros Hsel. unfold WD.get_named. destruct (WD.cp_get _ i) as [e|] eqn:E; [|discriminate].
  destruct (sel e) as [n|] eqn:Es; [|discriminate]. intros H.
  rewrite (Hsel e n Es _ _ (pget_rpool dec cs i e E)). apply ag_utf8. exact H.
Qed.

Lemma ag_class dec cs i s : WD.get_class (WC1.cslots cs 1) i = Some s -> get_class (rpool dec cs) (Z.to_N i) = Ok (sdec dec s).
Proof.
  apply ag_named. intros e n He P j Hp. destruct e; try discriminate. injection He as <-.
  unfold get_class. rewrite Hp. reflexivity.
Qed.
Definition get_string_r (P : pool) (i : N) : res str := do e <- pget P i; match e with EString n => get_utf8 P n | _ => Err end.
Definition get_mtype_r (P : pool) (i : N) : res str := do e <- pget P i; match e with EMethodType n => get_utf8 P n | _ => Err end.
Definition get_module_r (P : pool) (i : N) : res str := do e <- pget P i; match e with EModule n => get_utf8 P n | _ => Err end.
Definition get_package_r (P : pool) (i : N) : res str := do e <- pget P i; match e with EPackage n => get_utf8 P n | _ => Err end.
Lemma ag_string dec cs i s : WD.get_string (WC1.cslots cs 1) i = Some s -> get_string_r (rpool dec cs) (Z.to_N i) = Ok (sdec dec s).
Proof.
  apply ag_named. intros e n He P j Hp. destruct e; try discriminate. injection He as <-.
  unfold get_string_r. rewrite Hp. reflexivity.
Qed.
Lemma ag_mtype dec cs i s : WD.get_method_type (WC1.cslots cs 1) i = Some s -> get_mtype_r (rpool dec cs) (Z.to_N i) = Ok (sdec dec s).
Proof.
  apply ag_named. intros e n He P j Hp. destruct e; try discriminate. injection He as <-.
  unfold get_mtype_r. rewrite Hp. reflexivity.
Qed.
Lemma ag_module dec cs i s : WD.get_module (WC1.cslots cs 1) i = Some s -> get_module_r (rpool dec cs) (Z.to_N i) = Ok (sdec dec s).
Proof.
  apply ag_named. intros e n He P j Hp. destruct e; try discriminate. injection He as <-.
  unfold get_module_r. rewrite Hp. reflexivity.
Qed.
Lemma ag_package dec cs i s : WD.get_package (WC1.cslots cs 1) i = Some s -> get_package_r (rpool dec cs) (Z.to_N i) = Ok (sdec dec s).
Proof.
  apply ag_named. intros e n He P j Hp. destruct e; try discriminate. injection He as <-.
  unfold get_package_r. rewrite Hp. reflexivity.
Qed.

Lemma ag_nat dec cs i n d : WD.get_nat (WC1.cslots cs 1) i = Some (n, d) ->
  get_nt (rpool dec cs) (Z.to_N i) = Ok (sdec dec n, sdec dec d).
Proof.
  unfold WD.get_nat. destruct (WD.cp_get _ i) as [[]|] eqn:E; try discriminate.
  destruct (WD.get_utf8 _ n0) as [a|] eqn:Ea; [|discriminate]. destruct (WD.get_utf8 _ d0) as [b|] eqn:Eb; [|discriminate].
  intros [= <- <-]. unfold get_nt. rewrite (pget_rpool dec cs i _ E). cbn [trd tr_centry bind].
  rewrite (ag_utf8 dec cs _ _ Ea), (ag_utf8 dec cs _ _ Eb). reflexivity.
Qed.

Definition member_val (dec : bytes -> res str) (r : WC.memberref) : str * str * str :=
  (sdec dec (WC.mr_class r), sdec dec (WC.mr_name r), sdec dec (WC.mr_desc r)).

Lemma ag_fieldref dec cs i r : WD.get_fieldref (WC1.cslots cs 1) i = Some r ->
  get_field_ref (rpool dec cs) (Z.to_N i)
  = Ok (VField (sdec dec (WC.mr_class r)) (sdec dec (WC.mr_name r)) (sdec dec (WC.mr_desc r))).
Proof.
  unfold WD.get_fieldref, WD.get_member. destruct (WD.cp_get _ i) as [[]|] eqn:E; try discriminate.
  destruct (WD.get_class _ c) as [cl|] eqn:Ec; [|discriminate]. destruct (WD.get_nat _ nt) as [[n d]|] eqn:En; [|discriminate].
  intros [= <-]. cbn [WC.mr_class WC.mr_name WC.mr_desc]. unfold get_field_ref. rewrite (pget_rpool dec cs i _ E). cbn [trd tr_centry bind].
  rewrite (ag_class dec cs _ _ Ec), (ag_nat dec cs _ _ _ En). reflexivity.
Qed.
Lemma ag_methodref dec cs i r : WD.get_methodref (WC1.cslots cs 1) i = Some r ->
  get_method_ref (rpool dec cs) (Z.to_N i)
  = Ok (VMethod (sdec dec (WC.mr_class r)) (sdec dec (WC.mr_name r)) (sdec dec (WC.mr_desc r)) false).
Proof.
  unfold WD.get_methodref, WD.get_member. destruct (WD.cp_get _ i) as [[]|] eqn:E; try discriminate.
  destruct (WD.get_class _ c) as [cl|] eqn:Ec; [|discriminate]. destruct (WD.get_nat _ nt) as [[n d]|] eqn:En; [|discriminate].
  intros [= <-]. cbn [WC.mr_class WC.mr_name WC.mr_desc]. unfold get_method_ref. rewrite (pget_rpool dec cs i _ E). cbn [trd tr_centry bind].
  rewrite (ag_class dec cs _ _ Ec), (ag_nat dec cs _ _ _ En). reflexivity.
Qed.
Lemma ag_imethodref dec cs i r : WD.get_imethodref (WC1.cslots cs 1) i = Some r ->
  get_imethod_ref (rpool dec cs) (Z.to_N i)
  = Ok (VMethod (sdec dec (WC.mr_class r)) (sdec dec (WC.mr_name r)) (sdec dec (WC.mr_desc r)) true).
Proof.
  unfold WD.get_imethodref, WD.get_member. destruct (WD.cp_get _ i) as [[]|] eqn:E; try discriminate.
  destruct (WD.get_class _ c) as [cl|] eqn:Ec; [|discriminate]. destruct (WD.get_nat _ nt) as [[n d]|] eqn:En; [|discriminate].
  intros [= <-]. cbn [WC.mr_class WC.mr_name WC.mr_desc]. unfold get_imethod_ref. rewrite (pget_rpool dec cs i _ E). cbn [trd tr_centry bind].
  rewrite (ag_class dec cs _ _ Ec), (ag_nat dec cs _ _ _ En). reflexivity.
Qed.

(* a method or an interface method: C01's get_any_method_ref is C02's "Methodref, else InterfaceMethodref" *)
Lemma ag_any_method dec cs i r : WD.get_methodref (WC1.cslots cs 1) i = Some r ->
  get_any_method_ref (rpool dec cs) (Z.to_N i)
  = Ok (VMethod (sdec dec (WC.mr_class r)) (sdec dec (WC.mr_name r)) (sdec dec (WC.mr_desc r)) false).
Proof.
  unfold WD.get_methodref, WD.get_member. destruct (WD.cp_get _ i) as [[]|] eqn:E; try discriminate.
  destruct (WD.get_class _ c) as [cl|] eqn:Ec; [|discriminate]. destruct (WD.get_nat _ nt) as [[n d]|] eqn:En; [|discriminate].
  intros [= <-]. cbn [WC.mr_class WC.mr_name WC.mr_desc]. unfold get_any_method_ref. rewrite (pget_rpool dec cs i _ E). cbn [trd tr_centry bind].
  rewrite (ag_class dec cs _ _ Ec), (ag_nat dec cs _ _ _ En). reflexivity.
Qed.
Lemma ag_any_imethod dec cs i r : WD.get_imethodref (WC1.cslots cs 1) i = Some r ->
  get_any_method_ref (rpool dec cs) (Z.to_N i)
  = Ok (VMethod (sdec dec (WC.mr_class r)) (sdec dec (WC.mr_name r)) (sdec dec (WC.mr_desc r)) true).
Proof.
  unfold WD.get_imethodref, WD.get_member. destruct (WD.cp_get _ i) as [[]|] eqn:E; try discriminate.
  destruct (WD.get_class _ c) as [cl|] eqn:Ec; [|discriminate]. destruct (WD.get_nat _ nt) as [[n d]|] eqn:En; [|discriminate].
  intros [= <-]. cbn [WC.mr_class WC.mr_name WC.mr_desc]. unfold get_any_method_ref. rewrite (pget_rpool dec cs i _ E). cbn [trd tr_centry bind].
  rewrite (ag_class dec cs _ _ Ec), (ag_nat dec cs _ _ _ En). reflexivity.
Qed.

(* the value C01 delivers for a handle of C02's tree *)
Definition handle_val (dec : bytes -> res str) (h : WC.handle) : cval :=
  let r := WC.h_ref h in
  let k := WC.h_kind h in
  VHandle (Z.to_N k)
    (if (k <=? 4)%Z then VField (sdec dec (WC.mr_class r)) (sdec dec (WC.mr_name r)) (sdec dec (WC.mr_desc r))
     else VMethod (sdec dec (WC.mr_class r)) (sdec dec (WC.mr_name r)) (sdec dec (WC.mr_desc r))
                  (if (k =? 9)%Z then true else WC.h_iface h)).

Lemma ag_handle dec cs i h : WD.get_handle (WC1.cslots cs 1) i = Some h ->
  get_method_handle (rpool dec cs) (Z.to_N i) = Ok (handle_val dec h).
Proof.
  unfold WD.get_handle. destruct (WD.cp_get _ i) as [[]|] eqn:E; try discriminate.
  unfold get_method_handle. rewrite (pget_rpool dec cs i _ E). cbn [trd tr_centry bind]. unfold handle_of, handle_val.
  destruct ((1 <=? k) && (k <=? 4))%Z eqn:K1.
  { apply andb_prop in K1. destruct K1 as [A B]. apply Z.leb_le in A, B.
    destruct (WD.get_fieldref _ r) as [m|] eqn:Em; [|discriminate]. intros [= <-]. cbn [WC.h_kind WC.h_ref WC.h_iface].
    assert (Q : ((1 <=? Z.to_N k) && (Z.to_N k <=? 4))%N = true) by (apply andb_true_iff; split; apply N.leb_le; lia).
    rewrite Q, (ag_fieldref dec cs _ _ Em). cbn [bind]. destruct (Z.leb_spec k 4); [reflexivity|lia]. }
  assert (Q1 : ((1 <=? Z.to_N k) && (Z.to_N k <=? 4))%N = false).
  { apply andb_false_iff in K1. apply andb_false_iff. destruct K1 as [A|A]; [left|right]; apply Z.leb_gt in A; apply N.leb_gt; lia. }
  destruct ((k =? 5) || (k =? 8))%Z eqn:K2.
  { destruct (WD.get_methodref _ r) as [m|] eqn:Em; [|discriminate]. intros [= <-]. cbn [WC.h_kind WC.h_ref WC.h_iface].
    assert (Q : ((Z.to_N k =? 5) || (Z.to_N k =? 8))%N = true).
    { apply orb_true_iff in K2. apply orb_true_iff. destruct K2 as [A|A]; [left|right]; apply Z.eqb_eq in A; apply N.eqb_eq; lia. }
    rewrite Q1, Q, (ag_methodref dec cs _ _ Em). cbn [bind].
    apply orb_true_iff in K2. destruct (Z.leb_spec k 4); [destruct K2 as [A|A]; apply Z.eqb_eq in A; lia|].
    destruct (Z.eqb_spec k 9); [destruct K2 as [A|A]; apply Z.eqb_eq in A; lia|reflexivity]. }
  assert (Q2 : ((Z.to_N k =? 5) || (Z.to_N k =? 8))%N = false).
  { apply orb_false_iff in K2. destruct K2 as [A B]. apply Z.eqb_neq in A, B.
    assert (Hk : (0 <= k)%Z \/ (k < 0)%Z) by lia. apply orb_false_iff. split; apply N.eqb_neq; destruct Hk; try lia. }
  destruct ((k =? 6) || (k =? 7))%Z eqn:K3.
  { assert (Q : ((Z.to_N k =? 6) || (Z.to_N k =? 7))%N = true).
    { apply orb_true_iff in K3. apply orb_true_iff. destruct K3 as [A|A]; [left|right]; apply Z.eqb_eq in A; apply N.eqb_eq; lia. }
    assert (K49 : (k <=? 4)%Z = false /\ (k =? 9)%Z = false).
    { apply orb_true_iff in K3. split; [apply Z.leb_gt|apply Z.eqb_neq]; destruct K3 as [A|A]; apply Z.eqb_eq in A; lia. }
    destruct K49 as [K4 K9].
    destruct (WD.get_methodref _ r) as [m|] eqn:Em.
    - intros [= <-]. cbn [WC.h_kind WC.h_ref WC.h_iface]. rewrite Q1, Q2, Q, (ag_any_method dec cs _ _ Em). cbn [bind].
      rewrite K4, K9. reflexivity.
    - destruct (WD.get_imethodref _ r) as [m|] eqn:Em2; [|discriminate]. intros [= <-]. cbn [WC.h_kind WC.h_ref WC.h_iface].
      rewrite Q1, Q2, Q, (ag_any_imethod dec cs _ _ Em2). cbn [bind]. rewrite K4, K9. reflexivity. }
  assert (Q3 : ((Z.to_N k =? 6) || (Z.to_N k =? 7))%N = false).
  { apply orb_false_iff in K3. destruct K3 as [A B]. apply Z.eqb_neq in A, B.
    apply orb_false_iff. split; apply N.eqb_neq; lia. }
  destruct (Z.eqb_spec k 9) as [K9|K9]; [|discriminate].
  destruct (WD.get_imethodref _ r) as [m|] eqn:Em; [|discriminate]. intros [= <-]. cbn [WC.h_kind WC.h_ref WC.h_iface].
  subst k. cbn. rewrite (ag_imethodref dec cs _ _ Em). reflexivity.
Qed.

(* ConstantValue *)
Definition cvalue_val (dec : bytes -> res str) (v : WC.cvalue) : cval :=
  match v with
  | WC.CVInt z => VInt z | WC.CVFloat b => VFloat (Z.to_N b) | WC.CVLong z => VLong z | WC.CVDouble b => VDouble (Z.to_N b)
  | WC.CVString s => VString (sdec dec s)
  end.
Lemma ag_cvalue dec cs i v : WD.get_cvalue (WC1.cslots cs 1) i = Some v ->
  get_constant_value (rpool dec cs) (Z.to_N i) = Ok (cvalue_val dec v).
Proof.
  unfold WD.get_cvalue. destruct (WD.cp_get _ i) as [[]|] eqn:E; try discriminate;
    unfold get_constant_value; rewrite (pget_rpool dec cs i _ E); cbn [trd tr_centry bind]; try (intros [= <-]; reflexivity).
  destruct (WD.get_utf8 _ n) as [s|] eqn:Es; [|discriminate]. intros [= <-].
  rewrite (ag_utf8 dec cs _ _ Es). reflexivity.
Qed.

(* ---------------------------------------------------------------------------------------------- *)
(* C02's `refers` facts carried to the reader: for a getter pair (g of C02's decoder, G of C01's pool)
   that agree in the sense above, what a put returned is what the reader finds in the pool it reads *)
Theorem refers_read {A B} (g : WD.cpool -> Z -> option A) (G : pool -> N -> res B) (val : A -> B) dec :
  (forall cs i x, g (WC1.cslots cs 1) i = Some x -> G (rpool dec cs) (Z.to_N i) = Ok (val x)) ->
  forall x p0 i p pb rest,
  WC2.refers g x p0 i -> WC2.pool_ext p0 p ->
  W8.PInv p -> Forall WC1.made (W.p_inner p) -> WC.pool_bytes p = Ok pb ->
  exists cs, (utf8s_decode dec cs -> rd_pool dec (pb ++ rest) = Ok (rpool dec cs, rest)) /\
             G (rpool dec cs) (Z.to_N i) = Ok (val x).
Proof.
  intros HG x p0 i p pb rest Hr Hext Hinv Hmade Hpb.
  destruct (pool_read dec p pb rest Hinv Hmade Hpb) as (cs & _ & _ & Hag & Hrd).
  exists cs. split; [exact Hrd|]. apply HG. apply (WC2.refers_get g x p0 i p _ Hr Hext Hag).
Qed.
