(* X12 — bridge, part 3: READING (C01's model) WHAT THE WRITER (C02's model) WRITES.

   bridge_encode       C02.encode chs L 0 b = Some w, admissible  ->  C01.encode (tr_ch chs b) (tr_body chs b last) = Some w,
                       and C01's layout of the translated body puts every label where C02's layout puts it.
   bridge_read_encoding   … hence, by C01's read_encode, C01.read_code on (w, the written tables) = expected (translated body).
   bridge_write_read   the same from  C02.write_code … = Some (OK (w, W, rt))  (through C02's write_is_encode).

   What the reader sees ("expanded form"), exactly: the instruction list [tr_body chs b last] —
   one instruction per entry in order, except that a conditional the writer emitted in its long
   form (chs = true) is seen as TWO instructions: the conditional with the OPPOSITE opcode whose
   target is the instruction after the pair (2 + own index), then Goto (read from goto_w) whose
   target is the original target.  goto_w / jsr_w are seen as Goto / Jsr with the same target: duke's
   Instruction has no wide variants, the form is not observable.  Targets, switch arms, exception
   ranges, line numbers / offset targets and local-variable ranges are the indices [T_of chs b last l]
   of the instruction carrying the label (for a long conditional: its first instruction); labels as
   such are erased on both sides (C01's [expected] records which instructions carry one).

   Hypotheses, all decidable except C02's own unique_labels (NoDup), and why each is there:
   body_in chs      the fragment (BridgeDefs.v); "the last entry is not a conditional in its long form":
                    that one jumps to code_length, which duke's reader refuses (such a body falls off
                    the end of the method: not verifiable code); body_in_simple: no conditional in last place;
   refs_carried     no branch / switch arm names the last label: the writer encodes a jump to
                    code_length, the reader refuses it (Labels::create: pc < code_length);
   tables_carried   same for handler_pc, start_pc of exception / local-variable ranges and single
                    offsets; range ENDS may be the last label (the reader accepts end = code_length). *)
From Coq Require Import List NArith ZArith Bool Lia.
From FB Require Import Base.Str C01.Model C01.Theory1 C01.Theory2 C01.Theory3 C01.Theory4 C01.Theory14.
From FB Require C02.Model C02.Encode C02.Theory2 C02.Theory3 C02.Theory4 C02.Theory6 C02.Theory7.
From FB Require Import X12.BridgeDefs X12.BridgePlain X12.BridgeEnc.
Import ListNotations.
Module W3 := FB.C02.Theory3.
Arguments N.add : simpl never.
Arguments N.mul : simpl never.
Arguments N.sub : simpl never.
Arguments Z.add : simpl never.
Arguments Z.sub : simpl never.
Arguments Z.mul : simpl never.

(* ---------------------------------------------------------------------------------------------- *)
Lemma tr_ch_at chs b : ch_at (tr_ch chs b) 0 (chl_from chs b).
Proof. intros j _. reflexivity. Qed.

Theorem bridge_encode b chs last w :
  length chs = length b -> body_in chs b = true ->
  WE.encode chs (WE.labpos chs 0 b last) 0 b = Some w ->
  WE.admissible chs (WE.labpos chs 0 b last) 0 b = true ->
  encode (tr_ch chs b) (tr_body chs b last) = Some w /\
  lab_agree (posf_of (layout (tr_ch chs b) (tr_body chs b last))) (T_of chs b last) (WE.labpos chs 0 b last).
Proof.
  intros Hl Hin HE HA.
  set (ch := tr_ch chs b). set (T := T_of chs b last). set (L := WE.labpos chs 0 b last).
  assert (P : pagree (posf_of (layout ch (tr_body chs b last))) chs 0 0 b).
  { pose proof (layout_pagree ch T b chs 0 0 Hl ltac:(lia) Hin (tr_ch_at chs b)) as P.
    revert P. apply pagree_ext. intros j _. rewrite Nat.sub_0_r. reflexivity. }
  assert (LA : lab_agree (posf_of (layout ch (tr_body chs b last))) T L).
  { intros l t Hlt. destruct (pagree_lidx _ b chs 0 0 last l t ltac:(lia) P Hlt) as (Ht & j & Hj & Hp).
    split; [exact Ht|]. unfold T, T_of. rewrite Hj. exact Hp. }
  split; [|exact LA].
  unfold encode. apply (body_encode ch _ T L LA b chs 0 0 w Hl ltac:(lia) P Hin (tr_ch_at chs b) HE HA).
Qed.

(* ---------------------------------------------------------------------------------------------- *)
(* where labels land: indices *)
Lemma lidx_bounds : forall b chs k last l j, lidx chs k b last l = Some j ->
  (k <= j <= k + length (chl_from chs b))%nat.
Proof.
  induction b as [|[lb e] r IH]; intros chs k last l j; destruct chs as [|c cs]; cbn [lidx chl_from].
  1-3: destruct (WE.olabel_is last l); [intros [= <-]; cbn [length]; lia|discriminate].
  destruct (WE.olabel_is lb l); [intros [= <-]; lia|]. intros H. apply IH in H.
  rewrite app_length, ch_entry_length. lia.
Qed.

Lemma lidx_carried : forall b chs k last l, length chs = length b -> carried b l = true ->
  exists j, lidx chs k b last l = Some j /\ (j < k + length (chl_from chs b))%nat.
Proof.
  induction b as [|[lb e] r IH]; intros chs k last l Hl Hc; [discriminate|].
  destruct chs as [|c cs]; [discriminate|]. cbn [lidx chl_from carried existsb fst] in *.
  rewrite app_length, ch_entry_length. pose proof (cnt_pos c e).
  destruct (WE.olabel_is lb l).
  - exists k. split; [reflexivity|lia].
  - cbn [orb] in Hc. destruct (IH cs (cnt c e + k)%nat last l ltac:(cbn [length] in Hl; lia) Hc) as (j & Hj & Hlt).
    exists j. split; [exact Hj|lia].
Qed.

Lemma T_carried chs b last l : length chs = length b -> carried b l = true ->
  (T_of chs b last l < length (tr_body chs b last))%nat.
Proof.
  intros Hl Hc. destruct (lidx_carried b chs 0 last l Hl Hc) as (j & Hj & Hlt).
  unfold T_of, tr_body. rewrite Hj, tr_from_length. exact Hlt.
Qed.
Lemma T_le chs b last l : (T_of chs b last l <= length (tr_body chs b last))%nat.
Proof.
  unfold T_of, tr_body. rewrite tr_from_length. destruct (lidx chs 0 b last l) as [j|] eqn:E; cbn [tgt_of]; [|lia].
  apply lidx_bounds in E. lia.
Qed.

(* the targets of the translated body *)
Lemma tr_targets T : forall b chs k i t, length chs = length b -> body_in chs b = true ->
  In i (tr_from T chs k b) -> In t (targets i) ->
  (exists le l, In le b /\ In l (refs_of (snd le)) /\ t = T l) \/ (t < k + length (tr_from T chs k b))%nat.
Proof.
  induction b as [|[lb e] r IH]; intros chs k i t Hl Hin Hi Ht; destruct chs as [|c cs]; try discriminate; cbn [tr_from] in *; [destruct Hi|].
  apply body_in_cons in Hin. destruct Hin as (He & Hlast & Hr).
  assert (Hl' : length cs = length r) by (cbn [length] in Hl; lia).
  rewrite app_length, tr_entry_length. apply in_app_or in Hi. destruct Hi as [Hi|Hi].
  - destruct e as [bs|[op inv|op wop] l|d lo hi ts|d ps]; cbn [tr_entry] in Hi.
    + destruct Hi as [<-|[]]. destruct (entry_in_plain bs He) as [_ PI]. rewrite (plain_targets _ _ PI) in Ht. destruct Ht.
    + destruct c.
      * destruct Hi as [<-|[<-|[]]]; cbn [targets flat_map op_targets app] in Ht; destruct Ht as [<-|[]].
        -- right. cbn [cnt].
           destruct r as [|[lb' e'] r']; [specialize (Hlast eq_refl); discriminate|].
           destruct cs as [|c' cs']; [discriminate|]. cbn [tr_from]. rewrite app_length, tr_entry_length.
           pose proof (cnt_pos c' e'). lia.
        -- left. exists (lb, W.Br (W.KCond op inv) l), l. cbn [refs_of snd]. auto with datatypes.
      * destruct Hi as [<-|[]]; cbn [targets flat_map op_targets app] in Ht; destruct Ht as [<-|[]].
        left. exists (lb, W.Br (W.KCond op inv) l), l. cbn [refs_of snd]. auto with datatypes.
    + destruct Hi as [<-|[]]; cbn [targets flat_map op_targets app] in Ht; destruct Ht as [<-|[]].
      left. exists (lb, W.Br (W.KJump op wop) l), l. cbn [refs_of snd]. auto with datatypes.
    + destruct Hi as [<-|[]]. cbn [targets] in Ht. left. exists (lb, W.TSwitch d lo hi ts).
      destruct Ht as [<-|Ht].
      * exists d. cbn [refs_of snd]. auto with datatypes.
      * apply in_map_iff in Ht. destruct Ht as (l & <- & Hl2). exists l. cbn [refs_of snd]. auto with datatypes.
    + destruct Hi as [<-|[]]. cbn [targets] in Ht. left. exists (lb, W.LSwitch d ps).
      destruct Ht as [<-|Ht].
      * exists d. cbn [refs_of snd]. auto with datatypes.
      * rewrite map_map in Ht. cbn [snd] in Ht. apply in_map_iff in Ht. destruct Ht as (kp & <- & Hl2).
        exists (snd kp). cbn [refs_of snd]. split; [left; reflexivity|]. split; [|reflexivity]. right. apply in_map. exact Hl2.
  - destruct (IH cs (cnt c e + k)%nat i t Hl' Hr Hi Ht) as [(le & l & H1 & H2 & H3)|H].
    + left. exists le, l. auto with datatypes.
    + right. lia.
Qed.

Lemma bridge_targets_ok chs b last : length chs = length b -> body_in chs b = true -> refs_carried b = true ->
  targets_ok (tr_body chs b last).
Proof.
  intros Hl Hin Hrc i t Hi Ht.
  destruct (tr_targets (T_of chs b last) b chs 0 i t Hl Hin Hi Ht) as [(le & l & H1 & H2 & ->)|H]; [|exact H].
  apply T_carried; [exact Hl|]. unfold refs_carried in Hrc. rewrite forallb_forall in Hrc.
  specialize (Hrc le H1). rewrite forallb_forall in Hrc. apply Hrc. exact H2.
Qed.

(* ---------------------------------------------------------------------------------------------- *)
(* tables *)
Lemma in_firstn {A} (x : A) : forall n l, In x (firstn n l) -> In x l.
Proof. intros n l H. rewrite <- (firstn_skipn n l). apply in_or_app. left. exact H. Qed.
Lemma in_skipn {A} (x : A) : forall n l, In x (skipn n l) -> In x l.
Proof. intros n l H. rewrite <- (firstn_skipn n l). apply in_or_app. right. exact H. Qed.

Lemma mapO_firstn {A B} (f : A -> option B) : forall n l r, WE.mapO f l = Some r -> WE.mapO f (firstn n l) = Some (firstn n r).
Proof.
  induction n as [|n IH]; intros l r H; [reflexivity|]. destruct l as [|a l]; cbn [WE.mapO] in H.
  - injection H as <-. reflexivity.
  - destruct (f a) as [y|] eqn:E; [|discriminate]. destruct (WE.mapO f l) as [r'|] eqn:E'; [|discriminate]. injection H as <-.
    cbn [firstn WE.mapO]. rewrite E, (IH _ _ E'). reflexivity.
Qed.
Lemma mapO_skipn {A B} (f : A -> option B) : forall n l r, WE.mapO f l = Some r -> WE.mapO f (skipn n l) = Some (skipn n r).
Proof.
  induction n as [|n IH]; intros l r H; [exact H|]. destruct l as [|a l]; cbn [WE.mapO] in H.
  - injection H as <-. reflexivity.
  - destruct (f a) as [y|] eqn:E; [|discriminate]. destruct (WE.mapO f l) as [r'|] eqn:E'; [|discriminate]. injection H as <-.
    cbn [skipn]. apply IH. exact E'.
Qed.

Lemma map_fst_combine' {A B C} (f : A -> C) : forall (a : list A) (l : list B),
  map (fun e => (f (fst e), snd e)) (combine a l) = combine (map f a) l.
Proof. induction a as [|x a IH]; intros [|y l]; cbn [combine map fst snd]; try reflexivity. rewrite IH. reflexivity. Qed.

Lemma offs_agree posf T L : lab_agree posf T L -> forall xs ys, WE.mapO L xs = Some ys ->
  map posf (map T xs) = map Z.to_N ys.
Proof.
  intros HA. induction xs as [|l xs IH]; intros ys H; cbn [WE.mapO] in H; [injection H as <-; reflexivity|].
  destruct (L l) as [t|] eqn:El; [|discriminate]. destruct (WE.mapO L xs) as [ys'|]; [|discriminate]. injection H as <-.
  cbn [map]. rewrite (IH _ eq_refl). destruct (HA l t El) as [_ ->]. reflexivity.
Qed.

Lemma exc_agree posf T L : lab_agree posf T L -> forall xs ys, WE.mapO (W7.L3 L) xs = Some ys ->
  map (fun e => match e with (s, e', h) => (posf s, posf e', posf h) end)
      (map (fun e => match e with (s, e', h) => (T s, T e', T h) end) xs)
  = map (fun e => match e with (s, e', h) => (Z.to_N s, Z.to_N e', Z.to_N h) end) ys.
Proof.
  intros HA. induction xs as [|[[s e'] h] xs IH]; intros ys H; cbn [WE.mapO] in H; [injection H as <-; reflexivity|].
  unfold W7.L3 in H at 1. cbn [fst snd] in H.
  destruct (L s) as [ts|] eqn:E1; [|discriminate]. destruct (L e') as [te|] eqn:E2; [|discriminate].
  destruct (L h) as [th|] eqn:E3; [|discriminate].
  destruct (WE.mapO (W7.L3 L) xs) as [ys'|]; [|discriminate]. injection H as <-.
  cbn [map]. rewrite (IH _ eq_refl).
  destruct (HA s ts E1) as [_ ->]. destruct (HA e' te E2) as [_ ->]. destruct (HA h th E3) as [_ ->]. reflexivity.
Qed.

Lemma ranges_agree posf T L : lab_agree posf T L -> forall xs ys, WE.mapO (W7.Lrange L) xs = Some ys ->
  map (fun e => (posf (fst e), posf (snd e) - posf (fst e))) (map (fun r => (T (fst r), T (snd r))) xs)
  = map (fun r => (Z.to_N (fst r), Z.to_N (snd r))) ys.
Proof.
  intros HA. induction xs as [|[a c] xs IH]; intros ys H; cbn [WE.mapO] in H; [injection H as <-; reflexivity|].
  unfold W7.Lrange in H at 1. cbn [fst snd] in H.
  destruct (L a) as [ta|] eqn:E1; [|discriminate]. destruct (L c) as [tc|] eqn:E2; [|discriminate].
  destruct (WE.mapO (W7.Lrange L) xs) as [ys'|]; [|discriminate]. injection H as <-.
  cbn [map fst snd]. rewrite (IH _ eq_refl).
  destruct (HA a ta E1) as [Ha ->]. destruct (HA c tc E2) as [_ ->].
  do 2 f_equal. rewrite Z2N.inj_sub by exact Ha. reflexivity.
Qed.

(* the tables as the reader is handed them = C01's [code_in_of] of the translated tables *)
Lemma code_in_agree posf T L w tb rt nl lines : lab_agree posf T L ->
  WE.mapO (W7.L3 L) (W.t_exc tb) = Some (W.r_exc rt) ->
  WE.mapO L (W.t_offs tb) = Some (W.r_offs rt) ->
  WE.mapO (W7.Lrange L) (W.t_ranges tb) = Some (W.r_ranges rt) ->
  code_in_of posf (tr_tables T tb nl lines) w = code_in_of_written w rt nl lines.
Proof.
  intros HA R1 R2 R3. unfold code_in_of, code_in_of_written, tr_tables. cbn [t_exc t_lines t_ranges t_frames t_points frame_deltas].
  f_equal.
  - apply (exc_agree posf T L HA _ _ R1).
  - rewrite map_fst_combine'. f_equal. apply (offs_agree posf T L HA). apply mapO_firstn. exact R2.
  - apply (ranges_agree posf T L HA _ _ R3).
  - apply (offs_agree posf T L HA). apply mapO_skipn. exact R2.
Qed.

Lemma mapO_in {A B} (f : A -> option B) : forall l r x, WE.mapO f l = Some r -> In x l -> exists y, f x = Some y /\ In y r.
Proof.
  induction l as [|a l IH]; intros r x H Hx; [destruct Hx|]. cbn [WE.mapO] in H.
  destruct (f a) as [y|] eqn:E; [|discriminate]. destruct (WE.mapO f l) as [r'|] eqn:E'; [|discriminate]. injection H as <-.
  destruct Hx as [<-|Hx]; [exists y; split; [exact E|left; reflexivity]|].
  destruct (IH _ _ eq_refl Hx) as (y' & H1 & H2). exists y'. split; [exact H1|right; exact H2].
Qed.

Lemma bridge_tables_ok chs b last tb rt nl lines bs :
  length chs = length b -> tables_carried b tb = true ->
  encode (tr_ch chs b) (tr_body chs b last) = Some bs ->
  lab_agree (posf_of (layout (tr_ch chs b) (tr_body chs b last))) (T_of chs b last) (WE.labpos chs 0 b last) ->
  WE.mapO (W7.Lrange (WE.labpos chs 0 b last)) (W.t_ranges tb) = Some (W.r_ranges rt) ->
  Forall (fun x => (0 <= snd x)%Z) (W.r_ranges rt) ->
  tables_ok (length (tr_body chs b last)) (tr_tables (T_of chs b last) tb nl lines).
Proof.
  intros Hl Htc HE HA R3 Hnn.
  unfold tables_carried in Htc. apply andb_true_iff in Htc. destruct Htc as [Htc C3]. apply andb_true_iff in Htc. destruct Htc as [C1 C2].
  rewrite forallb_forall in C1, C2, C3.
  unfold tables_ok, tr_tables. cbn [t_exc t_lines t_ranges t_frames t_points].
  split; [|split; [|split; [|split; [|split]]]].
  - intros s e h Hi. apply in_map_iff in Hi. destruct Hi as ([[s0 e0] h0] & [= <- <- <-] & Hi).
    specialize (C1 _ Hi). cbn in C1. apply andb_true_iff in C1. destruct C1 as [Cs Ch].
    split; [apply T_carried; assumption|]. split; [apply T_le|apply T_carried; assumption].
  - intros x Hx. destruct x as [a ln]. apply in_combine_l in Hx. cbn [fst]. apply in_map_iff in Hx. destruct Hx as (l & <- & Hx).
    apply T_carried; [exact Hl|]. apply C2. apply (in_firstn _ _ _ Hx).
  - intros x Hx. apply in_map_iff in Hx. destruct Hx as ([a c] & <- & Hx). cbn [fst snd].
    pose proof (C3 _ Hx) as Ca. cbn [fst] in Ca.
    split; [apply T_carried; assumption|]. split; [|apply T_le].
    destruct (mapO_in _ _ _ _ R3 Hx) as ([ta len] & HL & Hy). unfold W7.Lrange in HL. cbn [fst snd] in HL.
    destruct (WE.labpos chs 0 b last a) as [pa|] eqn:Ea; [|discriminate].
    destruct (WE.labpos chs 0 b last c) as [pc|] eqn:Ec; [|discriminate]. injection HL as <- <-.
    rewrite Forall_forall in Hnn. specialize (Hnn _ Hy). cbn [snd] in Hnn.
    destruct (HA a pa Ea) as [Hpa Pa]. destruct (HA c pc Ec) as [Hpc Pc].
    destruct (Nat.le_gt_cases (T_of chs b last a) (T_of chs b last c)) as [G|G]; [exact G|exfalso].
    pose proof (T_le chs b last a) as Ha.
    pose proof (layout_from_nth_lt (tr_ch chs b) (tr_body chs b last) 0 0 _ _ G Ha) as LT.
    unfold posf_of, layout in Pa, Pc. rewrite Pa, Pc in LT. lia.
  - exact I.
  - intros f [].
  - intros p Hp. apply in_map_iff in Hp. destruct Hp as (l & <- & Hp).
    apply T_carried; [exact Hl|]. apply C2. apply (in_skipn _ _ _ Hp).
Qed.

(* ---------------------------------------------------------------------------------------------- *)
(* READING AN ADMISSIBLE C02-ENCODING WITH C01'S READER *)
Theorem bridge_read_encoding b chs last w tb rt nl lines :
  length chs = length b ->
  body_in chs b = true -> refs_carried b = true -> tables_carried b tb = true ->
  WE.encode chs (WE.labpos chs 0 b last) 0 b = Some w ->
  WE.admissible chs (WE.labpos chs 0 b last) 0 b = true ->
  w <> [] -> N.of_nat (length w) <= 65535 ->
  WE.mapO (W7.L3 (WE.labpos chs 0 b last)) (W.t_exc tb) = Some (W.r_exc rt) ->
  WE.mapO (WE.labpos chs 0 b last) (W.t_offs tb) = Some (W.r_offs rt) ->
  WE.mapO (W7.Lrange (WE.labpos chs 0 b last)) (W.t_ranges tb) = Some (W.r_ranges rt) ->
  Forall (fun x => (0 <= snd x)%Z) (W.r_ranges rt) ->
  read_code (code_in_of_written w rt nl lines)
  = Ok (expected (tr_body chs b last) (tr_tables (T_of chs b last) tb nl lines)).
Proof.
  intros Hl Hin Hrc Htc HE HAd Hne Hlen R1 R2 R3 Hnn.
  destruct (bridge_encode b chs last w Hl Hin HE HAd) as [E LA].
  rewrite <- (code_in_agree _ _ _ w tb rt nl lines LA R1 R2 R3).
  apply read_encode.
  - exact E.
  - intros Hnil. rewrite Hnil in E. cbn in E. injection E as <-. apply Hne. reflexivity.
  - exact Hlen.
  - apply bridge_targets_ok; assumption.
  - apply (bridge_tables_ok chs b last tb rt nl lines w Hl Htc E LA R3 Hnn).
Qed.

(* ---------------------------------------------------------------------------------------------- *)
(* READING WHAT write_code WRITES *)
Lemma ranges_nonneg labs : forall xs ys, W.mapM_out (W.try_get_range labs) xs = W.OK ys -> Forall (fun x => (0 <= snd x)%Z) ys.
Proof.
  induction xs as [|x xs IH]; intros ys H; cbn [W.mapM_out] in H; [injection H as <-; constructor|].
  destruct (W.try_get_range labs x) as [y| |] eqn:E; try discriminate.
  destruct (W.mapM_out (W.try_get_range labs) xs) as [ys'| |]; try discriminate. injection H as <-.
  constructor; [|apply IH; reflexivity].
  unfold W.try_get_range, W.try_get in E.
  destruct (W.lget labs (fst x)) as [a|]; destruct (W.lget labs (snd x)) as [c|]; try discriminate.
  destruct (Z.ltb_spec c a); [discriminate|]. injection E as <-. cbn [snd]. lia.
Qed.

Theorem bridge_write_read hasmax b last tb w Wd rt nl lines :
  W3.unique_labels b last ->
  body_in (W3.chs_run Wd 0%N 0%Z [] b) b = true -> refs_carried b = true -> tables_carried b tb = true ->
  W.write_code hasmax b last tb = Some (W.OK (w, Wd, rt)) ->
  let chs := W3.chs_run Wd 0%N 0%Z [] b in
  read_code (code_in_of_written w rt nl lines)
  = Ok (expected (tr_body chs b last) (tr_tables (T_of chs b last) tb nl lines)).
Proof.
  intros Hu Hin Hrc Htc HW chs.
  pose proof (W7.tables_resolve hasmax b last tb w Wd rt Hu HW) as (R1 & R2 & R3).
  unfold W.write_code in HW. destruct (negb hasmax); [discriminate|].
  destruct (W.wc_loop _ _ _ _) as [[[[w0 labs] W0]| |]|] eqn:E; try discriminate.
  destruct (W.resolve_tables labs tb) as [r| |] eqn:Er; try discriminate.
  injection HW as <- <- <-.
  pose proof (W4.write_is_encode _ _ _ _ _ Hu E) as (Hl & HE & HAd & _ & Hz & Hpos). cbv zeta in *.
  assert (Hnn : Forall (fun x => (0 <= snd x)%Z) (W.r_ranges r)).
  { unfold W.resolve_tables in Er.
    destruct (W.mapM_out (W.try_get3 labs) (W.t_exc tb)) as [e| |]; try discriminate.
    destruct (W.mapM_out (W.try_get labs) (W.t_offs tb)) as [o| |]; try discriminate.
    destruct (W.mapM_out (W.try_get_range labs) (W.t_ranges tb)) as [rg| |] eqn:E3; try discriminate.
    injection Er as <-. cbn [W.r_ranges]. apply (ranges_nonneg labs _ _ E3). }
  unfold W.zlen in Hz.
  apply (bridge_read_encoding b chs last w0 tb r nl lines); try assumption.
  - intros ->. cbn [length] in Hz. lia.
  - lia.
Qed.

(* the same with the hypothesis that does not mention the outcome: the last entry is no conditional *)
Corollary bridge_write_read_simple hasmax b last tb w Wd rt nl lines :
  W3.unique_labels b last ->
  body_in_simple b = true -> refs_carried b = true -> tables_carried b tb = true ->
  W.write_code hasmax b last tb = Some (W.OK (w, Wd, rt)) ->
  let chs := W3.chs_run Wd 0%N 0%Z [] b in
  read_code (code_in_of_written w rt nl lines)
  = Ok (expected (tr_body chs b last) (tr_tables (T_of chs b last) tb nl lines)).
Proof.
  intros Hu Hin. apply (bridge_write_read hasmax b last tb w Wd rt nl lines Hu). apply body_in_of_simple. exact Hin.
Qed.
