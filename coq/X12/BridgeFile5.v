(* X12 — bridge, part 22: THE WHOLE FILE, fragment 5 = fragment 4
     + RuntimeVisibleAnnotations / RuntimeInvisibleAnnotations at class, field and method level
     + AnnotationDefault (method)
     + Module, ModulePackages, ModuleMainClass (class)
     + Record (class): components with Signature, the two annotation attributes and unknown attributes,
   element values nested at most 64 deep (duke's limit; decidable on the decoder's answer). *)
From Coq Require Import List NArith ZArith Bool Lia.
From FB Require Import C02.Model C02.Encode C02.Theory2 C02.Theory8 C02.Frames C02.Class C02.Decode C02.Facts
  C02.TheoryC1 C02.TheoryC2 C02.TheoryC3 C02.TheoryC8.
From FB Require C01.Bytes C01.Pool C01.Attr C01.Tables C01.Fmt C01.Formats C01.ClassFile C01.Mutf8.
From FB Require X12.BridgePool.
From FB Require Import X12.BridgeClass X12.BridgeMembers X12.BridgeCode X12.BridgeFmt X12.BridgeDyn X12.BridgeFile X12.BridgeFmt2
  X12.BridgeFile2 X12.BridgeFrames X12.BridgeFile3 X12.BridgeUnknown X12.BridgeFmt3 X12.BridgeFile4 X12.BridgeAnnot X12.BridgeModule X12.BridgeRecord.
Import ListNotations.
Local Open Scope Z_scope.

Definition names_ok5 (dec : RB.bytes -> res str) : bool := names_ok4 dec && names5 dec && names6 dec && names7 dec.
Lemma names_ok5_spec dec : names_ok5 dec = true ->
  names_ok4 dec = true /\ BP.sdec dec s_RVAnn = RFo.a_RuntimeVisibleAnnotations /\
  BP.sdec dec s_RIAnn = RFo.a_RuntimeInvisibleAnnotations /\ BP.sdec dec s_AnnotationDefault = RFo.a_AnnotationDefault.
Proof.
  unfold names_ok5, names5. intros H. apply andb_prop in H. destruct H as [H _]. apply andb_prop in H. destruct H as [H _].
  apply andb_prop in H. destruct H as [H4 H]. apply andb_prop in H. destruct H as [H H2].
  apply andb_prop in H. destruct H as [H0 H1]. repeat split; try assumption; apply str_eqb_eq; assumption.
Qed.
Lemma names_ok5_spec2 dec : names_ok5 dec = true ->
  BP.sdec dec s_Module = RFo.a_Module /\ BP.sdec dec s_ModulePackages = RFo.a_ModulePackages /\
  BP.sdec dec s_ModuleMainClass = RFo.a_ModuleMainClass /\ BP.sdec dec s_Record = RFo.a_Record /\ BP.sdec dec s_Signature = RFo.a_Signature.
Proof.
  intros H0. pose proof H0 as H. unfold names_ok5, names6, names7 in H. apply andb_prop in H. destruct H as [H H7]. apply andb_prop in H. destruct H as [_ H].
  apply andb_prop in H. destruct H as [H H3]. apply andb_prop in H. destruct H as [H1 H2].
  destruct (names_ok5_spec dec H0) as (H4 & _). destruct (names_ok4_spec dec H4) as (_ & Hn2 & _).
  repeat split; try (apply str_eqb_eq; assumption). apply (names_in dec _ _ Hn2). inpairs.
Qed.

(* ---- method attributes ---- *)
Definition mattrb5 (dec : RB.bytes -> res str) (a : dattr) : bool :=
  match a with
  | ALeaf (AAnnotations _ l) => anns_ok l
  | AAnnotationDefault e => ev_nest_ok e
  | _ => mattrb4 dec a
  end.
Definition mrel5 (dec : RB.bytes -> res str) (a : dattr) (v : RF.val) : Prop :=
  match a with
  | ALeaf (AAnnotations vis l) => v = v_Annotations dec vis l
  | AAnnotationDefault e => v = v_AnnotationDefault dec e
  | _ => mrel4 dec a v
  end.
Lemma p2rR_method5 impl dec cs : names_ok5 dec = true -> forall s a r t,
  p_attr AtMethod (cslots cs 1) s = Some (a, r) -> mattrb5 dec a = true ->
  exists v, RF.rd_fmt impl dec (R.acc (BP.rpool dec cs)) (RF.FAttr R.method_sel) (s ++ t) = Ok (v, r ++ t) /\ mrel5 dec a v.
Proof.
  intros Hn s a r t H Ha. destruct (names_ok5_spec dec Hn) as (Hn4 & N1 & N2 & N3).
  destruct a; try exact (p2rR_method4 impl dec cs Hn4 s _ r t H Ha).
  - destruct a; try exact (p2rR_method4 impl dec cs Hn4 s _ r t H Ha).
    cbn [mattrb5] in Ha. cbn [mrel5]. eexists. split; [|reflexivity].
    exact (attr_Annotations impl dec cs AtMethod R.method_sel s visible l r t N1 N2 (or_intror (or_intror eq_refl)) ann_sel_method Ha H).
  - cbn [mattrb5] in Ha. cbn [mrel5]. eexists. split; [exact (attr_AnnotationDefault impl dec cs s e r t N3 Ha H)|reflexivity].
Qed.

(* ---- field attributes ---- *)
Definition fattrb5 (dec : RB.bytes -> res str) (a : dattr) : bool := match a with ALeaf (AAnnotations _ l) => anns_ok l | _ => fattrb4 dec a end.
Definition fattr_val5 (dec : RB.bytes -> res str) (a : dattr) : RF.val :=
  match a with ALeaf (AAnnotations vis l) => v_Annotations dec vis l | _ => fattr_val4 dec a end.
Lemma p2rq_field5 impl dec cs : names_ok5 dec = true ->
  p2rq (fun a => fattrb5 dec a = true) (p_attr AtField (cslots cs 1)) (RF.rd_fmt impl dec (R.acc (BP.rpool dec cs)) (RF.FAttr R.field_sel)) (fattr_val5 dec).
Proof.
  intros Hn s a r t H Ha. destruct (names_ok5_spec dec Hn) as (Hn4 & N1 & N2 & _).
  destruct a; try exact (p2rq_field4 impl dec cs Hn4 s _ r t H Ha).
  destruct a; try exact (p2rq_field4 impl dec cs Hn4 s _ r t H Ha).
  cbn [fattrb5] in Ha. exact (attr_Annotations impl dec cs AtField R.field_sel s visible l r t N1 N2 (or_intror (or_introl eq_refl)) ann_sel_field Ha H).
Qed.

(* ---- class attributes ---- *)
Definition cattrb5 (dec : RB.bytes -> res str) (a : dattr) : bool :=
  match a with
  | ALeaf (AAnnotations _ l) => anns_ok l
  | AModule _ | AModulePackages _ | AModuleMainClass _ => true
  | ARecord l => forallb (rcompb dec) l
  | _ => cattrb4 dec a
  end.
Definition crel5 (dec : RB.bytes -> res str) (cs : list centry) (a : dattr) (v : RF.val) : Prop :=
  match a with
  | ALeaf (AAnnotations vis l) => v = v_Annotations dec vis l
  | AModule m => v = v_Module dec m
  | AModulePackages l => v = v_ModulePackages dec l
  | AModuleMainClass c => v = v_ModuleMainClass dec c
  | ARecord l => v = v_Record dec l
  | _ => crel4 dec cs a v
  end.
Lemma p2rR_class5 impl dec cs : names_ok5 dec = true -> forall s a r t,
  p_attr AtClass (cslots cs 1) s = Some (a, r) -> cattrb5 dec a = true ->
  exists v, RF.rd_fmt impl dec (R.acc (BP.rpool dec cs)) (RF.FAttr R.class_sel) (s ++ t) = Ok (v, r ++ t) /\ crel5 dec cs a v.
Proof.
  intros Hn s a r t H Ha. destruct (names_ok5_spec dec Hn) as (Hn4 & N1 & N2 & _). destruct (names_ok5_spec2 dec Hn) as (M1 & M2 & M3 & M4 & M5).
  destruct a; try exact (p2rR_class4 impl dec cs Hn4 s _ r t H Ha).
  - destruct a; try exact (p2rR_class4 impl dec cs Hn4 s _ r t H Ha).
    cbn [cattrb5] in Ha. cbn [crel5]. eexists. split; [|reflexivity].
    exact (attr_Annotations impl dec cs AtClass R.class_sel s visible l r t N1 N2 (or_introl eq_refl) ann_sel_class Ha H).
  - cbn [crel5]. eexists. split; [exact (attr_Module impl dec cs s m r t M1 H)|reflexivity].
  - cbn [crel5]. eexists. split; [exact (attr_ModulePackages impl dec cs s l r t M2 H)|reflexivity].
  - cbn [crel5]. eexists. split; [exact (attr_ModuleMainClass impl dec cs s c r t M3 H)|reflexivity].
  - cbn [cattrb5] in Ha. cbn [crel5]. eexists. split; [exact (attr_Record impl dec cs s l r t M4 M5 N1 N2 Ha H)|reflexivity].
Qed.

(* ---------------------------------------------------------------------------------------------- *)
Definition dclass_frag5 (dec : RB.bytes -> res str) (d : dclass) : bool :=
  forallb (cattrb5 dec) (d_attrs d) && forallb (fun m => forallb (fattrb5 dec) (dm_attrs m)) (d_fields d)
  && forallb (fun m => forallb (mattrb5 dec) (dm_attrs m)) (d_methods d).
Definition in_fragment5 (dec : RB.bytes -> res str) (t : cclass) (aux : class_aux) : bool :=
  match facts_of t aux with Some d => dclass_frag5 dec d | None => false end.

Theorem class_file_read5 impl dec t bs aux d :
  cclass_ok t = true -> write_class_aux t = WOK (bs, aux) ->
  RA.header_ok FB.C01.Tables.magic (Z.to_N (k_minor t)) (Z.to_N (k_major t)) = true ->
  pool_utf8_ok dec (a_pool aux) = true -> names_ok5 dec = true ->
  facts_of t aux = Some d -> dclass_frag5 dec d = true ->
  exists cs cattrs mvals,
    rev (p_inner (a_pool aux)) = map mk cs /\ agrees (a_pool aux) (cslots cs 1) /\
    Forall2 (crel5 dec cs) (d_attrs d) cattrs /\
    Forall2 (member_rel dec 2%N (mrel5 dec)) (d_methods d) mvals /\
    R.read_class impl dec bs
    = R.build_class impl (BP.rpool dec cs) (Z.to_N (k_minor t)) (Z.to_N (k_major t)) (head_val dec t)
        (RF.VList cattrs)
        (RF.VList (map (member_val dec 1%N (fattr_val5 dec)) (d_fields d)))
        (RF.VList mvals).
Proof.
  intros Hok Hw Hgate Hdec Hn Hd Hfrag.
  destruct (class_read_base impl dec t bs aux Hok Hw Hgate Hdec) as (cs & fields & mbytes & abytes & fs & ms & ds & Ecs & Hag & Hhead & Hfs & Hms & Df & Dm & Da & (d' & Hd' & F1 & F2 & F3)).
  rewrite Hd in Hd'. injection Hd' as <-. subst fs ms ds.
  unfold dclass_frag5 in Hfrag. apply andb_prop in Hfrag. destruct Hfrag as [Hfrag Hm]. apply andb_prop in Hfrag. destruct Hfrag as [Hc Hf].
  pose proof (Df _ _ (mbytes ++ abytes) (pool_ext_refl _) Hag) as Pf.
  pose proof (Dm _ _ abytes (pool_ext_refl _) Hag) as Pm.
  pose proof (Da _ _ [] (pool_ext_refl _) Hag) as Pa. rewrite app_nil_r in Pa.
  destruct (p2rR_vec16 (fun a => cattrb5 dec a = true) (crel5 dec cs) impl dec _ _ _ (p2rR_class5 impl dec cs Hn) _ _ _ [] Pa
              (forallb_Forall _ _ _ (fun x H => H) Hc)) as (cattrs & Ra & Rc).
  rewrite app_nil_r in Ra.
  assert (HmQ : Forall (fun m => Forall (fun a => mattrb5 dec a = true) (dm_attrs m)) (d_methods d)).
  { apply (forallb_Forall (fun m => forallb (mattrb5 dec) (dm_attrs m))); [|exact Hm]. intros m Hm0. exact (forallb_Forall _ _ _ (fun x H => H) Hm0). }
  destruct (p2rR_vec16 _ (member_rel dec 2%N (mrel5 dec)) impl dec _ _ _
              (p2rR_member _ (mrel5 dec) impl dec cs AtMethod 2%N R.method_sel (p2rR_method5 impl dec cs Hn)) _ _ _ [] Pm HmQ) as (mvals & Rm & Rmr).
  rewrite !app_nil_r in Rm.
  exists cs, cattrs, mvals. split; [exact Ecs|]. split; [exact Hag|]. split; [exact Rc|]. split; [exact Rmr|].
  rewrite (read_class_head impl dec bs _ _ _ _ _ Hhead).
  pose proof (members_read impl dec cs AtField 1%N _ _ _ Pf) as Sf. apply rd_headers_skip in Sf.
  pose proof (members_read impl dec cs AtMethod 2%N _ _ _ Pm) as Sm. apply rd_headers_skip in Sm.
  rewrite Sf. cbn [Base.Str.bind]. rewrite Sm. cbn [Base.Str.bind].
  unfold R.class_attrs_fmt. rewrite Ra. cbn [Base.Str.bind].
  assert (Rf : RF.rd_fmt impl dec (R.acc (BP.rpool dec cs)) R.fields_fmt (fields ++ mbytes ++ abytes)
               = Ok (RF.VList (map (member_val dec 1%N (fattr_val5 dec)) (d_fields d)), mbytes ++ abytes)).
  { pose proof (p2rq_vec16 _ impl dec _ _ _ _ (p2rq_member _ impl dec cs AtField 1%N R.field_sel _ (p2rq_field5 impl dec cs Hn)) _ _ _ [] Pf) as E.
    rewrite !app_nil_r in E. apply E.
    apply (forallb_Forall (fun m => forallb (fattrb5 dec) (dm_attrs m))); [|exact Hf]. intros m Hm0. exact (forallb_Forall _ _ _ (fun x H => H) Hm0). }
  rewrite Rf. cbn [Base.Str.bind]. unfold R.methods_fmt. rewrite Rm. cbn [Base.Str.bind]. reflexivity.
Qed.

(* ---------------------------------------------------------------------------------------------- *)
(* non-vacuity: the class of BridgeFile4 with the three Module attributes, a Record component carrying a signature, the
   nested annotation and an unknown attribute, and a NESTED annotation on the class and the method (an array-valued element
   with an int and a boolean, an annotation-valued element holding an enum constant, a class literal, a string), an
   invisible marker annotation on the field, and an AnnotationDefault that is an array of annotations *)
Definition ex_ann : annotation :=
  (xb_sig, [ (xb_f, EArray [EConst 73%N (ECInt 7); EConst 90%N (ECInt 1)]);
             (xb_m, EAnnot xb_sig [(xb_f, EEnum xb_sig xb_A)]);
             (xb_A, EClass xb_V);
             (xb_I, EConst 115%N (ECUtf8 xb_f)) ]).
Definition ex_default : elem := EArray [EAnnot xb_sig [(xb_f, EConst 67%N (ECInt 65))]; EConst 83%N (ECInt (-2))].
Definition ex_file5 : cclass := {|
  k_minor := 0; k_major := 61; k_access := 33;
  k_name := xb_A; k_super := Some xb_O; k_interfaces := [];
  k_fields := [ {| f_access := 2; f_name := xb_f; f_desc := xb_I; f_deprecated := false; f_synthetic := false;
                   f_constant := None; f_signature := None;
                   f_annots := {| an_vis := []; an_invis := [(xb_sig, [])]; an_tvis := []; an_tinvis := [] |};
                   f_unknown := [(xb_X, [1]%N)] |} ];
  k_methods := [ {| md_access := 9; md_name := xb_m; md_desc := xb_V; md_deprecated := false; md_synthetic := false;
                    md_code := Some ex4_code; md_exceptions := None; md_signature := None;
                    md_annots := {| an_vis := [ex_ann]; an_invis := []; an_tvis := []; an_tinvis := [] |};
                    md_default := Some ex_default; md_parameters := Some [(Some xb_f, 16); (None, 0)]; md_unknown := [(xb_X, [])] |} ];
  k_deprecated := false; k_synthetic := false; k_inner := None;
  k_enclosing := Some (xb_O, Some (xb_m, xb_V)); k_signature := None; k_source_file := Some xb_f; k_source_debug := None;
  k_annots := {| an_vis := [ex_ann]; an_invis := [(xb_sig, [])]; an_tvis := []; an_tinvis := [] |};
  k_module := Some {| m_name := xb_A; m_flags := 32; m_version := Some xb_f;
                      m_requires := [ {| rq_name := xb_O; rq_flags := 32; rq_version := None |} ];
                      m_exports := [ {| ex_name := xb_I; ex_flags := 0; ex_to := [xb_O] |} ]; m_opens := [];
                      m_uses := [xb_O]; m_provides := [ {| pv_name := xb_O; pv_with := [xb_A] |} ] |};
  k_module_packages := Some [xb_I]; k_module_main := Some xb_A;
  k_nest_host := Some xb_O; k_nest_members := None; k_permitted := Some [xb_I];
  k_record := [ {| rc_name := xb_f; rc_desc := xb_I; rc_signature := Some xb_sig;
                   rc_annots := {| an_vis := [ex_ann]; an_invis := []; an_tvis := []; an_tinvis := [] |};
                   rc_unknown := [(xb_X, [5]%N)] |} ];
  k_unknown := [(xb_X, [1; 2; 3]%N)] |}.

Theorem class_file_example5 : exists bs aux d cs cattrs mvals cd,
  write_class_aux ex_file5 = WOK (bs, aux) /\ cclass_ok ex_file5 = true /\
  facts_of ex_file5 aux = Some d /\ in_fragment5 FB.C01.Mutf8.mutf8_dec ex_file5 aux = true /\
  in_fragment4 FB.C01.Mutf8.mutf8_dec ex_file5 aux = false /\
  Forall2 (crel5 FB.C01.Mutf8.mutf8_dec cs) (d_attrs d) cattrs /\ length cattrs = 11%nat /\
  Forall2 (member_rel FB.C01.Mutf8.mutf8_dec 2%N (mrel5 FB.C01.Mutf8.mutf8_dec)) (d_methods d) mvals /\
  R.read_class true FB.C01.Mutf8.mutf8_dec bs
  = R.build_class true (BP.rpool FB.C01.Mutf8.mutf8_dec cs) 0%N 61%N (head_val FB.C01.Mutf8.mutf8_dec ex_file5)
      (RF.VList cattrs)
      (RF.VList (map (member_val FB.C01.Mutf8.mutf8_dec 1%N (fattr_val5 FB.C01.Mutf8.mutf8_dec)) (d_fields d)))
      (RF.VList mvals) /\
  R.read_class true FB.C01.Mutf8.mutf8_dec bs = Ok cd /\
  In (RFo.a_RuntimeVisibleAnnotations, RF.VList [ann_val FB.C01.Mutf8.mutf8_dec ex_ann]) (R.cd_slots cd) /\
  match R.cd_methods cd with
  | [m] => In (RFo.a_AnnotationDefault, ev_val FB.C01.Mutf8.mutf8_dec ex_default) (R.md_slots m)
  | _ => False
  end.
Proof.
  destruct (write_class_aux ex_file5) as [[bs aux]|?c|] eqn:E; [|vm_compute in E; discriminate|vm_compute in E; discriminate].
  assert (Hok : cclass_ok ex_file5 = true) by (vm_compute; reflexivity).
  pose proof E as E0. vm_compute in E0. injection E0 as Ebs Eaux.
  assert (Hu : pool_utf8_ok FB.C01.Mutf8.mutf8_dec (a_pool aux) = true) by (rewrite <- Eaux; vm_compute; reflexivity).
  destruct (facts_of ex_file5 aux) as [d|] eqn:Hd; [|rewrite <- Eaux in Hd; vm_compute in Hd; discriminate].
  assert (Hf : dclass_frag5 FB.C01.Mutf8.mutf8_dec d = true /\ dclass_frag4 FB.C01.Mutf8.mutf8_dec d = false /\ length (d_attrs d) = 11%nat).
  { rewrite <- Eaux in Hd. vm_compute in Hd. injection Hd as <-. repeat split; vm_compute; reflexivity. }
  destruct Hf as (Hf & Hf4 & H7).
  destruct (class_file_read5 true FB.C01.Mutf8.mutf8_dec ex_file5 bs aux d Hok E ltac:(vm_compute; reflexivity) Hu ltac:(vm_compute; reflexivity) Hd Hf)
    as (cs & cattrs & mvals & _ & _ & Hrel & Hmrel & H).
  assert (Er : exists cd, R.read_class true FB.C01.Mutf8.mutf8_dec bs = Ok cd).
  { destruct (R.read_class true FB.C01.Mutf8.mutf8_dec bs) as [cd|] eqn:Er; [exists cd; reflexivity|rewrite <- Ebs in Er; vm_compute in Er; discriminate]. }
  destruct Er as (cd & Er).
  exists bs, aux, d, cs, cattrs, mvals, cd. split; [reflexivity|]. split; [exact Hok|]. split; [exact Hd|].
  split; [unfold in_fragment5; rewrite Hd; exact Hf|]. split; [unfold in_fragment4; rewrite Hd; exact Hf4|].
  split; [exact Hrel|]. split; [rewrite <- (Forall2_len _ _ _ Hrel); exact H7|]. split; [exact Hmrel|]. split; [exact H|].
  split; [exact Er|].
  rewrite <- Ebs in Er. vm_compute in Er. injection Er as <-. split; vm_compute; tauto.
Qed.
