(* X12 — bridge, part 20: THE FRAMES LAND ON THE TRANSLATED INSTRUCTIONS.
   Composition of  C02_frames_written (the written StackMapTable decodes, byte-only, to the tree's frames at the
   positions of the instructions that carry them in the written layout),  the layout agreement of the code-array bridge
   (BridgeEnc.pagree: C01's layout of the translated body puts the first instruction of every entry at C02's position),
   C01's attach_along / C01_frames_attached (frames at the offsets of instructions FI are attached, in order, to
   exactly the instructions FI), and — through BridgeFrames.smt_rel — C01's own reading of the attribute.
   [fidx chs 0 b fs]: the indices, in the translated body, of (the first instruction of) the entries that carry a frame. *)
From Coq Require Import List NArith ZArith Bool Lia.
From FB Require Import Base.Str C01.Model C01.Theory1 C01.Theory2 C01.Theory3 C01.Theory4.
From FB Require C02.Model C02.Encode C02.Theory2 C02.Theory3 C02.Theory4 C02.Frames C02.TheoryF.
From FB Require Import X12.BridgeDefs X12.BridgePlain X12.BridgeEnc X12.Bridge.
Import ListNotations.
Module WF := FB.C02.Frames.
Module WTF := FB.C02.TheoryF.
Arguments N.add : simpl never.
Arguments Z.add : simpl never.

Fixpoint fpos (pos : list Z) (fs : list (option WF.sframe)) : list Z :=
  match pos, fs with
  | p :: pos', Some _ :: fs' => p :: fpos pos' fs'
  | _ :: pos', None :: fs' => fpos pos' fs'
  | _, _ => []
  end.
Fixpoint fidx (chs : list bool) (k : nat) (b : W.body) (fs : list (option WF.sframe)) : list nat :=
  match b, chs, fs with
  | (_, e) :: r, c :: cs, Some _ :: fs' => k :: fidx cs (cnt c e + k) r fs'
  | (_, e) :: r, c :: cs, None :: fs' => fidx cs (cnt c e + k) r fs'
  | _, _, _ => []
  end.

Lemma tree_frames_pos L : forall pos fs ds, WF.tree_frames L pos fs = Some ds -> map fst ds = fpos pos fs.
Proof.
  induction pos as [|p pos IH]; intros fs ds H; destruct fs as [|[f|] fs]; cbn [WF.tree_frames fpos] in *;
    try (injection H as <-; reflexivity).
  - destruct (WF.tframe L f) as [d|]; [|discriminate]. destruct (WF.tree_frames L pos fs) as [r|] eqn:E; [|discriminate].
    injection H as <-. cbn [map fst]. rewrite (IH _ _ E). reflexivity.
  - exact (IH _ _ H).
Qed.

Lemma fidx_pos posf : forall b chs k p fs, pagree posf chs k p b ->
  map posf (fidx chs k b fs) = map Z.to_N (fpos (WE.positions chs p b) fs).
Proof.
  induction b as [|[lb e] r IHb]; intros chs k p fs HP.
  - destruct chs; reflexivity.
  - destruct chs as [|c cs]; [reflexivity|].
    cbn [pagree] in HP. destruct HP as [H1 H2]. cbn [fidx WE.positions].
    destruct fs as [|[f|] fs]; cbn [fpos map]; [reflexivity| |].
    + rewrite H1, (IHb cs _ _ fs H2). reflexivity.
    + exact (IHb cs _ _ fs H2).
Qed.

Lemma fidx_incr : forall b chs k fs, incr_from k (fidx chs k b fs) /\
  forall f, In f (fidx chs k b fs) -> (f < k + length (chl_from chs b))%nat.
Proof.
  induction b as [|[lb e] r IH]; intros chs k fs.
  { destruct chs; cbn [fidx]; (split; [exact I|intros f []]). }
  destruct chs as [|c cs]; [cbn [fidx]; split; [exact I|intros f []]|]. cbn [fidx chl_from].
  destruct (IH cs (cnt c e + k)%nat (tl fs)) as [I1 I2]. pose proof (cnt_pos c e) as Hc.
  rewrite app_length, ch_entry_length.
  assert (Hmono : forall lo lo' l, (lo <= lo')%nat -> incr_from lo' l -> incr_from lo l).
  { intros lo lo' l Hle. destruct l as [|x l]; [trivial|]. cbn [incr_from]. intros [A B]. split; [lia|exact B]. }
  destruct fs as [|[f|] fs]; cbn [tl] in *.
  - split; [exact I|intros f []].
  - split.
    + cbn [incr_from]. split; [lia|]. apply (Hmono _ (cnt c e + k)%nat); [lia|exact I1].
    + intros x [<-|Hx]; [lia|]. specialize (I2 x Hx). lia.
  - split.
    + apply (Hmono _ (cnt c e + k)%nat); [lia|exact I1].
    + intros x Hx. specialize (I2 x Hx). lia.
Qed.

Theorem frames_attach hasmax b last tb fs w Wd rt sm :
  W3.unique_labels b last -> WF.frames_ok fs = true -> length fs = length b ->
  WF.write_code_f hasmax b last tb fs = Some (W.OK (w, Wd, rt, Some sm)) ->
  let chs := W3.chs_run Wd 0%N 0%Z [] b in
  body_in chs b = true ->
  let body' := tr_body chs b last in
  let posf := posf_of (layout (tr_ch chs b) body') in
  let FI := fidx chs 0 b fs in
  exists ds,
    (* C02: the written attribute decodes to the tree's frames, at offsets … *)
    WF.dec_stack_map sm = Some ds /\ WF.tree_frames (WE.labpos chs 0 b last) (WE.positions chs 0 b) fs = Some ds /\
    (* … which are the offsets C01's layout gives the translated instructions FI *)
    map (fun e => Z.to_N (fst e)) ds = map posf FI /\
    incr_from 0 FI /\ (forall f, In f FI -> (f < length body')%nat) /\
    (* C01: frames queued at these offsets are attached, in order, to exactly the instructions FI *)
    (forall is : list (ainsn N), length is = length body' ->
       attach (combine (map posf (seq 0 (length is))) is) (map posf FI) 0 = attach_idx 0 (length is) FI 0) /\
    (forall m f, nth_error FI m = Some f -> nth_error (attach_idx 0 (length body') FI 0) f = Some (Some m)).
Proof.
  intros Hu Hok Hlen HW chs Hin body' posf FI.
  destruct (WTF.frames_written hasmax b last tb fs w Wd rt (Some sm) Hu Hok Hlen HW) as [HW0 (_ & ds & Htf & Hdec)].
  fold chs in Htf.
  assert (Hl : length chs = length b).
  { unfold W.write_code in HW0. destruct (negb hasmax); [discriminate|].
    destruct (W.wc_loop _ _ _ _) as [[[[w0 labs] W0]| |]|] eqn:E; try discriminate.
    destruct (W.resolve_tables labs tb) as [r0| |]; try discriminate. injection HW0 as <- <- <-.
    exact (proj1 (FB.C02.Theory4.write_is_encode _ _ _ _ _ Hu E)). }
  assert (P : pagree posf chs 0 0 b).
  { pose proof (layout_pagree (tr_ch chs b) (T_of chs b last) b chs 0 0 Hl ltac:(lia) Hin (tr_ch_at chs b)) as P.
    revert P. apply pagree_ext. intros j _. rewrite Nat.sub_0_r. reflexivity. }
  destruct (fidx_incr b chs 0 fs) as [I1 I2].
  assert (Hn : length body' = length (chl_from chs b)) by (unfold body', tr_body; apply tr_from_length).
  exists ds. split; [exact Hdec|]. split; [exact Htf|]. split; [|split; [exact I1|split; [intros f Hf; rewrite Hn; exact (I2 f Hf)|split]]].
  - rewrite <- (map_map fst Z.to_N), (tree_frames_pos _ _ _ _ Htf). symmetry. exact (fidx_pos posf b chs 0 0%Z fs P).
  - intros is His. apply (attach_along posf (length body')).
    + intros a c Hac Hc. exact (layout_from_nth_lt (tr_ch chs b) body' 0 0 a c Hac Hc).
    + lia.
    + exact I1.
    + intros f Hf. rewrite Hn. exact (I2 f Hf).
  - intros m f Hm. pose proof (attach_idx_spec (length body') 0 FI 0 I1 (fun f0 Hf0 => ltac:(rewrite Hn; exact (I2 f0 Hf0))) m f Hm) as A.
    rewrite Nat.sub_0_r in A. exact A.
Qed.

(* non-vacuity: iconst_0; ifeq L2; L2: return with a same-frame on L2 *)
Definition exa_b : W.body := [(Some 1%N, W.Plain [3%N]); (None, W.Br (W.KCond 153 154) 2%N); (Some 2%N, W.Plain [177%N])].
Definition exa_fs : list (option WF.sframe) := [None; None; Some WF.FSame].
Definition exa_tb : W.tables := {| W.t_exc := []; W.t_offs := []; W.t_ranges := [] |}.
Theorem attach_example : exists w rt sm,
  WF.write_code_f true exa_b None exa_tb exa_fs = Some (W.OK (w, [], rt, Some sm)) /\
  W3.unique_labels exa_b None /\ WF.frames_ok exa_fs = true /\ length exa_fs = length exa_b /\
  body_in (W3.chs_run [] 0%N 0%Z [] exa_b) exa_b = true /\ fidx (W3.chs_run [] 0%N 0%Z [] exa_b) 0 exa_b exa_fs = [2%nat].
Proof.
  eexists _, _, _. split; [vm_compute; reflexivity|]. split.
  - unfold W3.unique_labels. cbn. repeat constructor; cbn; intuition discriminate.
  - repeat split; vm_compute; reflexivity.
Qed.
