(* X12 — bridge, part 26: THE WHOLE FILE, fragment 6 = fragment 5
     + RuntimeVisibleTypeAnnotations / RuntimeInvisibleTypeAnnotations at class, field, method and record-component level
       and inside Code, each under C01's per-location target condition (tas_ok)
     + SourceDebugExtension (class) under the condition that the reader's decoder accepts its bytes (sde_ok).
   With this the fragment names every attribute kind of C02's decoded class (dattr / dattr0): dclass_frag6 is a
   conjunction of decidable SIDE CONDITIONS only (no kind is excluded any more). *)
From Coq Require Import List NArith ZArith Bool Lia.
From FB Require Import C02.Model C02.Encode C02.Theory2 C02.Theory8 C02.Frames C02.Class C02.Decode C02.Facts
  C02.TheoryC1 C02.TheoryC2 C02.TheoryC3 C02.TheoryC8.
From FB Require C01.Bytes C01.Pool C01.Attr C01.Tables C01.Fmt C01.Formats C01.ClassFile C01.Mutf8.
From FB Require X12.BridgePool.
From FB Require Import X12.BridgeClass X12.BridgeMembers X12.BridgeCode X12.BridgeFmt X12.BridgeDyn X12.BridgeFile X12.BridgeFmt2
  X12.BridgeFile2 X12.BridgeFrames X12.BridgeFile3 X12.BridgeUnknown X12.BridgeFmt3 X12.BridgeFile4 X12.BridgeAnnot X12.BridgeModule
  X12.BridgeRecord X12.BridgeFile5 X12.BridgeTypeAnn.
Import ListNotations.
Local Open Scope Z_scope.

(* ---- SourceDebugExtension ---- *)
Lemma name_SDE c nb q len s2 x r : attr_body AtClass c nb = Some q ->
  p_block len q s2 = Some (ASourceDebugExtension x, r) -> nb = s_SourceDebugExtension.
Proof. intros Hq Hb; namelemma Hq Hb. Qed.
Definition sde_ok (dec : RB.bytes -> res str) (b : bytes) : bool := match dec b with Ok _ => true | Err => false end.
Definition v_SDE (dec : RB.bytes -> res str) (b : bytes) : RF.val := RF.VAttr RFo.a_SourceDebugExtension (RF.VS (BP.sdec dec b)).
Theorem attr_SDE impl dec cs s x r t : BP.sdec dec s_SourceDebugExtension = RFo.a_SourceDebugExtension -> sde_ok dec x = true ->
  p_attr AtClass (cslots cs 1) s = Some (ASourceDebugExtension x, r) ->
  RF.rd_fmt impl dec (R.acc (BP.rpool dec cs)) (RF.FAttr R.class_sel) (s ++ t) = Ok (v_SDE dec x, r ++ t).
Proof.
  intros Hn Hx H. unfold p_attr in H.
  destruct (attr_with_inv _ _ _ _ _ _ H) as (i & nb & len & s1 & s2 & E1 & G & E2 & Hb).
  destruct (attr_body AtClass (cslots cs 1) nb) as [q|] eqn:Eq; [|destruct Hb as (b & _ & Hx'); discriminate].
  pose proof (name_SDE _ _ _ _ _ _ _ Eq Hb) as ->.
  assert (Eq' : attr_body AtClass (cslots cs 1) s_SourceDebugExtension = Some (fun bs => Some (ASourceDebugExtension bs, []))) by reflexivity.
  rewrite Eq' in Eq. injection Eq as <-.
  destruct (block_inv _ _ _ _ _ Hb) as (b & -> & Hlen & Hpb). injection Hpb as ->.
  cbn [RF.rd_fmt]. destruct (p_u16_app s i s1 t E1) as [-> _]. cbn [Base.Str.bind].
  rewrite (acc8 dec cs i _ G). cbn [Base.Str.bind]. rewrite Hn.
  destruct (p_u32_app s1 len (x ++ r) t E2) as [-> Hl]. cbn [Base.Str.bind].
  change (R.class_sel RFo.a_SourceDebugExtension (Z.to_N len)) with (RF.FMutf8 (Z.to_N len)). cbn [RF.rd_fmt].
  rewrite <- app_assoc, take_res_app by lia. cbn [Base.Str.bind].
  unfold v_SDE, BP.sdec. unfold sde_ok in Hx. destruct (dec x) as [y|]; [reflexivity|discriminate].
Qed.

Definition names_ok6 (dec : RB.bytes -> res str) : bool :=
  names_ok5 dec && names8 dec && str_eqb (BP.sdec dec s_SourceDebugExtension) RFo.a_SourceDebugExtension.
Lemma names_ok6_spec dec : names_ok6 dec = true ->
  names_ok5 dec = true /\ BP.sdec dec s_RVTAnn = RFo.a_RuntimeVisibleTypeAnnotations /\
  BP.sdec dec s_RITAnn = RFo.a_RuntimeInvisibleTypeAnnotations /\ BP.sdec dec s_SourceDebugExtension = RFo.a_SourceDebugExtension.
Proof.
  unfold names_ok6, names8. intros H. apply andb_prop in H. destruct H as [H H3]. apply andb_prop in H. destruct H as [H5 H].
  apply andb_prop in H. destruct H as [H1 H2]. repeat split; try assumption; apply str_eqb_eq; assumption.
Qed.

(* ---- inside Code ---- *)
Definition innerb6 (impl : bool) (dec : RB.bytes -> res str) (a : dattr0) : bool :=
  match a with ATypeAnnotations _ l => tas_ok impl RFo.target_code_tbl [] l | _ => innerb4 dec a end.
Definition inner_rel6 (dec : RB.bytes -> res str) (a : dattr0) (v : RF.val) : Prop :=
  match a with ATypeAnnotations vis l => v = v_TypeAnnotations dec vis l | _ => inner_rel4 dec a v end.
Lemma p2rR_inner6 impl dec cs : names_ok6 dec = true -> forall s a r t,
  p_attr0 AtCode (cslots cs 1) s = Some (a, r) -> innerb6 impl dec a = true ->
  exists v, RF.rd_fmt impl dec (R.acc (BP.rpool dec cs)) (RF.FAttr R.code_sel) (s ++ t) = Ok (v, r ++ t) /\ inner_rel6 dec a v.
Proof.
  intros Hn s a r t H Ha. destruct (names_ok6_spec dec Hn) as (Hn5 & T1 & T2 & _). destruct (names_ok5_spec dec Hn5) as (Hn4 & _).
  destruct a; try exact (p2rR_inner4 impl dec cs Hn4 s _ r t H Ha).
  cbn [innerb6] in Ha. cbn [inner_rel6]. eexists. split; [|reflexivity].
  exact (attr_TypeAnnotations0 impl dec cs AtCode R.code_sel RFo.target_code_tbl [] s visible l r t T1 T2 (fun _ => eq_refl) (fun _ => eq_refl) Ha H).
Qed.
Definition code_rel6 (dec : RB.bytes -> res str) (k : dcode) (v : RF.val) : Prop :=
  exists ivs, v = RF.VSeq [RF.VN (Z.to_N (dc_max_stack k)); RF.VN (Z.to_N (dc_max_locals k)); RF.VB (dc_code k);
                           RF.VList (map (exc_val dec) (dc_exceptions k)); RF.VList ivs] /\
              Forall2 (inner_rel6 dec) (dc_attrs k) ivs.
Lemma p2rR_code6 impl dec cs : names_ok6 dec = true -> forall s k r t,
  p_code (cslots cs 1) s = Some (k, r) -> Forall (fun a => innerb6 impl dec a = true) (dc_attrs k) ->
  exists v, RF.rd_fmt impl dec (R.acc (BP.rpool dec cs)) R.code_fmt (s ++ t) = Ok (v, r ++ t) /\ code_rel6 dec k v.
Proof.
  intros Hn s k r t H HQ. unfold p_code, pbind in H.
  destruct (p_u16 s) as [[ms s1]|] eqn:E1; [|discriminate]. destruct (p_u16 s1) as [[ml s2]|] eqn:E2; [|discriminate].
  destruct (p_u32 s2) as [[len s3]|] eqn:E3; [|discriminate]. destruct ((len <? 1) || (65535 <? len)); [discriminate|].
  destruct (p_take (Z.to_nat len) s3) as [[code s4]|] eqn:E4; [|discriminate].
  change (fun bs : bytes => match p_u16 bs with Some (a, r0) => _ | None => None end) with (p_exc (cslots cs 1)) in H.
  destruct (p_list16 (p_exc (cslots cs 1)) s4) as [[ex s5]|] eqn:E5; [|discriminate].
  destruct (p_attrs0 AtCode (cslots cs 1) s5) as [[at_ s6]|] eqn:E6; [|discriminate]. unfold pret in H. injection H as <- <-.
  cbn [dc_attrs] in HQ. unfold p_attrs0 in E6.
  destruct (p2rR_vec16 _ (inner_rel6 dec) impl dec _ _ _ (p2rR_inner6 impl dec cs Hn) _ _ _ t E6 HQ) as (ivs & Hivs & Rivs).
  eexists. split; [|exists ivs; split; [reflexivity|exact Rivs]].
  unfold R.code_fmt. cbn [dc_max_stack dc_max_locals dc_code dc_exceptions dc_attrs]. rewrite exc_table_fmt, rd_seq5.
  rewrite (p2r_u16 impl dec _ _ _ _ t E1). cbn [Base.Str.bind]. rewrite (p2r_u16 impl dec _ _ _ _ t E2). cbn [Base.Str.bind].
  destruct (p_take_inv _ _ _ _ E4) as [-> Hc]. destruct (p_u32_app _ _ _ t E3) as [R3 Hl].
  rewrite <- app_assoc in R3.
  rewrite (rd_bytes32 impl dec _ _ _ _ code (s4 ++ t) R3) by (apply take_res_app; lia). cbn [Base.Str.bind].
  rewrite (p2r_vec16 impl dec _ _ _ _ (p2r_exc impl dec cs) _ _ _ t E5). cbn [Base.Str.bind].
  rewrite Hivs. reflexivity.
Qed.

(* ---- method attributes ---- *)
Definition mattrb6 (impl : bool) (dec : RB.bytes -> res str) (a : dattr) : bool :=
  match a with
  | ACode k => forallb (innerb6 impl dec) (dc_attrs k)
  | ALeaf (ATypeAnnotations _ l) => tas_ok impl RFo.target_method_tbl R.target_method_extra l
  | _ => mattrb5 dec a
  end.
Definition mrel6 (dec : RB.bytes -> res str) (a : dattr) (v : RF.val) : Prop :=
  match a with
  | ACode k => exists cv, v = RF.VAttr RFo.a_Code cv /\ code_rel6 dec k cv
  | ALeaf (ATypeAnnotations vis l) => v = v_TypeAnnotations dec vis l
  | _ => mrel5 dec a v
  end.
Lemma attr_Code6 impl dec cs s k r t : names_ok6 dec = true -> Forall (fun a => innerb6 impl dec a = true) (dc_attrs k) ->
  p_attr AtMethod (cslots cs 1) s = Some (ACode k, r) ->
  exists v, RF.rd_fmt impl dec (R.acc (BP.rpool dec cs)) (RF.FAttr R.method_sel) (s ++ t) = Ok (v, r ++ t) /\ mrel6 dec (ACode k) v.
Proof.
  intros Hn Hk H. destruct (names_ok6_spec dec Hn) as (Hn5 & _). destruct (names_ok5_spec dec Hn5) as (Hn4 & _).
  destruct (names_ok4_spec dec Hn4) as (_ & Hn2 & _). unfold p_attr in H.
  destruct (attr_with_inv _ _ _ _ _ _ H) as (i & nb & len & s1 & s2 & E1 & G & E2 & Hb).
  destruct (attr_body AtMethod (cslots cs 1) nb) as [q|] eqn:Eq; [|destruct Hb as (b & _ & Hx); discriminate].
  pose proof (name_Code _ _ _ _ _ _ _ Eq Hb) as ->.
  assert (Eq' : attr_body AtMethod (cslots cs 1) s_Code = Some (x <~ p_code (cslots cs 1) ;; pret (ACode x))) by reflexivity.
  rewrite Eq' in Eq. injection Eq as <-.
  destruct (block_inv _ _ _ _ _ Hb) as (b & -> & Hlen & Hpb).
  unfold pbind, pret in Hpb. destruct (p_code (cslots cs 1) b) as [[y rb]|] eqn:Ep; [|discriminate]. injection Hpb as -> ->.
  destruct (p2rR_code6 impl dec cs Hn b k [] (r ++ t) Ep Hk) as (cv & Hcv & Rcv). cbn [app] in Hcv.
  exists (RF.VAttr RFo.a_Code cv). split; [|exists cv; split; [reflexivity|exact Rcv]].
  cbn [RF.rd_fmt]. destruct (p_u16_app s i s1 t E1) as [-> _]. cbn [Base.Str.bind].
  rewrite (acc8 dec cs i _ G). cbn [Base.Str.bind]. rewrite (names_in dec s_Code _ Hn2) by inpairs.
  destruct (p_u32_app s1 len (b ++ r) t E2) as [-> _]. cbn [Base.Str.bind].
  change (R.method_sel RFo.a_Code (Z.to_N len)) with R.code_fmt.
  rewrite <- app_assoc. fold (RF.rd_fmt impl dec (R.acc (BP.rpool dec cs)) R.code_fmt (b ++ r ++ t)). rewrite Hcv. reflexivity.
Qed.
Lemma p2rR_method6 impl dec cs : names_ok6 dec = true -> forall s a r t,
  p_attr AtMethod (cslots cs 1) s = Some (a, r) -> mattrb6 impl dec a = true ->
  exists v, RF.rd_fmt impl dec (R.acc (BP.rpool dec cs)) (RF.FAttr R.method_sel) (s ++ t) = Ok (v, r ++ t) /\ mrel6 dec a v.
Proof.
  intros Hn s a r t H Ha. destruct (names_ok6_spec dec Hn) as (Hn5 & T1 & T2 & _).
  destruct a; try exact (p2rR_method5 impl dec cs Hn5 s _ r t H Ha).
  - destruct a; try exact (p2rR_method5 impl dec cs Hn5 s _ r t H Ha).
    cbn [mattrb6] in Ha. cbn [mrel6]. eexists. split; [|reflexivity].
    exact (attr_TypeAnnotations impl dec cs AtMethod R.method_sel RFo.target_method_tbl R.target_method_extra s visible l r t T1 T2
             (or_intror (or_intror eq_refl)) (fun _ => eq_refl) (fun _ => eq_refl) Ha H).
  - cbn [mattrb6] in Ha. apply (attr_Code6 impl dec cs s c r t Hn); [|exact H].
    apply Forall_forall. rewrite forallb_forall in Ha. exact Ha.
Qed.

(* ---- field attributes ---- *)
Definition fattrb6 (impl : bool) (dec : RB.bytes -> res str) (a : dattr) : bool :=
  match a with ALeaf (ATypeAnnotations _ l) => tas_ok impl RFo.target_field_tbl [] l | _ => fattrb5 dec a end.
Definition fattr_val6 (dec : RB.bytes -> res str) (a : dattr) : RF.val :=
  match a with ALeaf (ATypeAnnotations vis l) => v_TypeAnnotations dec vis l | _ => fattr_val5 dec a end.
Lemma p2rq_field6 impl dec cs : names_ok6 dec = true ->
  p2rq (fun a => fattrb6 impl dec a = true) (p_attr AtField (cslots cs 1)) (RF.rd_fmt impl dec (R.acc (BP.rpool dec cs)) (RF.FAttr R.field_sel)) (fattr_val6 dec).
Proof.
  intros Hn s a r t H Ha. destruct (names_ok6_spec dec Hn) as (Hn5 & T1 & T2 & _).
  destruct a; try exact (p2rq_field5 impl dec cs Hn5 s _ r t H Ha).
  destruct a; try exact (p2rq_field5 impl dec cs Hn5 s _ r t H Ha).
  cbn [fattrb6] in Ha.
  exact (attr_TypeAnnotations impl dec cs AtField R.field_sel RFo.target_field_tbl [] s visible l r t T1 T2
           (or_intror (or_introl eq_refl)) (fun _ => eq_refl) (fun _ => eq_refl) Ha H).
Qed.

(* ---- record components ---- *)
Definition rattrb6 (impl : bool) (dec : RB.bytes -> res str) (a : dattr0) : bool :=
  match a with ATypeAnnotations _ l => tas_ok impl RFo.target_field_tbl [] l | _ => rattrb dec a end.
Definition rattr_val6 (dec : RB.bytes -> res str) (a : dattr0) : RF.val :=
  match a with ATypeAnnotations vis l => v_TypeAnnotations dec vis l | _ => rattr_val dec a end.
Lemma p2rq_rattr6 impl dec cs : names_ok6 dec = true ->
  p2rq (fun a => rattrb6 impl dec a = true) (p_attr0 AtRecord (cslots cs 1)) (RF.rd_fmt impl dec (R.acc (BP.rpool dec cs)) (RF.FAttr R.record_sel)) (rattr_val6 dec).
Proof.
  intros Hn s a r t H Ha. destruct (names_ok6_spec dec Hn) as (Hn5 & T1 & T2 & _).
  destruct (names_ok5_spec dec Hn5) as (_ & N1 & N2 & _). destruct (names_ok5_spec2 dec Hn5) as (_ & _ & _ & _ & M5).
  destruct a; try exact (p2rq_rattr impl dec cs M5 N1 N2 s _ r t H Ha).
  cbn [rattrb6] in Ha.
  exact (attr_TypeAnnotations0 impl dec cs AtRecord R.record_sel RFo.target_field_tbl [] s visible l r t T1 T2 (fun _ => eq_refl) (fun _ => eq_refl) Ha H).
Qed.
Definition rcompb6 (impl : bool) (dec : RB.bytes -> res str) (c : drecord) : bool := forallb (rattrb6 impl dec) (dr_attrs c).
Definition rc_val6 (dec : RB.bytes -> res str) (c : drecord) : RF.val :=
  RF.VSeq [u8v dec (dr_name c); u8v dec (dr_desc c); RF.VList (map (rattr_val6 dec) (dr_attrs c))].
Lemma p2rq_rcomp6 impl dec cs : names_ok6 dec = true ->
  p2rq (fun c => rcompb6 impl dec c = true) (p_record_component (cslots cs 1))
       (RF.rd_fmt impl dec (R.acc (BP.rpool dec cs)) (RF.FSeq [RF.FIdx 8%N; RF.FIdx 8%N; RF.FVec16 (RF.FAttr R.record_sel)])) (rc_val6 dec).
Proof.
  intros Hn s c r t H Hc. unfold p_record_component, pbind, pret in H.
  destruct (p_idx get_utf8 (cslots cs 1) s) as [[n s1]|] eqn:E1; [|discriminate].
  destruct (p_idx get_utf8 (cslots cs 1) s1) as [[d s2]|] eqn:E2; [|discriminate].
  destruct (p_attrs0 AtRecord (cslots cs 1) s2) as [[a s3]|] eqn:E3; [|discriminate]. injection H as <- <-.
  unfold rcompb6 in Hc. cbn [dr_attrs] in Hc. unfold rc_val6. cbn [dr_name dr_desc dr_attrs].
  rewrite rd_seq3, (p2r_utf8 impl dec cs _ _ _ t E1). cbn [Base.Str.bind].
  rewrite (p2r_utf8 impl dec cs _ _ _ t E2). cbn [Base.Str.bind]. unfold p_attrs0 in E3.
  rewrite (p2rq_vec16 _ impl dec _ _ _ _ (p2rq_rattr6 impl dec cs Hn) _ _ _ t E3); [reflexivity|].
  apply (forallb_Forall (rattrb6 impl dec)); [intros x Hx; exact Hx|exact Hc].
Qed.
Definition v_Record6 dec (l : list drecord) : RF.val := RF.VAttr RFo.a_Record (RF.VList (map (rc_val6 dec) l)).
Theorem attr_Record6 impl dec cs s x r t : names_ok6 dec = true -> forallb (rcompb6 impl dec) x = true ->
  p_attr AtClass (cslots cs 1) s = Some (ARecord x, r) ->
  RF.rd_fmt impl dec (R.acc (BP.rpool dec cs)) (RF.FAttr R.class_sel) (s ++ t) = Ok (v_Record6 dec x, r ++ t).
Proof.
  intros Hn Hx H. destruct (names_ok6_spec dec Hn) as (Hn5 & _). destruct (names_ok5_spec2 dec Hn5) as (_ & _ & _ & M4 & _). unfold p_attr in H.
  destruct (attr_p2r (fun l => forallb (rcompb6 impl dec) l = true) impl dec cs _ _ R.class_sel ARecord (p_list16 (p_record_component (cslots cs 1))) s_Record
              RFo.a_Record (RF.FVec16 (RF.FSeq [RF.FIdx 8%N; RF.FIdx 8%N; RF.FVec16 (RF.FAttr R.record_sel)])) (fun l => RF.VList (map (rc_val6 dec) l))
              s _ r t H) as (y & Ey & Hr).
  - intros nb q Hq len s2 y r' Hb ->. exact (name_Record _ _ _ _ _ _ _ Hq Hb).
  - reflexivity.
  - exact M4.
  - intros len. reflexivity.
  - intros s0 l r0 t0 H0 Hl. apply (p2rq_vec16 _ impl dec _ _ _ _ (p2rq_rcomp6 impl dec cs Hn) _ _ _ t0 H0).
    apply (forallb_Forall (rcompb6 impl dec)); [intros y Hy; exact Hy|exact Hl].
  - intros y [= <-]. exact Hx.
  - intros nb b. discriminate.
  - injection Ey as <-. exact Hr.
Qed.

(* ---- class attributes ---- *)
Definition cattrb6 (impl : bool) (dec : RB.bytes -> res str) (a : dattr) : bool :=
  match a with
  | ALeaf (ATypeAnnotations _ l) => tas_ok impl RFo.target_class_tbl [] l
  | ASourceDebugExtension b => sde_ok dec b
  | ARecord l => forallb (rcompb6 impl dec) l
  | _ => cattrb5 dec a
  end.
Definition crel6 (dec : RB.bytes -> res str) (cs : list centry) (a : dattr) (v : RF.val) : Prop :=
  match a with
  | ALeaf (ATypeAnnotations vis l) => v = v_TypeAnnotations dec vis l
  | ASourceDebugExtension b => v = v_SDE dec b
  | ARecord l => v = v_Record6 dec l
  | _ => crel5 dec cs a v
  end.
Lemma p2rR_class6 impl dec cs : names_ok6 dec = true -> forall s a r t,
  p_attr AtClass (cslots cs 1) s = Some (a, r) -> cattrb6 impl dec a = true ->
  exists v, RF.rd_fmt impl dec (R.acc (BP.rpool dec cs)) (RF.FAttr R.class_sel) (s ++ t) = Ok (v, r ++ t) /\ crel6 dec cs a v.
Proof.
  intros Hn s a r t H Ha. destruct (names_ok6_spec dec Hn) as (Hn5 & T1 & T2 & T3).
  destruct a; try exact (p2rR_class5 impl dec cs Hn5 s _ r t H Ha).
  - destruct a; try exact (p2rR_class5 impl dec cs Hn5 s _ r t H Ha).
    cbn [cattrb6] in Ha. cbn [crel6]. eexists. split; [|reflexivity].
    exact (attr_TypeAnnotations impl dec cs AtClass R.class_sel RFo.target_class_tbl [] s visible l r t T1 T2
             (or_introl eq_refl) (fun _ => eq_refl) (fun _ => eq_refl) Ha H).
  - cbn [cattrb6] in Ha. cbn [crel6]. eexists. split; [exact (attr_SDE impl dec cs s b r t T3 Ha H)|reflexivity].
  - cbn [cattrb6] in Ha. cbn [crel6]. eexists. split; [exact (attr_Record6 impl dec cs s l r t Hn Ha H)|reflexivity].
Qed.

(* ---------------------------------------------------------------------------------------------- *)
Definition dclass_frag6 (impl : bool) (dec : RB.bytes -> res str) (d : dclass) : bool :=
  forallb (cattrb6 impl dec) (d_attrs d) && forallb (fun m => forallb (fattrb6 impl dec) (dm_attrs m)) (d_fields d)
  && forallb (fun m => forallb (mattrb6 impl dec) (dm_attrs m)) (d_methods d).
Definition in_fragment6 (impl : bool) (dec : RB.bytes -> res str) (t : cclass) (aux : class_aux) : bool :=
  match facts_of t aux with Some d => dclass_frag6 impl dec d | None => false end.

Theorem class_file_read6 impl dec t bs aux d :
  cclass_ok t = true -> write_class_aux t = WOK (bs, aux) ->
  RA.header_ok FB.C01.Tables.magic (Z.to_N (k_minor t)) (Z.to_N (k_major t)) = true ->
  pool_utf8_ok dec (a_pool aux) = true -> names_ok6 dec = true ->
  facts_of t aux = Some d -> dclass_frag6 impl dec d = true ->
  exists cs cattrs mvals,
    rev (p_inner (a_pool aux)) = map mk cs /\ agrees (a_pool aux) (cslots cs 1) /\
    Forall2 (crel6 dec cs) (d_attrs d) cattrs /\
    Forall2 (member_rel dec 2%N (mrel6 dec)) (d_methods d) mvals /\
    R.read_class impl dec bs
    = R.build_class impl (BP.rpool dec cs) (Z.to_N (k_minor t)) (Z.to_N (k_major t)) (head_val dec t)
        (RF.VList cattrs)
        (RF.VList (map (member_val dec 1%N (fattr_val6 dec)) (d_fields d)))
        (RF.VList mvals).
Proof.
  intros Hok Hw Hgate Hdec Hn Hd Hfrag.
  destruct (class_read_base impl dec t bs aux Hok Hw Hgate Hdec) as (cs & fields & mbytes & abytes & fs & ms & ds & Ecs & Hag & Hhead & Hfs & Hms & Df & Dm & Da & (d' & Hd' & F1 & F2 & F3)).
  rewrite Hd in Hd'. injection Hd' as <-. subst fs ms ds.
  unfold dclass_frag6 in Hfrag. apply andb_prop in Hfrag. destruct Hfrag as [Hfrag Hm]. apply andb_prop in Hfrag. destruct Hfrag as [Hc Hf].
  pose proof (Df _ _ (mbytes ++ abytes) (pool_ext_refl _) Hag) as Pf.
  pose proof (Dm _ _ abytes (pool_ext_refl _) Hag) as Pm.
  pose proof (Da _ _ [] (pool_ext_refl _) Hag) as Pa. rewrite app_nil_r in Pa.
  destruct (p2rR_vec16 (fun a => cattrb6 impl dec a = true) (crel6 dec cs) impl dec _ _ _ (p2rR_class6 impl dec cs Hn) _ _ _ [] Pa
              (forallb_Forall _ _ _ (fun x H => H) Hc)) as (cattrs & Ra & Rc).
  rewrite app_nil_r in Ra.
  assert (HmQ : Forall (fun m => Forall (fun a => mattrb6 impl dec a = true) (dm_attrs m)) (d_methods d)).
  { apply (forallb_Forall (fun m => forallb (mattrb6 impl dec) (dm_attrs m))); [|exact Hm]. intros m Hm0. exact (forallb_Forall _ _ _ (fun x H => H) Hm0). }
  destruct (p2rR_vec16 _ (member_rel dec 2%N (mrel6 dec)) impl dec _ _ _
              (p2rR_member _ (mrel6 dec) impl dec cs AtMethod 2%N R.method_sel (p2rR_method6 impl dec cs Hn)) _ _ _ [] Pm HmQ) as (mvals & Rm & Rmr).
  rewrite !app_nil_r in Rm.
  exists cs, cattrs, mvals. split; [exact Ecs|]. split; [exact Hag|]. split; [exact Rc|]. split; [exact Rmr|].
  rewrite (read_class_head impl dec bs _ _ _ _ _ Hhead).
  pose proof (members_read impl dec cs AtField 1%N _ _ _ Pf) as Sf. apply rd_headers_skip in Sf.
  pose proof (members_read impl dec cs AtMethod 2%N _ _ _ Pm) as Sm. apply rd_headers_skip in Sm.
  rewrite Sf. cbn [Base.Str.bind]. rewrite Sm. cbn [Base.Str.bind].
  unfold R.class_attrs_fmt. rewrite Ra. cbn [Base.Str.bind].
  assert (Rf : RF.rd_fmt impl dec (R.acc (BP.rpool dec cs)) R.fields_fmt (fields ++ mbytes ++ abytes)
               = Ok (RF.VList (map (member_val dec 1%N (fattr_val6 dec)) (d_fields d)), mbytes ++ abytes)).
  { pose proof (p2rq_vec16 _ impl dec _ _ _ _ (p2rq_member _ impl dec cs AtField 1%N R.field_sel _ (p2rq_field6 impl dec cs Hn)) _ _ _ [] Pf) as E.
    rewrite !app_nil_r in E. apply E.
    apply (forallb_Forall (fun m => forallb (fattrb6 impl dec) (dm_attrs m))); [|exact Hf]. intros m Hm0. exact (forallb_Forall _ _ _ (fun x H => H) Hm0). }
  rewrite Rf. cbn [Base.Str.bind]. unfold R.methods_fmt. rewrite Rm. cbn [Base.Str.bind]. reflexivity.
Qed.

(* ---------------------------------------------------------------------------------------------- *)
(* non-vacuity: the class of BridgeFile5 with SourceDebugExtension "SMAP" and type annotations at all five locations:
   class (supertype), field (empty target), method (formal parameter 0 and the return type), record component (empty
   target), Code (an offset target on a label and a local-variable table target), each with a type path *)
Definition ex_ta {P} (tg : target P) : type_annotation P :=
  {| ta_target := tg; ta_path := [(3, 1); (0, 0)]; ta_type := xb_sig; ta_pairs := [(xb_f, EConst 73%N (ECInt 7))] |}.
Definition ex6_code : ccode := {|
  c_max := Some (2, 1);
  c_insns := [ (Some 1%N, None, IRaw [3]%N); (None, None, IBr (KCond 153 154) 2%N); (Some 2%N, Some CFSame, IRaw [177]%N) ];
  c_last := None; c_exceptions := []; c_lines := Some [(1%N, 7)]; c_locals := None;
  c_tvis := [ex_ta (TOffset 67%N 2%N); ex_ta (TLocalVar 64%N [(1%N, 2%N, 0)])]; c_tinvis := [ex_ta (TCatch 66%N 0)];
  c_unknown := [(xb_X, [9; 9]%N)] |}.
Definition ex_file6 : cclass := {|
  k_minor := 0; k_major := 61; k_access := 33;
  k_name := xb_A; k_super := Some xb_O; k_interfaces := [];
  k_fields := [ {| f_access := 2; f_name := xb_f; f_desc := xb_I; f_deprecated := false; f_synthetic := false;
                   f_constant := None; f_signature := None;
                   f_annots := {| an_vis := []; an_invis := [(xb_sig, [])]; an_tvis := [ex_ta (TEmpty 19%N)]; an_tinvis := [] |};
                   f_unknown := [(xb_X, [1]%N)] |} ];
  k_methods := [ {| md_access := 9; md_name := xb_m; md_desc := xb_V; md_deprecated := false; md_synthetic := false;
                    md_code := Some ex6_code; md_exceptions := None; md_signature := None;
                    md_annots := {| an_vis := [ex_ann]; an_invis := []; an_tvis := [ex_ta (TFormalParameter 22%N 0)];
                                    an_tinvis := [ex_ta (TEmpty 20%N)] |};
                    md_default := Some ex_default; md_parameters := Some [(Some xb_f, 16); (None, 0)]; md_unknown := [(xb_X, [])] |} ];
  k_deprecated := false; k_synthetic := false; k_inner := None;
  k_enclosing := Some (xb_O, Some (xb_m, xb_V)); k_signature := None; k_source_file := Some xb_f;
  k_source_debug := Some [83; 77; 65; 80]%N;
  k_annots := {| an_vis := [ex_ann]; an_invis := [(xb_sig, [])]; an_tvis := [ex_ta (TSupertype 16%N 65535)]; an_tinvis := [] |};
  k_module := k_module ex_file5; k_module_packages := Some [xb_I]; k_module_main := Some xb_A;
  k_nest_host := Some xb_O; k_nest_members := None; k_permitted := Some [xb_I];
  k_record := [ {| rc_name := xb_f; rc_desc := xb_I; rc_signature := Some xb_sig;
                   rc_annots := {| an_vis := [ex_ann]; an_invis := []; an_tvis := []; an_tinvis := [ex_ta (TEmpty 19%N)] |};
                   rc_unknown := [(xb_X, [5]%N)] |} ];
  k_unknown := [(xb_X, [1; 2; 3]%N)] |}.

Theorem class_file_example6 : exists bs aux d cs cattrs mvals cd,
  write_class_aux ex_file6 = WOK (bs, aux) /\ cclass_ok ex_file6 = true /\
  facts_of ex_file6 aux = Some d /\ in_fragment6 true FB.C01.Mutf8.mutf8_dec ex_file6 aux = true /\
  in_fragment5 FB.C01.Mutf8.mutf8_dec ex_file6 aux = false /\
  Forall2 (crel6 FB.C01.Mutf8.mutf8_dec cs) (d_attrs d) cattrs /\ length cattrs = 13%nat /\
  Forall2 (member_rel FB.C01.Mutf8.mutf8_dec 2%N (mrel6 FB.C01.Mutf8.mutf8_dec)) (d_methods d) mvals /\
  R.read_class true FB.C01.Mutf8.mutf8_dec bs
  = R.build_class true (BP.rpool FB.C01.Mutf8.mutf8_dec cs) 0%N 61%N (head_val FB.C01.Mutf8.mutf8_dec ex_file6)
      (RF.VList cattrs)
      (RF.VList (map (member_val FB.C01.Mutf8.mutf8_dec 1%N (fattr_val6 FB.C01.Mutf8.mutf8_dec)) (d_fields d)))
      (RF.VList mvals) /\
  R.read_class true FB.C01.Mutf8.mutf8_dec bs = Ok cd /\
  In (RFo.a_RuntimeVisibleTypeAnnotations,
      RF.VList [ta_val FB.C01.Mutf8.mutf8_dec (ex_ta (TSupertype 16%N 65535))]) (R.cd_slots cd).
Proof.
  destruct (write_class_aux ex_file6) as [[bs aux]|?c|] eqn:E; [|vm_compute in E; discriminate|vm_compute in E; discriminate].
  assert (Hok : cclass_ok ex_file6 = true) by (vm_compute; reflexivity).
  pose proof E as E0. vm_compute in E0. injection E0 as Ebs Eaux.
  assert (Hu : pool_utf8_ok FB.C01.Mutf8.mutf8_dec (a_pool aux) = true) by (rewrite <- Eaux; vm_compute; reflexivity).
  destruct (facts_of ex_file6 aux) as [d|] eqn:Hd; [|rewrite <- Eaux in Hd; vm_compute in Hd; discriminate].
  assert (Hf : dclass_frag6 true FB.C01.Mutf8.mutf8_dec d = true /\ dclass_frag5 FB.C01.Mutf8.mutf8_dec d = false /\ length (d_attrs d) = 13%nat).
  { rewrite <- Eaux in Hd. vm_compute in Hd. injection Hd as <-. repeat split; vm_compute; reflexivity. }
  destruct Hf as (Hf & Hf5 & H13).
  destruct (class_file_read6 true FB.C01.Mutf8.mutf8_dec ex_file6 bs aux d Hok E ltac:(vm_compute; reflexivity) Hu ltac:(vm_compute; reflexivity) Hd Hf)
    as (cs & cattrs & mvals & _ & _ & Hrel & Hmrel & H).
  assert (Er : exists cd, R.read_class true FB.C01.Mutf8.mutf8_dec bs = Ok cd).
  { destruct (R.read_class true FB.C01.Mutf8.mutf8_dec bs) as [cd|] eqn:Er; [exists cd; reflexivity|rewrite <- Ebs in Er; vm_compute in Er; discriminate]. }
  destruct Er as (cd & Er).
  exists bs, aux, d, cs, cattrs, mvals, cd. split; [reflexivity|]. split; [exact Hok|]. split; [exact Hd|].
  split; [unfold in_fragment6; rewrite Hd; exact Hf|]. split; [unfold in_fragment5; rewrite Hd; exact Hf5|].
  split; [exact Hrel|]. split; [rewrite <- (Forall2_len _ _ _ Hrel); exact H13|]. split; [exact Hmrel|]. split; [exact H|].
  split; [exact Er|].
  rewrite <- Ebs in Er. vm_compute in Er. injection Er as <-. vm_compute. tauto.
Qed.
