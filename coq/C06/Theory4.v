(* C06 theory, part 4: the X -> Y -> X round trip for members reached through inheritance.

   Forward: BRemapper (tables R, provider I) answers a member query (owner c, key k) with the entry
   of the first type of the depth-first pre-order from c that declares k, else with the unchanged
   name and the remapped descriptor.  Backward: the reverse remapper is the swapped table
   [swap_b R] (remapper_b_swap) with the provider JarSuperProv::remap produces — every class name
   of I sent through the forward class map ([remap_inh]).

   The naive statement "back (forward q) = q" is false: Sub.m -> n, Base.p -> n, Sub extends Base
   gives Sub.p -> n, and n maps back to m ([shadow_counterexample]).  The right hypothesis is that the
   members VISIBLE from the owner (its own table and those of all types of its pre-order) are named
   injectively in the target namespace: two visible entries with the same target key have the same
   source key ([no_shadow_collision], decidable); for a key that no visible type declares (fall-back
   answer) the fall-back key must not be the target of a visible entry — the member analogue of
   [closedb] for class names.  Together with the class-level hypotheses (target class names pairwise
   distinct, every class name of the provider and the owner is mapped or is not some other class's
   target name) the round trip holds for every owner, with or without an entry of its own. *)
From FB Require Import C06.Model C18.Theory C06.Theory1 C06.Theory2 C06.Theory3.
From Coq Require Import Arith Lia.
Arguments N.add : simpl never.
Arguments N.eqb : simpl never.

(* ------------------------------------------------------------------ *)
(* the provider with class names mapped *)
Definition remap_inh (f : str -> str) (I : inh) : inh := map (fun e => (f (fst e), map f (snd e))) I.
Definition inh_names (I : inh) : list str := flat_map (fun e => fst e :: snd e) I.
(* every class name the provider mentions is mapped, or is not some other class's target name *)
Definition prov_closed (R : bremap) (I : inh) : bool := forallb (closedb R) (inh_names I).

(* the member table an entry-less or mapped type contributes *)
Definition own (sel : bclass -> mtable) (R : bremap) (y : str) : mtable :=
  match b_get R y with Some cl => sel cl | None => [] end.
(* all entries the search from c can see: own and inherited, pre-order *)
Definition visible (sel : bclass -> mtable) (R : bremap) (I : inh) (c : str) : mtable :=
  flat_map (own sel R) (preorder I c).
Definition target_inj (t : mtable) : bool :=
  forallb (fun e1 => forallb (fun e2 => implb (key_eqb (snd e1) (snd e2)) (key_eqb (fst e1) (fst e2))) t) t.
Definition no_shadow_collision (sel : bclass -> mtable) (R : bremap) (I : inh) (c : str) : bool :=
  target_inj (visible sel R I c).

Lemma declared_own sel R y k : declared sel R y k = get_last key_eqb k (own sel R y).
Proof. unfold declared, own. destruct (b_get R y); reflexivity. Qed.

Lemma target_inj_spec t : target_inj t = true ->
  forall k1 k2 v, In (k1, v) t -> In (k2, v) t -> k1 = k2.
Proof.
  unfold target_inj. rewrite forallb_forall. intros H k1 k2 v H1 H2.
  specialize (H _ H1). rewrite forallb_forall in H. specialize (H _ H2). cbn [fst snd] in H.
  assert (E : key_eqb v v = true) by (apply key_eqb_ok; reflexivity). rewrite E in H. cbn [implb] in H.
  apply key_eqb_ok. exact H.
Qed.

Lemma visible_In sel R I c y e : In y (preorder I c) -> In e (own sel R y) -> In e (visible sel R I c).
Proof. intros Hy He. unfold visible. apply in_flat_map. exists y. auto. Qed.

Lemma swap_mt_In_inv t k v : In (v, k) (swap_mt t) -> In (k, v) t.
Proof.
  unfold swap_mt. rewrite in_map_iff. intros ([k' v'] & [= <- <-] & H). exact H.
Qed.

(* ------------------------------------------------------------------ *)
(* the class map is injective on closed names *)
Lemma closed_inj R a b : tables_inj (swap_b R) = true -> closedb R a = true -> closedb R b = true ->
  b_map_class R a = b_map_class R b -> a = b.
Proof.
  intros Hinj Ha Hb E. rewrite <- (roundtrip_class R a Hinj Ha), <- (roundtrip_class R b Hinj Hb), E. reflexivity.
Qed.

(* the classes the search from c can touch *)
Definition inD (I : inh) (c x : str) : Prop := x = c \/ In x (inh_names I).

Lemma keys_names I k : In k (map fst I) -> In k (inh_names I).
Proof.
  unfold inh_names. rewrite in_map_iff, in_flat_map. intros (e & <- & He). exists e. split; [exact He|left; reflexivity].
Qed.

Lemma supers_names I x ss s : supers I x = Some ss -> In s ss -> In s (inh_names I).
Proof.
  intros E Hs. apply supers_In in E. unfold inh_names. apply in_flat_map. exists (x, ss). split; [exact E|right; exact Hs].
Qed.

Lemma supers_remap f I x : (forall k, In k (map fst I) -> f k = f x -> k = x) ->
  supers (remap_inh f I) (f x) = option_map (map f) (supers I x).
Proof.
  induction I as [|[k ss] I IH]; intros H; cbn [remap_inh map supers fst snd]; [reflexivity|].
  destruct (str_eqb_spec x k) as [->|Hne].
  - rewrite str_eqb_refl. reflexivity.
  - destruct (str_eqb_spec (f x) (f k)) as [E|_].
    + exfalso. apply Hne. symmetry. apply H; [left; reflexivity|symmetry; exact E].
    + apply IH. intros k' Hk'. apply H. right. exact Hk'.
Qed.

Lemma dfs_remap f I c : (forall a b, inD I c a -> inD I c b -> f a = f b -> a = b) ->
  forall fuel x, inD I c x ->
  dfs_pre fuel (remap_inh f I) (f x) = map f (dfs_pre fuel I x) /\
  bounded fuel (remap_inh f I) (f x) = bounded fuel I x.
Proof.
  intros Hinj. induction fuel as [|n IH]; intros x Hx; [split; reflexivity|].
  cbn [dfs_pre bounded].
  rewrite supers_remap by (intros k Hk E; apply Hinj; [right; apply keys_names; exact Hk|exact Hx|exact E]).
  destruct (supers I x) as [ss|] eqn:E; cbn [option_map map]; [|split; reflexivity].
  assert (Hss : forall s, In s ss -> inD I c s) by (intros s Hs; right; eapply supers_names; eauto).
  clear E. split.
  - f_equal. induction ss as [|s ss IHss]; cbn [map flat_map]; [reflexivity|].
    rewrite map_app, (proj1 (IH s (Hss s (or_introl eq_refl)))). f_equal.
    apply IHss. intros s' Hs'. apply Hss. right. exact Hs'.
  - induction ss as [|s ss IHss]; cbn [map forallb]; [reflexivity|].
    rewrite (proj2 (IH s (Hss s (or_introl eq_refl)))). f_equal.
    apply IHss. intros s' Hs'. apply Hss. right. exact Hs'.
Qed.

Lemma dfs_inD I c : forall fuel x y, inD I c x -> In y (dfs_pre fuel I x) -> inD I c y.
Proof.
  induction fuel as [|n IH]; intros x y Hx Hy; [destruct Hy|]. cbn [dfs_pre] in Hy.
  destruct Hy as [<-|Hy]; [exact Hx|].
  destruct (supers I x) as [ss|] eqn:E; [|destruct Hy].
  apply in_flat_map in Hy. destruct Hy as (s & Hs & Hy). apply (IH s y); [|exact Hy].
  right. eapply supers_names; eauto.
Qed.

Lemma first_declaring_map decl (f : str -> str) l :
  first_declaring decl (map f l) = first_declaring (fun y => decl (f y)) l.
Proof. induction l as [|x l IH]; cbn [map first_declaring]; [reflexivity|]. rewrite IH. reflexivity. Qed.

Lemma first_declaring_ext_in d1 d2 l : (forall y, In y l -> d1 y = d2 y) -> first_declaring d1 l = first_declaring d2 l.
Proof.
  induction l as [|x l IH]; intros H; cbn [first_declaring]; [reflexivity|].
  rewrite (H x (or_introl eq_refl)), IH; [reflexivity|]. intros y Hy. apply H. right. exact Hy.
Qed.

(* ------------------------------------------------------------------ *)
(* what the reverse tables declare for a mapped class name *)
Lemma declared_back sel R y v :
  sel = b_fields \/ sel = b_methods -> tables_inj (swap_b R) = true -> closedb R y = true ->
  declared sel (swap_b R) (b_map_class R y) v = get_last key_eqb v (swap_mt (own sel R y)).
Proof.
  intros Hsel Hinj Hcl. unfold declared, own, b_map_class, b_map_class_fail.
  destruct (b_get R y) as [cl|] eqn:E.
  - apply (get_last_In str_eqb) in E; [|apply str_eqb_ok]. rewrite (swap_b_get R y cl Hinj E).
    destruct Hsel as [-> | ->]; reflexivity.
  - apply (get_last_None str_eqb) in E; [|apply str_eqb_ok].
    unfold closedb in Hcl. apply orb_true_iff in Hcl as [Hcl|Hcl].
    + apply existsb_str in Hcl. contradiction.
    + assert (En : b_get (swap_b R) y = None).
      { apply (get_last_None str_eqb); [apply str_eqb_ok|]. rewrite swap_b_keys. intros Hin.
        apply existsb_str in Hin. rewrite Hin in Hcl. discriminate. }
      rewrite En. reflexivity.
Qed.

(* the reverse search, expressed over the forward pre-order *)
Lemma back_search sel R I rank c v :
  sel = b_fields \/ sel = b_methods -> tables_inj (swap_b R) = true -> acyclic_rank I rank ->
  closedb R c = true -> prov_closed R I = true ->
  map_member_fail sel (default_fuel (remap_inh (b_map_class R) I)) (swap_b R) (remap_inh (b_map_class R) I) (b_map_class R c) v
  = Ok (first_declaring (fun y => get_last key_eqb v (swap_mt (own sel R y))) (preorder I c)).
Proof.
  intros Hsel Hinj Ha Hc Hp.
  assert (Hcl : forall x, inD I c x -> closedb R x = true).
  { intros x [->|Hx]; [exact Hc|]. unfold prov_closed in Hp. rewrite forallb_forall in Hp. apply Hp. exact Hx. }
  assert (Hf : forall a b, inD I c a -> inD I c b -> b_map_class R a = b_map_class R b -> a = b).
  { intros a b Ha' Hb'. apply closed_inj; auto. }
  assert (Efuel : default_fuel (remap_inh (b_map_class R) I) = default_fuel I).
  { unfold default_fuel, remap_inh. rewrite map_length. reflexivity. }
  rewrite Efuel.
  destruct (dfs_remap (b_map_class R) I c Hf (default_fuel I) c (or_introl eq_refl)) as [Hd Hb].
  rewrite map_member_fail_spec by (rewrite Hb; apply (acyclic_fuel I rank c Ha)).
  rewrite Hd, first_declaring_map. f_equal. apply first_declaring_ext_in. intros y Hy.
  apply declared_back; auto. apply Hcl. apply (dfs_inD I c (default_fuel I) c y); [left; reflexivity|exact Hy].
Qed.

(* found forward => the reverse search finds the source key *)
Lemma back_first sel R I c k v :
  no_shadow_collision sel R I c = true ->
  first_declaring (fun y => declared sel R y k) (preorder I c) = Some v ->
  first_declaring (fun y => get_last key_eqb v (swap_mt (own sel R y))) (preorder I c) = Some k.
Proof.
  intros Hns Hf. pose proof (target_inj_spec _ Hns) as Hti.
  apply first_declaring_some in Hf. destruct Hf as (l1 & x & l2 & El & Hx & Hl1).
  rewrite declared_own in Hx. apply (get_last_In key_eqb) in Hx; [|apply key_eqb_ok].
  assert (Hxin : In x (preorder I c)) by (rewrite El; apply in_or_app; right; left; reflexivity).
  pose proof (visible_In sel R I c x _ Hxin Hx) as Hvx.
  apply first_declaring_some. exists l1, x, l2. split; [exact El|]. split.
  - destruct (get_last key_eqb v (swap_mt (own sel R x))) as [k'|] eqn:E.
    + apply (get_last_In key_eqb) in E; [|apply key_eqb_ok]. apply swap_mt_In_inv in E.
      f_equal. apply (Hti k' k v); [apply (visible_In sel R I c x _ Hxin E)|exact Hvx].
    + apply (get_last_None key_eqb) in E; [|apply key_eqb_ok]. exfalso. apply E.
      apply in_map_iff. exists (v, k). split; [reflexivity|apply swap_mt_In; exact Hx].
  - intros y Hy. destruct (get_last key_eqb v (swap_mt (own sel R y))) as [k'|] eqn:E; [|reflexivity]. exfalso.
    apply (get_last_In key_eqb) in E; [|apply key_eqb_ok]. apply swap_mt_In_inv in E.
    assert (Hyin : In y (preorder I c)) by (rewrite El; apply in_or_app; left; exact Hy).
    assert (k' = k) by (apply (Hti k' k v); [apply (visible_In sel R I c y _ Hyin E)|exact Hvx]). subst k'.
    specialize (Hl1 y Hy). rewrite declared_own in Hl1. apply (get_last_None key_eqb) in Hl1; [|apply key_eqb_ok].
    apply Hl1. apply in_map_iff. exists (k, v). split; [reflexivity|exact E].
Qed.

(* a key that is the target of no visible entry is found by no type of the reverse search *)
Lemma back_none sel R I c v :
  ~ In v (map snd (visible sel R I c)) ->
  first_declaring (fun y => get_last key_eqb v (swap_mt (own sel R y))) (preorder I c) = None.
Proof.
  intros Hn. apply first_declaring_none. intros y Hy.
  destruct (get_last key_eqb v (swap_mt (own sel R y))) as [k'|] eqn:E; [|reflexivity]. exfalso.
  apply (get_last_In key_eqb) in E; [|apply key_eqb_ok]. apply swap_mt_In_inv in E.
  apply Hn. apply in_map_iff. exists (k', v). split; [reflexivity|apply (visible_In sel R I c y _ Hy E)].
Qed.

(* ------------------------------------------------------------------ *)
(* the round trip of one member query, for either table *)
Theorem roundtrip_inherited_gen sel R I rank c k v :
  sel = b_fields \/ sel = b_methods -> tables_inj (swap_b R) = true -> acyclic_rank I rank ->
  closedb R c = true -> prov_closed R I = true -> no_shadow_collision sel R I c = true ->
  map_member sel (default_fuel I) R I c k = Ok v ->
  (first_declaring (fun y => declared sel R y k) (preorder I c) = None ->
     ~ In v (map snd (visible sel R I c)) /\ b_map_desc (swap_b R) (snd v) = Ok (snd k)) ->
  map_member sel (default_fuel (remap_inh (b_map_class R) I)) (swap_b R) (remap_inh (b_map_class R) I) (b_map_class R c) v = Ok k.
Proof.
  intros Hsel Hinj Ha Hc Hp Hns Hfw Hfb.
  destruct (map_member_spec sel R I rank c k Ha) as [_ E2]. rewrite E2 in Hfw. clear E2.
  unfold map_member. rewrite (back_search sel R I rank c v Hsel Hinj Ha Hc Hp).
  destruct (first_declaring (fun y => declared sel R y k) (preorder I c)) as [v0|] eqn:Ef.
  - injection Hfw as ->. rewrite (back_first sel R I c k v Hns Ef). reflexivity.
  - destruct (Hfb eq_refl) as [Hnv Hd]. rewrite (back_none sel R I c v Hnv), Hd.
    destruct (b_map_desc R (snd k)) as [d|]; [|discriminate]. injection Hfw as <-. destruct k; reflexivity.
Qed.

(* found case alone: no condition on the descriptor of the query *)
Theorem roundtrip_inherited_found sel R I rank c k v :
  sel = b_fields \/ sel = b_methods -> tables_inj (swap_b R) = true -> acyclic_rank I rank ->
  closedb R c = true -> prov_closed R I = true -> no_shadow_collision sel R I c = true ->
  map_member_fail sel (default_fuel I) R I c k = Ok (Some v) ->
  map_member sel (default_fuel I) R I c k = Ok v /\
  map_member sel (default_fuel (remap_inh (b_map_class R) I)) (swap_b R) (remap_inh (b_map_class R) I) (b_map_class R c) v = Ok k.
Proof.
  intros Hsel Hinj Ha Hc Hp Hns Hfw.
  assert (E : map_member sel (default_fuel I) R I c k = Ok v) by (unfold map_member; rewrite Hfw; reflexivity).
  split; [exact E|]. apply (roundtrip_inherited_gen sel R I rank c k v); auto.
  intros Hn. destruct (map_member_spec sel R I rank c k Ha) as [E1 _]. rewrite E1, Hn in Hfw. discriminate.
Qed.

(* ------------------------------------------------------------------ *)
(* decidable conditions on a query: found, or (fall-back) its descriptor is a descriptor over closed
   class names and the fall-back key is not the target of a visible entry *)
Definition field_query_ok (R : bremap) (I : inh) (c : str) (k : key) : bool :=
  match first_declaring (fun y => declared b_fields R y k) (preorder I c) with
  | Some _ => true
  | None => match parse_field (snd k) with
            | Ok t => forallb (closedb R) (ty_names t) &&
                      negb (existsb (key_eqb (fst k, print_ty (map_ty (b_map_class R) t))) (map snd (visible b_fields R I c)))
            | Err => false
            end
  end.
Definition method_query_ok (R : bremap) (I : inh) (c : str) (k : key) : bool :=
  match first_declaring (fun y => declared b_methods R y k) (preorder I c) with
  | Some _ => true
  | None => match parse_method (snd k) with
            | Ok m => forallb (closedb R) (mty_names m) &&
                      negb (existsb (key_eqb (fst k, print_method (map_mty (b_map_class R) m))) (map snd (visible b_methods R I c)))
            | Err => false
            end
  end.

(* the world-level hypotheses *)
Definition rt_world (R : bremap) (I : inh) : bool :=
  tables_inj (swap_b R) && names_valid R && prov_closed R I.
Definition rt_owner (sel : bclass -> mtable) (R : bremap) (I : inh) (c : str) : bool :=
  closedb R c && no_shadow_collision sel R I c.

Lemma existsb_key k l : existsb (key_eqb k) l = false -> ~ In k l.
Proof.
  intros H Hin. assert (X : existsb (key_eqb k) l = true).
  { apply existsb_exists. exists k. split; [exact Hin|apply key_eqb_ok; reflexivity]. }
  congruence.
Qed.

Theorem roundtrip_field_inherited R I rank c k :
  rt_world R I = true -> acyclic_rank I rank -> rt_owner b_fields R I c = true -> field_query_ok R I c k = true ->
  exists c' k', map_field_ref R I c k = Ok (c', k') /\
                map_field_ref (swap_b R) (remap_inh (b_map_class R) I) c' k' = Ok (c, k).
Proof.
  unfold rt_world, rt_owner. rewrite !andb_true_iff. intros [[Hinj Hv] Hp] Ha [Hc Hns] Hq.
  destruct (map_member_spec b_fields R I rank c k Ha) as [_ E2].
  assert (H : exists v, map_field R I c k = Ok v /\
              (first_declaring (fun y => declared b_fields R y k) (preorder I c) = None ->
               ~ In v (map snd (visible b_fields R I c)) /\ b_map_desc (swap_b R) (snd v) = Ok (snd k))).
  { unfold map_field. rewrite E2. unfold field_query_ok in Hq.
    destruct (first_declaring (fun y => declared b_fields R y k) (preorder I c)) as [v|].
    - exists v. split; [reflexivity|discriminate].
    - destruct (parse_field (snd k)) as [t|] eqn:Ep; [|discriminate].
      apply andb_true_iff in Hq as [Hcl Hnv]. apply negb_true_iff in Hnv.
      destruct (roundtrip_field_desc R (snd k) t Hv Hinj Ep Hcl) as [E1 Eb]. rewrite E1.
      eexists. split; [reflexivity|]. intros _. cbn [snd]. split; [apply existsb_key; exact Hnv|exact Eb]. }
  destruct H as (v & Ev & Hfb). exists (b_map_class R c), v. unfold map_field_ref. rewrite Ev. split; [reflexivity|].
  unfold map_field. rewrite (roundtrip_inherited_gen b_fields R I rank c k v (or_introl eq_refl) Hinj Ha Hc Hp Hns Ev Hfb).
  rewrite (roundtrip_class R c Hinj Hc). reflexivity.
Qed.

Theorem roundtrip_method_inherited R I rank c k :
  rt_world R I = true -> acyclic_rank I rank -> rt_owner b_methods R I c = true -> method_query_ok R I c k = true ->
  exists c' k', map_method_ref_obj R I c k = Ok (c', k') /\
                map_method_ref_obj (swap_b R) (remap_inh (b_map_class R) I) c' k' = Ok (c, k).
Proof.
  unfold rt_world, rt_owner. rewrite !andb_true_iff. intros [[Hinj Hv] Hp] Ha [Hc Hns] Hq.
  destruct (map_member_spec b_methods R I rank c k Ha) as [_ E2].
  assert (H : exists v, map_method R I c k = Ok v /\
              (first_declaring (fun y => declared b_methods R y k) (preorder I c) = None ->
               ~ In v (map snd (visible b_methods R I c)) /\ b_map_desc (swap_b R) (snd v) = Ok (snd k))).
  { unfold map_method. rewrite E2. unfold method_query_ok in Hq.
    destruct (first_declaring (fun y => declared b_methods R y k) (preorder I c)) as [v|].
    - exists v. split; [reflexivity|discriminate].
    - destruct (parse_method (snd k)) as [m|] eqn:Ep; [|discriminate].
      apply andb_true_iff in Hq as [Hcl Hnv]. apply negb_true_iff in Hnv.
      destruct (roundtrip_method_desc R (snd k) m Hv Hinj Ep Hcl) as [E1 Eb]. rewrite E1.
      eexists. split; [reflexivity|]. intros _. cbn [snd]. split; [apply existsb_key; exact Hnv|exact Eb]. }
  destruct H as (v & Ev & Hfb). exists (b_map_class R c), v. unfold map_method_ref_obj. rewrite Ev. split; [reflexivity|].
  unfold map_method. rewrite (roundtrip_inherited_gen b_methods R I rank c k v (or_intror eq_refl) Hinj Ha Hc Hp Hns Ev Hfb).
  rewrite (roundtrip_class R c Hinj Hc). reflexivity.
Qed.

(* stated on the mapping set: the reverse remapper is the one Mappings::remapper_b(Y, X, ..) builds *)
Theorem roundtrip_mappings_inherited M X Y R I rank :
  remapper_b M X Y = Ok R -> rt_world R I = true -> acyclic_rank I rank ->
  exists R', remapper_b M Y X = Ok R' /\
    (forall c k, rt_owner b_fields R I c = true -> field_query_ok R I c k = true ->
       exists c' k', map_field_ref R I c k = Ok (c', k') /\
                     map_field_ref R' (remap_inh (b_map_class R) I) c' k' = Ok (c, k)) /\
    (forall c k, rt_owner b_methods R I c = true -> method_query_ok R I c k = true ->
       exists c' k', map_method_ref_obj R I c k = Ok (c', k') /\
                     map_method_ref_obj R' (remap_inh (b_map_class R) I) c' k' = Ok (c, k)).
Proof.
  intros HR Hw Ha. exists (swap_b R). split; [apply remapper_b_swap; exact HR|]. split; intros c k Ho Hq.
  - apply (roundtrip_field_inherited R I rank c k Hw Ha Ho Hq).
  - apply (roundtrip_method_inherited R I rank c k Hw Ha Ho Hq).
Qed.

(* ------------------------------------------------------------------ *)
(* JarSuperProv::remap is [remap_inh] on providers whose class names the class map keeps apart *)
Definition prov_wf (p : inh) : bool :=
  nodupb str_eqb (map fst p) && forallb (fun e => nodupb str_eqb (snd e)) p.

Lemma put_first_fresh {V} k (v : V) l : ~ In k (map fst l) -> put_first k v l = l ++ [(k, v)].
Proof.
  induction l as [|[k' v'] l IH]; cbn [put_first map fst In app]; intros H; [reflexivity|].
  destruct (str_eqb_spec k k') as [->|_]; [exfalso; apply H; left; reflexivity|].
  f_equal. apply IH. intros Hin. apply H. right. exact Hin.
Qed.

Lemma set_of_nodup l : NoDup l -> set_of l = l.
Proof.
  unfold set_of. assert (H : forall acc, NoDup (acc ++ l) ->
    fold_left (fun s x => if existsb (str_eqb x) s then s else s ++ [x]) l acc = acc ++ l).
  { induction l as [|x l IH]; intros acc Hn; cbn [fold_left]; [rewrite app_nil_r; reflexivity|].
    assert (Hx : existsb (str_eqb x) acc = false).
    { destruct (existsb (str_eqb x) acc) eqn:E; [|reflexivity]. apply existsb_str in E.
      exfalso. apply NoDup_remove_2 in Hn. apply Hn. apply in_or_app. left. exact E. }
    rewrite Hx. rewrite IH; [rewrite <- app_assoc; reflexivity|]. rewrite <- app_assoc. exact Hn. }
  intros Hn. apply (H [] Hn).
Qed.

Lemma NoDup_map_inj_on {A B} (f : A -> B) l :
  (forall a b, In a l -> In b l -> f a = f b -> a = b) -> NoDup l -> NoDup (map f l).
Proof.
  intros Hf Hn. induction Hn as [|x l Hx Hn IH]; cbn [map]; constructor.
  - intros Hin. apply in_map_iff in Hin. destruct Hin as (y & E & Hy).
    assert (y = x) by (apply Hf; [right; exact Hy|left; reflexivity|exact E]). subst y. contradiction.
  - apply IH. intros a b Ha Hb. apply Hf; right; assumption.
Qed.

Lemma remap_prov_inj f p :
  (forall a b, In a (inh_names p) -> In b (inh_names p) -> f a = f b -> a = b) ->
  prov_wf p = true -> remap_prov f p = remap_inh f p.
Proof.
  intros Hf Hw. unfold prov_wf in Hw. apply andb_true_iff in Hw as [Hk Hs].
  apply (nodupb_NoDup str_eqb) in Hk; [|apply str_eqb_ok]. rewrite forallb_forall in Hs.
  unfold remap_prov.
  assert (H : forall q acc, incl q p -> NoDup (map fst acc ++ map f (map fst q)) ->
    fold_left (fun P e => put_first (f (fst e)) (set_of (map f (snd e))) P) q acc = acc ++ remap_inh f q).
  { induction q as [|e q IH]; intros acc Hq Hn; cbn [fold_left remap_inh map]; [rewrite app_nil_r; reflexivity|].
    cbn [map] in Hn.
    rewrite put_first_fresh.
    2:{ apply NoDup_remove_2 in Hn. intros Hin. apply Hn. apply in_or_app. left. exact Hin. }
    rewrite set_of_nodup.
    2:{ apply NoDup_map_inj_on.
        - intros a b Ha' Hb'. apply Hf; unfold inh_names; apply in_flat_map; exists e;
            (split; [apply Hq; left; reflexivity|right; assumption]).
        - apply (nodupb_NoDup str_eqb); [apply str_eqb_ok|]. apply Hs. apply Hq. left. reflexivity. }
    rewrite IH.
    - rewrite <- app_assoc. reflexivity.
    - intros x Hx. apply Hq. right. exact Hx.
    - rewrite map_app. cbn [map fst]. rewrite <- app_assoc. cbn [app]. exact Hn. }
  rewrite (H p [] (incl_refl p)); [reflexivity|]. cbn [map app].
  apply NoDup_map_inj_on; [|exact Hk].
  intros a b Ha' Hb'. apply Hf; apply keys_names; assumption.
Qed.

Theorem remap_provs_inh R ps :
  tables_inj (swap_b R) = true -> prov_closed R (concat ps) = true -> forallb prov_wf ps = true ->
  concat (remap_provs (b_map_class R) ps) = remap_inh (b_map_class R) (concat ps).
Proof.
  intros Hinj Hp Hw. unfold remap_provs, remap_inh. rewrite concat_map. f_equal.
  apply map_ext_in. intros p Hin. rewrite forallb_forall in Hw.
  apply remap_prov_inj; [|apply Hw; exact Hin].
  unfold prov_closed in Hp. rewrite forallb_forall in Hp.
  assert (Hsub : forall a, In a (inh_names p) -> In a (inh_names (concat ps))).
  { intros a Ha'. unfold inh_names in *. apply in_flat_map in Ha'. destruct Ha' as (e & He & Ha').
    apply in_flat_map. exists e. split; [|exact Ha']. apply in_concat. exists p. auto. }
  intros a b Ha' Hb'. apply closed_inj; auto.
Qed.

(* ------------------------------------------------------------------ *)
(* necessity of the hypotheses, and non-vacuity *)
From Coq Require Import String Ascii.

(* the recorded counterexample: Sub.m -> n, Base.p -> n, Sub extends Base.  Every class-level
   hypothesis holds; the visible members of Sub are not named injectively; Sub.p -> n -> m *)
Definition cx_M : mappings :=
  mkMappings [s2l "x"; s2l "y"] None
    [ mkClass [Some (s2l "Sub"); Some (s2l "SubY")] None [] [mkMeth (s2l "()V") [Some (s2l "m"); Some (s2l "n")] None []];
      mkClass [Some (s2l "Base"); Some (s2l "BaseY")] None [] [mkMeth (s2l "()V") [Some (s2l "p"); Some (s2l "n")] None []] ].
Definition cx_I : inh := [(s2l "Sub", [s2l "Base"])].
Definition cx_rank (c : str) : nat := if str_eqb c (s2l "Sub") then 1 else 0.
Definition cx_R : bremap := match remapper_b cx_M 0 1 with Ok R => R | Err => [] end.

(* the fall-back analogue: C.a -> b and an unmapped member b of the same descriptor: C.b -> b -> a *)
Definition cx2_M : mappings :=
  mkMappings [s2l "x"; s2l "y"] None
    [ mkClass [Some (s2l "C"); Some (s2l "CY")] None [] [mkMeth (s2l "()V") [Some (s2l "a"); Some (s2l "b")] None []] ].
Definition cx2_R : bremap := match remapper_b cx2_M 0 1 with Ok R => R | Err => [] end.
Definition cx2_I : inh := [(s2l "D", [s2l "C"])].
Definition cx2_rank (c : str) : nat := if str_eqb c (s2l "D") then 1 else 0.

Definition shadow_counterexample : Prop :=
  remapper_b cx_M 0 1 = Ok cx_R /\ remapper_b cx_M 1 0 = Ok (swap_b cx_R) /\
  rt_world cx_R cx_I = true /\ acyclicb cx_I cx_rank = true /\ closedb cx_R (s2l "Sub") = true /\
  method_query_ok cx_R cx_I (s2l "Sub") (s2l "p", s2l "()V") = true /\
  no_shadow_collision b_methods cx_R cx_I (s2l "Sub") = false /\
  remap_inh (b_map_class cx_R) cx_I = [(s2l "SubY", [s2l "BaseY"])] /\
  map_method_ref_obj cx_R cx_I (s2l "Sub") (s2l "p", s2l "()V") = Ok (s2l "SubY", (s2l "n", s2l "()V")) /\
  map_method_ref_obj (swap_b cx_R) (remap_inh (b_map_class cx_R) cx_I) (s2l "SubY") (s2l "n", s2l "()V")
    = Ok (s2l "Sub", (s2l "m", s2l "()V")) /\
  (* fall-back: everything holds except method_query_ok *)
  remapper_b cx2_M 0 1 = Ok cx2_R /\ rt_world cx2_R cx2_I = true /\ acyclicb cx2_I cx2_rank = true /\
  rt_owner b_methods cx2_R cx2_I (s2l "D") = true /\
  method_query_ok cx2_R cx2_I (s2l "D") (s2l "b", s2l "()V") = false /\
  map_method_ref_obj cx2_R cx2_I (s2l "D") (s2l "b", s2l "()V") = Ok (s2l "D", (s2l "b", s2l "()V")) /\
  map_method_ref_obj (swap_b cx2_R) (remap_inh (b_map_class cx2_R) cx2_I) (s2l "D") (s2l "b", s2l "()V")
    = Ok (s2l "D", (s2l "a", s2l "()V")).

Lemma shadow_counterexample_holds : shadow_counterexample.
Proof. unfold shadow_counterexample. repeat split; vm_compute; reflexivity. Qed.

(* non-vacuity: the world of Theory3 (three namespaces, from = 1, to = 2).  U has no row and its
   first super type is unknown; Mid declares nothing; V extends Sub (which shadows Base.m) and Base;
   Half has no name in `to`, hence no entry.  Every query below is inside the hypotheses and is
   answered through inheritance. *)
Definition ex_I' : inh := remap_inh (b_map_class ex_R) ex_I.
Definition ex_m1 : key := (s2l "m1", s2l "([Lb/Base1;I)V").
Definition inherited_examples : Prop :=
  rt_world ex_R ex_I = true /\ acyclicb ex_I ex_rank = true /\ prov_wf ex_I = true /\
  List.concat (remap_provs (b_map_class ex_R) [ex_I]) = ex_I' /\
  ex_I' = [ (s2l "U", [s2l "not/Known"; s2l "n/MidN"]); (s2l "n/MidN", [s2l "n/BaseN"]);
            (s2l "n/SubN", [s2l "n/MidN"]); (s2l "V", [s2l "n/SubN"; s2l "n/BaseN"]);
            (s2l "b/Half1", [s2l "n/BaseN"]) ] /\
  (* owner without a row, member declared two levels up *)
  rt_owner b_methods ex_R ex_I (s2l "U") = true /\ method_query_ok ex_R ex_I (s2l "U") ex_m1 = true /\
  declared b_methods ex_R (s2l "U") ex_m1 = None /\
  map_method_ref_obj ex_R ex_I (s2l "U") ex_m1 = Ok (s2l "U", (s2l "mN", s2l "([Ln/BaseN;I)V")) /\
  map_method_ref_obj (swap_b ex_R) ex_I' (s2l "U") (s2l "mN", s2l "([Ln/BaseN;I)V") = Ok (s2l "U", ex_m1) /\
  (* shadowing with equal source keys is not a collision *)
  rt_owner b_methods ex_R ex_I (s2l "V") = true /\ method_query_ok ex_R ex_I (s2l "V") ex_m1 = true /\
  map_method_ref_obj ex_R ex_I (s2l "V") ex_m1 = Ok (s2l "V", (s2l "mSubN", s2l "([Ln/BaseN;I)V")) /\
  map_method_ref_obj (swap_b ex_R) ex_I' (s2l "V") (s2l "mSubN", s2l "([Ln/BaseN;I)V") = Ok (s2l "V", ex_m1) /\
  (* a mapped owner that declares nothing itself *)
  rt_owner b_methods ex_R ex_I (s2l "b/Mid1") = true /\ method_query_ok ex_R ex_I (s2l "b/Mid1") ex_m1 = true /\
  map_method_ref_obj ex_R ex_I (s2l "b/Mid1") ex_m1 = Ok (s2l "n/MidN", (s2l "mN", s2l "([Ln/BaseN;I)V")) /\
  map_method_ref_obj (swap_b ex_R) ex_I' (s2l "n/MidN") (s2l "mN", s2l "([Ln/BaseN;I)V") = Ok (s2l "b/Mid1", ex_m1) /\
  (* an inherited field, owner without entry *)
  rt_owner b_fields ex_R ex_I (s2l "b/Half1") = true /\
  field_query_ok ex_R ex_I (s2l "b/Half1") (s2l "f1", s2l "Lb/Sub1;") = true /\
  map_field_ref ex_R ex_I (s2l "b/Half1") (s2l "f1", s2l "Lb/Sub1;") = Ok (s2l "b/Half1", (s2l "fN", s2l "Ln/SubN;")) /\
  map_field_ref (swap_b ex_R) ex_I' (s2l "b/Half1") (s2l "fN", s2l "Ln/SubN;") = Ok (s2l "b/Half1", (s2l "f1", s2l "Lb/Sub1;")) /\
  (* a key nobody declares: fall-back there and back *)
  method_query_ok ex_R ex_I (s2l "U") (s2l "zz", s2l "(Lb/Sub1;)V") = true /\
  map_method_ref_obj ex_R ex_I (s2l "U") (s2l "zz", s2l "(Lb/Sub1;)V") = Ok (s2l "U", (s2l "zz", s2l "(Ln/SubN;)V")) /\
  map_method_ref_obj (swap_b ex_R) ex_I' (s2l "U") (s2l "zz", s2l "(Ln/SubN;)V") = Ok (s2l "U", (s2l "zz", s2l "(Lb/Sub1;)V")).

Lemma inherited_examples_hold : inherited_examples.
Proof. unfold inherited_examples. repeat split; vm_compute; reflexivity. Qed.
