(* C06 theory, part 1: the descriptor scanner map_desc.
   - enough fuel: the result does not depend on the fuel once it exceeds the length
   - unfolding equations
   - map_desc_shape: on every descriptor of the JVMS grammar (C18's FieldTypeG / ReturnG / MethodG)
     the rewritten descriptor is the printed form of the same type structure with exactly the
     class names mapped, and (when the class map yields binary class names) parses back to it
   - map_desc_id *)
From FB Require Import C06.Model C18.Theory.
From Coq Require Import Arith.
Arguments N.add : simpl never.
Arguments N.eqb : simpl never.

(* ------------------------------------------------------------------ *)
(* fuel *)

Lemma take_until_semi_len s n r : take_until_semi s = Ok (n, r) -> (length r < length s)%nat.
Proof.
  intros H. apply take_until_semi_spec in H as [-> _]. rewrite app_length. cbn. lia.
Qed.

Lemma map_desc_f_fuel f : forall k1 k2 s, (length s < k1)%nat -> (length s < k2)%nat ->
  map_desc_f k1 f s = map_desc_f k2 f s.
Proof.
  induction k1 as [|k1 IH]; intros k2 s H1 H2; [lia|].
  destruct k2 as [|k2]; [lia|]. cbn [map_desc_f].
  destruct s as [|c s]; [reflexivity|]. cbn [length] in H1, H2.
  destruct (N.eqb c cL).
  - destruct s as [|c1 s]; [reflexivity|]. destruct (N.eqb c1 cSEMI); [reflexivity|].
    destruct (take_until_semi s) as [[n r]|] eqn:E; [|reflexivity].
    apply take_until_semi_len in E. cbn [length] in H1, H2.
    rewrite (IH k2 r) by lia. reflexivity.
  - rewrite (IH k2 s) by lia. reflexivity.
Qed.

Lemma map_desc_fuel f k s : (length s < k)%nat -> map_desc_f k f s = map_desc f s.
Proof. intros H. unfold map_desc. apply map_desc_f_fuel; lia. Qed.

(* ------------------------------------------------------------------ *)
(* unfolding equations *)

Lemma map_desc_nil f : map_desc f [] = Ok [].
Proof. reflexivity. Qed.

Lemma mdf_copy k f c s : c <> cL ->
  map_desc_f (S k) f (c :: s) = match map_desc_f k f s with Ok o => Ok (c :: o) | Err => Err end.
Proof. intros Hc. cbn [map_desc_f]. destruct (N.eqb_spec c cL); [congruence|reflexivity]. Qed.

Lemma mdf_L k f c1 s n r : c1 <> cSEMI -> take_until_semi s = Ok (n, r) ->
  map_desc_f (S k) f (cL :: c1 :: s) =
  match map_desc_f k f r with Ok o => Ok (cL :: f (c1 :: n) ++ cSEMI :: o) | Err => Err end.
Proof.
  intros Hc E. cbn [map_desc_f]. replace (N.eqb cL cL) with true by reflexivity.
  destruct (N.eqb_spec c1 cSEMI); [congruence|]. rewrite E. reflexivity.
Qed.

Lemma map_desc_copy f c s : c <> cL ->
  map_desc f (c :: s) = match map_desc f s with Ok o => Ok (c :: o) | Err => Err end.
Proof. intros Hc. unfold map_desc. cbn [length]. rewrite mdf_copy by exact Hc. reflexivity. Qed.

Lemma map_desc_L f n r : n <> [] -> ~ In cSEMI n ->
  map_desc f (cL :: n ++ cSEMI :: r) =
  match map_desc f r with Ok o => Ok (cL :: f n ++ cSEMI :: o) | Err => Err end.
Proof.
  intros Hn Hs. destruct n as [|c1 n]; [congruence|].
  assert (Hc : c1 <> cSEMI) by (intros ->; apply Hs; left; reflexivity).
  assert (E : take_until_semi (n ++ cSEMI :: r) = Ok (n, r)).
  { apply take_until_semi_spec. split; [reflexivity|]. intros H. apply Hs. right. exact H. }
  unfold map_desc at 1. cbn [app length]. rewrite (mdf_L _ f c1 _ n r Hc E).
  rewrite map_desc_fuel; [reflexivity|]. rewrite app_length. cbn [length]. lia.
Qed.

(* the three ways map_desc fails right after an `L` *)
Lemma map_desc_L_end f : map_desc f [cL] = Err.
Proof. reflexivity. Qed.
Lemma map_desc_L_semi f r : map_desc f (cL :: cSEMI :: r) = Err.
Proof. reflexivity. Qed.
Lemma map_desc_L_open f c1 s : c1 <> cSEMI -> ~ In cSEMI s -> map_desc f (cL :: c1 :: s) = Err.
Proof.
  intros Hc Hs. unfold map_desc. cbn [length map_desc_f].
  replace (N.eqb cL cL) with true by reflexivity.
  destruct (N.eqb_spec c1 cSEMI) as [|_]; [congruence|].
  destruct (take_until_semi s) as [[n r]|] eqn:E; [|reflexivity].
  apply take_until_semi_spec in E as [E _]. exfalso. apply Hs. rewrite E. apply in_or_app. right. left. reflexivity.
Qed.

(* failure is hereditary: a failing suffix makes every extension on the left fail *)
Lemma map_desc_copy_many f p r : ~ In cL p ->
  map_desc f (p ++ r) = match map_desc f r with Ok o => Ok (p ++ o) | Err => Err end.
Proof.
  induction p as [|c p IH]; intros Hp; cbn [app].
  - destruct (map_desc f r); reflexivity.
  - rewrite map_desc_copy by (intros ->; apply Hp; left; reflexivity).
    rewrite IH by (intros H; apply Hp; right; exact H).
    destruct (map_desc f r); reflexivity.
Qed.

(* ------------------------------------------------------------------ *)
(* what the scanner does on ALL strings, well-formed or not: a declarative description *)

Inductive Scan (f : str -> str) : str -> str -> Prop :=
| Scan_nil : Scan f [] []
| Scan_copy c s o : c <> cL -> Scan f s o -> Scan f (c :: s) (c :: o)
| Scan_name n r o : n <> [] -> ~ In cSEMI n -> Scan f r o ->
    Scan f (cL :: n ++ cSEMI :: r) (cL :: f n ++ cSEMI :: o).

Lemma map_desc_f_scan f : forall k s o, map_desc_f k f s = Ok o -> Scan f s o.
Proof.
  induction k as [|k IH]; intros s o; cbn [map_desc_f]; [discriminate|].
  destruct s as [|c s]; [intros [= <-]; constructor|].
  destruct (N.eqb_spec c cL) as [->|Hc].
  - destruct s as [|c1 s]; [discriminate|]. destruct (N.eqb_spec c1 cSEMI) as [|Hc1]; [discriminate|].
    destruct (take_until_semi s) as [[n r]|] eqn:E; [|discriminate].
    destruct (map_desc_f k f r) as [o'|] eqn:E2; [|discriminate]. intros [= <-].
    apply take_until_semi_spec in E as [-> Hn].
    change (cL :: c1 :: n ++ cSEMI :: r) with (cL :: (c1 :: n) ++ cSEMI :: r).
    apply Scan_name; [discriminate| |apply IH; exact E2].
    intros [H|H]; [congruence|contradiction].
  - destruct (map_desc_f k f s) as [o'|] eqn:E2; [|discriminate]. intros [= <-].
    apply Scan_copy; [exact Hc|apply IH; exact E2].
Qed.

Theorem map_desc_scan f s o : map_desc f s = Ok o <-> Scan f s o.
Proof.
  split; [apply map_desc_f_scan|].
  induction 1 as [|c s o Hc _ IH|n r o Hn Hs _ IH].
  - reflexivity.
  - rewrite map_desc_copy by exact Hc. rewrite IH. reflexivity.
  - rewrite map_desc_L by assumption. rewrite IH. reflexivity.
Qed.

(* ------------------------------------------------------------------ *)
(* the grammar pieces *)

Lemma ClassNameG_nonempty n : ClassNameG n -> n <> [].
Proof. intros H. destruct (ClassNameG_first _ H) as (c & r & -> & _). discriminate. Qed.

Lemma repeat_no_L j : ~ In cL (repeat cLBRACK j).
Proof. intros H. apply repeat_spec in H. discriminate. Qed.

Lemma map_desc_base f p a r : BaseG p a ->
  map_desc f (p ++ r) = match map_desc f r with Ok o => Ok (print_aty (map_aty f a) ++ o) | Err => Err end.
Proof.
  intros H. destruct H as [| | | | | | | |n Hn]; cbn [app print_aty map_aty];
    try (rewrite map_desc_copy by discriminate; reflexivity).
  rewrite <- app_assoc. cbn [app].
  rewrite map_desc_L by (try apply ClassNameG_nonempty; try apply ClassNameG_no_semi; exact Hn).
  destruct (map_desc f r); [|reflexivity]. rewrite <- app_assoc. reflexivity.
Qed.

Lemma print_ty_of d a : print_ty (ty_of d a) = repeat cLBRACK (N.to_nat d) ++ print_aty a.
Proof.
  unfold ty_of. destruct (N.eqb_spec d 0) as [->|Hd]; [|reflexivity].
  cbn [N.to_nat repeat app]. destruct a; reflexivity.
Qed.

Lemma map_ty_of f d a : map_ty f (ty_of d a) = ty_of d (map_aty f a).
Proof. unfold ty_of. destruct (N.eqb d 0); [|reflexivity]. destruct a; reflexivity. Qed.

(* one field type at the front of a string *)
Lemma map_desc_field_app f p t r : FieldTypeG p t ->
  map_desc f (p ++ r) = match map_desc f r with Ok o => Ok (print_ty (map_ty f t) ++ o) | Err => Err end.
Proof.
  intros (d & a & H & _ & ->). apply FT_inv in H as (b & -> & Hb).
  rewrite <- app_assoc. rewrite map_desc_copy_many by apply repeat_no_L.
  rewrite (map_desc_base f b a r Hb). rewrite map_ty_of, print_ty_of.
  destruct (map_desc f r); [|reflexivity]. rewrite <- app_assoc. reflexivity.
Qed.

Lemma map_desc_return_app f p t : ReturnG p t -> map_desc f p = Ok (print_return (map_ret f t)).
Proof.
  intros [[-> ->]|(t' & -> & H)]; [reflexivity|].
  pose proof (map_desc_field_app f p t' [] H) as E. rewrite app_nil_r in E. rewrite E.
  cbn [map_desc map_desc_f length map_ret print_return]. rewrite app_nil_r. reflexivity.
Qed.

Lemma map_desc_params f ss ps r : Forall2 FieldTypeG ss ps ->
  map_desc f (concat ss ++ r) =
  match map_desc f r with Ok o => Ok (concat (map print_ty (map (map_ty f) ps)) ++ o) | Err => Err end.
Proof.
  induction 1 as [|p t ss ps Hp Hss IH]; cbn [concat map app].
  - destruct (map_desc f r); reflexivity.
  - rewrite <- app_assoc. rewrite (map_desc_field_app f p t _ Hp). rewrite IH.
    destruct (map_desc f r); [|reflexivity]. rewrite <- app_assoc. reflexivity.
Qed.

(* ------------------------------------------------------------------ *)
(* map_desc_shape *)

(* the class map yields binary class names on binary class names *)
Definition range_valid (f : str -> str) : Prop := forall n, ClassNameG n -> ClassNameG (f n).

Lemma wf_map_ty f t : range_valid f -> wf_ty t -> wf_ty (map_ty f t).
Proof.
  intros Hf. destruct t as [| | | | | | | |n|d a]; cbn [map_ty wf_ty]; auto.
  intros [Hd Ha]. split; [exact Hd|]. destruct a; cbn [map_aty wf_aty] in *; auto.
Qed.

Theorem map_desc_shape_field f d t : parse_field d = Ok t ->
  map_desc f d = Ok (print_ty (map_ty f t)) /\
  (range_valid f -> parse_field (print_ty (map_ty f t)) = Ok (map_ty f t)).
Proof.
  intros H. pose proof (print_parse_field _ _ H) as [_ Hw]. apply parse_field_spec in H. split.
  - pose proof (map_desc_field_app f d t [] H) as E. rewrite app_nil_r in E. rewrite E.
    cbn [map_desc map_desc_f length]. rewrite app_nil_r. reflexivity.
  - intros Hf. apply parse_print_field. apply wf_map_ty; assumption.
Qed.

Theorem map_desc_shape_return f d r : parse_return d = Ok r ->
  map_desc f d = Ok (print_return (map_ret f r)) /\
  (range_valid f -> parse_return (print_return (map_ret f r)) = Ok (map_ret f r)).
Proof.
  intros H. pose proof (print_parse_return _ _ H) as [_ Hw]. apply parse_return_spec in H. split.
  - apply map_desc_return_app. exact H.
  - intros Hf. apply parse_print_return. destruct r as [t|]; cbn [map_ret wf_ret] in *; [|exact I].
    apply wf_map_ty; assumption.
Qed.

Theorem map_desc_shape_method f d m : parse_method d = Ok m ->
  map_desc f d = Ok (print_method (map_mty f m)) /\
  (range_valid f -> parse_method (print_method (map_mty f m)) = Ok (map_mty f m)).
Proof.
  intros H. pose proof (print_parse_method _ _ H) as [_ [Hwp Hwr]].
  apply parse_method_spec in H as (ss & rs & Hss & Hr & ->). split.
  - rewrite map_desc_copy by discriminate.
    rewrite (map_desc_params f ss (fst m) _ Hss).
    rewrite map_desc_copy by discriminate.
    rewrite (map_desc_return_app f rs (snd m) Hr).
    unfold print_method, map_mty. cbn [fst snd]. reflexivity.
  - intros Hf. apply parse_print_method. unfold wf_method, map_mty. cbn [fst snd]. split.
    + apply Forall_map. eapply Forall_impl; [|exact Hwp]. intros t Ht. apply wf_map_ty; assumption.
    + destruct (snd m) as [t|]; cbn [map_ret wf_ret] in *; [|exact I]. apply wf_map_ty; assumption.
Qed.

(* array class names are array field descriptors: same statement through is_valid_arr_class_name *)
Theorem map_desc_shape_array f c : is_valid_arr_class_name c = true ->
  exists d a, parse_field c = Ok (TArr d a) /\ map_desc f c = Ok (print_ty (TArr d (map_aty f a))).
Proof.
  intros H. apply arr_class_name_spec in H as (d & a & H & Hd).
  assert (E : parse_field c = Ok (ty_of d a)).
  { apply parse_field_spec. exists d, a. split; [exact H|]. split; [lia|reflexivity]. }
  assert (Et : ty_of d a = TArr d a).
  { unfold ty_of. destruct (N.eqb_spec d 0); [lia|reflexivity]. }
  rewrite Et in E. exists d, a. split; [exact E|].
  apply (map_desc_shape_field f) in E as [E _]. exact E.
Qed.

(* ------------------------------------------------------------------ *)
(* identity *)

Lemma map_desc_id_fuel : forall k s o, map_desc_f k (fun x => x) s = Ok o -> o = s.
Proof.
  induction k as [|k IH]; intros s o; cbn [map_desc_f]; [discriminate|].
  destruct s as [|c s]; [intros [= <-]; reflexivity|].
  destruct (N.eqb_spec c cL) as [->|_].
  - destruct s as [|c1 s]; [discriminate|]. destruct (N.eqb c1 cSEMI); [discriminate|].
    destruct (take_until_semi s) as [[n r]|] eqn:E; [|discriminate].
    destruct (map_desc_f k _ r) as [o'|] eqn:E2; [|discriminate].
    intros [= <-]. apply IH in E2 as ->. apply take_until_semi_spec in E as [-> _]. reflexivity.
  - destruct (map_desc_f k _ s) as [o'|] eqn:E2; [|discriminate].
    intros [= <-]. apply IH in E2 as ->. reflexivity.
Qed.

(* for ALL strings: with the identity class map the scanner either fails or changes nothing *)
Theorem map_desc_id_any s o : map_desc (fun x => x) s = Ok o -> o = s.
Proof. apply map_desc_id_fuel. Qed.

Lemma map_ty_id t : map_ty (fun x => x) t = t.
Proof. destruct t as [| | | | | | | |n|d a]; try reflexivity. destruct a; reflexivity. Qed.

Theorem map_desc_id_field d t : parse_field d = Ok t -> map_desc (fun x => x) d = Ok d.
Proof.
  intros H. destruct (map_desc_shape_field (fun x => x) d t H) as [E _]. rewrite E. f_equal.
  rewrite map_ty_id. apply print_parse_field. exact H.
Qed.

Theorem map_desc_id_method d m : parse_method d = Ok m -> map_desc (fun x => x) d = Ok d.
Proof.
  intros H. destruct (map_desc (fun x => x) d) as [o|] eqn:E.
  - apply map_desc_id_any in E. congruence.
  - destruct (map_desc_shape_method (fun x => x) d m H) as [E' _]. congruence.
Qed.

Theorem map_desc_id_return d r : parse_return d = Ok r -> map_desc (fun x => x) d = Ok d.
Proof.
  intros H. destruct (map_desc (fun x => x) d) as [o|] eqn:E.
  - apply map_desc_id_any in E. congruence.
  - destruct (map_desc_shape_return (fun x => x) d r H) as [E' _]. congruence.
Qed.

(* ------------------------------------------------------------------ *)
(* the class map only matters on the class names that occur *)

Definition aty_names (a : aty) : list str := match a with AObj n => [n] | _ => [] end.
Definition ty_names (t : ty) : list str :=
  match t with TObj n => [n] | TArr _ a => aty_names a | _ => [] end.
Definition ret_names (r : option ty) : list str := match r with Some t => ty_names t | None => [] end.
Definition mty_names (m : list ty * option ty) : list str := flat_map ty_names (fst m) ++ ret_names (snd m).

Lemma map_ty_ext f g t : (forall n, In n (ty_names t) -> f n = g n) -> map_ty f t = map_ty g t.
Proof.
  destruct t as [| | | | | | | |n|d a]; cbn [map_ty ty_names]; intros H; try reflexivity.
  - rewrite H by (left; reflexivity). reflexivity.
  - destruct a; cbn [map_aty aty_names] in *; try reflexivity. rewrite H by (left; reflexivity). reflexivity.
Qed.

Lemma map_ty_comp f g t : map_ty g (map_ty f t) = map_ty (fun n => g (f n)) t.
Proof. destruct t as [| | | | | | | |n|d a]; try reflexivity. destruct a; reflexivity. Qed.

Lemma map_mty_ext f g m : (forall n, In n (mty_names m) -> f n = g n) -> map_mty f m = map_mty g m.
Proof.
  destruct m as [ps r]. unfold mty_names, map_mty. cbn [fst snd]. intros H. f_equal.
  - apply map_ext_in. intros t Ht. apply map_ty_ext. intros n Hn. apply H. apply in_or_app. left.
    apply in_flat_map. exists t. auto.
  - destruct r as [t|]; [|reflexivity]. cbn [map_ret ret_names] in *. f_equal. apply map_ty_ext.
    intros n Hn. apply H. apply in_or_app. right. exact Hn.
Qed.

Lemma map_mty_comp f g m : map_mty g (map_mty f m) = map_mty (fun n => g (f n)) m.
Proof.
  destruct m as [ps r]. unfold map_mty. cbn [fst snd]. f_equal.
  - rewrite map_map. apply map_ext. intros t. apply map_ty_comp.
  - destruct r as [t|]; [|reflexivity]. cbn [map_ret]. f_equal. apply map_ty_comp.
Qed.

Lemma map_mty_id m : map_mty (fun x => x) m = m.
Proof.
  destruct m as [ps r]. unfold map_mty. cbn [fst snd]. f_equal.
  - rewrite <- (map_id ps) at 2. apply map_ext. intros t. apply map_ty_id.
  - destruct r as [t|]; [|reflexivity]. cbn [map_ret]. f_equal. apply map_ty_id.
Qed.

(* two rewrites in a row (field and method descriptors): the composition of the class maps,
   provided the first map yields binary class names *)
Theorem map_desc_twice_field f g d t : range_valid f -> parse_field d = Ok t ->
  map_desc f d = Ok (print_ty (map_ty f t)) /\
  map_desc g (print_ty (map_ty f t)) = Ok (print_ty (map_ty (fun n => g (f n)) t)).
Proof.
  intros Hf H. destruct (map_desc_shape_field f d t H) as [E1 E2]. split; [exact E1|].
  destruct (map_desc_shape_field g _ _ (E2 Hf)) as [E3 _]. rewrite E3, map_ty_comp. reflexivity.
Qed.

Theorem map_desc_twice_method f g d m : range_valid f -> parse_method d = Ok m ->
  map_desc f d = Ok (print_method (map_mty f m)) /\
  map_desc g (print_method (map_mty f m)) = Ok (print_method (map_mty (fun n => g (f n)) m)).
Proof.
  intros Hf H. destruct (map_desc_shape_method f d m H) as [E1 E2]. split; [exact E1|].
  destruct (map_desc_shape_method g _ _ (E2 Hf)) as [E3 _]. rewrite E3, map_mty_comp. reflexivity.
Qed.
