(* C06 theory, part 5 (round 4):
   A. the search on ARBITRARY providers (cyclic or not): the default fuel never runs out, the answer is
      Err only when the provider is cyclic, acyclicity is decidable without a rank witness
   B. map_desc on ALL strings: success does not depend on the class map; two rewrites in a row are the
      rewrite with the composed class map whenever the first map keeps names non-empty and free of `;`
   C. the member tables of remapper_b are sound: every entry comes from a row, its key descriptor is the
      row's descriptor expressed 0 -> from and its value descriptor the SAME descriptor expressed 0 -> to
      (the first namespace is where row descriptors live), and so is every answer of the search
   D. coherence: the descriptor of a found member is map_desc (from -> to) of the query's descriptor when
      the class rows the descriptor mentions are complete; a partial row breaks it (witness) *)
From FB Require Import C06.Model C18.Theory C06.Theory1 C06.Theory2 C06.Theory3 C06.Theory4.
From Coq Require Import Arith.
Arguments N.add : simpl never.
Arguments N.eqb : simpl never.

(* ================================================================== *)
(* A. the search on arbitrary providers *)

(* for EVERY provider, cyclic or not: more fuel than the default changes nothing — the model's Err is
   never "out of fuel", it is the `bail!` of the cycle check (or an Err of the descriptor fall-back) *)
Theorem fuel_never_runs_out sel R I c k f : (default_fuel I <= f)%nat ->
  map_member_fail sel f R I c k = map_member_fail sel (default_fuel I) R I c k.
Proof.
  intros Hle.
  rewrite (map_member_fail_eq_p sel R I k f c (suff_default I f c Hle)).
  rewrite (map_member_fail_eq_p sel R I k _ c (suff_default I _ c (le_n _))).
  apply map_member_fail_p_fuel.
  - constructor.
  - intros x [].
  - unfold default_fuel. cbn [length]. lia.
  - exact Hle.
Qed.

(* the memo of finished owners never changes an answer: on EVERY provider the search of the code is the
   path-only search (the code before "a class is searched once per query") *)
Theorem memo_sound sel R I c k f : (default_fuel I <= f)%nat ->
  map_member_fail sel f R I c k = map_member_fail_p sel f R I [] c k.
Proof. intros Hle. apply map_member_fail_eq_p. apply suff_default. exact Hle. Qed.

(* acyclicity is decidable without a rank: some rank decreases along every edge exactly when the
   traversal from every key is bounded by the default fuel *)
Theorem acyclic_dec_spec I : acyclic_dec I = true <-> exists rank, acyclic_rank I rank.
Proof.
  split.
  - intros H. exists (height (default_fuel I) I). apply acyclic_dec_rank. exact H.
  - intros (rank & Ha). unfold acyclic_dec. apply forallb_forall. intros e _. apply (acyclic_fuel I rank). exact Ha.
Qed.

(* the search answers Err only for cyclic inheritance information *)
Theorem search_err_only_cyclic sel R I c k :
  map_member_fail sel (default_fuel I) R I c k = Err -> acyclic_dec I = false.
Proof.
  intros H. destruct (acyclic_dec I) eqn:E; [|reflexivity]. exfalso.
  pose proof (acyclic_dec_rank I E) as Ha.
  destruct (map_member_spec sel R I _ c k Ha) as [E1 _]. rewrite E1 in H. discriminate.
Qed.

(* a member the search finds before it meets the cycle is answered; a class that is its own super
   type and declares nothing, asked for a key nobody declares, is an Err (not a missing answer) *)
Theorem self_loop_err sel R I c ss k :
  supers I c = Some ss -> (forall s, In s ss -> s = c) -> ss <> [] -> declared sel R c k = None ->
  map_member_fail sel (default_fuel I) R I c k = Err.
Proof.
  intros E Hss Hne Hd. rewrite (map_member_fail_eq_p sel R I k _ c (suff_default I _ c (le_n _))). unfold default_fuel.
  assert (Hlen : (1 <= length I)%nat).
  { apply supers_In' in E. destruct I; [destruct E|cbn [length]; lia]. }
  destruct (length I) as [|n] eqn:El; [lia|].
  cbn [map_member_fail_p existsb]. rewrite Hd, E.
  destruct ss as [|s ss']; [congruence|]. cbn [first_some].
  rewrite (Hss s (or_introl eq_refl)). cbn [map_member_fail_p existsb]. rewrite str_eqb_refl. reflexivity.
Qed.

(* the inherited round trip with decidable hypotheses only (no rank witness) *)
Theorem roundtrip_mappings_inherited_dec M X Y R I :
  remapper_b M X Y = Ok R -> rt_world R I = true -> acyclic_dec I = true ->
  exists R', remapper_b M Y X = Ok R' /\
    (forall c k, rt_owner b_fields R I c = true -> field_query_ok R I c k = true ->
       exists c' k', map_field_ref R I c k = Ok (c', k') /\
                     map_field_ref R' (remap_inh (b_map_class R) I) c' k' = Ok (c, k)) /\
    (forall c k, rt_owner b_methods R I c = true -> method_query_ok R I c k = true ->
       exists c' k', map_method_ref_obj R I c k = Ok (c', k') /\
                     map_method_ref_obj R' (remap_inh (b_map_class R) I) c' k' = Ok (c, k)).
Proof.
  intros HR Hw Ha. apply (roundtrip_mappings_inherited M X Y R I _ HR Hw (acyclic_dec_rank I Ha)).
Qed.

(* ================================================================== *)
(* B. map_desc on all strings *)

Definition name_ok (n : str) : Prop := n <> [] /\ ~ In cSEMI n.
(* the class map keeps names scannable: non-empty and free of `;` *)
Definition keeps_names (f : str -> str) : Prop := forall n, name_ok n -> name_ok (f n).

Lemma Scan_total f g s o : Scan f s o -> exists o', Scan g s o'.
Proof.
  induction 1 as [|c s o Hc _ [o' IH]|n r o Hn Hs _ [o' IH]].
  - exists []. constructor.
  - exists (c :: o'). constructor; assumption.
  - exists (cL :: g n ++ cSEMI :: o'). constructor; assumption.
Qed.

(* whether the scanner succeeds depends on the string alone, never on the remapper *)
Theorem map_desc_ok_indep f g s : map_desc f s = Err <-> map_desc g s = Err.
Proof.
  assert (H : forall f g, map_desc g s = Err -> map_desc f s = Err).
  { intros f0 g0 Hg. destruct (map_desc f0 s) as [o|] eqn:E; [|reflexivity].
    apply map_desc_scan in E. destruct (Scan_total f0 g0 s o E) as (o' & Ho').
    apply map_desc_scan in Ho'. congruence. }
  split; apply H.
Qed.

Lemma Scan_then f g s o : keeps_names f -> Scan f s o ->
  forall o2, Scan g o o2 <-> Scan (fun n => g (f n)) s o2.
Proof.
  intros Hk. induction 1 as [|c s o Hc _ IH|n r o Hn Hs _ IH]; intros o2.
  - split; intros H; inversion H; subst; try constructor;
      try (exfalso; match goal with H : [] = _ :: _ |- _ => discriminate H end).
  - split; intros H.
    + inversion H as [|c' s' o' Hc' H' E1 E2|n' r' o' Hn' Hs' H' E1 E2]; subst.
      * constructor; [exact Hc|]. apply IH. exact H'.
      * congruence.
    + inversion H as [|c' s' o' Hc' H' E1 E2|n' r' o' Hn' Hs' H' E1 E2]; subst.
      * constructor; [exact Hc|]. apply IH. exact H'.
      * congruence.
  - destruct (Hk n (conj Hn Hs)) as [Hfn Hfs].
    split; intros H.
    + apply map_desc_scan in H. rewrite map_desc_L in H by assumption.
      destruct (map_desc g o) as [o3|] eqn:E3; [|discriminate]. injection H as <-.
      apply map_desc_scan in E3. apply IH in E3.
      apply (Scan_name (fun n0 => g (f n0)) n r o3 Hn Hs E3).
    + inversion H as [|c' s' o' Hc' H' E1 E2|n' r' o' Hn' Hs' H' E1 E2]; subst.
      * congruence.
      * assert (En : n' = n /\ r' = r).
        { assert (Et : take_until_semi (n' ++ cSEMI :: r') = Ok (n', r')) by (apply take_until_semi_spec; auto).
          rewrite E1 in Et. assert (Et2 : take_until_semi (n ++ cSEMI :: r) = Ok (n, r)) by (apply take_until_semi_spec; auto).
          rewrite Et2 in Et. injection Et as -> ->. auto. }
        destruct En as [-> ->]. apply IH in H'.
        apply map_desc_scan. rewrite map_desc_L by assumption.
        apply map_desc_scan in H'. rewrite H'. reflexivity.
Qed.

(* ALL strings: rewriting the output of one rewrite is the rewrite with the composed class map *)
Theorem map_desc_compose f g s o : keeps_names f -> map_desc f s = Ok o ->
  map_desc g o = map_desc (fun n => g (f n)) s.
Proof.
  intros Hk H. apply map_desc_scan in H.
  destruct (map_desc g o) as [o2|] eqn:E.
  - apply map_desc_scan in E. apply (Scan_then f g s o Hk H) in E. apply map_desc_scan in E. congruence.
  - destruct (map_desc (fun n => g (f n)) s) as [o2|] eqn:E2; [|reflexivity].
    apply map_desc_scan in E2. apply (Scan_then f g s o Hk H) in E2. apply map_desc_scan in E2. congruence.
Qed.

(* the hypothesis is needed: a class map that empties a name makes `L;` *)
Theorem map_desc_compose_needs_names :
  exists f g s o, map_desc f s = Ok o /\ map_desc g o <> map_desc (fun n => g (f n)) s.
Proof.
  exists (fun _ => []), (fun _ => [66%N]), [cL; 65%N; cSEMI], [cL; cSEMI].
  split; [reflexivity|]. vm_compute. discriminate.
Qed.

(* ================================================================== *)
(* C. the member tables are sound, and expressed through the first namespace *)

Lemma member_entry_inv Tf Tt from to d nm p kf kt :
  member_entry Tf Tt from to d nm = Ok p -> In (kf, kt) p ->
  nth_name nm from = Some (fst kf) /\ nth_name nm to = Some (fst kt) /\
  a_map_desc Tf d = Ok (snd kf) /\ a_map_desc Tt d = Ok (snd kt).
Proof.
  unfold member_entry. destruct (nth_name nm from) as [a|]; [|intros [= <-] []].
  destruct (nth_name nm to) as [b|]; [|intros [= <-] []].
  destruct (a_map_desc Tf d) as [df|]; [|discriminate].
  destruct (a_map_desc Tt d) as [dt|]; [|discriminate].
  intros [= <-] [[= <- <-]|[]]. cbn [fst snd]. auto.
Qed.

(* what it means that a table entry (kf, kt) is the row [desc, nm] of the mapping set, for the
   namespaces from / to: names of the row in from / to, and the row's descriptor — stored in the
   FIRST namespace — expressed 0 -> from for the key and 0 -> to for the value *)
Definition entry_of_row (M : mappings) (from to : nat) (desc : str) (nm : names) (kf kt : key) : Prop :=
  nth_name nm from = Some (fst kf) /\ nth_name nm to = Some (fst kt) /\
  a_map_desc (remapper_a M 0 from) desc = Ok (snd kf) /\
  a_map_desc (remapper_a M 0 to) desc = Ok (snd kt).

Theorem remapper_b_sound M from to R a cl :
  remapper_b M from to = Ok R -> In (a, cl) R ->
  exists c, In c (ms_classes M) /\ row_has from to a (b_name cl) c /\
    (forall kf kt, In (kf, kt) (b_fields cl) ->
       exists f, In f (c_fields c) /\ entry_of_row M from to (f_desc f) (f_names f) kf kt) /\
    (forall kf kt, In (kf, kt) (b_methods cl) ->
       exists m, In m (c_methods c) /\ entry_of_row M from to (m_desc m) (m_names m) kf kt).
Proof.
  unfold remapper_b. intros H Hin.
  destruct (collect_in_inv _ _ _ _ H Hin) as (c & p & Hc & Ep & Hp).
  exists c. split; [exact Hc|]. unfold class_entry in Ep.
  destruct (nth_name (c_names c) from) as [a'|] eqn:Ea; [|injection Ep as <-; destruct Hp].
  destruct (nth_name (c_names c) to) as [b'|] eqn:Eb; [|injection Ep as <-; destruct Hp].
  destruct (collect _ (c_fields c)) as [fs|] eqn:Ef; [|discriminate].
  destruct (collect _ (c_methods c)) as [ms|] eqn:Em; [|discriminate].
  injection Ep as <-. destruct Hp as [[= <- <-]|[]]. cbn [b_name b_fields b_methods].
  split; [split; assumption|]. split.
  - intros kf kt Hk. destruct (collect_in_inv _ _ _ _ Ef Hk) as (f & q & Hf & Eq & Hq).
    exists f. split; [exact Hf|]. exact (member_entry_inv _ _ _ _ _ _ _ _ _ Eq Hq).
  - intros kf kt Hk. destruct (collect_in_inv _ _ _ _ Em Hk) as (m & q & Hm & Eq & Hq).
    exists m. split; [exact Hm|]. exact (member_entry_inv _ _ _ _ _ _ _ _ _ Eq Hq).
Qed.

Lemma Ok_inj {A} (a b : A) : Ok a = Ok b -> a = b.
Proof. intros [= ->]. reflexivity. Qed.

Lemma declared_In sel R y k v : declared sel R y k = Some v ->
  exists cl, In (y, cl) R /\ In (k, v) (sel cl).
Proof.
  unfold declared. destruct (b_get R y) as [cl|] eqn:E; [|discriminate]. intros H.
  exists cl. split; [apply (get_last_In str_eqb); [apply str_eqb_ok|exact E]|].
  apply (get_last_In key_eqb); [apply key_eqb_ok|exact H].
Qed.

(* every answer of map_field_fail / map_method_fail is a row of a type of the pre-order, asked under
   the row's descriptor expressed in `from` and answered with the SAME descriptor expressed in `to` —
   both through the first namespace, whatever `from` and `to` are *)
Theorem field_answer_via_first M from to R I rank c k v :
  remapper_b M from to = Ok R -> acyclic_rank I rank ->
  map_field_fail R I c k = Ok (Some v) ->
  exists y row f, In y (preorder I c) /\ In row (ms_classes M) /\ nth_name (c_names row) from = Some y /\
    In f (c_fields row) /\ entry_of_row M from to (f_desc f) (f_names f) k v.
Proof.
  intros HR Ha H. unfold map_field_fail in H.
  rewrite (proj1 (map_member_spec b_fields R I rank c k Ha)) in H. apply Ok_inj in H.
  apply first_declaring_some in H as (l1 & y & l2 & El & Hy & _).
  destruct (declared_In _ _ _ _ _ Hy) as (cl & Hcl & Hk).
  destruct (remapper_b_sound _ _ _ _ _ _ HR Hcl) as (row & Hrow & [Ey _] & Hf & _).
  destruct (Hf _ _ Hk) as (f & Hfin & He).
  exists y, row, f. split; [rewrite El; apply in_or_app; right; left; reflexivity|]. auto.
Qed.

Theorem method_answer_via_first M from to R I rank c k v :
  remapper_b M from to = Ok R -> acyclic_rank I rank ->
  map_method_fail R I c k = Ok (Some v) ->
  exists y row m, In y (preorder I c) /\ In row (ms_classes M) /\ nth_name (c_names row) from = Some y /\
    In m (c_methods row) /\ entry_of_row M from to (m_desc m) (m_names m) k v.
Proof.
  intros HR Ha H. unfold map_method_fail in H.
  rewrite (proj1 (map_member_spec b_methods R I rank c k Ha)) in H. apply Ok_inj in H.
  apply first_declaring_some in H as (l1 & y & l2 & El & Hy & _).
  destruct (declared_In _ _ _ _ _ Hy) as (cl & Hcl & Hk).
  destruct (remapper_b_sound _ _ _ _ _ _ HR Hcl) as (row & Hrow & [Ey _] & _ & Hm).
  destruct (Hm _ _ Hk) as (m & Hmin & He).
  exists y, row, m. split; [rewrite El; apply in_or_app; right; left; reflexivity|]. auto.
Qed.

(* ================================================================== *)
(* D. coherence of a found member's descriptor with map_desc of the same remapper *)

(* a class name of a row descriptor (first namespace) is coherent when expressing it in `to`
   directly is the same as expressing it in `from` and sending that through from -> to *)
Definition name_coherentb (M : mappings) (from to : nat) (n : str) : bool :=
  str_eqb (a_map_class (remapper_a M 0 to) n)
          (a_map_class (remapper_a M from to) (a_map_class (remapper_a M 0 from) n)).

Definition name_okb (n : str) : bool := negb (is_nil n) && negb (existsb (N.eqb cSEMI) n).
Definition targets_ok (T : atable) : bool := forallb (fun e => name_okb (snd e)) T.

Lemma name_okb_spec n : name_okb n = true -> name_ok n.
Proof.
  unfold name_okb, name_ok. intros H. apply andb_true_iff in H as [H1 H2]. split.
  - intros ->. discriminate.
  - intros Hin. apply negb_true_iff in H2.
    assert (X : existsb (N.eqb cSEMI) n = true) by (apply existsb_exists; exists cSEMI; split; [exact Hin|apply N.eqb_refl]).
    congruence.
Qed.

Lemma targets_ok_keeps T : targets_ok T = true -> keeps_names (a_map_class T).
Proof.
  intros H n Hn. unfold a_map_class, a_map_class_fail. destruct (get_last str_eqb n T) as [b|] eqn:E; [|exact Hn].
  apply (get_last_In str_eqb) in E; [|apply str_eqb_ok].
  unfold targets_ok in H. rewrite forallb_forall in H. apply name_okb_spec. exact (H _ E).
Qed.

(* the rows are coherent: descriptors parse, every class name they mention is coherent, and the
   `from` names are scannable *)
Definition coherent_rows (M : mappings) (from to : nat) : bool :=
  targets_ok (remapper_a M 0 from) &&
  forallb (fun c =>
    forallb (fun f => match parse_field (f_desc f) with
                      | Ok t => forallb (name_coherentb M from to) (ty_names t) | Err => false end) (c_fields c) &&
    forallb (fun m => match parse_method (m_desc m) with
                      | Ok t => forallb (name_coherentb M from to) (mty_names t) | Err => false end) (c_methods c))
    (ms_classes M).

Lemma coherent_ext M from to l : forallb (name_coherentb M from to) l = true ->
  forall n, In n l -> a_map_class (remapper_a M from to) (a_map_class (remapper_a M 0 from) n) = a_map_class (remapper_a M 0 to) n.
Proof.
  intros H n Hn. rewrite forallb_forall in H. specialize (H n Hn). unfold name_coherentb in H.
  apply str_eqb_eq in H. symmetry. exact H.
Qed.

Lemma entry_coherent_field M from to d nm kf kt t :
  targets_ok (remapper_a M 0 from) = true -> parse_field d = Ok t ->
  forallb (name_coherentb M from to) (ty_names t) = true ->
  entry_of_row M from to d nm kf kt -> a_map_desc (remapper_a M from to) (snd kf) = Ok (snd kt).
Proof.
  intros Hk Hp Hc (_ & _ & Ef & Et). unfold a_map_desc in *.
  rewrite (map_desc_compose _ (a_map_class (remapper_a M from to)) _ _ (targets_ok_keeps _ Hk) Ef).
  rewrite (proj1 (map_desc_shape_field _ _ _ Hp)).
  rewrite (proj1 (map_desc_shape_field _ _ _ Hp)) in Et. rewrite <- Et. f_equal. f_equal.
  apply map_ty_ext. apply (coherent_ext M from to _ Hc).
Qed.

Lemma entry_coherent_method M from to d nm kf kt t :
  targets_ok (remapper_a M 0 from) = true -> parse_method d = Ok t ->
  forallb (name_coherentb M from to) (mty_names t) = true ->
  entry_of_row M from to d nm kf kt -> a_map_desc (remapper_a M from to) (snd kf) = Ok (snd kt).
Proof.
  intros Hk Hp Hc (_ & _ & Ef & Et). unfold a_map_desc in *.
  rewrite (map_desc_compose _ (a_map_class (remapper_a M from to)) _ _ (targets_ok_keeps _ Hk) Ef).
  rewrite (proj1 (map_desc_shape_method _ _ _ Hp)).
  rewrite (proj1 (map_desc_shape_method _ _ _ Hp)) in Et. rewrite <- Et. f_equal. f_equal.
  apply map_mty_ext. apply (coherent_ext M from to _ Hc).
Qed.

(* the law: when a field / method is found, the descriptor of the answer is map_field_desc /
   map_method_desc of the query's descriptor through the same remapper *)
Theorem field_desc_coherent M from to R I rank c k v :
  remapper_b M from to = Ok R -> coherent_rows M from to = true -> acyclic_rank I rank ->
  map_field_fail R I c k = Ok (Some v) -> b_map_desc R (snd k) = Ok (snd v).
Proof.
  intros HR Hco Ha H.
  destruct (field_answer_via_first _ _ _ _ _ _ _ _ _ HR Ha H) as (y & row & f & _ & Hrow & _ & Hf & He).
  rewrite (proj1 (proj2 (b_agrees_with_a _ _ _ _ HR (snd k)))).
  unfold coherent_rows in Hco. apply andb_true_iff in Hco as [Hk Hco].
  rewrite forallb_forall in Hco. specialize (Hco _ Hrow). apply andb_true_iff in Hco as [Hfs _].
  rewrite forallb_forall in Hfs. specialize (Hfs _ Hf).
  destruct (parse_field (f_desc f)) as [t|] eqn:Ep; [|discriminate].
  exact (entry_coherent_field _ _ _ _ _ _ _ _ Hk Ep Hfs He).
Qed.

Theorem method_desc_coherent M from to R I rank c k v :
  remapper_b M from to = Ok R -> coherent_rows M from to = true -> acyclic_rank I rank ->
  map_method_fail R I c k = Ok (Some v) -> b_map_desc R (snd k) = Ok (snd v).
Proof.
  intros HR Hco Ha H.
  destruct (method_answer_via_first _ _ _ _ _ _ _ _ _ HR Ha H) as (y & row & m & _ & Hrow & _ & Hm & He).
  rewrite (proj1 (proj2 (b_agrees_with_a _ _ _ _ HR (snd k)))).
  unfold coherent_rows in Hco. apply andb_true_iff in Hco as [Hk Hco].
  rewrite forallb_forall in Hco. specialize (Hco _ Hrow). apply andb_true_iff in Hco as [_ Hms].
  rewrite forallb_forall in Hms. specialize (Hms _ Hm).
  destruct (parse_method (m_desc m)) as [t|] eqn:Ep; [|discriminate].
  exact (entry_coherent_method _ _ _ _ _ _ _ _ Hk Ep Hms He).
Qed.

(* ------------------------------------------------------------------ *)
(* a structural condition that gives coherence: complete class rows, distinct names *)

Definition colL (l : list class) (j : nat) : list str :=
  flat_map (fun c => match nth_name (c_names c) j with Some a => [a] | None => [] end) l.
Definition col (M : mappings) (j : nat) : list str := colL (ms_classes M) j.

(* every class row has a name in the first namespace, in `from` and in `to`; the names of the first
   namespace and those of `from` are pairwise distinct *)
Definition complete_rows (M : mappings) (from to : nat) : bool :=
  forallb (fun c => is_some (nth_name (c_names c) 0) && is_some (nth_name (c_names c) from)
                    && is_some (nth_name (c_names c) to)) (ms_classes M)
  && nodupb str_eqb (col M 0) && nodupb str_eqb (col M from).

(* a class name of a row descriptor is a first-namespace name, or it is nobody's `from` name *)
Definition name_closedb (M : mappings) (from : nat) (n : str) : bool :=
  existsb (str_eqb n) (col M 0) || negb (existsb (str_eqb n) (col M from)).

Definition complete_world (M : mappings) (from to : nat) : bool :=
  complete_rows M from to && targets_ok (remapper_a M 0 from) &&
  forallb (fun c =>
    forallb (fun f => match parse_field (f_desc f) with
                      | Ok t => forallb (name_closedb M from) (ty_names t) | Err => false end) (c_fields c) &&
    forallb (fun m => match parse_method (m_desc m) with
                      | Ok t => forallb (name_closedb M from) (mty_names t) | Err => false end) (c_methods c))
    (ms_classes M).

Definition tblL (l : list class) (x y : nat) : atable :=
  flat_map (fun c => match nth_name (c_names c) x, nth_name (c_names c) y with
                     | Some a, Some b => [(a, b)] | _, _ => [] end) l.

Lemma tbl_keys_col l x y a : In a (map fst (tblL l x y)) -> In a (colL l x).
Proof.
  induction l as [|c l IH]; cbn [tblL colL flat_map]; [auto|].
  fold (tblL l x y). fold (colL l x). rewrite map_app. intros H. apply in_or_app. apply in_app_or in H as [H|H].
  - left. destruct (nth_name (c_names c) x) as [a'|]; [|destruct H].
    destruct (nth_name (c_names c) y) as [b'|]; [|destruct H]. destruct H as [<-|[]]. left. reflexivity.
  - right. apply IH. exact H.
Qed.

Lemma tbl_keys_nodup l x y : NoDup (colL l x) -> NoDup (map fst (tblL l x y)).
Proof.
  induction l as [|c l IH]; cbn [tblL colL flat_map]; [constructor|].
  fold (tblL l x y). fold (colL l x). rewrite map_app.
  destruct (nth_name (c_names c) x) as [a|]; cbn [app]; [|exact IH].
  intros Hn. inversion Hn as [|? ? Hnot Hn']; subst.
  destruct (nth_name (c_names c) y) as [b|]; cbn [map app fst]; [|apply IH; exact Hn'].
  constructor; [|apply IH; exact Hn']. intros H. apply Hnot. eapply tbl_keys_col. exact H.
Qed.

Lemma a_map_class_unmapped T n : ~ In n (map fst T) -> a_map_class T n = n.
Proof.
  intros H. unfold a_map_class, a_map_class_fail.
  rewrite (proj2 (get_last_None str_eqb n T str_eqb_ok) H). reflexivity.
Qed.

Lemma a_map_class_row M x y n b row : NoDup (col M x) -> In row (ms_classes M) -> row_has x y n b row ->
  a_map_class (remapper_a M x y) n = b.
Proof.
  intros Hn Hrow Hhas. apply (proj2 (proj2 (a_map_class_spec M x y n))) with (row := row); [|exact Hrow|exact Hhas].
  apply (tbl_keys_nodup (ms_classes M) x y). exact Hn.
Qed.

Lemma colL_In l j n : In n (colL l j) <-> exists c, In c l /\ nth_name (c_names c) j = Some n.
Proof.
  unfold colL. rewrite in_flat_map. split.
  - intros (c & Hc & H). exists c. split; [exact Hc|]. destruct (nth_name (c_names c) j) as [a|]; [|destruct H].
    destruct H as [<-|[]]. reflexivity.
  - intros (c & Hc & E). exists c. split; [exact Hc|]. rewrite E. left. reflexivity.
Qed.

Theorem complete_coherent M from to n : complete_rows M from to = true ->
  name_closedb M from n = true -> name_coherentb M from to n = true.
Proof.
  unfold complete_rows, name_closedb, name_coherentb. intros Hc Hn.
  apply andb_true_iff in Hc as [Hc Hnf]. apply andb_true_iff in Hc as [Hall Hn0].
  apply (nodupb_NoDup str_eqb _ str_eqb_ok) in Hn0, Hnf.
  apply str_eqb_eq.
  destruct (existsb (str_eqb n) (col M 0)) eqn:E0.
  - apply existsb_str in E0. apply colL_In in E0 as (row & Hrow & E).
    rewrite forallb_forall in Hall. specialize (Hall _ Hrow).
    apply andb_true_iff in Hall as [Hall Ht]. apply andb_true_iff in Hall as [_ Hf].
    destruct (nth_name (c_names row) from) as [nf|] eqn:Ef; [|discriminate].
    destruct (nth_name (c_names row) to) as [nt|] eqn:Et; [|discriminate].
    rewrite (a_map_class_row M 0 to n nt row Hn0 Hrow (conj E Et)).
    rewrite (a_map_class_row M 0 from n nf row Hn0 Hrow (conj E Ef)).
    rewrite (a_map_class_row M from to nf nt row Hnf Hrow (conj Ef Et)). reflexivity.
  - cbn [orb] in Hn. apply negb_true_iff in Hn.
    assert (N0 : ~ In n (col M 0)) by (intros H; apply existsb_str in H; congruence).
    assert (Nf : ~ In n (col M from)) by (intros H; apply existsb_str in H; congruence).
    rewrite (a_map_class_unmapped (remapper_a M 0 to) n) by (intros H; apply N0; eapply tbl_keys_col; exact H).
    rewrite (a_map_class_unmapped (remapper_a M 0 from) n) by (intros H; apply N0; eapply tbl_keys_col; exact H).
    rewrite (a_map_class_unmapped (remapper_a M from to) n) by (intros H; apply Nf; eapply tbl_keys_col; exact H).
    reflexivity.
Qed.

Lemma forallb_impl {A} (p q : A -> bool) l : (forall x, p x = true -> q x = true) ->
  forallb p l = true -> forallb q l = true.
Proof. intros H Hp. rewrite forallb_forall in *. intros x Hx. apply H. apply Hp. exact Hx. Qed.

Theorem complete_world_coherent M from to : complete_world M from to = true -> coherent_rows M from to = true.
Proof.
  unfold complete_world, coherent_rows. intros H. apply andb_true_iff in H as [H Hrows].
  apply andb_true_iff in H as [Hc Hk]. rewrite Hk. cbn [andb].
  revert Hrows. apply forallb_impl. intros c Hcc. apply andb_true_iff in Hcc as [Hf Hm]. apply andb_true_iff. split.
  - revert Hf. apply forallb_impl. intros f. destruct (parse_field (f_desc f)); [|auto].
    apply forallb_impl. intros n. apply complete_coherent. exact Hc.
  - revert Hm. apply forallb_impl. intros m. destruct (parse_method (m_desc m)); [|auto].
    apply forallb_impl. intros n. apply complete_coherent. exact Hc.
Qed.

(* ------------------------------------------------------------------ *)
(* examples and witnesses *)
From Coq Require Import String Ascii.

(* a class row without a name in `to` breaks the coherence: C.f : LA; with A -> A1 -> (nothing).
   Asked in namespace 1 the field is found with the descriptor LA; (the first-namespace name shows
   through) while map_field_desc of the same remapper leaves LA1; alone *)
Definition pc_M : mappings :=
  mkMappings [s2l "official"; s2l "intermediary"; s2l "named"] None
    [ mkClass [Some (s2l "A"); Some (s2l "A1"); None] None [] [];
      mkClass (row3 "C" "C1" "C2") None [mkField (s2l "LA;") (row3 "f" "f1" "f2") None] [] ].
Definition pc_R : bremap := match remapper_b pc_M 1 2 with Ok R => R | Err => [] end.

Definition partial_row_witness : Prop :=
  remapper_b pc_M 1 2 = Ok pc_R /\ tables_inj pc_R = true /\ tables_inj (swap_b pc_R) = true /\
  complete_rows pc_M 1 2 = false /\ coherent_rows pc_M 1 2 = false /\
  map_field_fail pc_R [] (s2l "C1") (s2l "f1", s2l "LA1;") = Ok (Some (s2l "f2", s2l "LA;")) /\
  b_map_desc pc_R (s2l "LA1;") = Ok (s2l "LA1;").
Lemma partial_row_witness_holds : partial_row_witness.
Proof. unfold partial_row_witness. repeat (split; [vm_compute; reflexivity|]). vm_compute. reflexivity. Qed.

(* names that are a permutation of one another across the namespaces (A -> B -> C -> A), asked
   from the second namespace; a cyclic provider; a provider whose cycle is not reached *)
Definition pm_M : mappings :=
  mkMappings [s2l "official"; s2l "named"] None
    [ mkClass [Some (s2l "A"); Some (s2l "B")] None
        [mkField (s2l "LB;") [Some (s2l "f"); Some (s2l "g")] None]
        [mkMeth (s2l "(LA;)LC;") [Some (s2l "m"); Some (s2l "n")] None []];
      mkClass [Some (s2l "B"); Some (s2l "C")] None
        [mkField (s2l "[LC;") [Some (s2l "g"); Some (s2l "h")] None] [];
      mkClass [Some (s2l "C"); Some (s2l "A")] None
        [mkField (s2l "LA;") [Some (s2l "h"); Some (s2l "f")] None] [] ].
Definition pm_R : bremap := match remapper_b pm_M 1 0 with Ok R => R | Err => [] end.
Definition pm_I : inh := [(s2l "Sub", [s2l "B"; s2l "A"]); (s2l "B", [s2l "C"])].
Definition cyc_I : inh := [(s2l "Sub", [s2l "B"]); (s2l "B", [s2l "C"]); (s2l "C", [s2l "Sub"])].
Definition late_cyc_I : inh := [(s2l "Sub", [s2l "B"; s2l "X"]); (s2l "X", [s2l "X"])].

(* a tower of k diamonds: T_i = [3i] has the super types L_i = [3i+1] and R_i = [3i+2], both have T_(i+1);
   2^k paths from the top, 3k + 1 classes *)
Fixpoint tower (k : nat) (i : N) : inh :=
  match k with
  | O => []
  | S k' => ([3 * i], [[3 * i + 1]; [3 * i + 2]]) :: ([3 * i + 1], [[3 * i + 3]]) :: ([3 * i + 2], [[3 * i + 3]]) :: tower k' (i + 1)
  end%N.

Definition round4_examples : Prop :=
  (* 40 diamonds (2^40 paths): a key nobody declares is answered at once (every class is searched once) *)
  map_method_fail pm_R (tower 40 0) [0%N] (s2l "nope", s2l "()V") = Ok None /\
  map_method pm_R (tower 40 0) [0%N] (s2l "nope", s2l "()V") = Ok (s2l "nope", s2l "()V") /\
  remapper_b pm_M 1 0 = Ok pm_R /\ complete_world pm_M 1 0 = true /\ complete_world pm_M 0 1 = true /\
  coherent_rows pm_M 1 0 = true /\ acyclic_dec pm_I = true /\
  (* class A of the first namespace is B in the second: the key of its method is (n, (LB;)LA;) *)
  map_method_fail pm_R pm_I (s2l "Sub") (s2l "n", s2l "(LB;)LA;") = Ok (Some (s2l "m", s2l "(LA;)LC;")) /\
  b_map_desc pm_R (s2l "(LB;)LA;") = Ok (s2l "(LA;)LC;") /\
  (* three namespaces, from = 1, to = 2 (the example of part 3) *)
  complete_world ex_M 1 2 = false /\ coherent_rows ex_M 1 2 = true /\
  (* cyclic inheritance: a key nobody declares is an Err, a key found before the cycle closes is answered,
     more fuel changes nothing, and the decision procedure says "cyclic" *)
  acyclic_dec cyc_I = false /\
  map_method_fail pm_R cyc_I (s2l "Sub") (s2l "nope", s2l "()V") = Err /\
  map_method pm_R cyc_I (s2l "Sub") (s2l "nope", s2l "()V") = Err /\
  map_method_fail pm_R cyc_I (s2l "Sub") (s2l "n", s2l "(LB;)LA;") = Ok (Some (s2l "m", s2l "(LA;)LC;")) /\
  map_member_fail b_methods 100 pm_R cyc_I (s2l "Sub") (s2l "nope", s2l "()V") = Err /\
  acyclic_dec late_cyc_I = false /\
  map_method_fail pm_R late_cyc_I (s2l "Sub") (s2l "n", s2l "(LB;)LA;") = Ok (Some (s2l "m", s2l "(LA;)LC;")) /\
  map_method_fail pm_R late_cyc_I (s2l "Sub") (s2l "nope", s2l "()V") = Err /\
  (* all strings: success of the scanner does not depend on the class map *)
  map_desc (fun _ => []) (s2l "(LA;") = Ok (s2l "(L;") /\ map_desc (fun x => x) (s2l "(L;") = Err.
Lemma round4_examples_hold : round4_examples.
Proof. unfold round4_examples. repeat (split; [vm_compute; reflexivity|]). vm_compute. reflexivity. Qed.
