(* C06 model, part T: the two traits AS SUCH (quill/src/remapper.rs `pub trait ARemapper`, `pub trait
   BRemapper: ARemapper`).  An implementor supplies only the methods without a default body:
     ARemapper   map_class_fail  : class -> Result<Option<class>>
     BRemapper   map_field_fail, map_method_fail : owner -> (name, desc) -> Result<Option<(name, desc)>>
   Every other method is a default method written in terms of those; here each default method is a
   function of the supplied ones, and — unlike Model.v, where the class map is total — the supplied
   methods may answer Err (a hand-written implementor such as the one in the crate's own test module
   fails on names that are not UTF-8), which every default method hands on (`?`).
   The implementors of the crate:
     ARemapperImpl            a_mcf T
     BRemapperImpl            b_mcf R, map_field_fail R I, map_method_fail R I      (Model.v)
     ARemapperAsBRemapper(x)  x's map_class_fail, no_members, no_members
   and the providers: JarSuperProv / Vec<JarSuperProv> ([supers] on the concatenation),
   NoSuperClassProvider ([no_supers] = the empty list of entries).
   Definitions only; proofs are in Theory7.v. *)
From FB Require Export C06.Model.

Definition mcf_t := str -> res (option str).
Definition mmf_t := str -> key -> res (option key).

(* fn map_class(&self, class) { Ok(self.map_class_fail(class)?.unwrap_or_else(|| class.to_owned())) } *)
Definition t_map_class (mcf : mcf_t) (c : str) : res str :=
  match mcf c with Err => Err | Ok (Some x) => Ok x | Ok None => Ok c end.

(* map_desc with a class map that may fail: `remapper.map_class(old_class_name)?` inside the loop.
   (The scanner stops at the first problem, malformed text or failing name, whichever comes first;
   the answer is Err either way.) *)
Fixpoint map_desc_rf (fuel : nat) (f : str -> res str) (s : str) : res str :=
  match fuel with
  | O => Err
  | S k =>
      match s with
      | [] => Ok []
      | c :: s' =>
          if N.eqb c cL then
            match s' with
            | [] => Err
            | c1 :: s'' =>
                if N.eqb c1 cSEMI then Err
                else match take_until_semi s'' with
                     | Err => Err
                     | Ok (n, r) =>
                         match f (c1 :: n) with
                         | Err => Err
                         | Ok n' =>
                             match map_desc_rf k f r with
                             | Ok o => Ok (cL :: n' ++ cSEMI :: o)
                             | Err => Err
                             end
                         end
                     end
            end
          else match map_desc_rf k f s' with Ok o => Ok (c :: o) | Err => Err end
      end
  end.
Definition map_desc_r (f : str -> res str) (s : str) : res str := map_desc_rf (S (length s)) f s.

(* map_field_desc / map_method_desc / map_return_desc *)
Definition t_map_desc (mcf : mcf_t) (d : str) : res str := map_desc_r (t_map_class mcf) d.
(* map_class_any *)
Definition t_map_class_any (mcf : mcf_t) (c : str) : res str :=
  if is_array_name c then t_map_desc mcf c else t_map_class mcf c.

(* BRemapper::map_field / map_method (and map_method_name_and_desc, which is map_method) *)
Definition t_map_member (mcf : mcf_t) (mmf : mmf_t) (o : str) (k : key) : res key :=
  match mmf o k with
  | Err => Err
  | Ok (Some v) => Ok v
  | Ok None => match t_map_desc mcf (snd k) with Ok d => Ok (fst k, d) | Err => Err end
  end.
(* map_field_ref / map_method_ref_obj: the member first, then the class *)
Definition t_map_member_ref (mcf : mcf_t) (mmf : mmf_t) (c : str) (k : key) : res (str * key) :=
  match t_map_member mcf mmf c k with
  | Err => Err
  | Ok k' => match t_map_class mcf c with Ok c' => Ok (c', k') | Err => Err end
  end.
(* map_method_ref: methods of array classes keep name and descriptor; the class through map_class_any *)
Definition t_map_method_ref (mcf : mcf_t) (mmf : mmf_t) (c : str) (k : key) : res (str * key) :=
  match (if is_array_name c then Ok k else t_map_member mcf mmf c k) with
  | Err => Err
  | Ok k' => match t_map_class_any mcf c with Ok c' => Ok (c', k') | Err => Err end
  end.

(* ---- the implementors ---- *)
Definition a_mcf (T : atable) : mcf_t := fun c => Ok (a_map_class_fail T c).
Definition b_mcf (R : bremap) : mcf_t := fun c => Ok (b_map_class_fail R c).
(* ARemapperAsBRemapper: `Ok(None)` for every field and method *)
Definition no_members : mmf_t := fun _ _ => Ok None.
(* NoSuperClassProvider: `Ok(None)` for every class *)
Definition no_supers : inh := [].

(* a hand-written implementor (the harness' FailingRemapper): Err on the names of [bad], else the
   first pair of the table *)
Fixpoint get_first_t (k : str) (l : atable) : option str :=
  match l with
  | [] => None
  | (k', v) :: l' => if str_eqb k k' then Some v else get_first_t k l'
  end.
Definition tbl_mcf (T : atable) (bad : list str) : mcf_t :=
  fun c => if existsb (str_eqb c) bad then Err else Ok (get_first_t c T).

(* ---- JarSuperProv::remap with a remapper whose map_class may fail: the first failing name (super
   types of an entry first, then its key, entries in order, providers in order) aborts ---- *)
Fixpoint map_res {A B} (f : A -> res B) (l : list A) : res (list B) :=
  match l with
  | [] => Ok []
  | x :: l' => match f x with
               | Err => Err
               | Ok y => match map_res f l' with Ok ys => Ok (y :: ys) | Err => Err end
               end
  end.
Definition remap_prov_r (f : str -> res str) (p : inh) : res inh :=
  match map_res (fun e => match map_res f (snd e) with
                          | Err => Err
                          | Ok ss => match f (fst e) with Ok k => Ok (k, ss) | Err => Err end
                          end) p with
  | Err => Err
  | Ok es => Ok (fold_left (fun P e => put_first (fst e) (set_of (snd e)) P) es [])
  end.
Definition remap_provs_r (f : str -> res str) (ps : list inh) : res (list inh) := map_res (remap_prov_r f) ps.
