(* C06 theory, part 2: tables and the super-class search.
   - get_last (IndexMap built by insert) and collect
   - map_class_spec: the class answer of both remappers in terms of the mapping rows
   - map_member_spec: the member search answers with the first declaring type of the
     depth-first pre-order (declaration order), for every acyclic provider; fuel is irrelevant
     once it bounds the height, and [S (length I)] always does *)
From FB Require Import C06.Model C18.Theory C06.Theory1.
From Coq Require Import Arith.
Arguments N.add : simpl never.
Arguments N.eqb : simpl never.

(* ------------------------------------------------------------------ *)
(* get_last *)

Definition eqb_ok {K} (eqb : K -> K -> bool) : Prop := forall a b, eqb a b = true <-> a = b.

Lemma str_eqb_ok : eqb_ok str_eqb.
Proof. intros a b. apply str_eqb_eq. Qed.

Lemma key_eqb_ok : eqb_ok key_eqb.
Proof.
  intros [a1 a2] [b1 b2]. unfold key_eqb, key2_eqb. cbn [fst snd].
  rewrite andb_true_iff, !str_eqb_eq. split; [intros [-> ->]; reflexivity|intros [= -> ->]; auto].
Qed.

Lemma get_last_app {K V} (eqb : K -> K -> bool) k (l1 l2 : list (K * V)) :
  get_last eqb k (l1 ++ l2) =
  match get_last eqb k l2 with Some v => Some v | None => get_last eqb k l1 end.
Proof.
  induction l1 as [|[k' v] l1 IH]; cbn [app get_last].
  - destruct (get_last eqb k l2); reflexivity.
  - rewrite IH. destruct (get_last eqb k l2); reflexivity.
Qed.

Lemma get_last_In {K V} (eqb : K -> K -> bool) k (l : list (K * V)) v :
  eqb_ok eqb -> get_last eqb k l = Some v -> In (k, v) l.
Proof.
  intros He. induction l as [|[k' v'] l IH]; cbn [get_last]; [discriminate|].
  destruct (get_last eqb k l) as [w|].
  - intros [= ->]. right. apply IH. reflexivity.
  - destruct (eqb k k') eqn:E; [|discriminate]. intros [= ->]. apply He in E as ->. left. reflexivity.
Qed.

Lemma get_last_None {K V} (eqb : K -> K -> bool) k (l : list (K * V)) :
  eqb_ok eqb -> (get_last eqb k l = None <-> ~ In k (map fst l)).
Proof.
  intros He. induction l as [|[k' v'] l IH]; cbn [get_last map fst].
  - split; [intros _ []|reflexivity].
  - destruct (get_last eqb k l) as [w|].
    + split; [discriminate|]. intros H. exfalso.
      assert (X : Some w = None) by (apply IH; intros Hin; apply H; right; exact Hin). discriminate.
    + destruct (eqb k k') eqn:E.
      * split; [discriminate|]. intros H. exfalso. apply H. left. symmetry. apply He. exact E.
      * split; [|reflexivity]. intros _ [H|H].
        -- subst k'. assert (X : eqb k k = true) by (apply He; reflexivity). congruence.
        -- apply (proj1 IH eq_refl). exact H.
Qed.

Lemma get_last_nodup {K V} (eqb : K -> K -> bool) k (l : list (K * V)) v :
  eqb_ok eqb -> NoDup (map fst l) -> In (k, v) l -> get_last eqb k l = Some v.
Proof.
  intros He. induction l as [|[k' v'] l IH]; cbn [get_last map fst]; intros Hn Hin; [destruct Hin|].
  inversion Hn as [|? ? Hnotin Hn']; subst. destruct Hin as [[= -> ->]|Hin].
  - assert (E : get_last eqb k l = None) by (apply get_last_None; assumption).
    rewrite E. assert (X : eqb k k = true) by (apply He; reflexivity). rewrite X. reflexivity.
  - rewrite (IH Hn' Hin). reflexivity.
Qed.

Lemma get_last_map_val {K V W} (eqb : K -> K -> bool) (g : V -> W) k (l : list (K * V)) :
  get_last eqb k (map (fun e => (fst e, g (snd e))) l) =
  match get_last eqb k l with Some v => Some (g v) | None => None end.
Proof.
  induction l as [|[k' v] l IH]; cbn [map get_last fst snd]; [reflexivity|].
  rewrite IH. destruct (get_last eqb k l); [reflexivity|]. destruct (eqb k k'); reflexivity.
Qed.

(* nodupb reflects NoDup *)
Lemma nodupb_NoDup {A} (eqb : A -> A -> bool) (l : list A) :
  eqb_ok eqb -> nodupb eqb l = true -> NoDup l.
Proof.
  intros He. induction l as [|x l IH]; cbn [nodupb]; intros H; [constructor|].
  apply andb_true_iff in H as [H1 H2]. constructor; [|apply IH; exact H2].
  intros Hin. apply negb_true_iff in H1.
  assert (X : existsb (eqb x) l = true).
  { apply existsb_exists. exists x. split; [exact Hin|apply He; reflexivity]. }
  congruence.
Qed.

(* ------------------------------------------------------------------ *)
(* collect *)

Lemma collect_ok_each {A B} (f : A -> res (list B)) l r x :
  collect f l = Ok r -> In x l -> exists p, f x = Ok p /\ incl p r.
Proof.
  revert r; induction l as [|y l IH]; intros r; cbn [collect]; intros H Hin; [destruct Hin|].
  destruct (f y) as [ys|] eqn:Ey; [|discriminate].
  destruct (collect f l) as [zs|] eqn:Ez; [|discriminate]. injection H as <-.
  destruct Hin as [->|Hin].
  - exists ys. split; [exact Ey|]. intros e He. apply in_or_app. left. exact He.
  - destruct (IH zs eq_refl Hin) as (p & Ep & Hp). exists p. split; [exact Ep|].
    intros e He. apply in_or_app. right. apply Hp. exact He.
Qed.

Lemma collect_in_inv {A B} (f : A -> res (list B)) l r e :
  collect f l = Ok r -> In e r -> exists x p, In x l /\ f x = Ok p /\ In e p.
Proof.
  revert r; induction l as [|y l IH]; intros r; cbn [collect]; intros H Hin.
  - injection H as <-. destruct Hin.
  - destruct (f y) as [ys|] eqn:Ey; [|discriminate].
    destruct (collect f l) as [zs|] eqn:Ez; [|discriminate]. injection H as <-.
    apply in_app_or in Hin as [Hin|Hin].
    + exists y, ys. split; [left; reflexivity|]. split; assumption.
    + destruct (IH zs eq_refl Hin) as (x & p & Hx & Ep & Hp). exists x, p. split; [right; exact Hx|]. split; assumption.
Qed.

Lemma collect_map {A B C} (f : A -> res (list B)) (g : A -> res (list C)) (h : B -> C) l r :
  (forall x p, In x l -> f x = Ok p -> g x = Ok (map h p)) ->
  collect f l = Ok r -> collect g l = Ok (map h r).
Proof.
  revert r; induction l as [|y l IH]; intros r Hfg; cbn [collect]; intros H.
  - injection H as <-. reflexivity.
  - destruct (f y) as [ys|] eqn:Ey; [|discriminate].
    destruct (collect f l) as [zs|] eqn:Ez; [|discriminate]. injection H as <-.
    rewrite (Hfg y ys (or_introl eq_refl) Ey).
    rewrite (IH zs (fun x p Hx => Hfg x p (or_intror Hx)) eq_refl). rewrite map_app. reflexivity.
Qed.

(* total pieces: collect of an everywhere-Ok function is the flat_map *)
Lemma collect_total {A B} (f : A -> list B) l : collect (fun x => Ok (f x)) l = Ok (flat_map f l).
Proof. induction l as [|y l IH]; cbn [collect flat_map]; [reflexivity|]. rewrite IH. reflexivity. Qed.

(* ------------------------------------------------------------------ *)
(* the class table in terms of the rows *)

Definition row_has (from to : nat) (a b : str) (c : class) : Prop :=
  nth_name (c_names c) from = Some a /\ nth_name (c_names c) to = Some b.

Lemma remapper_a_In M from to a b :
  In (a, b) (remapper_a M from to) <-> exists c, In c (ms_classes M) /\ row_has from to a b c.
Proof.
  unfold remapper_a, row_has. rewrite in_flat_map. split.
  - intros (c & Hc & H). exists c. split; [exact Hc|].
    destruct (nth_name (c_names c) from) as [a'|]; [|destruct H].
    destruct (nth_name (c_names c) to) as [b'|]; [|destruct H].
    destruct H as [[= -> ->]|[]]. auto.
  - intros (c & Hc & Ea & Eb). exists c. split; [exact Hc|]. rewrite Ea, Eb. left. reflexivity.
Qed.

(* the answers of ARemapperImpl *)
Theorem a_map_class_spec M from to c :
  let T := remapper_a M from to in
  (forall b, a_map_class_fail T c = Some b ->
             a_map_class T c = b /\ exists row, In row (ms_classes M) /\ row_has from to c b row) /\
  (a_map_class_fail T c = None ->
             a_map_class T c = c /\ forall row b, In row (ms_classes M) -> ~ row_has from to c b row) /\
  (NoDup (map fst T) -> forall row b, In row (ms_classes M) -> row_has from to c b row -> a_map_class T c = b).
Proof.
  cbn zeta. unfold a_map_class, a_map_class_fail. split; [|split].
  - intros b E. rewrite E. split; [reflexivity|]. apply remapper_a_In.
    apply (get_last_In str_eqb); [apply str_eqb_ok|exact E].
  - intros E. rewrite E. split; [reflexivity|]. intros row b Hrow Hhas.
    apply (get_last_None str_eqb) in E; [|apply str_eqb_ok]. apply E.
    apply in_map_iff. exists (c, b). split; [reflexivity|]. apply remapper_a_In. exists row. auto.
  - intros Hnd row b Hrow Hhas.
    rewrite (get_last_nodup str_eqb c _ b); [reflexivity|apply str_eqb_ok|exact Hnd|].
    apply remapper_a_In. exists row. auto.
Qed.

(* the class entries of remapper_b carry exactly the pairs of remapper_a, in the same order *)
Lemma class_entry_names Tf Tt from to c p :
  class_entry Tf Tt from to c = Ok p ->
  map (fun e => (fst e, b_name (snd e))) p =
  match nth_name (c_names c) from, nth_name (c_names c) to with Some a, Some b => [(a, b)] | _, _ => [] end.
Proof.
  unfold class_entry. destruct (nth_name (c_names c) from) as [a|]; [|intros [= <-]; reflexivity].
  destruct (nth_name (c_names c) to) as [b|]; [|intros [= <-]; reflexivity].
  destruct (collect _ (c_fields c)); [|discriminate]. destruct (collect _ (c_methods c)); [|discriminate].
  intros [= <-]. reflexivity.
Qed.

Lemma collect_names Tf Tt from to l R :
  collect (class_entry Tf Tt from to) l = Ok R ->
  map (fun e => (fst e, b_name (snd e))) R =
  flat_map (fun c => match nth_name (c_names c) from, nth_name (c_names c) to with
                     | Some a, Some b => [(a, b)] | _, _ => [] end) l.
Proof.
  revert R. induction l as [|c l IH]; intros R; cbn [collect flat_map].
  - intros [= <-]. reflexivity.
  - destruct (class_entry Tf Tt from to c) as [p|] eqn:Ep; [|discriminate].
    destruct (collect (class_entry Tf Tt from to) l) as [zs|]; [|discriminate]. intros [= <-].
    rewrite map_app, (IH zs eq_refl), (class_entry_names _ _ _ _ _ _ Ep). reflexivity.
Qed.

Lemma remapper_b_names M from to R :
  remapper_b M from to = Ok R -> map (fun e => (fst e, b_name (snd e))) R = remapper_a M from to.
Proof. unfold remapper_b. intros H. apply collect_names in H. exact H. Qed.

Lemma b_map_class_fail_a M from to R c :
  remapper_b M from to = Ok R -> b_map_class_fail R c = a_map_class_fail (remapper_a M from to) c.
Proof.
  intros H. unfold b_map_class_fail, b_get, a_map_class_fail.
  rewrite <- (remapper_b_names _ _ _ _ H). rewrite get_last_map_val. reflexivity.
Qed.

Lemma b_map_class_a M from to R c :
  remapper_b M from to = Ok R -> b_map_class R c = a_map_class (remapper_a M from to) c.
Proof. intros H. unfold b_map_class, a_map_class. rewrite (b_map_class_fail_a _ _ _ _ _ H). reflexivity. Qed.

(* both remappers give the same class, descriptor and array-class answers *)
Theorem b_agrees_with_a M from to R :
  remapper_b M from to = Ok R ->
  forall x, b_map_class R x = a_map_class (remapper_a M from to) x /\
            b_map_desc R x = a_map_desc (remapper_a M from to) x /\
            b_map_class_any R x = a_map_class_any (remapper_a M from to) x.
Proof.
  intros H x. pose proof (b_map_class_a M from to R) as Hc.
  assert (Hd : forall d, b_map_desc R d = a_map_desc (remapper_a M from to) d).
  { intros d. unfold b_map_desc, a_map_desc, map_desc. generalize (S (length d)). intros k. revert d.
    induction k as [|k IH]; intros d; cbn [map_desc_f]; [reflexivity|].
    destruct d as [|c d]; [reflexivity|]. destruct (N.eqb c cL).
    - destruct d as [|c1 d]; [reflexivity|]. destruct (N.eqb c1 cSEMI); [reflexivity|].
      destruct (take_until_semi d) as [[n r]|]; [|reflexivity]. rewrite IH, (Hc _ H). reflexivity.
    - rewrite IH. reflexivity. }
  split; [apply Hc; exact H|]. split; [apply Hd|].
  unfold b_map_class_any, a_map_class_any. rewrite Hd, (Hc _ H). reflexivity.
Qed.

(* ------------------------------------------------------------------ *)
(* the search *)

Fixpoint dfs_pre (fuel : nat) (I : inh) (c : str) : list str :=
  match fuel with
  | O => []
  | S f => c :: match supers I c with Some ss => flat_map (dfs_pre f I) ss | None => [] end
  end.

(* the traversal from [c] finishes within [fuel] levels *)
Fixpoint bounded (fuel : nat) (I : inh) (c : str) : bool :=
  match fuel with
  | O => false
  | S f => match supers I c with Some ss => forallb (bounded f I) ss | None => true end
  end.

Fixpoint first_declaring (decl : str -> option key) (l : list str) : option key :=
  match l with
  | [] => None
  | c :: l' => match decl c with Some v => Some v | None => first_declaring decl l' end
  end.

Lemma first_declaring_app decl l1 l2 :
  first_declaring decl (l1 ++ l2) =
  match first_declaring decl l1 with Some v => Some v | None => first_declaring decl l2 end.
Proof.
  induction l1 as [|c l1 IH]; cbn [app first_declaring]; [reflexivity|].
  destruct (decl c); [reflexivity|exact IH].
Qed.

Lemma supers_In' I c ss : supers I c = Some ss -> In (c, ss) I.
Proof.
  induction I as [|[k v] I IH]; cbn [supers]; [discriminate|].
  destruct (str_eqb_spec c k) as [->|_]; [intros [= ->]; left; reflexivity|]. intros H. right. apply IH. exact H.
Qed.

(* the search without the cycle check (what the code was before the repair, and what it still is on
   every provider without a reachable cycle: map_member_fail_search below) *)
Fixpoint search (sel : bclass -> mtable) (fuel : nat) (R : bremap) (I : inh)
         (owner : str) (k : key) : res (option key) :=
  match fuel with
  | O => Err
  | S f =>
      match declared sel R owner k with
      | Some v => Ok (Some v)
      | None =>
          match supers I owner with
          | Some ss => first_some (fun s => search sel f R I s k) ss
          | None => Ok None
          end
      end
  end.

(* with enough fuel the search is "first declaring type in pre-order" *)
Lemma search_spec sel R I k : forall fuel c,
  bounded fuel I c = true ->
  search sel fuel R I c k =
  Ok (first_declaring (fun x => declared sel R x k) (dfs_pre fuel I c)).
Proof.
  induction fuel as [|f IH]; intros c Hb; cbn [bounded] in Hb; [discriminate|].
  cbn [search dfs_pre first_declaring].
  destruct (declared sel R c k) as [v|]; [reflexivity|].
  destruct (supers I c) as [ss|]; [|reflexivity].
  induction ss as [|s ss IHss]; cbn [first_some flat_map first_declaring]; [reflexivity|].
  cbn [forallb] in Hb. apply andb_true_iff in Hb as [Hs Hss].
  rewrite (IH s Hs). rewrite first_declaring_app.
  destruct (first_declaring _ (dfs_pre f I s)); [reflexivity|]. apply IHss. exact Hss.
Qed.

(* more fuel changes neither boundedness nor the pre-order *)
Lemma bounded_mono I : forall f f' c, bounded f I c = true -> (f <= f')%nat ->
  bounded f' I c = true /\ dfs_pre f' I c = dfs_pre f I c.
Proof.
  induction f as [|f IH]; intros f' c Hb Hle; cbn [bounded] in Hb; [discriminate|].
  destruct f' as [|f']; [lia|]. cbn [bounded dfs_pre].
  destruct (supers I c) as [ss|]; [|auto].
  assert (H : forallb (bounded f' I) ss = true /\ flat_map (dfs_pre f' I) ss = flat_map (dfs_pre f I) ss).
  { induction ss as [|s ss IHss]; cbn [forallb flat_map]; [auto|].
    cbn [forallb] in Hb. apply andb_true_iff in Hb as [Hs Hss].
    destruct (IH f' s Hs ltac:(lia)) as [B1 D1]. destruct (IHss Hss) as [B2 D2].
    rewrite B1, B2, D1, D2. auto. }
  destruct H as [H1 H2]. rewrite H1, H2. auto.
Qed.

(* acyclic: some rank strictly decreases along every super-type edge *)
Definition acyclic_rank (I : inh) (rank : str -> nat) : Prop :=
  forall c ss s, supers I c = Some ss -> In s ss -> (rank s < rank c)%nat.

Lemma rank_bounded I rank : acyclic_rank I rank -> forall n c, (rank c < n)%nat -> bounded n I c = true.
Proof.
  intros Ha. induction n as [|n IH]; intros c Hc; [lia|]. cbn [bounded].
  destruct (supers I c) as [ss|] eqn:E; [|reflexivity].
  apply forallb_forall. intros s Hs. apply IH. specialize (Ha c ss s E Hs). lia.
Qed.

Lemma first_some_ext_in g h ss : (forall s, In s ss -> g s = h s) -> first_some g ss = first_some h ss.
Proof.
  induction ss as [|s ss IH]; intros H; cbn [first_some]; [reflexivity|].
  rewrite (H s (or_introl eq_refl)). destruct (h s) as [[v|]|]; try reflexivity.
  apply IH. intros x Hx. apply H. right. exact Hx.
Qed.

Lemma first_some_all_none g ss : (forall s, In s ss -> g s = Ok None) -> first_some g ss = Ok None.
Proof.
  induction ss as [|s ss IH]; intros H; cbn [first_some]; [reflexivity|].
  rewrite (H s (or_introl eq_refl)). apply IH. intros x Hx. apply H. right. exact Hx.
Qed.

Lemma first_some_none_all g ss : first_some g ss = Ok None -> forall s, In s ss -> g s = Ok None.
Proof.
  induction ss as [|s ss IH]; cbn [first_some]; intros H x Hx; [destruct Hx|].
  destruct (g s) as [[v|]|] eqn:E; try discriminate. destruct Hx as [<-|Hx]; [exact E|]. apply IH; assumption.
Qed.

Lemma existsb_str_false c l : ~ In c l -> existsb (str_eqb c) l = false.
Proof.
  intros H. destruct (existsb (str_eqb c) l) eqn:E; [|reflexivity]. exfalso. apply H.
  apply existsb_exists in E as (x & Hx & E). apply str_eqb_eq in E. subst. exact Hx.
Qed.

Lemma existsb_str_true c l : In c l -> existsb (str_eqb c) l = true.
Proof. intros H. apply existsb_exists. exists c. split; [exact H|apply str_eqb_refl]. Qed.

Lemma existsb_str_In c l : existsb (str_eqb c) l = true -> In c l.
Proof. intros E. apply existsb_exists in E as (x & Hx & E). apply str_eqb_eq in E. subst. exact Hx. Qed.

Lemma supers_key I c ss : supers I c = Some ss -> In c (map fst I).
Proof.
  induction I as [|[k v] I IH]; cbn [supers map fst]; [discriminate|].
  destruct (str_eqb_spec c k) as [->|_]; [intros _; left; reflexivity|]. intros H. right. apply IH. exact H.
Qed.

(* ------------------------------------------------------------------ *)
(* the path-only search (specification) *)

(* The cycle check never fires inside a part P of the provider that is closed under super types and
   on which some rank decreases along every edge, provided every class on the path is outside P or
   has a larger rank. *)
Lemma map_member_fail_p_search sel R I (P : str -> Prop) rank k :
  (forall c ss s, P c -> supers I c = Some ss -> In s ss -> P s /\ (rank s < rank c)%nat) ->
  forall fuel p c, P c -> (forall x, In x p -> ~ P x \/ (rank c < rank x)%nat) ->
  map_member_fail_p sel fuel R I p c k = search sel fuel R I c k.
Proof.
  intros Ha. induction fuel as [|f IH]; intros p c Pc Hp; [reflexivity|].
  cbn [map_member_fail_p search].
  rewrite existsb_str_false by (intros Hin; destruct (Hp c Hin) as [H|H]; [exact (H Pc)|lia]).
  destruct (declared sel R c k) as [v|]; [reflexivity|].
  destruct (supers I c) as [ss|] eqn:E; [|reflexivity].
  apply first_some_ext_in. intros s Hs. destruct (Ha c ss s Pc E Hs) as [Ps Hlt]. apply IH; [exact Ps|].
  intros x [<-|Hx]; [right; exact Hlt|]. destruct (Hp x Hx) as [H|H]; [left; exact H|right; lia].
Qed.

(* the height of a class whose traversal is bounded: a rank that needs no witness *)
Fixpoint maxl (l : list nat) : nat := match l with [] => O | x :: l' => Nat.max x (maxl l') end.
Lemma maxl_ge x l : In x l -> (x <= maxl l)%nat.
Proof. induction l as [|y l IH]; intros H; [destruct H|]. cbn [maxl]. destruct H as [<-|H]; [lia|]. specialize (IH H). lia. Qed.

Fixpoint height (fuel : nat) (I : inh) (c : str) : nat :=
  match fuel with
  | O => O
  | S f => match supers I c with Some ss => S (maxl (map (height f I) ss)) | None => 1 end
  end.

Lemma height_mono I : forall f f' c, bounded f I c = true -> (f <= f')%nat -> height f' I c = height f I c.
Proof.
  induction f as [|f IH]; intros f' c Hb Hle; cbn [bounded] in Hb; [discriminate|].
  destruct f' as [|f']; [lia|]. cbn [height].
  destruct (supers I c) as [ss|]; [|reflexivity]. f_equal. f_equal.
  apply map_ext_in. intros s Hs. rewrite forallb_forall in Hb. apply IH; [apply Hb; exact Hs|lia].
Qed.

Lemma bounded_edge I n c ss s : bounded n I c = true -> supers I c = Some ss -> In s ss ->
  bounded n I s = true /\ (height n I s < height n I c)%nat.
Proof.
  destruct n as [|n]; [cbn [bounded]; discriminate|]. intros Hb E Hs.
  assert (Hbs : bounded n I s = true).
  { cbn [bounded] in Hb. rewrite E in Hb. rewrite forallb_forall in Hb. exact (Hb s Hs). }
  split; [apply (bounded_mono I n (S n) s Hbs); lia|].
  rewrite (height_mono I n (S n) s Hbs) by lia.
  change (height (S n) I c) with (match supers I c with Some ss => S (maxl (map (height n I) ss)) | None => 1%nat end).
  rewrite E.
  pose proof (maxl_ge (height n I s) (map (height n I) ss) (in_map _ _ _ Hs)). lia.
Qed.

(* c has d as a proper super type (one or more edges) *)
Inductive reachp (I : inh) : str -> str -> Prop :=
| reachp_one c ss s : supers I c = Some ss -> In s ss -> reachp I c s
| reachp_step c ss s d : supers I c = Some ss -> In s ss -> reachp I s d -> reachp I c d.

Lemma reachp_snoc I z c ss s : reachp I z c -> supers I c = Some ss -> In s ss -> reachp I z s.
Proof.
  induction 1 as [c0 ss0 s0 E0 H0|c0 ss0 s0 d E0 H0 _ IH]; intros E Hs.
  - eapply reachp_step; [exact E0|exact H0|]. eapply reachp_one; eauto.
  - eapply reachp_step; [exact E0|exact H0|]. apply IH; assumption.
Qed.

Lemma reachp_height I n z c : reachp I z c -> bounded n I z = true ->
  bounded n I c = true /\ (height n I c < height n I z)%nat.
Proof.
  induction 1 as [c0 ss0 s0 E0 H0|c0 ss0 s0 d E0 H0 _ IH]; intros Hb.
  - apply (bounded_edge I n c0 ss0 s0 Hb E0 H0).
  - destruct (bounded_edge I n c0 ss0 s0 Hb E0 H0) as [Hbs Hlt]. destruct (IH Hbs) as [Hbd Hlt2]. split; [exact Hbd|lia].
Qed.

(* inside a bounded traversal the cycle check never fires, whatever proper sub types are on the path *)
Lemma map_member_fail_p_bounded sel R I k fuel p c : bounded fuel I c = true ->
  (forall z, In z p -> reachp I z c) ->
  map_member_fail_p sel fuel R I p c k = search sel fuel R I c k.
Proof.
  intros Hb Hp.
  apply (map_member_fail_p_search sel R I (fun x => bounded fuel I x = true) (height fuel I) k); [|exact Hb|].
  - intros c' ss s Hc' E Hs. apply (bounded_edge I fuel c' ss s Hc' E Hs).
  - intros x Hx. destruct (bounded fuel I x) eqn:Ex; [right|left; discriminate].
    apply (reachp_height I fuel x c (Hp x Hx) Ex).
Qed.

(* The classes on the path are pairwise distinct keys of the provider, so there are at most
   [length I] of them: with [S (length I)] levels of fuel the bottom is never reached. *)
Lemma map_member_fail_p_fuel sel R I k : forall f f' p c,
  NoDup p -> incl p (map fst I) -> (S (length I) <= length p + f)%nat -> (f <= f')%nat ->
  map_member_fail_p sel f' R I p c k = map_member_fail_p sel f R I p c k.
Proof.
  induction f as [|f IH]; intros f' p c Hnd Hincl Hlen Hle.
  - exfalso. pose proof (NoDup_incl_length Hnd Hincl) as H. rewrite map_length in H. lia.
  - destruct f' as [|f']; [lia|]. cbn [map_member_fail_p].
    destruct (existsb (str_eqb c) p) eqn:Ex; [reflexivity|].
    destruct (declared sel R c k) as [v|]; [reflexivity|].
    destruct (supers I c) as [ss|] eqn:E; [|reflexivity].
    apply first_some_ext_in. intros s _. apply IH.
    + constructor; [|exact Hnd]. intros Hin. rewrite (existsb_str_true _ _ Hin) in Ex. discriminate.
    + intros x [<-|Hx]; [eapply supers_key; exact E|apply Hincl; exact Hx].
    + cbn [length]. lia.
    + lia.
Qed.

(* "nothing found" means the whole traversal finished: it is bounded and declares nothing *)
Lemma map_member_fail_p_none sel R I k : forall f p c,
  map_member_fail_p sel f R I p c k = Ok None -> bounded f I c = true /\ search sel f R I c k = Ok None.
Proof.
  induction f as [|f IH]; intros p c H; cbn [map_member_fail_p] in H; [discriminate|].
  destruct (existsb (str_eqb c) p); [discriminate|]. cbn [bounded search].
  destruct (declared sel R c k) as [v|]; [discriminate|].
  destruct (supers I c) as [ss|]; [|auto].
  pose proof (first_some_none_all _ _ H) as Hall. split.
  - apply forallb_forall. intros s Hs. apply (IH _ _ (Hall s Hs)).
  - apply first_some_all_none. intros s Hs. apply (IH _ _ (Hall s Hs)).
Qed.

Lemma search_bounded_eq sel R I k a b c : bounded a I c = true -> bounded b I c = true ->
  search sel a R I c k = search sel b R I c k.
Proof.
  intros Ha Hb. rewrite (search_spec sel R I k a c Ha), (search_spec sel R I k b c Hb).
  destruct (Nat.le_ge_cases a b) as [H|H].
  - rewrite (proj2 (bounded_mono I a b c Ha H)). reflexivity.
  - rewrite (proj2 (bounded_mono I b a c Hb H)). reflexivity.
Qed.

(* ------------------------------------------------------------------ *)
(* the memo of finished owners never changes an answer *)

(* [x] is clean: no cycle can be reached from it and nothing on the way declares the key *)
Definition clean sel R I k (x : str) : Prop :=
  exists f0, bounded f0 I x = true /\ search sel f0 R I x k = Ok None.

(* enough fuel: by counting (any provider), or because the traversal from the owner is bounded *)
Definition suff (I : inh) (fuel : nat) (p : list str) (c : str) : Prop :=
  (NoDup p /\ incl p (map fst I) /\ (S (length I) <= length p + fuel)%nat) \/ bounded fuel I c = true.

Lemma suff_down I f p c ss s : suff I (S f) p c -> existsb (str_eqb c) p = false ->
  supers I c = Some ss -> In s ss -> suff I f (c :: p) s.
Proof.
  intros [(Hnd & Hincl & Hlen)|Hb] Ex E Hs.
  - left. split; [|split].
    + constructor; [|exact Hnd]. intros Hin. rewrite (existsb_str_true _ _ Hin) in Ex. discriminate.
    + intros x [<-|Hx]; [eapply supers_key; exact E|apply Hincl; exact Hx].
    + cbn [length]. lia.
  - right. cbn [bounded] in Hb. rewrite E in Hb. rewrite forallb_forall in Hb. apply Hb. exact Hs.
Qed.

Lemma clean_none sel R I k fuel p x : suff I fuel p x -> (forall z, In z p -> reachp I z x) ->
  clean sel R I k x -> map_member_fail_p sel fuel R I p x k = Ok None.
Proof.
  intros Hsuff Hp (f0 & Hb0 & Hs0). destruct Hsuff as [(Hnd & Hincl & Hlen)|Hb].
  - rewrite <- (map_member_fail_p_fuel sel R I k fuel (Nat.max fuel f0) p x Hnd Hincl Hlen) by lia.
    assert (Hbm : bounded (Nat.max fuel f0) I x = true) by (apply (bounded_mono I f0 _ x Hb0); lia).
    rewrite (map_member_fail_p_bounded sel R I k _ p x Hbm Hp).
    rewrite (search_bounded_eq sel R I k _ f0 x Hbm Hb0). exact Hs0.
  - rewrite (map_member_fail_p_bounded sel R I k _ p x Hb Hp).
    rewrite (search_bounded_eq sel R I k _ f0 x Hb Hb0). exact Hs0.
Qed.

Definition agrees sel R I k (o : outcome) (r : res (option key)) : Prop :=
  match o with
  | Found v => r = Ok (Some v)
  | Bail => r = Err
  | NotFound fl => r = Ok None /\ forall x, In x fl -> clean sel R I k x
  end.

Theorem map_member_fail_m_equiv sel R I k : forall fuel p fl c,
  suff I fuel p c -> (forall z, In z p -> reachp I z c) -> (forall x, In x fl -> clean sel R I k x) ->
  agrees sel R I k (map_member_fail_m sel fuel R I k p fl c) (map_member_fail_p sel fuel R I p c k).
Proof.
  induction fuel as [|f IH]; intros p fl c Hsuff Hp Hfl; [reflexivity|].
  cbn [map_member_fail_m map_member_fail_p].
  destruct (existsb (str_eqb c) p) eqn:Ex; [reflexivity|].
  destruct (existsb (str_eqb c) fl) eqn:Efl.
  - (* a finished owner *)
    apply existsb_str_In in Efl. split; [|exact Hfl].
    pose proof (clean_none sel R I k (S f) p c Hsuff Hp (Hfl c Efl)) as H.
    cbn [map_member_fail_p] in H. rewrite Ex in H. exact H.
  - destruct (declared sel R c k) as [v|] eqn:Ed; [reflexivity|].
    destruct (supers I c) as [ss|] eqn:E.
    + (* the super types, threading the finished owners *)
      assert (Hfold : forall ss' fl0, incl ss' ss -> (forall x, In x fl0 -> clean sel R I k x) ->
                match fold_st (fun fl1 s => map_member_fail_m sel f R I k (c :: p) fl1 s) fl0 ss' with
                | Found v => first_some (fun s => map_member_fail_p sel f R I (c :: p) s k) ss' = Ok (Some v)
                | Bail => first_some (fun s => map_member_fail_p sel f R I (c :: p) s k) ss' = Err
                | NotFound fl' => (forall s, In s ss' -> map_member_fail_p sel f R I (c :: p) s k = Ok None) /\
                                  forall x, In x fl' -> clean sel R I k x
                end).
      { induction ss' as [|s ss' IHss]; intros fl0 Hincl Hfl0; cbn [fold_st first_some].
        - split; [intros s []|exact Hfl0].
        - assert (Hs : In s ss) by (apply Hincl; left; reflexivity).
          pose proof (IH (c :: p) fl0 s (suff_down I f p c ss s Hsuff Ex E Hs)) as Hone.
          assert (Hp' : forall z, In z (c :: p) -> reachp I z s).
          { intros z [<-|Hz]; [eapply reachp_one; eauto|eapply reachp_snoc; eauto]. }
          specialize (Hone Hp' Hfl0). unfold agrees in Hone.
          destruct (map_member_fail_m sel f R I k (c :: p) fl0 s) as [v| |fl1].
          + rewrite Hone. reflexivity.
          + rewrite Hone. reflexivity.
          + destruct Hone as [Hn Hfl1]. rewrite Hn.
            specialize (IHss fl1 (fun x Hx => Hincl x (or_intror Hx)) Hfl1).
            destruct (fold_st _ fl1 ss') as [v| |fl2]; try exact IHss.
            destruct IHss as [Hall Hfl2]. split; [|exact Hfl2].
            intros x [<-|Hx]; [exact Hn|apply Hall; exact Hx]. }
      specialize (Hfold ss fl (fun x Hx => Hx) Hfl).
      destruct (fold_st _ fl ss) as [v| |fl']; cbn [agrees]; try exact Hfold.
      destruct Hfold as [Hall Hfl']. split; [apply first_some_all_none; exact Hall|].
      intros x [<-|Hx]; [|apply Hfl'; exact Hx].
      exists (S f). cbn [bounded search]. rewrite Ed, E. split.
      * apply forallb_forall. intros s Hs. apply (map_member_fail_p_none sel R I k f _ s (Hall s Hs)).
      * apply first_some_all_none. intros s Hs. apply (map_member_fail_p_none sel R I k f _ s (Hall s Hs)).
    + split; [reflexivity|]. intros x [<-|Hx]; [|apply Hfl; exact Hx].
      exists 1%nat. cbn [bounded search]. rewrite Ed, E. auto.
Qed.

(* the search of the code (with the memo) is the path-only search, for every provider with the default
   fuel or more, and for every fuel that bounds the traversal *)
Theorem map_member_fail_eq_p sel R I k fuel c : suff I fuel [] c ->
  map_member_fail sel fuel R I c k = map_member_fail_p sel fuel R I [] c k.
Proof.
  intros Hs. unfold map_member_fail.
  pose proof (map_member_fail_m_equiv sel R I k fuel [] [] c Hs (fun z (H : In z []) => match H with end)
                (fun x (H : In x []) => match H with end)) as H.
  destruct (map_member_fail_m sel fuel R I k [] [] c) as [v| |fl]; cbn [agrees outcome_res] in *.
  - symmetry. exact H.
  - symmetry. exact H.
  - symmetry. exact (proj1 H).
Qed.

Lemma suff_default I fuel c : (default_fuel I <= fuel)%nat -> suff I fuel [] c.
Proof.
  intros H. left. split; [constructor|]. split; [intros x []|]. unfold default_fuel in H. cbn [length]. lia.
Qed.

(* the cycle check never fires when the traversal from the owner is bounded *)
Theorem map_member_fail_bounded sel R I k fuel c : bounded fuel I c = true ->
  map_member_fail sel fuel R I c k = search sel fuel R I c k.
Proof.
  intros Hb. rewrite (map_member_fail_eq_p sel R I k fuel c (or_intror Hb)).
  apply map_member_fail_p_bounded; [exact Hb|intros z []].
Qed.

(* with enough fuel the search is "first declaring type in pre-order" *)
Theorem map_member_fail_spec sel R I k fuel c :
  bounded fuel I c = true ->
  map_member_fail sel fuel R I c k =
  Ok (first_declaring (fun x => declared sel R x k) (dfs_pre fuel I c)).
Proof.
  intros Hb. rewrite (map_member_fail_bounded sel R I k fuel c Hb). apply search_spec. exact Hb.
Qed.

(* any amount of fuel that bounds the height gives the same answer *)
Theorem map_member_fail_fuel sel R I k f f' c :
  bounded f I c = true -> (f <= f')%nat ->
  map_member_fail sel f' R I c k = map_member_fail sel f R I c k.
Proof.
  intros Hb Hle. destruct (bounded_mono I f f' c Hb Hle) as [Hb' Hd].
  rewrite (map_member_fail_spec sel R I k f' c Hb'), (map_member_fail_spec sel R I k f c Hb), Hd.
  reflexivity.
Qed.

(* decidable acyclicity without a rank witness: the traversal from every key is bounded by the
   default fuel; the height is then a rank *)
Definition acyclic_dec (I : inh) : bool := forallb (fun e => bounded (default_fuel I) I (fst e)) I.

Theorem acyclic_dec_rank I : acyclic_dec I = true -> acyclic_rank I (height (default_fuel I) I).
Proof.
  intros H c ss s E Hs. apply (bounded_edge I (default_fuel I) c ss s); [|exact E|exact Hs].
  apply supers_In' in E. unfold acyclic_dec in H. rewrite forallb_forall in H. exact (H _ E).
Qed.

(* a witness of unboundedness: a path of super-type edges *)
Fixpoint path (I : inh) (c : str) (l : list str) : Prop :=
  match l with
  | [] => True
  | x :: l' => x = c /\ exists ss s, supers I c = Some ss /\ In s ss /\ path I s l'
  end.

Lemma unbounded_path I : forall f c, bounded f I c = false -> exists l, length l = f /\ path I c l.
Proof.
  induction f as [|f IH]; intros c Hb.
  - exists []. split; [reflexivity|exact Logic.I].
  - cbn [bounded] in Hb. destruct (supers I c) as [ss|] eqn:E; [|discriminate].
    assert (H : exists s, In s ss /\ bounded f I s = false).
    { clear E. induction ss as [|s ss IHss]; cbn [forallb] in Hb; [discriminate|].
      destruct (bounded f I s) eqn:Es.
      - destruct (IHss Hb) as (s' & Hin & Hs'). exists s'. split; [right; exact Hin|exact Hs'].
      - exists s. split; [left; reflexivity|exact Es]. }
    destruct H as (s & Hin & Hs). destruct (IH s Hs) as (l & Hl & Hp).
    exists (c :: l). split; [cbn [length]; lia|]. cbn [path]. split; [reflexivity|].
    exists ss, s. auto.
Qed.

Lemma path_facts I rank : acyclic_rank I rank -> forall l c, path I c l ->
  NoDup l /\ incl l (map fst I) /\ (forall x, In x l -> (rank x <= rank c)%nat).
Proof.
  intros Ha. induction l as [|x l IH]; intros c Hp.
  - split; [constructor|]. split; [intros y []|intros y []].
  - cbn [path] in Hp. destruct Hp as (-> & ss & s & E & Hin & Hp).
    destruct (IH s Hp) as (Hnd & Hincl & Hrk). pose proof (Ha c ss s E Hin) as Hlt.
    split; [|split].
    + constructor; [|exact Hnd]. intros Hc. specialize (Hrk c Hc). lia.
    + intros y [<-|Hy]; [eapply supers_key; exact E|apply Hincl; exact Hy].
    + intros y [<-|Hy]; [lia|]. specialize (Hrk y Hy). lia.
Qed.

(* S (length I) levels always suffice for an acyclic provider (pigeonhole on the keys) *)
Theorem acyclic_fuel I rank c : acyclic_rank I rank -> bounded (default_fuel I) I c = true.
Proof.
  intros Ha. destruct (bounded (default_fuel I) I c) eqn:E; [reflexivity|exfalso].
  destruct (unbounded_path I _ c E) as (l & Hl & Hp).
  destruct (path_facts I rank Ha l c Hp) as (Hnd & Hincl & _).
  pose proof (NoDup_incl_length Hnd Hincl) as Hlen.
  rewrite map_length, Hl in Hlen. unfold default_fuel in Hlen. lia.
Qed.

Definition preorder (I : inh) (c : str) : list str := dfs_pre (default_fuel I) I c.

(* map_field_fail / map_method_fail and map_field / map_method of the model, for every acyclic provider *)
Theorem map_member_spec sel R I rank c k :
  acyclic_rank I rank ->
  map_member_fail sel (default_fuel I) R I c k =
    Ok (first_declaring (fun x => declared sel R x k) (preorder I c)) /\
  map_member sel (default_fuel I) R I c k =
    match first_declaring (fun x => declared sel R x k) (preorder I c) with
    | Some v => Ok v
    | None => match b_map_desc R (snd k) with Ok d => Ok (fst k, d) | Err => Err end
    end.
Proof.
  intros Ha. pose proof (acyclic_fuel I rank c Ha) as Hb.
  pose proof (map_member_fail_spec sel R I k _ c Hb) as E. split; [exact E|].
  unfold map_member. rewrite E. reflexivity.
Qed.

(* the pre-order starts with the owner: a member the owner declares is answered by the owner *)
Lemma preorder_head I c : exists l, preorder I c = c :: l.
Proof. unfold preorder, default_fuel. cbn [dfs_pre]. eexists. reflexivity. Qed.

Theorem map_member_direct sel R I c k v :
  declared sel R c k = Some v ->
  map_member_fail sel (default_fuel I) R I c k = Ok (Some v) /\
  map_member sel (default_fuel I) R I c k = Ok v.
Proof.
  intros H. unfold map_member, map_member_fail, default_fuel. cbn [map_member_fail_m existsb outcome_res]. rewrite H. auto.
Qed.

Lemma first_declaring_none decl l : (forall x, In x l -> decl x = None) -> first_declaring decl l = None.
Proof.
  induction l as [|x l IH]; cbn [first_declaring]; intros Hn; [reflexivity|].
  rewrite (Hn x (or_introl eq_refl)). apply IH. intros y Hy. apply Hn. right. exact Hy.
Qed.

(* the unchanged name with the remapped descriptor when no type of the pre-order declares it *)
Theorem map_member_fallback sel R I rank c k :
  acyclic_rank I rank ->
  (forall x, In x (preorder I c) -> declared sel R x k = None) ->
  map_member_fail sel (default_fuel I) R I c k = Ok None /\
  map_member sel (default_fuel I) R I c k =
    match b_map_desc R (snd k) with Ok d => Ok (fst k, d) | Err => Err end.
Proof.
  intros Ha Hn. destruct (map_member_spec sel R I rank c k Ha) as [E1 E2].
  assert (E : first_declaring (fun x => declared sel R x k) (preorder I c) = None)
    by (apply first_declaring_none; exact Hn).
  rewrite E in E1, E2. auto.
Qed.

(* what "first declaring" means: a split of the pre-order *)
Lemma first_declaring_some decl l v :
  first_declaring decl l = Some v <->
  exists l1 x l2, l = l1 ++ x :: l2 /\ decl x = Some v /\ forall y, In y l1 -> decl y = None.
Proof.
  induction l as [|c l IH]; cbn [first_declaring].
  - split; [discriminate|]. intros (l1 & x & l2 & H & _). destruct l1; discriminate.
  - destruct (decl c) as [w|] eqn:E.
    + split.
      * intros [= ->]. exists [], c, l. split; [reflexivity|]. split; [exact E|intros y []].
      * intros (l1 & x & l2 & H & Hx & Hn). destruct l1 as [|y l1].
        -- injection H as <- ->. congruence.
        -- injection H as <- ->. rewrite (Hn c (or_introl eq_refl)) in E. discriminate.
    + rewrite IH. split.
      * intros (l1 & x & l2 & -> & Hx & Hn). exists (c :: l1), x, l2. split; [reflexivity|]. split; [exact Hx|].
        intros y [<-|Hy]; [exact E|apply Hn; exact Hy].
      * intros (l1 & x & l2 & H & Hx & Hn). destruct l1 as [|y l1].
        -- injection H as <- ->. congruence.
        -- injection H as <- ->. exists l1, x, l2. split; [reflexivity|]. split; [exact Hx|].
           intros z Hz. apply Hn. right. exact Hz.
Qed.
