(* C06 theory, part 2: tables and the super-class search.
   - get_last (IndexMap built by insert) and collect
   - map_class_spec: the class answer of both remappers in terms of the mapping rows
   - map_member_spec: the member search answers with the first declaring type of the
     depth-first pre-order (declaration order), for every acyclic provider; fuel is irrelevant
     once it bounds the height, and [S (length I)] always does *)
From FB Require Import C06.Model C18.Theory C06.Theory1.
From Coq Require Import Arith.
Arguments N.add : simpl never.
Arguments N.eqb : simpl never.

(* ------------------------------------------------------------------ *)
(* get_last *)

Definition eqb_ok {K} (eqb : K -> K -> bool) : Prop := forall a b, eqb a b = true <-> a = b.

Lemma str_eqb_ok : eqb_ok str_eqb.
Proof. intros a b. apply str_eqb_eq. Qed.

Lemma key_eqb_ok : eqb_ok key_eqb.
Proof.
  intros [a1 a2] [b1 b2]. unfold key_eqb, key2_eqb. cbn [fst snd].
  rewrite andb_true_iff, !str_eqb_eq. split; [intros [-> ->]; reflexivity|intros [= -> ->]; auto].
Qed.

Lemma get_last_app {K V} (eqb : K -> K -> bool) k (l1 l2 : list (K * V)) :
  get_last eqb k (l1 ++ l2) =
  match get_last eqb k l2 with Some v => Some v | None => get_last eqb k l1 end.
Proof.
  induction l1 as [|[k' v] l1 IH]; cbn [app get_last].
  - destruct (get_last eqb k l2); reflexivity.
  - rewrite IH. destruct (get_last eqb k l2); reflexivity.
Qed.

Lemma get_last_In {K V} (eqb : K -> K -> bool) k (l : list (K * V)) v :
  eqb_ok eqb -> get_last eqb k l = Some v -> In (k, v) l.
Proof.
  intros He. induction l as [|[k' v'] l IH]; cbn [get_last]; [discriminate|].
  destruct (get_last eqb k l) as [w|].
  - intros [= ->]. right. apply IH. reflexivity.
  - destruct (eqb k k') eqn:E; [|discriminate]. intros [= ->]. apply He in E as ->. left. reflexivity.
Qed.

Lemma get_last_None {K V} (eqb : K -> K -> bool) k (l : list (K * V)) :
  eqb_ok eqb -> (get_last eqb k l = None <-> ~ In k (map fst l)).
Proof.
  intros He. induction l as [|[k' v'] l IH]; cbn [get_last map fst].
  - split; [intros _ []|reflexivity].
  - destruct (get_last eqb k l) as [w|].
    + split; [discriminate|]. intros H. exfalso.
      assert (X : Some w = None) by (apply IH; intros Hin; apply H; right; exact Hin). discriminate.
    + destruct (eqb k k') eqn:E.
      * split; [discriminate|]. intros H. exfalso. apply H. left. symmetry. apply He. exact E.
      * split; [|reflexivity]. intros _ [H|H].
        -- subst k'. assert (X : eqb k k = true) by (apply He; reflexivity). congruence.
        -- apply (proj1 IH eq_refl). exact H.
Qed.

Lemma get_last_nodup {K V} (eqb : K -> K -> bool) k (l : list (K * V)) v :
  eqb_ok eqb -> NoDup (map fst l) -> In (k, v) l -> get_last eqb k l = Some v.
Proof.
  intros He. induction l as [|[k' v'] l IH]; cbn [get_last map fst]; intros Hn Hin; [destruct Hin|].
  inversion Hn as [|? ? Hnotin Hn']; subst. destruct Hin as [[= -> ->]|Hin].
  - assert (E : get_last eqb k l = None) by (apply get_last_None; assumption).
    rewrite E. assert (X : eqb k k = true) by (apply He; reflexivity). rewrite X. reflexivity.
  - rewrite (IH Hn' Hin). reflexivity.
Qed.

Lemma get_last_map_val {K V W} (eqb : K -> K -> bool) (g : V -> W) k (l : list (K * V)) :
  get_last eqb k (map (fun e => (fst e, g (snd e))) l) =
  match get_last eqb k l with Some v => Some (g v) | None => None end.
Proof.
  induction l as [|[k' v] l IH]; cbn [map get_last fst snd]; [reflexivity|].
  rewrite IH. destruct (get_last eqb k l); [reflexivity|]. destruct (eqb k k'); reflexivity.
Qed.

(* nodupb reflects NoDup *)
Lemma nodupb_NoDup {A} (eqb : A -> A -> bool) (l : list A) :
  eqb_ok eqb -> nodupb eqb l = true -> NoDup l.
Proof.
  intros He. induction l as [|x l IH]; cbn [nodupb]; intros H; [constructor|].
  apply andb_true_iff in H as [H1 H2]. constructor; [|apply IH; exact H2].
  intros Hin. apply negb_true_iff in H1.
  assert (X : existsb (eqb x) l = true).
  { apply existsb_exists. exists x. split; [exact Hin|apply He; reflexivity]. }
  congruence.
Qed.

(* ------------------------------------------------------------------ *)
(* collect *)

Lemma collect_ok_each {A B} (f : A -> res (list B)) l r x :
  collect f l = Ok r -> In x l -> exists p, f x = Ok p /\ incl p r.
Proof.
  revert r; induction l as [|y l IH]; intros r; cbn [collect]; intros H Hin; [destruct Hin|].
  destruct (f y) as [ys|] eqn:Ey; [|discriminate].
  destruct (collect f l) as [zs|] eqn:Ez; [|discriminate]. injection H as <-.
  destruct Hin as [->|Hin].
  - exists ys. split; [exact Ey|]. intros e He. apply in_or_app. left. exact He.
  - destruct (IH zs eq_refl Hin) as (p & Ep & Hp). exists p. split; [exact Ep|].
    intros e He. apply in_or_app. right. apply Hp. exact He.
Qed.

Lemma collect_in_inv {A B} (f : A -> res (list B)) l r e :
  collect f l = Ok r -> In e r -> exists x p, In x l /\ f x = Ok p /\ In e p.
Proof.
  revert r; induction l as [|y l IH]; intros r; cbn [collect]; intros H Hin.
  - injection H as <-. destruct Hin.
  - destruct (f y) as [ys|] eqn:Ey; [|discriminate].
    destruct (collect f l) as [zs|] eqn:Ez; [|discriminate]. injection H as <-.
    apply in_app_or in Hin as [Hin|Hin].
    + exists y, ys. split; [left; reflexivity|]. split; assumption.
    + destruct (IH zs eq_refl Hin) as (x & p & Hx & Ep & Hp). exists x, p. split; [right; exact Hx|]. split; assumption.
Qed.

Lemma collect_map {A B C} (f : A -> res (list B)) (g : A -> res (list C)) (h : B -> C) l r :
  (forall x p, In x l -> f x = Ok p -> g x = Ok (map h p)) ->
  collect f l = Ok r -> collect g l = Ok (map h r).
Proof.
  revert r; induction l as [|y l IH]; intros r Hfg; cbn [collect]; intros H.
  - injection H as <-. reflexivity.
  - destruct (f y) as [ys|] eqn:Ey; [|discriminate].
    destruct (collect f l) as [zs|] eqn:Ez; [|discriminate]. injection H as <-.
    rewrite (Hfg y ys (or_introl eq_refl) Ey).
    rewrite (IH zs (fun x p Hx => Hfg x p (or_intror Hx)) eq_refl). rewrite map_app. reflexivity.
Qed.

(* total pieces: collect of an everywhere-Ok function is the flat_map *)
Lemma collect_total {A B} (f : A -> list B) l : collect (fun x => Ok (f x)) l = Ok (flat_map f l).
Proof. induction l as [|y l IH]; cbn [collect flat_map]; [reflexivity|]. rewrite IH. reflexivity. Qed.

(* ------------------------------------------------------------------ *)
(* the class table in terms of the rows *)

Definition row_has (from to : nat) (a b : str) (c : class) : Prop :=
  nth_name (c_names c) from = Some a /\ nth_name (c_names c) to = Some b.

Lemma remapper_a_In M from to a b :
  In (a, b) (remapper_a M from to) <-> exists c, In c (ms_classes M) /\ row_has from to a b c.
Proof.
  unfold remapper_a, row_has. rewrite in_flat_map. split.
  - intros (c & Hc & H). exists c. split; [exact Hc|].
    destruct (nth_name (c_names c) from) as [a'|]; [|destruct H].
    destruct (nth_name (c_names c) to) as [b'|]; [|destruct H].
    destruct H as [[= -> ->]|[]]. auto.
  - intros (c & Hc & Ea & Eb). exists c. split; [exact Hc|]. rewrite Ea, Eb. left. reflexivity.
Qed.

(* the answers of ARemapperImpl *)
Theorem a_map_class_spec M from to c :
  let T := remapper_a M from to in
  (forall b, a_map_class_fail T c = Some b ->
             a_map_class T c = b /\ exists row, In row (ms_classes M) /\ row_has from to c b row) /\
  (a_map_class_fail T c = None ->
             a_map_class T c = c /\ forall row b, In row (ms_classes M) -> ~ row_has from to c b row) /\
  (NoDup (map fst T) -> forall row b, In row (ms_classes M) -> row_has from to c b row -> a_map_class T c = b).
Proof.
  cbn zeta. unfold a_map_class, a_map_class_fail. split; [|split].
  - intros b E. rewrite E. split; [reflexivity|]. apply remapper_a_In.
    apply (get_last_In str_eqb); [apply str_eqb_ok|exact E].
  - intros E. rewrite E. split; [reflexivity|]. intros row b Hrow Hhas.
    apply (get_last_None str_eqb) in E; [|apply str_eqb_ok]. apply E.
    apply in_map_iff. exists (c, b). split; [reflexivity|]. apply remapper_a_In. exists row. auto.
  - intros Hnd row b Hrow Hhas.
    rewrite (get_last_nodup str_eqb c _ b); [reflexivity|apply str_eqb_ok|exact Hnd|].
    apply remapper_a_In. exists row. auto.
Qed.

(* the class entries of remapper_b carry exactly the pairs of remapper_a, in the same order *)
Lemma class_entry_names Tf Tt from to c p :
  class_entry Tf Tt from to c = Ok p ->
  map (fun e => (fst e, b_name (snd e))) p =
  match nth_name (c_names c) from, nth_name (c_names c) to with Some a, Some b => [(a, b)] | _, _ => [] end.
Proof.
  unfold class_entry. destruct (nth_name (c_names c) from) as [a|]; [|intros [= <-]; reflexivity].
  destruct (nth_name (c_names c) to) as [b|]; [|intros [= <-]; reflexivity].
  destruct (collect _ (c_fields c)); [|discriminate]. destruct (collect _ (c_methods c)); [|discriminate].
  intros [= <-]. reflexivity.
Qed.

Lemma collect_names Tf Tt from to l R :
  collect (class_entry Tf Tt from to) l = Ok R ->
  map (fun e => (fst e, b_name (snd e))) R =
  flat_map (fun c => match nth_name (c_names c) from, nth_name (c_names c) to with
                     | Some a, Some b => [(a, b)] | _, _ => [] end) l.
Proof.
  revert R. induction l as [|c l IH]; intros R; cbn [collect flat_map].
  - intros [= <-]. reflexivity.
  - destruct (class_entry Tf Tt from to c) as [p|] eqn:Ep; [|discriminate].
    destruct (collect (class_entry Tf Tt from to) l) as [zs|]; [|discriminate]. intros [= <-].
    rewrite map_app, (IH zs eq_refl), (class_entry_names _ _ _ _ _ _ Ep). reflexivity.
Qed.

Lemma remapper_b_names M from to R :
  remapper_b M from to = Ok R -> map (fun e => (fst e, b_name (snd e))) R = remapper_a M from to.
Proof. unfold remapper_b. intros H. apply collect_names in H. exact H. Qed.

Lemma b_map_class_fail_a M from to R c :
  remapper_b M from to = Ok R -> b_map_class_fail R c = a_map_class_fail (remapper_a M from to) c.
Proof.
  intros H. unfold b_map_class_fail, b_get, a_map_class_fail.
  rewrite <- (remapper_b_names _ _ _ _ H). rewrite get_last_map_val. reflexivity.
Qed.

Lemma b_map_class_a M from to R c :
  remapper_b M from to = Ok R -> b_map_class R c = a_map_class (remapper_a M from to) c.
Proof. intros H. unfold b_map_class, a_map_class. rewrite (b_map_class_fail_a _ _ _ _ _ H). reflexivity. Qed.

(* both remappers give the same class, descriptor and array-class answers *)
Theorem b_agrees_with_a M from to R :
  remapper_b M from to = Ok R ->
  forall x, b_map_class R x = a_map_class (remapper_a M from to) x /\
            b_map_desc R x = a_map_desc (remapper_a M from to) x /\
            b_map_class_any R x = a_map_class_any (remapper_a M from to) x.
Proof.
  intros H x. pose proof (b_map_class_a M from to R) as Hc.
  assert (Hd : forall d, b_map_desc R d = a_map_desc (remapper_a M from to) d).
  { intros d. unfold b_map_desc, a_map_desc, map_desc. generalize (S (length d)). intros k. revert d.
    induction k as [|k IH]; intros d; cbn [map_desc_f]; [reflexivity|].
    destruct d as [|c d]; [reflexivity|]. destruct (N.eqb c cL).
    - destruct d as [|c1 d]; [reflexivity|]. destruct (N.eqb c1 cSEMI); [reflexivity|].
      destruct (take_until_semi d) as [[n r]|]; [|reflexivity]. rewrite IH, (Hc _ H). reflexivity.
    - rewrite IH. reflexivity. }
  split; [apply Hc; exact H|]. split; [apply Hd|].
  unfold b_map_class_any, a_map_class_any. rewrite Hd, (Hc _ H). reflexivity.
Qed.

(* ------------------------------------------------------------------ *)
(* the search *)

Fixpoint dfs_pre (fuel : nat) (I : inh) (c : str) : list str :=
  match fuel with
  | O => []
  | S f => c :: match supers I c with Some ss => flat_map (dfs_pre f I) ss | None => [] end
  end.

(* the traversal from [c] finishes within [fuel] levels *)
Fixpoint bounded (fuel : nat) (I : inh) (c : str) : bool :=
  match fuel with
  | O => false
  | S f => match supers I c with Some ss => forallb (bounded f I) ss | None => true end
  end.

Fixpoint first_declaring (decl : str -> option key) (l : list str) : option key :=
  match l with
  | [] => None
  | c :: l' => match decl c with Some v => Some v | None => first_declaring decl l' end
  end.

Lemma first_declaring_app decl l1 l2 :
  first_declaring decl (l1 ++ l2) =
  match first_declaring decl l1 with Some v => Some v | None => first_declaring decl l2 end.
Proof.
  induction l1 as [|c l1 IH]; cbn [app first_declaring]; [reflexivity|].
  destruct (decl c); [reflexivity|exact IH].
Qed.

(* with enough fuel the search is "first declaring type in pre-order" *)
Theorem map_member_fail_spec sel R I k : forall fuel c,
  bounded fuel I c = true ->
  map_member_fail sel fuel R I c k =
  Ok (first_declaring (fun x => declared sel R x k) (dfs_pre fuel I c)).
Proof.
  induction fuel as [|f IH]; intros c Hb; cbn [bounded] in Hb; [discriminate|].
  cbn [map_member_fail dfs_pre first_declaring].
  destruct (declared sel R c k) as [v|]; [reflexivity|].
  destruct (supers I c) as [ss|]; [|reflexivity].
  induction ss as [|s ss IHss]; cbn [first_some flat_map first_declaring]; [reflexivity|].
  cbn [forallb] in Hb. apply andb_true_iff in Hb as [Hs Hss].
  rewrite (IH s Hs). rewrite first_declaring_app.
  destruct (first_declaring _ (dfs_pre f I s)); [reflexivity|]. apply IHss. exact Hss.
Qed.

(* more fuel changes neither boundedness nor the pre-order *)
Lemma bounded_mono I : forall f f' c, bounded f I c = true -> (f <= f')%nat ->
  bounded f' I c = true /\ dfs_pre f' I c = dfs_pre f I c.
Proof.
  induction f as [|f IH]; intros f' c Hb Hle; cbn [bounded] in Hb; [discriminate|].
  destruct f' as [|f']; [lia|]. cbn [bounded dfs_pre].
  destruct (supers I c) as [ss|]; [|auto].
  assert (H : forallb (bounded f' I) ss = true /\ flat_map (dfs_pre f' I) ss = flat_map (dfs_pre f I) ss).
  { induction ss as [|s ss IHss]; cbn [forallb flat_map]; [auto|].
    cbn [forallb] in Hb. apply andb_true_iff in Hb as [Hs Hss].
    destruct (IH f' s Hs ltac:(lia)) as [B1 D1]. destruct (IHss Hss) as [B2 D2].
    rewrite B1, B2, D1, D2. auto. }
  destruct H as [H1 H2]. rewrite H1, H2. auto.
Qed.

Theorem map_member_fail_fuel sel R I k f f' c :
  bounded f I c = true -> (f <= f')%nat ->
  map_member_fail sel f' R I c k = map_member_fail sel f R I c k.
Proof.
  intros Hb Hle. destruct (bounded_mono I f f' c Hb Hle) as [Hb' Hd].
  rewrite (map_member_fail_spec sel R I k f' c Hb'), (map_member_fail_spec sel R I k f c Hb), Hd. reflexivity.
Qed.

(* acyclic: some rank strictly decreases along every super-type edge *)
Definition acyclic_rank (I : inh) (rank : str -> nat) : Prop :=
  forall c ss s, supers I c = Some ss -> In s ss -> (rank s < rank c)%nat.

Lemma rank_bounded I rank : acyclic_rank I rank -> forall n c, (rank c < n)%nat -> bounded n I c = true.
Proof.
  intros Ha. induction n as [|n IH]; intros c Hc; [lia|]. cbn [bounded].
  destruct (supers I c) as [ss|] eqn:E; [|reflexivity].
  apply forallb_forall. intros s Hs. apply IH. specialize (Ha c ss s E Hs). lia.
Qed.

(* a witness of unboundedness: a path of super-type edges *)
Fixpoint path (I : inh) (c : str) (l : list str) : Prop :=
  match l with
  | [] => True
  | x :: l' => x = c /\ exists ss s, supers I c = Some ss /\ In s ss /\ path I s l'
  end.

Lemma unbounded_path I : forall f c, bounded f I c = false -> exists l, length l = f /\ path I c l.
Proof.
  induction f as [|f IH]; intros c Hb.
  - exists []. split; [reflexivity|exact Logic.I].
  - cbn [bounded] in Hb. destruct (supers I c) as [ss|] eqn:E; [|discriminate].
    assert (H : exists s, In s ss /\ bounded f I s = false).
    { clear E. induction ss as [|s ss IHss]; cbn [forallb] in Hb; [discriminate|].
      destruct (bounded f I s) eqn:Es.
      - destruct (IHss Hb) as (s' & Hin & Hs'). exists s'. split; [right; exact Hin|exact Hs'].
      - exists s. split; [left; reflexivity|exact Es]. }
    destruct H as (s & Hin & Hs). destruct (IH s Hs) as (l & Hl & Hp).
    exists (c :: l). split; [cbn [length]; lia|]. cbn [path]. split; [reflexivity|].
    exists ss, s. auto.
Qed.

Lemma supers_key I c ss : supers I c = Some ss -> In c (map fst I).
Proof.
  induction I as [|[k v] I IH]; cbn [supers map fst]; [discriminate|].
  destruct (str_eqb_spec c k) as [->|_]; [intros _; left; reflexivity|]. intros H. right. apply IH. exact H.
Qed.

Lemma path_facts I rank : acyclic_rank I rank -> forall l c, path I c l ->
  NoDup l /\ incl l (map fst I) /\ (forall x, In x l -> (rank x <= rank c)%nat).
Proof.
  intros Ha. induction l as [|x l IH]; intros c Hp.
  - split; [constructor|]. split; [intros y []|intros y []].
  - cbn [path] in Hp. destruct Hp as (-> & ss & s & E & Hin & Hp).
    destruct (IH s Hp) as (Hnd & Hincl & Hrk). pose proof (Ha c ss s E Hin) as Hlt.
    split; [|split].
    + constructor; [|exact Hnd]. intros Hc. specialize (Hrk c Hc). lia.
    + intros y [<-|Hy]; [eapply supers_key; exact E|apply Hincl; exact Hy].
    + intros y [<-|Hy]; [lia|]. specialize (Hrk y Hy). lia.
Qed.

(* S (length I) levels always suffice for an acyclic provider (pigeonhole on the keys) *)
Theorem acyclic_fuel I rank c : acyclic_rank I rank -> bounded (default_fuel I) I c = true.
Proof.
  intros Ha. destruct (bounded (default_fuel I) I c) eqn:E; [reflexivity|exfalso].
  destruct (unbounded_path I _ c E) as (l & Hl & Hp).
  destruct (path_facts I rank Ha l c Hp) as (Hnd & Hincl & _).
  pose proof (NoDup_incl_length Hnd Hincl) as Hlen.
  rewrite map_length, Hl in Hlen. unfold default_fuel in Hlen. lia.
Qed.

Definition preorder (I : inh) (c : str) : list str := dfs_pre (default_fuel I) I c.

(* map_field_fail / map_method_fail and map_field / map_method of the model, for every acyclic provider *)
Theorem map_member_spec sel R I rank c k :
  acyclic_rank I rank ->
  map_member_fail sel (default_fuel I) R I c k =
    Ok (first_declaring (fun x => declared sel R x k) (preorder I c)) /\
  map_member sel (default_fuel I) R I c k =
    match first_declaring (fun x => declared sel R x k) (preorder I c) with
    | Some v => Ok v
    | None => match b_map_desc R (snd k) with Ok d => Ok (fst k, d) | Err => Err end
    end.
Proof.
  intros Ha. pose proof (acyclic_fuel I rank c Ha) as Hb.
  pose proof (map_member_fail_spec sel R I k _ c Hb) as E. split; [exact E|].
  unfold map_member. rewrite E. reflexivity.
Qed.

(* the pre-order starts with the owner: a member the owner declares is answered by the owner *)
Lemma preorder_head I c : exists l, preorder I c = c :: l.
Proof. unfold preorder, default_fuel. cbn [dfs_pre]. eexists. reflexivity. Qed.

Theorem map_member_direct sel R I c k v :
  declared sel R c k = Some v ->
  map_member_fail sel (default_fuel I) R I c k = Ok (Some v) /\
  map_member sel (default_fuel I) R I c k = Ok v.
Proof.
  intros H. unfold map_member, default_fuel. cbn [map_member_fail]. rewrite H. auto.
Qed.

Lemma first_declaring_none decl l : (forall x, In x l -> decl x = None) -> first_declaring decl l = None.
Proof.
  induction l as [|x l IH]; cbn [first_declaring]; intros Hn; [reflexivity|].
  rewrite (Hn x (or_introl eq_refl)). apply IH. intros y Hy. apply Hn. right. exact Hy.
Qed.

(* the unchanged name with the remapped descriptor when no type of the pre-order declares it *)
Theorem map_member_fallback sel R I rank c k :
  acyclic_rank I rank ->
  (forall x, In x (preorder I c) -> declared sel R x k = None) ->
  map_member_fail sel (default_fuel I) R I c k = Ok None /\
  map_member sel (default_fuel I) R I c k =
    match b_map_desc R (snd k) with Ok d => Ok (fst k, d) | Err => Err end.
Proof.
  intros Ha Hn. destruct (map_member_spec sel R I rank c k Ha) as [E1 E2].
  assert (E : first_declaring (fun x => declared sel R x k) (preorder I c) = None)
    by (apply first_declaring_none; exact Hn).
  rewrite E in E1, E2. auto.
Qed.

(* what "first declaring" means: a split of the pre-order *)
Lemma first_declaring_some decl l v :
  first_declaring decl l = Some v <->
  exists l1 x l2, l = l1 ++ x :: l2 /\ decl x = Some v /\ forall y, In y l1 -> decl y = None.
Proof.
  induction l as [|c l IH]; cbn [first_declaring].
  - split; [discriminate|]. intros (l1 & x & l2 & H & _). destruct l1; discriminate.
  - destruct (decl c) as [w|] eqn:E.
    + split.
      * intros [= ->]. exists [], c, l. split; [reflexivity|]. split; [exact E|intros y []].
      * intros (l1 & x & l2 & H & Hx & Hn). destruct l1 as [|y l1].
        -- injection H as <- ->. congruence.
        -- injection H as <- ->. rewrite (Hn c (or_introl eq_refl)) in E. discriminate.
    + rewrite IH. split.
      * intros (l1 & x & l2 & -> & Hx & Hn). exists (c :: l1), x, l2. split; [reflexivity|]. split; [exact Hx|].
        intros y [<-|Hy]; [exact E|apply Hn; exact Hy].
      * intros (l1 & x & l2 & H & Hx & Hn). destruct l1 as [|y l1].
        -- injection H as <- ->. congruence.
        -- injection H as <- ->. exists l1, x, l2. split; [reflexivity|]. split; [exact Hx|].
           intros z Hz. apply Hn. right. exact Hz.
Qed.
