(* C06 model: quill/src/remapper.rs — the descriptor scanner `map_desc`, the class table of
   `Mappings::remapper_a`, the per-class member tables of `Mappings::remapper_b`, the recursive
   super-class search of `BRemapperImpl::map_field_fail / map_method_fail` (after the repairs
   "fix: search super types of an owner that has no mapping entry", "fix: cyclic inheritance
   information is an error for the remapper instead of an endless recursion" and "fix: the remapper
   searches a class once per query"), the identity fall-backs of
   the default trait methods and the `*_ref` / `map_class_any` wrappers.
   Definitions only; proofs are in Theory*.v.  Descriptor types and printers come from C18. *)
From FB Require Export Base.Str Base.Run Quill.Mappings C18.Model.

(* ------------------------------------------------------------------ *)
(* map_desc: `while let Some(ch) = iter.next() { push ch; if ch == 'L' { … } }`.
   After an `L`: the next character must exist and must not be `;` (start), then the scanner
   consumes up to and including the next `;` (end); either missing => bail.  The class name is
   desc[start..end], i.e. the first character together with everything before that `;`.
   The remainder after the `;` is scanned by the same loop: fuel bounds the iterations
   (one per consumed character is enough, see Theory: map_desc_fuel). *)
Fixpoint map_desc_f (fuel : nat) (f : str -> str) (s : str) : res str :=
  match fuel with
  | O => Err
  | S k =>
      match s with
      | [] => Ok []
      | c :: s' =>
          if N.eqb c cL then
            match s' with
            | [] => Err                                    (* start = None, end = None *)
            | c1 :: s'' =>
                if N.eqb c1 cSEMI then Err                 (* `L;`: start filtered out *)
                else match take_until_semi s'' with
                     | Err => Err                          (* no `;` found: end = None *)
                     | Ok (n, r) =>
                         match map_desc_f k f r with
                         | Ok o => Ok (cL :: f (c1 :: n) ++ cSEMI :: o)
                         | Err => Err
                         end
                     end
            end
          else match map_desc_f k f s' with Ok o => Ok (c :: o) | Err => Err end
      end
  end.

Definition map_desc (f : str -> str) (s : str) : res str := map_desc_f (S (length s)) f s.

(* ------------------------------------------------------------------ *)
(* IndexMap built by repeated `insert`: a later insert with an equal key replaces the value.
   A lookup therefore answers with the LAST pair carrying that key. *)
Fixpoint get_last {K V} (eqb : K -> K -> bool) (k : K) (l : list (K * V)) : option V :=
  match l with
  | [] => None
  | (k', v) :: l' =>
      match get_last eqb k l' with
      | Some v' => Some v'
      | None => if eqb k k' then Some v else None
      end
  end.

(* ---- ARemapperImpl / Mappings::remapper_a ---- *)
Definition atable := list (str * str).

Definition remapper_a (M : mappings) (from to : nat) : atable :=
  flat_map (fun c => match nth_name (c_names c) from, nth_name (c_names c) to with
                     | Some a, Some b => [(a, b)]
                     | _, _ => []
                     end) (ms_classes M).

Definition a_map_class_fail (T : atable) (c : str) : option str := get_last str_eqb c T.
Definition a_map_class (T : atable) (c : str) : str :=
  match a_map_class_fail T c with Some n => n | None => c end.

(* map_field_desc / map_method_desc / map_return_desc: all three are `map_desc` *)
Definition a_map_desc (T : atable) (d : str) : res str := map_desc (a_map_class T) d.

(* ClassNameSlice::is_array = starts_with('[') *)
Definition is_array_name (c : str) : bool := starts_with [cLBRACK] c.
Definition a_map_class_any (T : atable) (c : str) : res str :=
  if is_array_name c then a_map_desc T c else Ok (a_map_class T c).

(* ---- BRemapperImpl / Mappings::remapper_b ---- *)
Definition key := (str * str)%type.          (* (member name, descriptor) *)
Definition key_eqb : key -> key -> bool := key2_eqb.
Definition mtable := list (key * key).

Record bclass := mkB { b_name : str; b_fields : mtable; b_methods : mtable }.
Definition bremap := list (str * bclass).

(* the first failing element aborts (`?`); otherwise the pieces in order *)
Fixpoint collect {A B} (f : A -> res (list B)) (l : list A) : res (list B) :=
  match l with
  | [] => Ok []
  | x :: l' =>
      match f x with
      | Err => Err
      | Ok ys => match collect f l' with Err => Err | Ok zs => Ok (ys ++ zs) end
      end
  end.

(* one field / method row: only when it has a name in both namespaces; the descriptor of the
   row (expressed in namespace 0) is re-expressed in `from` for the key and in `to` for the value *)
Definition member_entry (Tf Tt : atable) (from to : nat) (desc : str) (nm : names) : res mtable :=
  match nth_name nm from, nth_name nm to with
  | Some a, Some b =>
      match a_map_desc Tf desc with
      | Err => Err
      | Ok df => match a_map_desc Tt desc with
                 | Err => Err
                 | Ok dt => Ok [((a, df), (b, dt))]
                 end
      end
  | _, _ => Ok []
  end.

Definition class_entry (Tf Tt : atable) (from to : nat) (c : class) : res bremap :=
  match nth_name (c_names c) from, nth_name (c_names c) to with
  | Some a, Some b =>
      match collect (fun f => member_entry Tf Tt from to (f_desc f) (f_names f)) (c_fields c) with
      | Err => Err
      | Ok fs =>
          match collect (fun m => member_entry Tf Tt from to (m_desc m) (m_names m)) (c_methods c) with
          | Err => Err
          | Ok ms => Ok [(a, mkB b fs ms)]
          end
      end
  | _, _ => Ok []
  end.

Definition remapper_b (M : mappings) (from to : nat) : res bremap :=
  let Tf := remapper_a M 0 from in
  let Tt := remapper_a M 0 to in
  collect (class_entry Tf Tt from to) (ms_classes M).

Definition b_get (R : bremap) (c : str) : option bclass := get_last str_eqb c R.
Definition b_map_class_fail (R : bremap) (c : str) : option str :=
  match b_get R c with Some cl => Some (b_name cl) | None => None end.
Definition b_map_class (R : bremap) (c : str) : str :=
  match b_map_class_fail R c with Some n => n | None => c end.
Definition b_map_desc (R : bremap) (d : str) : res str := map_desc (b_map_class R) d.
Definition b_map_class_any (R : bremap) (c : str) : res str :=
  if is_array_name c then b_map_desc R c else Ok (b_map_class R c).

(* ---- the super class provider: JarSuperProv (IndexMap name -> IndexSet of super types, in
   declaration order); a Vec of providers answers with the first provider that knows the class,
   which is the first match in the concatenation of their entry lists ---- *)
Definition inh := list (str * list str).
Fixpoint supers (I : inh) (c : str) : option (list str) :=
  match I with
  | [] => None
  | (k, ss) :: I' => if str_eqb c k then Some ss else supers I' c
  end.

(* what the class entry of [owner] (if any) answers for the member key *)
Definition declared (sel : bclass -> mtable) (R : bremap) (owner : str) (k : key) : option key :=
  match b_get R owner with
  | Some cl => get_last key_eqb k (sel cl)
  | None => None
  end.

(* `for super_class in super_classes { if let Some(r) = self.map_*_fail(super_class, …)? { return Ok(Some(r)) } }` *)
Fixpoint first_some (g : str -> res (option key)) (ss : list str) : res (option key) :=
  match ss with
  | [] => Ok None
  | s :: ss' =>
      match g s with
      | Err => Err
      | Ok (Some v) => Ok (Some v)
      | Ok None => first_some g ss'
      end
  end.

(* The search WITHOUT the memo of finished owners: the code after the first repair ("cyclic inheritance
   information is an error"), kept as the specification of the search below (Theory2:
   map_member_fail_eq_p).  [path] holds the classes whose super types are being searched right now;
   meeting one of them again is Err, checked BEFORE the owner's table is looked at. *)
Fixpoint map_member_fail_p (sel : bclass -> mtable) (fuel : nat) (R : bremap) (I : inh)
         (path : list str) (owner : str) (k : key) : res (option key) :=
  match fuel with
  | O => Err
  | S f =>
      if existsb (str_eqb owner) path then Err
      else
      match declared sel R owner k with
      | Some v => Ok (Some v)
      | None =>
          match supers I owner with
          | Some ss => first_some (fun s => map_member_fail_p sel f R I (owner :: path) s k) ss
          | None => Ok None
          end
      end
  end.

(* map_field_fail / map_method_fail = map_field_fail_in / map_method_fail_in with an empty path and an
   empty set of finished owners ([sel] picks the table), after the second repair ("a class is searched
   once per query").
     path    the classes whose super types are being searched right now (the Rust Vec is pushed at the
             back, here at the front: only membership is asked); meeting one of them again is
             `bail!("cyclic inheritance …")` = Bail, checked first
     failed  the classes whose search finished with "nothing found" during this query (the key is fixed
             during a query): such a class answers "nothing found" at once, checked second
   then the owner's table; then, only when the provider has an entry for the owner, the owner is pushed
   on the path, the super types are searched in declaration order (`?` propagates a Bail through every
   level, a hit returns through every level) and the owner is popped; an owner under which nothing was
   found is added to [failed].  The set of finished owners is threaded through the whole traversal.
   Recursion over the user-supplied graph: explicit fuel, out of fuel = Bail; the default fuel never
   runs out, for ANY provider, cyclic or not (Theory5: fuel_never_runs_out). *)
Inductive outcome := Found (v : key) | Bail | NotFound (failed : list str).

Fixpoint fold_st (g : list str -> str -> outcome) (failed : list str) (ss : list str) : outcome :=
  match ss with
  | [] => NotFound failed
  | s :: ss' =>
      match g failed s with
      | Found v => Found v
      | Bail => Bail
      | NotFound fl => fold_st g fl ss'
      end
  end.

Fixpoint map_member_fail_m (sel : bclass -> mtable) (fuel : nat) (R : bremap) (I : inh) (k : key)
         (path failed : list str) (owner : str) : outcome :=
  match fuel with
  | O => Bail
  | S f =>
      if existsb (str_eqb owner) path then Bail
      else if existsb (str_eqb owner) failed then NotFound failed
      else
      match declared sel R owner k with
      | Some v => Found v
      | None =>
          match supers I owner with
          | Some ss =>
              match fold_st (fun fl s => map_member_fail_m sel f R I k (owner :: path) fl s) failed ss with
              | NotFound fl => NotFound (owner :: fl)
              | o => o
              end
          | None => NotFound (owner :: failed)
          end
      end
  end.

Definition outcome_res (o : outcome) : res (option key) :=
  match o with Found v => Ok (Some v) | Bail => Err | NotFound _ => Ok None end.

Definition map_member_fail (sel : bclass -> mtable) (fuel : nat) (R : bremap) (I : inh)
           (owner : str) (k : key) : res (option key) :=
  outcome_res (map_member_fail_m sel fuel R I k [] [] owner).

(* map_field / map_method: unchanged name with remapped descriptor when nothing was found *)
Definition map_member (sel : bclass -> mtable) (fuel : nat) (R : bremap) (I : inh)
           (owner : str) (k : key) : res key :=
  match map_member_fail sel fuel R I owner k with
  | Err => Err
  | Ok (Some v) => Ok v
  | Ok None => match b_map_desc R (snd k) with Ok d => Ok (fst k, d) | Err => Err end
  end.

(* enough for every provider: the classes on a path are pairwise distinct keys of the provider
   (Theory5: fuel_never_runs_out) *)
Definition default_fuel (I : inh) : nat := S (length I).

Definition map_field_fail R I o k := map_member_fail b_fields (default_fuel I) R I o k.
Definition map_method_fail R I o k := map_member_fail b_methods (default_fuel I) R I o k.
Definition map_field R I o k := map_member b_fields (default_fuel I) R I o k.
Definition map_method R I o k := map_member b_methods (default_fuel I) R I o k.

(* map_field_ref / map_method_ref_obj: member first, then the class *)
Definition map_field_ref (R : bremap) (I : inh) (c : str) (k : key) : res (str * key) :=
  match map_field R I c k with Ok k' => Ok (b_map_class R c, k') | Err => Err end.
Definition map_method_ref_obj (R : bremap) (I : inh) (c : str) (k : key) : res (str * key) :=
  match map_method R I c k with Ok k' => Ok (b_map_class R c, k') | Err => Err end.
(* map_method_ref: methods of array classes keep name and descriptor *)
Definition map_method_ref (R : bremap) (I : inh) (c : str) (k : key) : res (str * key) :=
  match (if is_array_name c then Ok k else map_method R I c k) with
  | Err => Err
  | Ok k' => match b_map_class_any R c with Ok c' => Ok (c', k') | Err => Err end
  end.

(* ---- descriptor types under a class map (the specification side of map_desc_shape) ---- *)
Definition map_aty (f : str -> str) (a : aty) : aty := match a with AObj n => AObj (f n) | _ => a end.
Definition map_ty (f : str -> str) (t : ty) : ty :=
  match t with
  | TObj n => TObj (f n)
  | TArr d a => TArr d (map_aty f a)
  | _ => t
  end.
Definition map_ret (f : str -> str) (r : option ty) : option ty :=
  match r with Some t => Some (map_ty f t) | None => None end.
Definition map_mty (f : str -> str) (m : list ty * option ty) : list ty * option ty :=
  (map (map_ty f) (fst m), map_ret f (snd m)).

(* ------------------------------------------------------------------ *)
(* JarSuperProv::remap(re, &Vec<JarSuperProv>): per provider a fresh IndexMap; the key and every
   super type go through `re.map_class`; `IndexSet::insert` keeps the first occurrence of a name,
   `IndexMap::insert` on an existing key replaces the value and keeps the position.  A provider is
   the list of its entries in iteration order; the Vec stays a list of providers ([supers] works
   on their concatenation). *)
Fixpoint put_first {V} (k : str) (v : V) (l : list (str * V)) : list (str * V) :=
  match l with
  | [] => [(k, v)]
  | (k', v') :: l' => if str_eqb k k' then (k', v) :: l' else (k', v') :: put_first k v l'
  end.
Definition set_of (l : list str) : list str :=
  fold_left (fun s x => if existsb (str_eqb x) s then s else s ++ [x]) l [].
Definition remap_prov (f : str -> str) (p : inh) : inh :=
  fold_left (fun P e => put_first (f (fst e)) (set_of (map f (snd e))) P) p [].
Definition remap_provs (f : str -> str) (ps : list inh) : list inh := map (remap_prov f) ps.
