(* C06 theory, part 7 (round 5):
   A. the descriptor scanner with a class map that may fail (any implementor of ARemapper)
   B. the default methods of the two traits, one equation per method, and the crate's implementors
      (ARemapperImpl, BRemapperImpl, ARemapperAsBRemapper, NoSuperClassProvider) as instances
   C. JarSuperProv::remap without hypotheses: every key and every listed super type of the result is
      map_class of an original one, whether or not the key itself is mapped
   D. the member tables are sound AND complete w.r.t. the rows: a member row without a name in the
      target namespace contributes nothing, so it cannot hide what a super type declares *)
From FB Require Import C06.ModelT C18.Theory C06.Theory1 C06.Theory2 C06.Theory3 C06.Theory4 C06.Theory5.
From Coq Require Import Arith Lia.
Arguments N.add : simpl never.
Arguments N.eqb : simpl never.

(* ================================================================== *)
(* A. map_desc with a failing class map *)

Lemma map_desc_rf_fuel f : forall k1 k2 s, (length s < k1)%nat -> (length s < k2)%nat ->
  map_desc_rf k1 f s = map_desc_rf k2 f s.
Proof.
  induction k1 as [|k1 IH]; intros k2 s H1 H2; [lia|].
  destruct k2 as [|k2]; [lia|]. cbn [map_desc_rf].
  destruct s as [|c s]; [reflexivity|]. cbn [length] in H1, H2.
  destruct (N.eqb c cL).
  - destruct s as [|c1 s]; [reflexivity|]. destruct (N.eqb c1 cSEMI); [reflexivity|].
    destruct (take_until_semi s) as [[n r]|] eqn:E; [|reflexivity].
    apply take_until_semi_len in E. cbn [length] in H1, H2.
    destruct (f (c1 :: n)); [|reflexivity].
    rewrite (IH k2 r) by lia. reflexivity.
  - rewrite (IH k2 s) by lia. reflexivity.
Qed.

(* a class map that never fails: the scanner of Model.v *)
Lemma map_desc_rf_pure f g : (forall n, f n = Ok (g n)) ->
  forall k s, map_desc_rf k f s = map_desc_f k g s.
Proof.
  intros Hf. induction k as [|k IH]; intros s; cbn [map_desc_rf map_desc_f]; [reflexivity|].
  destruct s as [|c s]; [reflexivity|]. destruct (N.eqb c cL).
  - destruct s as [|c1 s]; [reflexivity|]. destruct (N.eqb c1 cSEMI); [reflexivity|].
    destruct (take_until_semi s) as [[n r]|]; [|reflexivity]. rewrite Hf, IH. reflexivity.
  - rewrite IH. reflexivity.
Qed.

Theorem map_desc_r_pure f g s : (forall n, f n = Ok (g n)) -> map_desc_r f s = map_desc g s.
Proof. intros Hf. unfold map_desc_r, map_desc. apply map_desc_rf_pure. exact Hf. Qed.

(* on ALL strings and ALL (possibly failing) class maps: success exactly on the strings that split
   into copied non-`L` characters and segments `L` name `;` (name non-empty, free of `;`) all of
   whose names the class map answers; exactly those names are replaced *)
Inductive ScanR (f : str -> res str) : str -> str -> Prop :=
| ScanR_nil : ScanR f [] []
| ScanR_copy c s o : c <> cL -> ScanR f s o -> ScanR f (c :: s) (c :: o)
| ScanR_name n n' r o : n <> [] -> ~ In cSEMI n -> f n = Ok n' -> ScanR f r o ->
    ScanR f (cL :: n ++ cSEMI :: r) (cL :: n' ++ cSEMI :: o).

Lemma map_desc_rf_scan f : forall k s o, map_desc_rf k f s = Ok o -> ScanR f s o.
Proof.
  induction k as [|k IH]; intros s o; cbn [map_desc_rf]; [discriminate|].
  destruct s as [|c s]; [intros [= <-]; constructor|].
  destruct (N.eqb_spec c cL) as [->|Hc].
  - destruct s as [|c1 s]; [discriminate|]. destruct (N.eqb_spec c1 cSEMI) as [|Hc1]; [discriminate|].
    destruct (take_until_semi s) as [[n r]|] eqn:E; [|discriminate].
    destruct (f (c1 :: n)) as [n'|] eqn:En; [|discriminate].
    destruct (map_desc_rf k f r) as [o'|] eqn:E2; [|discriminate]. intros [= <-].
    apply take_until_semi_spec in E as [-> Hn].
    change (cL :: c1 :: n ++ cSEMI :: r) with (cL :: (c1 :: n) ++ cSEMI :: r).
    apply ScanR_name; [discriminate| |exact En|apply IH; exact E2].
    intros [H|H]; [congruence|contradiction].
  - destruct (map_desc_rf k f s) as [o'|] eqn:E2; [|discriminate]. intros [= <-].
    apply ScanR_copy; [exact Hc|apply IH; exact E2].
Qed.

Lemma map_desc_r_copy f c s : c <> cL ->
  map_desc_r f (c :: s) = match map_desc_r f s with Ok o => Ok (c :: o) | Err => Err end.
Proof.
  intros Hc. unfold map_desc_r. cbn [length].
  assert (X : forall k, map_desc_rf (S k) f (c :: s) = match map_desc_rf k f s with Ok o => Ok (c :: o) | Err => Err end).
  { intros k. cbn [map_desc_rf]. destruct (N.eqb_spec c cL); [congruence|reflexivity]. }
  rewrite X. reflexivity.
Qed.

Lemma mdrf_L k f c1 s n r : c1 <> cSEMI -> take_until_semi s = Ok (n, r) ->
  map_desc_rf (S k) f (cL :: c1 :: s) =
  match f (c1 :: n) with
  | Err => Err
  | Ok n' => match map_desc_rf k f r with Ok o => Ok (cL :: n' ++ cSEMI :: o) | Err => Err end
  end.
Proof.
  intros Hc E. cbn [map_desc_rf]. replace (N.eqb cL cL) with true by reflexivity.
  destruct (N.eqb_spec c1 cSEMI); [congruence|]. rewrite E. reflexivity.
Qed.

Lemma map_desc_r_L f n r : n <> [] -> ~ In cSEMI n ->
  map_desc_r f (cL :: n ++ cSEMI :: r) =
  match f n with
  | Err => Err
  | Ok n' => match map_desc_r f r with Ok o => Ok (cL :: n' ++ cSEMI :: o) | Err => Err end
  end.
Proof.
  intros Hn Hs. destruct n as [|c1 n]; [congruence|].
  assert (Hc : c1 <> cSEMI) by (intros ->; apply Hs; left; reflexivity).
  assert (E : take_until_semi (n ++ cSEMI :: r) = Ok (n, r)).
  { apply take_until_semi_spec. split; [reflexivity|]. intros H. apply Hs. right. exact H. }
  unfold map_desc_r at 1. cbn [app length]. rewrite (mdrf_L _ f c1 _ n r Hc E).
  destruct (f (c1 :: n)); [|reflexivity].
  unfold map_desc_r. rewrite (map_desc_rf_fuel f _ (S (length r)) r); [reflexivity| |lia].
  rewrite app_length. cbn [length]. lia.
Qed.

Theorem map_desc_r_scan f s o : map_desc_r f s = Ok o <-> ScanR f s o.
Proof.
  split; [apply map_desc_rf_scan|].
  induction 1 as [|c s o Hc _ IH|n n' r o Hn Hs En _ IH].
  - reflexivity.
  - rewrite map_desc_r_copy by exact Hc. rewrite IH. reflexivity.
  - rewrite map_desc_r_L by assumption. rewrite En, IH. reflexivity.
Qed.

(* a failing class map can only turn an answer into Err, never change it *)
Theorem map_desc_r_erase f s o : map_desc_r f s = Ok o ->
  map_desc (fun n => match f n with Ok x => x | Err => n end) s = Ok o.
Proof.
  intros H. apply map_desc_r_scan in H. apply map_desc_scan.
  induction H as [|c s o Hc _ IH|n n' r o Hn Hs En _ IH]; [constructor|constructor; assumption|].
  pose proof (Scan_name (fun n => match f n with Ok x => x | Err => n end) n r o Hn Hs IH) as X.
  cbv beta in X. rewrite En in X. exact X.
Qed.

(* ================================================================== *)
(* B. the default methods *)

(* ARemapper::map_class for ANY implementor: Err is handed on, a mapping is answered, and a class
   without a mapping is answered UNCHANGED, whatever its shape (`Outer$Inner`, `a/b`, one character) *)
Theorem t_map_class_spec (mcf : mcf_t) c :
  (mcf c = Err -> t_map_class mcf c = Err) /\
  (forall x, mcf c = Ok (Some x) -> t_map_class mcf c = Ok x) /\
  (mcf c = Ok None -> t_map_class mcf c = Ok c).
Proof. unfold t_map_class. repeat split; [intros ->|intros x ->|intros ->]; reflexivity. Qed.

(* and conversely: an answer of map_class is the answer of map_class_fail or the argument itself *)
Theorem t_map_class_inv (mcf : mcf_t) c x : t_map_class mcf c = Ok x ->
  mcf c = Ok (Some x) \/ (mcf c = Ok None /\ x = c).
Proof.
  unfold t_map_class. destruct (mcf c) as [[y|]|]; [intros [= ->]; left; reflexivity|intros [= <-]; right; auto|discriminate].
Qed.

(* the model's map_class of both implementors is that default method; written out *)
Theorem map_class_default :
  (forall T c, a_map_class T c = match a_map_class_fail T c with Some x => x | None => c end) /\
  (forall R c, b_map_class R c = match b_map_class_fail R c with Some x => x | None => c end).
Proof. split; reflexivity. Qed.

(* ARemapperImpl: every default method of ARemapper *)
Theorem a_defaults T x :
  t_map_class (a_mcf T) x = Ok (a_map_class T x) /\
  t_map_desc (a_mcf T) x = a_map_desc T x /\
  t_map_class_any (a_mcf T) x = a_map_class_any T x.
Proof.
  assert (E : forall n, t_map_class (a_mcf T) n = Ok (a_map_class T n)).
  { intros n. unfold t_map_class, a_mcf, a_map_class. destruct (a_map_class_fail T n); reflexivity. }
  assert (D : forall d, t_map_desc (a_mcf T) d = a_map_desc T d).
  { intros d. unfold t_map_desc, a_map_desc. apply map_desc_r_pure. exact E. }
  split; [apply E|]. split; [apply D|].
  unfold t_map_class_any, a_map_class_any. rewrite D, E. reflexivity.
Qed.

(* BRemapperImpl: every default method of ARemapper and of BRemapper *)
Theorem b_defaults R I x o k :
  t_map_class (b_mcf R) x = Ok (b_map_class R x) /\
  t_map_desc (b_mcf R) x = b_map_desc R x /\
  t_map_class_any (b_mcf R) x = b_map_class_any R x /\
  t_map_member (b_mcf R) (map_field_fail R I) o k = map_field R I o k /\
  t_map_member (b_mcf R) (map_method_fail R I) o k = map_method R I o k /\
  t_map_member_ref (b_mcf R) (map_field_fail R I) o k = map_field_ref R I o k /\
  t_map_member_ref (b_mcf R) (map_method_fail R I) o k = map_method_ref_obj R I o k /\
  t_map_method_ref (b_mcf R) (map_method_fail R I) o k = map_method_ref R I o k.
Proof.
  assert (E : forall n, t_map_class (b_mcf R) n = Ok (b_map_class R n)).
  { intros n. unfold t_map_class, b_mcf, b_map_class. destruct (b_map_class_fail R n); reflexivity. }
  assert (D : forall d, t_map_desc (b_mcf R) d = b_map_desc R d).
  { intros d. unfold t_map_desc, b_map_desc. apply map_desc_r_pure. exact E. }
  assert (A : forall c, t_map_class_any (b_mcf R) c = b_map_class_any R c).
  { intros c. unfold t_map_class_any, b_map_class_any. rewrite D, E. reflexivity. }
  assert (F : t_map_member (b_mcf R) (map_field_fail R I) o k = map_field R I o k).
  { unfold t_map_member, map_field, map_member, map_field_fail. rewrite D.
    destruct (map_member_fail b_fields (default_fuel I) R I o k) as [[v|]|]; reflexivity. }
  assert (G : t_map_member (b_mcf R) (map_method_fail R I) o k = map_method R I o k).
  { unfold t_map_member, map_method, map_member, map_method_fail. rewrite D.
    destruct (map_member_fail b_methods (default_fuel I) R I o k) as [[v|]|]; reflexivity. }
  split; [apply E|]. split; [apply D|]. split; [apply A|]. split; [exact F|]. split; [exact G|].
  split; [|split].
  - unfold t_map_member_ref, map_field_ref. rewrite F, E. destruct (map_field R I o k); reflexivity.
  - unfold t_map_member_ref, map_method_ref_obj. rewrite G, E. destruct (map_method R I o k); reflexivity.
  - unfold t_map_method_ref, map_method_ref. rewrite G, A. reflexivity.
Qed.

(* ARemapperAsBRemapper over ANY ARemapper: no member is ever found; map_field / map_method keep the
   name and rewrite the descriptor; the *_ref methods additionally map the class *)
Theorem wrapper_defaults (mcf : mcf_t) o k :
  no_members o k = Ok None /\
  t_map_member mcf no_members o k =
    match t_map_desc mcf (snd k) with Ok d => Ok (fst k, d) | Err => Err end /\
  t_map_member_ref mcf no_members o k =
    match t_map_desc mcf (snd k) with
    | Ok d => match t_map_class mcf o with Ok c' => Ok (c', (fst k, d)) | Err => Err end
    | Err => Err
    end /\
  t_map_method_ref mcf no_members o k =
    match (if is_array_name o then Ok k else match t_map_desc mcf (snd k) with Ok d => Ok (fst k, d) | Err => Err end) with
    | Ok k' => match t_map_class_any mcf o with Ok c' => Ok (c', k') | Err => Err end
    | Err => Err
    end.
Proof.
  split; [reflexivity|]. split; [reflexivity|]. split.
  - unfold t_map_member_ref, t_map_member, no_members. destruct (t_map_desc mcf (snd k)); reflexivity.
  - reflexivity.
Qed.

(* NoSuperClassProvider: only the owner's own table is consulted *)
Theorem no_supers_spec sel R c k :
  map_member_fail sel (default_fuel no_supers) R no_supers c k = Ok (declared sel R c k) /\
  map_member sel (default_fuel no_supers) R no_supers c k =
    match declared sel R c k with
    | Some v => Ok v
    | None => match b_map_desc R (snd k) with Ok d => Ok (fst k, d) | Err => Err end
    end.
Proof.
  unfold map_member, map_member_fail, default_fuel, no_supers.
  cbn [length map_member_fail_m existsb supers outcome_res].
  destruct (declared sel R c k); split; reflexivity.
Qed.

(* Vec<S: SuperClassProvider>: the first provider that knows the class answers *)
Theorem supers_app p1 p2 c :
  supers (p1 ++ p2) c = match supers p1 c with Some ss => Some ss | None => supers p2 c end.
Proof.
  induction p1 as [|[k ss] p1 IH]; cbn [app supers]; [reflexivity|].
  destruct (str_eqb c k); [reflexivity|exact IH].
Qed.

(* ================================================================== *)
(* C. JarSuperProv::remap *)

Lemma NoDup_snoc {A} (l : list A) x : NoDup l -> ~ In x l -> NoDup (l ++ [x]).
Proof.
  induction l as [|y l IH]; cbn [app]; intros Hn Hx; [constructor; [intros []|constructor]|].
  inversion Hn as [|? ? Hy Hn']; subst. constructor.
  - rewrite in_app_iff. intros [H|[H|[]]]; [contradiction|]. subst. apply Hx. left. reflexivity.
  - apply IH; [exact Hn'|]. intros H. apply Hx. right. exact H.
Qed.

Lemma set_of_acc l : forall acc,
  let r := fold_left (fun s x => if existsb (str_eqb x) s then s else s ++ [x]) l acc in
  (forall x, In x r <-> In x acc \/ In x l) /\ (NoDup acc -> NoDup r).
Proof.
  induction l as [|y l IH]; intros acc; cbn [fold_left].
  - split; [intros x; split; [auto|intros [H|[]]; exact H]|auto].
  - destruct (existsb (str_eqb y) acc) eqn:E.
    + destruct (IH acc) as [H1 H2]. split; [|exact H2]. intros x. rewrite H1. cbn [In].
      apply existsb_str in E. split; [intros [H|H]; auto|intros [H|[<-|H]]; auto].
    + destruct (IH (acc ++ [y])) as [H1 H2]. split.
      * intros x. rewrite H1, in_app_iff. cbn [In]. tauto.
      * intros Hn. apply H2. apply NoDup_snoc; [exact Hn|].
        intros Hin. apply existsb_str in Hin. congruence.
Qed.

(* IndexSet built by insert: the same elements, none twice *)
Theorem set_of_spec l : (forall x, In x (set_of l) <-> In x l) /\ NoDup (set_of l).
Proof.
  destruct (set_of_acc l []) as [H1 H2]. split; [|apply H2; constructor].
  intros x. unfold set_of. rewrite H1. cbn [In]. tauto.
Qed.

Lemma supers_put_first (k : str) (v : list str) (l : inh) c :
  supers (put_first k v l) c = if str_eqb c k then Some v else supers l c.
Proof.
  induction l as [|[k' v'] l IH]; cbn [put_first supers].
  - destruct (str_eqb c k); reflexivity.
  - destruct (str_eqb_spec k k') as [->|Hne]; cbn [supers].
    + destruct (str_eqb c k'); reflexivity.
    + destruct (str_eqb_spec c k') as [->|Hc].
      * destruct (str_eqb_spec k' k) as [->|_]; [congruence|reflexivity].
      * exact IH.
Qed.

Lemma put_first_keys (k : str) (v : list str) (l : inh) :
  NoDup (map fst l) -> NoDup (map fst (put_first k v l)) /\
  (forall x, In x (map fst (put_first k v l)) <-> x = k \/ In x (map fst l)).
Proof.
  induction l as [|[k' v'] l IH]; cbn [put_first map fst]; intros Hn.
  - split; [constructor; [intros []|constructor]|]. intros x. cbn [In]. split; [intros [<-|[]]; auto|intros [->|[]]; auto].
  - inversion Hn as [|? ? Hnot Hn']; subst.
    destruct (str_eqb_spec k k') as [->|Hne]; cbn [map fst].
    + split; [exact Hn|]. intros x. cbn [In]. split; [intros [H|H]; auto|intros [->|[H|H]]; auto].
    + destruct (IH Hn') as [H1 H2]. split.
      * constructor; [|exact H1]. intros Hin. apply H2 in Hin as [->|Hin]; [congruence|contradiction].
      * intros x. cbn [In]. rewrite H2. split; [intros [H|[H|H]]; auto|intros [H|[H|H]]; auto].
Qed.

(* the entries of the result, for ANY class map and ANY provider: the result knows a class k' exactly
   when some entry's key maps to k'; the LAST such entry answers (IndexMap::insert replaces), with
   every one of its super types mapped (first occurrences kept) *)
Definition remap_entries (f : str -> str) (p : inh) : inh :=
  map (fun e => (f (fst e), set_of (map f (snd e)))) p.

Lemma remap_prov_acc f p : forall acc c,
  supers (fold_left (fun P e => put_first (f (fst e)) (set_of (map f (snd e))) P) p acc) c =
  match get_last str_eqb c (remap_entries f p) with Some v => Some v | None => supers acc c end.
Proof.
  induction p as [|e p IH]; intros acc c; cbn [fold_left remap_entries map get_last]; [reflexivity|].
  rewrite IH. fold (remap_entries f p).
  destruct (get_last str_eqb c (remap_entries f p)); [reflexivity|].
  rewrite supers_put_first. cbn [fst snd]. destruct (str_eqb c (f (fst e))); reflexivity.
Qed.

Theorem remap_prov_supers f p c :
  supers (remap_prov f p) c = get_last str_eqb c (remap_entries f p).
Proof.
  unfold remap_prov. rewrite remap_prov_acc. cbn [supers].
  destruct (get_last str_eqb c (remap_entries f p)); reflexivity.
Qed.

Lemma remap_prov_keys_acc f (p : inh) : forall acc : inh, NoDup (map fst acc) ->
  let r : inh := fold_left (fun (P : inh) (e : str * list str) => put_first (f (fst e)) (set_of (map f (snd e))) P) p acc in
  NoDup (map fst r) /\ (forall x, In x (map fst r) <-> In x (map fst acc) \/ In x (map f (map fst p))).
Proof.
  induction p as [|e p IH]; intros acc Hn; cbn [fold_left map].
  - split; [exact Hn|]. intros x. cbn [In]. tauto.
  - destruct (put_first_keys (f (fst e)) (set_of (map f (snd e))) acc Hn) as [H1 H2].
    destruct (IH _ H1) as [H3 H4]. split; [exact H3|].
    intros x. rewrite H4, H2. cbn [In]. split; [intros [[->|H]|H]; auto|intros [H|[<-|H]]; auto].
Qed.

(* the keys of the result: pairwise distinct, and exactly the mapped keys *)
Theorem remap_prov_keys f p :
  NoDup (map fst (remap_prov f p)) /\ (forall x, In x (map fst (remap_prov f p)) <-> In x (map f (map fst p))).
Proof.
  destruct (remap_prov_keys_acc f p [] (NoDup_nil _)) as [H1 H2]. split; [exact H1|].
  intros x. unfold remap_prov. rewrite H2. cbn [map In]. tauto.
Qed.

Lemma supers_iff_In I c ss : NoDup (map fst I) -> (supers I c = Some ss <-> In (c, ss) I).
Proof.
  intros Hn. split; [apply supers_In|].
  induction I as [|[k v] I IH]; intros Hin; [destruct Hin|]. cbn [supers].
  cbn [map fst] in Hn. inversion Hn as [|? ? Hnot Hn']; subst.
  destruct Hin as [[= -> ->]|Hin]; [rewrite str_eqb_refl; reflexivity|].
  destruct (str_eqb_spec c k) as [->|_]; [|apply IH; assumption].
  exfalso. apply Hnot. apply in_map_iff. exists (k, ss). auto.
Qed.

(* EVERY entry of the result is an original entry with its key and every listed super type sent
   through the class map — whether or not the key itself has a mapping *)
Theorem remap_prov_entries f p k' ss' : In (k', ss') (remap_prov f p) ->
  exists k ss, In (k, ss) p /\ k' = f k /\ ss' = set_of (map f ss) /\
    (forall x, In x ss' <-> In x (map f ss)).
Proof.
  intros Hin. apply supers_iff_In in Hin; [|apply remap_prov_keys].
  rewrite remap_prov_supers in Hin. apply (get_last_In str_eqb) in Hin; [|apply str_eqb_ok].
  unfold remap_entries in Hin. apply in_map_iff in Hin as ([k ss] & [= <- <-] & He). cbn [fst snd].
  exists k, ss. split; [exact He|]. split; [reflexivity|]. split; [reflexivity|]. apply set_of_spec.
Qed.

(* and every original entry is answered: under the mapped key the result lists the mapped super
   types of the entry (of the last entry whose key maps to the same name, when the class map is not
   injective on the keys) *)
Theorem remap_prov_complete f p k ss : In (k, ss) p ->
  exists k2 ss2, In (k2, ss2) p /\ f k2 = f k /\ supers (remap_prov f p) (f k) = Some (set_of (map f ss2)).
Proof.
  intros Hin. rewrite remap_prov_supers.
  destruct (get_last str_eqb (f k) (remap_entries f p)) as [v|] eqn:E.
  - apply (get_last_In str_eqb) in E; [|apply str_eqb_ok].
    unfold remap_entries in E. apply in_map_iff in E as ([k2 ss2] & [= E1 <-] & He). cbn [fst snd] in *.
    exists k2, ss2. auto.
  - exfalso. apply (get_last_None str_eqb) in E; [|apply str_eqb_ok]. apply E.
    unfold remap_entries. rewrite map_map. cbn [fst]. apply in_map_iff. exists (k, ss). auto.
Qed.

Theorem remap_prov_entry f p k ss :
  NoDup (map fst p) -> (forall a, In a (map fst p) -> f a = f k -> a = k) -> In (k, ss) p ->
  supers (remap_prov f p) (f k) = Some (set_of (map f ss)).
Proof.
  intros Hn Hf Hin. destruct (remap_prov_complete f p k ss Hin) as (k2 & ss2 & H2 & E & ->).
  assert (k2 = k) by (apply Hf; [apply in_map_iff; exists (k2, ss2); auto|exact E]). subst k2.
  assert (X : supers p k = Some ss2) by (apply supers_iff_In; assumption).
  assert (Y : supers p k = Some ss) by (apply supers_iff_In; assumption).
  rewrite X in Y. injection Y as ->. reflexivity.
Qed.

(* a remapper whose map_class may fail: Err exactly when some name of the providers fails, else the
   answer of the total model *)
Lemma map_res_pure {A B} (g : A -> B) l : map_res (fun x => Ok (g x)) l = Ok (map g l).
Proof. induction l as [|x l IH]; cbn [map_res map]; [reflexivity|]. rewrite IH. reflexivity. Qed.

Lemma map_res_ext {A B} (f1 f2 : A -> res B) l : (forall x, In x l -> f1 x = f2 x) -> map_res f1 l = map_res f2 l.
Proof.
  induction l as [|x l IH]; intros H; cbn [map_res]; [reflexivity|].
  rewrite (H x (or_introl eq_refl)), IH; [reflexivity|]. intros y Hy. apply H. right. exact Hy.
Qed.

Lemma map_res_err {A B} (f : A -> res B) l : map_res f l = Err <-> exists x, In x l /\ f x = Err.
Proof.
  induction l as [|x l IH]; cbn [map_res].
  - split; [discriminate|intros (x & [] & _)].
  - destruct (f x) as [y|] eqn:E.
    + destruct (map_res f l) as [ys|].
      * split; [discriminate|]. intros (z & [<-|Hz] & Ez); [congruence|].
        assert (X : Ok ys = Err) by (apply IH; exists z; auto). discriminate.
      * split; [|reflexivity]. intros _. destruct (proj1 IH eq_refl) as (z & Hz & Ez). exists z. split; [right; exact Hz|exact Ez].
    + split; [|reflexivity]. intros _. exists x. split; [left; reflexivity|exact E].
Qed.

Lemma fold_left_map {A B C} (h : A -> B -> A) (m : C -> B) l : forall a,
  fold_left h (map m l) a = fold_left (fun a x => h a (m x)) l a.
Proof. induction l as [|x l IH]; intros a; cbn [map fold_left]; [reflexivity|]. apply IH. Qed.

Theorem remap_provs_r_pure f g ps : (forall n, f n = Ok (g n)) -> remap_provs_r f ps = Ok (remap_provs g ps).
Proof.
  intros Hf. unfold remap_provs_r, remap_provs.
  rewrite (map_res_ext _ (fun p => Ok (remap_prov g p))); [apply map_res_pure|].
  intros p _. unfold remap_prov_r, remap_prov.
  rewrite (map_res_ext _ (fun e => Ok (g (fst e), map g (snd e)))).
  - rewrite map_res_pure, fold_left_map. reflexivity.
  - intros e _. rewrite (map_res_ext _ (fun x => Ok (g x))) by (intros; apply Hf).
    rewrite map_res_pure, Hf. reflexivity.
Qed.

Theorem remap_provs_r_err f ps :
  remap_provs_r f ps = Err <->
  exists p e n, In p ps /\ In e p /\ (n = fst e \/ In n (snd e)) /\ f n = Err.
Proof.
  unfold remap_provs_r. rewrite map_res_err. split.
  - intros (p & Hp & E). unfold remap_prov_r in E.
    destruct (map_res _ p) as [es|] eqn:E1; [discriminate|].
    apply map_res_err in E1 as (e & He & E2).
    destruct (map_res f (snd e)) as [ss|] eqn:E3.
    + destruct (f (fst e)) eqn:E4; [discriminate|]. exists p, e, (fst e). auto.
    + apply map_res_err in E3 as (n & Hn & En). exists p, e, n. auto.
  - intros (p & e & n & Hp & He & Hn & En). exists p. split; [exact Hp|].
    unfold remap_prov_r.
    assert (X : map_res (fun e => match map_res f (snd e) with
                          | Err => Err
                          | Ok ss => match f (fst e) with Ok k => Ok (k, ss) | Err => Err end
                          end) p = Err).
    { apply map_res_err. exists e. split; [exact He|].
      destruct (map_res f (snd e)) as [ss|] eqn:E3; [|reflexivity].
      destruct Hn as [->|Hn]; [rewrite En; reflexivity|].
      exfalso. assert (Y : map_res f (snd e) = Err) by (apply map_res_err; exists n; auto). congruence. }
    rewrite X. reflexivity.
Qed.

(* ================================================================== *)
(* D. the member tables: sound and complete *)

(* the table [cl] registered under [a] is the table of the class row [c]: names of the row, and its
   member entries are EXACTLY the member rows that carry a name in `from` AND a name in `to` (with
   the row's descriptor expressed 0 -> from / 0 -> to) *)
Definition table_of_row (M : mappings) (from to : nat) (c : class) (a : str) (cl : bclass) : Prop :=
  row_has from to a (b_name cl) c /\
  (forall kf kt, In (kf, kt) (b_fields cl) <->
     exists f, In f (c_fields c) /\ entry_of_row M from to (f_desc f) (f_names f) kf kt) /\
  (forall kf kt, In (kf, kt) (b_methods cl) <->
     exists m, In m (c_methods c) /\ entry_of_row M from to (m_desc m) (m_names m) kf kt).

Lemma collect_members_iff {A} (dsc : A -> str) (nms : A -> names) M from to l tbl :
  collect (fun m => member_entry (remapper_a M 0 from) (remapper_a M 0 to) from to (dsc m) (nms m)) l = Ok tbl ->
  forall kf kt, In (kf, kt) tbl <-> exists x, In x l /\ entry_of_row M from to (dsc x) (nms x) kf kt.
Proof.
  intros Hc kf kt. split.
  - intros Hk. destruct (collect_in_inv _ _ _ _ Hc Hk) as (x & q & Hx & Eq & Hq).
    exists x. split; [exact Hx|]. exact (member_entry_inv _ _ _ _ _ _ _ _ _ Eq Hq).
  - intros (x & Hx & Ef & Et & Edf & Edt). destruct kf as [nf df], kt as [nt dt]. cbn [fst snd] in *.
    exact (member_table_In dsc nms _ _ _ _ _ _ _ _ _ _ _ Hc Hx Ef Et Edf Edt).
Qed.

Theorem tables_sound_complete M from to R : remapper_b M from to = Ok R ->
  (forall a cl, In (a, cl) R -> exists c, In c (ms_classes M) /\ table_of_row M from to c a cl) /\
  (forall c a b, In c (ms_classes M) -> row_has from to a b c ->
     exists cl, In (a, cl) R /\ b_name cl = b /\ table_of_row M from to c a cl).
Proof.
  intros HR. split.
  - intros a cl Hin. unfold remapper_b in HR.
    destruct (collect_in_inv _ _ _ _ HR Hin) as (c & p & Hc & Ep & Hp).
    exists c. split; [exact Hc|]. unfold class_entry in Ep.
    destruct (nth_name (c_names c) from) as [a'|] eqn:Ea; [|injection Ep as <-; destruct Hp].
    destruct (nth_name (c_names c) to) as [b'|] eqn:Eb; [|injection Ep as <-; destruct Hp].
    destruct (collect _ (c_fields c)) as [fs|] eqn:Ef; [|discriminate].
    destruct (collect _ (c_methods c)) as [ms|] eqn:Em; [|discriminate].
    injection Ep as <-. destruct Hp as [[= <- <-]|[]]. unfold table_of_row. cbn [b_name b_fields b_methods].
    split; [split; assumption|]. split.
    + apply (collect_members_iff f_desc f_names). exact Ef.
    + apply (collect_members_iff m_desc m_names). exact Em.
  - intros c a b Hc Hrow.
    destruct (remapper_b_class_In _ _ _ _ _ _ _ HR Hc Hrow) as (fs & ms & Ef & Em & Hin).
    exists (mkB b fs ms). split; [exact Hin|]. split; [reflexivity|].
    unfold table_of_row. cbn [b_name b_fields b_methods]. split; [exact Hrow|]. split.
    + apply (collect_members_iff f_desc f_names). exact Ef.
    + apply (collect_members_iff m_desc m_names). exact Em.
Qed.

(* A member row without a name in the target namespace is NOT in the table: when every row of the
   classes named [a] that matches the key has no target name, the class declares nothing for the key
   (so the search goes on to its super types — the row does not hide an inherited name) *)
Theorem no_target_not_declared_field M from to R a k : remapper_b M from to = Ok R ->
  (forall c f, In c (ms_classes M) -> nth_name (c_names c) from = Some a -> In f (c_fields c) ->
     nth_name (f_names f) from = Some (fst k) -> a_map_desc (remapper_a M 0 from) (f_desc f) = Ok (snd k) ->
     nth_name (f_names f) to = None) ->
  declared b_fields R a k = None.
Proof.
  intros HR H. destruct (declared b_fields R a k) as [v|] eqn:E; [exfalso|reflexivity].
  destruct (declared_In _ _ _ _ _ E) as (cl & Hcl & Hk).
  destruct (proj1 (tables_sound_complete _ _ _ _ HR) _ _ Hcl) as (c & Hc & [Ea _] & Hf & _).
  destruct (proj1 (Hf _ _) Hk) as (f & Hfin & Enf & Ent & Edf & _).
  rewrite (H c f Hc Ea Hfin Enf Edf) in Ent. discriminate.
Qed.

Theorem no_target_not_declared_method M from to R a k : remapper_b M from to = Ok R ->
  (forall c m, In c (ms_classes M) -> nth_name (c_names c) from = Some a -> In m (c_methods c) ->
     nth_name (m_names m) from = Some (fst k) -> a_map_desc (remapper_a M 0 from) (m_desc m) = Ok (snd k) ->
     nth_name (m_names m) to = None) ->
  declared b_methods R a k = None.
Proof.
  intros HR H. destruct (declared b_methods R a k) as [v|] eqn:E; [exfalso|reflexivity].
  destruct (declared_In _ _ _ _ _ E) as (cl & Hcl & Hk).
  destruct (proj1 (tables_sound_complete _ _ _ _ HR) _ _ Hcl) as (c & Hc & [Ea _] & _ & Hm).
  destruct (proj1 (Hm _ _) Hk) as (m & Hmin & Enf & Ent & Edf & _).
  rewrite (H c m Hc Ea Hmin Enf Edf) in Ent. discriminate.
Qed.

(* the search then answers what the super types answer *)
Theorem undeclared_owner_inherits sel R I rank c k : acyclic_rank I rank -> declared sel R c k = None ->
  map_member_fail sel (default_fuel I) R I c k =
    Ok (first_declaring (fun x => declared sel R x k) (tl (preorder I c))).
Proof.
  intros Ha Hd. rewrite (proj1 (map_member_spec sel R I rank c k Ha)).
  destruct (preorder_head I c) as (l & ->). cbn [first_declaring tl]. rewrite Hd. reflexivity.
Qed.

(* ================================================================== *)
(* E. the specification side is not truncated: on an acyclic provider [preorder] is the depth-first
   pre-order itself (a fuel-free recursive equation), and more fuel lists the same types *)
Theorem preorder_unfold I rank c : acyclic_rank I rank ->
  preorder I c = c :: match supers I c with Some ss => flat_map (preorder I) ss | None => [] end.
Proof.
  intros Ha. unfold preorder at 1. unfold default_fuel. cbn [dfs_pre].
  destruct (supers I c) as [ss|] eqn:E; [|reflexivity]. f_equal.
  pose proof (acyclic_fuel I rank c Ha) as Hb. unfold default_fuel in Hb. cbn [bounded] in Hb. rewrite E in Hb.
  rewrite forallb_forall in Hb. clear E.
  induction ss as [|s ss IH]; cbn [flat_map]; [reflexivity|]. f_equal.
  - unfold preorder, default_fuel. symmetry.
    apply (bounded_mono I (length I) (S (length I)) s); [apply Hb; left; reflexivity|lia].
  - apply IH. intros x Hx. apply Hb. right. exact Hx.
Qed.

Theorem preorder_fuel I rank c f : acyclic_rank I rank -> (default_fuel I <= f)%nat -> dfs_pre f I c = preorder I c.
Proof.
  intros Ha Hle. unfold preorder. apply (bounded_mono I (default_fuel I) f c); [apply (acyclic_fuel I rank c Ha)|exact Hle].
Qed.

(* ================================================================== *)
(* examples (non-vacuity) *)
From Coq Require Import String Ascii.

(* Sub has a row for m with a source name and NO target name; Base.m -> n; Sub extends Base.
   U$1 is an unmapped class whose outer class U is mapped; V (unmapped) extends Base. *)
Definition r5_M : mappings :=
  mkMappings [s2l "x"; s2l "y"] None
    [ mkClass [Some (s2l "Sub"); Some (s2l "SubY")] None
        [mkField (s2l "I") [Some (s2l "f"); None] None]
        [mkMeth (s2l "()V") [Some (s2l "m"); None] None []];
      mkClass [Some (s2l "Base"); Some (s2l "BaseY")] None
        [mkField (s2l "I") [Some (s2l "f"); Some (s2l "g")] None]
        [mkMeth (s2l "()V") [Some (s2l "m"); Some (s2l "n")] None []];
      mkClass [Some (s2l "U"); Some (s2l "p/Outer")] None [] [] ].
Definition r5_I : inh := [(s2l "Sub", [s2l "Base"]); (s2l "V", [s2l "Base"; s2l "U$1"])].
Definition r5_R : bremap := match remapper_b r5_M 0 1 with Ok R => R | Err => [] end.
Definition r5_bad (c : str) : res str := if str_eqb c (s2l "bad") then Err else Ok c.

Definition round5_examples : Prop :=
  remapper_b r5_M 0 1 = Ok r5_R /\ acyclic_dec r5_I = true /\
  (* the row without a target name is absent from Sub's tables, and does not hide Base's names *)
  declared b_methods r5_R (s2l "Sub") (s2l "m", s2l "()V") = None /\
  declared b_fields r5_R (s2l "Sub") (s2l "f", s2l "I") = None /\
  map_method r5_R r5_I (s2l "Sub") (s2l "m", s2l "()V") = Ok (s2l "n", s2l "()V") /\
  map_field r5_R r5_I (s2l "Sub") (s2l "f", s2l "I") = Ok (s2l "g", s2l "I") /\
  (* an unmapped inner class of a mapped outer class stays as it is, everywhere *)
  b_map_class_fail r5_R (s2l "U$1") = None /\ b_map_class r5_R (s2l "U$1") = s2l "U$1" /\
  b_map_class r5_R (s2l "U") = s2l "p/Outer" /\
  b_map_desc r5_R (s2l "(LU$1;[LU;)LU$1;") = Ok (s2l "(LU$1;[Lp/Outer;)LU$1;") /\
  b_map_class_any r5_R (s2l "[[LU$1;") = Ok (s2l "[[LU$1;") /\
  (* JarSuperProv::remap: the entry of the unmapped V has its mapped super type renamed *)
  remap_provs (b_map_class r5_R) [r5_I] =
    [[(s2l "SubY", [s2l "BaseY"]); (s2l "V", [s2l "BaseY"; s2l "U$1"])]] /\
  (* ... so the way back finds Base's member from V *)
  map_method (swap_b r5_R) (List.concat (remap_provs (b_map_class r5_R) [r5_I])) (s2l "V") (s2l "n", s2l "()V")
    = Ok (s2l "m", s2l "()V") /\
  (* two keys that map to one name: the last entry answers, super types deduplicated *)
  remap_prov (fun _ => s2l "X") [(s2l "A", [s2l "B"; s2l "C"]); (s2l "D", [s2l "E"])] = [(s2l "X", [s2l "X"])] /\
  (* a failing class map *)
  map_desc_r r5_bad (s2l "(LA;Lbad;)V") = Err /\ map_desc_r r5_bad (s2l "(LA;Lgood;)V") = Ok (s2l "(LA;Lgood;)V") /\
  remap_provs_r r5_bad [[(s2l "A", [s2l "bad"])]] = Err /\
  remap_provs_r r5_bad [[(s2l "A", [s2l "B"; s2l "B"])]] = Ok [[(s2l "A", [s2l "B"])]] /\
  (* NoSuperClassProvider: Sub's inherited member is not found *)
  map_method r5_R no_supers (s2l "Sub") (s2l "m", s2l "()V") = Ok (s2l "m", s2l "()V").

Lemma round5_examples_hold : round5_examples.
Proof. unfold round5_examples. repeat (split; [vm_compute; reflexivity|]). vm_compute. reflexivity. Qed.
