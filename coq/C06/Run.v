(* C06 correspondence cases: a mapping set, two namespaces, a super-class provider and a list
   of queries, each with what the implementation answered. *)
From FB Require Export C06.Model C06.ModelT.
From FB Require Import C06.Theory2 C06.Theory3 C06.Theory4 C06.Theory5.

Definition key3 := (str * (str * str))%type.   (* class, (name, descriptor) *)

Inductive query :=
| QClass (c : str) (r : str)                                  (* ARemapper::map_class *)
| QClassFail (c : str) (r : option str)                       (* map_class_fail *)
| QClassAny (c : str) (r : res str)                           (* map_class_any *)
| QDesc (d : str) (r : res str)                               (* map_field_desc / map_method_desc / map_return_desc *)
| QFieldFail (o : str) (k : key) (r : res (option key))       (* BRemapper::map_field_fail *)
| QMethodFail (o : str) (k : key) (r : res (option key))
| QField (o : str) (k : key) (r : res key)                    (* map_field *)
| QMethod (o : str) (k : key) (r : res key)                   (* map_method / map_method_name_and_desc *)
| QFieldRef (o : str) (k : key) (r : res key3)                (* map_field_ref *)
| QMethodRef (o : str) (k : key) (r : res key3)               (* map_method_ref (class may be an array) *)
| QMethodRefObj (o : str) (k : key) (r : res key3)            (* map_method_ref_obj *)
| QClassR (c : str) (r : res str)                             (* map_class of an implementor that may fail *)
| QClassFailR (c : str) (r : res (option str)).               (* map_class_fail of such an implementor *)

(* one member query there and back: field / method, inside = the harness' own evaluation of the
   hypotheses of C06_roundtrip_inherited says the query is inside them *)
Inductive rtq := RT (meth inside : bool) (o : str) (k : key) (there back : res (str * (str * str))).

Inductive case :=
| CDesc (T : atable) (d : str) (r : res str)
    (* map_desc through a hand-written ARemapper whose map_class_fail is the table T *)
| CA (M : mappings) (from to : N) (qs : list query)
    (* Mappings::remapper_a(from, to) and queries against it *)
| CT (T : atable) (bad : list str) (qs : list query) (ps : list inh) (ps' : res (list inh))
    (* round 5: the traits as such.  A hand-written ARemapper (map_class_fail = Err on the names of bad, else the
       first pair of T), wrapped in ARemapperAsBRemapper: every default method of ARemapper and BRemapper answered
       through the trait model (ModelT.v), with Err handed on; ps' = JarSuperProv::remap(that remapper, ps) *)
| CN (M : mappings) (from to : N) (qs : list query)
    (* round 5: Mappings::remapper_b(from, to, NoSuperClassProvider::new()) and queries against it *)
| CB (hyp coh : bool) (M : mappings) (from to : N) (ps : list inh) (qa : list query) (built : bool) (qs : list query)
     (ps' : list inh) (rts : list rtq).
    (* ps: the entry lists of the Vec<JarSuperProv>, one list per provider (the search sees their
       concatenation).  qa: answers of Mappings::remapper_a(from, to); then
       Mappings::remapper_b(from, to, &ps), built = false when it returned Err, and the answers to qs.
       hyp = true: the generator claims the world satisfies the decidable hypotheses of the theorems
       (acyclic provider, rows_valid, tables_inj in both directions, names_valid); the model re-checks them.
       coh = true: the harness' own evaluation says the world is inside the structural hypothesis of
       C06_field_desc_coherent / C06_method_desc_coherent (complete_world); the model re-checks that too.
       Providers of other worlds may be cyclic: the search then answers Err where it meets a class that is
       already on its path (map_member_fail_p), in the implementation and in the model alike.
       ps': what JarSuperProv::remap(forward remapper, ps) returned, per provider; rts: member
       queries sent X -> Y through the forward remapper and the answer sent Y -> X through
       Mappings::remapper_b(to, from, &ps'), with both answers (empty when a remapper was not built) *)

Definition okey_eqb := opt_eqb key_eqb.
Definition key3_eqb (a b : key3) : bool := str_eqb (fst a) (fst b) && key_eqb (snd a) (snd b).

(* any implementor, through the default methods of the traits (ModelT.v) *)
Definition check_t (mcf : mcf_t) (mmf : mmf_t) (q : query) : bool :=
  match q with
  | QClass c r => res_eqb str_eqb (t_map_class mcf c) (Ok r)
  | QClassFail c r => res_eqb (opt_eqb str_eqb) (mcf c) (Ok r)
  | QClassR c r => res_eqb str_eqb (t_map_class mcf c) r
  | QClassFailR c r => res_eqb (opt_eqb str_eqb) (mcf c) r
  | QClassAny c r => res_eqb str_eqb (t_map_class_any mcf c) r
  | QDesc d r => res_eqb str_eqb (t_map_desc mcf d) r
  | QFieldFail o k r | QMethodFail o k r => res_eqb okey_eqb (mmf o k) r
  | QField o k r | QMethod o k r => res_eqb key_eqb (t_map_member mcf mmf o k) r
  | QFieldRef o k r | QMethodRefObj o k r => res_eqb key3_eqb (t_map_member_ref mcf mmf o k) r
  | QMethodRef o k r => res_eqb key3_eqb (t_map_method_ref mcf mmf o k) r
  end.

Definition check_a (T : atable) (q : query) : bool :=
  match q with
  | QClass c r => str_eqb (a_map_class T c) r
  | QClassFail c r => opt_eqb str_eqb (a_map_class_fail T c) r
  | QClassAny c r => res_eqb str_eqb (a_map_class_any T c) r
  | QDesc d r => res_eqb str_eqb (a_map_desc T d) r
  (* ARemapperAsBRemapper(remapper_a): no member is ever found, the fall-back always applies *)
  | QFieldFail _ _ r | QMethodFail _ _ r => res_eqb okey_eqb (Ok None) r
  | QField _ k r | QMethod _ k r =>
      res_eqb key_eqb (match a_map_desc T (snd k) with Ok d => Ok (fst k, d) | Err => Err end) r
  (* its *_ref methods: through the default methods of the traits *)
  | _ => check_t (a_mcf T) no_members q
  end.

Definition check_b (R : bremap) (I : inh) (q : query) : bool :=
  match q with
  | QClass c r => str_eqb (b_map_class R c) r
  | QClassFail c r => opt_eqb str_eqb (b_map_class_fail R c) r
  | QClassAny c r => res_eqb str_eqb (b_map_class_any R c) r
  | QDesc d r => res_eqb str_eqb (b_map_desc R d) r
  | QFieldFail o k r => res_eqb okey_eqb (map_field_fail R I o k) r
  | QMethodFail o k r => res_eqb okey_eqb (map_method_fail R I o k) r
  | QField o k r => res_eqb key_eqb (map_field R I o k) r
  | QMethod o k r => res_eqb key_eqb (map_method R I o k) r
  | QFieldRef o k r => res_eqb key3_eqb (map_field_ref R I o k) r
  | QMethodRef o k r => res_eqb key3_eqb (map_method_ref R I o k) r
  | QMethodRefObj o k r => res_eqb key3_eqb (map_method_ref_obj R I o k) r
  | QClassR c r => res_eqb str_eqb (Ok (b_map_class R c)) r
  | QClassFailR c r => res_eqb (opt_eqb str_eqb) (Ok (b_map_class_fail R c)) r
  end.

(* a hand-written remapper with `map_class_fail c = first pair of T with key c` (the harness'
   TableRemapper does a linear search) *)
Fixpoint get_first (k : str) (l : atable) : option str :=
  match l with
  | [] => None
  | (k', v) :: l' => if str_eqb k k' then Some v else get_first k l'
  end.
Definition tbl_map_class (T : atable) (c : str) : str :=
  match get_first c T with Some n => n | None => c end.

(* the inherited round trip: JarSuperProv::remap is [remap_provs]; the way back goes through the
   tables remapper_b(to, from) builds and the remapped providers; a query the harness puts inside the
   hypotheses must satisfy the decidable hypotheses of C06_roundtrip_inherited and come back *)
Definition inh_eqb : inh -> inh -> bool := list_eqb (pair_eqb str_eqb (list_eqb str_eqb)).
Definition check_rt (M : mappings) (from to : N) (R : bremap) (ps ps' : list inh) (rts : list rtq) : bool :=
  match rts with
  | [] => true
  | _ =>
    let ih := concat ps in
    let mps := remap_provs (b_map_class R) ps in
    let ih' := concat mps in
    let world := rt_world R ih && forallb prov_wf ps in
    match remapper_b M (N.to_nat to) (N.to_nat from) with
    | Err => false
    | Ok R' =>
        list_eqb inh_eqb mps ps' &&
        forallb (fun q => match q with RT meth inside o k there back =>
          res_eqb key3_eqb (if meth then map_method_ref_obj R ih o k else map_field_ref R ih o k) there &&
          match there with
          | Ok (c', k') => res_eqb key3_eqb (if meth then map_method_ref_obj R' ih' c' k' else map_field_ref R' ih' c' k') back
          | Err => match back with Err => true | Ok _ => false end
          end &&
          (* (an `if`, not `negb inside || …`: vm_compute is strict, and the hypotheses enumerate the
             pre-order, which has exponentially many entries in a tower of diamonds) *)
          (if inside then
             acyclic_dec ih && world && (if meth then rt_owner b_methods R ih o && method_query_ok R ih o k
                        else rt_owner b_fields R ih o && field_query_ok R ih o k)
              && res_eqb key3_eqb back (Ok (o, k))
           else true)
        end) rts
    end
  end.

Definition check (c : case) : bool :=
  match c with
  | CDesc T d r => res_eqb str_eqb (map_desc (tbl_map_class T) d) r
  | CA M from to qs => forallb (check_a (remapper_a M (N.to_nat from) (N.to_nat to))) qs
  | CT T bad qs ps ps' =>
      forallb (check_t (tbl_mcf T bad) no_members) qs &&
      res_eqb (list_eqb inh_eqb) (remap_provs_r (t_map_class (tbl_mcf T bad)) ps) ps'
  | CN M from to qs =>
      match remapper_b M (N.to_nat from) (N.to_nat to) with
      | Err => false
      | Ok R => forallb (check_b R no_supers) qs
      end
  | CB hyp coh M from to ps qa built qs ps' rts =>
      let ih := concat ps in
      forallb (check_a (remapper_a M (N.to_nat from) (N.to_nat to))) qa &&
      match remapper_b M (N.to_nat from) (N.to_nat to) with
      | Err => negb built && negb hyp && negb coh && is_nil rts
      | Ok R => built && forallb (check_b R ih) qs &&
                (if coh then complete_world M (N.to_nat from) (N.to_nat to) else true) &&
                (if hyp then acyclic_dec ih && rows_valid M && tables_inj R && tables_inj (swap_b R) && names_valid R else true) &&
                check_rt M from to R ps ps' rts
      end
  end.
