(* C06 theory, part 3: consistency with the mapping rows for any source namespace
   (from_not_first), the reverse remapper is the swapped table, X -> Y -> X round trips,
   and non-vacuity examples. *)
From FB Require Import C06.Model C18.Theory C06.Theory1 C06.Theory2.
From Coq Require Import Arith.
Arguments N.add : simpl never.
Arguments N.eqb : simpl never.

(* ------------------------------------------------------------------ *)
(* decidable hypotheses *)

(* the tables name everything injectively: class keys pairwise distinct, and inside every class
   the field keys and the method keys pairwise distinct *)
Definition tables_inj (R : bremap) : bool :=
  nodupb str_eqb (map fst R) &&
  forallb (fun e => nodupb key_eqb (map fst (b_fields (snd e))) &&
                    nodupb key_eqb (map fst (b_methods (snd e)))) R.

(* every target class name is a binary class name *)
Definition names_valid (R : bremap) : bool :=
  forallb (fun e => is_valid_obj_class_name (b_name (snd e))) R.

(* a class name the tables either map, or do not mention as a target *)
Definition closedb (R : bremap) (c : str) : bool :=
  existsb (str_eqb c) (map fst R) || negb (existsb (str_eqb c) (map (fun e => b_name (snd e)) R)).

(* acyclicity with an explicit rank, decidable *)
Definition acyclicb (I : inh) (rank : str -> nat) : bool :=
  forallb (fun e => forallb (fun s => Nat.ltb (rank s) (rank (fst e))) (snd e)) I.

Lemma supers_In I c ss : supers I c = Some ss -> In (c, ss) I.
Proof.
  induction I as [|[k v] I IH]; cbn [supers]; [discriminate|].
  destruct (str_eqb_spec c k) as [->|_]; [intros [= ->]; left; reflexivity|]. intros H. right. apply IH. exact H.
Qed.

Lemma acyclicb_sound I rank : acyclicb I rank = true -> acyclic_rank I rank.
Proof.
  intros H c ss s E Hs. apply supers_In in E. unfold acyclicb in H.
  rewrite forallb_forall in H. specialize (H _ E). cbn [fst snd] in H.
  rewrite forallb_forall in H. specialize (H _ Hs). apply Nat.ltb_lt in H. exact H.
Qed.

Lemma existsb_str c l : existsb (str_eqb c) l = true <-> In c l.
Proof.
  rewrite existsb_exists. split.
  - intros (x & Hx & E). apply str_eqb_eq in E. subst. exact Hx.
  - intros H. exists c. split; [exact H|apply str_eqb_refl].
Qed.

Lemma tables_inj_classes R : tables_inj R = true -> NoDup (map fst R).
Proof.
  unfold tables_inj. intros H. apply andb_true_iff in H as [H _].
  apply (nodupb_NoDup str_eqb); [apply str_eqb_ok|exact H].
Qed.

Lemma tables_inj_members R a cl : tables_inj R = true -> In (a, cl) R ->
  NoDup (map fst (b_fields cl)) /\ NoDup (map fst (b_methods cl)).
Proof.
  unfold tables_inj. intros H Hin. apply andb_true_iff in H as [_ H].
  rewrite forallb_forall in H. specialize (H _ Hin). cbn [snd] in H.
  apply andb_true_iff in H as [H1 H2].
  split; apply (nodupb_NoDup key_eqb); try apply key_eqb_ok; assumption.
Qed.

(* ------------------------------------------------------------------ *)
(* rows -> table entries *)

Lemma member_table_In {A} (dsc : A -> str) (nms : A -> names) Tf Tt from to l tbl x nf nt df dt :
  collect (fun m => member_entry Tf Tt from to (dsc m) (nms m)) l = Ok tbl -> In x l ->
  nth_name (nms x) from = Some nf -> nth_name (nms x) to = Some nt ->
  a_map_desc Tf (dsc x) = Ok df -> a_map_desc Tt (dsc x) = Ok dt ->
  In ((nf, df), (nt, dt)) tbl.
Proof.
  intros Hc Hx Ef Et Edf Edt. destruct (collect_ok_each _ _ _ _ Hc Hx) as (p & Ep & Hp).
  apply Hp. unfold member_entry in Ep. rewrite Ef, Et, Edf, Edt in Ep. injection Ep as <-. left. reflexivity.
Qed.

Lemma remapper_b_class_In M from to R c a b :
  remapper_b M from to = Ok R -> In c (ms_classes M) -> row_has from to a b c ->
  exists fs ms,
    collect (fun f => member_entry (remapper_a M 0 from) (remapper_a M 0 to) from to (f_desc f) (f_names f)) (c_fields c) = Ok fs /\
    collect (fun m => member_entry (remapper_a M 0 from) (remapper_a M 0 to) from to (m_desc m) (m_names m)) (c_methods c) = Ok ms /\
    In (a, mkB b fs ms) R.
Proof.
  unfold remapper_b. intros H Hc [Ea Eb]. destruct (collect_ok_each _ _ _ _ H Hc) as (p & Ep & Hp).
  unfold class_entry in Ep. rewrite Ea, Eb in Ep.
  destruct (collect _ (c_fields c)) as [fs|]; [|discriminate].
  destruct (collect _ (c_methods c)) as [ms|]; [|discriminate].
  injection Ep as <-. exists fs, ms. split; [reflexivity|]. split; [reflexivity|]. apply Hp. left. reflexivity.
Qed.

(* Consistency with the rows, for ANY source namespace: a field row of a class row, both named in
   `from` and `to`, is answered under its `from` name and its descriptor re-expressed in `from`
   (the rows store descriptors in namespace 0), with its `to` name and the descriptor in `to`. *)
Theorem field_row_spec M from to R I c a b f nf nt t :
  remapper_b M from to = Ok R -> tables_inj R = true ->
  In c (ms_classes M) -> row_has from to a b c ->
  In f (c_fields c) -> nth_name (f_names f) from = Some nf -> nth_name (f_names f) to = Some nt ->
  parse_field (f_desc f) = Ok t ->
  let kf := (nf, print_ty (map_ty (a_map_class (remapper_a M 0 from)) t)) in
  let kt := (nt, print_ty (map_ty (a_map_class (remapper_a M 0 to)) t)) in
  map_field_fail R I a kf = Ok (Some kt) /\ map_field R I a kf = Ok kt /\ map_field_ref R I a kf = Ok (b, kt).
Proof.
  intros HR Hinj Hc Hrow Hf Enf Ent Hp kf kt.
  destruct (remapper_b_class_In _ _ _ _ _ _ _ HR Hc Hrow) as (fs & ms & Efs & _ & Hin).
  destruct (map_desc_shape_field (a_map_class (remapper_a M 0 from)) _ _ Hp) as [Edf _].
  destruct (map_desc_shape_field (a_map_class (remapper_a M 0 to)) _ _ Hp) as [Edt _].
  pose proof (member_table_In f_desc f_names _ _ _ _ _ _ _ _ _ _ _ Efs Hf Enf Ent Edf Edt) as Hk.
  assert (Eg : b_get R a = Some (mkB b fs ms)).
  { apply (get_last_nodup str_eqb); [apply str_eqb_ok|apply tables_inj_classes; exact Hinj|exact Hin]. }
  assert (Ed : declared b_fields R a kf = Some kt).
  { unfold declared. rewrite Eg. cbn [b_fields].
    apply (get_last_nodup key_eqb); [apply key_eqb_ok| |exact Hk].
    apply (tables_inj_members R a (mkB b fs ms) Hinj Hin). }
  destruct (map_member_direct b_fields R I a kf kt Ed) as [E1 E2].
  split; [exact E1|]. split; [exact E2|].
  unfold map_field_ref, map_field. rewrite E2. unfold b_map_class, b_map_class_fail. rewrite Eg. reflexivity.
Qed.

Theorem method_row_spec M from to R I c a b m nf nt t :
  remapper_b M from to = Ok R -> tables_inj R = true ->
  In c (ms_classes M) -> row_has from to a b c ->
  In m (c_methods c) -> nth_name (m_names m) from = Some nf -> nth_name (m_names m) to = Some nt ->
  parse_method (m_desc m) = Ok t ->
  let kf := (nf, print_method (map_mty (a_map_class (remapper_a M 0 from)) t)) in
  let kt := (nt, print_method (map_mty (a_map_class (remapper_a M 0 to)) t)) in
  map_method_fail R I a kf = Ok (Some kt) /\ map_method R I a kf = Ok kt /\
  map_method_ref_obj R I a kf = Ok (b, kt).
Proof.
  intros HR Hinj Hc Hrow Hm Enf Ent Hp kf kt.
  destruct (remapper_b_class_In _ _ _ _ _ _ _ HR Hc Hrow) as (fs & ms & _ & Ems & Hin).
  destruct (map_desc_shape_method (a_map_class (remapper_a M 0 from)) _ _ Hp) as [Edf _].
  destruct (map_desc_shape_method (a_map_class (remapper_a M 0 to)) _ _ Hp) as [Edt _].
  pose proof (member_table_In m_desc m_names _ _ _ _ _ _ _ _ _ _ _ Ems Hm Enf Ent Edf Edt) as Hk.
  assert (Eg : b_get R a = Some (mkB b fs ms)).
  { apply (get_last_nodup str_eqb); [apply str_eqb_ok|apply tables_inj_classes; exact Hinj|exact Hin]. }
  assert (Ed : declared b_methods R a kf = Some kt).
  { unfold declared. rewrite Eg. cbn [b_methods].
    apply (get_last_nodup key_eqb); [apply key_eqb_ok| |exact Hk].
    apply (tables_inj_members R a (mkB b fs ms) Hinj Hin). }
  destruct (map_member_direct b_methods R I a kf kt Ed) as [E1 E2].
  split; [exact E1|]. split; [exact E2|].
  unfold map_method_ref_obj, map_method. rewrite E2. unfold b_map_class, b_map_class_fail. rewrite Eg. reflexivity.
Qed.

(* remapper_b succeeds on mapping sets whose row descriptors are descriptors *)
Definition rows_valid (M : mappings) : bool :=
  forallb (fun c => forallb (fun f => is_ok (parse_field (f_desc f))) (c_fields c) &&
                    forallb (fun m => is_ok (parse_method (m_desc m))) (c_methods c)) (ms_classes M).

Lemma collect_all_ok {A B} (f : A -> res (list B)) l :
  (forall x, In x l -> exists p, f x = Ok p) -> exists r, collect f l = Ok r.
Proof.
  induction l as [|y l IH]; intros H; cbn [collect]; [eexists; reflexivity|].
  destruct (H y (or_introl eq_refl)) as (p & ->).
  destruct (IH (fun x Hx => H x (or_intror Hx))) as (r & ->). eexists. reflexivity.
Qed.

Theorem remapper_b_total M from to : rows_valid M = true -> exists R, remapper_b M from to = Ok R.
Proof.
  intros Hv. unfold remapper_b. apply collect_all_ok. intros c Hc.
  unfold rows_valid in Hv. rewrite forallb_forall in Hv. specialize (Hv c Hc).
  apply andb_true_iff in Hv as [Hf Hm]. rewrite forallb_forall in Hf, Hm.
  unfold class_entry. destruct (nth_name (c_names c) from); [|eexists; reflexivity].
  destruct (nth_name (c_names c) to); [|eexists; reflexivity].
  destruct (collect_all_ok (fun f => member_entry (remapper_a M 0 from) (remapper_a M 0 to) from to (f_desc f) (f_names f)) (c_fields c)) as (fs & ->).
  { intros f Hin. specialize (Hf f Hin). destruct (parse_field (f_desc f)) as [t|] eqn:E; [|discriminate].
    unfold member_entry, a_map_desc. destruct (nth_name (f_names f) from); [|eexists; reflexivity].
    destruct (nth_name (f_names f) to); [|eexists; reflexivity].
    rewrite (proj1 (map_desc_shape_field _ _ _ E)), (proj1 (map_desc_shape_field _ _ _ E)). eexists. reflexivity. }
  destruct (collect_all_ok (fun m => member_entry (remapper_a M 0 from) (remapper_a M 0 to) from to (m_desc m) (m_names m)) (c_methods c)) as (ms & ->).
  { intros m Hin. specialize (Hm m Hin). destruct (parse_method (m_desc m)) as [t|] eqn:E; [|discriminate].
    unfold member_entry, a_map_desc. destruct (nth_name (m_names m) from); [|eexists; reflexivity].
    destruct (nth_name (m_names m) to); [|eexists; reflexivity].
    rewrite (proj1 (map_desc_shape_method _ _ _ E)), (proj1 (map_desc_shape_method _ _ _ E)). eexists. reflexivity. }
  eexists. reflexivity.
Qed.

(* ------------------------------------------------------------------ *)
(* the reverse remapper is the swapped table *)

Definition swap_mt (t : mtable) : mtable := map (fun e => (snd e, fst e)) t.
Definition swap_cl (e : str * bclass) : str * bclass :=
  (b_name (snd e), mkB (fst e) (swap_mt (b_fields (snd e))) (swap_mt (b_methods (snd e)))).
Definition swap_b (R : bremap) : bremap := map swap_cl R.

Lemma member_entry_swap Tf Tt from to d nm p :
  member_entry Tf Tt from to d nm = Ok p -> member_entry Tt Tf to from d nm = Ok (swap_mt p).
Proof.
  unfold member_entry. destruct (nth_name nm from) as [a|], (nth_name nm to) as [b|];
    try (intros [= <-]; reflexivity).
  destruct (a_map_desc Tf d) as [df|]; [|discriminate].
  destruct (a_map_desc Tt d) as [dt|]; [|discriminate]. intros [= <-]. reflexivity.
Qed.

Lemma class_entry_swap Tf Tt from to c p :
  class_entry Tf Tt from to c = Ok p -> class_entry Tt Tf to from c = Ok (map swap_cl p).
Proof.
  unfold class_entry. destruct (nth_name (c_names c) from) as [a|], (nth_name (c_names c) to) as [b|];
    try (intros [= <-]; reflexivity).
  destruct (collect _ (c_fields c)) as [fs|] eqn:Ef; [|discriminate].
  destruct (collect _ (c_methods c)) as [ms|] eqn:Em; [|discriminate]. intros [= <-].
  rewrite (collect_map _ (fun f => member_entry Tt Tf to from (f_desc f) (f_names f)) (fun e => (snd e, fst e)) _ _
             (fun x q _ H => member_entry_swap _ _ _ _ _ _ _ H) Ef).
  rewrite (collect_map _ (fun m => member_entry Tt Tf to from (m_desc m) (m_names m)) (fun e => (snd e, fst e)) _ _
             (fun x q _ H => member_entry_swap _ _ _ _ _ _ _ H) Em).
  reflexivity.
Qed.

Theorem remapper_b_swap M from to R :
  remapper_b M from to = Ok R -> remapper_b M to from = Ok (swap_b R).
Proof.
  unfold remapper_b, swap_b. intros H.
  apply (collect_map _ _ swap_cl _ _ (fun x q _ Hq => class_entry_swap _ _ _ _ _ _ Hq) H).
Qed.

Lemma swap_b_keys R : map fst (swap_b R) = map (fun e => b_name (snd e)) R.
Proof. unfold swap_b. rewrite map_map. reflexivity. Qed.

Lemma swap_b_In R a cl : In (a, cl) R ->
  In (b_name cl, mkB a (swap_mt (b_fields cl)) (swap_mt (b_methods cl))) (swap_b R).
Proof. intros H. unfold swap_b. apply in_map_iff. exists (a, cl). split; [reflexivity|exact H]. Qed.

Lemma swap_b_get R a cl : tables_inj (swap_b R) = true -> In (a, cl) R ->
  b_get (swap_b R) (b_name cl) = Some (mkB a (swap_mt (b_fields cl)) (swap_mt (b_methods cl))).
Proof.
  intros Hinj Hin. apply (get_last_nodup str_eqb); [apply str_eqb_ok|apply tables_inj_classes; exact Hinj|].
  apply swap_b_In. exact Hin.
Qed.

(* ------------------------------------------------------------------ *)
(* round trips *)

Theorem roundtrip_class R c :
  tables_inj (swap_b R) = true -> closedb R c = true ->
  b_map_class (swap_b R) (b_map_class R c) = c.
Proof.
  intros Hinj Hcl. unfold b_map_class at 2. unfold b_map_class_fail.
  destruct (b_get R c) as [cl|] eqn:E.
  - apply (get_last_In str_eqb) in E; [|apply str_eqb_ok].
    unfold b_map_class, b_map_class_fail. rewrite (swap_b_get R c cl Hinj E). reflexivity.
  - apply (get_last_None str_eqb) in E; [|apply str_eqb_ok].
    unfold closedb in Hcl. apply orb_true_iff in Hcl as [Hcl|Hcl].
    + apply existsb_str in Hcl. contradiction.
    + unfold b_map_class, b_map_class_fail.
      assert (En : b_get (swap_b R) c = None).
      { apply (get_last_None str_eqb); [apply str_eqb_ok|]. rewrite swap_b_keys. intros Hin.
        apply existsb_str in Hin. rewrite Hin in Hcl. discriminate. }
      rewrite En. reflexivity.
Qed.

Lemma names_valid_range R : names_valid R = true -> range_valid (b_map_class R).
Proof.
  intros Hv n Hn. unfold b_map_class, b_map_class_fail. destruct (b_get R n) as [cl|] eqn:E; [|exact Hn].
  apply (get_last_In str_eqb) in E; [|apply str_eqb_ok].
  unfold names_valid in Hv. rewrite forallb_forall in Hv. specialize (Hv _ E). cbn [snd] in Hv.
  apply obj_class_name_spec. exact Hv.
Qed.

Theorem roundtrip_field_desc R d t :
  names_valid R = true -> tables_inj (swap_b R) = true ->
  parse_field d = Ok t -> forallb (closedb R) (ty_names t) = true ->
  b_map_desc R d = Ok (print_ty (map_ty (b_map_class R) t)) /\
  b_map_desc (swap_b R) (print_ty (map_ty (b_map_class R) t)) = Ok d.
Proof.
  intros Hv Hinj Hp Hcl. unfold b_map_desc.
  destruct (map_desc_twice_field (b_map_class R) (b_map_class (swap_b R)) d t (names_valid_range R Hv) Hp) as [E1 E2].
  split; [exact E1|]. rewrite E2. f_equal.
  rewrite (map_ty_ext _ (fun x => x)).
  - rewrite map_ty_id. apply print_parse_field. exact Hp.
  - intros n Hn. apply roundtrip_class; [exact Hinj|]. rewrite forallb_forall in Hcl. apply Hcl. exact Hn.
Qed.

Theorem roundtrip_method_desc R d m :
  names_valid R = true -> tables_inj (swap_b R) = true ->
  parse_method d = Ok m -> forallb (closedb R) (mty_names m) = true ->
  b_map_desc R d = Ok (print_method (map_mty (b_map_class R) m)) /\
  b_map_desc (swap_b R) (print_method (map_mty (b_map_class R) m)) = Ok d.
Proof.
  intros Hv Hinj Hp Hcl. unfold b_map_desc.
  destruct (map_desc_twice_method (b_map_class R) (b_map_class (swap_b R)) d m (names_valid_range R Hv) Hp) as [E1 E2].
  split; [exact E1|]. rewrite E2. f_equal.
  rewrite (map_mty_ext _ (fun x => x)).
  - rewrite map_mty_id. apply print_parse_method. exact Hp.
  - intros n Hn. apply roundtrip_class; [exact Hinj|]. rewrite forallb_forall in Hcl. apply Hcl. exact Hn.
Qed.

Theorem map_desc_twice_return f g d r : range_valid f -> parse_return d = Ok r ->
  map_desc f d = Ok (print_return (map_ret f r)) /\
  map_desc g (print_return (map_ret f r)) = Ok (print_return (map_ret (fun n => g (f n)) r)).
Proof.
  intros Hf H. destruct (map_desc_shape_return f d r H) as [E1 E2]. split; [exact E1|].
  destruct (map_desc_shape_return g _ _ (E2 Hf)) as [E3 _]. rewrite E3.
  destruct r as [t|]; cbn [map_ret]; [rewrite map_ty_comp|]; reflexivity.
Qed.

Theorem roundtrip_return_desc R d r :
  names_valid R = true -> tables_inj (swap_b R) = true ->
  parse_return d = Ok r -> forallb (closedb R) (ret_names r) = true ->
  b_map_desc R d = Ok (print_return (map_ret (b_map_class R) r)) /\
  b_map_desc (swap_b R) (print_return (map_ret (b_map_class R) r)) = Ok d.
Proof.
  intros Hv Hinj Hp Hcl. unfold b_map_desc.
  destruct (map_desc_twice_return (b_map_class R) (b_map_class (swap_b R)) d r (names_valid_range R Hv) Hp) as [E1 E2].
  split; [exact E1|]. rewrite E2. f_equal.
  destruct r as [t|]; cbn [map_ret ret_names] in *.
  - rewrite (map_ty_ext _ (fun x => x)).
    + rewrite map_ty_id. apply (print_parse_return d (Some t)). exact Hp.
    + intros n Hn. apply roundtrip_class; [exact Hinj|]. rewrite forallb_forall in Hcl. apply Hcl. exact Hn.
  - apply (print_parse_return d None). exact Hp.
Qed.

Lemma swap_mt_In t k v : In (k, v) t -> In (v, k) (swap_mt t).
Proof. intros H. unfold swap_mt. apply in_map_iff. exists (k, v). split; [reflexivity|exact H]. Qed.

(* a directly declared member: there and back, whatever the providers are *)
Theorem roundtrip_member sel R c k v I I' :
  sel = b_fields \/ sel = b_methods ->
  tables_inj (swap_b R) = true ->
  declared sel R c k = Some v ->
  map_member sel (default_fuel I) R I c k = Ok v /\
  map_member sel (default_fuel I') (swap_b R) I' (b_map_class R c) v = Ok k.
Proof.
  intros Hsel Hinj Hd. split; [apply (map_member_direct sel R I c k v Hd)|].
  apply map_member_direct. unfold declared in Hd |- *.
  destruct (b_get R c) as [cl|] eqn:E; [|discriminate].
  unfold b_map_class, b_map_class_fail. rewrite E.
  apply (get_last_In str_eqb) in E; [|apply str_eqb_ok].
  rewrite (swap_b_get R c cl Hinj E).
  apply (get_last_In key_eqb) in Hd; [|apply key_eqb_ok]. apply swap_mt_In in Hd.
  pose proof (tables_inj_members _ _ _ Hinj (swap_b_In R c cl E)) as [Nf Nm]. cbn [b_fields b_methods] in Nf, Nm.
  destruct Hsel as [-> | ->]; cbn [b_fields b_methods];
    (apply (get_last_nodup key_eqb); [apply key_eqb_ok|assumption|exact Hd]).
Qed.

(* stated on the mapping set: X -> Y then Y -> X *)
Theorem roundtrip_mappings M X Y R :
  remapper_b M X Y = Ok R -> tables_inj (swap_b R) = true ->
  exists R', remapper_b M Y X = Ok R' /\
    (forall c, closedb R c = true -> b_map_class R' (b_map_class R c) = c) /\
    (forall I I' c k v, declared b_fields R c k = Some v ->
        map_field R I c k = Ok v /\ map_field R' I' (b_map_class R c) v = Ok k) /\
    (forall I I' c k v, declared b_methods R c k = Some v ->
        map_method R I c k = Ok v /\ map_method R' I' (b_map_class R c) v = Ok k).
Proof.
  intros HR Hinj. exists (swap_b R). split; [apply remapper_b_swap; exact HR|].
  split; [intros c Hc; apply roundtrip_class; assumption|].
  split; intros I I' c k v Hd.
  - apply (roundtrip_member b_fields R c k v I I' (or_introl eq_refl) Hinj Hd).
  - apply (roundtrip_member b_methods R c k v I I' (or_intror eq_refl) Hinj Hd).
Qed.

(* ------------------------------------------------------------------ *)
(* non-vacuity: three namespaces, from = 1 (not the first), to = 2; Sub shadows Base.m;
   the owner U has no row at all; Mid declares nothing *)
From Coq Require Import String Ascii.

Fixpoint s2l (s : string) : str :=
  match s with
  | EmptyString => []
  | String a s' => N_of_ascii a :: s2l s'
  end.
Definition row3 (a b c : string) : names := [Some (s2l a); Some (s2l b); Some (s2l c)].

Definition ex_M : mappings :=
  mkMappings [s2l "official"; s2l "intermediary"; s2l "named"] None
    [ mkClass (row3 "Base" "b/Base1" "n/BaseN") None
        [mkField (s2l "LSub;") (row3 "f" "f1" "fN") None]
        [mkMeth (s2l "([LBase;I)V") (row3 "m" "m1" "mN") None []];
      mkClass (row3 "Mid" "b/Mid1" "n/MidN") None [] [];
      mkClass (row3 "Sub" "b/Sub1" "n/SubN") None []
        [mkMeth (s2l "([LBase;I)V") (row3 "m" "m1" "mSubN") None []];
      mkClass [Some (s2l "Half"); Some (s2l "b/Half1"); None] None
        [mkField (s2l "I") (row3 "g" "g1" "gN") None] [] ].

Definition ex_I : inh :=
  [ (s2l "U", [s2l "not/Known"; s2l "b/Mid1"]); (s2l "b/Mid1", [s2l "b/Base1"]);
    (s2l "b/Sub1", [s2l "b/Mid1"]); (s2l "V", [s2l "b/Sub1"; s2l "b/Base1"]);
    (s2l "b/Half1", [s2l "b/Base1"]) ].

Definition ex_rank (c : str) : nat :=
  if str_eqb c (s2l "b/Base1") then 1 else if str_eqb c (s2l "b/Mid1") then 2
  else if str_eqb c (s2l "b/Sub1") then 3 else if str_eqb c (s2l "not/Known") then 0 else 4.

Definition ex_R : bremap :=
  match remapper_b ex_M 1 2 with Ok R => R | Err => [] end.

Definition nonvacuous : Prop :=
  wf ex_M = true /\ rows_valid ex_M = true /\
  remapper_b ex_M 1 2 = Ok ex_R /\ ex_R <> [] /\
  tables_inj ex_R = true /\ tables_inj (swap_b ex_R) = true /\ names_valid ex_R = true /\
  acyclicb ex_I ex_rank = true /\
  (* unmapped owner, unmapped first super type, Mid declares nothing: answered by Base, key in namespace 1 *)
  map_method ex_R ex_I (s2l "U") (s2l "m1", s2l "([Lb/Base1;I)V") = Ok (s2l "mN", s2l "([Ln/BaseN;I)V") /\
  (* shadowing: V extends Sub, Base: Sub comes first in pre-order *)
  map_method ex_R ex_I (s2l "V") (s2l "m1", s2l "([Lb/Base1;I)V") = Ok (s2l "mSubN", s2l "([Ln/BaseN;I)V") /\
  (* the key is NOT the descriptor as written in namespace 0 *)
  map_method ex_R ex_I (s2l "U") (s2l "m1", s2l "([LBase;I)V") = Ok (s2l "m1", s2l "([LBase;I)V") /\
  (* a row without a name in `to`: no entry, its members are not answered, its super types are searched *)
  map_field ex_R ex_I (s2l "b/Half1") (s2l "g1", s2l "I") = Ok (s2l "g1", s2l "I") /\
  map_field ex_R ex_I (s2l "b/Half1") (s2l "f1", s2l "Lb/Sub1;") = Ok (s2l "fN", s2l "Ln/SubN;") /\
  closedb ex_R (s2l "b/Sub1") = true /\ closedb ex_R (s2l "java/lang/Object") = true /\
  closedb ex_R (s2l "n/SubN") = false /\
  (* malformed descriptors *)
  map_desc (fun x => x) (s2l "(L;)V") = Err /\ map_desc (fun x => x) (s2l "LA") = Err /\
  range_valid (b_map_class ex_R).

Lemma nonvacuous_holds : nonvacuous.
Proof.
  unfold nonvacuous.
  repeat (split; [vm_compute; try reflexivity; try discriminate|]).
  apply names_valid_range. vm_compute. reflexivity.
Qed.
