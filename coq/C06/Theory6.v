(* C06 theory, part 6 (round 4): the work of one query.
   The search of the code (map_member_fail_m: path + set of finished owners) instrumented with the list
   of owners whose member table it consults.  Erasing the list gives map_member_fail_m back, and the
   list never contains a class twice: one query looks at the table of every class at most once —
   on any provider, cyclic or not, whatever the number of paths (towers of diamonds). *)
From FB Require Import C06.Model C06.Theory2.
From Coq Require Import Arith.

Fixpoint fold_tt (g : list str -> list str -> str -> outcome * list str) (failed tr : list str) (ss : list str)
  : outcome * list str :=
  match ss with
  | [] => (NotFound failed, tr)
  | s :: ss' =>
      match g failed tr s with
      | (NotFound fl, t) => fold_tt g fl t ss'
      | r => r
      end
  end.

(* [tr]: the owners whose table has been consulted so far, latest first *)
Fixpoint map_member_fail_t (sel : bclass -> mtable) (fuel : nat) (R : bremap) (I : inh) (k : key)
         (path failed tr : list str) (owner : str) : outcome * list str :=
  match fuel with
  | O => (Bail, tr)
  | S f =>
      if existsb (str_eqb owner) path then (Bail, tr)
      else if existsb (str_eqb owner) failed then (NotFound failed, tr)
      else
      match declared sel R owner k with
      | Some v => (Found v, owner :: tr)
      | None =>
          match supers I owner with
          | Some ss =>
              match fold_tt (fun fl t s => map_member_fail_t sel f R I k (owner :: path) fl t s) failed (owner :: tr) ss with
              | (NotFound fl, t) => (NotFound (owner :: fl), t)
              | r => r
              end
          | None => (NotFound (owner :: failed), owner :: tr)
          end
      end
  end.

(* erasure: the instrumented search computes the outcome of the model *)
Lemma map_member_fail_t_erase sel R I k : forall fuel path failed tr c,
  fst (map_member_fail_t sel fuel R I k path failed tr c) = map_member_fail_m sel fuel R I k path failed c.
Proof.
  induction fuel as [|f IH]; intros path failed tr c; [reflexivity|].
  cbn [map_member_fail_t map_member_fail_m].
  destruct (existsb (str_eqb c) path); [reflexivity|].
  destruct (existsb (str_eqb c) failed); [reflexivity|].
  destruct (declared sel R c k); [reflexivity|].
  destruct (supers I c) as [ss|]; [|reflexivity].
  assert (H : forall ss fl t,
    fst (fold_tt (fun fl t s => map_member_fail_t sel f R I k (c :: path) fl t s) fl t ss) =
    fold_st (fun fl s => map_member_fail_m sel f R I k (c :: path) fl s) fl ss).
  { induction ss0 as [|s ss0 IHss]; intros fl t; cbn [fold_tt fold_st]; [reflexivity|].
    rewrite <- (IH (c :: path) fl t s).
    destruct (map_member_fail_t sel f R I k (c :: path) fl t s) as [[v| |fl1] t1]; cbn [fst]; try reflexivity.
    apply IHss. }
  specialize (H ss failed (c :: tr)).
  destruct (fold_tt _ failed (c :: tr) ss) as [[v| |fl1] t1]; cbn [fst] in *; rewrite <- H; reflexivity.
Qed.

(* the consulted owners are pairwise distinct; while the search goes on (NotFound) each of them is
   on the path or finished *)
Definition trace_ok (path : list str) (r : outcome * list str) : Prop :=
  NoDup (snd r) /\ match fst r with NotFound fl => incl (snd r) (path ++ fl) | _ => True end.

Lemma not_in_app_str c (a b : list str) :
  existsb (str_eqb c) a = false -> existsb (str_eqb c) b = false -> ~ In c (a ++ b).
Proof.
  intros Ha Hb Hin. apply in_app_or in Hin as [H|H].
  - rewrite (existsb_str_true _ _ H) in Ha. discriminate.
  - rewrite (existsb_str_true _ _ H) in Hb. discriminate.
Qed.

Lemma incl_push (c : str) (tr path fl : list str) : incl tr (path ++ fl) -> incl (c :: tr) ((c :: path) ++ fl).
Proof. intros H x [<-|Hx]; [left; reflexivity|right; apply H; exact Hx]. Qed.

Lemma incl_pop (c : str) (t path fl : list str) : incl t ((c :: path) ++ fl) -> incl t (path ++ c :: fl).
Proof.
  intros H x Hx. specialize (H x Hx). cbn [app] in H. destruct H as [<-|H].
  - apply in_or_app. right. left. reflexivity.
  - apply in_app_or in H as [H|H]; apply in_or_app; [left; exact H|right; right; exact H].
Qed.

Theorem map_member_fail_t_trace sel R I k : forall fuel path failed tr c,
  NoDup tr -> incl tr (path ++ failed) ->
  trace_ok path (map_member_fail_t sel fuel R I k path failed tr c).
Proof.
  induction fuel as [|f IH]; intros path failed tr c Hnd Hincl; [split; [exact Hnd|exact Logic.I]|].
  cbn [map_member_fail_t].
  destruct (existsb (str_eqb c) path) eqn:Ep; [split; [exact Hnd|exact Logic.I]|].
  destruct (existsb (str_eqb c) failed) eqn:Ef; [split; [exact Hnd|exact Hincl]|].
  assert (Hnew : NoDup (c :: tr)).
  { constructor; [|exact Hnd]. intros Hin. apply (not_in_app_str c path failed Ep Ef). apply Hincl. exact Hin. }
  destruct (declared sel R c k); [split; [exact Hnew|exact Logic.I]|].
  destruct (supers I c) as [ss|].
  - assert (H : forall ss fl t, NoDup t -> incl t ((c :: path) ++ fl) ->
      trace_ok (c :: path) (fold_tt (fun fl t s => map_member_fail_t sel f R I k (c :: path) fl t s) fl t ss)).
    { induction ss0 as [|s ss0 IHss]; intros fl t Hn Hi; cbn [fold_tt]; [split; [exact Hn|exact Hi]|].
      pose proof (IH (c :: path) fl t s Hn Hi) as [H1 H2].
      destruct (map_member_fail_t sel f R I k (c :: path) fl t s) as [[v| |fl1] t1]; cbn [fst snd] in *.
      - split; [exact H1|exact Logic.I].
      - split; [exact H1|exact Logic.I].
      - apply IHss; assumption. }
    specialize (H ss failed (c :: tr) Hnew (incl_push c tr path failed Hincl)). destruct H as [H1 H2].
    destruct (fold_tt _ failed (c :: tr) ss) as [[v| |fl1] t1]; cbn [fst snd] in *.
    + split; [exact H1|exact Logic.I].
    + split; [exact H1|exact Logic.I].
    + split; [exact H1|]. apply incl_pop. exact H2.
  - split; [exact Hnew|]. cbn [fst snd]. apply incl_pop. apply incl_push. exact Hincl.
Qed.

(* one query consults the member table of every class at most once *)
Theorem tables_consulted_once sel R I k fuel c :
  fst (map_member_fail_t sel fuel R I k [] [] [] c) = map_member_fail_m sel fuel R I k [] [] c /\
  NoDup (snd (map_member_fail_t sel fuel R I k [] [] [] c)).
Proof.
  split; [apply map_member_fail_t_erase|].
  apply (map_member_fail_t_trace sel R I k fuel [] [] [] c); [constructor|intros x []].
Qed.

(* every consulted class is the owner or a class the provider mentions below it *)
Lemma map_member_fail_t_sub sel R I k (P : str -> Prop) :
  (forall c ss s, P c -> supers I c = Some ss -> In s ss -> P s) ->
  forall fuel path failed tr c, P c -> (forall x, In x tr -> P x) ->
  forall x, In x (snd (map_member_fail_t sel fuel R I k path failed tr c)) -> P x.
Proof.
  intros HP. induction fuel as [|f IH]; intros path failed tr c Pc Htr; [exact Htr|].
  cbn [map_member_fail_t].
  destruct (existsb (str_eqb c) path); [exact Htr|].
  destruct (existsb (str_eqb c) failed); [exact Htr|].
  assert (Htr1 : forall x, In x (c :: tr) -> P x) by (intros x [<-|Hx]; [exact Pc|apply Htr; exact Hx]).
  destruct (declared sel R c k); [exact Htr1|].
  destruct (supers I c) as [ss|] eqn:E; [|exact Htr1].
  assert (H : forall ss0 fl t, incl ss0 ss -> (forall x, In x t -> P x) ->
    forall x, In x (snd (fold_tt (fun fl t s => map_member_fail_t sel f R I k (c :: path) fl t s) fl t ss0)) -> P x).
  { induction ss0 as [|s ss0 IHss]; intros fl t Hi Ht; cbn [fold_tt]; [exact Ht|].
    pose proof (IH (c :: path) fl t s (HP c ss s Pc E (Hi s (or_introl eq_refl))) Ht) as H1.
    destruct (map_member_fail_t sel f R I k (c :: path) fl t s) as [[v| |fl1] t1]; cbn [snd] in *; try exact H1.
    apply IHss; [intros y Hy; apply Hi; right; exact Hy|exact H1]. }
  specialize (H ss failed (c :: tr) (fun y Hy => Hy) Htr1).
  destruct (fold_tt _ failed (c :: tr) ss) as [[v| |fl1] t1]; cbn [snd] in *; exact H.
Qed.

(* a numeric bound: at most one table look-up per class name the provider mentions, plus the owner *)
Theorem work_bound sel R I k fuel c :
  (length (snd (map_member_fail_t sel fuel R I k [] [] [] c)) <=
   S (length (flat_map (fun e => fst e :: snd e) I)))%nat.
Proof.
  set (names := flat_map (fun e => fst e :: snd e) I).
  assert (Hsub : incl (snd (map_member_fail_t sel fuel R I k [] [] [] c)) (c :: names)).
  { intros x Hx.
    assert (Px : x = c \/ In x names).
    { apply (map_member_fail_t_sub sel R I k (fun y => y = c \/ In y names)) with (fuel := fuel) (path := []) (failed := []) (tr := []) (c := c).
      - intros c0 ss s _ E Hs. right. apply supers_In' in E. apply in_flat_map. exists (c0, ss). split; [exact E|right; exact Hs].
      - left. reflexivity.
      - intros y [].
      - exact Hx. }
    destruct Px as [->|H]; [left; reflexivity|right; exact H]. }
  pose proof (proj2 (tables_consulted_once sel R I k fuel c)) as Hnd.
  pose proof (NoDup_incl_length Hnd Hsub) as H. cbn [length] in H. exact H.
Qed.
